(* C11 — exactness degree 2K+1 of the Romberg weights, for EVERY K (no bound).
   (1) the weights of the complete grid of depth K (boundary / inner weights by level, as RombergWeightFactory hands them
       out) applied to ANY function f give  sum_j c_{K,j} * trapD f a (b-a) j  (the extrapolated dyadic trapezoidal sums);
   (2) with the even expansion of trapD on monomials (Proofs/RombergEM.v), sum_j c_{K,j} = 1 and the annihilation
       sum_j c_{K,j} h_j^(2l) = 0, l = 1..K (Proofs/RombergAnnihilate.v): monomials up to degree 2K+1 are integrated exactly;
   (3) hence every container of 2^K >= 2 equal adjacent slices integrates x^k, k <= 2K+1, exactly over its own interval, and
       the whole pipeline is exact to degree 2*Kmin+1 when every container has at least 2^Kmin >= 2 slices - in
       particular on the complete dyadic grid of depth m with GROUPED / GROUPED_OPTIMIZED (one container of 2^m slices). *)
From Coq Require Import ZArith List QArith Qcanon Bool Arith Lia.
From SG Require Import Base.QcUtil Model.Romberg Proofs.RombergBasics Proofs.RombergCoeff Proofs.RombergTree
  Proofs.RombergSliced Proofs.RombergExact Proofs.RombergGrouped Proofs.RombergAnnihilate Proofs.RombergEM.
Import ListNotations.
Open Scope Qc_scope.

Local Notation hf := (/ (1 + 1)).

(* ---------------------------------------------------------------------------------------------- *)
(* dyadic trapezoidal sum = h_j * ((f(lo) + f(hi))/2 + sum of f over the inner nodes of level <= j) *)

Fixpoint inner_sum (f : Qc -> Qc) (lo w : Qc) (j : nat) : Qc :=
  match j with
  | O => 0
  | S j' => inner_sum f lo (w * hf) j' + f (lo + w * hf) + inner_sum f (lo + w * hf) (w * hf) j'
  end.

Lemma trapD_inner f : forall j lo w,
  trapD f lo w j = w * hf ^ j * ((f lo + f (lo + w)) * hf + inner_sum f lo w j).
Proof.
  induction j as [|j IH]; intros lo w.
  - cbn [trapD inner_sum]. simpl. ring.
  - rewrite trapD_S, !IH, lo_half_half. cbn [inner_sum]. simpl (hf ^ S j). field. exact two_neq0.
Qed.

(* in-order nodes of the complete binary subtree of depth d over [lo, lo+w] *)
Fixpoint nodes (lo w : Qc) (d : nat) : list Qc :=
  match d with
  | O => []
  | S d' => nodes lo (w * hf) d' ++ [lo + w * hf] ++ nodes (lo + w * hf) (w * hf) d'
  end.

Lemma nodes_length d : forall lo w, length (nodes lo w d) = (2 ^ d - 1)%nat.
Proof.
  induction d as [|d IH]; intros lo w; [reflexivity|].
  cbn [nodes]. rewrite !app_length, !IH. cbn [length]. rewrite Nat.pow_succ_r'.
  assert (1 <= 2 ^ d)%nat by (apply Nat.neq_0_lt_0, Nat.pow_nonzero; lia). lia.
Qed.

Lemma dotQ_app a b c d : length a = length c -> dotQ (a ++ b) (c ++ d) = dotQ a c + dotQ b d.
Proof.
  revert c. induction a as [|x a IH]; intros c H; destruct c as [|y c]; try discriminate; [simpl; ring|].
  cbn [app dotQ]. rewrite IH by (simpl in H; lia). ring.
Qed.

Section FullGridDot.
Variables (a b : Qc) (K : nat).
Variable f : Qc -> Qc.

Local Notation F := (fj a b K).
Local Notation IW := (innerW a b K).

Lemma subtree_dot d : forall lev lo w, (lev + d = S K)%nat ->
  dotQ (map f (nodes lo w d)) (map IW (full_levels d lev))
  = sumQ (map (fun j => F j * inner_sum f lo w (S j - lev)) (seq lev (S K - lev))).
Proof.
  induction d as [|d IH]; intros lev lo w H.
  - replace (S K - lev)%nat with 0%nat by lia. reflexivity.
  - cbn [nodes full_levels]. rewrite !map_app.
    rewrite dotQ_app by (rewrite !map_length, nodes_length, full_levels_length; reflexivity).
    cbn [map app dotQ]. rewrite (IH (S lev) lo (w * hf)) by lia. rewrite (IH (S lev) (lo + w * hf) (w * hf)) by lia.
    replace (S K - lev)%nat with (S (S K - S lev)) by lia. cbn [seq map sumQ].
    replace (S lev - lev)%nat with 1%nat by lia. cbn [inner_sum].
    rewrite (sumQ_map_ext_in (fun j => F j * inner_sum f lo w (S j - lev))
               (fun j => F j * inner_sum f lo (w * hf) (S j - S lev)
                         + (f (lo + w * hf) * F j + F j * inner_sum f (lo + w * hf) (w * hf) (S j - S lev)))
               (seq (S lev) (S K - S lev))).
    2:{ intros j Hj. apply in_seq in Hj. replace (S j - lev)%nat with (S (S j - S lev)) by lia. cbn [inner_sum]. ring. }
    rewrite !sumQ_map_add, sumQ_map_scale.
    unfold innerW. replace (S K - lev)%nat with (S (S K - S lev)) by lia. cbn [seq map sumQ]. ring.
Qed.

End FullGridDot.

Definition Wlist (a b : Qc) (K : nat) : list Qc :=
  [boundaryW a b K] ++ map (innerW a b K) (full_levels K 1) ++ [boundaryW a b K].

Lemma step_width_hf a b j : (b - a) * hf ^ j = step_width a b j.
Proof. unfold step_width, pow2, Qcdiv. rewrite Qc2_eq, pow_inv. reflexivity. Qed.

Lemma dotQ_snoc u v x y : length u = length v -> dotQ (u ++ [x]) (v ++ [y]) = dotQ u v + x * y.
Proof. intro H. rewrite dotQ_app by exact H. simpl. ring. Qed.

(* (1) the weights of the complete grid applied to f = the extrapolated trapezoidal sums of f *)
Theorem full_grid_dot a b K (f : Qc -> Qc) : (1 <= K)%nat ->
  dotQ (map f ([a] ++ nodes a (b - a) K ++ [b])) (Wlist a b K)
  = sumQ (map (fun j => romberg_coefficient a b 2 K j * trapD f a (b - a) j) (seq 0 (S K))).
Proof.
  intro HK. unfold Wlist. cbn [app map dotQ]. rewrite map_app. cbn [map].
  rewrite dotQ_snoc by (rewrite !map_length, nodes_length, full_levels_length; reflexivity).
  rewrite (subtree_dot a b K f K 1 a (b - a)) by lia.
  rewrite (sumQ_map_ext_in (fun j => romberg_coefficient a b 2 K j * trapD f a (b - a) j)
             (fun j => (f a + f b) * (fj a b K j * hf) + fj a b K j * inner_sum f a (b - a) j)).
  2:{ intros j _. rewrite trapD_inner, step_width_hf. replace (a + (b - a)) with b by ring. unfold fj. ring. }
  rewrite sumQ_map_add, sumQ_map_scale.
  assert (BW : boundaryW a b K = sumQ (map (fun j => fj a b K j * hf) (seq 0 (S K)))).
  { unfold boundaryW. apply sumQ_map_ext_in. intros j _. rewrite Qc2_eq. reflexivity. }
  assert (X : sumQ (map (fun j => fj a b K j * inner_sum f a (b - a) j) (seq 0 (S K)))
              = sumQ (map (fun j => fj a b K j * inner_sum f a (b - a) j) (seq 1 K))).
  { change (seq 0 (S K)) with (0%nat :: seq 1 K). cbn [map sumQ inner_sum]. ring. }
  rewrite BW, X. replace (S K - 1)%nat with K by lia.
  rewrite (sumQ_map_ext_in (fun j => fj a b K j * inner_sum f a (b - a) (S j - 1)) (fun j => fj a b K j * inner_sum f a (b - a) j) (seq 1 K)).
  - ring.
  - intros j Hj. apply in_seq in Hj. replace (S j - 1)%nat with j by lia. reflexivity.
Qed.

Lemma tj_step_width a b j : tj (b - a) j = step_width a b j ^ 2.
Proof. unfold tj. rewrite step_width_hf. reflexivity. Qed.

(* (2) monomials up to degree 2K+1 *)
Theorem romberg_extrapolated_trap_exact a b K k : a <> b -> (k <= 2 * K + 1)%nat ->
  sumQ (map (fun j => romberg_coefficient a b 2 K j * trapD (pw k) a (b - a) j) (seq 0 (S K))) = Ik k a b.
Proof.
  intros Hab Hk.
  destruct (trap_even_expansion_eq k a (b - a)) as [g [Lg Hg]].
  replace (a + (b - a)) with b in Hg by ring.
  rewrite (sumQ_map_ext_in _ (fun j => Ik k a b * romberg_coefficient a b 2 K j
                                      + romberg_coefficient a b 2 K j * (step_width a b j ^ 2 * pev g (step_width a b j ^ 2)))).
  2:{ intros j _. rewrite Hg, tj_step_width. ring. }
  rewrite sumQ_map_add, sumQ_map_scale, (romberg_coeff_sum_one a b 2 K Hab) by lia.
  rewrite (romberg_coeff_annihilates_poly a b 2 K g Hab) by (try lia;
    assert (D := Nat.div2_odd k); destruct (Nat.odd k); simpl Nat.b2n in D; lia).
  ring.
Qed.

Theorem full_grid_exact a b K k : a <> b -> (1 <= K)%nat -> (k <= 2 * K + 1)%nat ->
  dotQ (map (pw k) ([a] ++ nodes a (b - a) K ++ [b])) (Wlist a b K) = Ik k a b.
Proof. intros Hab HK Hk. rewrite full_grid_dot by exact HK. apply romberg_extrapolated_trap_exact; assumption. Qed.

(* ---------------------------------------------------------------------------------------------- *)
(* the nodes are the equidistant points *)

Lemma qn_pow2 d : qn (2 ^ d) * hf ^ d = 1.
Proof.
  induction d as [|d IH].
  - simpl. rewrite (qn_S 0), qn_0. ring.
  - rewrite Nat.pow_succ_r'. replace (2 * 2 ^ d)%nat with (2 ^ d + 2 ^ d)%nat by lia. rewrite qn_add.
    simpl (hf ^ S d).
    transitivity ((qn (2 ^ d) * hf ^ d) * ((1 + 1) * hf)); [ring|]. rewrite IH. field. exact two_neq0.
Qed.

Lemma arith_app x h n m : arith x h (n + m) = arith x h n ++ arith (x + qn n * h) h m.
Proof.
  revert x. induction n as [|n IH]; intro x.
  - cbn [plus arith app]. rewrite qn_0. replace (x + 0 * h) with x by ring. reflexivity.
  - cbn [plus arith app]. rewrite IH. rewrite qn_S. replace (x + h + qn n * h) with (x + (qn n + 1) * h) by ring. reflexivity.
Qed.

Lemma nodes_arith d : forall lo w, nodes lo w d = arith (lo + w * hf ^ d) (w * hf ^ d) (2 ^ d - 1).
Proof.
  induction d as [|d IH]; intros lo w; [reflexivity|].
  cbn [nodes]. rewrite !IH.
  assert (P : (1 <= 2 ^ d)%nat) by (apply Nat.neq_0_lt_0, Nat.pow_nonzero; lia).
  replace (2 ^ S d - 1)%nat with ((2 ^ d - 1) + S (2 ^ d - 1))%nat by (rewrite Nat.pow_succ_r'; lia).
  rewrite arith_app. cbn [arith app].
  set (h := w * hf ^ S d). set (n := (2 ^ d - 1)%nat).
  assert (H1 : w * hf * hf ^ d = h) by (unfold h; simpl; ring).
  assert (Q : qn (S n) * hf ^ d = 1) by (unfold n; replace (S (2 ^ d - 1)) with (2 ^ d)%nat by lia; apply qn_pow2).
  assert (H2 : lo + h + qn n * h = lo + w * hf).
  { rewrite qn_S in Q. unfold h. simpl (hf ^ S d).
    transitivity (lo + w * hf * ((qn n + 1) * hf ^ d)); [ring|]. rewrite Q. ring. }
  rewrite H1, H2. reflexivity.
Qed.

Lemma arith_last x h n : arith x h (S n) = arith x h n ++ [x + qn n * h].
Proof. replace (S n) with (n + 1)%nat by lia. rewrite arith_app. reflexivity. Qed.

Lemma arith_as_nodes a h K : (1 <= K)%nat ->
  arith a h (S (2 ^ K)) = [a] ++ nodes a (qn (2 ^ K) * h) K ++ [a + qn (2 ^ K) * h].
Proof.
  intro HK. rewrite arith_last.
  assert (P : (1 <= 2 ^ K)%nat) by (apply Nat.neq_0_lt_0, Nat.pow_nonzero; lia).
  replace (2 ^ K)%nat with (S (2 ^ K - 1)) at 1 by lia. cbn [arith app].
  rewrite nodes_arith.
  assert (E : qn (2 ^ K) * h * hf ^ K = h).
  { transitivity (h * (qn (2 ^ K) * hf ^ K)); [ring|]. rewrite qn_pow2. ring. }
  rewrite E. reflexivity.
Qed.

(* ---------------------------------------------------------------------------------------------- *)
(* weighted power sums of contribution lists / dictionaries *)

Fixpoint wpow (k : nat) (l : list (Qc * Qc)) : Qc :=
  match l with [] => 0 | kv :: r => snd kv * fst kv ^ k + wpow k r end.

Lemma wpow_app k u v : wpow k (u ++ v) = wpow k u + wpow k v.
Proof. induction u as [|x u IH]; simpl; [ring | rewrite IH; ring]. Qed.

Lemma wpow_dot k l : wpow k l = dotQ (map (pw k) (map fst l)) (map snd l).
Proof. induction l as [|x l IH]; simpl; [reflexivity | rewrite IH; unfold pw; ring]. Qed.

Lemma wpow_0 l : wpow 0 l = wsum l.
Proof. induction l as [|x l IH]; simpl; [reflexivity | rewrite IH; ring]. Qed.
Lemma wpow_1 l : wpow 1 l = wmom l.
Proof. induction l as [|x l IH]; simpl; [reflexivity | rewrite IH; ring]. Qed.

Lemma dict_add_wpow p k v d : wpow p (dict_add k v d) = v * k ^ p + wpow p d.
Proof.
  induction d as [|[k' v'] d IH]; simpl; [ring|].
  destruct (Qc_eqb k k') eqn:E; simpl.
  - apply Qc_eqb_eq in E. subst. ring.
  - destruct (Qc_ltb k k'); simpl; [ring | rewrite IH; ring].
Qed.
Lemma dict_fold_wpow p cs : forall d,
  wpow p (fold_left (fun d kv => dict_add (fst kv) (snd kv) d) cs d) = wpow p cs + wpow p d.
Proof.
  induction cs as [|[k v] cs IH]; intro d; simpl; [ring|].
  rewrite IH, dict_add_wpow. ring.
Qed.
Lemma dict_of_wpow p cs : wpow p (dict_of cs) = wpow p cs.
Proof. unfold dict_of. rewrite dict_fold_wpow. simpl. ring. Qed.

(* ---------------------------------------------------------------------------------------------- *)
(* (3) one container with 2^K >= 2 slices: its contribution list is (grid point, complete-grid weight) *)

Lemma multi_container_form lo sv K h c cs :
  length c = (2 ^ K)%nat -> (1 <= K)%nat -> chain c -> Forall (fun s => sl_width s = h) c ->
  Forall (fun s => sl_l s < sl_r s) c ->
  container_final_from lo sv CV_Default c = Some cs ->
  map fst cs = container_grid c /\ map snd cs = Wlist (container_left c) (container_right c) K.
Proof.
  intros HL HK Hc Hw Hlt H.
  assert (P : (2 <= 2 ^ K)%nat).
  { destruct K as [|K']; [lia|]. rewrite Nat.pow_succ_r'. assert (1 <= 2 ^ K')%nat by (apply Nat.neq_0_lt_0, Nat.pow_nonzero; lia). lia. }
  assert (Hne : c <> []) by (intro E; rewrite E in HL; simpl in HL; lia).
  destruct (container_grid_arith h c Hne Hc Hw) as [G R].
  set (a := container_left c) in *. set (b := container_right c) in *.
  set (n := S (length c)).
  assert (Hn : length (container_grid c) = n) by (rewrite G, arith_length; reflexivity).
  set (g := fun i : nat => if Nat.eqb i 0 || Nat.eqb i (n - 1) then boundaryW a b K
                           else innerW a b K (nth i (normalized_levels n) 0%nat)).
  assert (NL : normalized_levels n = [0%nat] ++ full_levels K 1 ++ [0%nat]).
  { unfold n. rewrite HL. apply normalized_levels_full. exact HK. }
  assert (E : container_final_from lo sv CV_Default c =
              Some (map (fun i => (nthQ (container_grid c) i, g i)) (seq 0 n))).
  { destruct c as [|s1 [|s2 c']]; [congruence | simpl in HL; lia |].
    unfold container_final_from. fold a b. rewrite Hn.
    assert (M : list_max (normalized_levels n) = K).
    { rewrite NL, !list_max_app, full_levels_max by exact HK. simpl. lia. }
    rewrite M. apply opt_list_all. intros i Hi. apply in_seq in Hi. unfold g.
    destruct (Nat.eqb i 0 || Nat.eqb i (n - 1)) eqn:Eb; [reflexivity|].
    apply orb_false_elim in Eb. destruct Eb as [E0 E1]. apply Nat.eqb_neq in E0. apply Nat.eqb_neq in E1.
    assert (Hr : (1 <= nth i (normalized_levels n) 0 <= K)%nat).
    { rewrite NL. cbn [app]. destruct i as [|i']; [lia|]. cbn [nth].
      assert (Li : (i' < length (full_levels K 1))%nat) by (rewrite full_levels_length; unfold n in *; lia).
      rewrite app_nth1 by exact Li.
      assert (I := full_levels_range K 1 _ (nth_In _ 0%nat Li)). lia. }
    unfold trap_inner_weight.
    destruct (Nat.leb_spec 1 (nth i (normalized_levels n) 0%nat)) as [_|C]; [|lia].
    destruct (Nat.leb_spec (nth i (normalized_levels n) 0%nat) K) as [_|C]; [|lia].
    reflexivity. }
  assert (Ecs : cs = map (fun i => (nthQ (container_grid c) i, g i)) (seq 0 n)) by congruence.
  subst cs. rewrite !map_map. cbn [fst snd]. split.
  - transitivity (map (fun x : Qc => x) (container_grid c)); [|apply map_id].
    rewrite <- Hn. exact (map_nth_seq (fun x : Qc => x) (container_grid c) 0).
  - unfold Wlist.
    assert (Ln : n = S (S (length (full_levels K 1)))) by (rewrite full_levels_length; unfold n; lia).
    rewrite Ln at 1. rewrite seq_S. change (seq 0 (S (length (full_levels K 1)))) with (0%nat :: seq 1 (length (full_levels K 1))).
    rewrite map_app. cbn [map app].
    assert (Mid : map g (seq 1 (length (full_levels K 1))) = map (innerW a b K) (full_levels K 1)).
    { rewrite <- seq_shift, map_map.
      rewrite <- (map_nth_seq (innerW a b K) (full_levels K 1) 0%nat). apply map_ext_in. intros i Hi. apply in_seq in Hi.
      unfold g. destruct (Nat.eqb_spec (S i) 0) as [C|_]; [lia|]. destruct (Nat.eqb_spec (S i) (n - 1)) as [C|_]; [lia|].
      cbn [orb]. rewrite NL. cbn [app nth]. rewrite app_nth1 by lia. reflexivity. }
    assert (Last : g (0 + S (length (full_levels K 1)))%nat = boundaryW a b K).
    { unfold g. replace (0 + S (length (full_levels K 1)))%nat with (n - 1)%nat by lia.
      rewrite Nat.eqb_refl, orb_true_r. reflexivity. }
    change (fun x : nat => g x) with g. rewrite Mid, Last. reflexivity.
Qed.

(* every container of 2^K >= 2 equal adjacent slices integrates x^k, k <= 2K+1, exactly over its own interval *)
Theorem multi_container_exact lo sv K h c cs k :
  length c = (2 ^ K)%nat -> (1 <= K)%nat -> chain c -> Forall (fun s => sl_width s = h) c ->
  Forall (fun s => sl_l s < sl_r s) c ->
  container_final_from lo sv CV_Default c = Some cs -> (k <= 2 * K + 1)%nat ->
  wpow k cs = Ik k (container_left c) (container_right c).
Proof.
  intros HL HK Hc Hw Hlt H Hk.
  destruct (multi_container_form lo sv K h c cs HL HK Hc Hw Hlt H) as [F1 F2].
  assert (Hne : c <> []) by (intro E; rewrite E in HL; simpl in HL; assert (1 <= 2 ^ K)%nat by (apply Nat.neq_0_lt_0, Nat.pow_nonzero; lia); lia).
  destruct (container_grid_arith h c Hne Hc Hw) as [G R].
  assert (Hab : container_left c <> container_right c).
  { apply Qclt_not_eq. exact (chain_left_lt_right c Hne Hc Hlt). }
  rewrite wpow_dot, F1, F2, G, HL, (arith_as_nodes _ _ K HK).
  rewrite HL in R.
  replace (qn (2 ^ K) * h) with (container_right c - container_left c) by (rewrite R; ring).
  replace (container_left c + (container_right c - container_left c)) with (container_right c) by ring.
  apply full_grid_exact; assumption.
Qed.

(* ---------------------------------------------------------------------------------------------- *)
(* the pipeline: telescoping over the slices *)

Lemma Ik_as_diff k u v : Ik k u v = v ^ (S k) * / qn (S k) - u ^ (S k) * / qn (S k).
Proof. unfold Ik. ring. Qed.

Lemma chain_telescope (G : Qc -> Qc) : forall c, c <> [] -> chain c ->
  sumQ (map (fun s => G (sl_r s) - G (sl_l s)) c) = G (container_right c) - G (container_left c).
Proof.
  induction c as [|s c IH]; intros Hne Hc; [congruence|].
  destruct c as [|s2 c].
  - unfold container_left, container_right. simpl. ring.
  - destruct Hc as [E Hc]. rewrite container_right_cons. change (container_left (s :: s2 :: c)) with (sl_l s).
    cbn [map sumQ] in *. rewrite (IH ltac:(discriminate) Hc). change (container_left (s2 :: c)) with (sl_l s2).
    rewrite <- E. ring.
Qed.

Lemma slices_telescope (G : Qc -> Qc) grid levels slices :
  init_grid_slices grid levels = Some slices ->
  sumQ (map (fun s => G (sl_r s) - G (sl_l s)) slices) = G (nthQ grid (length grid - 1)) - G (nthQ grid 0).
Proof.
  unfold init_grid_slices. intro H.
  rewrite (opt_list_additive (fun s => G (sl_r s) - G (sl_l s)) _ (fun i => G (nthQ grid (S i)) - G (nthQ grid i)) _) with (ys := slices) (2 := H).
  - apply (telescope (fun i => G (nthQ grid i))).
  - intros i s _ Hs. destruct (make_slice_ends _ _ _ _ _ _ Hs) as [E1 E2]. rewrite E1, E2. reflexivity.
Qed.

Definition Gk (k : nat) (x : Qc) : Qc := x ^ (S k) * / qn (S k).

Lemma pow2_le_power2 Kmin n : is_power2 n -> (2 ^ Kmin <= n)%nat -> exists K, n = (2 ^ K)%nat /\ (Kmin <= K)%nat.
Proof.
  intros [K ->] H. exists K. split; [reflexivity|].
  destruct (Nat.le_gt_cases Kmin K) as [L|G]; [exact L|].
  assert (X : (2 ^ K < 2 ^ Kmin)%nat) by (apply Nat.pow_lt_mono_r; lia). lia.
Qed.

Lemma container_exact lo sv Kmin c cs k :
  uniform2 c -> chain c -> Forall (fun s => sl_l s < sl_r s) c ->
  (1 <= Kmin)%nat -> (2 ^ Kmin <= length c)%nat -> (k <= 2 * Kmin + 1)%nat ->
  container_final_from lo sv CV_Default c = Some cs ->
  wpow k cs = sumQ (map (fun s => Gk k (sl_r s) - Gk k (sl_l s)) c).
Proof.
  intros [[Hne [h Hw]] P2] Hc Hlt HK HL Hk H.
  destruct (pow2_le_power2 Kmin _ P2 HL) as [K [EK LK]].
  rewrite (chain_telescope (Gk k) c Hne Hc). unfold Gk. rewrite <- Ik_as_diff.
  apply (multi_container_exact lo sv K h c cs k EK ltac:(lia) Hc Hw Hlt H). lia.
Qed.

(* MAIN: if every container has at least 2^Kmin >= 2 slices, the collected weights integrate x^k exactly for k <= 2*Kmin+1 *)
Theorem sliced_weights_exact_degree lo g sv force grid levels r Kmin k :
  extrapolation_grid_from lo g sv CV_Default force grid levels = Some r ->
  (1 <= Kmin)%nat -> Forall (fun n => (2 ^ Kmin <= n)%nat) (er_container_sizes r) -> (k <= 2 * Kmin + 1)%nat ->
  wpow k (er_dict r) = Ik k (grid_a r) (grid_b r).
Proof.
  unfold extrapolation_grid_from.
  destruct (Nat.eqb (length grid) (length levels) && (2 <=? length grid)%nat); [|discriminate].
  destruct (if force then _ else _) as [[gr lv]|]; [|discriminate].
  destruct (init_grid_slices gr lv) as [slices|] eqn:Es; [|discriminate].
  destruct (opt_concat _) as [cs|] eqn:Ec; [|discriminate].
  intros H HK Hsz Hk.
  assert (Er : r = mkExt gr lv (map (@length slice) (adjust_containers g (initial_containers g slices))) (dict_of cs)) by congruence.
  clear H. subst r. unfold grid_a, grid_b. cbn [er_dict er_grid er_container_sizes] in *.
  destruct (initial_containers_spec g slices) as [I1 I2].
  destruct (adjust_containers_spec g _ I2) as [A1 A2]. rewrite I1 in A1.
  destruct (init_grid_slices_chain gr lv slices Es) as [C L].
  set (conts := adjust_containers g (initial_containers g slices)) in *.
  assert (FC : Forall chain conts) by (apply chain_concat; rewrite A1; exact C).
  assert (FL : Forall (Forall (fun s => sl_l s < sl_r s)) conts) by (apply Forall_concat_inv; rewrite A1; exact L).
  assert (St : wpow k cs = sumQ (map (fun s => Gk k (sl_r s) - Gk k (sl_l s)) (concat conts))).
  { clear A1 I1 I2 Es C L. revert cs Ec. induction conts as [|c conts IH]; intros cs Ec.
    - simpl in Ec. assert (cs = []) by congruence. subst. reflexivity.
    - cbn [map opt_concat] in Ec.
      destruct (container_final_from lo sv CV_Default c) as [y|] eqn:Ey; [|discriminate].
      destruct (opt_concat (map (container_final_from lo sv CV_Default) conts)) as [ys|] eqn:Eys; [|discriminate].
      assert (cs = y ++ ys) by congruence. subst cs.
      apply Forall_cons_iff in A2. destruct A2 as [U A2]. apply Forall_cons_iff in FC. destruct FC as [Cc FC].
      apply Forall_cons_iff in FL. destruct FL as [Lc FL].
      cbn [map] in Hsz. apply Forall_cons_iff in Hsz. destruct Hsz as [Hc Hsz].
      cbn [concat]. rewrite wpow_app, map_app, sumQ_app.
      rewrite (container_exact lo sv Kmin c y k U Cc Lc HK Hc Hk Ey).
      rewrite (IH Hsz A2 FC FL ys eq_refl). reflexivity. }
  rewrite A1 in St. rewrite dict_of_wpow, St, (slices_telescope (Gk k) gr lv slices Es).
  unfold Gk. rewrite <- Ik_as_diff. reflexivity.
Qed.

(* the list returned by get_weights, given the run-time alignment checker (keys of the dictionary = grid points) *)
Theorem aligned_power_moment r k :
  map fst (er_dict r) = er_grid r -> dotQ (map (pw k) (er_grid r)) (er_weights r) = wpow k (er_dict r).
Proof. intro H. rewrite wpow_dot, H. reflexivity. Qed.

(* ---------------------------------------------------------------------------------------------- *)
(* the complete grid of Proofs/RombergExact.v and the weights RombergWeightFactory hands out *)

Lemma map_seq_arith x h n : forall s, map (fun k => x + qn k * h) (seq s n) = arith (x + qn s * h) h n.
Proof.
  induction n as [|n IH]; intro s; [reflexivity|]. cbn [seq map arith]. rewrite IH, qn_S.
  replace (x + (qn s + 1) * h) with (x + qn s * h + h) by ring. reflexivity.
Qed.

Lemma complete_grid_nodes a b m : (1 <= m)%nat -> complete_grid a b m = [a] ++ nodes a (b - a) m ++ [b].
Proof.
  intro Hm. unfold complete_grid.
  rewrite (map_ext _ (fun k => a + qn k * step_width a b m)).
  2:{ intro k. unfold step_width, qn. field. apply pow2_neq0. }
  rewrite map_seq_arith, qn_0. replace (a + 0 * step_width a b m) with a by ring.
  rewrite (arith_as_nodes _ _ m Hm).
  assert (E : qn (2 ^ m) * step_width a b m = b - a).
  { rewrite <- step_width_hf. transitivity ((b - a) * (qn (2 ^ m) * hf ^ m)); [ring|]. rewrite qn_pow2. ring. }
  rewrite E. replace (a + (b - a)) with b by ring. reflexivity.
Qed.

Theorem complete_grid_exact a b m k : a <> b -> (1 <= m)%nat -> (k <= 2 * m + 1)%nat ->
  dotQ (map (pw k) (complete_grid a b m)) (Wlist a b m) = Ik k a b.
Proof. intros Hab Hm Hk. rewrite complete_grid_nodes by exact Hm. apply full_grid_exact; assumption. Qed.

(* Wlist consists of the weights of RombergTrapezoidalWeights (version ROMBERG_DEFAULT): boundary weight at both ends,
   inner weight of the level of the point *)
Theorem Wlist_factory_weights a b K :
  Wlist a b K = [trap_boundary_weight a b 2 K]
                ++ map (fun l => match trap_inner_weight a b 2 l K with Some w => w | None => 0 end) (full_levels K 1)
                ++ [trap_boundary_weight a b 2 K].
Proof.
  unfold Wlist. f_equal. f_equal. apply map_ext_in. intros l Hl.
  assert (R := full_levels_range K 1 l Hl). unfold trap_inner_weight.
  destruct (Nat.leb_spec 1 l) as [_|C]; [|lia]. destruct (Nat.leb_spec l K) as [_|C]; [|lia]. reflexivity.
Qed.

(* Boole's rule: the complete grid of depth 2 on [0,1] *)
Example Wlist_depth2 : map this (Wlist 0 1 2) = [(7 # 90)%Q; (16 # 45)%Q; (2 # 15)%Q; (16 # 45)%Q; (7 # 90)%Q].
Proof. vm_compute. reflexivity. Qed.
