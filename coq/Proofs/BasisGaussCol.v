(* C10 — the Gauss-Jordan elimination of the checked solver (Model/Basis.gauss_solve) acts COLUMN BY COLUMN on the right-hand
   sides: the elimination loop commutes with the projection of the augmented rows onto the matrix part and one right-hand-side
   column (the pivot search reads the matrix part only, row_scale / row_sub are entrywise).  This is the core of the column-wise
   hypothesis of C10_hier_flat_follows_hier_nd for B-spline / modified systems; what is still missing for the full hypothesis is
   the componentwise reading of the residual test of solve_checked. *)
From Coq Require Import ZArith List QArith Qcanon Bool Arith Lia.
From SG Require Import Base.QcUtil Model.Basis Model.BasisPieces Proofs.BasisLagrange Proofs.BasisHier Proofs.BasisInterp.
Import ListNotations.
Open Scope Qc_scope.

(* projection of an augmented row (n matrix entries ++ right-hand sides) onto the matrix part and ONE right-hand side *)
Definition colproj (n k : nat) (row : list Qc) : list Qc := firstn n row ++ [nthQ row (n + k)].

Lemma nthQ_map_scale c (row : list Qc) i : nthQ (map (fun x => c * x) row) i = c * nthQ row i.
Proof.
  revert i; induction row as [|a row IH]; intro i; [unfold nthQ; destruct i; simpl; ring|].
  destruct i as [|i]; [reflexivity|]. exact (IH i).
Qed.

Lemma colproj_nth n k row col : (col < n)%nat -> (n <= length row)%nat -> nthQ (colproj n k row) col = nthQ row col.
Proof.
  intros H L. unfold colproj, nthQ. rewrite app_nth1 by (rewrite firstn_length; lia).
  fold (nthQ (firstn n row) col). apply nthQ_firstn. exact H.
Qed.

Lemma colproj_scale n k c row : colproj n k (row_scale c row) = row_scale c (colproj n k row).
Proof.
  unfold colproj, row_scale. rewrite map_app, firstn_map. cbn [map]. rewrite nthQ_map_scale. reflexivity.
Qed.

Lemma row_sub_length : forall r s c, length (row_sub r s c) = length r.
Proof. induction r as [|x r IH]; intros [|y s] c; cbn [row_sub length]; try reflexivity. rewrite IH. reflexivity. Qed.

Lemma row_sub_firstn : forall n r s c, firstn n (row_sub r s c) = row_sub (firstn n r) (firstn n s) c.
Proof.
  induction n as [|n IH]; intros r s c; [reflexivity|].
  destruct r as [|x r]; [reflexivity|]. destruct s as [|y s]; [reflexivity|]. cbn [row_sub firstn]. rewrite IH. reflexivity.
Qed.

Lemma row_sub_nth : forall r s c i, length r = length s -> nthQ (row_sub r s c) i = nthQ r i - c * nthQ s i.
Proof.
  induction r as [|x r IH]; intros [|y s] c i H; try discriminate.
  - unfold nthQ. destruct i; simpl; ring.
  - cbn [row_sub]. destruct i as [|i]; [reflexivity|]. apply (IH s c i). simpl in H. lia.
Qed.

Lemma row_sub_app : forall a b x y c, length a = length b -> row_sub (a ++ [x]) (b ++ [y]) c = row_sub a b c ++ [x - c * y].
Proof.
  induction a as [|p a IH]; intros [|q b] x y c H; try discriminate; [reflexivity|].
  cbn [app row_sub]. rewrite IH by (simpl in H; lia). reflexivity.
Qed.

Lemma colproj_sub n k r s c : length r = length s -> (n <= length r)%nat ->
  colproj n k (row_sub r s c) = row_sub (colproj n k r) (colproj n k s) c.
Proof.
  intros H L. unfold colproj. rewrite row_sub_firstn, row_sub_nth by exact H.
  rewrite row_sub_app by (rewrite !firstn_length; lia). reflexivity.
Qed.

Lemma find_pivot_proj n k col : (col < n)%nat -> forall rows, (forall r, In r rows -> (n <= length r)%nat) ->
  find_pivot col (map (colproj n k) rows)
  = match find_pivot col rows with Some (pv, rest) => Some (colproj n k pv, map (colproj n k) rest) | None => None end.
Proof.
  intros Hc. induction rows as [|r rows IH]; intro H; [reflexivity|].
  cbn [map find_pivot]. rewrite (colproj_nth n k r col Hc (H r (or_introl eq_refl))).
  destruct (Qc_eqb (nthQ r col) 0); [|reflexivity].
  rewrite IH by (intros r' Hr'; apply H; right; exact Hr').
  destruct (find_pivot col rows) as [[pv o]|]; reflexivity.
Qed.

Lemma find_pivot_members col : forall rows pv rest, find_pivot col rows = Some (pv, rest) ->
  In pv rows /\ (forall r, In r rest -> In r rows).
Proof.
  induction rows as [|r rows IH]; intros pv rest H; [discriminate|].
  cbn [find_pivot] in H. destruct (Qc_eqb (nthQ r col) 0).
  - destruct (find_pivot col rows) as [[pv' o]|] eqn:E; [|discriminate]. injection H as H1 H2. subst pv rest.
    destruct (IH pv' o eq_refl) as [A B]. split; [right; exact A|]. intros r' [Hr'|Hr']; [left; exact Hr' | right; exact (B r' Hr')].
  - injection H as H1 H2. subst pv rest. split; [left; reflexivity | intros r' Hr'; right; exact Hr'].
Qed.

(* the elimination loop commutes with the projection: every right-hand-side column is eliminated independently *)
Lemma gauss_loop_proj n k L : (n + k < L)%nat -> forall fuel col done todo,
  (col + fuel <= n)%nat -> (forall r, In r done -> length r = L) -> (forall r, In r todo -> length r = L) ->
  gauss_loop fuel col (map (colproj n k) done) (map (colproj n k) todo)
  = match gauss_loop fuel col done todo with Some rows => Some (map (colproj n k) rows) | None => None end.
Proof.
  intro HL. induction fuel as [|f IH]; intros col done todo Hcf Hd Ht.
  - cbn [gauss_loop]. destruct todo; reflexivity.
  - cbn [gauss_loop]. destruct todo as [|t0 todo'] eqn:Et; [reflexivity|]. rewrite <- Et in *.
    assert (Hmap : map (colproj n k) todo <> []) by (rewrite Et; discriminate).
    destruct (map (colproj n k) todo) as [|m0 mt] eqn:Em; [contradiction|]. rewrite <- Em.
    rewrite (find_pivot_proj n k col ltac:(lia) todo) by (intros r Hr; rewrite (Ht r Hr); lia).
    destruct (find_pivot col todo) as [[pv rest]|] eqn:Ep.
    + destruct (find_pivot_members col todo pv rest Ep) as [Ipv Irest].
      rewrite (colproj_nth n k pv col ltac:(lia)) by (rewrite (Ht pv Ipv); lia).
      rewrite <- colproj_scale.
      set (pvn := row_scale (1 / nthQ pv col) pv).
      assert (Lpvn : length pvn = L) by (unfold pvn, row_scale; rewrite map_length; exact (Ht pv Ipv)).
      assert (E1 : map (fun r => row_sub r (colproj n k pvn) (nthQ r col)) (map (colproj n k) done)
                   = map (colproj n k) (map (fun r => row_sub r pvn (nthQ r col)) done)).
      { rewrite !map_map. apply map_ext_in. intros r Hr.
        rewrite (colproj_nth n k r col ltac:(lia)) by (rewrite (Hd r Hr); lia).
        symmetry. apply colproj_sub; [rewrite (Hd r Hr), Lpvn; reflexivity | rewrite (Hd r Hr); lia]. }
      assert (E2 : map (fun r => row_sub r (colproj n k pvn) (nthQ r col)) (map (colproj n k) rest)
                   = map (colproj n k) (map (fun r => row_sub r pvn (nthQ r col)) rest)).
      { rewrite !map_map. apply map_ext_in. intros r Hr. pose proof (Ht r (Irest r Hr)) as Lr.
        rewrite (colproj_nth n k r col ltac:(lia)) by (rewrite Lr; lia).
        symmetry. apply colproj_sub; [rewrite Lr, Lpvn; reflexivity | rewrite Lr; lia]. }
      rewrite E1, E2.
      replace (map (colproj n k) (map (fun r => row_sub r pvn (nthQ r col)) done) ++ [colproj n k pvn])
        with (map (colproj n k) (map (fun r => row_sub r pvn (nthQ r col)) done ++ [pvn])) by (rewrite map_app; reflexivity).
      apply IH; [lia | |].
      * intros r Hr. apply in_app_iff in Hr. destruct Hr as [Hr|[Hr|[]]]; [|subst r; exact Lpvn].
        apply in_map_iff in Hr. destruct Hr as [r0 [E Hr0]]. subst r. rewrite row_sub_length. exact (Hd r0 Hr0).
      * intros r Hr. apply in_map_iff in Hr. destruct Hr as [r0 [E Hr0]]. subst r. rewrite row_sub_length. exact (Ht r0 (Irest r0 Hr0)).
    + reflexivity.
Qed.

Lemma gauss_loop_len L : forall fuel col done todo rows,
  (forall r, In r done -> length r = L) -> (forall r, In r todo -> length r = L) ->
  gauss_loop fuel col done todo = Some rows -> forall r, In r rows -> length r = L.
Proof.
  induction fuel as [|f IH]; intros col done todo rows Hd Ht H.
  - cbn [gauss_loop] in H. destruct todo; [|discriminate]. injection H as H. subst rows. exact Hd.
  - cbn [gauss_loop] in H. destruct todo as [|t0 todo'] eqn:Et; [injection H as H; subst rows; exact Hd|]. rewrite <- Et in *.
    destruct (find_pivot col todo) as [[pv rest]|] eqn:Ep; [|discriminate].
    destruct (find_pivot_members col todo pv rest Ep) as [Ipv Irest].
    apply (IH (S col) (map (fun r => row_sub r (row_scale (1 / nthQ pv col) pv) (nthQ r col)) done ++ [row_scale (1 / nthQ pv col) pv])
              (map (fun r => row_sub r (row_scale (1 / nthQ pv col) pv) (nthQ r col)) rest) rows); [ | | exact H].
    + intros r Hr. apply in_app_iff in Hr. destruct Hr as [Hr|[Hr|[]]].
      * apply in_map_iff in Hr. destruct Hr as [r0 [E Hr0]]. subst r. rewrite row_sub_length. exact (Hd r0 Hr0).
      * subst r. unfold row_scale. rewrite map_length. exact (Ht pv Ipv).
    + intros r Hr. apply in_map_iff in Hr. destruct Hr as [r0 [E Hr0]]. subst r. rewrite row_sub_length. exact (Ht r0 (Irest r0 Hr0)).
Qed.

Lemma augmented_proj n k : forall (M : matrix) (B : list (list Qc)),
  (forall r, In r M -> length r = n) ->
  map (fun rb => fst rb ++ snd rb) (combine M (map (fun b => [nthQ b k]) B))
  = map (colproj n k) (map (fun rb => fst rb ++ snd rb) (combine M B)).
Proof.
  induction M as [|m M IH]; intros [|b B] H; try reflexivity.
  cbn [map combine fst snd]. f_equal.
  - unfold colproj. pose proof (H m (or_introl eq_refl)) as Lm.
    rewrite <- Lm, firstn_app_len. f_equal. f_equal. unfold nthQ. rewrite app_nth2 by lia.
    replace (length m + k - length m)%nat with k by lia. reflexivity.
  - apply IH. intros r Hr. apply H. right. exact Hr.
Qed.

(* Gauss-Jordan elimination acts column by column on the right-hand sides: solving with the matrix of right-hand sides and
   reading column k off the result is solving with column k alone (and it fails for one iff it fails for all) *)
Theorem gauss_solve_columnwise (M : matrix) (B : list (list Qc)) len k :
  (forall r, In r M -> length r = length M) -> (forall b, In b B -> length b = len) -> (k < len)%nat ->
  gauss_solve M (map (fun b => [nthQ b k]) B)
  = match gauss_solve M B with Some X => Some (map (fun x => [nthQ x k]) X) | None => None end.
Proof.
  intros HM HB Hk. unfold gauss_solve. set (n := length M).
  rewrite (augmented_proj n k M B HM).
  set (rows0 := map (fun rb => fst rb ++ snd rb) (combine M B)).
  assert (L0 : forall r, In r rows0 -> length r = (n + len)%nat).
  { intros r Hr. unfold rows0 in Hr. apply in_map_iff in Hr. destruct Hr as [[m b] [E Hmb]]. subst r. cbn [fst snd].
    rewrite app_length, (HM m (in_combine_l _ _ _ _ Hmb)), (HB b (in_combine_r _ _ _ _ Hmb)). reflexivity. }
  pose proof (gauss_loop_proj n k (n + len) ltac:(lia) n 0 [] rows0 ltac:(lia) (fun r (H : In r []) => match H with end) L0) as P.
  cbn [map] in P. rewrite P.
  destruct (gauss_loop n 0 [] rows0) as [rows|] eqn:E; [|reflexivity].
  f_equal. rewrite !map_map. apply map_ext_in. intros r Hr.
  pose proof (gauss_loop_len (n + len) n 0 [] rows0 rows (fun r (H : In r []) => match H with end) L0 E r Hr) as Lr.
  unfold colproj. rewrite <- (firstn_length_le r (n := n)) at 1 by lia.
  rewrite skipn_app_len. rewrite nthQ_skipn. reflexivity.
Qed.

