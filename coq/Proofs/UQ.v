(* C15 — weighted trapezoidal weights form a probability measure; uniform instance; weighted midpoint; moment laws. *)
From Coq Require Import ZArith List QArith Qcanon Bool Arith Lia Lqa.
From SG Require Import Base.QcUtil Model.Trap Model.UQ Proofs.TrapBasics Proofs.Trap Proofs.TrapMoments.
Import ListNotations.
Open Scope Qc_scope.

(* ---------------------------------------------------------------- order helpers *)
Lemma Qc_inv_pos (d : Qc) : 0 < d -> 0 < / d.
Proof.
  intro H. unfold Qclt in *. qc_unfold_ops. apply Qinv_lt_0_compat. exact H.
Qed.

Lemma Qc_mul_nonneg (x y : Qc) : 0 <= x -> 0 <= y -> 0 <= x * y.
Proof. intros Hx Hy. qc_nra. Qed.

Lemma Qc_div_nonneg (x d : Qc) : 0 <= x -> 0 < d -> 0 <= x / d.
Proof.
  intros Hx Hd. unfold Qcdiv. apply Qc_mul_nonneg; [exact Hx|]. apply Qclt_le_weak. apply Qc_inv_pos. exact Hd.
Qed.

Lemma sumQ_nonneg (l : list Qc) : (forall q, In q l -> 0 <= q) -> 0 <= sumQ l.
Proof.
  induction l as [|x l IH]; intro H; [apply Qcle_refl|].
  cbn [sumQ]. pose proof (H x (or_introl eq_refl)) as Hx.
  pose proof (IH (fun q Hq => H q (or_intror Hq))) as Hl. qc_order.
Qed.

(* ---------------------------------------------------------------- clipping *)
Lemma clip_nonneg w v : clip w = Some v -> 0 <= v.
Proof.
  unfold clip. destruct (Qc_leb 0 w) eqn:E.
  - intro H. inversion H; subst. apply Qc_leb_le. exact E.
  - destruct (Qc_ltb (- w) clip_tol); intro H; inversion H; subst. apply Qcle_refl.
Qed.

Lemma clip_id w : 0 <= w -> clip w = Some w.
Proof. intro H. unfold clip. apply Qc_leb_le in H. rewrite H. reflexivity. Qed.

Lemma opt_list_clip_nonneg l w : opt_list (map clip l) = Some w -> forall q, In q w -> 0 <= q.
Proof.
  revert w. induction l as [|x l IH]; intros w H q Hq.
  - inversion H; subst. destruct Hq.
  - cbn [map opt_list] in H. destruct (clip x) as [v|] eqn:Ec; [|discriminate].
    destruct (opt_list (map clip l)) as [r|] eqn:Er; [|discriminate]. inversion H; subst.
    destruct Hq as [<-|Hq]; [eapply clip_nonneg; eauto | eapply IH; eauto].
Qed.

Lemma opt_list_clip_id l : (forall q, In q l -> 0 <= q) -> opt_list (map clip l) = Some l.
Proof.
  induction l as [|x l IH]; intro H; [reflexivity|].
  cbn [map opt_list]. rewrite clip_id by (apply H; left; reflexivity).
  rewrite IH by (intros q Hq; apply H; right; exact Hq). reflexivity.
Qed.

Lemma opt_list_length {A} (l : list (option A)) w : opt_list l = Some w -> length w = length l.
Proof.
  revert w. induction l as [|[a|] l IH]; intros w H; cbn [opt_list] in H; try discriminate.
  - inversion H. reflexivity.
  - destruct (opt_list l) as [r|]; [|discriminate]. inversion H; subst. simpl. f_equal. apply IH. reflexivity.
Qed.

(* ---------------------------------------------------------------- accumulation *)
Fixpoint sum_m0 (ivs : list ival) : Qc := match ivs with [] => 0 | iv :: r => i_m0 iv + sum_m0 r end.

Lemma accum_sum c ivs : sumQ (accum c ivs) = c + sum_m0 ivs.
Proof.
  revert c. induction ivs as [|iv r IH]; intro c; cbn [accum sumQ sum_m0]; [ring|].
  rewrite IH. unfold w1_of. ring.
Qed.

Lemma accum_length c ivs : length (accum c ivs) = S (length ivs).
Proof. revert c. induction ivs as [|iv r IH]; intro c; cbn [accum length]; [reflexivity | rewrite IH; reflexivity]. Qed.

Lemma accum_nonneg c ivs :
  0 <= c -> (forall iv, In iv ivs -> 0 <= w1_of iv /\ 0 <= w2_of iv) -> forall q, In q (accum c ivs) -> 0 <= q.
Proof.
  revert c. induction ivs as [|iv r IH]; intros c Hc H q Hq; cbn [accum] in Hq.
  - destruct Hq as [<-|[]]. exact Hc.
  - destruct (H iv (or_introl eq_refl)) as [H1 H2].
    destruct Hq as [<-|Hq]; [qc_order|].
    apply (IH (w2_of iv)); [exact H2 | intros j Hj; apply H; right; exact Hj | exact Hq].
Qed.

(* the hypotheses on the moments of one interval: what a distribution with a non-negative density provides *)
Definition ival_ok (iv : ival) : Prop :=
  0 <= i_m0 iv /\
  match i_x1 iv, i_x2 iv with
  | Fin x1, Fin x2 => x1 < x2 /\ x1 * i_m0 iv <= i_m1 iv /\ i_m1 iv <= x2 * i_m0 iv
  | _, _ => True
  end.

Lemma ival_ok_weights iv : ival_ok iv -> 0 <= w1_of iv /\ 0 <= w2_of iv.
Proof.
  destruct iv as [x1 x2 m0 m1]. unfold ival_ok, w1_of, w2_of. cbn [i_x1 i_x2 i_m0 i_m1].
  intros [H0 H]. destruct x1 as [|p|]; cbn [ext_isinf ext_val].
  - split; [|exact H0]. qc_order.
  - destruct x2 as [|q|]; cbn [ext_isinf ext_val].
    + split; [|apply Qcle_refl]. qc_order.
    + destruct H as [Hlt [Hlo Hhi]].
      assert (Hd : 0 < q - p) by qc_order.
      pose proof (Qc_inv_pos _ Hd) as Hi.
      assert (Hone : (q - p) * / (q - p) = 1) by (field; apply lt_sub_neq0; exact Hlt).
      unfold Qcdiv. set (i := / (q - p)) in *.
      split.
      * assert (E : m0 - (m1 - m0 * p) * i = (m0 * (q - p) - (m1 - m0 * p)) * i).
        { transitivity (m0 * ((q - p) * i) - (m1 - m0 * p) * i); [rewrite Hone; ring | ring]. }
        rewrite E. apply Qc_mul_nonneg; [qc_order | apply Qclt_le_weak; exact Hi].
      * apply Qc_mul_nonneg; [qc_order | apply Qclt_le_weak; exact Hi].
    + split; [|apply Qcle_refl]. qc_order.
  - split; [|exact H0]. qc_order.
Qed.

(* ---------------------------------------------------------------- T1: non-negativity, whenever the call returns *)
Lemma renormalise_spec w r :
  (forall q, In q w -> 0 <= q) -> renormalise w = Some r ->
  (forall q, In q r -> 0 <= q) /\ sumQ r = 1.
Proof.
  intros Hw H. unfold renormalise in H.
  destruct (Qc_eqb (sumQ (strip w)) 0) eqn:E; [discriminate|]. inversion H; subst. clear H.
  assert (Hne : sumQ (strip w) <> 0). { intro E0. apply Qc_eqb_eq in E0. congruence. }
  assert (Hin : forall q, In q (strip w) -> 0 <= q).
  { intros q Hq. apply Hw. unfold strip in Hq. destruct w as [|x t]; [destruct Hq|]. right.
    cbn [tl] in Hq. clear -Hq. induction t as [|y t IH]; [destruct Hq|].
    destruct t as [|z t]; [destruct Hq|]. cbn [removelast] in Hq. destruct Hq as [<-|Hq]; [left; reflexivity | right; apply IH; exact Hq]. }
  pose proof (sumQ_nonneg _ Hin) as Hs.
  assert (Hpos : 0 < sumQ (strip w)).
  { destruct (Qc_dec (sumQ (strip w)) 0) as [[Hl|Hg]|He]; [exfalso; apply (Qclt_not_le _ _ Hl); exact Hs | exact Hg | contradiction]. }
  split.
  - intros q Hq. destruct Hq as [<-|Hq]; [apply Qcle_refl|].
    apply in_app_or in Hq. destruct Hq as [Hq|[<-|[]]]; [|apply Qcle_refl].
    apply in_map_iff in Hq. destruct Hq as [v [<- Hv]].
    apply Qc_mul_nonneg; [apply Qc_div_nonneg; [qc_order | exact Hpos] | apply Hin; exact Hv].
  - cbn [sumQ]. rewrite sumQ_app. cbn [sumQ].
    rewrite (sumQ_map_scale (1 / sumQ (strip w)) (fun v => v)). rewrite map_id.
    field. exact Hne.
Qed.

Theorem wtrap_nonneg boundary a b ivs w :
  wtrap boundary false a b ivs = Some w -> forall q, In q w -> 0 <= q.
Proof.
  unfold wtrap. set (n := S (length ivs)).
  destruct (n =? 1)%nat.
  { intro H; inversion H; subst. intros q [<-|[]]. qc_order. }
  destruct (negb boundary && (n =? 3)%nat).
  { intro H; inversion H; subst. intros q [<-|[<-|[<-|[]]]]; qc_order. }
  destruct (negb (boundary || (3 <? n)%nat)); [discriminate|].
  unfold wtrap_general. destruct (opt_list (map clip (accum 0 ivs))) as [c|] eqn:Ec; [|discriminate].
  pose proof (opt_list_clip_nonneg _ _ Ec) as Hc.
  destruct boundary.
  - intro H; inversion H; subst. exact Hc.
  - intro H. exact (proj1 (renormalise_spec c w Hc H)).
Qed.

(* T2: without boundary points the returned weights always sum to 1 *)
Theorem wtrap_sum_one_noboundary a b ivs w : wtrap false false a b ivs = Some w -> sumQ w = 1.
Proof.
  unfold wtrap. set (n := S (length ivs)).
  destruct (n =? 1)%nat.
  { intro H; inversion H; subst. cbn. ring. }
  cbn [negb andb orb].
  destruct (n =? 3)%nat.
  { intro H; inversion H; subst. cbn. ring. }
  destruct (negb (3 <? n)%nat); [discriminate|].
  unfold wtrap_general. destruct (opt_list (map clip (accum 0 ivs))) as [c|] eqn:Ec; [|discriminate].
  intro H. exact (proj2 (renormalise_spec c w (opt_list_clip_nonneg _ _ Ec) H)).
Qed.

(* T3: with boundary points, under the moment hypotheses, nothing is clipped and the weights sum to the total probability *)
Theorem wtrap_boundary_sum a b ivs :
  (1 <= length ivs)%nat -> (forall iv, In iv ivs -> ival_ok iv) ->
  wtrap true false a b ivs = Some (accum 0 ivs) /\ sumQ (accum 0 ivs) = sum_m0 ivs.
Proof.
  intros Hn Hok. split.
  - unfold wtrap. destruct (Nat.eqb_spec (S (length ivs)) 1); [lia|]. cbn [negb andb orb].
    unfold wtrap_general. rewrite opt_list_clip_id; [reflexivity|].
    apply accum_nonneg; [apply Qcle_refl|]. intros iv Hiv. apply ival_ok_weights. apply Hok. exact Hiv.
  - rewrite accum_sum. ring.
Qed.

(* ---------------------------------------------------------------- uniform distribution *)
Lemma uni_ivals_length a b x : length (uni_ivals a b x) = (length x - 1)%nat.
Proof.
  induction x as [|x1 t IH]; [reflexivity|]. destruct t as [|x2 t]; [reflexivity|].
  change (uni_ivals a b (x1 :: x2 :: t)) with
    ({| i_x1 := Fin x1; i_x2 := Fin x2; i_m0 := uni_m0 a b x1 x2; i_m1 := uni_m1 a b x1 x2 |} :: uni_ivals a b (x2 :: t)).
  cbn [length]. rewrite IH. simpl. lia.
Qed.

Lemma uni_w x1 x2 a b :
  x1 <> x2 -> a <> b ->
  let iv := {| i_x1 := Fin x1; i_x2 := Fin x2; i_m0 := uni_m0 a b x1 x2; i_m1 := uni_m1 a b x1 x2 |} in
  w1_of iv = Qchalf * (x2 - x1) / (b - a) /\ w2_of iv = Qchalf * (x2 - x1) / (b - a).
Proof.
  intros H12 Hab iv. unfold w1_of, w2_of, iv, uni_m0, uni_m1. cbn [i_x1 i_x2 i_m0 i_m1 ext_isinf ext_val].
  assert (D1 : x2 - x1 <> 0) by (apply sub_neq0; intro E; apply H12; symmetry; exact E).
  assert (D2 : b - a <> 0) by (apply sub_neq0; intro E; apply Hab; symmetry; exact E).
  split; qfield.
Qed.

(* the structurally recursive form of the unweighted trapezoidal weights, scaled by 1/(b-a) *)
Fixpoint trap_rec (scale : Qc) (carry : Qc) (x : list Qc) : list Qc :=
  match x with
  | x1 :: ((x2 :: _) as t) => (carry + Qchalf * (x2 - x1) * scale) :: trap_rec scale (Qchalf * (x2 - x1) * scale) t
  | [_] => [carry]
  | [] => []
  end.

Lemma accum_uniform a b x c :
  strictly_increasing x -> a <> b -> (1 <= length x)%nat ->
  accum c (uni_ivals a b x) = trap_rec (/ (b - a)) c x.
Proof.
  revert c. induction x as [|x1 t IH]; intros c Hs Hab Hl; [simpl in Hl; lia|].
  destruct t as [|x2 t]; [reflexivity|].
  change (uni_ivals a b (x1 :: x2 :: t)) with
    ({| i_x1 := Fin x1; i_x2 := Fin x2; i_m0 := uni_m0 a b x1 x2; i_m1 := uni_m1 a b x1 x2 |} :: uni_ivals a b (x2 :: t)).
  cbn [accum]. change (trap_rec (/ (b - a)) c (x1 :: x2 :: t)) with
    ((c + Qchalf * (x2 - x1) * / (b - a)) :: trap_rec (/ (b - a)) (Qchalf * (x2 - x1) * / (b - a)) (x2 :: t)).
  simpl in Hs. destruct Hs as [H12 Hs].
  assert (Hne : x1 <> x2). { intro E. subst. apply (Qclt_not_le _ _ H12). apply Qcle_refl. }
  destruct (uni_w x1 x2 a b Hne Hab) as [E1 E2]. cbv zeta in E1, E2. rewrite E1, E2.
  f_equal. apply IH; [exact Hs | exact Hab | simpl; lia].
Qed.

(* trap_rec is the index-defined weight list of Model/Trap.v *)
Lemma trap_rec_nth scale x : forall c i, (i < length x)%nat ->
  nq (trap_rec scale c x) i =
  (if (i =? 0)%nat then c else Qchalf * (nq x i - nq x (i - 1)) * scale)
  + (if (i <? length x - 1)%nat then Qchalf * (nq x (S i) - nq x i) * scale else 0).
Proof.
  induction x as [|x1 t IH]; intros c i Hi; [simpl in Hi; lia|].
  destruct t as [|x2 t].
  - simpl in Hi. replace i with 0%nat by lia. unfold nq. simpl. ring.
  - change (trap_rec scale c (x1 :: x2 :: t)) with
      ((c + Qchalf * (x2 - x1) * scale) :: trap_rec scale (Qchalf * (x2 - x1) * scale) (x2 :: t)).
    destruct i as [|i].
    + unfold nq. cbn [nth Nat.eqb length]. destruct (Nat.ltb_spec 0 (S (S (length t)) - 1)); [|lia]. ring.
    + unfold nq in *. cbn [nth]. rewrite IH by (simpl in Hi |- *; lia).
      cbn [Nat.eqb]. replace (S i - 1)%nat with i by lia.
      assert (L : (length (x1 :: x2 :: t) - 1 = S (length (x2 :: t) - 1))%nat) by (simpl; lia).
      rewrite L.
      destruct i as [|i].
      * cbn [Nat.eqb nth]. change (1 <? S (length (x2 :: t) - 1))%nat with (0 <? length (x2 :: t) - 1)%nat. ring.
      * cbn [Nat.eqb]. replace (S i - 0)%nat with (S i) by lia.
        change (S (S i) <? S (length (x2 :: t) - 1))%nat with (S i <? length (x2 :: t) - 1)%nat.
        replace (S i - 1)%nat with i by lia. cbn [nth]. ring.
Qed.

Lemma trap_rec_length scale c x : length (trap_rec scale c x) = length x.
Proof.
  revert c. induction x as [|x1 t IH]; intro c; [reflexivity|]. destruct t as [|x2 t]; [reflexivity|].
  change (trap_rec scale c (x1 :: x2 :: t)) with
    ((c + Qchalf * (x2 - x1) * scale) :: trap_rec scale (Qchalf * (x2 - x1) * scale) (x2 :: t)).
  cbn [length]. rewrite IH. reflexivity.
Qed.

Lemma trap_rec_is_weights x a b scale :
  trap_rec scale 0 x = map (fun t => t * scale) (weights_raw false x a b).
Proof.
  apply nth_ext with (d := 0) (d' := 0).
  - rewrite trap_rec_length, map_length, weights_raw_false, weights_general_length. reflexivity.
  - intros i Hi. rewrite trap_rec_length in Hi.
    change (nq (trap_rec scale 0 x) i = nq (map (fun t => t * scale) (weights_raw false x a b)) i).
    rewrite trap_rec_nth by exact Hi.
    assert (E : nq (map (fun t => t * scale) (weights_raw false x a b)) i = nq (weights_raw false x a b) i * scale).
    { unfold nq. rewrite nth_indep with (d' := 0 * scale) by (rewrite map_length, weights_raw_false, weights_general_length; exact Hi).
      apply (map_nth (fun t => t * scale)). }
    rewrite E. rewrite weights_raw_false. unfold weights_general. rewrite nq_map_seq by exact Hi.
    unfold w_general, wl, wr. cbn [andb].
    destruct (Nat.eqb_spec i 0) as [->|Hi0].
    + destruct (Nat.ltb_spec 0 (length x - 1)); cbn [negb]; simpl; ring.
    + destruct (Nat.ltb_spec i (length x - 1)); cbn [negb]; replace (i + 1)%nat with (S i) by lia; ring.
Qed.

(* T4: uniform distribution, boundary points present: the weighted weights are the unweighted ones divided by b - a *)
Theorem wtrap_uniform_is_trap_over_length x a b :
  strictly_increasing x -> (2 <= length x)%nat -> a < b ->
  wtrap true false a b (uni_ivals a b x) = Some (map (fun t => t / (b - a)) (weights_raw false x a b)).
Proof.
  intros Hs Hl Hab.
  assert (Hne : a <> b). { intro E. subst. apply (Qclt_not_le _ _ Hab). apply Qcle_refl. }
  unfold wtrap. rewrite uni_ivals_length. destruct (Nat.eqb_spec (S (length x - 1)) 1); [lia|].
  cbn [negb andb orb]. unfold wtrap_general.
  rewrite accum_uniform by (try assumption; lia).
  rewrite (trap_rec_is_weights x a b).
  rewrite opt_list_clip_id; [reflexivity|].
  intros q Hq. apply in_map_iff in Hq. destruct Hq as [v [<- Hv]].
  apply Qc_mul_nonneg.
  - eapply trap_nonneg; [apply strictly_increasing_sorted_le; exact Hs | exact Hv].
  - apply Qclt_le_weak. apply Qc_inv_pos. qc_order.
Qed.

(* ... and without boundary points they are the inner unweighted weights renormalised to sum 1 *)
Lemma strip_map {A B} (f : A -> B) (l : list A) : strip (map f l) = map f (strip l).
Proof.
  unfold strip. destruct l as [|x t]; [reflexivity|]. cbn [map tl].
  induction t as [|y t IH]; [reflexivity|]. destruct t as [|z t]; [reflexivity|].
  cbn [map removelast] in *. f_equal. exact IH.
Qed.

Theorem wtrap_uniform_noboundary x a b :
  strictly_increasing x -> (4 <= length x)%nat -> a < b ->
  let inner := strip (weights_raw false x a b) in
  sumQ inner <> 0 ->
  wtrap false false a b (uni_ivals a b x) = Some (0 :: map (fun v => v / sumQ inner) inner ++ [0]).
Proof.
  intros Hs Hl Hab inner Hin.
  assert (Hne : a <> b). { intro E. subst. apply (Qclt_not_le _ _ Hab). apply Qcle_refl. }
  assert (Hd : b - a <> 0) by (apply lt_sub_neq0; exact Hab).
  unfold wtrap. rewrite uni_ivals_length. destruct (Nat.eqb_spec (S (length x - 1)) 1); [lia|].
  destruct (Nat.eqb_spec (S (length x - 1)) 3); [lia|]. cbn [negb andb orb].
  destruct (Nat.ltb_spec 3 (S (length x - 1))); [|lia]. cbn [negb].
  unfold wtrap_general.
  rewrite accum_uniform by (try assumption; lia).
  rewrite (trap_rec_is_weights x a b).
  rewrite opt_list_clip_id.
  2: { intros q Hq. apply in_map_iff in Hq. destruct Hq as [v [<- Hv]].
       apply Qc_mul_nonneg; [eapply trap_nonneg; [apply strictly_increasing_sorted_le; exact Hs | exact Hv]
                            | apply Qclt_le_weak; apply Qc_inv_pos; qc_order]. }
  unfold renormalise. rewrite strip_map. fold inner.
  assert (Es : sumQ (map (fun t => t * / (b - a)) inner) = sumQ inner * / (b - a)).
  { clear. induction inner as [|y l IH]; simpl; [ring | rewrite IH; ring]. }
  rewrite Es.
  destruct (Qc_eqb (sumQ inner * / (b - a)) 0) eqn:E0.
  - exfalso. apply Qc_eqb_eq in E0. apply Hin.
    transitivity (sumQ inner * / (b - a) * (b - a)); [field; exact Hd | rewrite E0; ring].
  - f_equal. f_equal. f_equal. rewrite map_map. apply map_ext. intro v. field. split; assumption.
Qed.

(* ---------------------------------------------------------------- weighted midpoint *)
Lemma eps14_pos : 0 < eps14.
Proof. unfold eps14. qc_order. Qed.

Theorem mid_strictly_inside a b mid0 :
  ext_lt a b -> (a = NegInf -> b = PosInf -> inside a mid0 b = true) ->
  exists m, get_middle_weighted a b mid0 = Some m /\ inside a m b = true.
Proof.
  intros Hab Hinf. unfold get_middle_weighted.
  destruct (inside a mid0 b) eqn:E0; [exists mid0; split; [reflexivity | exact E0]|].
  pose proof eps14_pos as He.
  destruct a as [|p|], b as [|q|]; try discriminate Hab.
  - (* -inf, finite *) cbn. exists (Fin (q + - eps14)). split; [reflexivity|].
    unfold inside. cbn. rewrite andb_true_l || idtac. apply Qc_ltb_lt. qc_order.
  - (* -inf, +inf *) specialize (Hinf eq_refl eq_refl). congruence.
  - (* finite, finite *)
    unfold ext_lt in Hab. cbn in Hab. apply Qc_ltb_lt in Hab.
    cbn [half_sum]. exists (Fin (Qchalf * (p + q))).
    assert (Hin : inside (Fin p) (Fin (Qchalf * (p + q))) (Fin q) = true).
    { unfold inside. cbn. apply andb_true_iff. split; apply Qc_ltb_lt; qc_order. }
    rewrite Hin. split; reflexivity.
  - (* finite, +inf *) cbn. exists (Fin (p + eps14)). split; [reflexivity|].
    unfold inside. cbn. rewrite andb_true_r. apply Qc_ltb_lt. qc_order.
Qed.

(* equal probability: when the distribution's ppf inverts its cdf at the mean of the two cdf values and the result lies inside *)
Theorem mid_equal_probability (cdf : ext -> Qc) a b mid0 :
  inside a mid0 b = true -> cdf mid0 = Qchalf * (cdf a + cdf b) ->
  get_middle_weighted a b mid0 = Some mid0 /\ cdf mid0 - cdf a = cdf b - cdf mid0.
Proof.
  intros Hin Hc. unfold get_middle_weighted. rewrite Hin. split; [reflexivity|]. rewrite Hc. qfield.
Qed.

(* ---------------------------------------------------------------- expectation and variance from moments *)
Lemma dotQ_affine (w f : list Qc) c e :
  length w = length f -> dotQ w (map (fun t => c * t + e) f) = c * dotQ w f + e * sumQ w.
Proof.
  revert f. induction w as [|a w IH]; intros [|b f] H; try discriminate; simpl; [ring|].
  rewrite IH by (simpl in H; lia). ring.
Qed.

Theorem expectation_affine w f c e :
  length w = length f -> sumQ w = 1 ->
  rule_mom1 w (map (fun t => c * t + e) f) = c * rule_mom1 w f + e.
Proof. intros Hl Hs. unfold rule_mom1. rewrite dotQ_affine by exact Hl. rewrite Hs. ring. Qed.

Lemma mom2_affine_gen w f c e :
  length w = length f ->
  rule_mom2 w (map (fun t => c * t + e) f) = c * c * rule_mom2 w f + (1 + 1) * c * e * rule_mom1 w f + e * e * sumQ w.
Proof.
  unfold rule_mom2, rule_mom1. rewrite map_map.
  revert f. induction w as [|a w IH]; intros [|b f] H; try discriminate; simpl; [ring|].
  rewrite IH by (simpl in H; lia). ring.
Qed.

Lemma mom2_affine w f c e :
  length w = length f -> sumQ w = 1 ->
  rule_mom2 w (map (fun t => c * t + e) f) = c * c * rule_mom2 w f + (1 + 1) * c * e * rule_mom1 w f + e * e.
Proof. intros Hl Hs. rewrite mom2_affine_gen by exact Hl. rewrite Hs. ring. Qed.

Definition absneg (v : Qc) : Qc := if Qc_ltb v 0 then - v else v.

Lemma absneg_nonneg v : 0 <= absneg v.
Proof.
  unfold absneg. destruct (Qc_ltb v 0) eqn:E.
  - apply Qc_ltb_lt in E. qc_order.
  - apply Qcnot_lt_le. intro H. apply Qc_ltb_lt in H. congruence.
Qed.

Lemma absneg_scale_sq c v : absneg (c * c * v) = c * c * absneg v.
Proof.
  unfold absneg.
  destruct (Qc_ltb v 0) eqn:Ev; destruct (Qc_ltb (c * c * v) 0) eqn:Ec; try ring.
  - (* v < 0, c*c*v >= 0: then c*c*v = 0 *)
    apply Qc_ltb_lt in Ev. assert (H : ~ c * c * v < 0) by (intro H; apply Qc_ltb_lt in H; congruence).
    apply Qcnot_lt_le in H. assert (Hsq : 0 <= c * c) by qc_nra.
    assert (E0 : c * c * v = 0) by qc_nra. rewrite E0.
    assert (E1 : c * c * - v = - (c * c * v)) by ring. rewrite E1, E0. ring.
  - (* v >= 0, c*c*v < 0: impossible *)
    apply Qc_ltb_lt in Ec. assert (H : ~ v < 0) by (intro H; apply Qc_ltb_lt in H; congruence).
    apply Qcnot_lt_le in H. exfalso. assert (Hsq : 0 <= c * c) by qc_nra. qc_nra.
Qed.

Theorem variance_affine w f c e :
  length w = length f -> sumQ w = 1 ->
  variance_of w (map (fun t => c * t + e) f) = c * c * variance_of w f.
Proof.
  intros Hl Hs. unfold variance_of. fold (absneg (rule_mom2 w f - rule_mom1 w f * rule_mom1 w f)).
  fold (absneg (rule_mom2 w (map (fun t => c * t + e) f)
                - rule_mom1 w (map (fun t => c * t + e) f) * rule_mom1 w (map (fun t => c * t + e) f))).
  rewrite expectation_affine, mom2_affine by assumption.
  rewrite <- absneg_scale_sq. f_equal. ring.
Qed.

Theorem variance_nonneg w f : 0 <= variance_of w f.
Proof. unfold variance_of. apply absneg_nonneg. Qed.

Theorem constant_model w k n :
  length w = n -> sumQ w = 1 ->
  rule_mom1 w (repeat k n) = k /\ variance_of w (repeat k n) = 0.
Proof.
  intros Hl Hs.
  assert (E1 : forall (u : list Qc) j, dotQ u (repeat j (length u)) = j * sumQ u).
  { induction u as [|a u IH]; intro j; simpl; [ring | rewrite IH; ring]. }
  assert (M1 : rule_mom1 w (repeat k n) = k).
  { unfold rule_mom1. subst n. rewrite E1, Hs. ring. }
  split; [exact M1|].
  unfold variance_of. rewrite M1. unfold rule_mom2.
  assert (E2 : map (fun t => t * t) (repeat k n) = repeat (k * k) n).
  { clear. induction n as [|n IH]; simpl; [reflexivity | rewrite IH; reflexivity]. }
  rewrite E2. subst n. rewrite E1, Hs.
  assert (Z : k * k * 1 - k * k = 0) by ring. rewrite Z.
  destruct (Qc_ltb 0 0); ring.
Qed.

(* the list-level function used on the combined integral *)
Theorem variances_nonneg mom1 mom2 v : In v (variances mom1 mom2) -> 0 <= v.
Proof.
  revert mom2. induction mom1 as [|ex r1 IH]; intros [|m2 r2] H; try destruct H.
  - subst v. apply (absneg_nonneg (m2 - ex * ex)).
  - eapply IH; eauto.
Qed.

Theorem variances_spec mom1 mom2 j :
  (j < length mom1)%nat -> (j < length mom2)%nat ->
  nq (variances mom1 mom2) j = absneg (nq mom2 j - nq mom1 j * nq mom1 j).
Proof.
  revert mom2 j. induction mom1 as [|ex r1 IH]; intros [|m2 r2] j H1 H2; try (simpl in *; lia).
  destruct j as [|j]; [reflexivity|]. unfold nq in *. cbn [variances nth]. apply IH; simpl in *; lia.
Qed.

(* moment-level affine law: mom1' = c mom1 + e, mom2' = c^2 mom2 + 2 c e mom1 + e^2 (what a rule with weights summing to 1 yields) *)
Theorem variance_from_moments_affine m1 m2 c e :
  absneg ((c * c * m2 + (1 + 1) * c * e * m1 + e * e) - (c * m1 + e) * (c * m1 + e)) = c * c * absneg (m2 - m1 * m1).
Proof. rewrite <- absneg_scale_sq. f_equal. ring. Qed.

(* ---------------------------------------------------------------- the uniform moments satisfy the hypotheses (non-vacuity of T3) *)
Lemma uni_ival_ok a b x1 x2 :
  a < b -> x1 < x2 ->
  ival_ok {| i_x1 := Fin x1; i_x2 := Fin x2; i_m0 := uni_m0 a b x1 x2; i_m1 := uni_m1 a b x1 x2 |}.
Proof.
  intros Hab H12. unfold ival_ok, uni_m0, uni_m1. cbn [i_x1 i_x2 i_m0 i_m1].
  assert (Hd : 0 < b - a) by qc_order. pose proof (Qc_inv_pos _ Hd) as Hi.
  unfold Qcdiv. set (i := / (b - a)) in *.
  assert (Hw : 0 <= (x2 - x1) * i) by (apply Qc_mul_nonneg; [qc_order | apply Qclt_le_weak; exact Hi]).
  assert (Hsq : 0 <= (x2 - x1) * (x2 - x1) * Qchalf * i).
  { apply Qc_mul_nonneg; [|apply Qclt_le_weak; exact Hi]. apply Qc_mul_nonneg; [|unfold Qchalf; qc_order].
    apply Qc_mul_nonneg; qc_order. }
  split; [exact Hw|]. split; [exact H12|].
  split.
  - assert (E : (x2 * x2 - x1 * x1) * Qchalf * i - x1 * ((x2 - x1) * i) = (x2 - x1) * (x2 - x1) * Qchalf * i) by qfield.
    assert (G : 0 <= (x2 * x2 - x1 * x1) * Qchalf * i - x1 * ((x2 - x1) * i)) by (rewrite E; exact Hsq).
    qc_order.
  - assert (E : x2 * ((x2 - x1) * i) - (x2 * x2 - x1 * x1) * Qchalf * i = (x2 - x1) * (x2 - x1) * Qchalf * i) by qfield.
    assert (G : 0 <= x2 * ((x2 - x1) * i) - (x2 * x2 - x1 * x1) * Qchalf * i) by (rewrite E; exact Hsq).
    qc_order.
Qed.

Lemma uni_ivals_ok a b x : a < b -> strictly_increasing x -> forall iv, In iv (uni_ivals a b x) -> ival_ok iv.
Proof.
  intros Hab. induction x as [|x1 t IH]; intros Hs iv Hin; [destruct Hin|].
  destruct t as [|x2 t]; [destruct Hin|].
  change (uni_ivals a b (x1 :: x2 :: t)) with
    ({| i_x1 := Fin x1; i_x2 := Fin x2; i_m0 := uni_m0 a b x1 x2; i_m1 := uni_m1 a b x1 x2 |} :: uni_ivals a b (x2 :: t)) in Hin.
  simpl in Hs. destruct Hs as [H12 Hs].
  destruct Hin as [<-|Hin]; [apply uni_ival_ok; assumption | apply IH; assumption].
Qed.

Lemma uni_sum_m0 a b x : a <> b -> sum_m0 (uni_ivals a b x) = (nq x (length x - 1) - nq x 0) / (b - a).
Proof.
  intro Hab. assert (Hd : b - a <> 0) by (apply sub_neq0; intro E; apply Hab; symmetry; exact E).
  induction x as [|x1 t IH]; [unfold nq; simpl; field; exact Hd|].
  destruct t as [|x2 t]; [unfold nq; simpl; field; exact Hd|].
  change (uni_ivals a b (x1 :: x2 :: t)) with
    ({| i_x1 := Fin x1; i_x2 := Fin x2; i_m0 := uni_m0 a b x1 x2; i_m1 := uni_m1 a b x1 x2 |} :: uni_ivals a b (x2 :: t)).
  cbn [sum_m0 i_m0]. rewrite IH. unfold uni_m0, nq.
  replace (length (x1 :: x2 :: t) - 1)%nat with (S (length (x2 :: t) - 1)) by (simpl; lia).
  cbn [nth]. field. exact Hd.
Qed.

Theorem wtrap_uniform_sum_one x a b :
  strictly_increasing x -> (2 <= length x)%nat -> a < b -> nq x 0 = a -> nq x (length x - 1) = b ->
  exists w, wtrap true false a b (uni_ivals a b x) = Some w /\ sumQ w = 1 /\ (forall q, In q w -> 0 <= q).
Proof.
  intros Hs Hl Hab Ha Hb.
  assert (Hne : a <> b). { intro E. subst a. apply (Qclt_not_le _ _ Hab). rewrite E. apply Qcle_refl. }
  destruct (wtrap_boundary_sum a b (uni_ivals a b x)) as [E S].
  - rewrite uni_ivals_length. lia.
  - apply uni_ivals_ok; assumption.
  - exists (accum 0 (uni_ivals a b x)). split; [exact E|]. split.
    + rewrite S, uni_sum_m0 by exact Hne. rewrite Ha, Hb. field. apply lt_sub_neq0. exact Hab.
    + eapply wtrap_nonneg. exact E.
Qed.
