(* Weighted sum-of-squares representations (Proofs/KronSOS.v) of ONE-DIMENSIONAL finite-element matrices on the hats
   (windows) of an arbitrary strictly increasing stripe, assembled cell by cell:

     every cell [x_k, x_k+1] contributes a symmetric 2x2 block  [[al, be], [be, al]]  on the two hats centred at
     its end points, given by a list of terms cellT x_k x_k+1 (cellT_val).  If the entry function e has
         e(t,t) = al(left cell) + al(right cell),   e(t, right neighbour) = e(right neighbour, t) = be(cell between),
         e = 0 for hats that are not neighbours                                            (e_diag, e_off)
     then the concatenation of the cell terms represents e on the windows of the stripe (stripe_represents).
   Instances: mass matrix (al = h/3, be = h/6; Proofs/GramKron.v), stiffness matrix (al = 1/h, be = -1/h;
   Proofs/RegressKron.v). *)
From Coq Require Import ZArith List QArith Qcanon Bool Lia Lqa.
From SG Require Import Base.QcUtil Model.Gram Proofs.GramHat Proofs.GramEntries Proofs.GramPD Proofs.KronSOS.
Import ListNotations.
Open Scope Qc_scope.

Definition delta (x : Qc) (t : hatdom) : Qc := if Qc_eqb (h_p t) x then 1 else 0.

Lemma delta_eq x t : h_p t = x -> delta x t = 1.
Proof. intro H. unfold delta. rewrite (proj2 (Qc_eqb_eq _ _) H). reflexivity. Qed.
Lemma delta_neq x t : h_p t <> x -> delta x t = 0.
Proof. intro H. unfold delta. rewrite (proj2 (Qc_eqb_false _ _) H). reflexivity. Qed.

Lemma strictly_inc_head_lt y0 ys : strictly_inc (y0 :: ys) -> forall y, In y ys -> y0 < y.
Proof.
  revert y0; induction ys as [|y1 ys IH]; intros y0 Hs y Hy; [destruct Hy|].
  destruct Hs as [H01 Hs]. destruct Hy as [Hy|Hy]; [subst; exact H01|].
  apply Qclt_trans with y1; [exact H01 | apply IH; assumption].
Qed.

Lemma lt_neq (a b : Qc) : a < b -> a <> b.
Proof. intros H E. subst. exact (Qclt_not_le _ _ H (Qcle_refl _)). Qed.
Lemma gt_neq (a b : Qc) : b < a -> a <> b.
Proof. intros H E. subst. exact (Qclt_not_le _ _ H (Qcle_refl _)). Qed.

Lemma windows_lo_ge y0 ys : strictly_inc (y0 :: ys) -> forall u, In u (windows (y0 :: ys)) -> y0 <= h_lo u.
Proof.
  revert y0; induction ys as [|y1 ys IH]; intros y0 Hs u Hu; [destruct Hu|].
  destruct ys as [|y2 r]; [destruct Hu|].
  cbn [windows] in Hu. destruct Hs as [H01 Hs]. destruct Hu as [Hu|Hu].
  - subst u. apply Qcle_refl.
  - apply Qcle_trans with y1; [apply Qclt_le_weak; exact H01 | apply IH; assumption].
Qed.

(* the windows after the first one: the next window is centred at x2, all later ones lie strictly to the right *)
Lemma rest_windows_cases x1 x2 rest u : strictly_inc (x1 :: x2 :: rest) -> In u (windows (x1 :: x2 :: rest)) ->
  (exists x3, h_lo u = x1 /\ h_p u = x2 /\ h_hi u = x3 /\ x2 < x3) \/ (x2 < h_p u /\ x2 <= h_lo u).
Proof.
  intros [H12 Hs] Hu. destruct rest as [|x3 rest]; [destruct Hu|].
  change (windows (x1 :: x2 :: x3 :: rest)) with (mkH x1 x2 x3 :: windows (x2 :: x3 :: rest)) in Hu.
  destruct Hu as [Hu|Hu].
  - left. exists x3. subst u. cbn [h_lo h_p h_hi]. repeat split; try reflexivity. apply Hs.
  - right. split; [apply (windows_p_gt x2 (x3 :: rest) Hs u Hu) | apply (windows_lo_ge x2 (x3 :: rest) Hs u Hu)].
Qed.

Section Stripe.
  Variable e : hatdom -> hatdom -> Qc.
  Variable cellT : Qc -> Qc -> list (term hatdom).
  Variables al be : Qc -> Qc -> Qc.
  Hypothesis cellT_val : forall x0 x1 t u,
    sos_val (cellT x0 x1) t u
    = al x0 x1 * (delta x0 t * delta x0 u + delta x1 t * delta x1 u)
      + be x0 x1 * (delta x0 t * delta x1 u + delta x1 t * delta x0 u).
  Hypothesis e_diag : forall x0 x1 x2, x0 < x1 -> x1 < x2 -> e (mkH x0 x1 x2) (mkH x0 x1 x2) = al x0 x1 + al x1 x2.
  Hypothesis e_off : forall x0 x1 x2 rest u, strictly_inc (x0 :: x1 :: x2 :: rest) -> In u (windows (x1 :: x2 :: rest)) ->
    e (mkH x0 x1 x2) u = be x1 x2 * delta x2 u /\ e u (mkH x0 x1 x2) = be x1 x2 * delta x2 u.

  Fixpoint stripe_terms (xs : list Qc) : list (term hatdom) :=
    match xs with
    | x0 :: r => match r with x1 :: _ => cellT x0 x1 ++ stripe_terms r | [] => [] end
    | [] => []
    end.

  Lemma stripe_terms_cons2 x0 x1 r : stripe_terms (x0 :: x1 :: r) = cellT x0 x1 ++ stripe_terms (x1 :: r).
  Proof. reflexivity. Qed.

  Lemma sos_stripe_zero_l l t u : (forall y, In y l -> h_p t <> y) -> sos_val (stripe_terms l) t u = 0.
  Proof.
    induction l as [|x0 l IH]; intro H; [reflexivity|]. destruct l as [|x1 r]; [reflexivity|].
    rewrite stripe_terms_cons2, sos_val_app, cellT_val.
    rewrite IH by (intros y Hy; apply H; right; exact Hy).
    rewrite (delta_neq x0 t) by (apply H; left; reflexivity).
    rewrite (delta_neq x1 t) by (apply H; right; left; reflexivity). ring.
  Qed.

  Lemma sos_stripe_zero_r l t u : (forall y, In y l -> h_p u <> y) -> sos_val (stripe_terms l) t u = 0.
  Proof.
    induction l as [|x0 l IH]; intro H; [reflexivity|]. destruct l as [|x1 r]; [reflexivity|].
    rewrite stripe_terms_cons2, sos_val_app, cellT_val.
    rewrite IH by (intros y Hy; apply H; right; exact Hy).
    rewrite (delta_neq x0 u) by (apply H; left; reflexivity).
    rewrite (delta_neq x1 u) by (apply H; right; left; reflexivity). ring.
  Qed.

  (* the hat centred at the first coordinate of the (remaining) stripe only sees the first cell *)
  Lemma head_row y0 y1 r t u : strictly_inc (y0 :: y1 :: r) -> h_p t = y0 ->
    sos_val (stripe_terms (y0 :: y1 :: r)) t u = al y0 y1 * delta y0 u + be y0 y1 * delta y1 u.
  Proof.
    intros Hs Hp. rewrite stripe_terms_cons2, sos_val_app, cellT_val.
    rewrite sos_stripe_zero_l.
    - rewrite (delta_eq y0 t Hp). rewrite (delta_neq y1 t) by (rewrite Hp; apply lt_neq; apply Hs). ring.
    - intros y Hy. rewrite Hp. apply lt_neq. apply (strictly_inc_head_lt y0 (y1 :: r) Hs y Hy).
  Qed.

  Lemma head_col y0 y1 r t u : strictly_inc (y0 :: y1 :: r) -> h_p u = y0 ->
    sos_val (stripe_terms (y0 :: y1 :: r)) t u = al y0 y1 * delta y0 t + be y0 y1 * delta y1 t.
  Proof.
    intros Hs Hp. rewrite stripe_terms_cons2, sos_val_app, cellT_val.
    rewrite sos_stripe_zero_r.
    - rewrite (delta_eq y0 u Hp). rewrite (delta_neq y1 u) by (rewrite Hp; apply lt_neq; apply Hs). ring.
    - intros y Hy. rewrite Hp. apply lt_neq. apply (strictly_inc_head_lt y0 (y1 :: r) Hs y Hy).
  Qed.

  Theorem stripe_represents xs : strictly_inc xs -> represents e (stripe_terms xs) (windows xs).
  Proof.
    induction xs as [|x0 xs IH]; intros Hs t u Ht Hu; [destruct Ht|].
    destruct xs as [|x1 [|x2 rest]]; try (destruct Ht; fail).
    change (windows (x0 :: x1 :: x2 :: rest)) with (mkH x0 x1 x2 :: windows (x1 :: x2 :: rest)) in Ht, Hu.
    rewrite stripe_terms_cons2, sos_val_app, cellT_val.
    pose proof Hs as [H01 Hs1]. pose proof Hs1 as [H12 Hs2].
    assert (N01 : x1 <> x0) by (apply gt_neq; exact H01).
    assert (Rest : forall w, In w (windows (x1 :: x2 :: rest)) -> delta x0 w = 0 /\ delta x1 w = 0).
    { intros w Hw. pose proof (windows_p_gt x1 (x2 :: rest) Hs1 w Hw) as G.
      split; apply delta_neq; apply gt_neq; [apply Qclt_trans with x1; assumption | exact G]. }
    destruct Ht as [Ht|Ht]; destruct Hu as [Hu|Hu].
    - subst t u. rewrite (e_diag x0 x1 x2 H01 H12).
      rewrite (head_row x1 x2 rest _ _ Hs1) by reflexivity.
      rewrite (delta_neq x0) by (cbn [h_p]; exact N01). rewrite (delta_eq x1) by reflexivity.
      rewrite (delta_neq x2) by (cbn [h_p]; apply lt_neq; exact H12). ring.
    - subst t. destruct (Rest u Hu) as [D0 D1]. rewrite D0, D1.
      rewrite (proj1 (e_off x0 x1 x2 rest u Hs Hu)).
      rewrite (head_row x1 x2 rest _ _ Hs1) by reflexivity. rewrite D1. ring.
    - subst u. destruct (Rest t Ht) as [D0 D1]. rewrite D0, D1.
      rewrite (proj2 (e_off x0 x1 x2 rest t Hs Ht)).
      rewrite (head_col x1 x2 rest _ _ Hs1) by reflexivity. rewrite D1. ring.
    - destruct (Rest t Ht) as [D0 D1]. rewrite D0, D1.
      rewrite (IH Hs1 t u Ht Hu). ring.
  Qed.

  (* sign of the coefficients: inherited from the cells *)
  Lemma stripe_terms_Forall (P : term hatdom -> Prop) xs :
    (forall x0 x1, x0 < x1 -> Forall P (cellT x0 x1)) -> strictly_inc xs -> Forall P (stripe_terms xs).
  Proof.
    intro HP. induction xs as [|x0 xs IH]; intro Hs; [constructor|]. destruct xs as [|x1 r]; [constructor|].
    rewrite stripe_terms_cons2. destruct Hs as [H01 Hs]. apply Forall_app. split; [apply HP; exact H01 | apply IH; exact Hs].
  Qed.
End Stripe.
