(* C05 on the extend-split model: the accumulator equals the recomputation over the current areas and their local combinations
   under the CURRENT scheme, along every history of evaluate / refine / scheme-extension steps; for coarsening version 0 the
   stored area results stay current when the scheme is extended (local combination = standard scheme of level lmax - c). *)
From Coq Require Import ZArith List Bool QArith Qcanon Lia Permutation.
From SG Require Import Base.QcUtil Model.CombiScheme Model.ExtendSplit Model.Accum Model.AccumES Proofs.AccumProofs Proofs.ESV0.
Import ListNotations.
Open Scope Z_scope.

Section CoupledProofs.
  Variable V : Type.
  Variable vzero : V.
  Variable vadd : V -> V -> V.
  Variable vopp : V -> V.
  Hypothesis vadd_assoc : forall a b c, vadd a (vadd b c) = vadd (vadd a b) c.
  Hypothesis vadd_comm : forall a b, vadd a b = vadd b a.
  Hypothesis vadd_0_l : forall a, vadd vzero a = a.
  Hypothesis vadd_opp_r : forall a, vadd a (vopp a) = vzero.

  Notation vsum := (vsum V vzero vadd).
  Notation astate := (astate V).
  Notation Inv2 := (Inv2 V vzero vadd).
  Notation evaluate_new := (evaluate_new V vzero vadd vopp).
  Notation refine_step := (refine_step V vzero vadd vopp).

  (* every evaluated area stores the value the recomputation assigns to it *)
  Definition Coupled (val : Z -> V) (s : astate) : Prop :=
    Inv2 s /\ NoDup (st_new s) /\ forall id v, In (id, v) (st_areas s) -> ~ In id (st_new s) -> v = val id.

  Definition cstep_ok (val : Z -> V) (s : astate) (st : cstep V) : Prop :=
    match st with
    | CEvaluate parts => forall id, In id (st_new s) -> vsum (parts id) = val id
    | CRefine removed added => st_new s = [] /\ refine_ok V s removed added
    | CRescheme val' => forall id, In id (ids V s) -> val' id = val id
    end.

  Definition capply (vs : (Z -> V) * astate) (st : cstep V) : (Z -> V) * astate :=
    match st with
    | CEvaluate parts => (fst vs, evaluate_new true parts (snd vs))
    | CRefine removed added => (fst vs, refine_step removed added (snd vs))
    | CRescheme val' => (val', snd vs)
    end.

  Fixpoint crun_ok (vs : (Z -> V) * astate) (steps : list (cstep V)) : Prop :=
    match steps with
    | [] => True
    | st :: r => cstep_ok (fst vs) (snd vs) st /\ crun_ok (capply vs st) r
    end.

  Lemma in_area_del p id l : In p (area_del V id l) -> In p l.
  Proof.
    induction l as [|[i u] r IH]; cbn; [intros []|]. destruct (i =? id); cbn; [intro H; right; exact H|].
    intros [H|H]; [left; exact H|right; apply IH; exact H].
  Qed.

  Lemma in_remove l : forall s p, In p (st_areas (fold_left (remove_one V vzero vadd vopp) l s)) -> In p (st_areas s).
  Proof.
    induction l as [|id l IH]; intros s p H; [exact H|]. cbn [fold_left] in H. apply IH in H.
    unfold remove_one in H. cbn [st_areas] in H. apply (in_area_del p id _ H).
  Qed.

  Lemma coupled_evaluate val parts s :
    Coupled val s -> cstep_ok val s (CEvaluate parts) -> Coupled val (evaluate_new true parts s).
  Proof.
    intros [H2 [Nd Hv]] Ok. cbn [cstep_ok] in Ok.
    pose proof (inv2_evaluate_clear V vzero vadd vopp vadd_assoc vadd_comm vadd_0_l vadd_opp_r parts s H2) as H2'.
    split; [exact H2'|]. split; [unfold Accum.evaluate_new; cbn [st_new]; constructor|].
    intros id v Hin _.
    destruct H2 as [[Hn [T C]] Hz].
    assert (Hsub : forall i, In i (st_new s) -> In i (ids V s)).
    { intros i Hi. apply (area_get_In V). rewrite (Hz i Hi). discriminate. }
    assert (G : area_get V id (st_areas (evaluate_new true parts s)) = Some v).
    { apply (nodup_get V); [exact (proj1 (proj1 H2'))|exact Hin]. }
    unfold Accum.evaluate_new in G. cbn [st_areas] in G.
    assert (Ipre : ids V (apply_events V vzero vadd vopp (map APre (st_new s)) s) = ids V s) by (apply pre_ids; exact Hsub).
    rewrite (evals_all_get V vzero vadd vopp vadd_assoc vadd_comm vadd_0_l parts (st_new s) Nd) in G.
    - rewrite (pre_get V vzero vadd vopp (st_new s) s id Hsub) in G.
      destruct (memZ id (st_new s)) eqn:M.
      + apply (memZ_In) in M. rewrite (Hz id M) in G. injection G as <-. rewrite vadd_0_l. apply Ok. exact M.
      + apply Hv.
        * clear - G. induction (st_areas s) as [|[i u] r IHr]; cbn in G; [discriminate|].
          destruct (i =? id) eqn:E; [apply Z.eqb_eq in E; subst; injection G as ->; left; reflexivity|right; apply IHr; exact G].
        * intro X. apply memZ_In in X. congruence.
    - intros i Hi. apply (area_get_In V). fold (ids V (apply_events V vzero vadd vopp (map APre (st_new s)) s)). rewrite Ipre. apply Hsub. exact Hi.
  Qed.

  Lemma coupled_refine val removed added s :
    Coupled val s -> cstep_ok val s (CRefine removed added) -> Coupled val (refine_step removed added s).
  Proof.
    intros [H2 [Nd Hv]] [Wn Ok].
    pose proof (inv2_refine V vzero vadd vopp vadd_assoc vadd_comm vadd_0_l vadd_opp_r s removed added (proj1 H2) Ok) as H2'.
    split; [exact H2'|].
    assert (En : st_new (refine_step removed added s) = added).
    { unfold Accum.refine_step. cbn [Accum.apply_event].
      destruct (inv_remove V vzero vadd vopp vadd_assoc vadd_comm vadd_0_l vadd_opp_r removed
                  (mkA (st_areas s ++ map (fun id => (id, vzero)) added) added (st_total s) (st_cont s))) as [_ [B _]].
      - pose proof (proj1 H2') as X. clear X.
        (* Inv of the intermediate state: reuse inv2_refine's first half by direct construction *)
        destruct H2 as [[Hn [T C]] _]. destruct Ok as [Hnd [Hfresh _]].
        unfold Inv, ids. cbn [st_areas st_total st_cont]. rewrite !map_app, !map_map. cbn [fst snd]. rewrite map_id.
        split; [|split; [|exact C]].
        + clear - Hn Hnd Hfresh. unfold ids in *. induction (map fst (st_areas s)) as [|x l IH]; cbn; [exact Hnd|].
          inversion Hn. subst. constructor.
          * intro X. apply in_app_or in X. destruct X as [X|X]; [contradiction|]. apply (Hfresh x X). left. reflexivity.
          * apply IH; [assumption|]. intros id Hin X. apply (Hfresh id Hin). right. exact X.
        + rewrite (vsum_app V vzero vadd vadd_assoc vadd_0_l), (vsum_zeros V vzero vadd vadd_0_l), (vadd_0_r V vzero vadd vadd_comm vadd_0_l). exact T.
      - exact B. }
    split; [rewrite En; exact (proj1 Ok)|].
    intros id v Hin Hnot. rewrite En in Hnot.
    unfold Accum.refine_step in Hin. cbn [Accum.apply_event] in Hin. apply in_remove in Hin. cbn [st_areas] in Hin.
    apply in_app_or in Hin. destruct Hin as [Hin|Hin].
    - apply Hv; [exact Hin|]. rewrite Wn. intros [].
    - apply in_map_iff in Hin. destruct Hin as [i [E Hi]]. injection E as -> _. contradiction.
  Qed.

  Lemma coupled_rescheme val val' s : Coupled val s -> cstep_ok val s (CRescheme val') -> Coupled val' s.
  Proof.
    intros [H2 [Nd Hv]] Ok. split; [exact H2|]. split; [exact Nd|]. intros id v Hin Hn.
    rewrite (Ok id); [apply Hv; assumption|]. unfold ids. apply in_map_iff. exists (id, v). auto.
  Qed.

  (* every history of evaluate / refine / scheme-extension steps keeps the coupling *)
  Theorem coupled_run steps : forall vs, Coupled (fst vs) (snd vs) -> crun_ok vs steps ->
    Coupled (fst (fold_left capply steps vs)) (snd (fold_left capply steps vs)).
  Proof.
    induction steps as [|st r IH]; intros [val s] H W; [exact H|]. destruct W as [Wk Wr]. cbn [fold_left]. apply IH; [|exact Wr].
    cbn [fst snd] in *. destruct st as [parts|removed added|val']; cbn [capply fst snd].
    - apply coupled_evaluate; assumption.
    - apply coupled_refine; assumption.
    - apply (coupled_rescheme val val' s); assumption.
  Qed.

  (* at a stop (nothing marked new) the reported value is the recomputation: the sum over the current areas of their values under
     the current scheme *)
  Theorem coupled_total val s : Coupled val s -> st_new s = [] ->
    st_total s = vsum (map (fun p => val (fst p)) (st_areas s)) /\ st_cont s = st_total s.
  Proof.
    intros [[[Hn [T C]] _] [_ Hv]] E. split; [|exact C]. rewrite T. rewrite E in Hv. clear - Hv.
    induction (st_areas s) as [|[i v] r IH]; [reflexivity|]. cbn [map Accum.vsum fst snd].
    rewrite (Hv i v (or_introl eq_refl) (fun X => X)). f_equal. apply IH. intros id u Hin Hn. apply Hv; [right; exact Hin|exact Hn].
  Qed.
End CoupledProofs.

(* ---------------------------------------------------------------- the extend-split instance *)
Open Scope Qc_scope.

Lemma sumQ_perm_local a b : Permutation a b -> sumQ a = sumQ b.
Proof. induction 1; cbn; [reflexivity|rewrite IHPermutation; reflexivity|ring|congruence]. Qed.

(* coarsening version 0: when an extend raises lmax by one and the coarsening value of an (other) area by one (update_area), the
   area's local combination - hence the value the recomputation assigns to it under the NEW scheme - is the one it was evaluated
   with: the stored area result stays current.  (False for versions 1-3: the stale results seen on the unchanged tree.) *)
Theorem es_v0_area_value_invariant (F : box -> lv -> Qc) n lmin lmax base (x : area) :
  (0 <= a_coarse x <= lmax - lmin)%Z ->
  es_area_value F (mkCP (S (S n)) 0 lmin (lmax + 1) base) (update_area x) = es_area_value F (mkCP (S (S n)) 0 lmin lmax base) x.
Proof.
  intro H. unfold es_area_value, es_area_parts. cbn [update_area a_coarse abox a_start a_end].
  assert (P1 := local_combi_v0_perm n lmin (lmax + 1) (a_coarse x + 1) base ltac:(lia)).
  assert (P2 := local_combi_v0_perm n lmin lmax (a_coarse x) base H).
  replace (lmax + 1 - (a_coarse x + 1))%Z with (lmax - a_coarse x)%Z in P1 by lia.
  apply sumQ_perm_local. apply Permutation_map. apply (Permutation_trans P1). apply Permutation_sym. exact P2.
Qed.

(* the accumulator of a coupled run IS the recomputation over the extend-split state: area_of names the live areas by the ids of
   the accumulator machine *)
Theorem es_accumulator_is_recomputation (F : box -> lv -> Qc) (st : state) (area_of : Z -> area) (s : astate Qc) :
  Coupled Qc 0 Qcplus (fun id => es_area_value F (st_cp st) (area_of id)) s -> st_new s = [] ->
  es_live st = map area_of (map fst (st_areas s)) ->
  st_total s = es_recompute F st /\ st_cont s = es_recompute F st.
Proof.
  intros Hc En El.
  destruct (coupled_total Qc 0 Qcplus _ s Hc En) as [T C]. rewrite C, T. unfold es_recompute. rewrite El, vsum_sumQ, !map_map. auto.
Qed.

(* ---------------------------------------------------------------- d = 1 (coarsening version 0) *)
Open Scope Z_scope.
(* in one dimension the standard scheme is the single grid [lmax] with coefficient 1 ... *)
Lemma std_scheme_dim1 lmin lmax : lmin <= lmax -> combi_scheme_standard 1 lmin lmax = [([lmax], 1)].
Proof.
  intro H. unfold combi_scheme_standard.
  replace (Z.min (Z.of_nat 1) (lmax - lmin + 1)) with 1 by lia.
  cbn [Z.to_nat Pos.to_nat Pos.iter_op seq flat_map Nat.even Nat.sub binom fact getGrids map app].
  change (seq 0 (Pos.to_nat 1)) with [0%nat]. cbn [flat_map app Nat.even]. change (binom 0 0) with 1. change (Z.of_nat 0) with 0.
  replace (lmax - lmin + 1 - 0 + (lmin - 1)) with lmax by lia. reflexivity.
Qed.

(* ... and the local combination of an area with coarsening value c is the single grid [lmax - c] (relative to lmin): the model's test
   top_gap < c is false for one level (no second largest level; the repaired code skips the test in one dimension) *)
Lemma local_combi_v0_dim1 lmin lmax base c : 0 <= lmin -> 0 <= c <= lmax - lmin ->
  local_combi (mkCP 1 0 lmin lmax base) c = [([lmax - c - lmin], 1)].
Proof.
  intros H0 Hc. unfold local_combi, the_scheme. cbn [cp_dim cp_lmin cp_lmax].
  rewrite (std_scheme_dim1 lmin lmax) by lia.
  cbn [coarsen_all]. unfold coarsen_grid. cbn [cp_version cp_lmin]. change (0 =? 0) with true. cbv iota.
  unfold top_gap. cbn [maxl fold_right hd remove_first]. rewrite Z.max_id, Z.eqb_refl. cbn [maxl fold_right hd].
  destruct (lmax - 0 <? c) eqn:E; [apply Z.ltb_lt in E; lia|].
  cbn [dec_first]. rewrite Z.eqb_refl. cbn [dict_get]. cbn [fst snd computed_grids filter map sub_lmin]. reflexivity.
Qed.

Theorem es_v0_area_value_invariant_dim1 (F : box -> lv -> Qc) lmin lmax base (x : area) :
  0 <= lmin -> 0 <= a_coarse x <= lmax - lmin ->
  es_area_value F (mkCP 1 0 lmin (lmax + 1) base) (update_area x) = es_area_value F (mkCP 1 0 lmin lmax base) x.
Proof.
  intros H0 H. unfold es_area_value, es_area_parts. cbn [update_area a_coarse abox a_start a_end].
  rewrite (local_combi_v0_dim1 lmin (lmax + 1) base (a_coarse x + 1)) by lia.
  rewrite (local_combi_v0_dim1 lmin lmax base (a_coarse x)) by lia.
  replace (lmax + 1 - (a_coarse x + 1) - lmin) with (lmax - a_coarse x - lmin) by lia. reflexivity.
Qed.

(* ---------------------------------------------------------------- the C07 step function keeps the values of the areas it does not refine *)
(* version 0, d >= 2: the value of an area depends on the scheme only through lmax - coarsening *)
Lemma es_v0_value_level (F : box -> lv -> Qc) n lmin base lmax lmax' (x y : area) :
  abox y = abox x -> lmax' - a_coarse y = lmax - a_coarse x ->
  0 <= a_coarse x <= lmax - lmin -> 0 <= a_coarse y <= lmax' - lmin ->
  es_area_value F (mkCP (S (S n)) 0 lmin lmax' base) y = es_area_value F (mkCP (S (S n)) 0 lmin lmax base) x.
Proof.
  intros Eb El Hx Hy. unfold es_area_value, es_area_parts. rewrite Eb.
  assert (P1 := local_combi_v0_perm n lmin lmax' (a_coarse y) base Hy).
  assert (P2 := local_combi_v0_perm n lmin lmax (a_coarse x) base Hx).
  rewrite El in P1.
  apply sumQ_perm_local. apply Permutation_map. apply (Permutation_trans P1). apply Permutation_sym. exact P2.
Qed.

(* every area keeps its position, its box and its level lmax - coarsening (and stays within the bounds) *)
Definition in_bounds (st : state) (y : area) : Prop := 0 <= a_coarse y <= st_lmax st - st_lmin st.
Definition KeepsLevels (st st' : state) : Prop :=
  st_dim st' = st_dim st /\ st_version st' = st_version st /\ st_lmin st' = st_lmin st /\ st_base st' = st_base st /\
  forall j y, nth_error (st_objs st) j = Some y -> in_bounds st y ->
    exists y', nth_error (st_objs st') j = Some y' /\ abox y' = abox y /\
               st_lmax st' - a_coarse y' = st_lmax st - a_coarse y /\ in_bounds st' y'.

Lemma keeps_refl st : KeepsLevels st st.
Proof. repeat split; try reflexivity. intros j y H B. exists y. auto. Qed.

Lemma keeps_trans a b c : KeepsLevels a b -> KeepsLevels b c -> KeepsLevels a c.
Proof.
  intros [D1 [V1 [L1 [B1 H1]]]] [D2 [V2 [L2 [B2 H2]]]]. repeat split; try congruence.
  intros j y Hy By. destruct (H1 j y Hy By) as [y1 [N1 [E1 [Lv1 Bd1]]]]. destruct (H2 j y1 N1 Bd1) as [y2 [N2 [E2 [Lv2 Bd2]]]].
  exists y2. repeat split; try congruence; try lia; apply Bd2.
Qed.

Lemma nth_kill i : forall l j (y : area), nth_error l j = Some y ->
  exists y', nth_error (kill_nth i l) j = Some y' /\ abox y' = abox y /\ a_coarse y' = a_coarse y.
Proof.
  induction i as [|i IH]; intros [|x l] [|j] y H; cbn in *; try discriminate.
  - injection H as <-. exists (kill x). auto.
  - exists y. auto.
  - injection H as <-. exists x. auto.
  - apply IH. exact H.
Qed.

(* do_refinement (one refined object, incl. the scheme extension with update_area on ALL objects when an extend raises lmax) *)
Theorem do_refinement_keeps_levels st i decs : KeepsLevels st (fst (do_refinement st i decs)).
Proof.
  unfold do_refinement. destruct (nth_error (st_objs st) i) as [x|]; [|apply keeps_refl].
  destruct (refine_area st x (lookup (abox x) decs (false, []))) as [[news ch] inc]. cbn [fst].
  repeat split; try reflexivity. cbn [st_objs st_lmax st_lmin]. intros j y Hy By.
  set (objs1 := if inc then map update_area (st_objs st) else st_objs st).
  assert (H1 : exists y1, nth_error objs1 j = Some y1 /\ abox y1 = abox y /\
                          (if inc then st_lmax st + 1 else st_lmax st) - a_coarse y1 = st_lmax st - a_coarse y /\
                          0 <= a_coarse y1 <= (if inc then st_lmax st + 1 else st_lmax st) - st_lmin st).
  { unfold objs1. destruct inc.
    - exists (update_area y). rewrite nth_error_map, Hy. unfold in_bounds in By. cbn. repeat split; lia.
    - exists y. unfold in_bounds in By. repeat split; auto; lia. }
  destruct H1 as [y1 [N1 [E1 [L1 B1]]]].
  destruct (nth_kill i objs1 j y1 N1) as [y2 [N2 [E2 C2]]].
  exists y2. split; [|split; [congruence|split; [rewrite C2; exact L1|unfold in_bounds; cbn [st_lmax st_lmin]; rewrite C2; exact B1]]].
  rewrite nth_error_app1; [exact N2|]. apply nth_error_Some. rewrite N2. discriminate.
Qed.

(* the whole selection loop of refine() (before apply_remove) *)
Theorem refine_loop_keeps_levels decs tol : forall idx st,
  KeepsLevels st (fst (fold_left (fun (acc : state * list (box * (bool * list nat))) i =>
                 let '(s, lg) := acc in
                 match nth_error (st_objs s) i with
                 | Some x => if Qc_leb tol (a_benefit x) then let '(s', l') := do_refinement s i decs in (s', lg ++ l') else (s, lg)
                 | None => (s, lg)
                 end) idx (st, []))).
Proof.
  assert (G : forall idx st lg, KeepsLevels st (fst (fold_left (fun (acc : state * list (box * (bool * list nat))) i =>
                 let '(s, lg) := acc in
                 match nth_error (st_objs s) i with
                 | Some x => if Qc_leb tol (a_benefit x) then let '(s', l') := do_refinement s i decs in (s', lg ++ l') else (s, lg)
                 | None => (s, lg)
                 end) idx (st, lg)))).
  { induction idx as [|i idx IH]; intros st lg; [apply keeps_refl|]. cbn [fold_left].
    destruct (nth_error (st_objs st) i) as [x|]; [|apply IH].
    destruct (Qc_leb tol (a_benefit x)); [|apply IH].
    pose proof (do_refinement_keeps_levels st i decs) as K. destruct (do_refinement st i decs) as [s' l']. cbn [fst] in K.
    apply (keeps_trans st s' _ K). apply IH. }
  intros idx st. apply G.
Qed.

(* hence (version 0, d >= 2) every object keeps its VALUE through the refinement loop, whatever is refined or extended around it *)
Theorem refine_loop_keeps_values (F : box -> lv -> Qc) n st st' :
  KeepsLevels st st' -> st_dim st = S (S n) -> st_version st = 0 ->
  forall j y, nth_error (st_objs st) j = Some y -> in_bounds st y ->
  exists y', nth_error (st_objs st') j = Some y' /\ es_area_value F (st_cp st') y' = es_area_value F (st_cp st) y.
Proof.
  intros [D [V [L [B H]]]] Hd Hv j y Hy By. destruct (H j y Hy By) as [y' [N [E [Lv Bd]]]]. exists y'. split; [exact N|].
  unfold st_cp. rewrite D, V, L, B, Hd, Hv. apply es_v0_value_level; try assumption.
  unfold in_bounds in Bd. rewrite L in Bd. exact Bd.
Qed.

(* ---------------------------------------------------------------- apply_remove and evaluate do not change the recomputation *)
Lemma filter_idem {A} (p : A -> bool) l : filter p (filter p l) = filter p l.
Proof. induction l as [|x l IH]; cbn; [reflexivity|]. destruct (p x) eqn:E; cbn; [rewrite E, IH|]; auto. Qed.

(* the end of refine_round (apply_remove: the dead objects leave the container, startNewObjects is re-indexed) keeps the recomputation
   of the state after the selection loop: es_recompute sums over the live objects only *)
Theorem es_recompute_apply_remove (F : box -> lv -> Qc) (st1 : state) (k : nat) :
  es_recompute F (mkState (st_dim st1) (st_version st1) (st_lmin st1) (st_lmax st1) (st_auto st1) (st_single st1) (st_a st1) (st_b st1)
                          (filter (fun x => negb (a_dead x)) (st_objs st1)) k (st_tree st1) (st_bmax st1) (st_base st1))
  = es_recompute F st1.
Proof. unfold es_recompute, es_live, st_cp. cbn [st_objs st_dim st_version st_lmin st_lmax st_base]. rewrite filter_idem. reflexivity. Qed.

(* ExtendSplit.evaluate (compute_solutions on the new objects: register = levelvec_dict, with_benefit) changes neither scheme, box,
   coarsening value nor liveness of any object: the recomputation of the state is the same *)
Lemma value_indep (F : box -> lv -> Qc) cp x y : abox y = abox x -> a_coarse y = a_coarse x -> es_area_value F cp y = es_area_value F cp x.
Proof. intros E1 E2. unfold es_area_value, es_area_parts. rewrite E1, E2. reflexivity. Qed.

Lemma evaluate_new_objs_values (F : box -> lv -> Qc) cp bens l :
  map (es_area_value F cp) (filter (fun x => negb (a_dead x)) (map (fun x => with_benefit (register cp x) (benefit_of (lookup (abox x) bens 0))) l))
  = map (es_area_value F cp) (filter (fun x => negb (a_dead x)) l).
Proof.
  induction l as [|x l IH]; [reflexivity|]. cbn [map filter].
  change (a_dead (with_benefit (register cp x) (benefit_of (lookup (abox x) bens 0)))) with (a_dead x).
  destruct (a_dead x); cbn [negb map]; [exact IH|]. rewrite IH. reflexivity.
Qed.

Theorem es_recompute_evaluate (F : box -> lv -> Qc) (st : state) bens : es_recompute F (fst (evaluate st bens)) = es_recompute F st.
Proof.
  unfold evaluate, es_recompute, es_live, st_cp. cbn [fst st_objs st_dim st_version st_lmin st_lmax st_base].
  rewrite filter_app, map_app, evaluate_new_objs_values, <- map_app, <- filter_app, firstn_skipn. reflexivity.
Qed.

(* hence the recomputation after a whole driver step (refine(); evaluate) is the recomputation of the state after the selection loop *)
Theorem es_recompute_step (F : box -> lv -> Qc) (st : state) inp :
  exists st1, KeepsLevels st st1 /\ es_recompute F (step st inp) = es_recompute F st1.
Proof.
  unfold step, refine_round.
  set (loop := fold_left _ (seq 0 (length (st_objs st))) (st, [])).
  exists (fst loop). split; [apply refine_loop_keeps_levels|].
  destruct loop as [st1 lg] eqn:E. cbn [fst]. rewrite es_recompute_evaluate. apply es_recompute_apply_remove.
Qed.
