(* C05 on the extend-split model: the accumulator equals the recomputation over the current areas and their local combinations
   under the CURRENT scheme, along every history of evaluate / refine / scheme-extension steps; for coarsening version 0 the
   stored area results stay current when the scheme is extended (local combination = standard scheme of level lmax - c). *)
From Coq Require Import ZArith List Bool QArith Qcanon Lia Permutation.
From SG Require Import Base.QcUtil Model.CombiScheme Model.ExtendSplit Model.Accum Model.AccumES Proofs.AccumProofs Proofs.ESV0.
Import ListNotations.
Open Scope Z_scope.

Section CoupledProofs.
  Variable V : Type.
  Variable vzero : V.
  Variable vadd : V -> V -> V.
  Variable vopp : V -> V.
  Hypothesis vadd_assoc : forall a b c, vadd a (vadd b c) = vadd (vadd a b) c.
  Hypothesis vadd_comm : forall a b, vadd a b = vadd b a.
  Hypothesis vadd_0_l : forall a, vadd vzero a = a.
  Hypothesis vadd_opp_r : forall a, vadd a (vopp a) = vzero.

  Notation vsum := (vsum V vzero vadd).
  Notation astate := (astate V).
  Notation Inv2 := (Inv2 V vzero vadd).
  Notation evaluate_new := (evaluate_new V vzero vadd vopp).
  Notation refine_step := (refine_step V vzero vadd vopp).

  (* every evaluated area stores the value the recomputation assigns to it *)
  Definition Coupled (val : Z -> V) (s : astate) : Prop :=
    Inv2 s /\ NoDup (st_new s) /\ forall id v, In (id, v) (st_areas s) -> ~ In id (st_new s) -> v = val id.

  Definition cstep_ok (val : Z -> V) (s : astate) (st : cstep V) : Prop :=
    match st with
    | CEvaluate parts => forall id, In id (st_new s) -> vsum (parts id) = val id
    | CRefine removed added => st_new s = [] /\ refine_ok V s removed added
    | CRescheme val' => forall id, In id (ids V s) -> val' id = val id
    end.

  Definition capply (vs : (Z -> V) * astate) (st : cstep V) : (Z -> V) * astate :=
    match st with
    | CEvaluate parts => (fst vs, evaluate_new true parts (snd vs))
    | CRefine removed added => (fst vs, refine_step removed added (snd vs))
    | CRescheme val' => (val', snd vs)
    end.

  Fixpoint crun_ok (vs : (Z -> V) * astate) (steps : list (cstep V)) : Prop :=
    match steps with
    | [] => True
    | st :: r => cstep_ok (fst vs) (snd vs) st /\ crun_ok (capply vs st) r
    end.

  Lemma in_area_del p id l : In p (area_del V id l) -> In p l.
  Proof.
    induction l as [|[i u] r IH]; cbn; [intros []|]. destruct (i =? id); cbn; [intro H; right; exact H|].
    intros [H|H]; [left; exact H|right; apply IH; exact H].
  Qed.

  Lemma in_remove l : forall s p, In p (st_areas (fold_left (remove_one V vzero vadd vopp) l s)) -> In p (st_areas s).
  Proof.
    induction l as [|id l IH]; intros s p H; [exact H|]. cbn [fold_left] in H. apply IH in H.
    unfold remove_one in H. cbn [st_areas] in H. apply (in_area_del p id _ H).
  Qed.

  Lemma coupled_evaluate val parts s :
    Coupled val s -> cstep_ok val s (CEvaluate parts) -> Coupled val (evaluate_new true parts s).
  Proof.
    intros [H2 [Nd Hv]] Ok. cbn [cstep_ok] in Ok.
    pose proof (inv2_evaluate_clear V vzero vadd vopp vadd_assoc vadd_comm vadd_0_l vadd_opp_r parts s H2) as H2'.
    split; [exact H2'|]. split; [unfold Accum.evaluate_new; cbn [st_new]; constructor|].
    intros id v Hin _.
    destruct H2 as [[Hn [T C]] Hz].
    assert (Hsub : forall i, In i (st_new s) -> In i (ids V s)).
    { intros i Hi. apply (area_get_In V). rewrite (Hz i Hi). discriminate. }
    assert (G : area_get V id (st_areas (evaluate_new true parts s)) = Some v).
    { apply (nodup_get V); [exact (proj1 (proj1 H2'))|exact Hin]. }
    unfold Accum.evaluate_new in G. cbn [st_areas] in G.
    assert (Ipre : ids V (apply_events V vzero vadd vopp (map APre (st_new s)) s) = ids V s) by (apply pre_ids; exact Hsub).
    rewrite (evals_all_get V vzero vadd vopp vadd_assoc vadd_comm vadd_0_l parts (st_new s) Nd) in G.
    - rewrite (pre_get V vzero vadd vopp (st_new s) s id Hsub) in G.
      destruct (memZ id (st_new s)) eqn:M.
      + apply (memZ_In) in M. rewrite (Hz id M) in G. injection G as <-. rewrite vadd_0_l. apply Ok. exact M.
      + apply Hv.
        * clear - G. induction (st_areas s) as [|[i u] r IHr]; cbn in G; [discriminate|].
          destruct (i =? id) eqn:E; [apply Z.eqb_eq in E; subst; injection G as ->; left; reflexivity|right; apply IHr; exact G].
        * intro X. apply memZ_In in X. congruence.
    - intros i Hi. apply (area_get_In V). fold (ids V (apply_events V vzero vadd vopp (map APre (st_new s)) s)). rewrite Ipre. apply Hsub. exact Hi.
  Qed.

  Lemma coupled_refine val removed added s :
    Coupled val s -> cstep_ok val s (CRefine removed added) -> Coupled val (refine_step removed added s).
  Proof.
    intros [H2 [Nd Hv]] [Wn Ok].
    pose proof (inv2_refine V vzero vadd vopp vadd_assoc vadd_comm vadd_0_l vadd_opp_r s removed added (proj1 H2) Ok) as H2'.
    split; [exact H2'|].
    assert (En : st_new (refine_step removed added s) = added).
    { unfold Accum.refine_step. cbn [Accum.apply_event].
      destruct (inv_remove V vzero vadd vopp vadd_assoc vadd_comm vadd_0_l vadd_opp_r removed
                  (mkA (st_areas s ++ map (fun id => (id, vzero)) added) added (st_total s) (st_cont s))) as [_ [B _]].
      - pose proof (proj1 H2') as X. clear X.
        (* Inv of the intermediate state: reuse inv2_refine's first half by direct construction *)
        destruct H2 as [[Hn [T C]] _]. destruct Ok as [Hnd [Hfresh _]].
        unfold Inv, ids. cbn [st_areas st_total st_cont]. rewrite !map_app, !map_map. cbn [fst snd]. rewrite map_id.
        split; [|split; [|exact C]].
        + clear - Hn Hnd Hfresh. unfold ids in *. induction (map fst (st_areas s)) as [|x l IH]; cbn; [exact Hnd|].
          inversion Hn. subst. constructor.
          * intro X. apply in_app_or in X. destruct X as [X|X]; [contradiction|]. apply (Hfresh x X). left. reflexivity.
          * apply IH; [assumption|]. intros id Hin X. apply (Hfresh id Hin). right. exact X.
        + rewrite (vsum_app V vzero vadd vadd_assoc vadd_0_l), (vsum_zeros V vzero vadd vadd_0_l), (vadd_0_r V vzero vadd vadd_comm vadd_0_l). exact T.
      - exact B. }
    split; [rewrite En; exact (proj1 Ok)|].
    intros id v Hin Hnot. rewrite En in Hnot.
    unfold Accum.refine_step in Hin. cbn [Accum.apply_event] in Hin. apply in_remove in Hin. cbn [st_areas] in Hin.
    apply in_app_or in Hin. destruct Hin as [Hin|Hin].
    - apply Hv; [exact Hin|]. rewrite Wn. intros [].
    - apply in_map_iff in Hin. destruct Hin as [i [E Hi]]. injection E as -> _. contradiction.
  Qed.

  Lemma coupled_rescheme val val' s : Coupled val s -> cstep_ok val s (CRescheme val') -> Coupled val' s.
  Proof.
    intros [H2 [Nd Hv]] Ok. split; [exact H2|]. split; [exact Nd|]. intros id v Hin Hn.
    rewrite (Ok id); [apply Hv; assumption|]. unfold ids. apply in_map_iff. exists (id, v). auto.
  Qed.

  (* every history of evaluate / refine / scheme-extension steps keeps the coupling *)
  Theorem coupled_run steps : forall vs, Coupled (fst vs) (snd vs) -> crun_ok vs steps ->
    Coupled (fst (fold_left capply steps vs)) (snd (fold_left capply steps vs)).
  Proof.
    induction steps as [|st r IH]; intros [val s] H W; [exact H|]. destruct W as [Wk Wr]. cbn [fold_left]. apply IH; [|exact Wr].
    cbn [fst snd] in *. destruct st as [parts|removed added|val']; cbn [capply fst snd].
    - apply coupled_evaluate; assumption.
    - apply coupled_refine; assumption.
    - apply (coupled_rescheme val val' s); assumption.
  Qed.

  (* at a stop (nothing marked new) the reported value is the recomputation: the sum over the current areas of their values under
     the current scheme *)
  Theorem coupled_total val s : Coupled val s -> st_new s = [] ->
    st_total s = vsum (map (fun p => val (fst p)) (st_areas s)) /\ st_cont s = st_total s.
  Proof.
    intros [[[Hn [T C]] _] [_ Hv]] E. split; [|exact C]. rewrite T. rewrite E in Hv. clear - Hv.
    induction (st_areas s) as [|[i v] r IH]; [reflexivity|]. cbn [map Accum.vsum fst snd].
    rewrite (Hv i v (or_introl eq_refl) (fun X => X)). f_equal. apply IH. intros id u Hin Hn. apply Hv; [right; exact Hin|exact Hn].
  Qed.
End CoupledProofs.

(* ---------------------------------------------------------------- the extend-split instance *)
Open Scope Qc_scope.

Lemma sumQ_perm_local a b : Permutation a b -> sumQ a = sumQ b.
Proof. induction 1; cbn; [reflexivity|rewrite IHPermutation; reflexivity|ring|congruence]. Qed.

(* coarsening version 0: when an extend raises lmax by one and the coarsening value of an (other) area by one (update_area), the
   area's local combination - hence the value the recomputation assigns to it under the NEW scheme - is the one it was evaluated
   with: the stored area result stays current.  (False for versions 1-3: the stale results seen on the unchanged tree.) *)
Theorem es_v0_area_value_invariant (F : box -> lv -> Qc) n lmin lmax base (x : area) :
  (0 <= a_coarse x <= lmax - lmin)%Z ->
  es_area_value F (mkCP (S (S n)) 0 lmin (lmax + 1) base) (update_area x) = es_area_value F (mkCP (S (S n)) 0 lmin lmax base) x.
Proof.
  intro H. unfold es_area_value, es_area_parts. cbn [update_area a_coarse abox a_start a_end].
  assert (P1 := local_combi_v0_perm n lmin (lmax + 1) (a_coarse x + 1) base ltac:(lia)).
  assert (P2 := local_combi_v0_perm n lmin lmax (a_coarse x) base H).
  replace (lmax + 1 - (a_coarse x + 1))%Z with (lmax - a_coarse x)%Z in P1 by lia.
  apply sumQ_perm_local. apply Permutation_map. apply (Permutation_trans P1). apply Permutation_sym. exact P2.
Qed.

(* the accumulator of a coupled run IS the recomputation over the extend-split state: area_of names the live areas by the ids of
   the accumulator machine *)
Theorem es_accumulator_is_recomputation (F : box -> lv -> Qc) (st : state) (area_of : Z -> area) (s : astate Qc) :
  Coupled Qc 0 Qcplus (fun id => es_area_value F (st_cp st) (area_of id)) s -> st_new s = [] ->
  es_live st = map area_of (map fst (st_areas s)) ->
  st_total s = es_recompute F st /\ st_cont s = es_recompute F st.
Proof.
  intros Hc En El.
  destruct (coupled_total Qc 0 Qcplus _ s Hc En) as [T C]. rewrite C, T. unfold es_recompute. rewrite El, vsum_sumQ, !map_map. auto.
Qed.
