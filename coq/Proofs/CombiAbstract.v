(* The combination theorems, proved once, abstractly.
   Section variables: a point type with decidable equality, per dimension (position) a family of 1D point lists
   P d l, nested above lmin; a scheme cs (level vector, coefficient) satisfying inclusion-exclusion w.r.t. an index
   set idx that is downward closed above lmin (exactly what Proofs/SchemeInv.v provides for every reachable state).
   Results:
     point_coeff_sum_one : every point of the union of the component grids has coefficients summing to 1
     union_contains_sparse_grid : every point whose level vector lies in the index set lies in a returned grid *)
From Coq Require Import ZArith List Bool Lia.
From SG Require Import Model.CombiScheme Proofs.SchemeBasics Proofs.SchemeIE.
Import ListNotations.
Open Scope Z_scope.

Section Combi.
  Variable X : Type.
  Variable eqbX : X -> X -> bool.
  Hypothesis eqbX_spec : forall a b, eqbX a b = true <-> a = b.

  Variable P : nat -> Z -> list X.        (* position in the vector, level -> 1D points *)
  Variable lmin : Z.
  Hypothesis nested : forall d l l', lmin <= l -> l <= l' -> incl (P d l) (P d l').

  Definition memX (x : X) (l : list X) : bool := existsb (eqbX x) l.

  Lemma memX_In x l : memX x l = true <-> In x l.
  Proof.
    unfold memX. rewrite existsb_exists. split.
    - intros [y [Hy E]]. apply eqbX_spec in E. subst. assumption.
    - intro H. exists x. split; [assumption|]. apply eqbX_spec. reflexivity.
  Qed.

  (* x lies in the tensor grid of level vector l (positions counted from d) *)
  Fixpoint in_grid (d : nat) (x : list X) (l : lv) : bool :=
    match x, l with
    | [], [] => true
    | xd :: x', ld :: l' => memX xd (P d ld) && in_grid (S d) x' l'
    | _, _ => false
    end.

  (* least level in [lo, lo + fuel] whose 1D grid contains xd (lo + fuel if none below) *)
  Fixpoint least_level (d : nat) (xd : X) (lo : Z) (fuel : nat) : Z :=
    match fuel with
    | O => lo
    | S f => if memX xd (P d lo) then lo else least_level d xd (lo + 1) f
    end.

  Lemma least_level_range d xd fuel : forall lo, lo <= least_level d xd lo fuel <= lo + Z.of_nat fuel.
  Proof.
    induction fuel as [|f IH]; intro lo; simpl; [lia|].
    destruct (memX xd (P d lo)); [lia|]. specialize (IH (lo + 1)). lia.
  Qed.

  Lemma least_level_in d xd fuel : forall lo,
    In xd (P d (lo + Z.of_nat fuel)) -> In xd (P d (least_level d xd lo fuel)).
  Proof.
    induction fuel as [|f IH]; intros lo H; simpl.
    - replace (lo + Z.of_nat 0) with lo in H by lia. assumption.
    - destruct (memX xd (P d lo)) eqn:E; [apply memX_In; assumption|].
      apply IH. replace (lo + 1 + Z.of_nat f) with (lo + Z.of_nat (S f)) by lia. assumption.
  Qed.

  Lemma least_level_minimal d xd fuel : forall lo l,
    lo <= l -> l < least_level d xd lo fuel -> ~ In xd (P d l).
  Proof.
    induction fuel as [|f IH]; intros lo l H1 H2; simpl in H2; [lia|].
    destruct (memX xd (P d lo)) eqn:E; [lia|].
    destruct (Z.eq_dec l lo) as [->|Hne].
    - intro H. apply memX_In in H. congruence.
    - apply (IH (lo + 1)); lia.
  Qed.

  (* level vector of a point known to lie in grid l0 *)
  Fixpoint level_of (d : nat) (x : list X) (l0 : lv) : lv :=
    match x, l0 with
    | xd :: x', ld :: l' => least_level d xd lmin (Z.to_nat (ld - lmin)) :: level_of (S d) x' l'
    | _, _ => []
    end.

  Lemma in_grid_iff_geb : forall x d l0 l,
    in_grid d x l0 = true -> Forall (fun v => lmin <= v) l0 -> Forall (fun v => lmin <= v) l -> length l = length l0 ->
    in_grid d x l = lv_geb l (level_of d x l0).
  Proof.
    induction x as [|xd x IH]; intros d l0 l H0 F0 Fl Len.
    - destruct l0; [|discriminate]. destruct l; [reflexivity|discriminate].
    - destruct l0 as [|ld0 l0]; [discriminate|]. destruct l as [|ld l]; [discriminate|].
      simpl in H0. apply andb_true_iff in H0. destruct H0 as [Hm H0].
      inversion F0 as [|? ? Hld0 F0']; subst. inversion Fl as [|? ? Hld Fl']; subst. injection Len as Len.
      simpl. rewrite (IH (S d) l0 l H0 F0' Fl' Len). f_equal.
      set (k := least_level d xd lmin (Z.to_nat (ld0 - lmin))).
      pose proof (least_level_range d xd (Z.to_nat (ld0 - lmin)) lmin) as R. fold k in R.
      apply memX_In in Hm.
      assert (In xd (P d k)) as Hk.
      { apply least_level_in. replace (lmin + Z.of_nat (Z.to_nat (ld0 - lmin))) with ld0 by lia. assumption. }
      destruct (k <=? ld) eqn:E.
      + apply Z.leb_le in E. apply memX_In. apply (nested d k ld); [lia|assumption|assumption].
      + apply Z.leb_gt in E. destruct (memX xd (P d ld)) eqn:E2; [|reflexivity].
        apply memX_In in E2. exfalso.
        apply (least_level_minimal d xd (Z.to_nat (ld0 - lmin)) lmin ld); [assumption|assumption|assumption].
  Qed.

  Lemma level_of_props : forall x d l0, in_grid d x l0 = true -> Forall (fun v => lmin <= v) l0 ->
    length (level_of d x l0) = length l0 /\ Forall2 (fun a b => lmin <= a <= b) (level_of d x l0) l0.
  Proof.
    induction x as [|xd x IH]; intros d l0 H F.
    - destruct l0; [|discriminate]. split; [reflexivity|constructor].
    - destruct l0 as [|ld0 l0]; [discriminate|]. simpl in H. apply andb_true_iff in H. destruct H as [_ H].
      inversion F as [|? ? Hld F']; subst. destruct (IH (S d) l0 H F') as [L F2]. simpl. split; [congruence|].
      constructor; [|assumption].
      pose proof (least_level_range d xd (Z.to_nat (ld0 - lmin)) lmin). lia.
  Qed.

  Lemma level_of_in_grid : forall x d l0, in_grid d x l0 = true -> Forall (fun v => lmin <= v) l0 ->
    in_grid d x (level_of d x l0) = true.
  Proof.
    induction x as [|xd x IH]; intros d l0 H F.
    - destruct l0; [reflexivity|discriminate].
    - destruct l0 as [|ld0 l0]; [discriminate|]. simpl in H. apply andb_true_iff in H. destruct H as [Hm H].
      inversion F as [|? ? Hld F']; subst. simpl. apply andb_true_iff. split; [|apply IH; assumption].
      apply memX_In. apply least_level_in. apply memX_In in Hm.
      replace (lmin + Z.of_nat (Z.to_nat (ld0 - lmin))) with ld0 by lia. assumption.
  Qed.

  (* the scheme *)
  Variable idx : list lv.
  Variable cs : list (lv * Z).
  Variable dim : nat.
  Hypothesis idx_wf : forall g, In g idx -> length g = dim /\ Forall (fun v => lmin <= v) g.
  Hypothesis IE : forall l, length l = dim -> Forall (fun v => lmin <= v) l ->
                  dominating_sum cs l = if mem l idx then 1 else 0.
  Hypothesis support : forall k c, In (k, c) cs -> In k idx.
  Hypothesis dclosed : forall k j, In k idx -> length j = length k -> Forall2 (fun a b => lmin <= a <= b) j k -> In j idx.

  Definition coeff_sum_at (x : list X) : Z :=
    sumZ (map (fun kv => if in_grid 0 x (fst kv) then snd kv else 0) cs).

  Lemma Forall2_lmin_left (j k : lv) : Forall2 (fun a b => lmin <= a <= b) j k -> Forall (fun v => lmin <= v) j.
  Proof. induction 1; constructor; [lia|assumption]. Qed.

  Theorem point_coeff_sum_one x l0 c0 :
    In (l0, c0) cs -> in_grid 0 x l0 = true -> coeff_sum_at x = 1.
  Proof.
    intros Hin Hx.
    pose proof (support l0 c0 Hin) as Hl0. destruct (idx_wf l0 Hl0) as [L0 F0].
    destruct (level_of_props x 0%nat l0 Hx F0) as [Lk F2].
    set (k := level_of 0 x l0) in *.
    assert (In k idx) as Hk by (apply (dclosed l0 k); assumption).
    pose proof (IE k) as HIE. rewrite Lk, L0 in HIE. specialize (HIE eq_refl (Forall2_lmin_left k l0 F2)).
    apply mem_In in Hk. rewrite Hk in HIE. rewrite <- HIE.
    unfold coeff_sum_at, dominating_sum. f_equal. apply map_ext_in. intros [l c] Hl. simpl.
    pose proof (support l c Hl) as Hli. destruct (idx_wf l Hli) as [Ll Fl].
    rewrite (in_grid_iff_geb x 0%nat l0 l Hx F0 Fl); [reflexivity|congruence].
  Qed.

  (* every point all of whose coordinates lie in the 1D grids of some index k of the index set lies in a returned grid *)
  Lemma in_grid_mono : forall x d k l, in_grid d x k = true -> Forall2 (fun a b => lmin <= a <= b) k l -> in_grid d x l = true.
  Proof.
    induction x as [|xd x IH]; intros d k l H F.
    - destruct k; [|discriminate]. inversion F; subst. reflexivity.
    - destruct k as [|kd k]; [discriminate|]. inversion F as [|? ld ? l' Hd F']; subst.
      simpl in H. apply andb_true_iff in H. destruct H as [Hm H]. simpl. apply andb_true_iff. split.
      + apply memX_In. apply memX_In in Hm. apply (nested d kd ld); [lia|lia|assumption].
      + apply (IH (S d) k l'); assumption.
  Qed.

  Lemma lv_geb_Forall2 : forall l k, lv_geb l k = true -> Forall (fun v => lmin <= v) k ->
    Forall2 (fun a b => lmin <= a <= b) k l.
  Proof.
    induction l as [|x l IH]; intros [|y k] H F; simpl in H; try discriminate; [constructor|].
    apply andb_true_iff in H. destruct H as [H1 H2]. apply Z.leb_le in H1. inversion F; subst.
    constructor; [lia|]. apply IH; assumption.
  Qed.

  Lemma sumZ_zero_all (l : list Z) : (forall v, In v l -> v = 0) -> sumZ l = 0.
  Proof.
    induction l as [|a l IH]; intro H; [reflexivity|].
    change (sumZ (a :: l)) with (a + sumZ l). rewrite IH by (intros v Hv; apply H; right; assumption).
    rewrite (H a (or_introl eq_refl)). reflexivity.
  Qed.

  Theorem union_contains_sparse_grid x k :
    In k idx -> in_grid 0 x k = true -> exists l c, In (l, c) cs /\ c <> 0 /\ in_grid 0 x l = true.
  Proof.
    intros Hk Hx. destruct (idx_wf k Hk) as [Lk Fk].
    pose proof (IE k Lk Fk) as HIE. apply mem_In in Hk. rewrite Hk in HIE.
    destruct (existsb (fun kv => lv_geb (fst kv) k && negb (snd kv =? 0)) cs) eqn:E.
    - apply existsb_exists in E. destruct E as [[l c] [Hin E]]. simpl in E. apply andb_true_iff in E.
      destruct E as [E1 E2]. apply negb_true_iff in E2. apply Z.eqb_neq in E2.
      exists l, c. split; [assumption|]. split; [assumption|].
      apply (in_grid_mono x 0%nat k l Hx). apply lv_geb_Forall2; assumption.
    - exfalso. assert (dominating_sum cs k = 0) as Hz.
      { unfold dominating_sum. apply sumZ_zero_all. intros v Hv. apply in_map_iff in Hv.
        destruct Hv as [[l c] [<- Hin]]. simpl.
        destruct (lv_geb l k) eqn:G; [|reflexivity].
        destruct (Z.eq_dec c 0) as [->|Hc]; [reflexivity|]. exfalso.
        assert (existsb (fun kv => lv_geb (fst kv) k && negb (snd kv =? 0)) cs = true) as Habs; [|congruence].
        apply existsb_exists. exists (l, c). split; [assumption|]. simpl. rewrite G. simpl.
        apply negb_true_iff. apply Z.eqb_neq. assumption. }
      lia.
  Qed.
End Combi.
