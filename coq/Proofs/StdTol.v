(* C02: the tolerant boundary test of the code (Model/StdCombiTol.v) against the exact one of the model.
   (1) interpN looks at the function only on the mesh: two functions that agree on the tensor mesh have the same interpolant;
   (2) a closeness test that, on the nodes of the full 1D grids, is true exactly at the two end points gives the exact mask, hence
       comp_interp_tol = comp_interp and combi_interp_tol = combi_interp, and every C02 theorem transfers;
   (3) sufficient: the tolerance at both bounds is >= 0 and smaller than the mesh width - for numpy's isclose this is
       (b_d - a_d) / 2^l_d > 1e-8 + 1e-5 * max(|a_d|, |b_d|); for the domain-relative test of the proposed repair it holds for EVERY
       box and every level l_d <= 26;
   (4) REFUTED for numpy's isclose without that condition: box [1000, 1001], level 7, boundary points off, f = 1: the combined
       interpolant at the sparse-grid point 1000 + 1/128 is 0 (finding C02-isclose-far-box). *)
From Coq Require Import ZArith List Bool QArith Qcanon Lia Sorted.
From SG Require Import Base.QcUtil Model.CombiScheme Model.StdCombi Model.StdCombiTol Proofs.SchemeBasics Proofs.SchemeIE
  Proofs.SchemeInv Proofs.CombiAbstract Proofs.StdGrid Proofs.StdCombiSum Proofs.NodalExact Proofs.StdNodal Proofs.SchemeClosedForm
  Proofs.StdHier Proofs.StdHierGeneral Proofs.StdGeneral.
Import ListNotations.
Local Open Scope Qc_scope.

(* ---------- (1) the interpolant depends on the mesh values only ---------- *)
Lemma interp1_ext_in xs : forall g g' x, (forall p, In p xs -> g p = g' p) -> interp1 xs g x = interp1 xs g' x.
Proof.
  induction xs as [|x0 r IH]; intros g g' x H; [reflexivity|].
  destruct r as [|x1 r'].
  - simpl. apply H. left. reflexivity.
  - change (interp1 (x0 :: x1 :: r') g x) with
      (if Qc_leb x x1 then g x0 + (x - x0) / (x1 - x0) * (g x1 - g x0) else interp1 (x1 :: r') g x).
    change (interp1 (x0 :: x1 :: r') g' x) with
      (if Qc_leb x x1 then g' x0 + (x - x0) / (x1 - x0) * (g' x1 - g' x0) else interp1 (x1 :: r') g' x).
    rewrite (H x0 (or_introl eq_refl)), (H x1 (or_intror (or_introl eq_refl))).
    rewrite (IH g g' x); [reflexivity|]. intros p Hp. apply H. right. exact Hp.
Qed.

Lemma interpN_ext_on_mesh : forall grids f f' x, length x = length grids ->
  (forall q, Forall2 (fun qi gi => In qi gi) q grids -> f q = f' q) -> interpN grids f x = interpN grids f' x.
Proof.
  induction grids as [|g gs IH]; intros f f' x L H.
  - destruct x; [|discriminate]. simpl. apply H. constructor.
  - destruct x as [|x0 xs]; [discriminate|]. injection L as L. simpl.
    apply interp1_ext_in. intros p Hp. apply IH; [exact L|]. intros q Hq. apply H. constructor; assumption.
Qed.

(* ---------- (2) a test that singles out exactly the end points on the grid nodes gives the exact mask ---------- *)
(* cl agrees with equality on the nodes of the full grid of level l over [lo, hi] *)
Definition cl_exact_on (cl : closeness) (lo hi : Qc) (l : Z) : Prop :=
  forall z, In z (grid1_full lo hi l) -> cl lo hi z lo = Qc_eqb z lo /\ cl lo hi z hi = Qc_eqb z hi.

Fixpoint cl_exact_all (cl : closeness) (a b : list Qc) (l : lv) : Prop :=
  match a, b, l with
  | x :: a', y :: b', z :: l' => cl_exact_on cl x y z /\ cl_exact_all cl a' b' l'
  | _, _, _ => True
  end.

Lemma on_boundary_tol_exact cl : forall a b l q, cl_exact_all cl a b l ->
  Forall2 (fun qi gi => In qi gi) q (map (fun t => let '(x0, y0, z) := t in grid1_full x0 y0 z) (zip3 a b l)) ->
  on_boundary_tol cl a b q = on_boundary a b q.
Proof.
  induction a as [|x a IH]; intros b l q H F; [reflexivity|].
  destruct b as [|y b]; [reflexivity|]. destruct l as [|z l].
  - simpl in F. inversion F; subst. reflexivity.
  - simpl in F. inversion F as [|q0 g0 q' gs' Hq0 F']; subst. destruct H as [H0 H'].
    cbn [on_boundary_tol on_boundary]. destruct (H0 q0 Hq0) as [-> ->]. rewrite (IH b l q' H' F'). reflexivity.
Qed.

Theorem comp_interp_tol_exact cl bd a b l f x : length x = length l -> length a = length l -> length b = length l ->
  cl_exact_all cl a b l -> comp_interp_tol cl bd a b l f x = comp_interp bd a b l f x.
Proof.
  intros Lx La Lb H. unfold comp_interp_tol, comp_interp. apply interpN_ext_on_mesh.
  - rewrite map_length. rewrite (zip3_length a b l); congruence.
  - intros q Hq. unfold masked_tol, masked. destruct bd; [reflexivity|].
    rewrite (on_boundary_tol_exact cl a b l q H Hq). reflexivity.
Qed.

Theorem combi_interp_tol_exact cl bd a b cs f x :
  (forall l c, In (l, c) cs -> length x = length l /\ length a = length l /\ length b = length l /\ cl_exact_all cl a b l) ->
  combi_interp_tol cl bd a b cs f x = combi_interp bd a b cs f x.
Proof.
  intro H. unfold combi_interp_tol, combi_interp. apply sumQ_map_ext. intros [l c] Hin. cbn [fst snd].
  destruct (H l c Hin) as [Lx [La [Lb Hc]]]. rewrite (comp_interp_tol_exact cl bd a b l f x Lx La Lb Hc). reflexivity.
Qed.

(* ---------- (3) sufficient: a distance test whose tolerance at both bounds is below the mesh width ---------- *)
Lemma gpoint_0 a b l : gpoint a b l 0 = a.
Proof. unfold gpoint. change (qc_of_Z 0) with (Q2Qc 0). ring. Qed.

Lemma gpoint_top a b l : (0 <= l)%Z -> gpoint a b l (2 ^ l) = b.
Proof. intro Hl. unfold gpoint. field. apply qc_of_Z_nonzero. pose proof (pow2_pos l Hl). lia. Qed.

Lemma gpoint_succ a b l i : gpoint a b l (i + 1) = gpoint a b l i + (b - a) / qc_of_Z (2 ^ l).
Proof. unfold gpoint. rewrite qc_of_Z_add. change (qc_of_Z 1) with (Q2Qc 1). ring. Qed.

(* distance of an inner node to the bounds is at least one mesh width *)
Lemma gpoint_far_from_bounds a b l i : a < b -> (0 <= l)%Z -> (0 <= i <= 2 ^ l)%Z ->
  let h := (b - a) / qc_of_Z (2 ^ l) in
  (i <> 0%Z -> a + h <= gpoint a b l i) /\ (i <> (2 ^ l)%Z -> gpoint a b l i + h <= b).
Proof.
  intros Hab Hl Hi h. split; intro N.
  - rewrite <- (gpoint_0 a b l) at 1. fold h. change (gpoint a b l 0 + h) with (gpoint a b l 0 + (b - a) / qc_of_Z (2 ^ l)).
    rewrite <- gpoint_succ. destruct (Z.eq_dec i 1) as [->|N1]; [apply Qcle_refl|].
    apply Qclt_le_weak. apply gpoint_lt; [exact Hab|exact Hl|lia].
  - rewrite <- (gpoint_top a b l Hl) at 2. unfold h. rewrite <- gpoint_succ.
    destruct (Z.eq_dec (i + 1) (2 ^ l)) as [->|N1]; [apply Qcle_refl|].
    apply Qclt_le_weak. apply gpoint_lt; [exact Hab|exact Hl|lia].
Qed.

(* a test |z - bound| <= tol bound with 0 <= tol lo, tol hi < mesh width is exact on the grid nodes *)
Lemma distance_test_exact (tol : Qc -> Qc) lo hi l : lo < hi -> (0 <= l)%Z ->
  0 <= tol lo -> 0 <= tol hi -> tol lo < (hi - lo) / qc_of_Z (2 ^ l) -> tol hi < (hi - lo) / qc_of_Z (2 ^ l) ->
  cl_exact_on (fun _ _ z bound => Qc_leb (Qc_abs (z - bound)) (tol bound)) lo hi l.
Proof.
  intros Hab Hl T0 T1 Ta Tb z Hz. apply grid1_full_In in Hz. destruct Hz as [i [Hi ->]].
  destruct (gpoint_far_from_bounds lo hi l i Hab Hl Hi) as [Fa Fb].
  set (h := (hi - lo) / qc_of_Z (2 ^ l)) in *. set (z := gpoint lo hi l i) in *.
  assert (lo <= z) as Hlo.
  { unfold z. rewrite <- (gpoint_0 lo hi l) at 1. destruct (Z.eq_dec i 0) as [->|N]; [apply Qcle_refl|].
    apply Qclt_le_weak. apply gpoint_lt; [exact Hab|exact Hl|lia]. }
  assert (z <= hi) as Hhi.
  { unfold z. rewrite <- (gpoint_top lo hi l Hl) at 2. destruct (Z.eq_dec i (2 ^ l)) as [->|N]; [apply Qcle_refl|].
    apply Qclt_le_weak. apply gpoint_lt; [exact Hab|exact Hl|lia]. }
  split.
  - destruct (Z.eq_dec i 0) as [E|N].
    + assert (z = lo) as -> by (unfold z; rewrite E; apply gpoint_0).
      replace (lo - lo) with (Q2Qc 0) by ring. assert (Qc_eqb lo lo = true) as -> by (apply Qc_eqb_eq; reflexivity).
      apply Qc_leb_le. exact T0.
    + specialize (Fa N). assert (Qc_eqb z lo = false) as ->.
      { destruct (Qc_eqb z lo) eqn:E; [|reflexivity]. apply Qc_eqb_eq in E. exfalso. clear - Fa E Ta T0. rewrite E in Fa. qc_order. }
      destruct (Qc_leb (Qc_abs (z - lo)) (tol lo)) eqn:E; [|reflexivity]. apply Qc_leb_le in E. exfalso.
      unfold Qc_abs in E. destruct (Qc_leb 0 (z - lo)) eqn:E2.
      * clear - E Fa Ta. qc_order.
      * assert (~ (0 <= z - lo)) as N2 by (intro H; apply Qc_leb_le in H; congruence). apply N2. clear - Hlo. qc_order.
  - destruct (Z.eq_dec i (2 ^ l)) as [E|N].
    + assert (z = hi) as -> by (unfold z; rewrite E; apply gpoint_top; exact Hl).
      replace (hi - hi) with (Q2Qc 0) by ring. assert (Qc_eqb hi hi = true) as -> by (apply Qc_eqb_eq; reflexivity).
      apply Qc_leb_le. exact T1.
    + specialize (Fb N). assert (Qc_eqb z hi = false) as ->.
      { destruct (Qc_eqb z hi) eqn:E; [|reflexivity]. apply Qc_eqb_eq in E. exfalso. clear - Fb E Tb T1. rewrite E in Fb. qc_order. }
      destruct (Qc_leb (Qc_abs (z - hi)) (tol hi)) eqn:E; [|reflexivity]. apply Qc_leb_le in E. exfalso.
      unfold Qc_abs in E. destruct (Qc_leb 0 (z - hi)) eqn:E2.
      * apply Qc_leb_le in E2. clear - E E2 Fb Tb T1 Hhi. qc_order.
      * clear - E Fb Tb. qc_order.
Qed.

Lemma cl_exact_on_ext (cl cl' : closeness) lo hi l : (forall z bound, cl lo hi z bound = cl' lo hi z bound) ->
  cl_exact_on cl lo hi l -> cl_exact_on cl' lo hi l.
Proof. intros E H z Hz. rewrite <- !E. exact (H z Hz). Qed.

Lemma Qc_abs_nonneg x : 0 <= Qc_abs x.
Proof.
  unfold Qc_abs. destruct (Qc_leb 0 x) eqn:E; [apply Qc_leb_le; exact E|].
  assert (~ (0 <= x)) as N by (intro H; apply Qc_leb_le in H; congruence). apply Qcnot_le_lt in N. qc_order.
Qed.

(* numpy's isclose: safe as long as the mesh width exceeds atol + rtol * |bound| at both bounds *)
Definition np_safe (lo hi : Qc) (l : Z) : Prop :=
  np_atol + np_rtol * Qc_abs lo < (hi - lo) / qc_of_Z (2 ^ l) /\ np_atol + np_rtol * Qc_abs hi < (hi - lo) / qc_of_Z (2 ^ l).

Lemma np_tol_nonneg x : 0 <= np_atol + np_rtol * Qc_abs x.
Proof. pose proof (Qc_abs_nonneg x) as H. revert H. generalize (Qc_abs x). intros y Hy. unfold np_atol, np_rtol. qc_order. Qed.

Theorem cl_numpy_exact_on lo hi l : lo < hi -> (0 <= l)%Z -> np_safe lo hi l -> cl_exact_on cl_numpy lo hi l.
Proof.
  intros Hab Hl [S1 S2].
  exact (distance_test_exact (fun bound => np_atol + np_rtol * Qc_abs bound) lo hi l Hab Hl (np_tol_nonneg lo) (np_tol_nonneg hi) S1 S2).
Qed.

(* the domain-relative test of the proposed repair: safe for EVERY box and every level up to 26 (2^26 < 10^8) *)
Lemma qc_of_Z_le i j : (i <= j)%Z -> qc_of_Z i <= qc_of_Z j.
Proof.
  intro H. destruct (Z.eq_dec i j) as [->|N]; [apply Qcle_refl|]. apply Qclt_le_weak. apply qc_of_Z_lt. lia.
Qed.

Theorem cl_domain_exact_on lo hi l : lo < hi -> (0 <= l <= 26)%Z -> cl_exact_on cl_domain lo hi l.
Proof.
  intros Hab Hl.
  apply (cl_exact_on_ext (fun _ _ z bound => Qc_leb (Qc_abs (z - bound)) ((fun _ => np_atol * Qc_abs (hi - lo)) bound)) cl_domain);
    [intros; reflexivity|].
  assert (0 < hi - lo) as HD by (clear - Hab; qc_order).
  assert (Qc_abs (hi - lo) = hi - lo) as EA.
  { unfold Qc_abs. destruct (Qc_leb 0 (hi - lo)) eqn:E; [reflexivity|].
    exfalso. assert (0 <= hi - lo) as H by (apply Qclt_le_weak; exact HD). apply Qc_leb_le in H. congruence. }
  pose proof (step_pos lo hi l Hab (proj1 Hl)) as Hh.
  set (P := qc_of_Z (2 ^ l)) in *.
  assert (0 < P) as HP.
  { unfold P. change 0 with (qc_of_Z 0). apply qc_of_Z_lt. apply pow2_pos. lia. }
  assert (P <= qc_of_Z (2 ^ 26)) as HP26.
  { unfold P. apply qc_of_Z_le. apply Z.pow_le_mono_r; lia. }
  assert (np_atol * P < 1) as Hs.
  { apply Qcle_lt_trans with (np_atol * qc_of_Z (2 ^ 26)).
    - clear - HP26. revert HP26. generalize (qc_of_Z (2 ^ 26)). intros T HT. unfold np_atol. qc_order.
    - apply Qc_ltb_lt. vm_compute. reflexivity. }
  assert (np_atol * (hi - lo) < (hi - lo) / P) as Hlt.
  { assert (np_atol * (hi - lo) = (np_atol * P) * ((hi - lo) / P)) as ->.
    { field. intro E. rewrite E in HP. clear - HP. qc_order. }
    pose proof (Qcmult_lt_compat_r (np_atol * P) 1 ((hi - lo) / P) Hh Hs) as H. rewrite Qcmult_1_l in H. exact H. }
  assert (0 <= np_atol * (hi - lo)) as Hnn by (clear - HD; unfold np_atol; qc_order).
  apply distance_test_exact; try assumption; try lia; rewrite EA; assumption.
Qed.

(* ---------- the C02 statements for the tolerant interpolant ---------- *)
Local Open Scope Z_scope.

Lemma sumZ_lower_bound c : forall l v, Forall (fun x => c <= x) l -> In v l -> v + (Z.of_nat (length l) - 1) * c <= sumZ l.
Proof.
  induction l as [|y l IH]; intros v F Hin; [destruct Hin|].
  inversion F as [|? ? Hy F']; subst. change (sumZ (y :: l)) with (y + sumZ l).
  cbn [length]. rewrite Nat2Z.inj_succ.
  destruct Hin as [->|Hin].
  - pose proof (sumZ_ge_length c l F'). lia.
  - specialize (IH v F' Hin). lia.
Qed.

(* all levels of the closed-form scheme lie between lmin and lmax *)
Lemma std_scheme_levels n lmin lmax l c : 0 <= lmin <= lmax -> In (l, c) (combi_scheme_standard (S n) lmin lmax) ->
  length l = S n /\ Forall (fun v => lmin <= v <= lmax) l.
Proof.
  intros H Hin. destruct (std_state_general n lmin lmax H) as [s [HI [Hl [Ed [Em [Hs Hp]]]]]].
  pose proof (Permutation.Permutation_in _ Hp Hin) as Hin'. destruct (scheme_support s l c HI Hin') as [Hk _].
  apply (init_index_set_spec n lmin lmax s l H Hs) in Hk. destruct Hk as [L [F S']].
  split; [exact L|]. apply Forall_forall. intros v Hv. pose proof (sumZ_lower_bound lmin l v F Hv) as B.
  rewrite Forall_forall in F. specialize (F v Hv). rewrite L in B. nia.
Qed.

Fixpoint np_safe_all (a b : list Qc) (l : Z) : Prop :=
  match a, b with
  | x :: a', y :: b' => np_safe x y l /\ np_safe_all a' b' l
  | _, _ => True
  end.

Lemma Qc_mul_pos (u v : Qc) : (0 < u)%Qc -> (0 < v)%Qc -> (0 < u * v)%Qc.
Proof.
  unfold Qclt, Qcmult, Q2Qc; cbn [this]. rewrite !Qred_correct. intros Hu Hv. apply Qmult_lt_0_compat; assumption.
Qed.

(* the mesh width shrinks with the level: safe on the finest level => safe on every coarser one *)
Lemma np_safe_mono lo hi l l' : (lo < hi)%Qc -> 0 <= l <= l' -> np_safe lo hi l' -> np_safe lo hi l.
Proof.
  intros Hab Hl [S1 S2].
  assert ((hi - lo) / qc_of_Z (2 ^ l') <= (hi - lo) / qc_of_Z (2 ^ l))%Qc as Hm.
  { assert (0 < hi - lo)%Qc as HD by (clear - Hab; qc_order).
    assert (0 < qc_of_Z (2 ^ l))%Qc as P1 by (change 0%Qc with (qc_of_Z 0); apply qc_of_Z_lt; apply pow2_pos; lia).
    assert (qc_of_Z (2 ^ l) <= qc_of_Z (2 ^ l'))%Qc as P2 by (apply qc_of_Z_le; apply Z.pow_le_mono_r; lia).
    assert (0 < qc_of_Z (2 ^ l'))%Qc as P3 by (change 0%Qc with (qc_of_Z 0); apply qc_of_Z_lt; apply pow2_pos; lia).
    revert P1 P2 P3. generalize (qc_of_Z (2 ^ l)) (qc_of_Z (2 ^ l')). intros P Q P1 P2 P3.
    assert ((hi - lo) / P - (hi - lo) / Q = (hi - lo) * (Q - P) / (P * Q))%Qc as E.
    { field. split; intro E; [rewrite E in P3; clear - P3; qc_order | rewrite E in P1; clear - P1; qc_order]. }
    assert (0 <= (hi - lo) * (Q - P) / (P * Q))%Qc as Hnn.
    { destruct (Qc_eq_dec Q P) as [->|NQ].
      - replace ((hi - lo) * (P - P) / (P * P))%Qc with (Q2Qc 0); [apply Qcle_refl|].
        field. intro E0. rewrite E0 in P1. clear - P1. qc_order.
      - apply Qclt_le_weak. apply Qc_div_pos.
        + assert (0 < Q - P)%Qc as HQP by (clear - P2 NQ; qc_order).
          apply Qc_mul_pos; assumption.
        + apply Qc_mul_pos; assumption. }
    rewrite <- E in Hnn. clear - Hnn. qc_order. }
  split; eapply Qclt_le_trans; eassumption.
Qed.

Lemma np_safe_all_exact a b : forall l lmax, box_ok a b -> length l = length a -> Forall (fun v => 0 <= v <= lmax) l ->
  np_safe_all a b lmax -> cl_exact_all cl_numpy a b l.
Proof.
  intros l lmax Hbox. revert l. induction Hbox as [|x y a b Hxy Hbox IH]; intros l L F S; [destruct l; exact I|].
  destruct l as [|z l]; [exact I|]. inversion F as [|? ? Hz F']; subst. destruct S as [S0 S']. cbn [cl_exact_all]. split.
  - apply cl_numpy_exact_on; [exact Hxy|lia|]. apply (np_safe_mono x y z lmax Hxy); [lia|exact S0].
  - apply IH; [simpl in L; lia|exact F'|exact S'].
Qed.

Lemma cl_domain_all_exact a b : forall l, box_ok a b -> Forall (fun v => 0 <= v <= 26) l -> cl_exact_all cl_domain a b l.
Proof.
  intros l Hbox. revert l. induction Hbox as [|x y a b Hxy Hbox IH]; intros l F; [destruct l; exact I|].
  destruct l as [|z l]; [exact I|]. inversion F as [|? ? Hz F']; subst. cbn [cl_exact_all]. split.
  - apply cl_domain_exact_on; [exact Hxy|exact Hz].
  - apply IH. exact F'.
Qed.

(* NODAL EXACTNESS with the boundary test of the CURRENT code (np.isclose), closed-form scheme, every dimension: holds whenever the
   mesh width of level lmax exceeds 1e-8 + 1e-5 * |bound| in every dimension *)
Theorem np_tol_nodal_exact bd a b n lmin lmax (f : list Qc -> Qc) x l0 c0 :
  0 <= lmin <= lmax -> box_ok a b -> length a = S n -> length b = S n -> length x = S n ->
  np_safe_all a b lmax ->
  In (l0, c0) (combi_scheme_standard (S n) lmin lmax) -> in_comp bd a b x l0 = true ->
  combi_interp_tol cl_numpy bd a b (combi_scheme_standard (S n) lmin lmax) f x = f x.
Proof.
  intros H Hbox La Lb Lx Hs Hin Hx. rewrite combi_interp_tol_exact.
  - exact (std_nodal_exact_general bd a b n lmin lmax f x l0 c0 H Hbox La Lb Lx Hin Hx).
  - intros l c Hl. destruct (std_scheme_levels n lmin lmax l c H Hl) as [Ll Fl].
    split; [congruence|]. split; [congruence|]. split; [congruence|].
    apply (np_safe_all_exact a b l lmax Hbox); [congruence| |exact Hs].
    apply Forall_forall. intros v Hv. rewrite Forall_forall in Fl. specialize (Fl v Hv). lia.
Qed.

(* ... and with the domain-relative test of the proposed repair: EVERY box, every lmax <= 26 *)
Theorem domain_tol_nodal_exact bd a b n lmin lmax (f : list Qc -> Qc) x l0 c0 :
  0 <= lmin <= lmax -> lmax <= 26 -> box_ok a b -> length a = S n -> length b = S n -> length x = S n ->
  In (l0, c0) (combi_scheme_standard (S n) lmin lmax) -> in_comp bd a b x l0 = true ->
  combi_interp_tol cl_domain bd a b (combi_scheme_standard (S n) lmin lmax) f x = f x.
Proof.
  intros H H26 Hbox La Lb Lx Hin Hx. rewrite combi_interp_tol_exact.
  - exact (std_nodal_exact_general bd a b n lmin lmax f x l0 c0 H Hbox La Lb Lx Hin Hx).
  - intros l c Hl. destruct (std_scheme_levels n lmin lmax l c H Hl) as [Ll Fl].
    split; [congruence|]. split; [congruence|]. split; [congruence|].
    apply (cl_domain_all_exact a b l Hbox).
    apply Forall_forall. intros v Hv. rewrite Forall_forall in Fl. specialize (Fl v Hv). lia.
Qed.

(* REFUTED without the condition: the faithful model of the current code violates nodal exactness on [1000, 1001], level 7,
   boundary points off, f = 1, at the sparse-grid point 1000 + 1/128 (mesh width 1/128 < 1e-8 + 1e-5 * 1000) *)
Theorem np_tol_nodal_refuted :
  exists a b lmin lmax (f : list Qc -> Qc) x l0 c0,
    0 <= lmin <= lmax /\ box_ok a b /\ length a = 1%nat /\ length b = 1%nat /\ length x = 1%nat /\
    In (l0, c0) (combi_scheme_standard 1 lmin lmax) /\ in_comp false a b x l0 = true /\
    combi_interp_tol cl_numpy false a b (combi_scheme_standard 1 lmin lmax) f x <> f x.
Proof.
  exists [Q2Qc 1000], [Q2Qc 1001], 7, 7, (fun _ => Q2Qc 1), [Q2Qc (128001 # 128)], [7], 1.
  split; [lia|]. split; [repeat constructor|]. split; [reflexivity|]. split; [reflexivity|]. split; [reflexivity|].
  split; [vm_compute; left; reflexivity|]. split; [vm_compute; reflexivity|].
  intro E. apply (f_equal this) in E. vm_compute in E. discriminate.
Qed.
