(* SOURCE-DERIVED model of the container level normalisation (property C11):
   ExtrapolationGridSliceContainer.get_normalized_grid_levels and its private recursion __get_normalized_grid_levels, translated from
   sparseSpACE/Extrapolation.py into Gen/ExtrapolationGen.v at every run, are equal to the hand-written normalized_levels /
   norm_levels_rec of Model/Romberg.v (which Model/RombergContainers.v and the C11 theorems use).

   The slice objects of a container are outside the translated subset, so the RESULTS of the argument-less accessors self.get_grid(),
   self.get_grid_levels() and of the size assert self.__assert_size() are parameters of the generated function (option T, None = the
   accessor raises; the accessors are assumed pure).  The float-annotated parameters start / stop of the recursion are exact rationals;
   int((start + stop) / 2) is truncation. *)
From Coq Require Import ZArith List Bool Lia QArith Qcanon Arith Qround.
From SG Require Import Base.QcUtil Base.PyLib Base.PyNum Model.Romberg Proofs.RombergNormLevels Gen.ExtrapolationGen.
Import ListNotations.
Open Scope Z_scope.

Lemma Z2Qc_this z : this (py_Z2Qc z) = inject_Z z.
Proof. unfold py_Z2Qc. cbn [this Q2Qc]. unfold inject_Z. unfold Qred. cbn [Qnum Qden]. 
  pose proof (Z.ggcd_gcd z 1) as G. pose proof (Z.ggcd_correct_divisors z 1) as D.
  destruct (Z.ggcd z 1) as [g [aa bb]]. cbn [fst snd] in *. rewrite Z.gcd_1_r in G. subst g. destruct D as [D1 D2].
  rewrite Z.mul_1_l in D1, D2. subst aa bb. reflexivity. Qed.

Lemma Z2Qc_ltb a b : Qc_ltb (py_Z2Qc a) (py_Z2Qc b) = (a <? b).
Proof.
  unfold Qc_ltb. rewrite !Z2Qc_this. unfold Qle_bool, inject_Z. cbn [Qnum Qden]. rewrite !Z.mul_1_r.
  destruct (Z.ltb_spec a b), (Z.leb_spec b a); try reflexivity; lia.
Qed.

Lemma Z2Qc_eqb a b : Qc_eqb (py_Z2Qc a) (py_Z2Qc b) = (a =? b).
Proof. unfold Qc_eqb. rewrite !Z2Qc_this. unfold Qeq_bool, inject_Z. cbn [Qnum Qden]. rewrite !Z.mul_1_r. unfold Zeq_bool.
  destruct (Z.eqb_spec a b) as [->|N]; [rewrite Z.compare_refl; reflexivity|]. destruct (Z.compare_spec a b); try reflexivity; lia. Qed.

Lemma int_of_float_floor x : (0 <= Qnum (this x)) -> py_int_of_float x = Qfloor (this x).
Proof. intro H. unfold py_int_of_float. destruct (this x) as [n d]. cbn [Qnum Qden Qfloor] in *. apply Z.quot_div_nonneg; lia. Qed.

Lemma int_of_Z2Qc z : py_int_of_float (py_Z2Qc z) = z.
Proof. unfold py_int_of_float. rewrite Z2Qc_this. cbn. apply Z.quot_1_r. Qed.

Lemma int_of_half a b : 0 <= a + b -> py_int_of_float ((py_Z2Qc a + py_Z2Qc b) / py_Z2Qc 2)%Qc = (a + b) / 2.
Proof.
  intro H.
  assert (E : (this ((py_Z2Qc a + py_Z2Qc b) / py_Z2Qc 2)%Qc == (a + b) # 2)%Q).
  { unfold Qcdiv, Qcmult, Qcplus, Qcinv. cbn [this Q2Qc]. rewrite !Qred_correct. rewrite !Z2Qc_this.
    unfold Qeq, Qmult, Qplus, Qinv, inject_Z. cbn [Qnum Qden]. cbn. lia. }
  rewrite int_of_float_floor.
  - rewrite (Qfloor_comp _ _ E). reflexivity.
  - assert (P : (0 <= this ((py_Z2Qc a + py_Z2Qc b) / py_Z2Qc 2)%Qc)%Q).
    { rewrite E. unfold Qle. cbn. lia. }
    unfold Qle in P. change (Qnum 0) with 0 in P. change (Z.pos (Qden 0)) with 1 in P. rewrite Z.mul_0_l, Z.mul_1_r in P. exact P.
Qed.

Lemma Zof_ltb a b : (Z.of_nat a <? Z.of_nat b) = (a <? b)%nat.
Proof. destruct (Z.ltb_spec (Z.of_nat a) (Z.of_nat b)), (Nat.ltb_spec a b); try reflexivity; lia. Qed.
Lemma Zof_eqb a b : (Z.of_nat a =? Z.of_nat b) = (a =? b)%nat.
Proof. destruct (Z.eqb_spec (Z.of_nat a) (Z.of_nat b)), (Nat.eqb_spec a b); try reflexivity; lia. Qed.

Lemma div2_bounds n : (2 * Nat.div2 n <= n < 2 * Nat.div2 n + 2)%nat.
Proof. pose proof (Nat.div2_odd n) as H. destruct (Nat.odd n); cbn [Nat.b2n] in H; lia. Qed.

Lemma Zof_half a b : (Z.of_nat a + Z.of_nat b) / 2 = Z.of_nat (Nat.div2 (a + b)).
Proof. rewrite Nat.div2_div, Nat2Z.inj_div, Nat2Z.inj_add. reflexivity. Qed.

(* the private recursion: the generated function (rational start / stop, integer level, its own fuel) is the model's recursion, for
   every sufficient fuel on either side *)
Lemma gen_norm_rec : forall fuel fuel' start stop level,
  (1 <= start)%nat -> (stop + 1 - start < fuel)%nat -> (stop + 1 - start < fuel')%nat ->
  ExtrapolationGridSliceContainer___get_normalized_grid_levels_rec fuel (py_Z2Qc (Z.of_nat start)) (py_Z2Qc (Z.of_nat stop))
    (Z.of_nat level) = Some (map Z.of_nat (norm_levels_rec fuel' start stop level)).
Proof.
  induction fuel as [|fuel IH]; intros fuel' start stop level H1 Hf Hf'; [lia|]. destruct fuel' as [|fuel']; [lia|].
  cbn [ExtrapolationGridSliceContainer___get_normalized_grid_levels_rec norm_levels_rec]. cbv zeta.
  rewrite Z2Qc_ltb, Z2Qc_eqb, Zof_ltb, Zof_eqb.
  destruct (Nat.ltb_spec stop start) as [L|L]; [reflexivity|].
  destruct (Nat.eqb_spec start stop) as [E|E]; [reflexivity|].
  cbn [bindF].
  rewrite int_of_half by lia. rewrite Zof_half. pose proof (div2_bounds (start + stop)) as B. set (m := Nat.div2 (start + stop)) in *.
  replace (Z.of_nat m - 1) with (Z.of_nat (m - 1)) by lia. replace (Z.of_nat m + 1) with (Z.of_nat (S m)) by lia.
  replace (Z.of_nat level + 1) with (Z.of_nat (S level)) by lia.
  rewrite (IH fuel' start (m - 1)%nat (S level)) by lia. cbn [bindE].
  rewrite (IH fuel' (S m) stop (S level)) by lia. cbn [bindE run_flow].
  f_equal. rewrite !map_app. cbn [map app]. rewrite <- app_assoc. reflexivity.
Qed.

(* get_normalized_grid_levels: what the source says now, as a function of what its accessors return *)
Theorem gen_normalized_grid_levels_is_model (grid : list Qc) (levels : option (list Z)) (size_ok : option unit) :
  ExtrapolationGridSliceContainer_get_normalized_grid_levels (Some grid) levels size_ok =
  if (length grid =? 2)%nat then levels
  else if Nat.odd (length grid) && (3 <=? length grid)%nat then
    match size_ok with Some _ => Some (map Z.of_nat (normalized_levels (length grid))) | None => None end
  else None.
Proof.
  unfold ExtrapolationGridSliceContainer_get_normalized_grid_levels, py_len. cbn [bindE].
  change 2 with (Z.of_nat 2) at 1. rewrite Zof_eqb.
  destruct (Nat.eqb_spec (length grid) 2) as [E2|E2]; [destruct levels; reflexivity|]. cbn [bindF].
  set (n := length grid) in *.
  assert (Hodd : (Z.of_nat n mod 2 =? 1) = Nat.odd n).
  { pose proof (Nat.div2_odd n) as D. destruct (Nat.odd n); cbn [Nat.b2n] in D.
    - apply Z.eqb_eq. rewrite D at 1. rewrite Nat2Z.inj_add, Nat2Z.inj_mul. cbn [Z.of_nat]. rewrite Z.add_comm, Z.mul_comm, Z_mod_plus_full. reflexivity.
    - apply Z.eqb_neq. rewrite D at 1. rewrite Nat.add_0_r, Nat2Z.inj_mul. cbn [Z.of_nat]. rewrite Z.mul_comm, Z_mod_mult. discriminate. }
  rewrite Hodd. destruct (Nat.odd n); cbn [py_assert andb]; [|reflexivity].
  replace (Z.of_nat n >=? 3) with (3 <=? n)%nat
    by (destruct (Nat.leb_spec 3 n), (Z.geb_spec (Z.of_nat n) 3); try reflexivity; lia).
  destruct (Nat.leb_spec 3 n) as [H3|H3]; cbn [py_assert]; [|reflexivity].
  destruct size_ok as [u|]; cbn [bindE]; [|reflexivity].
  unfold ExtrapolationGridSliceContainer___get_normalized_grid_levels.
  rewrite int_of_Z2Qc. replace (Z.of_nat n - 2) with (Z.of_nat (n - 2)) by lia. rewrite Nat2Z.id.
  pose proof (gen_norm_rec (S (n - 2)) n 1 (n - 2) 1 ltac:(lia) ltac:(lia) ltac:(lia)) as G.
  change (Z.of_nat 1) with 1 in G. rewrite G. cbn [bindE run_flow].
  unfold normalized_levels. rewrite !map_app. reflexivity.
Qed.

(* the accessor raises -> the function raises *)
Theorem gen_normalized_grid_levels_raises levels size_ok :
  ExtrapolationGridSliceContainer_get_normalized_grid_levels None levels size_ok = None.
Proof. reflexivity. Qed.

(* the C11 theorem on the positional levels, for the generated function: a container of 2^K >= 2 slices whose size assert passes gets
   boundary levels 0 and at inner position i the dyadic level determined by the 2-adic valuation of i *)
Theorem gen_normalized_grid_levels_positional K grid levels :
  (1 <= K)%nat -> length grid = S (2 ^ K) ->
  exists nl, ExtrapolationGridSliceContainer_get_normalized_grid_levels (Some grid) levels (Some tt) = Some (map Z.of_nat nl) /\
    length nl = length grid /\ nth 0 nl 1%nat = 0%nat /\ nth (2 ^ K) nl 1%nat = 0%nat /\
    forall i, (1 <= i < 2 ^ K)%nat ->
      let l := nth i nl 0%nat in (1 <= l <= K)%nat /\ Nat.divide (2 ^ (K - l)) i /\ ~ Nat.divide (2 ^ (S K - l)) i.
Proof.
  intros HK HL. exists (normalized_levels (S (2 ^ K))). rewrite gen_normalized_grid_levels_is_model, HL.
  assert (P : (2 <= 2 ^ K)%nat) by (change 2%nat with (2 ^ 1)%nat at 1; apply Nat.pow_le_mono_r; lia).
  destruct (Nat.eqb_spec (S (2 ^ K)) 2) as [E|_]; [lia|].
  assert (O : Nat.odd (S (2 ^ K)) = true).
  { rewrite Nat.odd_succ. destruct K as [|K]; [lia|]. rewrite Nat.pow_succ_r'. apply Nat.even_spec. exists (2 ^ K)%nat. reflexivity. }
  rewrite O. destruct (Nat.leb_spec 3 (S (2 ^ K))) as [_|C]; [|lia]. cbn [andb].
  destruct (normalized_levels_ends K HK) as [A [B C]].
  split; [reflexivity|]. split; [exact C|]. split; [exact A|]. split; [exact B|].
  intros i Hi. exact (normalized_levels_positional K i HK Hi).
Qed.
