(* C07, coarsen_grid version 1 (lmin-aware arithmetic, base = lmin): GENERAL validity of the local combination, every
   dimension >= 1, every lmin <= lmax, every coarsening value 0 <= c <= lmax - lmin.
   Differences to version 2 (Proofs/ESV2Full.v): the threshold is  2 m >= thr = lmax + lmin - c + 1  and a round at cap m with
   occ entries at the cap needs  coarsening >= occ - is_top_diag : component grids of the top diagonal may overdraw the
   budget by one (the loop then stops, coarsening = -1).  Case analysis for a level vector k with maximum K:
     X  2 K <= thr - 1                     : [T l >= k] = [l >= k]
     N  2 K >= thr, >= 2 entries of k at K : no l of the scheme has T l >= k  (two levels above K-1: capping at K-1 costs at
                                             most c for l below the top diagonal and at most c + 1 on it - affordable with the discount)
     Z1 2 K >= thr, K unique               : [T l >= k] = [l >= k + c e_i0]  (then every other level is <= K-1, every round has
                                             one entry at the cap, no overdraft) *)
From Coq Require Import ZArith List Bool QArith Qcanon Lia.
From SG Require Import Base.QcUtil Model.CombiScheme Model.ExtendSplit Proofs.SchemeBasics Proofs.SchemeClosedForm
     Proofs.ESCombi Proofs.ESV0 Proofs.ESDict Proofs.ESShift Proofs.ESV12Low Proofs.ESV2Full.
Import ListNotations.
Open Scope Z_scope.
Local Arguments Z.add : simpl never.
Local Arguments Z.sub : simpl never.
Local Arguments Z.mul : simpl never.
Local Arguments Z.leb : simpl never.
Local Arguments Z.geb : simpl never.
Local Arguments Z.gtb : simpl never.
Local Arguments Z.eqb : simpl never.
Local Arguments Z.ltb : simpl never.
Local Arguments Z.max : simpl never.

Lemma big_dec_all j m t : j + 1 < m -> big j (dec_all m t) = big j t.
Proof.
  intro H. induction t as [|x t IH]; [reflexivity|]. unfold dec_all in *. cbn [map big]. rewrite IH.
  destruct (Z.eqb_spec x m); [|reflexivity]. destruct (Z.ltb_spec j (x - 1)), (Z.ltb_spec j x); lia.
Qed.

Lemma big_le_cost j t : big j t <= cost j t.
Proof. induction t as [|x t IH]; [rewrite cost_nil; simpl; lia|]. rewrite cost_cons. cbn [big]. destruct (Z.ltb_spec j x); lia. Qed.

Lemma big_zero_le j t : big j t <= 0 -> Forall (fun x => x <= j) t.
Proof.
  induction t as [|x t IH]; [constructor|]. cbn [big]. pose proof (big_nonneg j t). destruct (Z.ltb_spec j x); intro HH; [lia|].
  constructor; [lia | apply IH; lia].
Qed.

Lemma count_one x tp tq : Forall (fun y => y < x) tp -> Forall (fun y => y < x) tq -> count_eq x (tp ++ x :: tq) = 1.
Proof.
  intros Fp Fq. rewrite count_eq_app, count_eq_cons, Z.eqb_refl.
  assert (Z0 : forall l, Forall (fun y => y < x) l -> count_eq x l = 0).
  { induction 1 as [|y l Hy _ IH]; [reflexivity|]. rewrite count_eq_cons, IH. destruct (Z.eqb_spec y x); lia. }
  rewrite (Z0 tp Fp), (Z0 tq Fq). lia.
Qed.

Lemma maxl_mid x tp tq : Forall (fun y => y < x) tp -> Forall (fun y => y < x) tq -> maxl (tp ++ x :: tq) = x.
Proof.
  intros Fp Fq. apply maxl_char; [apply in_or_app; right; left; reflexivity|]. intros y Hy. apply in_app_or in Hy.
  rewrite Forall_forall in Fp, Fq. destruct Hy as [Hy | [Hy | Hy]]; [specialize (Fp y Hy); lia | lia | specialize (Fq y Hy); lia].
Qed.

Lemma dec_all_lt m t : Forall (fun y => y < m) t -> dec_all m t = t.
Proof.
  unfold dec_all. induction 1 as [|y t Hy _ IH]; [reflexivity|]. cbn [map]. rewrite IH. destruct (Z.eqb_spec y m); [lia | reflexivity].
Qed.

Lemma Forall_le_trans1 (t u : lv) j : Forall2 (fun x y => y <= x) t u -> Forall (fun x => x <= j) t -> Forall (fun x => x <= j) u.
Proof. induction 1 as [|x y t u H _ IH]; intro F; [constructor|]. inversion F; subst. constructor; [lia | apply IH; assumption]. Qed.

Section V1.
Variables (dimz lmin lmax c : Z) (td : bool).
Let thr := lmax + lmin - c + 1.
Let disc := if td then 1 else 0.
Definition L1 (fuel : nat) (c' : Z) (t : lv) : lv := v12_loop fuel 1 dimz lmin lmin lmax c td c' t.

Lemma L1_step f c' t : L1 (S f) c' t =
  if c' >? 0 then
    if maxl t =? lmin then t
    else if (2 * maxl t >=? thr) && (c' >=? count_eq (maxl t) t - disc) then L1 f (c' - count_eq (maxl t) t) (dec_all (maxl t) t) else t
  else t.
Proof.
  unfold L1. cbn [v12_loop]. destruct (c' >? 0); [|reflexivity]. destruct (maxl t =? lmin); [reflexivity|].
  change (1 =? 1) with true. cbv iota.
  replace (lmax + (dimz - 1) * lmin - maxl t - (dimz - 2) * lmin - maxl t + 1) with (lmax + lmin - 2 * maxl t + 1) by ring.
  assert (E : (c >=? lmax + lmin - 2 * maxl t + 1) = (2 * maxl t >=? thr)).
  { unfold thr. destruct (Z.geb_spec c (lmax + lmin - 2 * maxl t + 1)), (Z.geb_spec (2 * maxl t) (lmax + lmin - c + 1)); try reflexivity; lia. }
  rewrite E. reflexivity.
Qed.

Lemma L1_low f c' t : Forall2 (low_ok thr) t (L1 f c' t).
Proof. unfold L1, thr. replace (lmax + lmin - c + 1) with (lmax + lmin - c + v12_delta 1) by reflexivity. apply v12_loop_low. Qed.

Lemma L1_le f c' t : Forall2 (fun x y => y <= x) t (L1 f c' t).
Proof. eapply low_ok_le. apply L1_low. Qed.

Lemma L1_length f c' t : length (L1 f c' t) = length t.
Proof. pose proof (L1_le f c' t) as H. symmetry. clear -H. induction H; simpl; congruence. Qed.

Lemma L1_ge_lmin : forall f c' t, Forall (fun x => lmin <= x) t -> Forall (fun x => lmin <= x) (L1 f c' t).
Proof.
  induction f as [|f IH]; intros c' t H; [exact H|]. rewrite L1_step.
  destruct (c' >? 0); [|exact H]. destruct (Z.eqb_spec (maxl t) lmin) as [E | N]; [exact H|].
  destruct ((2 * maxl t >=? thr) && (c' >=? count_eq (maxl t) t - disc)); [|exact H].
  apply IH. unfold dec_all. apply Forall_forall. intros y Hy. apply in_map_iff in Hy. destruct Hy as [x [E Hx]]. subst y.
  rewrite Forall_forall in H. pose proof (H x Hx). destruct (Z.eqb_spec x (maxl t)); lia.
Qed.

Lemma L1_below j f c' t : t <> [] -> maxl t <= j -> Forall (fun x => x <= j) (L1 f c' t).
Proof. intros Hne Hm. apply (Forall_le_trans1 t (L1 f c' t) j (L1_le f c' t)). apply maxl_le_all; assumption. Qed.

(* REACH: capping at j is affordable (budget c', or c'+1 on the top diagonal when at least two levels lie above j) *)
Lemma L1_reach j : lmin <= j -> thr <= 2 * (j + 1) -> forall f c' t, t <> [] -> c' <= Z.of_nat f ->
  (cost j t <= c' \/ (td = true /\ 2 <= big j t /\ cost j t <= c' + 1)) ->
  Forall (fun x => x <= j) (L1 f c' t).
Proof.
  intros Hj Ht. induction f as [|f IH]; intros c' t Hne Hf Hc.
  - unfold L1. cbn [v12_loop]. change (Z.of_nat 0) with 0 in Hf. apply cost_zero_le.
    destruct Hc as [Hc | [_ [Hb Hc]]]; [lia|]. pose proof (big_le_cost j t). lia.
  - destruct (Z.le_gt_cases (maxl t) j) as [Hm | Hm]; [apply L1_below; assumption|].
    rewrite L1_step.
    pose proof (cost_ge_count j (maxl t) t Hm) as Hcc. pose proof (count_eq_pos (maxl t) t (maxl_in t Hne)) as Hp.
    pose proof (big_le_cost j t) as Hbc.
    assert (Hne' : dec_all (maxl t) t <> []) by (destruct t; [congruence | discriminate]).
    assert (Hpos : 0 < c') by (destruct Hc as [Hc | [_ [Hb Hc]]]; lia).
    assert (Hok : count_eq (maxl t) t - disc <= c').
    { destruct Hc as [Hc | [Etd [Hb Hc]]]; [unfold disc; destruct td; lia | unfold disc; rewrite Etd; lia]. }
    destruct (Z.gtb_spec c' 0) as [_ | Hz]; [|lia].
    destruct (Z.eqb_spec (maxl t) lmin) as [E | _]; [lia|].
    destruct (Z.geb_spec (2 * maxl t) thr) as [_ | H1]; [|lia].
    destruct (Z.geb_spec c' (count_eq (maxl t) t - disc)) as [_ | H2]; [|lia]. cbn [andb].
    destruct (Z.le_gt_cases (maxl t) (j + 1)) as [Hm1 | Hm1].
    + (* the cap reaches j in this round *)
      apply L1_below; [exact Hne'|].
      assert (F : Forall (fun x => x <= j) (dec_all (maxl t) t)).
      { unfold dec_all. apply Forall_forall. intros y Hy. apply in_map_iff in Hy. destruct Hy as [x [E Hx]]. subst y.
        pose proof (maxl_ge t x Hx). destruct (Z.eqb_spec x (maxl t)); lia. }
      pose proof (maxl_in _ Hne') as Hin. rewrite Forall_forall in F. apply F. exact Hin.
    + apply IH; [exact Hne' | lia|]. rewrite cost_dec_all by exact Hm. rewrite big_dec_all by lia.
      destruct Hc as [Hc | [Etd [Hb Hc]]]; [left; lia | right; split; [exact Etd | split; [exact Hb | lia]]].
Qed.

(* Z1 keep: one level carries the remaining budget above K, all others lie below K: one entry at the cap in every round *)
Lemma L1_keep_Z1 K kp kq : Forall (fun x => x < K) kp -> Forall (fun x => x < K) kq ->
  forall f c' tp x tq, 0 <= c' -> K + c' <= x -> length tp = length kp ->
  Forall (fun y => y < K) tp -> Forall (fun y => y < K) tq -> lv_geb tp kp = true -> lv_geb tq kq = true ->
  lv_geb (L1 f c' (tp ++ x :: tq)) (kp ++ K :: kq) = true.
Proof.
  intros Fp Fq. induction f as [|f IH]; intros c' tp x tq Hc Hx L Tp Tq A C.
  - unfold L1. cbn [v12_loop]. rewrite geb_app by exact L. cbn [lv_geb]. rewrite A, C. destruct (Z.leb_spec K x); [reflexivity | lia].
  - assert (Keep : lv_geb (tp ++ x :: tq) (kp ++ K :: kq) = true).
    { rewrite geb_app by exact L. cbn [lv_geb]. rewrite A, C. destruct (Z.leb_spec K x); [reflexivity | lia]. }
    assert (Tp' : Forall (fun y => y < x) tp) by (eapply Forall_impl; [|exact Tp]; simpl; intros; lia).
    assert (Tq' : Forall (fun y => y < x) tq) by (eapply Forall_impl; [|exact Tq]; simpl; intros; lia).
    rewrite L1_step, (maxl_mid x tp tq Tp' Tq'), (count_one x tp tq Tp' Tq').
    destruct (Z.gtb_spec c' 0) as [Hpos | _]; [|exact Keep]. destruct (x =? lmin); [exact Keep|].
    destruct ((2 * x >=? thr) && (c' >=? 1 - disc)); [|exact Keep].
    unfold dec_all. rewrite map_app. cbn [map]. fold (dec_all x tp). fold (dec_all x tq).
    rewrite (dec_all_lt x tp Tp'), (dec_all_lt x tq Tq'), Z.eqb_refl.
    apply IH; try assumption; lia.
Qed.
End V1.

Section Final1.
Variables (n : nat) (lmin lmax c : Z).
Hypotheses (Hle : lmin <= lmax) (Hc : 0 <= c <= lmax - lmin).
Let d := S n.
Let cp := mkCP d 1 lmin lmax lmin.
Let sch := combi_scheme_standard d lmin lmax.
Let thr := lmax + lmin - c + 1.
Let tdf (l : lv) : bool := lmax + (Z.of_nat d - 1) * lmin - sumZ l =? 0.
Let T (l : lv) : lv := L1 (Z.of_nat d) lmin lmax c (tdf l) (Z.to_nat c) c l.

Lemma sch_facts1 l cf : In (l, cf) sch -> length l = d /\ Forall (fun x => lmin <= x) l /\ sumZ l <= lmax - lmin + Z.of_nat d * lmin /\ l <> [].
Proof.
  intro H. apply std_member in H. destruct H as [q [_ [L [F [Sm _]]]]]. fold d in L, Sm. split; [exact L | split; [exact F | split; [lia|]]].
  intro E. subst l. discriminate.
Qed.

Lemma reach_false1 K k l cf : In (l, cf) sch -> In K k -> thr <= 2 * K ->
  (cost (K - 1) l <= c \/ (tdf l = true /\ 2 <= big (K - 1) l /\ cost (K - 1) l <= c + 1)) -> lv_geb (T l) k = false.
Proof.
  intros Hl HK Ht Hcost. destruct (sch_facts1 l cf Hl) as [L [F [Sm Hne]]].
  apply (geb_false_below _ _ K HK).
  - intro E. apply (f_equal (@length Z)) in E. unfold T in E. rewrite L1_length in E. destruct l; [congruence | discriminate].
  - unfold T. apply L1_reach; [unfold thr in Ht; lia | unfold thr in Ht; lia | exact Hne | lia | exact Hcost].
Qed.

Lemma two_big1 K l cf : In (l, cf) sch -> thr <= 2 * K -> 2 <= big (K - 1) l ->
  cost (K - 1) l <= c \/ (tdf l = true /\ 2 <= big (K - 1) l /\ cost (K - 1) l <= c + 1).
Proof.
  intros Hl Ht Hb. destruct (sch_facts1 l cf Hl) as [L [F [Sm _]]].
  assert (Hj : lmin <= K - 1) by (unfold thr in Ht; lia).
  pose proof (cost_big lmin (K - 1) Hj l F) as CB. rewrite L in CB. unfold thr in Ht.
  destruct (tdf l) eqn:Etd.
  - right. split; [reflexivity | split; [exact Hb|]]. nia.
  - left. unfold tdf in Etd. apply Z.eqb_neq in Etd. nia.
Qed.

Lemma key1 k : length k = d -> Forall (fun x => lmin <= x) k ->
  (exists k2, length k2 = d /\ Forall (fun x => lmin <= x) k2 /\
              forall l cf, In (l, cf) sch -> lv_geb (T l) k = lv_geb l k2) \/
  (forall l cf, In (l, cf) sch -> lv_geb (T l) k = false).
Proof.
  intros Lk Fk. assert (Hne : k <> []) by (intro E; subst k; discriminate).
  pose proof (maxl_in k Hne) as HK.
  assert (FK : Forall (fun x => x <= maxl k) k) by (apply Forall_forall; intros x Hx; apply maxl_ge; exact Hx).
  remember (maxl k) as K eqn:EK. clear EK.
  assert (Same : forall l, lv_geb l k = false -> lv_geb (T l) k = false).
  { intros l H. destruct (lv_geb (T l) k) eqn:G; [|reflexivity].
    rewrite (geb_trans_le l (T l) k (L1_le _ _ _ _ _ _ _ _) G) in H. discriminate. }
  destruct (Z.le_gt_cases (2 * K) (thr - 1)) as [HX | HX].
  - left. exists k. split; [exact Lk | split; [exact Fk|]]. intros l cf _.
    apply (low_ok_geb1 thr); [apply L1_low|]. eapply Forall_impl; [|exact FK]. simpl. intros; lia.
  - assert (Ht : thr <= 2 * K) by lia.
    pose proof (count_eq_pos K k HK) as HA1.
    destruct (Z.le_gt_cases 2 (count_eq K k)) as [HN | HZ1].
    + right. intros l cf Hl. destruct (lv_geb l k) eqn:G; [|apply Same; exact G].
      apply (reach_false1 K k l cf Hl HK Ht). apply (two_big1 K l cf Hl Ht). pose proof (count_le_big K l k G). lia.
    + left. destruct (first_split K k HK) as [kp [kq [Ek Hnp]]].
      assert (Cq : count_eq K kq <= 0).
      { rewrite Ek in HZ1. rewrite count_eq_app, count_eq_cons, Z.eqb_refl in HZ1. pose proof (count_eq_nonneg K kp). lia. }
      assert (Fp : Forall (fun x => x < K) kp).
      { apply Forall_forall. intros x Hx. rewrite Forall_forall in FK. assert (x <= K) by (apply FK; rewrite Ek; apply in_or_app; left; exact Hx).
        assert (x <> K) by (intro E; subst x; exact (Hnp Hx)). lia. }
      assert (Fq : Forall (fun x => x < K) kq).
      { apply Forall_forall. intros x Hx. rewrite Forall_forall in FK.
        assert (x <= K) by (apply FK; rewrite Ek; apply in_or_app; right; right; exact Hx).
        assert (x <> K) by (intro E; subst x; exact (count_zero_notin K kq Cq Hx)). lia. }
      exists (kp ++ (K + c) :: kq). split; [|split].
      * rewrite <- Lk, Ek, !app_length. reflexivity.
      * rewrite Ek in Fk. apply Forall_app in Fk. destruct Fk as [F1 F2]. inversion F2 as [|? ? HK1 HK2]. apply Forall_app. split; [exact F1|].
        constructor; [lia | exact HK2].
      * intros l cf Hl. destruct (lv_geb l (kp ++ (K + c) :: kq)) eqn:G2.
        -- destruct (geb_split _ _ _ _ G2) as [lp [x [lq [El [Ll [A [B C]]]]]]].
           assert (Hsmall : big (K - 1) lp + big (K - 1) lq <= 0).
           { destruct (Z.le_gt_cases (big (K - 1) lp + big (K - 1) lq) 0) as [H0 | H0]; [exact H0|]. exfalso.
             assert (Hb2 : 2 <= big (K - 1) l) by (rewrite El, big_app; cbn [big]; destruct (Z.ltb_spec (K - 1) x); lia).
             pose proof (big_le_cost (K - 1) lp). pose proof (big_le_cost (K - 1) lq).
             assert (Hcl : c + 2 <= cost (K - 1) l) by (rewrite El, cost_app, cost_cons; lia).
             destruct (two_big1 K l cf Hl Ht Hb2) as [HH1 | [_ [_ HH1]]]; lia. }
           pose proof (big_nonneg (K - 1) lp). pose proof (big_nonneg (K - 1) lq).
           assert (Tp : Forall (fun y => y < K) lp) by (eapply Forall_impl; [|apply (big_zero_le (K - 1)); lia]; simpl; intros; lia).
           assert (Tq : Forall (fun y => y < K) lq) by (eapply Forall_impl; [|apply (big_zero_le (K - 1)); lia]; simpl; intros; lia).
           unfold T. rewrite Ek, El. apply (L1_keep_Z1 _ _ _ _ _ K kp kq Fp Fq); try assumption; lia.
        -- destruct (lv_geb l k) eqn:G; [|apply Same; exact G].
           apply (reach_false1 K k l cf Hl HK Ht).
           rewrite Ek in G. destruct (geb_split _ _ _ _ G) as [lp [x [lq [El [Ll [A [B C]]]]]]].
           rewrite El in G2. rewrite geb_app in G2 by exact Ll. cbn [lv_geb] in G2. rewrite A, C in G2.
           assert (Hx : x < K + c) by (destruct (Z.leb_spec (K + c) x); [discriminate | lia]).
           destruct (Z.le_gt_cases 1 (big (K - 1) lp + big (K - 1) lq)) as [Hb | Hb].
           ++ apply (two_big1 K l cf Hl Ht). rewrite El, big_app. cbn [big]. destruct (Z.ltb_spec (K - 1) x); lia.
           ++ left. pose proof (big_nonneg (K - 1) lp). pose proof (big_nonneg (K - 1) lq).
              rewrite El, cost_app, cost_cons, (big_zero_cost (K - 1) lp), (big_zero_cost (K - 1) lq) by lia. lia.
Qed.

Theorem local_combi_v1_wf : grids_wf d (local_combi cp c).
Proof.
  intros g Hg. unfold cp, d in Hg. rewrite (local_combi_v12_form n 1 lmin lmax lmin c ltac:(discriminate)) in Hg.
  apply in_map_iff in Hg. destruct Hg as [[l cf] [E Hl]]. subst g. cbn [fst snd].
  destruct (sch_facts1 l cf Hl) as [L [F _]].
  change (v12_loop (Z.to_nat c) 1 (Z.of_nat (S n)) lmin lmin lmax c (lmax + (Z.of_nat (S n) - 1) * lmin - sumZ l =? 0) c l) with (T l).
  split.
  - unfold sub_lmin. rewrite map_length. unfold T. rewrite L1_length. exact L.
  - pose proof (L1_ge_lmin (Z.of_nat d) lmin lmax c (tdf l) (Z.to_nat c) c l F) as G. fold (T l) in G.
    unfold sub_lmin. apply Forall_forall. intros x Hx. apply in_map_iff in Hx. destruct Hx as [y [E Hy]]. subst x.
    rewrite Forall_forall in G. specialize (G y Hy). lia.
Qed.

Theorem local_combi_v1_IE : local_IE d (local_combi cp c).
Proof.
  intros kr Lk Pk [g [Hg Dg]].
  set (k := map (fun x => x + lmin) kr).
  assert (Lk' : length k = d) by (unfold k; rewrite map_length; exact Lk).
  assert (Fk : Forall (fun x => lmin <= x) k).
  { unfold k. apply Forall_forall. intros x Hx. apply in_map_iff in Hx. destruct Hx as [y [E Hy]]. subst x.
    rewrite Forall_forall in Pk. specialize (Pk y Hy). lia. }
  assert (Form : local_combi cp c = map (fun lc => (sub_lmin lmin (T (fst lc)), snd lc)) sch)
    by (unfold cp, d; exact (local_combi_v12_form n 1 lmin lmax lmin c ltac:(discriminate))).
  assert (Term : forall l, lv_geb (sub_lmin lmin (T l)) kr = lv_geb (T l) k) by (intro l; rewrite lv_geb_sub_lmin; reflexivity).
  rewrite Form in Hg. apply in_map_iff in Hg. destruct Hg as [[l0 cf0] [Eg Hl0]]. subst g. cbn [fst snd] in Dg. rewrite Term in Dg.
  destruct (key1 k Lk' Fk) as [[k2 [L2k [F2 Eq]]] | Never].
  - assert (E : dominating_sum (local_combi cp c) kr = dominating_sum sch k2).
    { rewrite Form. unfold dominating_sum. rewrite map_map. f_equal. apply map_ext_in. intros [l cf] Hl. cbn [fst snd].
      rewrite Term, (Eq l cf Hl). reflexivity. }
    rewrite E. unfold sch, d. rewrite std_IE; [| exact Hle | exact L2k | exact F2].
    rewrite (Eq l0 cf0 Hl0) in Dg. apply lv_geb_sum in Dg. destruct (sch_facts1 l0 cf0 Hl0) as [_ [_ [Sm _]]].
    destruct (Z.leb_spec (sumZ k2) (lmax - lmin + Z.of_nat (S n) * lmin)); [reflexivity | unfold d in Sm; lia].
  - rewrite (Never l0 cf0 Hl0) in Dg. discriminate.
Qed.

Theorem local_combi_v1_valid : valid_local_combi d (local_combi cp c) = true.
Proof. apply valid_local_combi_complete; [apply local_combi_v1_wf | apply local_combi_v1_IE]. Qed.
End Final1.
