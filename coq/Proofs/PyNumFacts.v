(* Reusable facts about the numeric PyNum combinators (Base/PyNum.v) and about PyLib indexing on arbitrary element
   types: indexing / item assignment inside the bounds, loops that update one array cell per iteration, float sums,
   slices, exact division.  Used by the equivalence proofs of the source-derived numeric models
   (Proofs/GenGridEq.v, Proofs/GenExtrapolationEq.v). *)
From Coq Require Import ZArith List Bool Lia QArith Qcanon Arith.
From SG Require Import Base.QcUtil Base.PyLib Base.PyNum.
Import ListNotations.
Open Scope Z_scope.
Local Arguments Z.add : simpl never.
Local Arguments Z.mul : simpl never.
Local Arguments Z.sub : simpl never.
Local Arguments Z.of_nat : simpl never.
Local Arguments Z.to_nat : simpl never.

(* ------------------------------------------------------------------ integer tests on Z.of_nat *)
Lemma Zof_eqb (k m : nat) : (Z.of_nat k =? Z.of_nat m) = (k =? m)%nat.
Proof. destruct (Nat.eqb_spec k m) as [->|N]; [apply Z.eqb_refl|]. apply Z.eqb_neq. lia. Qed.
Lemma Zof_ltb (k m : nat) : (Z.of_nat k <? Z.of_nat m) = (k <? m)%nat.
Proof. destruct (Nat.ltb_spec k m); [apply Z.ltb_lt | apply Z.ltb_ge]; lia. Qed.
Lemma Zof_leb (k m : nat) : (Z.of_nat k <=? Z.of_nat m) = (k <=? m)%nat.
Proof. destruct (Nat.leb_spec k m); [apply Z.leb_le | apply Z.leb_gt]; lia. Qed.
Lemma Zof_gtb (k m : nat) : (Z.of_nat k >? Z.of_nat m) = (m <? k)%nat.
Proof. rewrite Z.gtb_ltb. apply Zof_ltb. Qed.
Lemma Zof_geb (k m : nat) : (Z.of_nat k >=? Z.of_nat m) = (m <=? k)%nat.
Proof. rewrite Z.geb_leb. apply Zof_leb. Qed.

(* ------------------------------------------------------------------ list_set *)
Lemma list_set_length {A} (l : list A) k x : length (list_set l k x) = length l.
Proof. revert k. induction l as [|y l IH]; intros [|k]; cbn [list_set length]; try reflexivity. rewrite IH. reflexivity. Qed.

Lemma list_set_nth_same {A} (l : list A) k x d : (k < length l)%nat -> nth k (list_set l k x) d = x.
Proof.
  revert k. induction l as [|y l IH]; intros [|k] H; cbn [list_set nth length] in *; try lia; [reflexivity|].
  apply IH. lia.
Qed.

Lemma list_set_nth_other {A} (l : list A) k j x d : k <> j -> nth j (list_set l k x) d = nth j l d.
Proof.
  revert k j. induction l as [|y l IH]; intros [|k] [|j] H; cbn [list_set nth]; try reflexivity; try congruence.
  apply IH. congruence.
Qed.

Lemma list_set_twice {A} (l : list A) k x y : list_set (list_set l k x) k y = list_set l k y.
Proof. revert k. induction l as [|z l IH]; intros [|k]; cbn [list_set]; try reflexivity. rewrite IH. reflexivity. Qed.

Lemma list_set_same {A} (l : list A) k d : list_set l k (nth k l d) = l.
Proof.
  revert k. induction l as [|z l IH]; intros [|k]; cbn [list_set nth]; try reflexivity. rewrite IH. reflexivity.
Qed.

(* ------------------------------------------------------------------ indexing inside the bounds, any element type *)
Lemma py_index_Z {A} (l : list A) (i : Z) : 0 <= i < Z.of_nat (length l) -> py_index l i = Some (Z.to_nat i).
Proof.
  intros H. unfold py_index, py_len.
  destruct (0 <=? i) eqn:E1; [|apply Z.leb_gt in E1; lia].
  destruct (i <? Z.of_nat (length l)) eqn:E2; [|apply Z.ltb_ge in E2; lia]. reflexivity.
Qed.

Lemma py_index_neg {A} (l : list A) (i : Z) :
  - Z.of_nat (length l) <= i < 0 -> py_index l i = Some (Z.to_nat (Z.of_nat (length l) + i)).
Proof.
  intros H. unfold py_index, py_len.
  destruct (0 <=? i) eqn:E1; [apply Z.leb_le in E1; lia|]. cbn [andb].
  destruct (- Z.of_nat (length l) <=? i) eqn:E2; [|apply Z.leb_gt in E2; lia].
  destruct (i <? 0) eqn:E3; [|apply Z.ltb_ge in E3; lia]. reflexivity.
Qed.

Lemma py_index_out {A} (l : list A) (i : Z) : Z.of_nat (length l) <= i -> py_index l i = None.
Proof.
  intros H. unfold py_index, py_len.
  destruct (i <? Z.of_nat (length l)) eqn:E2; [apply Z.ltb_lt in E2; lia|]. rewrite andb_false_r.
  destruct (i <? 0) eqn:E3; [apply Z.ltb_lt in E3; lia|]. rewrite andb_false_r. reflexivity.
Qed.

(* l[i] with i the image of the natural number k *)
Lemma py_getitem_at {A} (l : list A) (i : Z) (k : nat) (d : A) :
  i = Z.of_nat k -> (k < length l)%nat -> py_getitem l i = Some (nth k l d).
Proof.
  intros -> H. unfold py_getitem. rewrite py_index_Z by lia. rewrite Nat2Z.id. apply nth_error_nth'. exact H.
Qed.

Lemma py_getitem_out {A} (l : list A) (i : Z) : Z.of_nat (length l) <= i -> py_getitem l i = None.
Proof. intros H. unfold py_getitem. rewrite py_index_out by exact H. reflexivity. Qed.

Lemma py_setitem_at {A} (l : list A) (i : Z) (k : nat) (x : A) :
  i = Z.of_nat k -> (k < length l)%nat -> py_setitem l i x = Some (list_set l k x).
Proof. intros -> H. unfold py_setitem. rewrite py_index_Z by lia. rewrite Nat2Z.id. reflexivity. Qed.

Lemma py_setitem_out {A} (l : list A) (i : Z) x : Z.of_nat (length l) <= i -> py_setitem l i x = None.
Proof. intros H. unfold py_setitem. rewrite py_index_out by exact H. reflexivity. Qed.

(* l[-1] = x *)
Lemma py_setitem_last {A} (l : list A) (x : A) :
  (1 <= length l)%nat -> py_setitem l (-1) x = Some (list_set l (length l - 1) x).
Proof.
  intros H. unfold py_setitem. rewrite py_index_neg by lia.
  replace (Z.to_nat (Z.of_nat (length l) + -1)) with (length l - 1)%nat by lia. reflexivity.
Qed.

Lemma py_setitem_nil {A} (i : Z) (x : A) : py_setitem [] i x = None.
Proof.
  unfold py_setitem, py_index, py_len. cbn [length].
  destruct (0 <=? i) eqn:E1; destruct (i <? Z.of_nat 0) eqn:E2; cbn [andb];
    try (apply Z.ltb_lt in E2; lia); destruct (- Z.of_nat 0 <=? i) eqn:E3; destruct (i <? 0) eqn:E4; cbn [andb]; try reflexivity;
    apply Z.leb_le in E3; apply Z.ltb_lt in E4; lia.
Qed.

(* ------------------------------------------------------------------ np.zeros, len *)
Lemma np_zeros_nat (n : nat) : np_zeros (Z.of_nat n) = Some (repeat 0%Qc n).
Proof.
  unfold np_zeros. destruct (Z.of_nat n <? 0) eqn:E; [apply Z.ltb_lt in E; lia|]. rewrite Nat2Z.id. reflexivity.
Qed.

Lemma np_zeros_len {A} (l : list A) : np_zeros (py_len l) = Some (repeat 0%Qc (length l)).
Proof. apply np_zeros_nat. Qed.

Lemma nth_repeat_0 (n k : nat) : nth k (repeat 0%Qc n) 0%Qc = 0%Qc.
Proof. revert k. induction n as [|n IH]; intros [|k]; cbn [repeat nth]; try reflexivity. apply IH. Qed.

Lemma skipn_S_tl {A} (m : nat) (l : list A) : skipn (S m) l = tl (skipn m l).
Proof. revert l. induction m as [|m IH]; intros [|x l]; try reflexivity. cbn [skipn] in *. apply IH. Qed.

Lemma py_range_seq0 n : py_range (Z.of_nat n) = map Z.of_nat (seq 0 n).
Proof. unfold py_range. rewrite Nat2Z.id. reflexivity. Qed.

(* ------------------------------------------------------------------ a loop that updates cell i in iteration i *)
(* for i in range(n): w[i] = F(i, w[i])   (every iteration touches only its own cell) *)
Lemma py_for_app {A V R} (body : A -> V -> flow V R) (l1 l2 : list A) v :
  py_for (l1 ++ l2) body v = match py_for l1 body v with Nxt v' => py_for l2 body v' | Ret r => Ret r | Fail => Fail end.
Proof.
  revert v. induction l1 as [|x l1 IH1]; intros v; [cbn [app py_for]; reflexivity|]. cbn [app py_for].
  destruct (body x v); try reflexivity. apply IH1.
Qed.

(* the first m iterations *)
Lemma py_for_pointwise_prefix {A R} (d : A) (F : nat -> A -> A) (n m : nat) (body : Z -> list A -> flow (list A) R) :
  (m <= n)%nat ->
  (forall k w, (k < m)%nat -> length w = n -> body (Z.of_nat k) w = Nxt (list_set w k (F k (nth k w d)))) ->
  forall w0, length w0 = n ->
  py_for (map Z.of_nat (seq 0 m)) body w0 = Nxt (map (fun k => F k (nth k w0 d)) (seq 0 m) ++ skipn m w0).
Proof.
  intros Hmn Hb w0 Hl. revert Hmn Hb. induction m as [|m IH]; intros Hm Hb.
  - reflexivity.
  - rewrite seq_S, !map_app. cbn [map Nat.add].
    rewrite py_for_app, IH; [|lia|intros k w Hk Hw; apply Hb; [lia|exact Hw]]. cbn [py_for].
    set (pre := map (fun k => F k (nth k w0 d)) (seq 0 m)).
    assert (Lpre : length pre = m) by (unfold pre; rewrite map_length, seq_length; reflexivity).
    rewrite Hb; [|lia|rewrite app_length, Lpre, skipn_length; lia].
    f_equal. rewrite app_nth2 by lia. rewrite Lpre, Nat.sub_diag.
    destruct (skipn m w0) as [|y r] eqn:E.
    { exfalso. assert (length (skipn m w0) = (n - m)%nat) by (rewrite skipn_length; lia). rewrite E in H. cbn in H. lia. }
    assert (Ey : nth m w0 d = y).
    { rewrite <- (firstn_skipn m w0) at 1. rewrite app_nth2; rewrite firstn_length_le by lia; [|lia].
      rewrite Nat.sub_diag, E. reflexivity. }
    cbn [nth]. rewrite <- Ey.
    assert (Es : skipn (S m) w0 = r).
    { rewrite skipn_S_tl, E. reflexivity. }
    rewrite Es.
    assert (LS : forall (p : list A) (y0 a : A) r0, list_set (p ++ y0 :: r0) (length p) a = (p ++ [a]) ++ r0).
    { induction p as [|z p IHp]; intros y0 a r0; [reflexivity|]. cbn [app list_set length]. rewrite IHp. reflexivity. }
    pose proof (LS pre (nth m w0 d) (F m (nth m w0 d)) r) as Q. rewrite Lpre in Q. exact Q.
Qed.

Lemma py_for_pointwise {A R} (d : A) (F : nat -> A -> A) (n : nat) (body : Z -> list A -> flow (list A) R) :
  (forall k w, (k < n)%nat -> length w = n -> body (Z.of_nat k) w = Nxt (list_set w k (F k (nth k w d)))) ->
  forall w0, length w0 = n ->
  py_for (py_range (Z.of_nat n)) body w0 = Nxt (map (fun k => F k (nth k w0 d)) (seq 0 n)).
Proof.
  intros Hb w0 Hl. rewrite py_range_seq0.
  rewrite (py_for_pointwise_prefix d F n n) by (try assumption; lia).
  rewrite skipn_all2 by lia. rewrite app_nil_r. reflexivity.
Qed.

(* ... and a loop whose iteration m raises after m well-behaved iterations raises *)
Lemma py_for_pointwise_then_fail {A R} (d : A) (F : nat -> A -> A) (n m : nat) (body : Z -> list A -> flow (list A) R) :
  (m < n)%nat ->
  (forall k w, (k < m)%nat -> length w = n -> body (Z.of_nat k) w = Nxt (list_set w k (F k (nth k w d)))) ->
  (forall w, length w = n -> body (Z.of_nat m) w = Fail) ->
  forall w0, length w0 = n -> py_for (py_range (Z.of_nat n)) body w0 = Fail.
Proof.
  intros Hmn Hb Hf w0 Hl. rewrite py_range_seq0.
  replace n with (m + (n - m))%nat at 1 by lia. rewrite seq_app, map_app, py_for_app.
  rewrite (py_for_pointwise_prefix d F n m) by (try assumption; lia).
  replace (n - m)%nat with (S (n - m - 1)) by lia. cbn [seq map py_for Nat.add].
  rewrite Hf; [reflexivity|]. rewrite app_length, map_length, seq_length, skipn_length. lia.
Qed.

Lemma py_range2_from0 n : py_range2 0 n = py_range n.
Proof. unfold py_range2. rewrite Z.sub_0_r. rewrite <- (map_id (py_range n)) at 2. apply map_ext. intros a. lia. Qed.

Lemma py_len_nat {A} (l : list A) : py_len l = Z.of_nat (length l).
Proof. reflexivity. Qed.

(* ------------------------------------------------------------------ floats *)
Lemma py_fdiv_some (a b : Qc) : b <> 0%Qc -> py_fdiv a b = Some (a / b)%Qc.
Proof.
  intros H. unfold py_fdiv. destruct (Qc_eqb b 0) eqn:E; [apply Qc_eqb_eq in E; contradiction|reflexivity].
Qed.

Lemma py_fdiv_zero (a : Qc) : py_fdiv a 0%Qc = None.
Proof. reflexivity. Qed.

Lemma fold_left_Qcplus_acc (l : list Qc) (a : Qc) : fold_left Qcplus l a = (a + sumQ l)%Qc.
Proof.
  revert a. induction l as [|x l IH]; intros a; cbn [fold_left sumQ]; [ring|]. rewrite IH. ring.
Qed.

Lemma py_fsum_sumQ (l : list Qc) : py_fsum l = sumQ l.
Proof. unfold py_fsum. rewrite fold_left_Qcplus_acc. ring. Qed.

(* l[1:-1] : the list without its first and last element *)
Lemma py_slice_1_m1 {A} (l : list A) : py_slice l (Some 1) (Some (-1)) = removelast (tl l).
Proof.
  unfold py_slice, py_slice_bound, py_len.
  destruct l as [|x l]; [reflexivity|].
  change (1 <? 0) with false. change (-1 <? 0) with true. cbn [length tl].
  replace (Z.min 1 (Z.of_nat (S (length l)))) with 1 by lia.
  change (Z.to_nat 1) with 1%nat. cbn [skipn].
  replace (Z.to_nat (Z.max (Z.of_nat (S (length l)) + -1) 0 - 1)) with (length l - 1)%nat by lia.
  clear x. induction l as [|y l IH]; [reflexivity|]. cbn [length].
  destruct l as [|z l]; [reflexivity|].
  replace (S (length (z :: l)) - 1)%nat with (S (length (z :: l) - 1)) by (cbn [length]; lia).
  cbn [firstn]. rewrite IH. reflexivity.
Qed.

(* ------------------------------------------------------------------ loops as folds (no return / raise in the body) *)
Lemma py_for_fold' {A V R} (f : V -> A -> V) (l : list A) (body : A -> V -> flow V R) v :
  (forall x w, In x l -> body x w = Nxt (f w x)) -> py_for l body v = Nxt (fold_left f l v).
Proof.
  revert v. induction l as [|x l IH]; intros v H; [reflexivity|].
  cbn [py_for fold_left]. rewrite (H x v (or_introl eq_refl)). apply IH. intros y w Hy. apply H. right. exact Hy.
Qed.

Lemma py_for_map' {A B V R} (f : A -> B) (l : list A) (body : B -> V -> flow V R) v :
  py_for (map f l) body v = py_for l (fun x => body (f x)) v.
Proof.
  revert v. induction l as [|x l IH]; intros v; [reflexivity|].
  cbn [map py_for]. destruct (body (f x) v); try reflexivity. apply IH.
Qed.

(* range(lo, hi) on natural numbers *)
Lemma py_range2_seq (lo hi : nat) : py_range2 (Z.of_nat lo) (Z.of_nat hi) = map Z.of_nat (seq lo (hi - lo)).
Proof.
  unfold py_range2, py_range.
  replace (Z.to_nat (Z.of_nat hi - Z.of_nat lo)) with (hi - lo)%nat by lia.
  rewrite map_map.
  generalize (hi - lo)%nat. intro n. revert lo. induction n as [|n IH]; intros lo; [reflexivity|].
  rewrite !seq_S, !map_app. cbn [map]. rewrite IH. f_equal. f_equal. lia.
Qed.

Lemma fold_left_add_sumQ {A} (g : A -> Qc) (l : list A) (w : Qc) :
  fold_left (fun acc x => (acc + g x)%Qc) l w = (w + sumQ (map g l))%Qc.
Proof. revert w. induction l as [|x l IH]; intros w; cbn [fold_left map sumQ]; [ring|]. rewrite IH. ring. Qed.

(* x ** e for a natural exponent *)
Lemma py_fpow_nat (x : Qc) (e : nat) : py_fpow x (Z.of_nat e) = Some (Qcpower x e).
Proof.
  unfold py_fpow. destruct (0 <=? Z.of_nat e) eqn:E; [|apply Z.leb_gt in E; lia]. rewrite Nat2Z.id. reflexivity.
Qed.

(* ------------------------------------------------------------------ fuelled while *)
(* more fuel never changes the outcome of a loop that finished (returned or fell through) *)
Lemma py_while_more_fuel {V R} (cond : V -> option bool) (body : V -> flow V R) :
  forall f f' v, (f <= f')%nat -> py_while f cond body v <> Fail -> py_while f' cond body v = py_while f cond body v.
Proof.
  induction f as [|f IH]; intros f' v Hle H; [cbn in H; congruence|].
  destruct f' as [|f']; [lia|]. cbn [py_while] in *.
  destruct (cond v) as [[|]|]; try reflexivity. destruct (body v) as [| |v']; try reflexivity.
  apply IH; [lia | exact H].
Qed.

(* a counting loop  `while ctr <= m: body; ctr += 1`: the declared fuel  m + 2 - ctr  suffices and the loop is the iteration
   of its body *)
Lemma py_while_counting {V R} (ctr : V -> Z) (m : Z) (cond : V -> option bool) (body : V -> flow V R) (step : V -> V) :
  (forall v, cond v = Some (ctr v <=? m)) ->
  (forall v, ctr v <= m -> body v = Nxt (step v) /\ ctr (step v) = ctr v + 1) ->
  forall fuel v, (Z.to_nat (m + 1 - ctr v) < fuel)%nat ->
  py_while fuel cond body v = Nxt (Nat.iter (Z.to_nat (m + 1 - ctr v)) (fun g x => g (step x)) (fun x => x) v).
Proof.
  intros Hc Hb. induction fuel as [|fuel IH]; intros v Hf; [lia|].
  cbn [py_while]. rewrite Hc. destruct (Z.leb_spec (ctr v) m) as [Hle|Hgt].
  - destruct (Hb v Hle) as [E1 E2]. rewrite E1.
    replace (Z.to_nat (m + 1 - ctr v)) with (S (Z.to_nat (m + 1 - ctr (step v)))) by lia.
    cbn [Nat.iter]. apply IH. lia.
  - replace (Z.to_nat (m + 1 - ctr v)) with 0%nat by lia. reflexivity.
Qed.
