(* The SOURCE-DERIVED model Gen/GridGen.v (written by harness/translate/py2gallina.py --target grid from
   sparseSpACE/Grid.py at every run) agrees with the hand-written model Model/Trap.v (property C09).

   Translated: GlobalTrapezoidalGrid.compute_weights (static; all branches: 3-point and 4-point special cases of the
   modified basis, the general loop with its i==1, i==2, n-2, n-3 branches, zeroing of the ends, the self-assert) and the
   method GlobalTrapezoidalGrid.compute_1D_quad_weights (self.modified_basis is a parameter).
   TRUSTED READING (Base/PyNum.v): floats are exact rationals; float comparisons (the self-assert) are exact.

   gen_compute_weights_eq: generated = hand-written for ALL inputs, with preconditions exactly where the Python divides by
   zero (ZeroDivisionError for Python floats, inf/nan for numpy floats) while the total model computes x/0 = 0, and for the
   documented deviation of the model on the degenerate one-point call (gen_compute_weights_degenerate states what the
   Python does there).  On strictly increasing grids (every refinement-tree grid) nothing is left
   (gen_compute_weights_increasing).

   Robustness: the proofs do not follow the syntactic shape of the generated term.  The loop is handled by
   py_for_pointwise (every iteration updates its own cell); one iteration is executed symbolically by `exec` (decides
   every integer test with lia, splits on the open ones) and `items` (indexing inside the bounds by lia); the results are
   compared by `ring`.  Renaming, reordering of independent statements, nesting `if`s differently, hoisting
   len(grid_1D) etc. re-prove unchanged; a change of a formula or of a branch condition does not. *)
From Coq Require Import ZArith List Bool Lia QArith Qcanon Arith.
From SG Require Import Base.QcUtil Base.PyLib Base.PyNum Model.Trap Proofs.TrapBasics Proofs.Trap Proofs.TrapMod Proofs.PyNumFacts Gen.GridGen.
Import ListNotations.
Open Scope Z_scope.
Local Arguments Z.add : simpl never.
Local Arguments Z.mul : simpl never.
Local Arguments Z.sub : simpl never.
Local Arguments Z.of_nat : simpl never.
Local Arguments Z.to_nat : simpl never.
Local Arguments Z.eqb : simpl never.
Local Arguments Z.leb : simpl never.
Local Arguments Z.ltb : simpl never.
Local Arguments Z.gtb : simpl never.
Local Arguments Z.geb : simpl never.

Ltac py_step := cbn [bindE bindF bindO run_flow py_assert fst snd andb negb].

(* x[i] / w[i] = v inside the bounds: the index is any integer expression that lia can place inside the list *)
Ltac idx_norm :=
  repeat match goal with
  | |- context [Z.to_nat (Z.of_nat ?k)] => rewrite (Nat2Z.id k)
  | |- context [Z.to_nat (Z.of_nat ?k + ?c)] => replace (Z.to_nat (Z.of_nat k + c)) with (k + Z.to_nat c)%nat by lia
  | |- context [Z.to_nat (Z.of_nat ?k - ?c)] => replace (Z.to_nat (Z.of_nat k - c)) with (k - Z.to_nat c)%nat by lia
  end;
  change (Z.to_nat 0) with 0%nat; change (Z.to_nat 1) with 1%nat; change (Z.to_nat 2) with 2%nat; change (Z.to_nat 3) with 3%nat.
Ltac in_bounds := cbn [length]; rewrite ?list_set_length, ?map_length, ?seq_length, ?repeat_length; cbn [length]; lia.
Ltac get_item :=
  match goal with
  | |- context [py_getitem ?l ?i] => rewrite (py_getitem_at l i (Z.to_nat i) 0%Qc) by in_bounds
  end; cbn [bindE].
Ltac set_item :=
  match goal with
  | |- context [py_setitem ?l (-1) ?v] => rewrite (py_setitem_last l v) by in_bounds
  | |- context [py_setitem ?l ?i ?v] => rewrite (py_setitem_at l i (Z.to_nat i) v) by in_bounds
  end; cbn [bindE].
Ltac items := repeat (progress (repeat (first [get_item | set_item]); cbn [bindF bindE])); idx_norm;
  rewrite ?list_set_twice; repeat rewrite list_set_nth_same by in_bounds.

(* decide every integer test of the goal that lia can decide from the context *)
Ltac decide_tests :=
  repeat match goal with
  | |- context [(?a =? ?b)%Z] =>
      first [ replace (a =? b)%Z with true by (symmetry; apply Z.eqb_eq; lia)
            | replace (a =? b)%Z with false by (symmetry; apply Z.eqb_neq; lia) ]
  | |- context [(?a <? ?b)%Z] =>
      first [ replace (a <? b)%Z with true by (symmetry; apply Z.ltb_lt; lia)
            | replace (a <? b)%Z with false by (symmetry; apply Z.ltb_ge; lia) ]
  | |- context [(?a <=? ?b)%Z] =>
      first [ replace (a <=? b)%Z with true by (symmetry; apply Z.leb_le; lia)
            | replace (a <=? b)%Z with false by (symmetry; apply Z.leb_gt; lia) ]
  | |- context [(?a >? ?b)%Z] => rewrite (Z.gtb_ltb a b)
  | |- context [(?a >=? ?b)%Z] => rewrite (Z.geb_leb a b)
  | |- context [(?a =? ?b)%nat] =>
      first [ replace (a =? b)%nat with true by (symmetry; apply Nat.eqb_eq; lia)
            | replace (a =? b)%nat with false by (symmetry; apply Nat.eqb_neq; lia) ]
  | |- context [(?a <? ?b)%nat] =>
      first [ replace (a <? b)%nat with true by (symmetry; apply Nat.ltb_lt; lia)
            | replace (a <? b)%nat with false by (symmetry; apply Nat.ltb_ge; lia) ]
  end.
(* split on one test that is still open *)
Ltac split_test :=
  match goal with
  | |- context [(?a =? ?b)%Z] => destruct (Z.eqb_spec a b)
  | |- context [(?a <? ?b)%Z] => destruct (Z.ltb_spec a b)
  | |- context [(?a <=? ?b)%Z] => destruct (Z.leb_spec a b)
  end.
Ltac exec := repeat (py_step; decide_tests; try split_test).

(* numerals of the generated terms in the form the hand-written model uses *)
Lemma div_two_half (u : Qc) : (u / Qc2 = Qchalf * u)%Qc.
Proof. rewrite half_eq, two_eq. field. qc_const_neq. Qed.
Ltac qnorm :=
  change (py_Qc 1 2) with Qchalf; change (py_Z2Qc 2) with Qc2; change (py_Z2Qc 1) with 1%Qc; change (py_Qc 0 1) with 0%Qc;
  change (py_Z2Qc (-1)) with (- (1))%Qc; change (Q2Qc 0) with 0%Qc; unfold sq; cbn [Qcpower].

Lemma mul_neq0 (u v : Qc) : u <> 0%Qc -> v <> 0%Qc -> (u * v)%Qc <> 0%Qc.
Proof. intros Hu Hv E. destruct (Qcmult_integral _ _ E); contradiction. Qed.

(* goal  nth A x 0 <> nth B x 0  from a hypothesis  nq x p <> nq x q  with A = p, B = q or A = q, B = p *)
Ltac neq_by H :=
  match type of H with
  | nq ?l ?p <> nq ?l ?q =>
    match goal with
    | |- nth ?A l ?d <> nth ?B l ?d =>
      let E := fresh in intro E; apply H; unfold nq;
      first [ transitivity (nth A l d); [f_equal; lia|]; transitivity (nth B l d); [exact E | f_equal; lia]
            | transitivity (nth B l d); [f_equal; lia|]; transitivity (nth A l d); [symmetry; exact E | f_equal; lia] ]
    end
  | ?u <> ?v => first [exact H | let E := fresh in intro E; apply H; symmetry; exact E]
  end.
(* denominators: products of non-zero constants and of differences of grid points that are distinct by a hypothesis *)
Ltac nz_solve :=
  repeat (apply mul_neq0);
  match goal with
  | |- (?u - ?v)%Qc <> 0%Qc => apply sub_neq0;
      match goal with H : _ <> _ |- _ => neq_by H end
  | |- _ => qc_const_neq
  end.
Ltac fdivs :=
  repeat (match goal with
          | |- context [py_fdiv ?u ?v] => rewrite (py_fdiv_some u v) by (qnorm; nz_solve)
          end; cbn [bindE]).
(* equality of two rational expressions *)
Ltac qeq := qnorm; first [ ring | rewrite ?div_two_half; unfold Qcdiv; ring
                         | rewrite ?half_eq, ?two_eq; field; repeat split; nz_solve ].

Lemma gen_cw_plain x a b : GlobalTrapezoidalGrid_compute_weights x a b false = Some (weights_general false x).
Proof.
  unfold GlobalTrapezoidalGrid_compute_weights. rewrite ?np_zeros_len. py_step. rewrite ?np_zeros_len. py_step.
  rewrite ?py_range2_from0, ?py_len_nat.
  set (n := length x).
  rewrite (py_for_pointwise 0%Qc (fun k v => (v + (wl false (nq x) n k + wr false (nq x) n k))%Qc)).
  - py_step. unfold weights_general. f_equal. apply map_ext_in. intros k Hk. apply in_seq in Hk.
    rewrite nth_repeat_0. unfold w_general. cbn [andb]. fold n. ring.
  - intros k w Hk Hw. unfold wl, wr. cbn [andb negb]. exec; items; cbn [negb]; unfold nq; f_equal;
      first [ f_equal; qeq | rewrite <- (list_set_same w k 0%Qc) at 1; f_equal; qeq ].
  - apply repeat_length.
Qed.

Lemma eps_eq : (/ Qcpower (py_Z2Qc 10) 12)%Qc = assert_eps.
Proof. apply Qc_is_canon. vm_compute. reflexivity. Qed.

(* the self-assert at the end of compute_weights: [`if not lo <= s <= hi: print`,] `assert lo <= s <= hi`, `return weights` *)
Ltac tail_tac W a b :=
  rewrite ?py_fsum_sumQ, ?py_slice_1_m1; rewrite ?eps_eq; change (py_Z2Qc 1) with 1%Qc;
  change (removelast (tl W)) with (strip W);
  change (Qc_leb ((b - a) * (1 - assert_eps)) (sumQ (strip W)) && Qc_leb (sumQ (strip W)) ((b - a) * (1 + assert_eps)))%Qc
    with (mod_assert_ok W a b);
  destruct (mod_assert_ok W a b); cbn [negb bindF bindE py_assert run_flow]; try reflexivity.

(* i-th entry of a list built by item assignments on top of a comprehension *)
Ltac peel_list_set i :=
  repeat match goal with
  | |- context [nth i (list_set ?l ?k ?v) ?d] =>
      destruct (Nat.eq_dec k i) as [?E|?N];
      [ try (rewrite <- E in *; clear E); rewrite (list_set_nth_same l) by in_bounds
      | rewrite (list_set_nth_other l k i v d) by assumption ]
  end.

(* one iteration of the general loop (modified basis): body k w = Nxt (w with cell k increased by wl + wr) *)
Ltac iteration_ok w k :=
  unfold wl, wr; cbn [andb negb]; exec; items; cbn [negb]; unfold nq;
  repeat (progress (fdivs; items));
  cbn [bindF]; f_equal;
  first [ f_equal; qeq | rewrite <- (list_set_same w k 0%Qc) at 1; f_equal; qeq ].

Lemma gen_cw_mod_ge5 x a b : (5 <= length x)%nat ->
  nq x 1 <> nq x 2 -> nq x (length x - 3) <> nq x (length x - 2) ->
  GlobalTrapezoidalGrid_compute_weights x a b true = compute_weights x a b true.
Proof.
  intros Hn5 H12 Hn32.
  unfold GlobalTrapezoidalGrid_compute_weights. rewrite ?np_zeros_len. py_step. rewrite ?np_zeros_len. py_step.
  rewrite ?py_range2_from0, ?py_len_nat.
  set (n := length x) in *. decide_tests. py_step.
  rewrite (py_for_pointwise 0%Qc (fun k v => (v + (wl true (nq x) n k + wr true (nq x) n k))%Qc)).
  3: apply repeat_length.
  2: { intros k w Hk Hw. iteration_ok w k. }
  cbn [bindF bindE]. items.
  match goal with |- context [Ret ?W] => assert (EW : W = weights_general true x); [|rewrite !EW] end.
  { unfold weights_general. fold n.
    match goal with |- ?L = _ => apply (nth_ext L _ 0%Qc (w_general true (nq x) n 0%nat)) end.
    - rewrite ?list_set_length, !map_length, !seq_length. reflexivity.
    - rewrite ?list_set_length, map_length, seq_length. intros i Hi.
      rewrite (map_nth (w_general true (nq x) n)), seq_nth by lia. cbn [Nat.add]. unfold w_general. cbn [andb].
      peel_list_set i; decide_tests; rewrite ?orb_true_r; cbn [orb]; try reflexivity.
      match goal with |- nth i (map ?F _) _ = _ =>
        rewrite (nth_indep _ 0%Qc (F 0%nat)) by (rewrite map_length, seq_length; lia); rewrite (map_nth F) end.
      rewrite seq_nth by lia. cbn [Nat.add]. rewrite nth_repeat_0. ring. }
  clear EW. unfold compute_weights, weights_raw. fold n. cbn [andb]. decide_tests.
  tail_tac (weights_general true x) a b.
Qed.

Lemma gen_cw_mod_0 a b : GlobalTrapezoidalGrid_compute_weights [] a b true = None.
Proof. vm_compute. reflexivity. Qed.

Lemma gen_cw_mod_2 x0 x1 a b : GlobalTrapezoidalGrid_compute_weights [x0; x1] a b true = None.
Proof. vm_compute. reflexivity. Qed.

Lemma gen_cw_mod_3 x0 x1 x2 a b :
  GlobalTrapezoidalGrid_compute_weights [x0; x1; x2] a b true = compute_weights [x0; x1; x2] a b true.
Proof.
  unfold GlobalTrapezoidalGrid_compute_weights. rewrite ?np_zeros_len. py_step. rewrite ?np_zeros_len. py_step.
  change (py_len [x0; x1; x2]) with 3. decide_tests. cbn [length repeat]. py_step. items. cbn [list_set].
  unfold compute_weights, weights_raw. cbn [length andb Nat.ltb Nat.leb Nat.eqb].
  change (Q2Qc 0) with 0%Qc.
  tail_tac [0%Qc; (b - a)%Qc; 0%Qc] a b.
Qed.

Lemma gen_cw_mod_4 x0 x1 x2 x3 a b : x1 <> x2 ->
  GlobalTrapezoidalGrid_compute_weights [x0; x1; x2; x3] a b true = compute_weights [x0; x1; x2; x3] a b true.
Proof.
  intros H. unfold GlobalTrapezoidalGrid_compute_weights. rewrite ?np_zeros_len. py_step. rewrite ?np_zeros_len. py_step.
  change (py_len [x0; x1; x2; x3]) with 4. decide_tests. cbn [length repeat]. py_step.
  repeat (progress (items; cbn [nth list_set]; fdivs)).
  unfold compute_weights, weights_raw. cbn [length andb Nat.ltb Nat.leb Nat.eqb].
  change (Q2Qc 0) with 0%Qc.
  match goal with |- context [Ret ?W] => assert (EW : W = [0; - w4_2 [x0; x1; x2; x3] a b + b - a; w4_2 [x0; x1; x2; x3] a b; 0]%Qc); [|rewrite !EW] end.
  { unfold w4_2, nq. cbn [nth]. f_equal. f_equal; [|f_equal]; qeq. }
  tail_tac [0; - w4_2 [x0; x1; x2; x3] a b + b - a; w4_2 [x0; x1; x2; x3] a b; 0]%Qc a b.
Qed.

(* ------------------------------------------------------------------------------------------------------------------
   The other direction: where the precondition of the equivalence fails the Python raises (ZeroDivisionError; inf/nan for
   numpy floats) - the generated function yields no result. *)
(* a quotient whose denominator is 2 * (u - v) with u = v *)
Ltac fdiv_zero :=
  match goal with
  | |- context [py_fdiv ?u ?v] =>
      replace v with 0%Qc by (qnorm; unfold nq in *; cbn [Nat.add Nat.sub] in *;
                              repeat match goal with E : nth _ _ _ = nth _ _ _ |- _ => (rewrite E || rewrite <- E); clear E end; ring)
  end; rewrite py_fdiv_zero; cbn [bindE bindF].

Lemma gen_cw_mod_4_div0 x0 x1 x3 a b : GlobalTrapezoidalGrid_compute_weights [x0; x1; x1; x3] a b true = None.
Proof.
  unfold GlobalTrapezoidalGrid_compute_weights. rewrite ?np_zeros_len. py_step. rewrite ?np_zeros_len. py_step.
  change (py_len [x0; x1; x1; x3]) with 4. decide_tests. cbn [length repeat]. py_step.
  repeat (progress (items; cbn [nth list_set])).
  match goal with |- context [py_fdiv ?u ?v] => replace v with 0%Qc by ring end. rewrite py_fdiv_zero. reflexivity.
Qed.

Lemma gen_cw_mod_ge5_div0_left x a b : (5 <= length x)%nat -> nq x 1 = nq x 2 ->
  GlobalTrapezoidalGrid_compute_weights x a b true = None.
Proof.
  intros Hn5 E12.
  unfold GlobalTrapezoidalGrid_compute_weights. rewrite ?np_zeros_len. py_step. rewrite ?np_zeros_len. py_step.
  rewrite ?py_range2_from0, ?py_len_nat.
  set (n := length x) in *. decide_tests. py_step.
  rewrite (py_for_pointwise_then_fail 0%Qc (fun k v => (v + (wl true (nq x) n k + wr true (nq x) n k))%Qc) n 1).
  - reflexivity.
  - lia.
  - intros k w Hk Hw. iteration_ok w k.
  - intros w Hw. exec; items; cbn [negb Nat.add Nat.sub]; unfold nq in *.
    all: fdiv_zero; reflexivity.
  - apply repeat_length.
Qed.

Lemma gen_cw_mod_ge5_div0_right x a b : (5 <= length x)%nat -> nq x 1 <> nq x 2 ->
  nq x (length x - 3) = nq x (length x - 2) ->
  GlobalTrapezoidalGrid_compute_weights x a b true = None.
Proof.
  intros Hn5 H12 En.
  unfold GlobalTrapezoidalGrid_compute_weights. rewrite ?np_zeros_len. py_step. rewrite ?np_zeros_len. py_step.
  rewrite ?py_range2_from0, ?py_len_nat.
  set (n := length x) in *. decide_tests. py_step.
  rewrite (py_for_pointwise_then_fail 0%Qc (fun k v => (v + (wl true (nq x) n k + wr true (nq x) n k))%Qc) n (n - 3)).
  - reflexivity.
  - lia.
  - intros k w Hk Hw. iteration_ok w k.
  - intros w Hw.
    assert (En' : nth (n - 3 + 1) x 0%Qc = nth (n - 3) x 0%Qc).
    { unfold nq in En. rewrite En. f_equal. lia. }
    exec; items; cbn [negb]; unfold nq; repeat (progress (fdivs; items)).
    all: match goal with
         | |- context [py_fdiv ?u ?v] => replace v with 0%Qc by (qnorm; rewrite En'; ring)
         end; rewrite py_fdiv_zero; reflexivity.
  - apply repeat_length.
Qed.

(* generated compute_weights = None exactly where the equivalence theorem has its division precondition *)
Theorem gen_compute_weights_div0 x a b : (4 <= length x)%nat ->
  nq x 1 = nq x 2 \/ nq x (length x - 3) = nq x (length x - 2) ->
  GlobalTrapezoidalGrid_compute_weights x a b true = None.
Proof.
  intros H4 H. destruct x as [|x0 [|x1 [|x2 [|x3 [|x4 r]]]]]; cbn [length] in H4; try lia.
  - assert (E : x1 = x2) by (destruct H as [H|H]; exact H). subst x2. apply gen_cw_mod_4_div0.
  - destruct (Qc_eq_dec (nq (x0 :: x1 :: x2 :: x3 :: x4 :: r) 1) (nq (x0 :: x1 :: x2 :: x3 :: x4 :: r) 2)) as [E|N].
    + apply gen_cw_mod_ge5_div0_left; [cbn [length]; lia | exact E].
    + destruct H as [H|H]; [contradiction|]. apply gen_cw_mod_ge5_div0_right; [cbn [length]; lia | exact N | exact H].
Qed.

(* one point, modified basis: the loop does nothing, both ends are zeroed, the self-assert compares b - a with 0 *)
Lemma gen_cw_mod_1 x0 a b :
  GlobalTrapezoidalGrid_compute_weights [x0] a b true = if mod_assert_ok [0%Qc] a b then Some [0%Qc] else None.
Proof.
  unfold GlobalTrapezoidalGrid_compute_weights. rewrite ?np_zeros_len. py_step. rewrite ?np_zeros_len. py_step.
  change (py_len [x0]) with 1. decide_tests. cbn [length repeat]. py_step.
  rewrite ?py_range2_from0. change (py_range 1) with [0]. cbn [py_for]. decide_tests. py_step.
  items. cbn [list_set length Nat.sub]. change (py_Qc 0 1) with 0%Qc.
  tail_tac [0%Qc] a b.
Qed.

Lemma mod_assert_one_point a b : mod_assert_ok [0%Qc] a b = true <-> a = b.
Proof.
  unfold mod_assert_ok, strip. cbn [tl removelast sumQ]. rewrite andb_true_iff, !Qc_leb_le.
  assert (P1 : (0 < 1 - assert_eps)%Qc) by (apply Qc_ltb_lt; vm_compute; reflexivity).
  assert (P2 : (0 < 1 + assert_eps)%Qc) by (apply Qc_ltb_lt; vm_compute; reflexivity).
  revert P1 P2. generalize (1 - assert_eps)%Qc (1 + assert_eps)%Qc. intros u v P1 P2. split.
  - intros [L1 L2]. apply Qcle_antisym.
    + apply Qcnot_lt_le. intro Hlt. apply (Qcle_not_lt _ _ L2).
      replace 0%Qc with (0 * v)%Qc by ring. apply Qcmult_lt_compat_r; [exact P2|].
      apply Qclt_minus_iff in Hlt. apply Qclt_minus_iff. replace (0 + - (b - a))%Qc with (a + - b)%Qc by ring. exact Hlt.
    + apply Qcnot_lt_le. intro Hlt. apply (Qcle_not_lt _ _ L1).
      replace 0%Qc with (0 * u)%Qc by ring. apply Qcmult_lt_compat_r; [exact P1|].
      apply Qclt_minus_iff in Hlt. apply Qclt_minus_iff. replace (b - a + - 0)%Qc with (b + - a)%Qc by ring. exact Hlt.
  - intros ->. replace (b - b)%Qc with 0%Qc by ring. rewrite !Qcmult_0_l. split; apply Qcle_refl.
Qed.

(* ------------------------------------------------------------------------------------------------------------------
   MAIN THEOREM: the function generated from GlobalTrapezoidalGrid.compute_weights IS the hand-written model, for all
   grids, bounds and both bases.  Preconditions: exactly where the Python divides by zero (two coinciding inner neighbours
   next to a boundary, modified basis; ZeroDivisionError / inf,nan in numpy) while the total model divides by 0 = 0, and
   the documented deviation of the model for the degenerate one-point call with a = b. *)
Theorem gen_compute_weights_eq x a b mb :
  (mb = true -> (4 <= length x)%nat -> nq x 1 <> nq x 2 /\ nq x (length x - 3) <> nq x (length x - 2)) ->
  ~ (mb = true /\ length x = 1%nat /\ a = b) ->
  GlobalTrapezoidalGrid_compute_weights x a b mb = compute_weights x a b mb.
Proof.
  intros Hd Hdeg. destruct mb.
  - destruct x as [|x0 [|x1 [|x2 [|x3 [|x4 r]]]]].
    + apply gen_cw_mod_0.
    + rewrite gen_cw_mod_1. destruct (mod_assert_ok [0%Qc] a b) eqn:E; [|reflexivity].
      exfalso. apply Hdeg. split; [reflexivity|]. split; [reflexivity|]. apply mod_assert_one_point. exact E.
    + apply gen_cw_mod_2.
    + apply gen_cw_mod_3.
    + apply gen_cw_mod_4. exact (proj1 (Hd eq_refl ltac:(cbn [length]; lia))).
    + destruct (Hd eq_refl ltac:(cbn [length]; lia)) as [H1 H2]. apply gen_cw_mod_ge5; [cbn [length]; lia|exact H1|exact H2].
  - rewrite gen_cw_plain. reflexivity.
Qed.

(* the degenerate call: Python returns [0.0], the hand-written model None (the deviation documented in Model/Trap.v) *)
Theorem gen_compute_weights_degenerate x0 a : GlobalTrapezoidalGrid_compute_weights [x0] a a true = Some [0%Qc].
Proof.
  rewrite gen_cw_mod_1. replace (mod_assert_ok [0%Qc] a a) with true; [reflexivity|].
  symmetry. apply mod_assert_one_point. reflexivity.
Qed.

(* on every strictly increasing grid (every refinement-tree grid) no precondition is left *)
Theorem gen_compute_weights_increasing x a b mb :
  strictly_increasing x -> length x <> 1%nat ->
  GlobalTrapezoidalGrid_compute_weights x a b mb = compute_weights x a b mb.
Proof.
  intros Hs Hl. apply gen_compute_weights_eq.
  - intros _ H4. split; intro E.
    + apply (Qclt_not_eq _ _ (strictly_increasing_step x 1 Hs ltac:(lia))). exact E.
    + pose proof (strictly_increasing_step x (length x - 3) Hs ltac:(lia)) as L.
      replace (S (length x - 3)) with (length x - 2)%nat in L by lia. apply (Qclt_not_eq _ _ L). exact E.
  - intros [_ [H _]]. contradiction.
Qed.

(* the method GlobalTrapezoidalGrid.compute_1D_quad_weights (self.modified_basis is a parameter; d and the levels are ignored) *)
Theorem gen_compute_1D_quad_weights_eq mb x a b d lv :
  GlobalTrapezoidalGrid_compute_1D_quad_weights mb x a b d lv = GlobalTrapezoidalGrid_compute_weights x a b mb.
Proof.
  unfold GlobalTrapezoidalGrid_compute_1D_quad_weights.
  destruct (GlobalTrapezoidalGrid_compute_weights x a b mb); reflexivity.
Qed.

(* ------------------------------------------------------------------------------------------------------------------
   The C09 statements for the GENERATED definitions (what the code says now), via the equivalence. *)
Lemma gen_plain_value x a b : GlobalTrapezoidalGrid_compute_weights x a b false = Some (weights_raw false x a b).
Proof. rewrite gen_cw_plain. reflexivity. Qed.

Theorem gen_trap_is_pl_integral x v a b w : length v = length x ->
  GlobalTrapezoidalGrid_compute_weights x a b false = Some w ->
  dotQ w v = pl_int (nq x) (nq v) 0 (length x - 1).
Proof. intros Hl E. rewrite gen_plain_value in E. injection E as <-. apply trap_is_pl_integral. exact Hl. Qed.

Theorem gen_trap_sum x a b w :
  GlobalTrapezoidalGrid_compute_weights x a b false = Some w -> sumQ w = (nq x (length x - 1) - nq x 0)%Qc.
Proof. intros E. rewrite gen_plain_value in E. injection E as <-. apply trap_sum. Qed.

Theorem gen_trap_linear_exact x a b alpha beta w :
  GlobalTrapezoidalGrid_compute_weights x a b false = Some w ->
  dotQ w (map (fun t => alpha * t + beta)%Qc x) = lin_int alpha beta (nq x 0) (nq x (length x - 1)).
Proof. intros E. rewrite gen_plain_value in E. injection E as <-. apply trap_linear_exact. Qed.

Theorem gen_trap_nonneg x a b w q : sorted_le x = true ->
  GlobalTrapezoidalGrid_compute_weights x a b false = Some w -> In q w -> (0 <= q)%Qc.
Proof. intros Hs E. rewrite gen_plain_value in E. injection E as <-. apply trap_nonneg. exact Hs. Qed.

(* modified basis: on every strictly increasing grid x_0 = a < ... < x_{n-1} = b with n >= 3 points the generated function
   raises nothing (in particular its self-assert does not fire) and returns the weights of the extrapolated interpolant *)
Theorem gen_trap_mod_returns x a b :
  strictly_increasing x -> (3 <= length x)%nat -> nq x 0 = a -> nq x (length x - 1) = b ->
  GlobalTrapezoidalGrid_compute_weights x a b true = Some (weights_raw true x a b).
Proof.
  intros Hs H3 Ha Hb. rewrite gen_compute_weights_increasing by (try exact Hs; lia).
  apply trap_mod_assert_never_fails; assumption.
Qed.

Theorem gen_trap_mod_is_extrapolated_integral x v a b :
  strictly_increasing x -> (3 <= length x)%nat -> length v = length x -> nq x 0 = a -> nq x (length x - 1) = b ->
  exists w, GlobalTrapezoidalGrid_compute_weights x a b true = Some w /\
            dotQ w v = mod_int (nq x) (nq v) (length x) a b /\ sumQ w = (b - a)%Qc.
Proof.
  intros Hs H3 Hl Ha Hb. exists (weights_raw true x a b). split; [apply gen_trap_mod_returns; assumption|]. split.
  - apply trap_mod_is_extrapolated_integral; assumption.
  - apply trap_mod_sum; assumption.
Qed.

Theorem gen_trap_mod_linear_exact x a b alpha beta :
  strictly_increasing x -> (4 <= length x)%nat -> nq x 0 = a -> nq x (length x - 1) = b ->
  exists w, GlobalTrapezoidalGrid_compute_weights x a b true = Some w /\
            dotQ w (map (fun t => alpha * t + beta)%Qc x) = lin_int alpha beta a b.
Proof.
  intros Hs H4 Ha Hb. exists (weights_raw true x a b). split; [apply gen_trap_mod_returns; try assumption; lia|].
  apply trap_mod_linear_exact; assumption.
Qed.
