(* Extend-split, coarsening version 0: what coarsen_grid + the per-area dictionary levelvec_dict compute, for ALL
   dimensions, levels and coarsening values.
   Part 1 (any dimension, any coarsening value): the dictionary left behind by a pass of coarsen_grid over a list of
     level vectors is the "first occurrence" map  key -> first level vector with that key  (agrees / find), the answers of
     a pass are a closed-form function of the level vectors seen before (spec_all), and a further pass over the same
     scheme with the dictionary left behind returns the same answers (spec_all_stable).
   Part 2 (d >= 2, 0 <= c <= lmax - lmin): the local combination of an area with coarsening value c is a permutation
     of the (shifted) standard combination scheme of level lmax - c; hence it satisfies inclusion-exclusion on its
     downward closure and the verified checker valid_local_combi accepts it. *)
From Coq Require Import ZArith List Bool QArith Qcanon Lia Permutation.
From SG Require Import Base.QcUtil Model.CombiScheme Model.ExtendSplit Proofs.SchemeBasics Proofs.SchemeIE
     Proofs.SchemeInv Proofs.SchemeClosedForm Proofs.ESCombi.
Import ListNotations.
Open Scope Z_scope.
Local Arguments Z.add : simpl never.
Local Arguments Z.sub : simpl never.
Local Arguments Z.mul : simpl never.
Local Arguments Z.leb : simpl never.
Local Arguments Z.ltb : simpl never.
Local Arguments Z.eqb : simpl never.
Local Arguments Z.max : simpl never.
Local Arguments Z.of_nat : simpl never.

(* ---------------------------------------------------------------- lists: maximum, first maximum *)

Lemma fold_max_ge h t : h <= fold_right Z.max h t /\ forall x, In x t -> x <= fold_right Z.max h t.
Proof.
  induction t as [|y t [IH1 IH2]]; simpl; [split; [lia | intros x []]|].
  split; [lia|]. intros x [E | Hx]; [subst; lia | specialize (IH2 x Hx); lia].
Qed.

Lemma fold_max_in h t : fold_right Z.max h t = h \/ In (fold_right Z.max h t) t.
Proof.
  induction t as [|y t IH]; simpl; [left; reflexivity|].
  destruct (Z.max_spec y (fold_right Z.max h t)) as [[_ E] | [_ E]]; rewrite E.
  - destruct IH as [IH | IH]; [left; exact IH | right; right; exact IH].
  - right. left. reflexivity.
Qed.

Lemma maxl_ge t x : In x t -> x <= maxl t.
Proof. intro H. unfold maxl. apply (proj2 (fold_max_ge (hd 0 t) t)). exact H. Qed.

Lemma maxl_in t : t <> [] -> In (maxl t) t.
Proof.
  destruct t as [|y t]; [congruence|]. intros _. unfold maxl. cbn [hd].
  destruct (fold_max_in y (y :: t)) as [E | H]; [rewrite E; left; reflexivity | exact H].
Qed.

Lemma maxl_char t M : In M t -> (forall x, In x t -> x <= M) -> maxl t = M.
Proof.
  intros HM Hle. assert (Hne : t <> []) by (destruct t; [destruct HM | congruence]).
  pose proof (maxl_in t Hne) as H1. pose proof (maxl_ge t M HM) as H2. specialize (Hle _ H1). lia.
Qed.

Lemma first_split (m : Z) t : In m t -> exists pre post, t = pre ++ m :: post /\ ~ In m pre.
Proof.
  induction t as [|y t IH]; [intros []|]. intro H.
  destruct (Z.eq_dec y m) as [E | N].
  - subst y. exists [], t. split; [reflexivity | intros []].
  - destruct H as [E | H]; [congruence|]. destruct (IH H) as [pre [post [E Hn]]].
    exists (y :: pre), post. split; [rewrite E; reflexivity|]. intros [E' | H']; [congruence | exact (Hn H')].
Qed.

Lemma dec_first_split m delta pre post : ~ In m pre -> dec_first m delta (pre ++ m :: post) = pre ++ (m - delta) :: post.
Proof.
  induction pre as [|y pre IH]; intro H; simpl.
  - rewrite Z.eqb_refl. reflexivity.
  - destruct (Z.eqb_spec y m) as [E | N]; [exfalso; apply H; left; exact E|].
    rewrite IH; [reflexivity|]. intro H'. apply H. right. exact H'.
Qed.

Lemma remove_first_split m pre post : ~ In m pre -> remove_first m (pre ++ m :: post) = pre ++ post.
Proof.
  induction pre as [|y pre IH]; intro H; simpl.
  - rewrite Z.eqb_refl. reflexivity.
  - destruct (Z.eqb_spec y m) as [E | N]; [exfalso; apply H; left; exact E|].
    rewrite IH; [reflexivity|]. intro H'. apply H. right. exact H'.
Qed.

Lemma sumZ_split pre (x : Z) post : sumZ (pre ++ x :: post) = sumZ pre + x + sumZ post.
Proof. rewrite sumZ_app. rewrite sumZ_cons. lia. Qed.

(* the shape of a level vector around its first maximum *)
Lemma max_split t : t <> [] -> exists pre post, t = pre ++ maxl t :: post /\ ~ In (maxl t) pre /\
  (forall x, In x pre -> x < maxl t) /\ (forall x, In x post -> x <= maxl t).
Proof.
  intro Hne. destruct (first_split (maxl t) t (maxl_in t Hne)) as [pre [post [E Hn]]].
  exists pre, post. split; [exact E | split; [exact Hn | split]].
  - intros x Hx. assert (x <= maxl t) by (apply maxl_ge; rewrite E; apply in_or_app; left; exact Hx).
    assert (x <> maxl t) by (intro E'; subst x; exact (Hn Hx)). lia.
  - intros x Hx. apply maxl_ge. rewrite E. apply in_or_app. right. right. exact Hx.
Qed.

(* ---------------------------------------------------------------- dictionaries *)

Lemma dict_get_set_eq k v D : dict_get k (dict_set k v D) = Some v.
Proof.
  induction D as [|[k1 v1] D IH]; simpl.
  - rewrite lv_eqb_refl. reflexivity.
  - destruct (lv_eqb k k1) eqn:E; simpl; rewrite E; [reflexivity | exact IH].
Qed.

Lemma dict_get_set_neq k k' v D : k' <> k -> dict_get k' (dict_set k v D) = dict_get k' D.
Proof.
  intro N. induction D as [|[k1 v1] D IH]; simpl.
  - destruct (lv_eqb k' k) eqn:E; [apply lv_eqb_eq in E; congruence | reflexivity].
  - destruct (lv_eqb k k1) eqn:E; simpl.
    + apply lv_eqb_eq in E. subst k1. destruct (lv_eqb k' k) eqn:E'; [apply lv_eqb_eq in E'; congruence | reflexivity].
    + destruct (lv_eqb k' k1); [reflexivity | exact IH].
Qed.

Lemma find_app {A} (f : A -> bool) a b : find f (a ++ b) = match find f a with Some x => Some x | None => find f b end.
Proof. induction a as [|x a IH]; simpl; [reflexivity|]. destruct (f x); [reflexivity | exact IH]. Qed.

Lemma find_app_idem {A} (f : A -> bool) a : find f (a ++ a) = find f a.
Proof. rewrite find_app. destruct (find f a); reflexivity. Qed.

(* ---------------------------------------------------------------- Part 1: one pass of coarsen_grid (version 0) *)

Section Pass.
Variable cp : cparams.
Hypothesis Hv : cp_version cp = 0.
Variable c : Z.

Definition v0_key (l : lv) : lv := dec_first (maxl l) c l.
Definition v0_G (l : lv) : bool := negb (top_gap l <? c).
Definition v0_pred (t : lv) (l : lv) : bool := v0_G l && lv_eqb (v0_key l) t.

(* the dictionary maps every coarsened level vector to the FIRST level vector seen that produced it *)
Definition agrees (D : ldict) (P : list lv) : Prop := forall t, dict_get t D = find (v0_pred t) P.

Lemma agrees_nil : agrees [] [].
Proof. intro t. reflexivity. Qed.

Lemma agrees_double D P : agrees D (P ++ P) <-> agrees D P.
Proof. unfold agrees. split; intros H t; specialize (H t); rewrite find_app_idem in *; exact H. Qed.

Definition v0_firstb (P : list lv) (l : lv) : bool :=
  match find (v0_pred (v0_key l)) P with None => true | Some o => lv_eqb o l end.

Definition spec1 (P : list lv) (l : lv) : lv * bool :=
  if top_gap l <? c then (sub_lmin (cp_lmin cp) (v0_loop (Z.to_nat c) (cp_lmin cp) l), false)
  else (sub_lmin (cp_lmin cp) (v0_key l), v0_firstb P l).

Lemma find_single (t l : lv) : find (v0_pred t) [l] = if v0_pred t l then Some l else None.
Proof. reflexivity. Qed.

Lemma coarsen_grid_v0 D P l : agrees D P ->
  fst (coarsen_grid cp c D l) = spec1 P l /\ agrees (snd (coarsen_grid cp c D l)) (P ++ [l]).
Proof.
  intro HA. unfold coarsen_grid, spec1. rewrite Hv. change (0 =? 0) with true. cbv iota.
  destruct (top_gap l <? c) eqn:EG.
  - split; [reflexivity|]. cbn [snd]. intro t. rewrite find_app, <- (HA t), find_single.
    unfold v0_pred, v0_G. rewrite EG. simpl. destruct (dict_get t D); reflexivity.
  - fold (v0_key l). unfold v0_firstb. rewrite <- (HA (v0_key l)).
    assert (Pl : forall t, v0_pred t l = lv_eqb (v0_key l) t) by (intro t; unfold v0_pred, v0_G; rewrite EG; reflexivity).
    assert (Upd : agrees (dict_set (v0_key l) l D) (P ++ [l]) \/ True) by (right; exact I). clear Upd.
    destruct (dict_get (v0_key l) D) as [o|] eqn:EO.
    + destruct (lv_eqb o l) eqn:Eo.
      * split; [reflexivity|]. cbn [snd]. apply lv_eqb_eq in Eo. subst o. intro t. rewrite find_app, <- (HA t), find_single, Pl.
        destruct (lv_eqb (v0_key l) t) eqn:Et.
        -- apply lv_eqb_eq in Et. subst t. rewrite dict_get_set_eq, EO. reflexivity.
        -- apply lv_eqb_neq in Et. rewrite dict_get_set_neq by congruence. destruct (dict_get t D); reflexivity.
      * split; [reflexivity|]. cbn [snd]. intro t. rewrite find_app, <- (HA t), find_single, Pl.
        destruct (lv_eqb (v0_key l) t) eqn:Et.
        -- apply lv_eqb_eq in Et. subst t. rewrite EO. reflexivity.
        -- destruct (dict_get t D); reflexivity.
    + split; [reflexivity|]. cbn [snd]. intro t. rewrite find_app, <- (HA t), find_single, Pl.
      destruct (lv_eqb (v0_key l) t) eqn:Et.
      * apply lv_eqb_eq in Et. subst t. rewrite dict_get_set_eq, EO. reflexivity.
      * apply lv_eqb_neq in Et. rewrite dict_get_set_neq by congruence. destruct (dict_get t D); reflexivity.
Qed.

Fixpoint spec_all (P : list lv) (sch : list (lv * Z)) : list (lv * Z * (lv * bool)) :=
  match sch with
  | [] => []
  | (l, cf) :: r => (l, cf, spec1 P l) :: spec_all (P ++ [l]) r
  end.

Lemma coarsen_all_v0 : forall sch D P, agrees D P ->
  fst (coarsen_all cp c D sch) = spec_all P sch /\ agrees (snd (coarsen_all cp c D sch)) (P ++ map fst sch).
Proof.
  induction sch as [|[l cf] r IH]; intros D P HA; simpl.
  - split; [reflexivity|]. rewrite app_nil_r. exact HA.
  - destruct (coarsen_grid_v0 D P l HA) as [E1 A1].
    destruct (coarsen_grid cp c D l) as [res dict1]. cbn [fst snd] in E1, A1.
    destruct (IH dict1 (P ++ [l]) A1) as [E2 A2].
    destruct (coarsen_all cp c dict1 r) as [rest dict2]. cbn [fst snd] in E2, A2 |- *.
    split; [rewrite E1, E2; reflexivity|]. rewrite <- app_assoc in A2. exact A2.
Qed.

(* a further pass with the dictionary left behind by a complete pass gives the same answers *)
Lemma spec1_stable pre l post : NoDup (pre ++ l :: post) ->
  spec1 ((pre ++ l :: post) ++ pre) l = spec1 pre l.
Proof.
  intro ND. unfold spec1. destruct (top_gap l <? c) eqn:EG; [reflexivity|]. f_equal.
  unfold v0_firstb. rewrite find_app, find_app. cbn [find].
  assert (Pl : v0_pred (v0_key l) l = true) by (unfold v0_pred, v0_G; rewrite EG, lv_eqb_refl; reflexivity).
  assert (Nin : ~ In l pre).
  { intro H. apply NoDup_remove_2 in ND. apply ND. apply in_or_app. left. exact H. }
  destruct (find (v0_pred (v0_key l)) pre) as [o|] eqn:EF.
  - reflexivity.
  - rewrite Pl. apply lv_eqb_refl.
Qed.

Lemma spec_all_stable : forall sch pre, NoDup (pre ++ map fst sch) ->
  spec_all ((pre ++ map fst sch) ++ pre) sch = spec_all pre sch.
Proof.
  induction sch as [|[l cf] r IH]; intros pre ND; [reflexivity|]. cbn [map fst spec_all] in *.
  rewrite (spec1_stable pre l (map fst r) ND). f_equal.
  specialize (IH (pre ++ [l])). rewrite <- !app_assoc in IH. cbn [app] in IH.
  rewrite <- app_assoc. cbn [app]. rewrite <- app_assoc. apply IH. exact ND.
Qed.

Theorem v0_second_pass D sch : NoDup (map fst sch) -> agrees D (map fst sch) ->
  fst (coarsen_all cp c D sch) = fst (coarsen_all cp c [] sch) /\ agrees (snd (coarsen_all cp c D sch)) (map fst sch).
Proof.
  intros ND HA. destruct (coarsen_all_v0 sch D (map fst sch) HA) as [E1 A1].
  destruct (coarsen_all_v0 sch [] [] agrees_nil) as [E2 _].
  split; [|apply agrees_double; exact A1].
  rewrite E1, E2. pose proof (spec_all_stable sch [] ND) as S. cbn [app] in S. rewrite app_nil_r in S. exact S.
Qed.

Theorem v0_first_pass sch : agrees (snd (coarsen_all cp c [] sch)) (map fst sch).
Proof. exact (proj2 (coarsen_all_v0 sch [] [] agrees_nil)). Qed.

(* ---------------------------------------------------------------- the computed grids of a pass *)

Fixpoint comp (P : list lv) (sch : list (lv * Z)) : list (lv * Z) :=
  match sch with
  | [] => []
  | (l, cf) :: r => (if v0_G l && v0_firstb P l then [(sub_lmin (cp_lmin cp) (v0_key l), cf)] else []) ++ comp (P ++ [l]) r
  end.

Lemma computed_spec_all : forall sch P, computed_grids (spec_all P sch) = comp P sch.
Proof.
  induction sch as [|[l cf] r IH]; intro P; [reflexivity|]. cbn [spec_all comp]. unfold computed_grids in *.
  cbn [filter snd fst]. unfold spec1, v0_G. destruct (top_gap l <? c); cbn [snd negb andb].
  - rewrite IH. reflexivity.
  - destruct (v0_firstb P l); cbn [map fst snd app]; rewrite IH; reflexivity.
Qed.

Lemma sub_lmin_inj lmin a b : sub_lmin lmin a = sub_lmin lmin b -> a = b.
Proof.
  revert b. induction a as [|x a IH]; intros [|y b] E; simpl in E; try discriminate; [reflexivity|].
  injection E as E1 E2. f_equal; [lia | apply IH; exact E2].
Qed.

Lemma comp_member : forall sch P t cf, NoDup (P ++ map fst sch) -> In (t, cf) (comp P sch) ->
  exists l, In (l, cf) sch /\ v0_G l = true /\ t = sub_lmin (cp_lmin cp) (v0_key l) /\ find (v0_pred (v0_key l)) P = None.
Proof.
  induction sch as [|[l0 cf0] r IH]; intros P t cf ND H; [destruct H|]. cbn [comp] in H. apply in_app_or in H.
  destruct H as [H | H].
  - destruct (v0_G l0) eqn:EG; [|destruct H]. cbn [andb] in H. unfold v0_firstb in H.
    destruct (find (v0_pred (v0_key l0)) P) as [o|] eqn:EF.
    + destruct (lv_eqb o l0) eqn:Eo; [|destruct H]. exfalso. apply lv_eqb_eq in Eo. subst o.
      apply find_some in EF. destruct EF as [EF _]. cbn [map fst] in ND. apply NoDup_remove_2 in ND. apply ND.
      apply in_or_app. left. exact EF.
    + destruct H as [E | []]. injection E as E1 E2. subst t cf. exists l0. split; [left; reflexivity|].
      split; [exact EG | split; [reflexivity | exact EF]].
  - cbn [map fst] in ND. assert (ND' : NoDup ((P ++ [l0]) ++ map fst r)) by (rewrite <- app_assoc; exact ND).
    destruct (IH (P ++ [l0]) t cf ND' H) as [l [Hl [G [Et EF]]]]. exists l. split; [right; exact Hl|].
    split; [exact G | split; [exact Et|]]. rewrite find_app in EF. destruct (find (v0_pred (v0_key l)) P); [discriminate | reflexivity].
Qed.

Lemma comp_NoDup_keys : forall sch P, NoDup (P ++ map fst sch) -> NoDup (map fst (comp P sch)).
Proof.
  induction sch as [|[l0 cf0] r IH]; intros P ND; [constructor|]. cbn [comp]. rewrite map_app.
  cbn [map fst] in ND. assert (ND' : NoDup ((P ++ [l0]) ++ map fst r)) by (rewrite <- app_assoc; exact ND).
  specialize (IH (P ++ [l0]) ND').
  destruct (v0_G l0 && v0_firstb P l0) eqn:E; [|exact IH]. cbn [map fst app]. constructor; [|exact IH].
  intro H. apply in_map_iff in H. destruct H as [[t cf] [Et H]]. cbn [fst] in Et. subst t.
  destruct (comp_member r (P ++ [l0]) _ cf ND' H) as [l [_ [_ [Ek EF]]]].
  apply sub_lmin_inj in Ek. rewrite find_app in EF.
  destruct (find (v0_pred (v0_key l)) P); [discriminate|]. cbn [find] in EF.
  apply andb_true_iff in E. destruct E as [EG _].
  unfold v0_pred in EF. rewrite EG, Ek, lv_eqb_refl in EF. discriminate.
Qed.

Lemma comp_complete : forall sch P l cf, In (l, cf) sch -> v0_G l = true -> find (v0_pred (v0_key l)) P = None ->
  exists l' cf', In (l', cf') sch /\ v0_key l' = v0_key l /\ v0_G l' = true /\
                 In (sub_lmin (cp_lmin cp) (v0_key l), cf') (comp P sch).
Proof.
  induction sch as [|[l0 cf0] r IH]; intros P l cf Hin G EF; [destruct Hin|]. cbn [comp].
  destruct (v0_pred (v0_key l) l0) eqn:EP.
  - unfold v0_pred in EP. apply andb_true_iff in EP. destruct EP as [G0 Ek]. apply lv_eqb_eq in Ek.
    exists l0, cf0. split; [left; reflexivity | split; [exact Ek | split; [exact G0|]]].
    apply in_or_app. left. unfold v0_firstb. rewrite Ek, EF, G0. left. reflexivity.
  - destruct Hin as [E | Hin].
    + injection E as E1 E2. subst l0 cf0. unfold v0_pred in EP. rewrite G, lv_eqb_refl in EP. discriminate.
    + assert (EF' : find (v0_pred (v0_key l)) (P ++ [l0]) = None) by (rewrite find_app, EF; cbn [find]; rewrite EP; reflexivity).
      destruct (IH (P ++ [l0]) l cf Hin G EF') as [l' [cf' [H1 [H2 [H3 H4]]]]].
      exists l', cf'. split; [right; exact H1 | split; [exact H2 | split; [exact H3|]]]. apply in_or_app. right. exact H4.
Qed.
End Pass.

(* ---------------------------------------------------------------- facts about the standard scheme *)

Lemma NoDup_fst {A B} (l : list (A * B)) : NoDup l -> (forall k c1 c2, In (k, c1) l -> In (k, c2) l -> c1 = c2) ->
  NoDup (map fst l).
Proof.
  induction l as [|[k v] l IH]; intros ND F; [constructor|]. inversion ND as [|? ? Hn ND']; subst. cbn [map fst].
  constructor.
  - intro H. apply in_map_iff in H. destruct H as [[k' v'] [E H]]. cbn [fst] in E. subst k'.
    assert (v' = v) by (apply (F k v' v); [right; exact H | left; reflexivity]). subst v'. exact (Hn H).
  - apply IH; [exact ND'|]. intros k0 c1 c2 H1 H2. apply (F k0); right; assumption.
Qed.

Lemma std_keys_NoDup dim lmin lmax : NoDup (map fst (combi_scheme_standard dim lmin lmax)).
Proof.
  destruct dim as [|n].
  - unfold combi_scheme_standard. replace (Z.to_nat (Z.min (Z.of_nat 0) (lmax - lmin + 1))) with 0%nat by lia. constructor.
  - apply NoDup_fst; [apply std_NoDup|]. intros k c1 c2 H1 H2.
    apply std_member in H1. apply std_member in H2.
    destruct H1 as [q1 [_ [_ [_ [S1 E1]]]]]. destruct H2 as [q2 [_ [_ [_ [S2 E2]]]]].
    assert (q1 = q2) by lia. subst q2. congruence.
Qed.

Lemma sumZ_perm l l' : Permutation l l' -> sumZ l = sumZ l'.
Proof.
  induction 1 as [|x l l' _ IH|x y l|l l' l'' _ IH1 _ IH2]; try reflexivity.
  - rewrite !sumZ_cons, IH. reflexivity.
  - rewrite !sumZ_cons. lia.
  - congruence.
Qed.

Lemma dominating_sum_perm a b k : Permutation a b -> dominating_sum a k = dominating_sum b k.
Proof. intro H. unfold dominating_sum. apply sumZ_perm. apply Permutation_map. exact H. Qed.

Lemma lv_geb_sum : forall g k, lv_geb g k = true -> sumZ k <= sumZ g.
Proof.
  induction g as [|x g IH]; intros [|y k] H; simpl in H; try discriminate; try (simpl; lia).
  apply andb_true_iff in H. destruct H as [H1 H2]. apply Z.leb_le in H1. specialize (IH k H2). rewrite !sumZ_cons. lia.
Qed.

(* inclusion-exclusion of the closed-form standard scheme, every dimension >= 1 and every lmin <= lmax *)
Theorem std_IE n lmin lmax l : lmin <= lmax -> length l = S n -> Forall (fun x => lmin <= x) l ->
  dominating_sum (combi_scheme_standard (S n) lmin lmax) l =
  if sumZ l <=? lmax - lmin + Z.of_nat (S n) * lmin then 1 else 0.
Proof.
  intros Hle L F. rewrite (dominating_sum_perm _ _ l (std_perm_init n lmin lmax Hle)).
  rewrite coeffs_inclusion_exclusion_gen; [|apply init_idx_NoDup| |exact F].
  2: { intros g Hg. apply (init_idx_In n lmin lmax Hle) in Hg. destruct Hg as [Lg [Fg _]]. split; [congruence | exact Fg]. }
  destruct (mem l _) eqn:E.
  - apply mem_In in E. apply (init_idx_In n lmin lmax Hle) in E. destruct E as [_ [_ E]].
    destruct (Z.leb_spec (sumZ l) (lmax - lmin + Z.of_nat (S n) * lmin)); [reflexivity | lia].
  - apply mem_false in E. destruct (Z.leb_spec (sumZ l) (lmax - lmin + Z.of_nat (S n) * lmin)); [|reflexivity].
    exfalso. apply E. apply (init_idx_In n lmin lmax Hle). split; [exact L | split; [exact F | assumption]].
Qed.

Definition shifted (lmin : Z) (gs : list (lv * Z)) : list (lv * Z) := map (fun kc => (sub_lmin lmin (fst kc), snd kc)) gs.

Lemma lv_geb_sub_lmin lmin : forall g k, lv_geb (sub_lmin lmin g) k = lv_geb g (map (fun x => x + lmin) k).
Proof.
  induction g as [|x g IH]; intros [|y k]; simpl; try reflexivity. rewrite IH. f_equal.
  destruct (Z.leb_spec y (x - lmin)), (Z.leb_spec (y + lmin) x); try reflexivity; lia.
Qed.

Lemma dominating_sum_shifted lmin gs k : dominating_sum (shifted lmin gs) k = dominating_sum gs (map (fun x => x + lmin) k).
Proof.
  unfold dominating_sum, shifted. rewrite map_map. f_equal. apply map_ext. intros [g cf]. cbn [fst snd].
  rewrite lv_geb_sub_lmin. reflexivity.
Qed.

(* ---------------------------------------------------------------- Part 2: the local combination of version 0 *)

Section Valid.
Variables (n : nat) (lmin lmax c base : Z).
Hypothesis Hc : 0 <= c <= lmax - lmin.
Let d := S (S n).
Let cp := mkCP d 0 lmin lmax base.
Let sch := combi_scheme_standard d lmin lmax.

Lemma key_props l : length l = d -> Forall (fun x => lmin <= x) l -> v0_G c l = true ->
  length (v0_key c l) = d /\ Forall (fun x => lmin <= x) (v0_key c l) /\ sumZ (v0_key c l) = sumZ l - c.
Proof.
  intros L F G. assert (Hne : l <> []) by (intro E; subst l; discriminate).
  destruct (max_split l Hne) as [pre [post [E [Hn [Hpre Hpost]]]]].
  unfold v0_key. remember (maxl l) as M eqn:EM.
  assert (EK : dec_first M c l = pre ++ (M - c) :: post) by (rewrite E; apply dec_first_split; exact Hn).
  rewrite EK.
  assert (Lpp : (length pre + length post = S n)%nat).
  { rewrite E in L. rewrite app_length in L. cbn [length] in L. unfold d in L. lia. }
  assert (Hpp : pre ++ post <> []) by (intro E0; apply (f_equal (@length Z)) in E0; rewrite app_length in E0; simpl in E0; lia).
  assert (Fpp : Forall (fun x => lmin <= x) (pre ++ post)).
  { rewrite E in F. apply Forall_app in F. destruct F as [F1 F2]. inversion F2; subst. apply Forall_app. split; assumption. }
  assert (HM : lmin <= M - c).
  { unfold v0_G in G. apply negb_true_iff in G. apply Z.ltb_ge in G. unfold top_gap in G. rewrite <- EM in G.
    rewrite E in G. rewrite (remove_first_split M pre post Hn) in G.
    pose proof (maxl_in _ Hpp) as Hin. rewrite Forall_forall in Fpp. specialize (Fpp _ Hin). lia. }
  split; [|split].
  - rewrite app_length. cbn [length]. unfold d. lia.
  - rewrite E in F. apply Forall_app in F. destruct F as [F1 F2]. inversion F2; subst. apply Forall_app. split; [exact F1|].
    constructor; assumption.
  - rewrite E. rewrite !sumZ_split. lia.
Qed.

Lemma key_preimage t0 : length t0 = d -> exists l, v0_G c l = true /\ v0_key c l = t0 /\ length l = d /\
  sumZ l = sumZ t0 + c /\ (forall lo, Forall (fun x => lo <= x) t0 -> Forall (fun x => lo <= x) l).
Proof.
  intro L. assert (Hne : t0 <> []) by (intro E; subst t0; discriminate).
  destruct (max_split t0 Hne) as [pre [post [E [Hn [Hpre Hpost]]]]]. remember (maxl t0) as m eqn:Em.
  exists (pre ++ (m + c) :: post).
  assert (Lpp : (length pre + length post = S n)%nat).
  { rewrite E in L. rewrite app_length in L. cbn [length] in L. unfold d in L. lia. }
  assert (Hpp : pre ++ post <> []) by (intro E0; apply (f_equal (@length Z)) in E0; rewrite app_length in E0; simpl in E0; lia).
  assert (Hn' : ~ In (m + c) pre) by (intro H; specialize (Hpre _ H); lia).
  assert (HM : maxl (pre ++ (m + c) :: post) = m + c).
  { apply maxl_char; [apply in_or_app; right; left; reflexivity|]. intros x Hx. apply in_app_or in Hx.
    destruct Hx as [Hx | [Hx | Hx]]; [specialize (Hpre _ Hx); lia | lia | specialize (Hpost _ Hx); lia]. }
  split; [|split; [|split; [|split]]].
  - unfold v0_G, top_gap. rewrite HM, (remove_first_split (m + c) pre post Hn'). apply negb_true_iff. apply Z.ltb_ge.
    pose proof (maxl_in _ Hpp) as Hin. apply in_app_or in Hin.
    destruct Hin as [Hin | Hin]; [specialize (Hpre _ Hin) | specialize (Hpost _ Hin)]; lia.
  - unfold v0_key. rewrite HM, (dec_first_split (m + c) c pre post Hn'). rewrite E. f_equal. f_equal. lia.
  - rewrite E in L. rewrite app_length in *. cbn [length] in *. exact L.
  - rewrite E, !sumZ_split. lia.
  - intros lo F. rewrite E in F. apply Forall_app in F. destruct F as [F1 F2]. inversion F2; subst. apply Forall_app.
    split; [exact F1|]. constructor; [lia | assumption].
Qed.

Lemma local_combi_is_comp : local_combi cp c = comp cp c [] sch.
Proof.
  unfold local_combi. change (the_scheme cp) with sch.
  rewrite (proj1 (coarsen_all_v0 cp eq_refl c sch [] [] (agrees_nil c))). apply computed_spec_all.
Qed.

Lemma sch_NoDup : NoDup ([] ++ map fst sch).
Proof. apply std_keys_NoDup. Qed.

(* the local combination of an area with coarsening value c IS the standard combination of level lmax - c
   (relative levels, i.e. minus lmin) *)
Theorem local_combi_v0_perm : Permutation (local_combi cp c) (shifted lmin (combi_scheme_standard d lmin (lmax - c))).
Proof.
  rewrite local_combi_is_comp. apply NoDup_Permutation.
  - apply (NoDup_map_inv fst). apply comp_NoDup_keys. exact sch_NoDup.
  - unfold shifted. apply NoDup_map_inj; [|apply std_NoDup].
    intros [k1 c1] [k2 c2] E. cbn [fst snd] in E. injection E as E1 E2. apply sub_lmin_inj in E1. congruence.
  - intros [t cf]. split.
    + intro H. destruct (comp_member cp c sch [] t cf sch_NoDup H) as [l [Hl [G [Et _]]]]. subst t.
      apply std_member in Hl. destruct Hl as [q [Hq [L [F [Sm Ec]]]]].
      destruct (key_props l L F G) as [Lk [Fk Sk]].
      unfold shifted. apply in_map_iff. exists (v0_key c l, cf). split; [reflexivity|]. apply std_member.
      exists q. pose proof (sumZ_ge_length lmin _ Fk) as Hs. rewrite Lk in Hs. fold d in Sm, Hs |- *.
      split; [lia|]. split; [exact Lk | split; [exact Fk | split; [lia | exact Ec]]].
    + intro H. unfold shifted in H. apply in_map_iff in H. destruct H as [[t0 cf0] [E H]]. cbn [fst snd] in E.
      injection E as E1 E2. subst t cf0. apply std_member in H. destruct H as [q [Hq [L [F [Sm Ec]]]]].
      destruct (key_preimage t0 L) as [l [G [Ek [Ll [Sl Fl]]]]].
      assert (Hl : In (l, cf) sch).
      { apply std_member. exists q. fold d in Hq, Sm |- *. split; [lia|].
        split; [exact Ll | split; [apply Fl; exact F | split; [lia | exact Ec]]]. }
      destruct (comp_complete cp c sch [] l cf Hl G eq_refl) as [l' [cf' [H1 [H2 [H3 H4]]]]].
      rewrite Ek in H4. cbn [cp_lmin cp] in H4.
      assert (cf' = cf); [|subst cf'; exact H4].
      apply std_member in H1. destruct H1 as [q' [Hq' [L' [F' [Sm' Ec']]]]].
      destruct (key_props l' L' F' H3) as [_ [_ Sk']]. rewrite H2, Ek in Sk'.
      assert (q' = q) by lia. subst q'. congruence.
Qed.

Theorem local_combi_v0_wf : grids_wf d (local_combi cp c).
Proof.
  intros g Hg. apply (Permutation_in _ local_combi_v0_perm) in Hg. unfold shifted in Hg. apply in_map_iff in Hg.
  destruct Hg as [[k cf] [E Hk]]. subst g. cbn [fst snd]. apply std_member in Hk.
  destruct Hk as [q [_ [L [F _]]]]. split.
  - unfold sub_lmin. rewrite map_length. exact L.
  - unfold sub_lmin. apply Forall_forall. intros x Hx. apply in_map_iff in Hx. destruct Hx as [y [E Hy]]. subst x.
    rewrite Forall_forall in F. specialize (F y Hy). lia.
Qed.

Theorem local_combi_v0_IE : local_IE d (local_combi cp c).
Proof.
  intros k Lk Pk [g [Hg Dg]].
  rewrite (dominating_sum_perm _ _ k local_combi_v0_perm), dominating_sum_shifted.
  apply (Permutation_in _ local_combi_v0_perm) in Hg. unfold shifted in Hg. apply in_map_iff in Hg.
  destruct Hg as [[g0 cf] [E Hg0]]. subst g. cbn [fst] in Dg. rewrite lv_geb_sub_lmin in Dg.
  apply std_member in Hg0. destruct Hg0 as [q [_ [_ [_ [Sm _]]]]]. apply lv_geb_sum in Dg.
  unfold d in *. rewrite std_IE; [| lia | rewrite map_length; exact Lk |].
  - destruct (Z.leb_spec (sumZ (map (fun x => x + lmin) k)) (lmax - c - lmin + Z.of_nat (S (S n)) * lmin)); [reflexivity|].
    lia.
  - apply Forall_forall. intros x Hx. apply in_map_iff in Hx. destruct Hx as [y [E Hy]]. subst x.
    rewrite Forall_forall in Pk. specialize (Pk y Hy). lia.
Qed.
End Valid.

(* ---------------------------------------------------------------- completeness of the verified checker *)

Lemma cross_In_inv : forall rs k, In k (cross rs) -> Forall2 (fun x r => In x r) k rs.
Proof.
  induction rs as [|r rs IH]; intros k H; simpl in H.
  - destruct H as [E | []]. subst k. constructor.
  - apply in_flat_map in H. destruct H as [x [Hx H]]. apply in_map_iff in H. destruct H as [k' [E Hk']]. subst k.
    constructor; [exact Hx | apply IH; exact Hk'].
Qed.

Theorem valid_local_combi_complete d gs : grids_wf d gs -> local_IE d gs -> valid_local_combi d gs = true.
Proof.
  intros W IE. unfold valid_local_combi. apply andb_true_iff. split.
  - apply forallb_forall. intros g Hg. destruct (W g Hg) as [L F]. apply andb_true_iff. split; [apply Nat.eqb_eq; exact L|].
    apply forallb_forall. intros x Hx. apply Z.leb_le. rewrite Forall_forall in F. apply F. exact Hx.
  - apply forallb_forall. intros k Hk. destruct (dominated gs k) eqn:E; [|reflexivity]. cbn [negb orb].
    apply Z.eqb_eq. apply cross_In_inv in Hk.
    assert (WL : Forall (fun g => length (fst g) = d) gs) by (apply Forall_forall; intros g Hg; apply (W g Hg)).
    apply IE.
    + pose proof (maxes_length d gs WL) as ML. rewrite <- ML. clear -Hk.
      remember (map (fun m => zrange (m + 1)) (maxes d gs)) as rs eqn:Er. revert Er. generalize (maxes d gs).
      induction Hk as [|x r k rs Hx _ IH]; intros ms Er; destruct ms; simpl in Er; try discriminate; [reflexivity|].
      injection Er as E1 E2. simpl. f_equal. apply (IH ms E2).
    + clear -Hk. remember (map (fun m => zrange (m + 1)) (maxes d gs)) as rs eqn:Er. revert Er. generalize (maxes d gs).
      induction Hk as [|x r k rs Hx _ IH]; intros ms Er; [constructor|]. destruct ms as [|m ms]; simpl in Er; [discriminate|].
      injection Er as E1 E2. subst r. apply zrange_In in Hx. constructor; [lia | apply (IH ms E2)].
    + unfold dominated in E. apply existsb_exists in E. destruct E as [g [Hg Dg]]. exists g. split; assumption.
Qed.

(* THE GENERAL THEOREM for version 0: every dimension d >= 2, every lmin <= lmax (any integers), every coarsening value
   0 <= c <= lmax - lmin (all values an area can carry, C07_coarsening_nonneg), every value of the unused parameter base *)
Theorem local_combi_v0_valid n lmin lmax c base : 0 <= c <= lmax - lmin ->
  valid_local_combi (S (S n)) (local_combi (mkCP (S (S n)) 0 lmin lmax base) c) = true.
Proof.
  intro Hc. apply valid_local_combi_complete; [apply local_combi_v0_wf | apply local_combi_v0_IE]; exact Hc.
Qed.
