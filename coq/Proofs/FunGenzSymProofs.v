(* C12 — the symbolic (rational) models of Model/FunGenzSym.v, interpreted with the real exp / Rpower, ARE the real-number
   transcriptions of Proofs/FunGenzSep.v; hence (with the theorems there) their values are the iterated Riemann integrals of
   the functions computed by eval. This ties the transcription theorems to the code: the symbolic models are executable and
   compared with Function.py on every run. *)
From Coq Require Import Reals QArith Qcanon Qreals List Lia Lra.
From Coquelicot Require Import Coquelicot.
From SG Require Import Base.QcUtil Model.FunPoly Model.FunGenz Model.FunGenzSym Proofs.FunPolyProofs Proofs.FunPolyReal
                       Proofs.FunPolyIter Proofs.FunGenzProofs Proofs.FunGenzReal Proofs.FunGenzSep.
Import ListNotations.
Open Scope R_scope.

(* ------------------------------------------------------------------ order and QcR *)
Lemma QcR_le a b : (a <= b)%Qc <-> QcR a <= QcR b.
Proof. unfold QcR, Qcle. split; [apply Qle_Rle | apply Rle_Qle]. Qed.
Lemma QcR_lt a b : (a < b)%Qc <-> QcR a < QcR b.
Proof. unfold QcR, Qclt. split; [apply Qlt_Rlt | apply Rlt_Qlt]. Qed.

Lemma Qc_leb_R a b : Qc_leb a b = true <-> QcR a <= QcR b.
Proof. rewrite Qc_leb_le. apply QcR_le. Qed.
Lemma Qc_ltb_R a b : Qc_ltb a b = true <-> QcR a < QcR b.
Proof. rewrite Qc_ltb_lt. apply QcR_lt. Qed.

Lemma QcR_min a b : QcR (Qc_min a b) = Rmin (QcR a) (QcR b).
Proof.
  unfold Qc_min. destruct (Qc_leb a b) eqn:E.
  - apply Qc_leb_R in E. rewrite Rmin_left by exact E. reflexivity.
  - assert (~ QcR a <= QcR b) by (intro H; apply Qc_leb_R in H; congruence). rewrite Rmin_right by lra. reflexivity.
Qed.

Lemma QcR_abs a : QcR (Qc_abs a) = Rabs (QcR a).
Proof.
  unfold Qc_abs. destruct (Qc_leb 0 a) eqn:E.
  - apply Qc_leb_R in E. rewrite QcR_0 in E. rewrite Rabs_right by lra. reflexivity.
  - assert (~ QcR 0%Qc <= QcR a) by (intro H; apply Qc_leb_R in H; congruence). rewrite QcR_0 in H.
    rewrite QcR_opp, Rabs_left by lra. reflexivity.
Qed.

(* ------------------------------------------------------------------ denotation of the symbolic results *)
Definition atomR (y1 : R) (a : eatom) : R :=
  match a with AExp t => exp (QcR t) | APow x => Rpower (QcR x) y1 | AOne => 1 end.
Fixpoint linR (y1 : R) (l : lin) : R :=
  match l with [] => 0 | (c, a) :: r => QcR c * atomR y1 a + linR y1 r end.
Fixpoint symR (y1 : R) (s : sym) : R :=
  match s with [] => 1 | l :: r => linR y1 l * symR y1 r end.

Lemma linR_app y1 l1 l2 : linR y1 (l1 ++ l2) = linR y1 l1 + linR y1 l2.
Proof. induction l1 as [|[c a] l1 IH]; cbn [app linR]; [ring | rewrite IH; ring]. Qed.

Lemma QcR_1div c : c <> 0%Qc -> QcR (1 / c)%Qc = / QcR c.
Proof. intro H. rewrite QcR_div, QcR_1 by exact H. unfold Rdiv. ring. Qed.

Lemma QcR_neq0' c : c <> 0%Qc -> QcR c <> 0.
Proof.
  intros H E. apply H. apply Qc_is_canon. apply eqR_Qeq. change (QcR c = QcR 0%Qc). rewrite E, QcR_0. reflexivity.
Qed.

(* ================================================================== GenzDiscontinious *)
Definition opt_symR (o : option sym) : R := match o with Some s => symR 1 s | None => 0 end.

Lemma gd_int_sym_vs : forall cs bs a b, length bs = length cs -> length a = length cs -> length b = length cs ->
  List.Forall (fun c => c <> 0%Qc) cs ->
  opt_symR (gd_int_sym cs bs a b) = prodR (gd_vs (map QcR cs) (map QcR bs) (map QcR a) (map QcR b)).
Proof.
  induction cs as [|c cs IH]; intros [|bo bs] [|ai a] [|bi b] Hm Ha Hb Hnz; try discriminate; [reflexivity|].
  inversion Hnz as [|? ? Hc Hnz']; subst.
  cbn [gd_int_sym map gd_vs prodR]. unfold gd_v.
  specialize (IH bs a b ltac:(simpl in *; lia) ltac:(simpl in *; lia) ltac:(simpl in *; lia) Hnz').
  destruct (Qc_leb bo ai) eqn:E.
  - apply Qc_leb_R in E. destruct (Rle_dec (QcR bo) (QcR ai)); [cbn; ring | contradiction].
  - assert (~ QcR bo <= QcR ai) by (intro H; apply Qc_leb_R in H; congruence).
    destruct (Rle_dec (QcR bo) (QcR ai)); [contradiction|].
    destruct (gd_int_sym cs bs a b) as [r|]; cbn [opt_symR] in *.
    + cbn [symR linR atomR]. rewrite <- IH. rewrite QcR_opp, (QcR_1div c Hc), !QcR_mult, !QcR_opp, QcR_min.
      unfold Rdiv. ring.
    + rewrite <- IH. ring.
Qed.

(* the symbolic analytic integral, read with the real exp, is the transcription gd_int *)
Theorem gd_int_sym_correct cs bs a b : length bs = length cs -> length a = length cs -> length b = length cs ->
  List.Forall (fun c => c <> 0%Qc) cs ->
  opt_symR (gd_int_sym cs bs a b) = gd_int (map QcR cs) (map QcR bs) (map QcR a) (map QcR b) 1.
Proof.
  intros Hm Ha Hb Hnz. rewrite gd_int_prod by (rewrite !map_length; assumption).
  rewrite (gd_int_sym_vs cs bs a b Hm Ha Hb Hnz). ring.
Qed.

Definition opt_expR (o : option Qc) : R := match o with Some t => exp (QcR t) | None => 0 end.

Theorem gd_eval_sym_correct : forall cs bs xs acc,
  opt_expR (gd_eval_sym cs bs xs acc) = gd_eval (map QcR cs) (map QcR bs) (map QcR xs) (QcR acc).
Proof.
  induction cs as [|c cs IH]; intros [|bo bs] [|x xs] acc; cbn [gd_eval_sym gd_eval map opt_expR]; try reflexivity.
  destruct (Qc_leb bo x) eqn:E.
  - apply Qc_leb_R in E. destruct (Rle_dec (QcR bo) (QcR x)); [reflexivity | contradiction].
  - assert (~ QcR bo <= QcR x) by (intro H; apply Qc_leb_R in H; congruence).
    destruct (Rle_dec (QcR bo) (QcR x)); [contradiction|]. rewrite IH, QcR_minus, QcR_mult. reflexivity.
Qed.

Lemma box_ordered_QcR : forall a b, length a = length b -> List.Forall2 (fun x y => (x <= y)%Qc) a b ->
  box_ordered (map QcR a) (map QcR b).
Proof. intros a b _ H. induction H as [|x y a b Hxy _ IH]; cbn [map]; constructor; [apply QcR_le; exact Hxy | exact IH]. Qed.

(* ... hence the iterated Riemann integral of the real function of eval, for every dimension and every box with start <= end *)
Theorem gd_sym_integral_is_iterated_riemann cs bs a b :
  length bs = length cs -> length a = length cs -> length b = length cs -> List.Forall (fun c => c <> 0%Qc) cs ->
  List.Forall2 (fun x y => (x <= y)%Qc) a b ->
  is_iterated_riemann_integral (fun xs => gd_eval (map QcR cs) (map QcR bs) xs 0) (map QcR a) (map QcR b)
                               (opt_symR (gd_int_sym cs bs a b)).
Proof.
  intros Hm Ha Hb Hnz Hord. rewrite (gd_int_sym_correct cs bs a b Hm Ha Hb Hnz).
  apply discontinious_integral_is_iterated_riemann; rewrite ?map_length; try assumption.
  - apply Forall_map_QcR. exact Hnz.
  - apply box_ordered_QcR; [lia | exact Hord].
Qed.

(* ================================================================== GenzC0 *)
Lemma c0_factor_correct c m a b : c <> 0%Qc -> linR 1 (c0_factor c m a b) = c0_v (QcR c) (QcR m) (QcR a) (QcR b).
Proof.
  intro Hc. unfold c0_factor, c0_v. rewrite linR_app. f_equal.
  - destruct (Qc_ltb a m) eqn:E1.
    + apply Qc_ltb_R in E1. destruct (Rlt_dec (QcR a) (QcR m)); [|contradiction].
      destruct (Qc_ltb b m) eqn:E2.
      * apply Qc_ltb_R in E2. destruct (Rlt_dec (QcR b) (QcR m)); [|contradiction].
        cbn [linR atomR]. rewrite QcR_opp, (QcR_1div c Hc), !QcR_mult, !QcR_minus. unfold Rdiv. ring.
      * assert (~ QcR b < QcR m) by (intro H; apply Qc_ltb_R in H; congruence).
        destruct (Rlt_dec (QcR b) (QcR m)); [contradiction|].
        cbn [linR atomR]. rewrite QcR_opp, (QcR_1div c Hc), !QcR_mult, !QcR_minus. unfold Rdiv. ring.
    + assert (~ QcR a < QcR m) by (intro H; apply Qc_ltb_R in H; congruence).
      destruct (Rlt_dec (QcR a) (QcR m)); [contradiction | reflexivity].
  - destruct (Qc_ltb m b) eqn:E1.
    + apply Qc_ltb_R in E1. destruct (Rlt_dec (QcR m) (QcR b)); [|contradiction].
      destruct (Qc_ltb m a) eqn:E2.
      * apply Qc_ltb_R in E2. destruct (Rlt_dec (QcR m) (QcR a)); [|contradiction].
        cbn [linR atomR]. rewrite QcR_opp, (QcR_1div c Hc), !QcR_mult, !QcR_minus. unfold Rdiv. ring.
      * assert (~ QcR m < QcR a) by (intro H; apply Qc_ltb_R in H; congruence).
        destruct (Rlt_dec (QcR m) (QcR a)); [contradiction|].
        cbn [linR atomR]. rewrite QcR_opp, (QcR_1div c Hc), !QcR_mult, !QcR_minus. unfold Rdiv. ring.
    + assert (~ QcR m < QcR b) by (intro H; apply Qc_ltb_R in H; congruence).
      destruct (Rlt_dec (QcR m) (QcR b)); [contradiction | reflexivity].
Qed.

Theorem c0_int_sym_correct : forall cs ms a b, List.Forall (fun c => c <> 0%Qc) cs ->
  symR 1 (c0_int_sym cs ms a b) = c0_int (map QcR cs) (map QcR ms) (map QcR a) (map QcR b) 1.
Proof.
  intros cs ms a b Hnz. rewrite c0_int_prod, Rmult_1_l. revert ms a b.
  induction Hnz as [|c cs Hc _ IH]; intros [|m ms] [|ai a] [|bi b]; cbn [c0_int_sym map c0_vs prodR symR]; try reflexivity.
  rewrite (c0_factor_correct c m ai bi Hc), IH. reflexivity.
Qed.

Theorem c0_eval_sym_correct : forall cs ms xs acc,
  exp (QcR (c0_eval_sym cs ms xs acc)) = c0_eval (map QcR cs) (map QcR ms) (map QcR xs) (QcR acc).
Proof.
  induction cs as [|c cs IH]; intros [|m ms] [|x xs] acc; cbn [c0_eval_sym c0_eval map]; try reflexivity.
  rewrite IH, QcR_minus, QcR_mult, QcR_abs, QcR_minus. reflexivity.
Qed.

Theorem c0_sym_integral_is_iterated_riemann cs ms a b :
  length ms = length cs -> length a = length cs -> length b = length cs -> List.Forall (fun c => c <> 0%Qc) cs ->
  List.Forall2 (fun x y => (x <= y)%Qc) a b ->
  is_iterated_riemann_integral (fun xs => c0_eval (map QcR cs) (map QcR ms) xs 0) (map QcR a) (map QcR b)
                               (symR 1 (c0_int_sym cs ms a b)).
Proof.
  intros Hm Ha Hb Hnz Hord. rewrite (c0_int_sym_correct cs ms a b Hnz).
  apply c0_integral_is_iterated_riemann; rewrite ?map_length; try assumption.
  - apply Forall_map_QcR. exact Hnz.
  - apply box_ordered_QcR; [lia | exact Hord].
Qed.

(* ================================================================== FunctionExpVar *)
Lemma ev_factors_vs y1 : y1 <> 0%Qc -> forall a b,
  symR (QcR y1) (ev_int_factors y1 a b) = prodR (ev_vs (QcR y1 - 1) (map QcR a) (map QcR b)).
Proof.
  intro Hy. induction a as [|ai a IH]; intros [|bi b]; cbn [ev_int_factors map ev_vs prodR symR]; try reflexivity.
  rewrite IH. cbn [linR atomR]. rewrite QcR_opp, (QcR_1div y1 Hy).
  replace (1 + (QcR y1 - 1)) with (QcR y1) by ring. unfold Rdiv. ring.
Qed.

Theorem ev_int_sym_correct a b y k s : ev_int_sym a b = Some (y, k, s) ->
  QcR k * symR (1 + QcR y) s = ev_int (map QcR a) (map QcR b).
Proof.
  unfold ev_int_sym, ev_int. destruct (length a) as [|n] eqn:En; [discriminate|]. intro H. injection H as <- <- <-.
  rewrite map_length, En. set (N := S n).
  assert (HN : qn N <> 0%Qc) by apply qn_S_neq0.
  assert (Ey : QcR (1 / qn N)%Qc = 1 / INR N) by (rewrite QcR_div, QcR_1, QcR_qn by exact HN; reflexivity).
  assert (Hpos : 0 < 1 / INR N) by (apply Rdiv_lt_0_compat; [lra | apply lt_0_INR; unfold N; lia]).
  assert (Hy1 : (1 + 1 / qn N)%Qc <> 0%Qc).
  { intro E. assert (QcR (1 + 1 / qn N)%Qc = 0) by (rewrite E; apply QcR_0). rewrite QcR_plus, QcR_1, Ey in H. lra. }
  rewrite ev_int_prod, Rmult_1_l.
  replace (1 + QcR (1 / qn N)%Qc) with (QcR (1 + 1 / qn N)%Qc) by (rewrite QcR_plus, QcR_1; reflexivity).
  rewrite (ev_factors_vs _ Hy1 a b).
  change ((1 + 1 / qn N) * (1 + 1 / qn N) ^ n)%Qc with ((1 + 1 / qn N) ^ N)%Qc.
  rewrite QcR_pow, QcR_plus, QcR_1, Ey.
  replace (1 + 1 / INR N - 1) with (1 / INR N) by ring. reflexivity.
Qed.

Lemma box_positive_QcR : forall a b, List.Forall2 (fun x y => (0 < x)%Qc /\ (0 < y)%Qc) a b -> box_positive (map QcR a) (map QcR b).
Proof.
  intros a b H. induction H as [|x y a b [Hx Hy] _ IH]; cbn [map]; constructor; try exact IH.
  - apply QcR_lt in Hx. rewrite QcR_0 in Hx. exact Hx.
  - apply QcR_lt in Hy. rewrite QcR_0 in Hy. exact Hy.
Qed.

Theorem ev_sym_integral_is_iterated_riemann a b y k s : ev_int_sym a b = Some (y, k, s) ->
  List.Forall2 (fun x y => (0 < x)%Qc /\ (0 < y)%Qc) a b ->
  is_iterated_riemann_integral
    (fun xs => (1 + 1 / INR (length a)) ^ (length a) * ev_prod (1 / INR (length a)) xs 1) (map QcR a) (map QcR b)
    (QcR k * symR (1 + QcR y) s).
Proof.
  intros Hs Hpos. rewrite (ev_int_sym_correct a b y k s Hs).
  assert (Hne : map QcR a <> []) by (unfold ev_int_sym in Hs; destruct a; [discriminate | discriminate]).
  pose proof (proj1 (expvar_integral_is_iterated_riemann (map QcR a) (map QcR b) Hne (box_positive_QcR a b Hpos))) as H.
  rewrite map_length in H. exact H.
Qed.
