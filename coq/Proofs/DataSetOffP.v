(* C18 (deepening round) — the repaired revert_scaling (accumulated offset, Model/DataSetOff.v with vo = true).
   InvO n d R fv cv = InvB on the first component + "_scaling_offset represents cv".  The non-overriding scaling operations keep it,
   the first / overriding ones establish it, every sample-moving operation keeps it for the moved reference list, an accepted
   concatenation of two tracked sets with the second repair has equal maps, and revert_scaling gives back EXACTLY the reference
   list - whatever the membership of the data set is by then (split piece, rest after remove_samples, concatenation). *)
From Coq Require Import ZArith List QArith Qcanon Bool Lia Arith Permutation.
From SG Require Import Base.QcUtil Model.DataSet Model.DataSetOff Proofs.DataSetVec Proofs.DataSetScale Proofs.DataSetRevert
  Proofs.DataSetMove Proofs.DataSetTrack.
Import ListNotations.
Open Scope Qc_scope.

Definition InvO (n : nat) (d : dso) (R : list sample) (fv cv : row) : Prop :=
  InvB n (base d) R fv cv /\ fac_vec n (soff d) = Some cv.

(* fac_add against the vector view *)
Lemma fac_add_vec n f a cv : fac_vec n f = Some cv -> arg_fits n a = true ->
  fac_vec n (fac_add f a) = Some (vadd cv (expand n a)).
Proof.
  intros Hf Ha. destruct f as [|q|l]; simpl in Hf; [discriminate| |].
  - inversion Hf; subst cv. destruct a as [x|l']; simpl in *.
    + f_equal. apply (row_ext _ _ n); [apply repeat_length | apply vadd_length; apply repeat_length|].
      intros j Hj. rewrite (nth_vadd n), !nth_repeat_lt by (try apply repeat_length; lia). reflexivity.
    + apply Nat.eqb_eq in Ha. rewrite map_length, Ha, Nat.eqb_refl. f_equal.
      apply (row_ext _ _ n); [rewrite map_length; exact Ha | apply vadd_length; [apply repeat_length | exact Ha]|].
      intros j Hj. rewrite (nth_vadd n), nth_repeat_lt by (try apply repeat_length; lia).
      rewrite (nth_map_lt _ l' j 0 0) by lia. reflexivity.
  - destruct (Nat.eqb (length l) n) eqn:El; [|discriminate]. inversion Hf; subst cv. apply Nat.eqb_eq in El.
    destruct a as [x|l']; simpl in *.
    + rewrite map_length, El, Nat.eqb_refl. f_equal.
      apply (row_ext _ _ n); [rewrite map_length; exact El | apply vadd_length; [exact El | apply repeat_length]|].
      intros j Hj. rewrite (nth_vadd n), nth_repeat_lt by (try apply repeat_length; lia).
      rewrite (nth_map_lt _ l j 0 0) by lia. reflexivity.
    + apply Nat.eqb_eq in Ha. rewrite (vadd_length n) by assumption. rewrite Nat.eqb_refl. reflexivity.
Qed.

Lemma fac_vec_not_none n f cv : fac_vec n f = Some cv -> f <> FNone.
Proof. intros H E. rewrite E in H. discriminate. Qed.

(* ------------------------------------------------------------------ non-overriding scaling operations *)
Lemma ostep_factor n d R fv cv a : InvO n d R fv cv -> R <> [] -> arg_fits n a = true -> arg_nonzero a ->
  exists d', scale_factor_o true a false d = (d', false) /\ InvO n d' R (vmul fv (expand n a)) (vmul cv (expand n a)).
Proof.
  intros [I Ho] Hne Ha Hz. destruct (bstep_factor n _ R fv cv a I Hne Ha Hz) as [b' [E [I' _]]].
  unfold scale_factor_o. rewrite E. cbn [orb negb]. unfold is_first. rewrite (b_scaled _ _ _ _ _ I). cbn [negb orb].
  pose proof (fac_vec_not_none _ _ _ Ho) as Hn.
  exists (mkDSO b' (fac_mul (soff d) a)). split; [destruct (soff d); [contradiction | reflexivity | reflexivity]|].
  split; [exact I' | cbn [soff]; apply fac_mul_vec; assumption].
Qed.

Lemma ostep_shift n d R fv cv a : InvO n d R fv cv -> R <> [] -> arg_fits n a = true ->
  exists d', shift_value_o true a false d = (d', false) /\ InvO n d' R fv (vadd cv (expand n a)).
Proof.
  intros [I Ho] Hne Ha. destruct (bstep_shift n _ R fv cv a I Hne Ha) as [b' [E [I' _]]].
  unfold shift_value_o. rewrite E. cbn [orb negb]. unfold is_first. rewrite (b_scaled _ _ _ _ _ I). cbn [negb orb].
  pose proof (fac_vec_not_none _ _ _ Ho) as Hn.
  exists (mkDSO b' (fac_add (soff d) a)). split; [destruct (soff d); [contradiction | reflexivity | reflexivity]|].
  split; [exact I' | cbn [soff]; apply fac_add_vec; assumption].
Qed.

Lemma ostep_range n d R fv cv lo hi : InvO n d R fv cv -> R <> [] -> lo < hi ->
  exists d' fv' cv', scale_range_o true lo hi false d = (d', false) /\ InvO n d' R fv' cv'.
Proof.
  intros [I Ho] Hne Hlh.
  destruct (bstep_range n _ R fv cv lo hi I Hne Hlh) as [b' [sc [mi [mn [mx [E [I' [Emn [Emx [Esc [Emi [Lsc [Lmi _]]]]]]]]]]]]].
  unfold scale_range_o. rewrite E. cbn [orb negb]. rewrite Emn, Emx. unfold is_first. rewrite (b_scaled _ _ _ _ _ I). cbn [negb orb].
  pose proof (fac_vec_not_none _ _ _ Ho) as Hn. rewrite <- Esc, <- Emi.
  exists (mkDSO b' (fac_add (fac_mul (soff d) (AArr sc)) (AArr mi))), (vmul fv sc), (vadd (vmul cv sc) mi).
  split; [destruct (soff d); [contradiction | reflexivity | reflexivity]|].
  split; [exact I'|]. cbn [soff].
  change (vadd (vmul cv sc) mi) with (vadd (vmul cv (expand n (AArr sc))) (expand n (AArr mi))).
  apply fac_add_vec; [apply fac_mul_vec; [exact Ho | simpl; apply Nat.eqb_eq; exact Lsc] | simpl; apply Nat.eqb_eq; exact Lmi].
Qed.

(* ------------------------------------------------------------------ first / overriding scaling operations *)
Lemma ofirst_range d lo hi ov : wf (base d) -> is_first ov (base d) = true -> lo < hi ->
  exists d' fv cv, scale_range_o true lo hi ov d = (d', false) /\ InvO (ddim (base d)) d' (rows (base d)) fv cv.
Proof.
  intros Hwf Hov Hlh. set (b := base d) in *. set (n := ddim b).
  assert (Hne : values b <> []) by (destruct Hwf as [H _]; unfold values; destruct (rows b); [contradiction | discriminate]).
  destruct (scaler_lengths n lo hi (values b) Hne (wf_values_len b Hwf)) as [mn [mx [Emn [Emx [Lsc [Lmi Lmn]]]]]].
  set (sc := mm_scale lo hi mn mx) in *. set (mi := mm_min lo mn sc) in *.
  unfold scale_range_o, scale_range. fold b. pose proof Hlh as Hb. apply Qc_ltb_lt in Hb. rewrite Hb. cbn [negb]. rewrite Emn, Emx.
  unfold is_first in Hov. rewrite Hov. cbn [orb negb]. unfold is_first. rewrite Hov.
  fold sc. fold mi. eexists. exists sc, mi. split; [reflexivity|].
  destruct Hwf as [Hn Hl]. split; [|cbn [soff]; simpl; fold n in Lmi; rewrite Lmi, Nat.eqb_refl; reflexivity].
  cbn [base]. constructor; cbn [ddim rows scaled sfactor]; auto.
  - apply mm_scale_nonzero. exact Hlh.
  - simpl. fold n in Lsc. rewrite Lsc, Nat.eqb_refl. reflexivity.
  - simpl. apply existsb_zero_false. apply mm_scale_nonzero. exact Hlh.
Qed.

Lemma ofirst_factor d a ov : wf (base d) -> is_first ov (base d) = true -> arg_fits (ddim (base d)) a = true -> arg_nonzero a ->
  exists d' fv cv, scale_factor_o true a ov d = (d', false) /\ InvO (ddim (base d)) d' (rows (base d)) fv cv.
Proof.
  intros Hwf Hov Ha Hz. destruct (first_factor (base d) a ov Hwf Hov Ha Hz) as [b' [E I]].
  unfold scale_factor_o. rewrite E. cbn [orb negb]. rewrite Hov.
  eexists. exists (expand (ddim (base d)) a), (repeat 0 (ddim (base d))). split; [reflexivity|].
  split; [apply inv_invb; exact I | reflexivity].
Qed.

Lemma ofirst_shift d a ov : wf (base d) -> is_first ov (base d) = true -> arg_fits (ddim (base d)) a = true ->
  exists d' fv cv, shift_value_o true a ov d = (d', false) /\ InvO (ddim (base d)) d' (rows (base d)) fv cv.
Proof.
  intros Hwf Hov Ha. destruct (first_shift (base d) a ov Hwf Hov Ha) as [b' [E I]].
  unfold shift_value_o. rewrite E. cbn [orb negb]. rewrite Hov.
  eexists. exists (repeat 1 (ddim (base d))), (expand (ddim (base d)) a). split; [reflexivity|].
  split; [apply inv_invb; exact I|]. cbn [soff]. destruct a as [q|l]; simpl in *; [reflexivity | rewrite Ha; reflexivity].
Qed.

(* ------------------------------------------------------------------ revert_scaling (repaired) *)
Lemma fac_neg_fits n f cv : fac_vec n f = Some cv -> arg_fits n (fac_neg f) = true.
Proof.
  destruct f as [|q|l]; simpl; [discriminate | reflexivity|].
  destruct (Nat.eqb (length l) n) eqn:E; [|discriminate]. intros _. unfold vneg. rewrite map_length. exact E.
Qed.
Lemma fac_neg_pointwise n f cv j : fac_vec n f = Some cv -> (j < n)%nat -> nth j (expand n (fac_neg f)) 0 = - nth j cv 0.
Proof.
  destruct f as [|q|l]; simpl; intros Hf Hj; [discriminate| |].
  - inversion Hf; subst. rewrite !nth_repeat_lt by lia. reflexivity.
  - destruct (Nat.eqb (length l) n) eqn:E; [|discriminate]. inversion Hf; subst cv. apply Nat.eqb_eq in E.
    apply (nth_vneg n); assumption.
Qed.

Theorem revert_o_restores n d R fv cv : InvO n d R fv cv -> R <> [] ->
  exists d3, revert_o true d = (d3, false) /\ rows (base d3) = R /\ cleared (base d3) /\ soff d3 = FNone.
Proof.
  intros IO Hne. pose proof IO as [I Ho].
  pose proof (b_fac _ _ _ _ _ I) as Ifac. pose proof (b_fz _ _ _ _ _ I) as Ifz.
  pose proof (fac_vec_not_none _ _ _ Ifac) as Hnn. pose proof (fac_vec_not_none _ _ _ Ho) as Hon.
  pose proof (b_fv _ _ _ _ _ I) as Lfv. pose proof (b_cv _ _ _ _ _ I) as Lcv.
  destruct (ostep_shift n d R fv cv (fac_neg (soff d)) IO Hne (fac_neg_fits n _ _ Ho)) as [d1 [E1 IO1]].
  set (s := expand n (fac_neg (soff d))) in *.
  assert (Ls : length s = n) by (apply expand_length; apply (fac_neg_fits n _ _ Ho)).
  destruct (ostep_factor n d1 R fv (vadd cv s) (fac_inv (sfactor (base d))) IO1 Hne (fac_inv_fits n _ _ Ifac) (fac_inv_nonzero _ Ifz Hnn))
    as [d2 [E2 [I2 _]]].
  set (e := expand n (fac_inv (sfactor (base d)))) in *.
  assert (Le : length e = n) by (apply expand_length; apply (fac_inv_fits n _ _ Ifac)).
  exists (clear_o d2). split.
  - unfold revert_o. cbn [negb]. destruct (sfactor (base d)) as [|q|l] eqn:F; [contradiction| |];
      rewrite Ifz; (destruct (soff d) as [|oq|ol] eqn:Fo; [contradiction| |]); fold s in E1 |- *; rewrite E1; fold e in E2 |- *; rewrite E2; reflexivity.
  - split; [|split; [unfold cleared, clear_o, clear_scaling; cbn; repeat split; reflexivity | reflexivity]].
    cbn [clear_o base clear_scaling rows]. rewrite (b_rows _ _ _ _ _ I2). apply map_rows_id.
    pose proof (b_len _ _ _ _ _ I) as Il.
    intros s0 Hs. pose proof (rows_in_len n _ s0 Il Hs) as Ls0.
    assert (Lv : length (vadd cv s) = n) by (apply vadd_length; assumption).
    apply (row_ext _ _ n); [apply aff_length; auto; apply vmul_length; assumption | exact Ls0|].
    intros j Hj. rewrite (nth_aff n); auto; try (apply vmul_length; assumption).
    rewrite !(nth_vmul n), (nth_vadd n); auto. unfold s. rewrite (fac_neg_pointwise n _ cv j Ho Hj).
    pose proof (fac_inv_pointwise n _ fv j Ifac Ifz Hj) as H1. fold e in H1. rewrite H1. ring.
Qed.

(* ------------------------------------------------------------------ sample-moving operations keep InvO *)
Lemma invo_move n d d' R fv cv g : InvO n d R fv cv -> natural_on (length R) g ->
  ddim (base d') = n -> rows (base d') = g (rows (base d)) -> scaled (base d') = scaled (base d) -> sfactor (base d') = sfactor (base d) ->
  soff d' = soff d -> InvO n d' (g R) fv cv.
Proof.
  intros [I Ho] N Hd Hr Hs Hf Hso. split; [exact (invb_move n _ _ R fv cv g I N Hd Hr Hs Hf) | rewrite Hso; exact Ho].
Qed.

Lemma invo_with_attrs n d R fv cv g : InvO n d R fv cv -> natural_on (length R) g -> g R <> [] ->
  InvO n (lift d (with_attrs (base d) (g (rows (base d))))) (g R) fv cv.
Proof. intros [I Ho] N Hne. split; [exact (invb_with_attrs n _ R fv cv g I N Hne) | exact Ho]. Qed.

Lemma invo_set_rows n d R fv cv g : InvO n d R fv cv -> natural_on (length R) g ->
  InvO n (lift d (set_rows (base d) (g (rows (base d))))) (g R) fv cv.
Proof. intros [I Ho] N. split; [exact (invb_set_rows n _ R fv cv g I N) | exact Ho]. Qed.

(* ------------------------------------------------------------------ concatenate with the second repair *)
Lemma row_eqb_eq x y : row_eqb x y = true -> x = y.
Proof.
  revert y. induction x as [|a x IH]; intros [|b y] H; simpl in H; try discriminate; [reflexivity|].
  apply andb_true_iff in H. destruct H as [H1 H2]. apply Qc_eqb_eq in H1. subst. f_equal. apply IH. exact H2.
Qed.

Lemma bvec_of_fac_vec n f x : fac_vec n f = Some x -> bvec n f = Some (Some x).
Proof.
  destruct f as [|q|l]; simpl; intro H; [discriminate | inversion H; reflexivity|].
  destruct (Nat.eqb (length l) n); [inversion H; reflexivity | discriminate].
Qed.

Lemma bvec_eq_vec n f g x y : fac_vec n f = Some x -> fac_vec n g = Some y -> bvec_eq n f g = true -> x = y.
Proof.
  intros Hf Hg H. unfold bvec_eq in H. rewrite (bvec_of_fac_vec _ _ _ Hf), (bvec_of_fac_vec _ _ _ Hg) in H. apply row_eqb_eq. exact H.
Qed.

Lemma same_affine_tracked n a b Ra Rb fva cva fvb cvb :
  InvO n a Ra fva cva -> InvO n b Rb fvb cvb -> same_affine a b = true -> fva = fvb /\ cva = cvb.
Proof.
  intros [Ia Hoa] [Ib Hob] H. unfold same_affine in H.
  rewrite (b_scaled _ _ _ _ _ Ia), (b_scaled _ _ _ _ _ Ib), (b_dim _ _ _ _ _ Ia), (b_dim _ _ _ _ _ Ib), Nat.eqb_refl in H.
  cbn [Bool.eqb negb] in H. apply andb_true_iff in H. destruct H as [H1 H2].
  split; [exact (bvec_eq_vec n _ _ _ _ (b_fac _ _ _ _ _ Ia) (b_fac _ _ _ _ _ Ib) H1) | exact (bvec_eq_vec n _ _ _ _ Hoa Hob H2)].
Qed.

(* what concatenate hands out: self's attributes on the joined rows *)
Lemma concatenate_o_new v a b r : concatenate_o v a b = CNewO r ->
  r = lift a (with_attrs (base a) (rows (base a) ++ rows (base b))) /\
  (v_refuse v = true -> is_empty (base b) = true \/ same_affine a b = true).
Proof.
  unfold concatenate_o. destruct (concatenate (v_base v) (base a) (base b)) as [r0| | |] eqn:E; try discriminate.
  destruct (v_refuse v) eqn:Ev; cbn [andb].
  - destruct (is_empty (base b) || same_affine a b) eqn:Es; cbn [negb]; [|discriminate].
    intro H. inversion H; subst. split; [|intros _; apply orb_true_iff; exact Es].
    f_equal. unfold concatenate in E.
    destruct (Nat.eqb (dim (base a)) (dim (base b))); [|destruct (is_empty (base b)); [discriminate | destruct (is_empty (base a)); discriminate]].
    destruct (xorb (flat1 (base a)) (flat1 (base b))); [discriminate|]. destruct (update_internal_raises (base a)); [discriminate|].
    destruct (self_scaling_ok (v_base v) (base a)); inversion E. reflexivity.
  - intro H. inversion H; subst. split; [|discriminate].
    f_equal. unfold concatenate in E.
    destruct (Nat.eqb (dim (base a)) (dim (base b))); [|destruct (is_empty (base b)); [discriminate | destruct (is_empty (base a)); discriminate]].
    destruct (xorb (flat1 (base a)) (flat1 (base b))); [discriminate|]. destruct (update_internal_raises (base a)); [discriminate|].
    destruct (self_scaling_ok (v_base v) (base a)); inversion E. reflexivity.
Qed.

(* the refusal clause of the property holds with the second repair: a non-empty other data set with another accumulated map
   (or another scaled flag) is never joined *)
Theorem concatenate_refuses_different_maps v a b : v_refuse v = true -> is_empty (base b) = false -> same_affine a b = false ->
  forall r, concatenate_o v a b <> CNewO r.
Proof.
  intros Hv Hb Hs r H. destruct (concatenate_o_new v a b r H) as [_ H2]. destruct (H2 Hv) as [X|X]; congruence.
Qed.

(* an accepted concatenation of two tracked (scaled) sets is tracked with the joined reference lists; with the second repair the two
   maps are KNOWN to be equal whenever the other set is not empty *)
Theorem concatenate_o_tracked v n a b Ra Rb fva cva fvb cvb r :
  InvO n a Ra fva cva -> InvO n b Rb fvb cvb -> Ra ++ Rb <> [] ->
  (v_refuse v = true /\ Rb <> [] \/ (fva = fvb /\ cva = cvb) \/ Rb = []) ->
  concatenate_o v a b = CNewO r -> InvO n r (Ra ++ Rb) fva cva.
Proof.
  intros IOa IOb Hne Hcase H. destruct (concatenate_o_new v a b r H) as [Er Hacc].
  pose proof IOa as [Ia Hoa]. pose proof IOb as [Ib Hob].
  assert (Hmaps : Rb = [] \/ (fva = fvb /\ cva = cvb)).
  { destruct Hcase as [[Hv HRb]|[Heq|Hemp]]; [|right; exact Heq | left; exact Hemp].
    right. destruct (Hacc Hv) as [X|X].
    - exfalso. apply is_empty_rows in X. rewrite (b_rows _ _ _ _ _ Ib) in X. destruct Rb; [contradiction | discriminate].
    - exact (same_affine_tracked n a b Ra Rb _ _ _ _ IOa IOb X). }
  subst r. split; [|exact Hoa].
  assert (Hrows : rows (base a) ++ rows (base b) = map_rows (aff fva cva) (Ra ++ Rb)).
  { rewrite (b_rows _ _ _ _ _ Ia), (b_rows _ _ _ _ _ Ib). unfold map_rows. rewrite map_app. f_equal.
    destruct Hmaps as [Hemp|[E1 E2]]; [subst Rb; reflexivity | subst; reflexivity]. }
  assert (Hlen : Forall (fun s => length (fst s) = n) (Ra ++ Rb)).
  { apply Forall_app. split; [exact (b_len _ _ _ _ _ Ia) | exact (b_len _ _ _ _ _ Ib)]. }
  destruct Ia as [Id Ir Il If Ic Inz Is Ifac Ifz].
  constructor; cbn [lift base with_attrs ddim rows scaled sfactor]; auto.
  rewrite Hrows. destruct (Ra ++ Rb) as [|[r0 l0] rest] eqn:E; [contradiction|]. cbn [map_rows map dim_of fst].
  apply aff_length; auto. pose proof (Forall_inv Hlen) as L0. exact L0.
Qed.
