(* C02: exactness of the standard combination technique on the piecewise-multilinear sparse-grid space.
   For a tensor hat function phi = fun_hat a b tau i (hierarchical: i_d odd; or nodal of level <= lmin) the combined
   interpolant is [max(tau,lmin) in I] * phi at EVERY point of the box, the combined quadrature is
   [max(tau,lmin) in I] * (exact integral of phi). Abstract step: inclusion-exclusion (combined_indicator); concrete
   steps: Proofs/StdHier1D.v, StdHierTrap.v (1D), StdHierTensor.v (tensorisation). *)
From Coq Require Import ZArith List Bool QArith Qcanon Lia Permutation.
From SG Require Import Base.QcUtil Model.CombiScheme Model.StdCombi Proofs.SchemeBasics Proofs.SchemeIE Proofs.SchemeInv
  Proofs.SchemeStd Proofs.CombiAbstract Proofs.StdGrid Proofs.StdCombiSum Proofs.NodalExact Proofs.StdNodal
  Proofs.HatFacts Proofs.StdHier1D Proofs.StdHierTrap Proofs.StdHierTensor.
Import ListNotations.
Local Open Scope Qc_scope.
Local Arguments Z.add : simpl never.
Local Arguments Z.mul : simpl never.
Local Arguments Z.sub : simpl never.
Local Arguments Z.pow : simpl never.
Local Arguments Z.leb : simpl never.

(* ---------- the abstract one-liner (hier_exact of DESIGN section 4) ---------- *)
Lemma combined_indicator cs tau (V : lv -> Qc) v :
  (forall l c, In (l, c) cs -> V l = if lv_geb l tau then v else 0) ->
  sumQ (map (fun kv => qc_of_Z (snd kv) * V (fst kv)) cs) = qc_of_Z (dominating_sum cs tau) * v.
Proof.
  intro H. rewrite <- dominating_sum_Qc.
  rewrite <- (sumQ_scale_r v (fun kv : lv * Z => qc_of_Z (snd kv) * b2q (lv_geb (fst kv) tau)) cs).
  apply sumQ_map_ext. intros [l c] Hin. simpl.
  rewrite (H l c Hin). destruct (lv_geb l tau); unfold b2q; ring.
Qed.

Lemma lv_geb_max lmin : forall l t, Forall (fun v => (lmin <= v)%Z) l -> lv_geb l (map (Z.max lmin) t) = lv_geb l t.
Proof.
  induction l as [|l0 l IH]; intros [|t0 t] F; try reflexivity.
  inversion F as [|? ? H0 F']; subst. cbn [map lv_geb]. rewrite (IH t F'). f_equal.
  destruct (Z.leb_spec (Z.max lmin t0) l0); destruct (Z.leb_spec t0 l0); try reflexivity; lia.
Qed.

(* ---------- tensor hats as tensor products ---------- *)
Fixpoint hats (a b : list Qc) (j i : list Z) : list (Qc -> Qc) :=
  match a, b, j, i with
  | a0 :: a', b0 :: b', j0 :: j', i0 :: i' => hat1 a0 b0 j0 i0 :: hats a' b' j' i'
  | _, _, _, _ => []
  end.

Lemma fun_hat_tprod : forall a b j i x, fun_hat a b j i x = tprod (hats a b j i) x.
Proof.
  induction a as [|a0 a IH]; intros b j i x; [reflexivity|].
  destruct b as [|b0 b]; [reflexivity|]. destruct j as [|j0 j]; [reflexivity|]. destruct i as [|i0 i]; [reflexivity|].
  destruct x as [|x0 x]; [reflexivity|]. cbn [fun_hat hats tprod]. rewrite IH. reflexivity.
Qed.

(* per-dimension hypotheses on (a_d, b_d, tau_d, i_d) *)
Inductive hdims (P : Qc -> Qc -> Z -> Z -> Prop) : list Qc -> list Qc -> lv -> lv -> Prop :=
| hdims_nil : hdims P [] [] [] []
| hdims_cons a0 b0 t0 i0 a b t i : P a0 b0 t0 i0 -> hdims P a b t i -> hdims P (a0 :: a) (b0 :: b) (t0 :: t) (i0 :: i).

Lemma hdims_length P a b t i : hdims P a b t i -> length b = length a /\ length t = length a /\ length i = length a.
Proof. induction 1 as [|? ? ? ? ? ? ? ? _ _ [E1 [E2 E3]]]; simpl; [auto|]. rewrite E1, E2, E3. auto. Qed.

Lemma hats_length P a b t i : hdims P a b t i -> length (hats a b t i) = length a.
Proof. induction 1 as [|? ? ? ? ? ? ? ? _ _ IH]; simpl; [reflexivity|]. rewrite IH. reflexivity. Qed.

Lemma hdims_impl (P Q : Qc -> Qc -> Z -> Z -> Prop) a b t i :
  (forall a0 b0 t0 i0, P a0 b0 t0 i0 -> Q a0 b0 t0 i0) -> hdims P a b t i -> hdims Q a b t i.
Proof. intros HPQ H. induction H; constructor; auto. Qed.

Lemma hdims_intro (Q : Z -> Z -> Prop) : forall a b, box_ok a b -> forall t i, Forall2 Q t i -> length t = length a ->
  hdims (fun a0 b0 t0 i0 => a0 < b0 /\ Q t0 i0) a b t i.
Proof.
  unfold box_ok. induction 1 as [|a0 b0 a b Hab _ IH]; intros t i F L.
  - destruct t; [|discriminate]. inversion F; subst. constructor.
  - destruct t as [|t0 t]; [discriminate|]. injection L as L. inversion F as [|? i0 ? i' HQ F']; subst.
    constructor; [split; assumption|]. apply IH; assumption.
Qed.

(* index conditions: level t >= 0, index inside the grid, interior when boundary points are off (the function is taken as zero
   on the boundary there), and hierarchical (odd index) unless the level does not exceed lmin (then every component grid
   resolves the hat: these are e.g. all nodal hats of level lmin) *)
Definition hier_idx (bd : bool) (lmin t i : Z) : Prop :=
  (0 <= t)%Z /\ (0 <= i <= 2 ^ t)%Z /\ (bd = false -> (1 <= i <= 2 ^ t - 1)%Z) /\ (Z.odd i = true \/ (t <= lmin)%Z).

(* for quadrature: interior hats (support inside the box) *)
Definition hint_idx (lmin t i : Z) : Prop :=
  (0 <= t)%Z /\ (1 <= i <= 2 ^ t - 1)%Z /\ (Z.odd i = true \/ (t <= lmin)%Z).

Definition hier1 (bd : bool) (lmin : Z) (a0 b0 : Qc) (t i : Z) : Prop := a0 < b0 /\ hier_idx bd lmin t i.
Definition hint1 (lmin : Z) (a0 b0 : Qc) (t i : Z) : Prop := a0 < b0 /\ hint_idx lmin t i.

Fixpoint in_box (a b x : list Qc) : Prop :=
  match a, b, x with
  | [], [], [] => True
  | a0 :: a', b0 :: b', x0 :: x' => (a0 <= x0 /\ x0 <= b0) /\ in_box a' b' x'
  | _, _, _ => False
  end.

Lemma in_box_length : forall a b x, in_box a b x -> length x = length a.
Proof.
  induction a as [|a0 a IH]; intros [|b0 b] [|x0 x] H; simpl in H; try contradiction; [reflexivity|].
  simpl. f_equal. apply (IH b x). apply H.
Qed.

Lemma zip3_length : forall (a b : list Qc) (l : lv), length b = length a -> length l = length a -> length (zip3 a b l) = length a.
Proof.
  induction a as [|a0 a IH]; intros [|b0 b] [|l0 l] Lb Ll; try discriminate; [reflexivity|].
  simpl. f_equal. apply IH; simpl in *; congruence.
Qed.

(* ---------- zero boundary values do not change interior hats ---------- *)
Lemma on_boundary_hat_zero lmin : forall a b tau i, hdims (hier1 false lmin) a b tau i ->
  forall p, on_boundary a b p = true -> fun_hat a b tau i p = 0.
Proof.
  induction 1 as [|a0 b0 t0 i0 a b tau i H1 _ IH]; intros p Hp.
  - destruct p; discriminate.
  - destruct p as [|p0 p]; [discriminate|]. cbn [on_boundary fun_hat] in *.
    destruct H1 as [Hab [Ht [_ [Hint _]]]]. specialize (Hint eq_refl).
    destruct (hat1_at_ends a0 b0 t0 i0 Hab Ht Hint) as [Za Zb].
    apply orb_true_iff in Hp. destruct Hp as [Hp|Hp].
    + apply orb_true_iff in Hp. destruct Hp as [Hp|Hp]; apply Qc_eqb_eq in Hp; subst p0; [rewrite Za|rewrite Zb]; ring.
    + rewrite (IH p Hp). ring.
Qed.

Lemma masked_hat bd lmin a b tau i : hdims (hier1 bd lmin) a b tau i ->
  forall p, masked bd a b (fun_hat a b tau i) p = fun_hat a b tau i p.
Proof.
  intros H p. unfold masked. destruct bd; [reflexivity|].
  destruct (on_boundary a b p) eqn:E; [|reflexivity]. symmetry. apply (on_boundary_hat_zero lmin a b tau i H p E).
Qed.

(* ---------- component interpolant of a tensor hat ---------- *)
Lemma tprod_interps_hat bd lmin : (0 <= lmin)%Z -> forall a b tau i, hdims (hier1 bd lmin) a b tau i ->
  forall l x, length l = length a -> Forall (fun v => (lmin <= v)%Z) l -> in_box a b x ->
  tprod (interps (map (fun t => let '(x0, y0, z) := t in grid1_full x0 y0 z) (zip3 a b l)) (hats a b tau i)) x
  = if lv_geb l tau then tprod (hats a b tau i) x else 0.
Proof.
  intros Hlmin a b tau i H. induction H as [|a0 b0 t0 i0 a b tau i H1 _ IH]; intros l x L F B.
  - destruct l; [|discriminate]. destruct x; [reflexivity|simpl in B; contradiction].
  - destruct l as [|l0 l]; [discriminate|]. destruct x as [|x0 x]; [simpl in B; contradiction|].
    injection L as L. inversion F as [|? ? Hl0 F']; subst. destruct B as [[B1 B2] B'].
    cbn [zip3 map hats interps tprod lv_geb]. rewrite (IH l x L F' B').
    destruct H1 as [Hab [Ht [Hi [_ Hodd]]]].
    destruct (Z.leb_spec t0 l0) as [Hle|Hgt].
    + rewrite (hat1_interp_fine a0 b0 t0 i0 l0 x0 Hab Ht Hle B1 B2). destruct (lv_geb l tau); simpl; ring.
    + rewrite (hat1_interp_coarse a0 b0 t0 i0 l0 x0 Hab ltac:(lia) Hgt); [simpl; ring|].
      destruct Hodd as [Ho|Ho]; [exact Ho|lia].
Qed.

Theorem comp_interp_hat bd lmin a b tau i l x : (0 <= lmin)%Z -> hdims (hier1 bd lmin) a b tau i ->
  length l = length a -> Forall (fun v => (lmin <= v)%Z) l -> in_box a b x ->
  comp_interp bd a b l (fun_hat a b tau i) x = if lv_geb l tau then fun_hat a b tau i x else 0.
Proof.
  intros Hlmin H L F B. destruct (hdims_length _ a b tau i H) as [Lb [Lt Li]].
  unfold comp_interp.
  rewrite (interpN_ext _ _ (tprod (hats a b tau i))).
  2: { intro q. rewrite (masked_hat bd lmin a b tau i H q). apply fun_hat_tprod. }
  rewrite interpN_tprod.
  - rewrite (tprod_interps_hat bd lmin Hlmin a b tau i H l x L F B). rewrite fun_hat_tprod. reflexivity.
  - rewrite map_length, zip3_length by assumption. apply (hats_length _ a b tau i H).
  - rewrite map_length, zip3_length by assumption. apply (in_box_length a b x B).
Qed.

(* ---------- component quadrature of a tensor hat ---------- *)
(* exact integral of the tensor hat over the box: product of the 1D integrals (b_d-a_d)/2^tau_d, halved for the boundary hats *)
Fixpoint hat_integral (a b : list Qc) (tau i : lv) : Qc :=
  match a, b, tau, i with
  | a0 :: a', b0 :: b', t0 :: t', i0 :: i' => hat1_int a0 b0 t0 i0 * hat_integral a' b' t' i'
  | _, _, _, _ => 1
  end.

(* for interior hats: the product of the mesh widths *)
Fixpoint hat_volume (a b : list Qc) (tau : lv) : Qc :=
  match a, b, tau with
  | a0 :: a', b0 :: b', t0 :: t' => step a0 b0 t0 * hat_volume a' b' t'
  | _, _, _ => 1
  end.

Lemma hat_integral_interior lmin : forall a b tau i, hdims (hint1 lmin) a b tau i -> hat_integral a b tau i = hat_volume a b tau.
Proof.
  induction 1 as [|a0 b0 t0 i0 a b tau i H1 _ IH]; [reflexivity|]. cbn [hat_integral hat_volume]. rewrite IH.
  destruct H1 as [_ [Ht [Hi _]]]. unfold hat1_int.
  destruct (Z.eqb_spec i0 0) as [E|_]; [lia|]. destruct (Z.eqb_spec i0 (2 ^ t0)) as [E|_]; [lia|]. reflexivity.
Qed.

Lemma grid1_weights1_len bd a b l : length (grid1 bd a b l) = length (weights1 bd a b l).
Proof.
  unfold grid1, weights1, grid1_full, zrange, strip_ends. destruct bd.
  - rewrite !map_length, !seq_length. reflexivity.
  - repeat (rewrite tl_map || rewrite removelast_map). rewrite !map_length. reflexivity.
Qed.

Lemma Forall2_map_same {A B C} (R : B -> C -> Prop) (f : A -> B) (g : A -> C) z :
  (forall t, R (f t) (g t)) -> Forall2 R (map f z) (map g z).
Proof. intro H. induction z as [|t z IH]; simpl; constructor; auto. Qed.

Lemma dots_hat bd lmin : (0 <= lmin)%Z -> forall a b tau i, hdims (hier1 bd lmin) a b tau i ->
  forall l, length l = length a -> Forall (fun v => (lmin <= v)%Z) l ->
  dots (hats a b tau i) (map (fun t => let '(x0, y0, z) := t in grid1 bd x0 y0 z) (zip3 a b l))
                        (map (fun t => let '(x0, y0, z) := t in weights1 bd x0 y0 z) (zip3 a b l))
  = if lv_geb l tau then hat_integral a b tau i else 0.
Proof.
  intros Hlmin a b tau i H. induction H as [|a0 b0 t0 i0 a b tau i H1 _ IH]; intros l L F.
  - destruct l; [reflexivity|discriminate].
  - destruct l as [|l0 l]; [discriminate|]. injection L as L. inversion F as [|? ? Hl0 F']; subst.
    cbn [zip3 map hats dots lv_geb hat_integral]. rewrite (IH l L F').
    destruct H1 as [Hab [Ht [Hi [Hbd Hodd]]]].
    destruct (Z.leb_spec t0 l0) as [Hle|Hgt].
    + rewrite (hat1_trap_fine_gen bd a0 b0 t0 i0 l0 Hab Ht Hle Hi Hbd). destruct (lv_geb l tau); simpl; ring.
    + rewrite (hat1_trap_coarse bd a0 b0 t0 i0 l0 Hab ltac:(lia) Hgt); [simpl; ring|].
      destruct Hodd as [Ho|Ho]; [exact Ho|lia].
Qed.

Theorem comp_integral_hat bd lmin a b tau i l : (0 <= lmin)%Z -> hdims (hier1 bd lmin) a b tau i ->
  length l = length a -> Forall (fun v => (lmin <= v)%Z) l ->
  comp_integral bd a b l (fun_hat a b tau i) = if lv_geb l tau then hat_integral a b tau i else 0.
Proof.
  intros Hlmin H L F. destruct (hdims_length _ a b tau i H) as [Lb [Lt Li]].
  unfold comp_integral, comp_points, comp_weights.
  rewrite (map_ext _ (tprod (hats a b tau i)) (fun_hat_tprod a b tau i)).
  change (fold_right Qcmult 1) with prodQ.
  rewrite dot_cross_tprod.
  - apply (dots_hat bd lmin Hlmin a b tau i H l L F).
  - rewrite map_length, zip3_length by assumption. symmetry. apply (hats_length _ a b tau i H).
  - apply Forall2_map_same. intros [[x0 y0] z]. apply grid1_weights1_len.
Qed.

(* ---------- the combination ---------- *)
Definition eff_level (lmin : Z) (tau : lv) : lv := map (Z.max lmin) tau.

Lemma eff_level_props lmin tau : length (eff_level lmin tau) = length tau /\ Forall (fun v => (lmin <= v)%Z) (eff_level lmin tau).
Proof.
  unfold eff_level. split; [apply map_length|]. apply Forall_forall. intros v Hv. apply in_map_iff in Hv.
  destruct Hv as [t [<- _]]. lia.
Qed.

Lemma scheme_levels s l c : Inv s -> In (l, c) (combi_scheme_adaptive s) ->
  length l = s_dim s /\ Forall (fun v => (s_lmin s <= v)%Z) l.
Proof.
  intros HI Hin. destruct (scheme_support s l c HI Hin) as [Hl _]. apply index_set_In in Hl. apply (inv_wf s HI l Hl).
Qed.

Lemma indicator_value s tau (v : Qc) : Inv s -> length tau = s_dim s ->
  qc_of_Z (dominating_sum (combi_scheme_adaptive s) (eff_level (s_lmin s) tau)) * v
  = if mem (eff_level (s_lmin s) tau) (index_set s) then v else 0.
Proof.
  intros HI Lt. destruct (eff_level_props (s_lmin s) tau) as [Le Fe].
  assert (length (eff_level (s_lmin s) tau) = s_dim s) as Le' by congruence.
  rewrite (scheme_inclusion_exclusion s (eff_level (s_lmin s) tau) HI Le' Fe).
  destruct (mem (eff_level (s_lmin s) tau) (index_set s)).
  - change (qc_of_Z 1) with (Q2Qc 1). ring.
  - change (qc_of_Z 0) with (Q2Qc 0). ring.
Qed.

(* (T3) interpolation: combined interpolant of a tensor hat = [effective level in I] * hat, at every point of the box *)
Theorem hier_interp_general bd a b s tau i x :
  Inv s -> (0 <= s_lmin s)%Z -> hdims (hier1 bd (s_lmin s)) a b tau i -> length a = s_dim s -> in_box a b x ->
  combi_interp bd a b (combi_scheme_adaptive s) (fun_hat a b tau i) x
  = if mem (eff_level (s_lmin s) tau) (index_set s) then fun_hat a b tau i x else 0.
Proof.
  intros HI Hlmin H La B. destruct (hdims_length _ a b tau i H) as [Lb [Lt Li]].
  unfold combi_interp.
  rewrite (combined_indicator (combi_scheme_adaptive s) (eff_level (s_lmin s) tau)
             (fun l => comp_interp bd a b l (fun_hat a b tau i) x) (fun_hat a b tau i x)).
  - apply indicator_value; [exact HI|congruence].
  - intros l c Hin. destruct (scheme_levels s l c HI Hin) as [Ll Fl].
    unfold eff_level. rewrite (lv_geb_max (s_lmin s) l tau Fl).
    apply (comp_interp_hat bd (s_lmin s)); [exact Hlmin|exact H|congruence|exact Fl|exact B].
Qed.

(* (T3) quadrature *)
Theorem hier_integral_general bd a b s tau i :
  Inv s -> (0 <= s_lmin s)%Z -> hdims (hier1 bd (s_lmin s)) a b tau i -> length a = s_dim s ->
  combi_integral bd a b (combi_scheme_adaptive s) (fun_hat a b tau i)
  = if mem (eff_level (s_lmin s) tau) (index_set s) then hat_integral a b tau i else 0.
Proof.
  intros HI Hlmin H La. destruct (hdims_length _ a b tau i H) as [Lb [Lt Li]].
  unfold combi_integral.
  rewrite (combined_indicator (combi_scheme_adaptive s) (eff_level (s_lmin s) tau)
             (fun l => comp_integral bd a b l (fun_hat a b tau i)) (hat_integral a b tau i)).
  - apply indicator_value; [exact HI|congruence].
  - intros l c Hin. destruct (scheme_levels s l c HI Hin) as [Ll Fl].
    unfold eff_level. rewrite (lv_geb_max (s_lmin s) l tau Fl).
    apply (comp_integral_hat bd (s_lmin s)); [exact Hlmin|exact H|congruence|exact Fl].
Qed.

(* ---------- user-facing forms: box_ok + index conditions per dimension ---------- *)
Theorem hier_interp_indicator bd a b s tau i x :
  Inv s -> (0 <= s_lmin s)%Z -> box_ok a b -> length a = s_dim s -> length tau = s_dim s ->
  Forall2 (hier_idx bd (s_lmin s)) tau i -> in_box a b x ->
  combi_interp bd a b (combi_scheme_adaptive s) (fun_hat a b tau i) x
  = if mem (eff_level (s_lmin s) tau) (index_set s) then fun_hat a b tau i x else 0.
Proof.
  intros HI Hlmin Hbox La Lt F B. apply hier_interp_general; try assumption.
  apply (hdims_intro (hier_idx bd (s_lmin s)) a b Hbox tau i F). congruence.
Qed.

(* (T1) *)
Theorem hier_interp_exact bd a b s tau i x :
  Inv s -> (0 <= s_lmin s)%Z -> box_ok a b -> length a = s_dim s -> length tau = s_dim s ->
  Forall2 (hier_idx bd (s_lmin s)) tau i -> In (eff_level (s_lmin s) tau) (index_set s) -> in_box a b x ->
  combi_interp bd a b (combi_scheme_adaptive s) (fun_hat a b tau i) x = fun_hat a b tau i x.
Proof.
  intros HI Hlmin Hbox La Lt F Hin B. rewrite (hier_interp_indicator bd a b s tau i x HI Hlmin Hbox La Lt F B).
  apply mem_In in Hin. rewrite Hin. reflexivity.
Qed.

Theorem hier_integral_indicator bd a b s tau i :
  Inv s -> (0 <= s_lmin s)%Z -> box_ok a b -> length a = s_dim s -> length tau = s_dim s ->
  Forall2 (hier_idx bd (s_lmin s)) tau i ->
  combi_integral bd a b (combi_scheme_adaptive s) (fun_hat a b tau i)
  = if mem (eff_level (s_lmin s) tau) (index_set s) then hat_integral a b tau i else 0.
Proof.
  intros HI Hlmin Hbox La Lt F. apply hier_integral_general; try assumption.
  apply (hdims_intro (hier_idx bd (s_lmin s)) a b Hbox tau i F). congruence.
Qed.

(* (T2) *)
Theorem hier_integral_exact bd a b s tau i :
  Inv s -> (0 <= s_lmin s)%Z -> box_ok a b -> length a = s_dim s -> length tau = s_dim s ->
  Forall2 (hier_idx bd (s_lmin s)) tau i -> In (eff_level (s_lmin s) tau) (index_set s) ->
  combi_integral bd a b (combi_scheme_adaptive s) (fun_hat a b tau i) = hat_integral a b tau i.
Proof.
  intros HI Hlmin Hbox La Lt F Hin. rewrite (hier_integral_indicator bd a b s tau i HI Hlmin Hbox La Lt F).
  apply mem_In in Hin. rewrite Hin. reflexivity.
Qed.

(* ---------- closed-form scheme through the verified checker ---------- *)
Lemma std_state n lmin lmax : std_perm_check (S n) lmin lmax = true ->
  exists s, Inv s /\ (0 <= s_lmin s)%Z /\ s_dim s = S n /\ s_lmin s = lmin /\ init_scheme (S n) lmax lmin = Some s /\
            Permutation (combi_scheme_standard (S n) lmin lmax) (combi_scheme_adaptive s).
Proof.
  intro Hc. destruct (std_perm_check_sound (S n) lmin lmax Hc) as [s [Hs Hp]].
  pose proof (init_inv n lmax lmin s Hs) as HI.
  destruct (init_scheme_fields (S n) lmax lmin s Hs) as [Ed Em].
  exists s. split; [exact HI|]. split; [|split; [exact Ed|split; [exact Em|split; [exact Hs|exact Hp]]]].
  rewrite Em. unfold init_scheme in Hs.
  destruct ((lmax >=? lmin) && (lmax >=? 0) && (lmin >=? 0))%Z eqn:E; [|discriminate].
  apply andb_true_iff in E. destruct E as [_ E]. lia.
Qed.

(* index set of the standard combination = index set of the freshly initialised adaptive scheme *)
Definition std_index_set (d : nat) (lmin lmax : Z) : list lv :=
  match init_scheme d lmax lmin with Some s => index_set s | None => [] end.

Theorem std_hier_interp_indicator bd a b n lmin lmax tau i x :
  std_perm_check (S n) lmin lmax = true -> box_ok a b -> length a = S n -> length tau = S n ->
  Forall2 (hier_idx bd lmin) tau i -> in_box a b x ->
  combi_interp bd a b (combi_scheme_standard (S n) lmin lmax) (fun_hat a b tau i) x
  = if mem (eff_level lmin tau) (std_index_set (S n) lmin lmax) then fun_hat a b tau i x else 0.
Proof.
  intros Hc Hbox La Lt F B. destruct (std_state n lmin lmax Hc) as [s [HI [Hl [Ed [Em [Hs Hp]]]]]].
  unfold std_index_set. rewrite Hs. unfold combi_interp.
  rewrite (sumQ_Permutation _ _ (Permutation_map (fun kv => qc_of_Z (snd kv) * comp_interp bd a b (fst kv) (fun_hat a b tau i) x) Hp)).
  rewrite <- Em. rewrite <- Em in F.
  apply (hier_interp_indicator bd a b s tau i x HI Hl Hbox); try congruence; assumption.
Qed.

Theorem std_hier_interp_exact bd a b n lmin lmax tau i x :
  std_perm_check (S n) lmin lmax = true -> box_ok a b -> length a = S n -> length tau = S n ->
  Forall2 (hier_idx bd lmin) tau i -> In (eff_level lmin tau) (std_index_set (S n) lmin lmax) -> in_box a b x ->
  combi_interp bd a b (combi_scheme_standard (S n) lmin lmax) (fun_hat a b tau i) x = fun_hat a b tau i x.
Proof.
  intros Hc Hbox La Lt F Hin B. rewrite (std_hier_interp_indicator bd a b n lmin lmax tau i x Hc Hbox La Lt F B).
  apply mem_In in Hin. rewrite Hin. reflexivity.
Qed.

Theorem std_hier_integral_indicator bd a b n lmin lmax tau i :
  std_perm_check (S n) lmin lmax = true -> box_ok a b -> length a = S n -> length tau = S n ->
  Forall2 (hier_idx bd lmin) tau i ->
  combi_integral bd a b (combi_scheme_standard (S n) lmin lmax) (fun_hat a b tau i)
  = if mem (eff_level lmin tau) (std_index_set (S n) lmin lmax) then hat_integral a b tau i else 0.
Proof.
  intros Hc Hbox La Lt F. destruct (std_state n lmin lmax Hc) as [s [HI [Hl [Ed [Em [Hs Hp]]]]]].
  unfold std_index_set. rewrite Hs. unfold combi_integral.
  rewrite (sumQ_Permutation _ _ (Permutation_map (fun kv => qc_of_Z (snd kv) * comp_integral bd a b (fst kv) (fun_hat a b tau i)) Hp)).
  rewrite <- Em. rewrite <- Em in F.
  apply (hier_integral_indicator bd a b s tau i HI Hl Hbox); try congruence; assumption.
Qed.

Theorem std_hier_integral_exact bd a b n lmin lmax tau i :
  std_perm_check (S n) lmin lmax = true -> box_ok a b -> length a = S n -> length tau = S n ->
  Forall2 (hier_idx bd lmin) tau i -> In (eff_level lmin tau) (std_index_set (S n) lmin lmax) ->
  combi_integral bd a b (combi_scheme_standard (S n) lmin lmax) (fun_hat a b tau i) = hat_integral a b tau i.
Proof.
  intros Hc Hbox La Lt F Hin. rewrite (std_hier_integral_indicator bd a b n lmin lmax tau i Hc Hbox La Lt F).
  apply mem_In in Hin. rewrite Hin. reflexivity.
Qed.

(* ---------- interior hats: the integral is the product of the mesh widths ---------- *)
Lemma hint_hier bd lmin t i : hint_idx lmin t i -> hier_idx bd lmin t i.
Proof. intros [Ht [Hi Ho]]. split; [exact Ht|]. split; [lia|]. split; [intros _; exact Hi|exact Ho]. Qed.

Lemma Forall2_hint_hier bd lmin tau i : Forall2 (hint_idx lmin) tau i -> Forall2 (hier_idx bd lmin) tau i.
Proof. induction 1 as [|t i0 tau i H _ IH]; constructor; [apply hint_hier; exact H|exact IH]. Qed.

Lemma hat_integral_volume lmin a b tau i : box_ok a b -> length tau = length a -> Forall2 (hint_idx lmin) tau i ->
  hat_integral a b tau i = hat_volume a b tau.
Proof.
  intros Hbox Lt F. apply (hat_integral_interior lmin). apply (hdims_intro (hint_idx lmin) a b Hbox tau i F Lt).
Qed.

Theorem hier_integral_exact_interior bd a b s tau i :
  Inv s -> (0 <= s_lmin s)%Z -> box_ok a b -> length a = s_dim s -> length tau = s_dim s ->
  Forall2 (hint_idx (s_lmin s)) tau i -> In (eff_level (s_lmin s) tau) (index_set s) ->
  combi_integral bd a b (combi_scheme_adaptive s) (fun_hat a b tau i) = hat_volume a b tau.
Proof.
  intros HI Hlmin Hbox La Lt F Hin.
  rewrite (hier_integral_exact bd a b s tau i HI Hlmin Hbox La Lt (Forall2_hint_hier bd _ tau i F) Hin).
  apply (hat_integral_volume (s_lmin s)); [exact Hbox|congruence|exact F].
Qed.

Theorem std_hier_integral_exact_interior bd a b n lmin lmax tau i :
  std_perm_check (S n) lmin lmax = true -> box_ok a b -> length a = S n -> length tau = S n ->
  Forall2 (hint_idx lmin) tau i -> In (eff_level lmin tau) (std_index_set (S n) lmin lmax) ->
  combi_integral bd a b (combi_scheme_standard (S n) lmin lmax) (fun_hat a b tau i) = hat_volume a b tau.
Proof.
  intros Hc Hbox La Lt F Hin.
  rewrite (std_hier_integral_exact bd a b n lmin lmax tau i Hc Hbox La Lt (Forall2_hint_hier bd _ tau i F) Hin).
  apply (hat_integral_volume lmin); [exact Hbox|congruence|exact F].
Qed.
