(* C08: the repaired boundary tests (|x - bound| <= 1e-8 |b - a|, /repo 1502b9c) decide like equality on every sub-box whose
   ends are ON the domain boundary or at least 1e-8 |b - a| away from it - this discharges "isclose modelled as equality" for
   the repaired code: the generated count is eq_np of the hand model there. *)
From Coq Require Import ZArith List QArith Qcanon Bool Arith Lia.
From SG Require Import Base.QcUtil Base.PyNumMath Model.Tensor Model.LocalGrids Model.LocalRules Proofs.LocalGridsBase
  Proofs.LocalGridsMain Proofs.GenLocalGridsEq.
Open Scope Qc_scope.

Definition tol8 : Qc := Q2Qc (1 # 100000000).

Lemma Qc_abs_nonneg_id x : 0 <= x -> Qc_abs x = x.
Proof. intro H. unfold Qc_abs. apply Qc_leb_le in H. rewrite H. reflexivity. Qed.

Lemma Qc_abs_neg x : x <= 0 -> Qc_abs x = - x.
Proof.
  intro H. unfold Qc_abs. destruct (Qc_leb 0 x) eqn:E; [|reflexivity].
  apply Qc_leb_le in E. assert (x = 0) by (apply Qcle_antisym; assumption). subst. reflexivity.
Qed.

(* lower side: s = a, or s is further than the tolerance inside *)
Lemma touch_tol_lower s a b : a <= s -> a < b -> (s = a \/ tol8 * (b - a) < s - a) ->
  touch_tol s a a b = Qc_eqb s a.
Proof.
  intros Has Hab H. unfold touch_tol. fold tol8.
  rewrite (Qc_abs_nonneg_id (b - a)) by qc_order. rewrite (Qc_abs_nonneg_id (s - a)) by qc_order.
  destruct H as [-> | H].
  - replace (a - a) with 0 by ring. rewrite (proj2 (Qc_eqb_eq a a) eq_refl). apply Qc_leb_le.
    assert (0 < tol8) by (unfold tol8; vm_compute; reflexivity).
    assert (0 <= b - a) by qc_order.
    apply Qc_mul_nonneg; [apply Qclt_le_weak; assumption | assumption].
  - assert (Hne : Qc_eqb s a = false).
    { destruct (Qc_eqb s a) eqn:E; [|reflexivity]. apply Qc_eqb_eq in E. subst.
      exfalso. replace (a - a) with 0 in H by ring.
      assert (0 < tol8) by (unfold tol8; vm_compute; reflexivity).
      assert (0 <= tol8 * (b - a)) by (apply Qc_mul_nonneg; [apply Qclt_le_weak; assumption | qc_order]).
      apply Qclt_not_le in H. contradiction. }
    rewrite Hne. destruct (Qc_leb (s - a) (tol8 * (b - a))) eqn:E; [|reflexivity].
    apply Qc_leb_le in E. apply Qclt_not_le in H. contradiction.
Qed.

Lemma touch_tol_upper e a b : e <= b -> a < b -> (e = b \/ tol8 * (b - a) < b - e) ->
  touch_tol e b a b = Qc_eqb e b.
Proof.
  intros Heb Hab H. unfold touch_tol. fold tol8.
  rewrite (Qc_abs_nonneg_id (b - a)) by qc_order. rewrite (Qc_abs_neg (e - b)) by qc_order.
  replace (- (e - b)) with (b - e) by ring.
  destruct H as [-> | H].
  - replace (b - b) with 0 by ring. rewrite (proj2 (Qc_eqb_eq b b) eq_refl). apply Qc_leb_le.
    assert (0 < tol8) by (unfold tol8; vm_compute; reflexivity).
    apply Qc_mul_nonneg; [apply Qclt_le_weak; assumption | qc_order].
  - assert (Hne : Qc_eqb e b = false).
    { destruct (Qc_eqb e b) eqn:E; [|reflexivity]. apply Qc_eqb_eq in E. subst.
      exfalso. replace (b - b) with 0 in H by ring.
      assert (0 < tol8) by (unfold tol8; vm_compute; reflexivity).
      assert (0 <= tol8 * (b - a)) by (apply Qc_mul_nonneg; [apply Qclt_le_weak; assumption | qc_order]).
      apply Qclt_not_le in H. contradiction. }
    rewrite Hne. destruct (Qc_leb (b - e) (tol8 * (b - a))) eqn:E; [|reflexivity].
    apply Qc_leb_le in E. apply Qclt_not_le in H. contradiction.
Qed.

(* a dimension whose sub-box ends are on the boundary or clearly inside *)
Definition clear_of_boundary (x : dim1) : Prop :=
  (d_s x = d_a x \/ tol8 * (d_b x - d_a x) < d_s x - d_a x) /\ (d_e x = d_b x \/ tol8 * (d_b x - d_a x) < d_b x - d_e x).

Theorem repaired_tests_are_equality x : dim_ok x -> clear_of_boundary x ->
  touch_lower_v true (d_s x) (d_a x) (d_b x) = Qc_eqb (d_s x) (d_a x) /\
  touch_upper_trap_v true (d_e x) (d_a x) (d_b x) = Qc_eqb (d_e x) (d_b x) /\
  touch_upper_cc_v true (d_e x) (d_a x) (d_b x) = Qc_eqb (d_e x) (d_b x).
Proof.
  intros (Has & Hse & Heb) (Hl & Hu). assert (Hab : d_a x < d_b x) by qc_order.
  cbn [touch_lower_v touch_upper_trap_v touch_upper_cc_v].
  split; [apply touch_tol_lower; assumption | split; apply touch_tol_upper; assumption].
Qed.
