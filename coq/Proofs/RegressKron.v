(* C20: the smoothing matrix = gradient Gram matrix of the tensor hat basis,
        C(t,u) = sum_d  grad_d(t_d,u_d) * prod_{n<>d} mass_n(t_n,u_n)          (Model/Regress.v: C_val_dw_spec),
   is POSITIVE SEMI-DEFINITE in every dimension, on the cross product of arbitrary strictly increasing stripes
   (C_matrix_dw_spec) and on every uniform level vector (C_matrix_uniform false).
   Same argument as for the mass matrix of C16 (Proofs/KronSOS.v, StripeSOS.v, GramKron.v): the 1D stiffness matrix is
   sum over the cells of (1/h)(d_k+1 - d_k)(d_k+1 - d_k)^T, the 1D mass matrix has the representation of GramKron.v; products
   and sums of weighted sums of squares with non-negative weights are weighted sums of squares. *)
From Coq Require Import ZArith List QArith Qcanon Bool Lia Lqa.
From SG Require Import Base.QcUtil Model.Gram Model.Regress Proofs.GramHat Proofs.GramEntries Proofs.GramPD Proofs.GramNorm
  Proofs.KronSOS Proofs.StripeSOS Proofs.GramKron Proofs.RegressLS Proofs.RegressUniform Proofs.DECacheP Proofs.DEUniformInterp.
Import ListNotations.
Open Scope Qc_scope.

(* ------------------------------------------------------------------ 1D: the mass factor of the specification *)
Lemma mass_diag x0 x1 x2 : x0 < x1 -> x1 < x2 ->
  mass1_spec (mkH x0 x1 x2) (mkH x0 x1 x2) = (x1 - x0) / Qc3 + (x2 - x1) / Qc3.
Proof.
  intros H01 H12. unfold mass1_spec. cbn [h_p]. rewrite Qc_eqb_refl. cbn [orb].
  rewrite R1_same by (split; assumption). cbn [h_lo h_hi]. field. exact Qc3_nz.
Qed.

Lemma mass_off x0 x1 x2 rest u : strictly_inc (x0 :: x1 :: x2 :: rest) -> In u (windows (x1 :: x2 :: rest)) ->
  mass1_spec (mkH x0 x1 x2) u = (x2 - x1) / Qc6 * delta x2 u /\ mass1_spec u (mkH x0 x1 x2) = (x2 - x1) / Qc6 * delta x2 u.
Proof.
  intros [H01 Hs1] Hu. pose proof Hs1 as [H12 _].
  assert (N12 : x1 <> x2) by (apply lt_neq; exact H12).
  pose proof (windows_proper _ Hs1 u Hu) as [Pl Ph].
  destruct (rest_windows_cases x1 x2 rest u Hs1 Hu) as [[x3 [E1 [E2 [E3 H23]]]]|[Hgt Hlo]].
  - destruct u as [ul up uh]. cbn [h_lo h_p h_hi] in *. subst ul up uh.
    unfold mass1_spec, adjacent1; cbn [h_lo h_p h_hi]. rewrite (delta_eq x2) by reflexivity.
    rewrite !Qc_eqb_refl. rewrite orb_true_r. cbn [orb].
    assert (A : (Qc_eqb x2 x1 || (Qc_eqb x1 x3 || true))%bool = true) by (rewrite !orb_true_r; reflexivity). rewrite A.
    rewrite !R1_distinct by (cbn [h_p]; first [exact N12 | intro E; apply N12; symmetry; exact E]).
    cbn [h_p]. rewrite (Qc_abs_neg_eq (x1 - x2)) by qc_order. rewrite (Qc_abs_nonneg_eq (x2 - x1)) by qc_order.
    split; field; exact Qc6_nz.
  - unfold mass1_spec, adjacent1; cbn [h_lo h_p h_hi].
    rewrite (delta_neq x2 u) by (apply gt_neq; exact Hgt).
    assert (A : Qc_eqb x1 (h_p u) = false) by (apply Qc_eqb_false; apply lt_neq; qc_order).
    assert (B : Qc_eqb (h_p u) x2 = false) by (apply Qc_eqb_false; apply gt_neq; exact Hgt).
    assert (C : Qc_eqb (h_p u) x0 = false) by (apply Qc_eqb_false; apply gt_neq; qc_order).
    assert (D : Qc_eqb (h_p u) x1 = false) by (apply Qc_eqb_false; apply gt_neq; qc_order).
    assert (E : Qc_eqb x1 (h_hi u) = false) by (apply Qc_eqb_false; apply lt_neq; qc_order).
    assert (F : Qc_eqb x1 (h_lo u) = false) by (apply Qc_eqb_false; apply lt_neq; qc_order).
    rewrite A, B, C, D, E, F. cbn [orb]. split; ring.
Qed.

Theorem mass_represents xs : strictly_inc xs -> represents mass1_spec (hat_terms xs) (windows xs).
Proof.
  apply (stripe_represents mass1_spec cell_terms (fun x0 x1 => (x1 - x0) / Qc3) (fun x0 x1 => (x1 - x0) / Qc6)).
  - exact cell_val.
  - exact mass_diag.
  - exact mass_off.
Qed.

(* ------------------------------------------------------------------ 1D: the gradient factor *)
Definition grad_cell (x0 x1 : Qc) : list (term hatdom) := [(1 / (x1 - x0), fun t => delta x1 t - delta x0 t)].
Definition grad_terms (xs : list Qc) : list (term hatdom) := stripe_terms grad_cell xs.

Lemma grad_cell_val x0 x1 t u :
  sos_val (grad_cell x0 x1) t u
  = 1 / (x1 - x0) * (delta x0 t * delta x0 u + delta x1 t * delta x1 u)
    + - (1 / (x1 - x0)) * (delta x0 t * delta x1 u + delta x1 t * delta x0 u).
Proof. unfold sos_val, grad_cell. cbn [map sumQ fst snd]. ring. Qed.

Lemma grad_diag x0 x1 x2 : x0 < x1 -> x1 < x2 ->
  grad1_spec (mkH x0 x1 x2) (mkH x0 x1 x2) = 1 / (x1 - x0) + 1 / (x2 - x1).
Proof. intros _ _. unfold grad1_spec. cbn [h_lo h_p h_hi]. rewrite Qc_eqb_refl. reflexivity. Qed.

Lemma grad_off x0 x1 x2 rest u : strictly_inc (x0 :: x1 :: x2 :: rest) -> In u (windows (x1 :: x2 :: rest)) ->
  grad1_spec (mkH x0 x1 x2) u = - (1 / (x2 - x1)) * delta x2 u /\ grad1_spec u (mkH x0 x1 x2) = - (1 / (x2 - x1)) * delta x2 u.
Proof.
  intros [H01 Hs1] Hu. pose proof Hs1 as [H12 _].
  assert (N12 : x1 <> x2) by (apply lt_neq; exact H12).
  pose proof (windows_proper _ Hs1 u Hu) as [Pl Ph].
  destruct (rest_windows_cases x1 x2 rest u Hs1 Hu) as [[x3 [E1 [E2 [E3 H23]]]]|[Hgt Hlo]].
  - destruct u as [ul up uh]. cbn [h_lo h_p h_hi] in *. subst ul up uh.
    unfold grad1_spec, adjacent1; cbn [h_lo h_p h_hi]. rewrite (delta_eq x2) by reflexivity.
    assert (A : Qc_eqb x1 x2 = false) by (apply Qc_eqb_false; exact N12).
    assert (B : Qc_eqb x2 x1 = false) by (apply Qc_eqb_false; intro E; apply N12; symmetry; exact E).
    rewrite A, B, !Qc_eqb_refl. rewrite orb_true_r. cbn [orb].
    rewrite (Qc_abs_neg_eq (x1 - x2)) by qc_order. rewrite (Qc_abs_nonneg_eq (x2 - x1)) by qc_order.
    replace (- (x1 - x2)) with (x2 - x1) by ring. split; ring.
  - unfold grad1_spec, adjacent1; cbn [h_lo h_p h_hi].
    rewrite (delta_neq x2 u) by (apply gt_neq; exact Hgt).
    assert (A : Qc_eqb x1 (h_p u) = false) by (apply Qc_eqb_false; apply lt_neq; qc_order).
    assert (B : Qc_eqb (h_p u) x2 = false) by (apply Qc_eqb_false; apply gt_neq; exact Hgt).
    assert (C : Qc_eqb (h_p u) x0 = false) by (apply Qc_eqb_false; apply gt_neq; qc_order).
    assert (D : Qc_eqb (h_p u) x1 = false) by (apply Qc_eqb_false; apply gt_neq; qc_order).
    assert (E : Qc_eqb x1 (h_hi u) = false) by (apply Qc_eqb_false; apply lt_neq; qc_order).
    assert (F : Qc_eqb x1 (h_lo u) = false) by (apply Qc_eqb_false; apply lt_neq; qc_order).
    rewrite A, B, C, D, E, F. cbn [orb]. split; ring.
Qed.

Theorem grad_represents xs : strictly_inc xs -> represents grad1_spec (grad_terms xs) (windows xs).
Proof.
  apply (stripe_represents grad1_spec grad_cell (fun x0 x1 => 1 / (x1 - x0)) (fun x0 x1 => - (1 / (x1 - x0)))).
  - exact grad_cell_val.
  - exact grad_diag.
  - exact grad_off.
Qed.

Lemma grad_terms_nonneg xs : strictly_inc xs -> coeffs_nonneg (grad_terms xs).
Proof.
  apply stripe_terms_Forall. intros x0 x1 H01. unfold grad_cell. repeat constructor. cbn [fst].
  apply Qclt_le_weak. apply div_pos; [apply sub_pos; exact H01 | qc_order].
Qed.

(* the 1D stiffness form:  v^T K v = sum over the cells of (v_k+1 - v_k)^2 / h_k  >= 0  (every stripe) *)
Theorem grad_1d_psd xs lam v : strictly_inc xs -> 0 <= lam -> length v = length (windows xs) ->
  0 <= quad (sym_matrix grad1_spec lam (windows xs)) v.
Proof.
  intros Hs Hlam Hl. apply (sos_psd grad1_spec (grad_terms xs)); try assumption.
  - apply grad_represents; exact Hs.
  - apply grad_terms_nonneg; exact Hs.
Qed.

(* ------------------------------------------------------------------ d dimensions *)
Definition mass_fam (xs : list Qc) : fam hatdom := mkFam (windows xs) mass1_spec (hat_terms xs).

Fixpoint C_terms (stripes : list (list Qc)) : list (term (list hatdom)) :=
  match stripes with
  | [] => []
  | xs :: rest => tprod (grad_terms xs) (Tprod (map mass_fam rest)) ++ tprod (hat_terms xs) (C_terms rest)
  end.

Lemma dw_terms_scale : forall t u pre, dw_terms pre t u = pre * dw_terms 1 t u.
Proof.
  induction t as [|a t IH]; intros u pre; [cbn; ring|]. destruct u as [|b u]; [cbn; ring|].
  cbn [dw_terms]. rewrite (IH u (pre * mass1_spec a b)), (IH u (1 * mass1_spec a b)). ring.
Qed.

Lemma C_val_cons a b t u :
  C_val_dw_spec (a :: t) (b :: u) = grad1_spec a b * prodQ (map2 mass1_spec t u) + mass1_spec a b * C_val_dw_spec t u.
Proof. unfold C_val_dw_spec. cbn [dw_terms]. rewrite (dw_terms_scale t u (1 * mass1_spec a b)). ring. Qed.

Lemma massprod_eprod stripes : forall t u,
  In t (cross (map windows stripes)) -> In u (cross (map windows stripes)) ->
  prodQ (map2 mass1_spec t u) = eprod (map mass_fam stripes) t u.
Proof.
  induction stripes as [|xs stripes IH]; intros t u Ht Hu; cbn [map cross] in Ht, Hu.
  - destruct Ht as [Ht|[]]; destruct Hu as [Hu|[]]. subst. reflexivity.
  - apply in_cross_cons in Ht. destruct Ht as [a [t' [Et [Ha Ht']]]].
    apply in_cross_cons in Hu. destruct Hu as [b [u' [Eu [Hb Hu']]]]. subst t u.
    cbn [map2 prodQ map eprod mass_fam f_e]. rewrite (IH t' u' Ht' Hu'). reflexivity.
Qed.

Lemma kron_pts_mass stripes : kron_pts (map mass_fam stripes) = cross (map windows stripes).
Proof. unfold kron_pts. rewrite map_map. reflexivity. Qed.

Lemma massprod_represents stripes : Forall strictly_inc stripes ->
  represents (fun t u => prodQ (map2 mass1_spec t u)) (Tprod (map mass_fam stripes)) (cross (map windows stripes)).
Proof.
  intros Hs t u Ht Hu. rewrite (massprod_eprod stripes t u Ht Hu). rewrite <- kron_pts_mass in Ht, Hu.
  apply kron_represents; [|assumption|assumption].
  apply Forall_forall. intros F HF. apply in_map_iff in HF. destruct HF as [xs [E Hx]]. subst F.
  apply mass_represents. exact (proj1 (Forall_forall _ _) Hs xs Hx).
Qed.

Theorem C_represents stripes : Forall strictly_inc stripes ->
  represents C_val_dw_spec (C_terms stripes) (cross (map windows stripes)).
Proof.
  induction 1 as [|xs stripes Hx Hs IH]; intros t u Ht Hu; cbn [map cross] in Ht, Hu.
  - destruct Ht as [Ht|[]]; destruct Hu as [Hu|[]]. subst. reflexivity.
  - apply in_cross_cons in Ht. destruct Ht as [a [t' [Et [Ha Ht']]]].
    apply in_cross_cons in Hu. destruct Hu as [b [u' [Eu [Hb Hu']]]]. subst t u.
    cbn [C_terms]. rewrite sos_val_app, !sos_val_tprod, C_val_cons.
    rewrite <- (grad_represents xs Hx a b Ha Hb), <- (mass_represents xs Hx a b Ha Hb).
    rewrite <- (massprod_represents stripes Hs t' u' Ht' Hu'), <- (IH t' u' Ht' Hu'). reflexivity.
Qed.

Lemma C_terms_nonneg stripes : Forall strictly_inc stripes -> coeffs_nonneg (C_terms stripes).
Proof.
  induction 1 as [|xs stripes Hx Hs IH]; [constructor|]. cbn [C_terms]. apply coeffs_nonneg_app.
  - apply coeffs_nonneg_tprod; [apply grad_terms_nonneg; exact Hx|].
    apply kron_coeffs_nonneg. apply Forall_forall. intros F HF. apply in_map_iff in HF. destruct HF as [ys [E Hy]]. subst F.
    apply coeffs_pos_nonneg. apply hat_terms_pos. exact (proj1 (Forall_forall _ _) Hs ys Hy).
  - apply coeffs_nonneg_tprod; [apply coeffs_pos_nonneg; apply hat_terms_pos; exact Hx | exact IH].
Qed.

(* MAIN THEOREM: the gradient Gram matrix is positive semi-definite in every dimension *)
Theorem C_dw_spec_nd_psd stripes lam v :
  Forall strictly_inc stripes -> 0 <= lam -> length v = length (cross (map windows stripes)) ->
  0 <= quad (sym_matrix C_val_dw_spec lam (cross (map windows stripes))) v.
Proof.
  intros Hs Hlam Hl. apply (sos_psd C_val_dw_spec (C_terms stripes)); try assumption.
  - apply C_represents; exact Hs.
  - apply C_terms_nonneg; exact Hs.
Qed.

Theorem C_matrix_dw_spec_psd stripes : Forall good_stripe stripes -> psd (length (grid_hats stripes)) (C_matrix_dw_spec stripes).
Proof.
  intros H v Hl. unfold C_matrix_dw_spec.
  assert (U : Forall unit_stripe stripes) by exact H.
  rewrite (grid_hats_windows stripes U) in *.
  apply C_dw_spec_nd_psd; [|apply Qcle_refl | exact Hl].
  eapply Forall_impl; [|exact H]. intros xs Hx. apply Hx.
Qed.

(* uniform level vectors: build_C_matrix as repaired (mass terms with the level of their own dimension) *)
Theorem C_matrix_uniform_psd lv : Forall (fun l => (1 <= l)%Z) lv -> psd (length (index_list lv)) (C_matrix_uniform false lv).
Proof.
  intros Hl. rewrite (C_matrix_uniform_is_gradient_gram lv Hl).
  assert (E : sym_matrix (fun iv jv => C_val_dw_spec (uhats lv iv) (uhats lv jv)) 0 (index_list lv)
              = C_matrix_dw_spec (map uniform_stripe lv)).
  { unfold C_matrix_dw_spec. rewrite (grid_hats_uniform lv Hl). rewrite sym_matrix_map. reflexivity. }
  rewrite E.
  assert (L : length (index_list lv) = length (grid_hats (map uniform_stripe lv))).
  { rewrite (grid_hats_uniform lv Hl), map_length. reflexivity. }
  rewrite L. apply C_matrix_dw_spec_psd.
  apply Forall_forall. intros s Hs. apply in_map_iff in Hs. destruct Hs as [l [Es Hin]]. subst s.
  apply uniform_stripe_good. exact (proj1 (Forall_forall _ _) Hl l Hin).
Qed.
