(* C04, dimension-wise strategy: the 'if' direction for the INTERPOLANT.  In a state whose trees tile the domain (C06) and
   whose scheme satisfies the C01 invariant, the combined interpolant reproduces a hierarchical hat at every point of the
   domain whenever its level vector tau - componentwise a level at which the stripe of that dimension contains the hat's
   kinks - lies in the index set.  Assembly: interpN of a tensor product = product of the 1D interpolants
   (Proofs/StdHierTensor.v), 1D exactness on a grid resolving the kinks (Proofs/HatOnGrid.v), product combination theorem
   (Proofs/CombiProduct.v) - exactly as for the integral (Proofs/DimWiseExactProofs.v). *)
From Coq Require Import ZArith List Bool QArith Qcanon Lia Sorted Arith.
From SG Require Import Base.QcUtil Model.CombiScheme Model.RefTree.
From SG Require Import Model.StdCombi Model.Trap.
From SG Require Import Model.DimWise Model.DimWiseInterp Model.DimWiseExact
     Proofs.SchemeBasics Proofs.SchemeIE Proofs.SchemeInv Proofs.CombiAbstract Proofs.NodalExact Proofs.StdGrid Proofs.StdNodal
     Proofs.HatFacts Proofs.StdHier1D Proofs.StdHierTensor Proofs.StdHierTrap Proofs.TrapBasics Proofs.Trap
     Proofs.RefTreeInv Proofs.DimWiseStripes Proofs.DimWiseCombi Proofs.C03Main Proofs.DimWiseNodal
     Proofs.CombiProduct Proofs.HatOnGrid Proofs.DimWiseExactProofs.
Import ListNotations.
Local Open Scope Qc_scope.
Local Arguments Z.add : simpl never.
Local Arguments Z.sub : simpl never.
Local Arguments Z.pow : simpl never.

(* ---------------------------------------------------------------------------------------------- *)
(* the tensor hat as a tensor product; the zero-boundary mask does not change it *)
Lemma fun_hat_tprod : forall a b j i q, length b = length a -> length j = length a -> length i = length a ->
  fun_hat a b j i q = tprod (hat_list a b j i) q.
Proof.
  induction a as [|a0 a IH]; intros [|b0 b] [|j0 j] [|i0 i] q Lb Lj Li; simpl in Lb, Lj, Li; try discriminate.
  - destruct q; reflexivity.
  - destruct q as [|x0 q]; [reflexivity|]. cbn [fun_hat hat_list tprod]. rewrite IH by lia. reflexivity.
Qed.

Inductive inner_ok : list Qc -> list Qc -> lv -> lv -> Prop :=
| inner_nil : inner_ok [] [] [] []
| inner_cons a0 b0 j0 i0 a b j i : a0 < b0 -> (0 <= j0)%Z -> (1 <= i0 <= 2 ^ j0 - 1)%Z -> inner_ok a b j i ->
    inner_ok (a0 :: a) (b0 :: b) (j0 :: j) (i0 :: i).

Lemma fun_hat_on_boundary : forall a b j i, inner_ok a b j i -> forall q, on_boundary a b q = true -> fun_hat a b j i q = 0.
Proof.
  induction 1 as [|a0 b0 j0 i0 a b j i Hab Hj Hi _ IH]; intros q Hq; [destruct q; discriminate|].
  destruct q as [|x0 q]; [discriminate|]. cbn [on_boundary] in Hq. cbn [fun_hat].
  destruct (hat1_at_ends a0 b0 j0 i0 Hab Hj Hi) as [Z0 Z1].
  apply orb_true_iff in Hq. destruct Hq as [Hq|Hq].
  - apply orb_true_iff in Hq. destruct Hq as [Hq|Hq]; apply Qc_eqb_eq in Hq; subst x0; [rewrite Z0 | rewrite Z1]; ring.
  - rewrite (IH q Hq). ring.
Qed.

Lemma masked_fun_hat bd a b j i q : (bd = false -> inner_ok a b j i) -> masked bd a b (fun_hat a b j i) q = fun_hat a b j i q.
Proof.
  intro H. unfold masked. destruct bd; [reflexivity|]. destruct (on_boundary a b q) eqn:E; [|reflexivity].
  symmetry. apply fun_hat_on_boundary; [apply H; reflexivity | exact E].
Qed.

(* ---------------------------------------------------------------------------------------------- *)
(* the combined interpolant of a tensor product as a product combination *)
Fixpoint dw_is (o : dw_opts) (st : dw_state) (d0 : nat) (gs : list (Qc -> Qc)) (x : list Qc) : list (Z -> Qc) :=
  match gs, x with
  | g0 :: gs', x0 :: x' => (fun l => interp1 (dw_stripe_coords o st d0 l) g0 x0) :: dw_is o st (S d0) gs' x'
  | _, _ => []
  end.

Lemma dw_is_length o st : forall gs x d0, length x = length gs -> length (dw_is o st d0 gs x) = length gs.
Proof. induction gs as [|g gs IH]; intros [|x0 x] d0 L; simpl in *; try discriminate; [reflexivity | rewrite IH by lia; reflexivity]. Qed.

Lemma tprod_interps_dw o st : forall lv gs x d0, length gs = length lv -> length x = length lv ->
  tprod (interps (map (fun dl : nat * Z => dw_stripe_coords o st (fst dl) (snd dl)) (combine (seq d0 (length lv)) lv)) gs) x
  = prod_at (dw_is o st d0 gs x) lv.
Proof.
  induction lv as [|l lv IH]; intros [|g gs] [|x0 x] d0 Lg Lx; simpl in Lg, Lx; try discriminate; [reflexivity|].
  cbn [length seq combine map interps tprod dw_is prod_at fst snd]. rewrite (IH gs x (S d0)) by lia. reflexivity.
Qed.

Lemma dw_combi_interp_prod o st a b gs f x n :
  (forall q, masked (o_boundary o) a b f q = tprod gs q) ->
  length gs = n -> length x = n ->
  (forall l c, In (l, c) (combi_scheme_adaptive (st_scheme st)) -> length l = n) ->
  dw_combi_interp o st a b f x = combined_prod (combi_scheme_adaptive (st_scheme st)) (dw_is o st 0 gs x).
Proof.
  intros Hf Lg Lx Hcs. unfold dw_combi_interp, combined_prod. f_equal. apply map_ext_in. intros [l c] Hin. cbn [fst snd].
  f_equal. unfold dw_comp_interp, dw_grids. pose proof (Hcs l c Hin) as Ll.
  rewrite (interpN_ext _ _ (tprod gs) x Hf).
  rewrite interpN_tprod by (rewrite map_length, combine_length, seq_length; lia).
  apply tprod_interps_dw; lia.
Qed.

(* ---------------------------------------------------------------------------------------------- *)
(* one dimension: the interpolant on the stripe of level l reproduces the hat once the stripe resolves its kinks *)
Theorem i1_hat_exact a b o st d t a0 b0 j i tau l x :
  TilesOK a b st -> nth_error (st_trees st) d = Some t -> nth d a 0 = a0 -> nth d b 0 = b0 ->
  a0 < b0 -> (0 <= j)%Z ->
  dw_stripe_pts o st d tau <> [] ->
  resolves a0 b0 (gpoint a0 b0 j i) (step a0 b0 j) (dw_stripe_pts o st d tau) ->
  (tau <= l)%Z -> a0 <= x -> x <= b0 ->
  interp1 (dw_stripe_coords o st d l) (hat1 a0 b0 j i) x = hat1 a0 b0 j i x.
Proof.
  intros HT Hd Ea Eb Hab Hj Hne HR Hl Hx0 Hx1.
  assert (HH : 0 < step a0 b0 j) by (apply step_pos; assumption).
  assert (Hdef : exists s, stripe_dim o st d l = Some s).
  { unfold dw_stripe_pts in Hne. destruct (stripe_dim o st d tau) as [s1|] eqn:E1; [|contradiction].
    destruct (dw_stripes_monotone o st d tau l s1 E1 Hl) as (s2 & E2 & _). eauto. }
  destruct Hdef as [s Es].
  destruct (dw_stripes_sorted_with_endpoints a b o st d l t s HT Hd Es) as [S0 (r & Er)].
  rewrite Ea, Eb in Er.
  assert (Epts : dw_stripe_coords o st d l = a0 :: map fst r ++ [b0]).
  { unfold dw_stripe_coords. rewrite Es, Er. simpl. rewrite map_app. reflexivity. }
  assert (S1 : StronglySorted Qclt (a0 :: map fst r ++ [b0])).
  { rewrite Er in S0. simpl in S0. rewrite map_app in S0. exact S0. }
  assert (HRl : resolves a0 b0 (gpoint a0 b0 j i) (step a0 b0 j) (a0 :: map fst r ++ [b0])).
  { rewrite <- Epts. rewrite dw_stripe_coords_pts. eapply resolves_incl; [|exact HR]. apply dw_stripe_pts_nested. exact Hl. }
  pose proof (sorted_list_bounds _ _ _ S1) as Hbounds.
  rewrite Epts. change (hat1 a0 b0 j i) with (hatc (gpoint a0 b0 j i) (step a0 b0 j)).
  apply (interp_hat_on_grid a0 b0 _ _ _ x HH S1 Hbounds HRl).
  - simpl. lia.
  - exact Hx0.
  - rewrite nq_last_app. exact Hx1.
Qed.

(* x lies in the box, positions counted from d0 *)
Inductive in_box (a b : list Qc) : nat -> list Qc -> Prop :=
| in_box_nil d0 : in_box a b d0 []
| in_box_cons d0 x0 x : nth d0 a 0 <= x0 -> x0 <= nth d0 b 0 -> in_box a b (S d0) x -> in_box a b d0 (x0 :: x).

Lemma hat_ok_stat_interp a b o st lmin : TilesOK a b st -> forall d0 j i tau, hat_ok o st a b lmin d0 j i tau ->
  forall x, in_box a b d0 x -> length x = length j ->
  length (skipn d0 a) = length j -> length (skipn d0 b) = length j ->
  stat lmin (dw_is o st d0 (hat_list (skipn d0 a) (skipn d0 b) j i) x) tau
  /\ prod_at (dw_is o st d0 (hat_list (skipn d0 a) (skipn d0 b) j i) x) tau
     = tprod (hat_list (skipn d0 a) (skipn d0 b) j i) x.
Proof.
  intros HT d0 j i tau H. induction H as [d0|d0 j0 i0 t0 j i tau tr Htr Hab Hj Hi Hbd Hlm Hne HR _ IH]; intros x Hx Lx La Lb.
  - destruct x; [|discriminate]. destruct (skipn d0 a); [|discriminate]. split; [constructor | reflexivity].
  - destruct x as [|x0 x]; [discriminate|]. inversion Hx as [|? ? ? Hx0 Hx1 Hxr]; subst.
    destruct (skipn d0 a) as [|a0 a'] eqn:Ea; [discriminate|]. destruct (skipn d0 b) as [|b0 b'] eqn:Eb; [discriminate|].
    destruct (skipn_cons_nth a d0 a0 a' 0 Ea) as [Na Sa]. destruct (skipn_cons_nth b d0 b0 b' 0 Eb) as [Nb Sb].
    simpl in La, Lb, Lx. rewrite Sa, Sb in IH. destruct (IH x Hxr ltac:(lia) ltac:(lia) ltac:(lia)) as [IH1 IH2].
    rewrite Na, Nb in *.
    assert (Q : forall l, (t0 <= l)%Z ->
                interp1 (dw_stripe_coords o st d0 l) (hat1 a0 b0 j0 i0) x0 = hat1 a0 b0 j0 i0 x0).
    { intros l Hl. eapply (i1_hat_exact a b o st d0 tr a0 b0 j0 i0 t0 l x0); eassumption. }
    cbn [hat_list dw_is prod_at tprod]. split.
    + constructor; [|exact Hlm | exact IH1].
      intros l Hl. cbv beta. rewrite (Q l Hl), (Q t0 ltac:(lia)). reflexivity.
    + rewrite IH2. rewrite (Q t0 ltac:(lia)). reflexivity.
Qed.

Lemma hat_ok_inner o st a b lmin : o_boundary o = false -> forall d0 j i tau, hat_ok o st a b lmin d0 j i tau ->
  length (skipn d0 a) = length j -> length (skipn d0 b) = length j ->
  inner_ok (skipn d0 a) (skipn d0 b) j i.
Proof.
  intros Ebd d0 j i tau H. induction H as [d0|d0 j0 i0 t0 j i tau tr Htr Hab Hj Hi Hbd Hlm Hne HR _ IH]; intros La Lb.
  - destruct (skipn d0 a); [|discriminate]. destruct (skipn d0 b); [|discriminate]. constructor.
  - destruct (skipn d0 a) as [|a0 a'] eqn:Ea; [discriminate|]. destruct (skipn d0 b) as [|b0 b'] eqn:Eb; [discriminate|].
    destruct (skipn_cons_nth a d0 a0 a' 0 Ea) as [Na Sa]. destruct (skipn_cons_nth b d0 b0 b' 0 Eb) as [Nb Sb].
    simpl in La, Lb. rewrite Sa, Sb in IH. rewrite Na, Nb in *.
    constructor; [exact Hab | exact Hj | exact (Hbd Ebd) | apply IH; lia].
Qed.

(* the 'if' direction for the interpolant *)
Theorem dw_exact_if_interp a b o st j i tau x :
  Inv (st_scheme st) -> TilesOK a b st ->
  length a = s_dim (st_scheme st) -> length b = s_dim (st_scheme st) -> length j = s_dim (st_scheme st) ->
  hat_ok o st a b (s_lmin (st_scheme st)) 0 j i tau ->
  In tau (index_set (st_scheme st)) ->
  length x = s_dim (st_scheme st) -> in_box a b 0 x ->
  dw_combi_interp o st a b (fun_hat a b j i) x = fun_hat a b j i x.
Proof.
  intros HI HT La Lb Lj Hok Htau Lx Hx. set (s := st_scheme st) in *. set (cs := combi_scheme_adaptive s). set (lmin := s_lmin s).
  destruct (hat_ok_length _ _ _ _ _ _ _ _ _ Hok) as [Li Lt].
  destruct (hat_ok_stat_interp a b o st lmin HT 0 j i tau Hok x Hx) as [Hstat Hprod]; [lia | simpl; lia | simpl; lia|].
  simpl skipn in Hstat, Hprod.
  set (gs := hat_list a b j i) in *.
  assert (Lg : length gs = s_dim s) by (unfold gs; rewrite hat_list_length; lia).
  assert (Hcs : forall l c, In (l, c) cs -> length l = s_dim s).
  { intros l c Hl. destruct (scheme_support s l c HI Hl) as [Hli _]. apply index_set_In in Hli.
    destruct (inv_wf s HI l Hli) as [Ll _]. exact Ll. }
  assert (Hmask : forall q, masked (o_boundary o) a b (fun_hat a b j i) q = tprod gs q).
  { intro q. rewrite masked_fun_hat.
    - apply fun_hat_tprod; lia.
    - intro Ebd. apply (hat_ok_inner o st a b lmin Ebd 0 j i tau Hok); simpl; lia. }
  rewrite (dw_combi_interp_prod o st a b gs (fun_hat a b j i) x (s_dim s) Hmask Lg Lx Hcs). fold s cs.
  rewrite (fun_hat_tprod a b j i x) by lia. fold gs.
  set (es := dw_is o st 0 gs x) in *.
  assert (Les : length es = s_dim s) by (unfold es; rewrite dw_is_length; lia).
  set (mx := fold_right Z.max 0%Z (tau ++ flat_map fst cs)).
  assert (Hmx : forall v, In v (tau ++ flat_map fst cs) -> (v <= mx)%Z).
  { unfold mx. induction (tau ++ flat_map fst cs) as [|y r IH]; intros v Hv; [destruct Hv|].
    simpl. destruct Hv as [->|Hv]; [lia|]. specialize (IH v Hv). lia. }
  set (M := Z.to_nat (mx - lmin)).
  rewrite <- Hprod.
  apply (product_combination_exact lmin (index_set s) cs es M).
  - intros l c Hl. rewrite Les. split; [apply (Hcs l c Hl)|].
    destruct (scheme_support s l c HI Hl) as [Hli _]. apply index_set_In in Hli.
    destruct (inv_wf s HI l Hli) as [_ Fl]. apply Forall_forall. intros v Hv. rewrite Forall_forall in Fl. specialize (Fl v Hv).
    assert (v <= mx)%Z by (apply Hmx; apply in_or_app; right; apply in_flat_map; exists (l, c); split; assumption).
    unfold M. lia.
  - intros l Ll Fl. rewrite Les in Ll. apply scheme_inclusion_exclusion; assumption.
  - intros k' j' Hk' Lj' Fj'. apply (scheme_downward_closed s HI k' j'); assumption.
  - exact Hstat.
  - exact Htau.
  - apply index_set_In in Htau. destruct (inv_wf s HI tau Htau) as [_ Ft].
    apply Forall_forall. intros v Hv. rewrite Forall_forall in Ft. specialize (Ft v Hv).
    assert (v <= mx)%Z by (apply Hmx; apply in_or_app; left; assumption). unfold M. fold lmin in Ft. lia.
Qed.

(* executable form of in_box *)
Fixpoint in_boxb (a b : list Qc) (d0 : nat) (x : list Qc) : bool :=
  match x with
  | [] => true
  | x0 :: x' => Qc_leb (nth d0 a 0) x0 && Qc_leb x0 (nth d0 b 0) && in_boxb a b (S d0) x'
  end.
Lemma in_boxb_sound a b : forall x d0, in_boxb a b d0 x = true -> in_box a b d0 x.
Proof.
  induction x as [|x0 x IH]; intros d0 H; [constructor|]. simpl in H.
  apply andb_true_iff in H. destruct H as [H H3]. apply andb_true_iff in H. destruct H as [H1 H2].
  constructor; [apply Qc_leb_le; exact H1 | apply Qc_leb_le; exact H2 | apply IH; exact H3].
Qed.
