(* C07: the per-area dictionary levelvec_dict over refinement histories.
   Invariant (all versions, all histories): the dictionary of every area in the container is empty or (version 0) the
   first-occurrence map left behind by complete passes of coarsen_grid over the CURRENT scheme with the area's CURRENT
   coarsening value (update() resets it whenever lmax / the coarsening value change).  Consequences:
     - whatever calls of coarsen_grid happened before (evaluation, observations, interpolation, twin-error passes), the
       component grids computed on an area are local_combi (st_cp st) (a_coarse x): the function the bounded / general
       validity theorems speak about;
     - version 0: every area of every reachable state carries a valid local combination, and the local interpolant
       reproduces an arbitrary function at the points of the computed area grids. *)
From Coq Require Import ZArith List Bool QArith Qcanon Lia.
From SG Require Import Base.QcUtil Model.CombiScheme Model.StdCombi Model.ExtendSplit Model.ESInterp
     Proofs.SchemeBasics Proofs.StdCombiSum Proofs.StdNodal Proofs.ESGeom Proofs.ESInv Proofs.ESCombi Proofs.ESV0 Proofs.ESNodal.
Import ListNotations.
Open Scope Z_scope.
Local Arguments Z.add : simpl never.
Local Arguments Z.sub : simpl never.
Local Arguments Z.leb : simpl never.
Local Arguments Z.eqb : simpl never.

(* ---------------------------------------------------------------- versions 1,2 never touch the dictionary *)

Lemma coarsen_grid_v12 cp c D l : cp_version cp <> 0 ->
  coarsen_grid cp c D l = (fst (coarsen_grid cp c [] l), D).
Proof.
  intro H. unfold coarsen_grid. destruct (Z.eqb_spec (cp_version cp) 0) as [E | _]; [contradiction | reflexivity].
Qed.

Lemma coarsen_all_v12 cp c : cp_version cp <> 0 -> forall sch D,
  coarsen_all cp c D sch = (fst (coarsen_all cp c [] sch), D).
Proof.
  intros H sch. induction sch as [|[l cf] r IH]; intro D; [reflexivity|]. cbn [coarsen_all].
  rewrite (coarsen_grid_v12 cp c D l H), (coarsen_grid_v12 cp c [] l H).
  rewrite (IH D), (IH []). reflexivity.
Qed.

(* ---------------------------------------------------------------- the per-area invariant *)

Definition DictOK (cp : cparams) (x : area) : Prop :=
  a_dict x = [] \/ (cp_version cp = 0 /\ agrees (a_coarse x) (a_dict x) (map fst (the_scheme cp))).

Lemma the_scheme_NoDup cp : NoDup (map fst (the_scheme cp)).
Proof. apply std_keys_NoDup. Qed.

Lemma register_ok cp x : DictOK cp x -> DictOK cp (register cp x).
Proof.
  intro H. unfold register, DictOK. cbn [a_dict a_coarse with_dict].
  destruct (Z.eq_dec (cp_version cp) 0) as [Hv | Hv].
  - right. split; [exact Hv|]. destruct H as [E | [_ HA]].
    + rewrite E. apply v0_first_pass. exact Hv.
    + apply (v0_second_pass cp Hv (a_coarse x) (a_dict x) (the_scheme cp) (the_scheme_NoDup cp) HA).
  - left. destruct H as [E | [Hv' _]]; [|contradiction]. rewrite E, (coarsen_all_v12 cp _ Hv). reflexivity.
Qed.

Lemma dictok_results cp x : DictOK cp x ->
  fst (coarsen_all cp (a_coarse x) (a_dict x) (the_scheme cp)) = fst (coarsen_all cp (a_coarse x) [] (the_scheme cp)).
Proof.
  intros [E | [Hv HA]]; [rewrite E; reflexivity|].
  apply (v0_second_pass cp Hv (a_coarse x) (a_dict x) (the_scheme cp) (the_scheme_NoDup cp) HA).
Qed.

(* the computed grids of an area in ANY admissible dictionary state are local_combi *)
Theorem area_grids_local_combi cp x : DictOK cp x -> area_grids cp x = local_combi cp (a_coarse x).
Proof. intro H. unfold area_grids, local_combi. rewrite (dictok_results cp x H). reflexivity. Qed.

Lemma dictok_empty cp x : a_dict x = [] -> DictOK cp x.
Proof. intro E. left. exact E. Qed.

(* ---------------------------------------------------------------- state invariant *)

Definition DI (v b : Z) (st : state) : Prop :=
  st_version st = v /\ st_base st = b /\ Forall (DictOK (st_cp st)) (st_objs st).

Lemma split_single_empty k l : Forall (fun y => a_dict y = []) (flat_map (split_area_single_dim k) l).
Proof.
  apply Forall_forall. intros y Hy. apply in_flat_map in Hy. destruct Hy as [z [_ Hy]].
  unfold split_area_single_dim in Hy.
  assert (F : Forall (fun y => a_dict y = []) (mapi (child_of z) 0 (halves k (abox z)))) by (apply mapi_Forall; intros; reflexivity).
  rewrite Forall_forall in F. apply F. exact Hy.
Qed.

Lemma split_dims_dicts dims x : Forall (fun y => a_dict y = [] \/ y = x) (split_dims dims x).
Proof.
  unfold split_dims.
  assert (G : forall l, Forall (fun y => a_dict y = [] \/ y = x) l ->
              Forall (fun y => a_dict y = [] \/ y = x) (fold_left (fun objs k => flat_map (split_area_single_dim k) objs) dims l)).
  { induction dims as [|k dims IH]; intros l H; simpl; [exact H|]. apply IH.
    eapply Forall_impl; [|apply split_single_empty]. intros y Hy. left. exact Hy. }
  apply G. constructor; [right; reflexivity | constructor].
Qed.

Lemma refine_area_dicts st x dec news ch inc : refine_area st x dec = (news, ch, inc) ->
  (inc = true -> exists y, news = [y] /\ a_dict y = []) /\
  (inc = false -> Forall (fun y => a_dict y = [] \/ y = x) news).
Proof.
  unfold refine_area. intro E. destruct (decide (st_auto st) (fst dec) x).
  - injection E as E1 E2 E3. subst news ch. split.
    + intros _. eexists. split; reflexivity.
    + intros _. constructor; [left; reflexivity | constructor].
  - destruct (st_single st); injection E as E1 E2 E3; subst news ch inc; (split; [discriminate|]); intros _.
    + apply split_dims_dicts.
    + unfold split_area_arbitrary_dim. apply mapi_Forall. intros j q. left. reflexivity.
Qed.

Lemma dictok_kill cp y : DictOK cp y -> DictOK cp (kill y).
Proof. intro H. exact H. Qed.

Lemma do_refinement_DI v b st i decs : DI v b st -> DI v b (fst (do_refinement st i decs)).
Proof.
  intros [Hv [Hb HF]]. unfold do_refinement. destruct (nth_error (st_objs st) i) as [x|] eqn:Hn; [|split; [exact Hv | split; [exact Hb | exact HF]]].
  destruct (refine_area st x (lookup (abox x) decs (false, []))) as [[news ch] inc] eqn:E.
  destruct (refine_area_dicts _ _ _ _ _ _ E) as [RT RF]. cbn [fst].
  split; [exact Hv | split; [exact Hb|]]. cbn [st_objs].
  assert (Hx : DictOK (st_cp st) x).
  { rewrite Forall_forall in HF. apply HF. eapply nth_error_In. exact Hn. }
  destruct inc.
  - destruct (RT eq_refl) as [y [En Ey]]. subst news. cbn [length]. change (2 <? 1)%nat with false. rewrite andb_false_r.
    apply Forall_app. split.
    + apply Forall_kill_nth; [intros z Hz; exact Hz|]. apply Forall_forall. intros z Hz. apply in_map_iff in Hz.
      destruct Hz as [z0 [Ez _]]. subst z. left. reflexivity.
    + constructor; [left; exact Ey | constructor].
  - specialize (RF eq_refl).
    assert (Ecp : st_cp (mkState (st_dim st) (st_version st) (st_lmin st) (st_lmax st) (st_auto st) (st_single st) (st_a st) (st_b st)
                                 (kill_nth i (st_objs st) ++ (if st_single st && (2 <? length news)%nat then map (register (st_cp st)) news else news))
                                 (st_start_new st) (tree_add (a_path x) ch (st_tree st)) (st_bmax st) (st_base st)) = st_cp st) by reflexivity.
    rewrite Ecp. apply Forall_app. split.
    + apply Forall_kill_nth; [intros z Hz; exact Hz | exact HF].
    + assert (FN : Forall (DictOK (st_cp st)) news).
      { eapply Forall_impl; [|exact RF]. intros y [Ey | Ey]; [left; exact Ey | subst y; exact Hx]. }
      destruct (st_single st && (2 <? length news)%nat); [|exact FN].
      apply Forall_forall. intros y Hy. apply in_map_iff in Hy. destruct Hy as [z [Ez Hz]]. subst y.
      apply register_ok. rewrite Forall_forall in FN. apply FN. exact Hz.
Qed.

Lemma round_body_DI v b tol decs acc i : DI v b (fst acc) -> DI v b (fst (round_body tol decs acc i)).
Proof.
  destruct acc as [s lg]. cbn [fst]. intro H. unfold round_body.
  destruct (nth_error (st_objs s) i) as [x|]; [|exact H].
  destruct (Qc_leb tol (a_benefit x)); [|exact H].
  pose proof (do_refinement_DI v b s i decs H) as R. destruct (do_refinement s i decs) as [s' l']. exact R.
Qed.

Lemma round_loop_DI v b tol decs l : forall acc, DI v b (fst acc) -> DI v b (fst (fold_left (round_body tol decs) l acc)).
Proof. induction l as [|i l IH]; intros acc H; simpl; [exact H|]. apply IH. apply round_body_DI. exact H. Qed.

Lemma refine_round_DI v b st decs : DI v b st -> DI v b (fst (refine_round st decs)).
Proof.
  intro H. unfold refine_round.
  change (fun (acc : state * list (box * (bool * list nat))) (i : nat) =>
            let '(s, lg) := acc in
            match nth_error (st_objs s) i with
            | Some x => if Qc_leb (st_bmax st * margin)%Qc (a_benefit x)
                        then let '(s', l') := do_refinement s i decs in (s', lg ++ l') else (s, lg)
            | None => (s, lg)
            end) with (round_body (st_bmax st * margin)%Qc decs).
  pose proof (round_loop_DI v b (st_bmax st * margin)%Qc decs (seq 0 (length (st_objs st))) (st, []) H) as L.
  destruct (fold_left (round_body (st_bmax st * margin)%Qc decs) (seq 0 (length (st_objs st))) (st, [])) as [st1 log].
  cbn [fst] in *. destruct L as [Hv [Hb HF]]. split; [exact Hv | split; [exact Hb|]]. cbn [st_objs].
  change (st_cp _) with (st_cp st1). apply Forall_forall. intros y Hy. apply filter_In in Hy. destruct Hy as [Hy _].
  rewrite Forall_forall in HF. apply HF. exact Hy.
Qed.

Lemma evaluate_DI v b st bens : DI v b st -> DI v b (fst (evaluate st bens)).
Proof.
  intros [Hv [Hb HF]]. unfold evaluate. cbn [fst]. split; [exact Hv | split; [exact Hb|]]. cbn [st_objs].
  change (st_cp _) with (st_cp st).
  rewrite <- (firstn_skipn (st_start_new st) (st_objs st)) in HF. apply Forall_app in HF. destruct HF as [F1 F2].
  apply Forall_app. split; [exact F1|]. apply Forall_forall. intros y Hy. apply in_map_iff in Hy.
  destruct Hy as [z [Ez Hz]]. subst y. rewrite Forall_forall in F2.
  exact (register_ok (st_cp st) z (F2 z Hz)).
Qed.

Lemma observe_DI v b st : DI v b st -> DI v b (fst (observe_coarsen st)).
Proof.
  intros [Hv [Hb HF]]. unfold observe_coarsen, set_objs. cbn [fst]. split; [exact Hv | split; [exact Hb|]]. cbn [st_objs].
  change (st_cp _) with (st_cp st). apply Forall_forall. intros y Hy. apply in_map_iff in Hy.
  destruct Hy as [z [Ez Hz]]. subst y. rewrite Forall_forall in HF. exact (register_ok (st_cp st) z (HF z Hz)).
Qed.

Lemma mapi_with_path_dicts : forall l i, Forall (fun y => a_dict y = []) l ->
  Forall (fun y => a_dict y = []) (mapi (fun j x => with_path x [j]) i l).
Proof.
  induction l as [|y l IH]; intros i H; simpl; [constructor|]. inversion H; subst. constructor; [assumption | apply IH; assumption].
Qed.

Lemma init_DI dim version nrbe lmin lmax base auto single a b :
  DI version base (init_state dim version nrbe lmin lmax base auto single a b).
Proof.
  unfold init_state. destruct single; (split; [reflexivity | split; [reflexivity|]]); cbn [st_objs].
  - apply Forall_forall. intros y Hy. apply in_map_iff in Hy. destruct Hy as [z [Ez Hz]]. subst y.
    apply register_ok. apply dictok_empty.
    assert (F : Forall (fun y => a_dict y = []) (mapi (fun i x => with_path x [i]) 0
                  (split_dims (seq 0 dim) (mkArea a b 0 0 (nrbe + Z.of_nat dim) 0%Qc [] [] false)))).
    { apply mapi_with_path_dicts. eapply Forall_impl; [|apply split_dims_dicts]. intros y [Ey | Ey]; [exact Ey | subst y; reflexivity]. }
    rewrite Forall_forall in F. apply F. exact Hz.
  - unfold split_area_arbitrary_dim. apply mapi_Forall. intros j q. left. reflexivity.
Qed.

Lemma step_DI v b st inp : DI v b st -> DI v b (step st inp).
Proof. intro H. unfold step. apply evaluate_DI. apply refine_round_DI. exact H. Qed.

Lemma run_DI v b hist : forall st, DI v b st -> DI v b (run_events st hist).
Proof.
  unfold run_events. induction hist as [|ev hist IH]; intros st H; simpl; [exact H|]. apply IH.
  destruct ev; [apply step_DI | apply observe_DI]; exact H.
Qed.

Lemma start_DI dim version nrbe lmin lmax base auto single a b bens0 :
  DI version base (start_state dim version nrbe lmin lmax base auto single a b bens0).
Proof. unfold start_state. apply evaluate_DI. apply init_DI. Qed.

(* ---------------------------------------------------------------- every history *)

Section History.
Variables (dim : nat) (version nrbe lmin lmax base : Z) (auto single : bool) (a b : list Qc) (bens0 : list (box * Z)).
Hypotheses (Hbox : wfbox a b) (Hdim : length a = dim) (Hlev : lmin <= lmax).
Let reach (hist : list event) : state :=
  run_events (start_state dim version nrbe lmin lmax base auto single a b bens0) hist.

Lemma reach_cp hist : st_cp (reach hist) = mkCP dim version lmin (st_lmax (reach hist)) base.
Proof.
  destruct (run_DI version base hist _ (start_DI dim version nrbe lmin lmax base auto single a b bens0)) as [Hv [Hb _]].
  destruct (run_good dim a b lmin hist _ (start_good dim version nrbe lmin lmax base auto single a b bens0 Hbox Hdim Hlev))
    as [_ [_ [E1 [_ [_ E4]]]]].
  fold (reach hist) in Hv, Hb, E1, E4. unfold st_cp. rewrite Hv, Hb, E1, E4. reflexivity.
Qed.

(* all versions: the grids computed on an area do not depend on the history of coarsen_grid calls *)
Theorem area_grids_history hist x : In x (st_objs (reach hist)) ->
  area_grids (st_cp (reach hist)) x = local_combi (mkCP dim version lmin (st_lmax (reach hist)) base) (a_coarse x).
Proof.
  intro Hx. destruct (run_DI version base hist _ (start_DI dim version nrbe lmin lmax base auto single a b bens0)) as [_ [_ HF]].
  fold (reach hist) in HF. rewrite Forall_forall in HF. rewrite (area_grids_local_combi _ x (HF x Hx)), reach_cp. reflexivity.
Qed.

Lemma area_box_ok hist x : In x (st_objs (reach hist)) ->
  box_ok (a_start x) (a_end x) /\ length (a_start x) = dim /\ length (a_end x) = dim.
Proof.
  intro Hx. pose proof (leaves_tile_domain dim version nrbe lmin lmax base auto single a b bens0 hist Hbox Hdim Hlev) as P.
  fold (reach hist) in P. pose proof (pt_wf _ _ _ P) as W. rewrite Forall_forall in W.
  destruct (W (abox x) (in_map abox _ x Hx)) as [W1 W2]. cbn [abox fst snd] in W1, W2.
  pose proof (wfbox_length _ _ W1) as L. split; [|split; [exact W2 | congruence]].
  clear -W1. revert W1. generalize (a_end x). induction (a_start x) as [|s0 s IH]; intros [|e0 e] H; simpl in H; try contradiction; constructor.
  - apply H.
  - apply IH. apply H.
Qed.
End History.

(* version 0, dimension >= 2: every area of every reachable state carries a valid local combination ... *)
Theorem v0_every_area_valid n nrbe lmin lmax base auto single a b bens0 hist x :
  wfbox a b -> length a = S (S n) -> lmin <= lmax ->
  let st := run_events (start_state (S (S n)) 0 nrbe lmin lmax base auto single a b bens0) hist in
  In x (st_objs st) -> valid_local_combi (S (S n)) (area_grids (st_cp st) x) = true.
Proof.
  intros Hbox Hdim Hlev st Hx. unfold st in *.
  rewrite (area_grids_history (S (S n)) 0 nrbe lmin lmax base auto single a b bens0 Hbox Hdim Hlev hist x Hx).
  apply local_combi_v0_valid.
  exact (coarsening_nonneg (S (S n)) 0 nrbe lmin lmax base auto single a b bens0 hist Hbox Hdim Hlev x Hx).
Qed.

(* ... and its local interpolant reproduces an ARBITRARY function at every point of every computed area grid *)
Theorem v0_every_area_nodal_exact n nrbe lmin lmax base auto single a b bens0 hist x f p g0 c0 :
  wfbox a b -> length a = S (S n) -> lmin <= lmax ->
  let st := run_events (start_state (S (S n)) 0 nrbe lmin lmax base auto single a b bens0) hist in
  In x (st_objs st) -> In (g0, c0) (area_grids (st_cp st) x) -> in_comp true (a_start x) (a_end x) p g0 = true ->
  area_interp (st_cp st) x f p = f p.
Proof.
  intros Hbox Hdim Hlev st Hx Hg Hp. unfold st in *.
  destruct (area_box_ok (S (S n)) 0 nrbe lmin lmax base auto single a b bens0 Hbox Hdim Hlev hist x Hx) as [B [L1 L2]].
  unfold area_interp. apply (checked_local_nodal_exact (S (S n)) _ _ _ f p g0 c0); try assumption.
  apply (v0_every_area_valid n nrbe lmin lmax base auto single a b bens0 hist x Hbox Hdim Hlev Hx).
Qed.

(* all versions: if the verified checker accepts the local combination of the area (what the bounded theorem / the
   per-case evaluation establish for versions 1,2), the interpolant is nodally exact on the area *)
Theorem checked_area_nodal_exact dim version nrbe lmin lmax base auto single a b bens0 hist x f p g0 c0 :
  wfbox a b -> length a = dim -> lmin <= lmax ->
  let st := run_events (start_state dim version nrbe lmin lmax base auto single a b bens0) hist in
  In x (st_objs st) -> valid_local_combi dim (local_combi (mkCP dim version lmin (st_lmax st) base) (a_coarse x)) = true ->
  In (g0, c0) (area_grids (st_cp st) x) -> in_comp true (a_start x) (a_end x) p g0 = true ->
  area_interp (st_cp st) x f p = f p.
Proof.
  intros Hbox Hdim Hlev st Hx Hv Hg Hp. unfold st in *.
  destruct (area_box_ok dim version nrbe lmin lmax base auto single a b bens0 Hbox Hdim Hlev hist x Hx) as [B [L1 L2]].
  unfold area_interp. apply (checked_local_nodal_exact dim _ _ _ f p g0 c0); try assumption.
  rewrite (area_grids_history dim version nrbe lmin lmax base auto single a b bens0 Hbox Hdim Hlev hist x Hx). exact Hv.
Qed.

(* the whole interpolation call (__call__ / interpolate_points): every returned value is the local interpolant of an
   area of the container, and (version 0, every history) it equals f at p whenever p is a point of a computed grid of
   that area *)
Lemma es_interpolate_In st f pts p v : In (p, v) (es_interpolate st f pts) ->
  exists x, In x (st_objs st) /\ v = area_interp (st_cp st) x f p.
Proof.
  unfold es_interpolate. intro H. apply in_flat_map in H. destruct H as [[bx ps] [_ H]]. cbn [fst snd] in H.
  destruct (find_area bx (st_objs st)) as [x|] eqn:E; [|destruct H].
  apply in_map_iff in H. destruct H as [q [Eq _]]. injection Eq as E1 E2. subst q v.
  unfold find_area in E. apply find_some in E. exists x. split; [apply E | reflexivity].
Qed.

Theorem v0_interpolation_nodal_exact n nrbe lmin lmax base auto single a b bens0 hist f pts p v :
  wfbox a b -> length a = S (S n) -> lmin <= lmax ->
  let st := run_events (start_state (S (S n)) 0 nrbe lmin lmax base auto single a b bens0) hist in
  In (p, v) (es_interpolate st f pts) ->
  exists x, In x (st_objs st) /\ v = area_interp (st_cp st) x f p /\
    forall g0 c0, In (g0, c0) (area_grids (st_cp st) x) -> in_comp true (a_start x) (a_end x) p g0 = true -> v = f p.
Proof.
  intros Hbox Hdim Hlev st H. destruct (es_interpolate_In st f pts p v H) as [x [Hx Ev]].
  exists x. split; [exact Hx | split; [exact Ev|]]. intros g0 c0 Hg Hp. rewrite Ev.
  exact (v0_every_area_nodal_exact n nrbe lmin lmax base auto single a b bens0 hist x f p g0 c0 Hbox Hdim Hlev Hx Hg Hp).
Qed.
