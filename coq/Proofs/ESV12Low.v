(* C07, coarsen_grid versions 1 and 2, GENERAL partial result (every dimension >= 1, every lmin <= lmax, every coarsening value,
   every value of base): a round of the while loop lowers the maximal level m only if  2 m >= lmax + base - coarsening + delta
   (delta = 1 for version 1, 2 for version 2: the `no_forward_problem` test), so no level is ever pushed below
   thr/2 - 1.  Hence for every level vector k below that threshold  [coarsened(l) >= k] = [l >= k], and the coefficient sum
   at the points of level k is the one of the closed-form standard scheme: 1.
   What is NOT proved in general: inclusion-exclusion for k above the threshold (there [coarsened(l) >= k] = [l >= k] and the
   loop did not reach max(k) - 1, a budget condition sum_i (l_i - max k + 1)^+ > coarsening that is not an up-set in l). *)
From Coq Require Import ZArith List Bool QArith Qcanon Lia.
From SG Require Import Base.QcUtil Model.CombiScheme Model.ExtendSplit Proofs.SchemeBasics Proofs.SchemeClosedForm
     Proofs.ESCombi Proofs.ESV0 Proofs.ESDict Proofs.ESShift.
Import ListNotations.
Open Scope Z_scope.
Local Arguments Z.add : simpl never.
Local Arguments Z.sub : simpl never.
Local Arguments Z.mul : simpl never.
Local Arguments Z.leb : simpl never.
Local Arguments Z.eqb : simpl never.
Local Arguments Z.max : simpl never.

Definition v12_delta (version : Z) : Z := if version =? 1 then 1 else 2.

(* y is x, or x lowered but not below the threshold *)
Definition low_ok (thr : Z) (x y : Z) : Prop := y = x \/ (y < x /\ thr - 2 <= 2 * y).

Lemma low_ok_refl thr t : Forall2 (low_ok thr) t t.
Proof. induction t as [|x t IH]; constructor; [left; reflexivity | exact IH]. Qed.

Lemma low_ok_trans thr : forall a b c, Forall2 (low_ok thr) a b -> Forall2 (low_ok thr) b c -> Forall2 (low_ok thr) a c.
Proof.
  intros a b c H. revert c. induction H as [|x y a b Hxy _ IH]; intros c Hc; inversion Hc as [|? z ? c' Hyz Hc']; subst; constructor.
  - destruct Hxy as [E | [L1 T1]], Hyz as [E' | [L2 T2]]; subst; [left; reflexivity | right; split; assumption
      | right; split; assumption | right; split; lia].
  - apply IH. exact Hc'.
Qed.

Lemma dec_all_low thr m t : thr <= 2 * m -> Forall2 (low_ok thr) t (dec_all m t).
Proof.
  intro H. unfold dec_all. induction t as [|x t IH]; simpl; constructor; [|exact IH].
  destruct (Z.eqb_spec x m); [right; lia | left; reflexivity].
Qed.

Lemma v12_loop_low version dimz base lmin lmax csave td : forall fuel c t,
  Forall2 (low_ok (lmax + base - csave + v12_delta version)) t (v12_loop fuel version dimz base lmin lmax csave td c t).
Proof.
  induction fuel as [|fuel IH]; intros c t; [apply low_ok_refl|]. cbn [v12_loop].
  destruct (c >? 0); [|apply low_ok_refl].
  destruct (maxl t =? lmin); [apply low_ok_refl|].
  match goal with |- context [if ?b then _ else _] => destruct b eqn:Eb end; [|apply low_ok_refl].
  eapply low_ok_trans; [|apply IH]. apply dec_all_low.
  unfold v12_delta. destruct (version =? 1) eqn:Ev; apply andb_true_iff in Eb; destruct Eb as [Eb _];
    apply Z.geb_le in Eb; nia.
Qed.

Lemma low_ok_le thr : forall t u, Forall2 (low_ok thr) t u -> Forall2 (fun x y => y <= x) t u.
Proof. induction 1 as [|x y t u H _ IH]; constructor; [destruct H as [E | [L _]]; lia | exact IH]. Qed.

(* below the threshold domination is unchanged *)
Lemma low_ok_geb thr : forall t u k, Forall2 (low_ok thr) t u -> Forall (fun x => 2 * x <= thr - 2) k ->
  lv_geb u k = lv_geb t k.
Proof.
  intros t u k H. revert k. induction H as [|x y t u Hxy _ IH]; intros [|z k] Hk; simpl; try reflexivity.
  inversion Hk as [|? ? Hz Hk']; subst. rewrite (IH k Hk'). f_equal.
  destruct Hxy as [E | [L T]]; [subst; reflexivity|].
  destruct (Z.leb_spec z y), (Z.leb_spec z x); try reflexivity; lia.
Qed.

Section Low.
Variables (n : nat) (v lmin lmax base c : Z).
Hypotheses (Hv : v <> 0) (Hle : lmin <= lmax).
Let d := S n.
Let cp := mkCP d v lmin lmax base.
Let thr := lmax + base - c + v12_delta v.

Lemma local_combi_v12_form : local_combi cp c =
  map (fun lc => (sub_lmin lmin (v12_loop (Z.to_nat c) v (Z.of_nat d) base lmin lmax c
                                   ((lmax + (Z.of_nat d - 1) * base) - sumZ (fst lc) =? 0) c (fst lc)), snd lc))
      (combi_scheme_standard d lmin lmax).
Proof.
  unfold local_combi. rewrite (computed_grids_v12 cp c Hv). apply map_ext. intros [l cf]. cbn [fst snd]. f_equal.
  unfold coarsen_grid, cp. cbn [cp_version cp_lmin cp_lmax cp_base cp_dim].
  destruct (Z.eqb_spec v 0) as [E | _]; [contradiction | reflexivity].
Qed.

(* FULL STATEMENT (open in general, proved inside the enumerated box by C07_local_combi_v12_valid_all_lmin_bounded):
     local_IE d (local_combi cp c)   for all d >= 2, lmin <= lmax, 0 <= c <= lmax - lmin, base = lmin.
   PROVED PART: inclusion-exclusion at every level vector k (relative to lmin) with 2 (k_i + lmin) <= thr - 2 for all i,
   i.e. for base = lmin:  2 k_i <= (lmax - lmin - c) + delta - 2. *)
Theorem local_combi_v12_IE_low : forall k, length k = d -> Forall (fun x => 0 <= x) k ->
  Forall (fun x => 2 * (x + lmin) <= thr - 2) k ->
  (exists g, In g (local_combi cp c) /\ lv_geb (fst g) k = true) ->
  dominating_sum (local_combi cp c) k = 1.
Proof.
  intros k Lk Pk Tk [g [Hg Dg]].
  set (k' := map (fun x => x + lmin) k).
  assert (Fk' : Forall (fun x => lmin <= x) k').
  { unfold k'. apply Forall_forall. intros x Hx. apply in_map_iff in Hx. destruct Hx as [y [E Hy]]. subst x.
    rewrite Forall_forall in Pk. specialize (Pk y Hy). lia. }
  assert (Tk' : Forall (fun x => 2 * x <= thr - 2) k').
  { unfold k'. apply Forall_forall. intros x Hx. apply in_map_iff in Hx. destruct Hx as [y [E Hy]]. subst x.
    rewrite Forall_forall in Tk. apply (Tk y Hy). }
  assert (Key : forall l td, lv_geb (sub_lmin lmin (v12_loop (Z.to_nat c) v (Z.of_nat d) base lmin lmax c td c l)) k = lv_geb l k').
  { intros l td. rewrite lv_geb_sub_lmin. fold k'. apply (low_ok_geb thr); [apply v12_loop_low | exact Tk']. }
  assert (E : dominating_sum (local_combi cp c) k = dominating_sum (combi_scheme_standard d lmin lmax) k').
  { rewrite local_combi_v12_form. unfold dominating_sum. rewrite map_map. f_equal. apply map_ext. intros [l cf]. cbn [fst snd].
    rewrite Key. reflexivity. }
  rewrite E. unfold d. rewrite std_IE; [| exact Hle | unfold k'; rewrite map_length; exact Lk | exact Fk'].
  rewrite local_combi_v12_form in Hg. apply in_map_iff in Hg. destruct Hg as [[l cf] [Eg Hl]]. subst g. cbn [fst] in Dg.
  rewrite Key in Dg. apply std_member in Hl. destruct Hl as [q [_ [_ [_ [Sm _]]]]]. apply lv_geb_sum in Dg.
  destruct (Z.leb_spec (sumZ k') (lmax - lmin + Z.of_nat (S n) * lmin)); [reflexivity | fold d in Sm; unfold d in Sm; lia].
Qed.

(* the coarsened level vectors are componentwise between the threshold cut and the original ones *)
Theorem v12_never_below_threshold : forall l td,
  Forall2 (low_ok thr) l (v12_loop (Z.to_nat c) v (Z.of_nat d) base lmin lmax c td c l).
Proof. intros l td. apply v12_loop_low. Qed.
End Low.
