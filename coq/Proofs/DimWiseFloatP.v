(* C06 / C03: the float-decided branches.  Inside the table bounds (safety factors 0.1, 0, 0.125, 0.25, 0.05; end-start-2 <= 64;
   version 3: dim <= 6, sv <= 64) the decision function of the model IS the binary64 evaluation of the Python expression with
   Coq's primitive floats - the harness no longer supplies these decisions. *)
From Coq Require Import ZArith List Bool QArith Qcanon Arith Lia Floats.
From SG Require Import Base.QcUtil Base.Sx Model.RefTree Model.DimWise Model.DimWiseFloat Model.DimWiseWire.
Import ListNotations.

Lemma mem_triple_In t l : mem_triple t l = true <-> In t l.
Proof.
  unfold mem_triple. rewrite existsb_exists. destruct t as [[a b] c]. split.
  - intros ([[a' b'] c'] & Hin & E). apply andb_true_iff in E. destruct E as [E E3]. apply andb_true_iff in E. destruct E as [E1 E2].
    apply Nat.eqb_eq in E1, E2, E3. subst. exact Hin.
  - intro Hin. exists (a, b, c). split; [exact Hin|]. rewrite !Nat.eqb_refl. reflexivity.
Qed.

Lemma mem_triple_app t a b : mem_triple t (a ++ b) = mem_triple t a || mem_triple t b.
Proof. unfold mem_triple. apply existsb_app. Qed.

Lemma rb_exc_float_In sf M pos pos1 m :
  In (pos, pos1, m) (rb_exc_float sf M) <->
  (1 <= m <= M)%nat /\ (pos < m + 2)%nat /\ (pos1 < m + 2)%nat /\
  rb_dec_float sf pos pos1 m <> rebalance_dec_exact (Qc_of_float sf) pos pos1 m.
Proof.
  unfold rb_exc_float. rewrite in_flat_map. split.
  - intros (m' & Hm & H). apply in_seq in Hm. apply in_flat_map in H. destruct H as (p & Hp & H). apply in_seq in Hp.
    apply in_flat_map in H. destruct H as (p1 & Hp1 & H). apply in_seq in Hp1.
    destruct (Bool.eqb _ _) eqn:E; [contradiction|]. destruct H as [H|[]]. injection H as -> -> ->.
    repeat split; try lia. intro Heq. rewrite Heq in E. rewrite eqb_reflx in E. discriminate.
  - intros (Hm & Hp & Hp1 & Hne). exists m. split; [apply in_seq; lia|]. apply in_flat_map. exists pos. split; [apply in_seq; lia|].
    apply in_flat_map. exists pos1. split; [apply in_seq; lia|].
    destruct (Bool.eqb _ _) eqn:E; [apply eqb_prop in E; contradiction | left; reflexivity].
Qed.

(* the decision in binary64 = exact decision flipped on the table, for everything inside the table's range *)
Theorem rb_dec_float_table sf M pos pos1 m : (1 <= m <= M)%nat -> (pos < m + 2)%nat -> (pos1 < m + 2)%nat ->
  rb_dec_float sf pos pos1 m
  = xorb (rebalance_dec_exact (Qc_of_float sf) pos pos1 m) (mem_triple (pos, pos1, m) (rb_exc_float sf M)).
Proof.
  intros Hm Hp Hp1. destruct (mem_triple (pos, pos1, m) (rb_exc_float sf M)) eqn:E.
  - apply mem_triple_In, rb_exc_float_In in E. destruct E as (_ & _ & _ & Hne).
    destruct (rb_dec_float sf pos pos1 m), (rebalance_dec_exact (Qc_of_float sf) pos pos1 m); try reflexivity; exfalso; apply Hne; reflexivity.
  - destruct (Bool.bool_dec (rb_dec_float sf pos pos1 m) (rebalance_dec_exact (Qc_of_float sf) pos pos1 m)) as [Heq|Hne].
    + rewrite Heq. destruct (rebalance_dec_exact _ _ _ _); reflexivity.
    + exfalso. assert (In (pos, pos1, m) (rb_exc_float sf M)) by (apply rb_exc_float_In; repeat split; try lia; exact Hne).
      apply mem_triple_In in H. congruence.
Qed.

(* the tables stored in the model are these sets (re-computed here) *)
Lemma rb_tab_010_ok : rb_tab_010 = rb_exc_float sf_010 RB_BOUND. Proof. vm_compute. reflexivity. Qed.
Lemma rb_tab_000_ok : rb_tab_000 = rb_exc_float sf_000 RB_BOUND. Proof. vm_compute. reflexivity. Qed.
Lemma rb_tab_0125_ok : rb_tab_0125 = rb_exc_float sf_0125 RB_BOUND. Proof. vm_compute. reflexivity. Qed.
Lemma rb_tab_025_ok : rb_tab_025 = rb_exc_float sf_025 RB_BOUND. Proof. vm_compute. reflexivity. Qed.
Lemma rb_tab_005_ok : rb_tab_005 = rb_exc_float sf_005 RB_BOUND. Proof. vm_compute. reflexivity. Qed.

Definition certified_sf (sf : float) : Prop := sf = sf_010 \/ sf = sf_000 \/ sf = sf_0125 \/ sf = sf_025 \/ sf = sf_005.

Lemma rb_cert_table_ok sf : certified_sf sf -> rb_cert_table (Qc_of_float sf) = rb_exc_float sf RB_BOUND.
Proof.
  intros [-> | [-> | [-> | [-> | ->]]]].
  - rewrite <- rb_tab_010_ok. vm_compute. reflexivity.
  - rewrite <- rb_tab_000_ok. vm_compute. reflexivity.
  - rewrite <- rb_tab_0125_ok. vm_compute. reflexivity.
  - rewrite <- rb_tab_025_ok. vm_compute. reflexivity.
  - rewrite <- rb_tab_005_ok. vm_compute. reflexivity.
Qed.

(* the rebalancing test of the model's options: binary64, whatever the harness supplies beyond the bound *)
Theorem mk_opts_rebalance_test_is_binary64 version rebal boundary margin sf dim exc_rb exc_v3 pos pos1 m :
  certified_sf sf -> (forall t, In t exc_rb -> (RB_BOUND < snd t)%nat) ->
  (1 <= m <= RB_BOUND)%nat -> (pos < m + 2)%nat -> (pos1 < m + 2)%nat ->
  o_dec (mk_opts version rebal boundary margin (Qc_of_float sf) dim exc_rb exc_v3) pos pos1 m = rb_dec_float sf pos pos1 m.
Proof.
  intros Hsf Hexc Hm Hp Hp1. unfold mk_opts. cbn [o_dec].
  rewrite (rb_cert_table_ok sf Hsf), mem_triple_app.
  assert (E : mem_triple (pos, pos1, m) exc_rb = false).
  { destruct (mem_triple (pos, pos1, m) exc_rb) eqn:E; [|reflexivity]. apply mem_triple_In in E. specialize (Hexc _ E). simpl in Hexc. lia. }
  rewrite E, orb_false_r. symmetry. apply rb_dec_float_table; assumption.
Qed.

(* ---------------------------------------------------------------------------------------------- *)
(* version 3 *)
Lemma mem_pair_In t l : mem_pair t l = true <-> In t l.
Proof.
  unfold mem_pair. rewrite existsb_exists. destruct t as [a b]. split.
  - intros ([a' b'] & Hin & E). apply andb_true_iff in E. destruct E as [E1 E2]. apply Z.eqb_eq in E1. apply Nat.eqb_eq in E2.
    simpl in E1, E2. subst. exact Hin.
  - intro Hin. exists (a, b). split; [exact Hin|]. simpl. rewrite Z.eqb_refl, Nat.eqb_refl. reflexivity.
Qed.

Definition v3_range_ok (dim : nat) : bool :=
  forallb (fun sv => v3_int_ok dim (Z.of_nat sv) &&
                     forallb (fun d => Bool.eqb (v3_dec_float dim (Z.of_nat sv) d)
                                                (xorb (v3_dec_exact dim (Z.of_nat sv) d) (mem_pair (Z.of_nat sv, d) (v3_cert_table dim))))
                             (seq 0 dim))
          (seq 0 (S V3_SV_BOUND)).

Lemma v3_all_ok : forallb v3_range_ok (seq 1 V3_DIM_BOUND) = true.
Proof. vm_compute. reflexivity. Qed.

Theorem mk_opts_v3_test_is_binary64 version rebal boundary margin sf dim exc_rb exc_v3 (sv d : nat) :
  (1 <= dim <= V3_DIM_BOUND)%nat -> (sv <= V3_SV_BOUND)%nat -> (d < dim)%nat ->
  (forall t, In t exc_v3 -> (Z.of_nat V3_SV_BOUND < fst t)%Z) ->
  o_v3 (mk_opts version rebal boundary margin sf dim exc_rb exc_v3) (Z.of_nat sv) d = v3_dec_float dim (Z.of_nat sv) d /\
  v3_int_ok dim (Z.of_nat sv) = true.
Proof.
  intros Hdim Hsv Hd Hexc.
  pose proof v3_all_ok as H. rewrite forallb_forall in H. specialize (H dim ltac:(apply in_seq; lia)).
  unfold v3_range_ok in H. rewrite forallb_forall in H. specialize (H sv ltac:(apply in_seq; lia)).
  apply andb_true_iff in H. destruct H as [H1 H2]. rewrite forallb_forall in H2. specialize (H2 d ltac:(apply in_seq; lia)).
  apply eqb_prop in H2. split; [|exact H1].
  unfold mk_opts. cbn [o_v3]. rewrite H2. f_equal.
  unfold mem_pair at 1. rewrite existsb_app. fold (mem_pair (Z.of_nat sv, d) (v3_cert_table dim)). fold (mem_pair (Z.of_nat sv, d) exc_v3).
  assert (E : mem_pair (Z.of_nat sv, d) exc_v3 = false).
  { destruct (mem_pair (Z.of_nat sv, d) exc_v3) eqn:E; [|reflexivity]. apply mem_pair_In in E. specialize (Hexc _ E).
    unfold V3_SV_BOUND in *. cbn [fst] in Hexc. lia. }
  rewrite E, orb_false_r. reflexivity.
Qed.
