(* C15 — real analysis behind the weight theorems (Coquelicot).
   For EVERY density f that is continuous and non-negative on [x1,x2] the interval moments m0 = int f, m1 = int x f(x) satisfy
   the hypotheses of the weight theorems: m0 >= 0 and x1*m0 <= m1 <= x2*m0 (monotonicity of the integral). A real-number mirror of
   the composite weights (accumR = Model/UQ.accum over R, shown to commute with the embedding Qc -> R) then yields: on every finite
   grid x_0 < ... < x_n the weighted trapezoidal weights of such a density are non-negative and sum to int_{x_0}^{x_n} f plus the
   tail masses; instance: the normal density. *)
From Coq Require Import Reals QArith Qcanon Qreals List Lia Lra.
From Coquelicot Require Import Coquelicot.
From SG Require Import Base.QcUtil Model.Trap Model.UQ Proofs.FunPolyReal Proofs.UQ.
Import ListNotations.
Open Scope R_scope.

Section Density.
Variable f : R -> R.

Definition xf (x : R) : R := x * f x.

Lemma continuous_xf x : continuous f x -> continuous xf x.
Proof. intro H. unfold xf. apply (continuous_mult (fun t : R => t) f x); [apply continuous_id | exact H]. Qed.

Definition mom0 (x1 x2 : R) : R := RInt f x1 x2.
Definition mom1 (x1 x2 : R) : R := RInt xf x1 x2.

Lemma cont_on_sub (a b x1 x2 : R) :
  a <= x1 -> x1 <= x2 -> x2 <= b -> (forall z, a <= z <= b -> continuous f z) ->
  forall z, Rmin x1 x2 <= z <= Rmax x1 x2 -> continuous f z.
Proof.
  intros H1 H12 H2 C z Hz. rewrite Rmin_left, Rmax_right in Hz by lra. apply C. lra.
Qed.

(* the generic statement: any density continuous and non-negative on [x1,x2] *)
Theorem moment_hypotheses (x1 x2 : R) :
  x1 <= x2 -> (forall z, x1 <= z <= x2 -> continuous f z) -> (forall z, x1 <= z <= x2 -> 0 <= f z) ->
  0 <= mom0 x1 x2 /\ x1 * mom0 x1 x2 <= mom1 x1 x2 /\ mom1 x1 x2 <= x2 * mom0 x1 x2.
Proof.
  intros H12 C P.
  assert (Cm : forall z, Rmin x1 x2 <= z <= Rmax x1 x2 -> continuous f z).
  { intros z Hz. rewrite Rmin_left, Rmax_right in Hz by lra. apply C. exact Hz. }
  assert (E0 : ex_RInt f x1 x2) by (apply (ex_RInt_continuous (V := R_CompleteNormedModule)); exact Cm).
  assert (E1 : ex_RInt xf x1 x2).
  { apply (ex_RInt_continuous (V := R_CompleteNormedModule)). intros z Hz. apply continuous_xf. apply Cm. exact Hz. }
  assert (Sc : forall c, ex_RInt (fun x => c * f x) x1 x2 /\ RInt (fun x => c * f x) x1 x2 = c * RInt f x1 x2).
  { intro c. split.
    - exact (ex_RInt_scal (V := R_NormedModule) f x1 x2 c E0).
    - exact (RInt_scal (V := R_CompleteNormedModule) f x1 x2 c E0). }
  unfold mom0, mom1. split; [|split].
  - apply RInt_ge_0; [exact H12 | exact E0 | intros z Hz; apply P; lra].
  - rewrite <- (proj2 (Sc x1)).
    apply RInt_le; [exact H12 | exact (proj1 (Sc x1)) | exact E1 |].
    intros z Hz. unfold xf. apply Rmult_le_compat_r; [apply P; lra | lra].
  - rewrite <- (proj2 (Sc x2)).
    apply RInt_le; [exact H12 | exact E1 | exact (proj1 (Sc x2)) |].
    intros z Hz. unfold xf. apply Rmult_le_compat_r; [apply P; lra | lra].
Qed.
End Density.

(* ---------------------------------------------------------------- the composite weights over R *)
Record rival := { r_x1 : R; r_x2 : R; r_m0 : R; r_m1 : R }.
Definition w2R (iv : rival) : R := (r_m1 iv - r_m0 iv * r_x1 iv) / (r_x2 iv - r_x1 iv).
Definition w1R (iv : rival) : R := r_m0 iv - w2R iv.
Fixpoint accumR (carry : R) (ivs : list rival) : list R :=
  match ivs with
  | [] => [carry]
  | iv :: r => (carry + w1R iv) :: accumR (w2R iv) r
  end.
Definition rival_ok (iv : rival) : Prop :=
  0 <= r_m0 iv /\ r_x1 iv < r_x2 iv /\ r_x1 iv * r_m0 iv <= r_m1 iv /\ r_m1 iv <= r_x2 iv * r_m0 iv.
Fixpoint sumR (l : list R) : R := match l with [] => 0 | x :: r => x + sumR r end.
Fixpoint sum_m0R (ivs : list rival) : R := match ivs with [] => 0 | iv :: r => r_m0 iv + sum_m0R r end.

Lemma rival_ok_weights iv : rival_ok iv -> 0 <= w1R iv /\ 0 <= w2R iv.
Proof.
  destruct iv as [x1 x2 m0 m1]. unfold rival_ok, w1R, w2R. simpl. intros [H0 [H12 [Hlo Hhi]]].
  assert (Hd : 0 < x2 - x1) by lra. assert (Hi : 0 < / (x2 - x1)) by (apply Rinv_0_lt_compat; exact Hd).
  split.
  - replace (m0 - (m1 - m0 * x1) / (x2 - x1)) with ((x2 * m0 - m1) * / (x2 - x1)) by (field; lra).
    apply Rmult_le_pos; lra.
  - unfold Rdiv. apply Rmult_le_pos; lra.
Qed.

Lemma accumR_sum c ivs : sumR (accumR c ivs) = c + sum_m0R ivs.
Proof.
  revert c. induction ivs as [|iv r IH]; intro c; simpl; [lra|]. rewrite IH. unfold w1R. lra.
Qed.

Lemma accumR_nonneg c ivs : 0 <= c -> (forall iv, In iv ivs -> rival_ok iv) -> forall w, In w (accumR c ivs) -> 0 <= w.
Proof.
  revert c. induction ivs as [|iv r IH]; intros c Hc H w Hw; simpl in Hw.
  - destruct Hw as [<-|[]]. exact Hc.
  - destruct (rival_ok_weights iv (H iv (or_introl eq_refl))) as [H1 H2].
    destruct Hw as [<-|Hw]; [lra|]. apply (IH (w2R iv)); [exact H2 | intros j Hj; apply H; right; exact Hj | exact Hw].
Qed.

(* the tail masses of an infinite support: the interval (-inf, x_0] gives its whole mass to x_0 (w2 = m0), [x_n, inf) to x_n
   (w1 = m0); the two infinite grid points carry weight 0 *)
Fixpoint add_last (l : list R) (t : R) : list R :=
  match l with [] => [] | [x] => [x + t] | x :: r => x :: add_last r t end.
Definition weightsR (tlo thi : R) (ivs : list rival) : list R := add_last (accumR tlo ivs) thi.

Lemma add_last_sum l t : l <> [] -> sumR (add_last l t) = sumR l + t.
Proof.
  induction l as [|x r IH]; [congruence|]. intros _. destruct r as [|y r]; [simpl; lra|].
  change (add_last (x :: y :: r) t) with (x :: add_last (y :: r) t).
  change (sumR (x :: add_last (y :: r) t)) with (x + sumR (add_last (y :: r) t)). rewrite IH by congruence.
  change (sumR (x :: y :: r)) with (x + sumR (y :: r)). lra.
Qed.

Lemma add_last_nonneg l t : 0 <= t -> (forall w, In w l -> 0 <= w) -> forall w, In w (add_last l t) -> 0 <= w.
Proof.
  intros Ht. induction l as [|x r IH]; intros H w Hw; [destruct Hw|].
  destruct r as [|y r].
  - destruct Hw as [<-|[]]. pose proof (H x (or_introl eq_refl)). lra.
  - change (add_last (x :: y :: r) t) with (x :: add_last (y :: r) t) in Hw. destruct Hw as [<-|Hw].
    + apply H. left. reflexivity.
    + apply IH; [intros v Hv; apply H; right; exact Hv | exact Hw].
Qed.

Lemma accumR_nonempty c ivs : accumR c ivs <> [].
Proof. destruct ivs; simpl; congruence. Qed.

Theorem weightsR_probability tlo thi ivs :
  0 <= tlo -> 0 <= thi -> (forall iv, In iv ivs -> rival_ok iv) ->
  (forall w, In w (weightsR tlo thi ivs) -> 0 <= w) /\ sumR (weightsR tlo thi ivs) = tlo + sum_m0R ivs + thi.
Proof.
  intros Hlo Hhi Hok. unfold weightsR. split.
  - apply add_last_nonneg; [exact Hhi|]. apply accumR_nonneg; assumption.
  - rewrite add_last_sum by apply accumR_nonempty. rewrite accumR_sum. lra.
Qed.

(* ---------------------------------------------------------------- the Qc model computes the same formula *)
Definition toR (iv : ival) : rival :=
  {| r_x1 := QcR (ext_val (i_x1 iv)); r_x2 := QcR (ext_val (i_x2 iv)); r_m0 := QcR (i_m0 iv); r_m1 := QcR (i_m1 iv) |}.
Definition finite_ival (iv : ival) : Prop :=
  ext_isinf (i_x1 iv) = false /\ ext_isinf (i_x2 iv) = false /\ ext_val (i_x2 iv) <> ext_val (i_x1 iv).

Lemma w2_of_real iv : finite_ival iv -> QcR (w2_of iv) = w2R (toR iv).
Proof.
  intros [H1 [H2 Hne]]. unfold w2_of, w2R, toR. rewrite H1, H2. simpl.
  rewrite QcR_div, !QcR_minus, QcR_mult; [reflexivity|].
  intro E. apply Hne. apply (f_equal (fun t => (t + ext_val (i_x1 iv))%Qc)) in E. ring_simplify in E. exact E.
Qed.

Theorem accum_real c ivs : (forall iv, In iv ivs -> finite_ival iv) ->
  map QcR (accum c ivs) = accumR (QcR c) (map toR ivs).
Proof.
  revert c. induction ivs as [|iv r IH]; intros c H; [reflexivity|].
  cbn [accum map accumR]. rewrite IH by (intros j Hj; apply H; right; exact Hj).
  rewrite <- (w2_of_real iv) by (apply H; left; reflexivity). unfold w1_of, w1R.
  rewrite QcR_plus, QcR_minus. rewrite <- (w2_of_real iv) by (apply H; left; reflexivity). reflexivity.
Qed.

(* ---------------------------------------------------------------- a density on a grid *)
Fixpoint incR (l : list R) : Prop :=
  match l with x0 :: ((x1 :: _) as t) => x0 < x1 /\ incR t | _ => True end.
Fixpoint density_ivals (f : R -> R) (x : list R) : list rival :=
  match x with
  | x1 :: ((x2 :: _) as t) => {| r_x1 := x1; r_x2 := x2; r_m0 := mom0 f x1 x2; r_m1 := mom1 f x1 x2 |} :: density_ivals f t
  | _ => []
  end.
Definition firstR (l : list R) : R := hd 0 l.
Definition lastR (l : list R) : R := last l 0.

Section Grid.
Variable f : R -> R.
Variables a b : R.
Hypothesis Cf : forall z, a <= z <= b -> continuous f z.
Hypothesis Pf : forall z, a <= z <= b -> 0 <= f z.

Lemma density_ivals_ok x : incR x -> List.Forall (fun t => a <= t <= b) x -> forall iv, In iv (density_ivals f x) -> rival_ok iv.
Proof.
  induction x as [|x1 t IH]; intros Hi Hin iv Hiv; [destruct Hiv|].
  destruct t as [|x2 t]; [destruct Hiv|].
  change (density_ivals f (x1 :: x2 :: t)) with
    ({| r_x1 := x1; r_x2 := x2; r_m0 := mom0 f x1 x2; r_m1 := mom1 f x1 x2 |} :: density_ivals f (x2 :: t)) in Hiv.
  simpl in Hi. destruct Hi as [H12 Hi]. inversion Hin as [|? ? Hx1 Hin']; subst. inversion Hin' as [|? ? Hx2 _]; subst.
  destruct Hiv as [<-|Hiv]; [|apply IH; assumption].
  destruct (moment_hypotheses f x1 x2) as [M0 [M1 M2]]; [lra | intros z Hz; apply Cf; lra | intros z Hz; apply Pf; lra |].
  unfold rival_ok. simpl. repeat split; assumption.
Qed.

(* Chasles: the zeroth moments of consecutive intervals add up to the integral over the whole grid *)
Lemma density_sum_m0 x : incR x -> List.Forall (fun t => a <= t <= b) x -> x <> [] ->
  sum_m0R (density_ivals f x) = RInt f (firstR x) (lastR x).
Proof.
  induction x as [|x1 t IH]; intros Hi Hin Hne; [congruence|].
  destruct t as [|x2 t].
  - simpl. unfold firstR, lastR. simpl. rewrite RInt_point. reflexivity.
  - change (density_ivals f (x1 :: x2 :: t)) with
      ({| r_x1 := x1; r_x2 := x2; r_m0 := mom0 f x1 x2; r_m1 := mom1 f x1 x2 |} :: density_ivals f (x2 :: t)).
    simpl in Hi. destruct Hi as [H12 Hi]. inversion Hin as [|? ? Hx1 Hin']; subst.
    cbn [sum_m0R r_m0]. rewrite IH by (try assumption; congruence).
    unfold firstR, lastR. cbn [hd]. change (last (x1 :: x2 :: t) 0) with (last (x2 :: t) 0).
    assert (Hl : x2 <= last (x2 :: t) 0 <= b).
    { clear IH Hne H12 Hx1 Hin. revert x2 Hi Hin'. induction t as [|x3 t IHt]; intros x2 Hi Hin'.
      - simpl. inversion Hin'; subst. lra.
      - simpl in Hi. destruct Hi as [H23 Hi]. inversion Hin' as [|? ? Hx2 Hin'']; subst.
        change (last (x2 :: x3 :: t) 0) with (last (x3 :: t) 0). specialize (IHt x3 Hi Hin''). lra. }
    inversion Hin' as [|? ? Hx2 _]; subst.
    unfold mom0. apply (RInt_Chasles f x1 x2 (last (x2 :: t) 0)).
    + apply (ex_RInt_continuous (V := R_CompleteNormedModule)). intros z Hz. rewrite Rmin_left, Rmax_right in Hz by lra. apply Cf. lra.
    + apply (ex_RInt_continuous (V := R_CompleteNormedModule)). intros z Hz. rewrite Rmin_left, Rmax_right in Hz by lra. apply Cf. lra.
Qed.

(* THE GENERIC WEIGHT THEOREM: for every density continuous and non-negative on [a,b], every grid a <= x_0 < ... < x_n <= b and
   tail masses tlo, thi >= 0 the weighted trapezoidal weights are non-negative and sum to tlo + int_{x_0}^{x_n} f + thi *)
Theorem density_weights_probability x tlo thi :
  incR x -> List.Forall (fun t => a <= t <= b) x -> x <> [] -> 0 <= tlo -> 0 <= thi ->
  (forall w, In w (weightsR tlo thi (density_ivals f x)) -> 0 <= w) /\
  sumR (weightsR tlo thi (density_ivals f x)) = tlo + RInt f (firstR x) (lastR x) + thi.
Proof.
  intros Hi Hin Hne Hlo Hhi.
  destruct (weightsR_probability tlo thi (density_ivals f x) Hlo Hhi (density_ivals_ok x Hi Hin)) as [N S0].
  split; [exact N|]. rewrite S0, density_sum_m0 by assumption. reflexivity.
Qed.
End Grid.

(* ---------------------------------------------------------------- the probability-halving point *)
Section Midpoint.
Variable f : R -> R.
Hypothesis Cf : forall z, continuous f z.

Lemma exI (u v : R) : ex_RInt f u v.
Proof. apply (ex_RInt_continuous (V := R_CompleteNormedModule)). intros z _. apply Cf. Qed.

Lemma chasles (u v w : R) : RInt f u v + RInt f v w = RInt f u w.
Proof. apply (RInt_Chasles f u v w); apply exI. Qed.

Lemma cumulative_continuous (a x : R) : continuous (fun z => RInt f a z) x.
Proof.
  apply (continuous_RInt_1 (V := R_NormedModule) f a x (fun z => RInt f a z)).
  apply filter_forall. intro z. apply (RInt_correct (V := R_CompleteNormedModule)). apply exI.
Qed.

(* existence and uniqueness of the point that splits [a,b] into two parts of equal probability, strictly inside the interval,
   for every density that is continuous and positive on the open interval *)
Theorem midpoint_exists_unique (a b : R) :
  a < b -> (forall z, a < z < b -> 0 < f z) ->
  exists m, (a < m < b /\ RInt f a m = RInt f m b) /\ forall m', a < m' < b /\ RInt f a m' = RInt f m' b -> m' = m.
Proof.
  intros Hab Pf.
  set (T := RInt f a b).
  assert (HT : 0 < T) by (apply RInt_gt_0; [exact Hab | exact Pf | intros z _; apply Cf]).
  set (G := fun x => 2 * RInt f a x - T).
  assert (CG : forall x, continuous G x).
  { intro x. unfold G. apply (continuous_minus (fun z => 2 * RInt f a z) (fun _ => T)).
    - apply (continuous_scal_r 2 (fun z => RInt f a z)). apply cumulative_continuous.
    - apply continuous_const. }
  assert (Ga : G a = - T) by (unfold G; rewrite RInt_point; simpl; unfold zero; simpl; lra).
  assert (Gb : G b = T) by (unfold G, T; lra).
  destruct (IVT_gen_consistent G a b 0 CG) as [m [Hm G0]].
  { rewrite Ga, Gb. rewrite Rmin_left, Rmax_right by lra. lra. }
  rewrite Rmin_left, Rmax_right in Hm by lra.
  assert (Hin : a < m < b).
  { assert (Na : m <> a) by (intro E; rewrite E, Ga in G0; lra).
    assert (Nb : m <> b) by (intro E; rewrite E, Gb in G0; lra). lra. }
  assert (Half : forall x, RInt f a x = RInt f x b <-> 2 * RInt f a x = T).
  { intro x. unfold T. rewrite <- (chasles a x b). lra. }
  exists m. split.
  - split; [exact Hin|]. apply Half. unfold G in G0. lra.
  - intros m' [Hin' E']. apply Half in E'. assert (Em : 2 * RInt f a m = T) by (unfold G in G0; lra).
    destruct (Rtotal_order m' m) as [Hlt|[He|Hgt]]; [|exact He|]; exfalso.
    + assert (P : 0 < RInt f m' m) by (apply RInt_gt_0; [exact Hlt | intros z Hz; apply Pf; lra | intros z _; apply Cf]).
      pose proof (chasles a m' m). lra.
    + assert (P : 0 < RInt f m m') by (apply RInt_gt_0; [lra | intros z Hz; apply Pf; lra | intros z _; apply Cf]).
      pose proof (chasles a m m'). lra.
Qed.
End Midpoint.

(* ---------------------------------------------------------------- the normal distribution *)
Definition pdfN (mu sigma x : R) : R := / (sigma * sqrt (2 * PI)) * exp (- ((x - mu) * (x - mu) / (2 * (sigma * sigma)))).

Lemma pdfN_continuous mu sigma x : continuous (pdfN mu sigma) x.
Proof.
  unfold pdfN. apply (continuous_scal_r (/ (sigma * sqrt (2 * PI))) (fun t => exp (- ((t - mu) * (t - mu) / (2 * (sigma * sigma)))))).
  apply continuous_exp_comp.
  apply (continuous_opp (fun t : R => (t - mu) * (t - mu) / (2 * (sigma * sigma)))).
  unfold Rdiv. apply (continuous_scal_l (fun t : R => (t - mu) * (t - mu)) (/ (2 * (sigma * sigma)))).
  apply (continuous_mult (fun t : R => t - mu) (fun t : R => t - mu));
    apply (continuous_minus (fun t : R => t) (fun _ => mu)); try apply continuous_id; apply continuous_const.
Qed.

Lemma pdfN_pos mu sigma x : 0 < sigma -> 0 < pdfN mu sigma x.
Proof.
  intro Hs. unfold pdfN. apply Rmult_lt_0_compat; [|apply exp_pos].
  apply Rinv_0_lt_compat. apply Rmult_lt_0_compat; [exact Hs|]. apply sqrt_lt_R0. pose proof PI_RGT_0. lra.
Qed.

(* the moment hypotheses for the normal distribution: what Props/C15.v had to ASSUME for the rational moment inputs holds for
   the true moments of N(mu, sigma^2) on every interval *)
Theorem normal_moment_hypotheses mu sigma x1 x2 :
  0 < sigma -> x1 <= x2 ->
  0 <= mom0 (pdfN mu sigma) x1 x2 /\ x1 * mom0 (pdfN mu sigma) x1 x2 <= mom1 (pdfN mu sigma) x1 x2
  /\ mom1 (pdfN mu sigma) x1 x2 <= x2 * mom0 (pdfN mu sigma) x1 x2.
Proof.
  intros Hs H12. apply moment_hypotheses; [exact H12 | intros z _; apply pdfN_continuous | intros z _; apply Rlt_le, pdfN_pos; exact Hs].
Qed.

(* normal distribution on a finite grid, tails tlo = P(X <= x_0), thi = P(X >= x_n) as non-negative numbers (with boundary
   points at -inf / +inf carrying weight 0): non-negative weights summing to tlo + P(x_0 <= X <= x_n) + thi *)
Theorem normal_weights_probability mu sigma x tlo thi :
  0 < sigma -> incR x -> x <> [] -> 0 <= tlo -> 0 <= thi ->
  (forall w, In w (weightsR tlo thi (density_ivals (pdfN mu sigma) x)) -> 0 <= w) /\
  sumR (weightsR tlo thi (density_ivals (pdfN mu sigma) x)) = tlo + RInt (pdfN mu sigma) (firstR x) (lastR x) + thi.
Proof.
  intros Hs Hi Hne Hlo Hhi.
  set (lo := fold_right Rmin (firstR x) x). set (hi := fold_right Rmax (firstR x) x).
  apply (density_weights_probability (pdfN mu sigma) lo hi); try assumption.
  - intros z _. apply pdfN_continuous.
  - intros z _. apply Rlt_le, pdfN_pos. exact Hs.
  - apply Forall_forall. intros t Ht. unfold lo, hi. clear -Ht. generalize (firstR x) as d. intro d.
    induction x as [|y r IH]; [destruct Ht|]. simpl. destruct Ht as [<-|Ht].
    + split; [apply Rmin_l | apply Rmax_l].
    + destruct (IH Ht) as [L U]. split; [eapply Rle_trans; [apply Rmin_r | exact L] | eapply Rle_trans; [exact U | apply Rmax_r]].
Qed.

Theorem normal_midpoint mu sigma a b :
  0 < sigma -> a < b ->
  exists m, (a < m < b /\ RInt (pdfN mu sigma) a m = RInt (pdfN mu sigma) m b) /\
            forall m', a < m' < b /\ RInt (pdfN mu sigma) a m' = RInt (pdfN mu sigma) m' b -> m' = m.
Proof.
  intros Hs Hab. apply midpoint_exists_unique; [intro z; apply pdfN_continuous | exact Hab | intros z _; apply pdfN_pos; exact Hs].
Qed.

(* the uniform density on [A,B] restricted to a sub-interval is the constant 1/(B-A) (continuous on R as a constant) *)
Theorem uniform_midpoint A B a b :
  A < B -> a < b ->
  exists m, (a < m < b /\ RInt (fun _ => / (B - A)) a m = RInt (fun _ => / (B - A)) m b) /\
            forall m', a < m' < b /\ RInt (fun _ => / (B - A)) a m' = RInt (fun _ => / (B - A)) m' b -> m' = m.
Proof.
  intros HAB Hab. apply midpoint_exists_unique; [intro z; apply continuous_const | exact Hab |].
  intros z _. apply Rinv_0_lt_compat. lra.
Qed.

(* ---------------------------------------------------------------- the triangle density on R *)
(* min(u, v) and max(0, t) through the absolute value (compositions of continuous functions) *)
Definition minR (u v : R) : R := (u + v - Rabs (u - v)) / 2.
Definition posR (t : R) : R := (t + Rabs t) / 2.
(* tent over [A,B] with peak 2/(B-A) at the mode C: the density of the triangle distribution, 0 outside [A,B] *)
Definition pdfT (A C B x : R) : R :=
  posR (minR (2 * (x - A) / ((B - A) * (C - A))) (2 * (B - x) / ((B - A) * (B - C)))).

Lemma posR_nonneg t : 0 <= posR t.
Proof. unfold posR, Rabs. destruct (Rcase_abs t); lra. Qed.
Lemma posR_pos t : 0 < t -> posR t = t.
Proof. intro H. unfold posR. rewrite Rabs_pos_eq by lra. lra. Qed.
Lemma minR_pos u v : 0 < u -> 0 < v -> 0 < minR u v.
Proof. intros Hu Hv. unfold minR, Rabs. destruct (Rcase_abs (u - v)); lra. Qed.

Lemma pdfT_continuous A C B x : continuous (pdfT A C B) x.
Proof.
  unfold pdfT, posR, minR.
  set (u := fun t : R => 2 * (t - A) / ((B - A) * (C - A))). set (v := fun t : R => 2 * (B - t) / ((B - A) * (B - C))).
  assert (Cu : continuous u x).
  { unfold u, Rdiv. apply (continuous_scal_l (fun t : R => 2 * (t - A)) (/ ((B - A) * (C - A)))).
    apply (continuous_scal_r 2 (fun t : R => t - A)). apply (continuous_minus (fun t : R => t) (fun _ => A)); [apply continuous_id | apply continuous_const]. }
  assert (Cv : continuous v x).
  { unfold v, Rdiv. apply (continuous_scal_l (fun t : R => 2 * (B - t)) (/ ((B - A) * (B - C)))).
    apply (continuous_scal_r 2 (fun t : R => B - t)). apply (continuous_minus (fun _ => B) (fun t : R => t)); [apply continuous_const | apply continuous_id]. }
  set (m := fun t : R => (u t + v t - Rabs (u t - v t)) / 2).
  assert (Cm : continuous m x).
  { unfold m, Rdiv. apply (continuous_scal_l (fun t : R => u t + v t - Rabs (u t - v t)) (/ 2)).
    apply (continuous_minus (fun t => u t + v t) (fun t => Rabs (u t - v t))).
    - apply (continuous_plus u v); assumption.
    - apply continuous_Rabs_comp. apply (continuous_minus u v); assumption. }
  change (continuous (fun t => (m t + Rabs (m t)) / 2) x). unfold Rdiv.
  apply (continuous_scal_l (fun t : R => m t + Rabs (m t)) (/ 2)).
  apply (continuous_plus m (fun t => Rabs (m t))); [exact Cm | apply continuous_Rabs_comp; exact Cm].
Qed.

Lemma pdfT_nonneg A C B x : 0 <= pdfT A C B x.
Proof. apply posR_nonneg. Qed.

Lemma pdfT_pos A C B x : A < C -> C < B -> A < x < B -> 0 < pdfT A C B x.
Proof.
  intros HAC HCB Hx. unfold pdfT.
  assert (P : 0 < minR (2 * (x - A) / ((B - A) * (C - A))) (2 * (B - x) / ((B - A) * (B - C)))).
  { apply minR_pos; apply Rdiv_lt_0_compat; try lra; apply Rmult_lt_0_compat; lra. }
  rewrite posR_pos by exact P. exact P.
Qed.

(* the triangle distribution as an instance of the generic theorems *)
Theorem triangle_moment_hypotheses A C B x1 x2 :
  x1 <= x2 ->
  0 <= mom0 (pdfT A C B) x1 x2 /\ x1 * mom0 (pdfT A C B) x1 x2 <= mom1 (pdfT A C B) x1 x2
  /\ mom1 (pdfT A C B) x1 x2 <= x2 * mom0 (pdfT A C B) x1 x2.
Proof.
  intro H. apply moment_hypotheses; [exact H | intros z _; apply pdfT_continuous | intros z _; apply pdfT_nonneg].
Qed.

Theorem triangle_weights_probability A C B x tlo thi :
  incR x -> x <> [] -> 0 <= tlo -> 0 <= thi ->
  (forall w, In w (weightsR tlo thi (density_ivals (pdfT A C B) x)) -> 0 <= w) /\
  sumR (weightsR tlo thi (density_ivals (pdfT A C B) x)) = tlo + RInt (pdfT A C B) (firstR x) (lastR x) + thi.
Proof.
  intros Hi Hne Hlo Hhi.
  set (lo := fold_right Rmin (firstR x) x). set (hi := fold_right Rmax (firstR x) x).
  apply (density_weights_probability (pdfT A C B) lo hi); try assumption.
  - intros z _. apply pdfT_continuous.
  - intros z _. apply pdfT_nonneg.
  - apply Forall_forall. intros t Ht. unfold lo, hi. clear -Ht. generalize (firstR x) as d. intro d.
    induction x as [|y r IH]; [destruct Ht|]. simpl. destruct Ht as [<-|Ht].
    + split; [apply Rmin_l | apply Rmax_l].
    + destruct (IH Ht) as [L U]. split; [eapply Rle_trans; [apply Rmin_r | exact L] | eapply Rle_trans; [exact U | apply Rmax_r]].
Qed.

Theorem triangle_midpoint A C B a b :
  A < C -> C < B -> A <= a -> a < b -> b <= B ->
  exists m, (a < m < b /\ RInt (pdfT A C B) a m = RInt (pdfT A C B) m b) /\
            forall m', a < m' < b /\ RInt (pdfT A C B) a m' = RInt (pdfT A C B) m' b -> m' = m.
Proof.
  intros HAC HCB Ha Hab Hb. apply midpoint_exists_unique; [intro z; apply pdfT_continuous | exact Hab |].
  intros z Hz. apply pdfT_pos; try assumption. lra.
Qed.

(* ---------------------------------------------------------------- total mass of the uniform distribution, tied to the Qc model *)
(* the closed-form zeroth moment of Model/UQ.v IS the integral of the density 1/(B-A) *)
Theorem uniform_moment0_is_integral (A B x1 x2 : Qc) :
  A <> B -> QcR (uni_m0 A B x1 x2) = RInt (fun _ => / (QcR B - QcR A)) (QcR x1) (QcR x2).
Proof.
  intro HAB. rewrite RInt_const. unfold uni_m0, scal; simpl; unfold mult; simpl.
  rewrite QcR_div, !QcR_minus; [field|].
  - intro E. apply HAB. apply Qc_is_canon. apply Qreals.eqR_Qeq. unfold QcR in E. lra.
  - intro E. apply HAB. apply (f_equal (fun t => (t + A)%Qc)) in E. ring_simplify in E. symmetry. exact E.
Qed.

Theorem uniform_total_mass (A B : R) : A < B -> RInt (fun _ => / (B - A)) A B = 1.
Proof. intro H. rewrite RInt_const. unfold scal; simpl; unfold mult; simpl. field. lra. Qed.

(* on a grid A = x_0 < ... < x_n = B the weights of the uniform density sum to exactly 1 (tails 0) *)
Theorem uniform_weights_sum_one (A B : R) x :
  A < B -> incR x -> x <> [] -> firstR x = A -> lastR x = B ->
  (forall w, In w (weightsR 0 0 (density_ivals (fun _ => / (B - A)) x)) -> 0 <= w) /\
  sumR (weightsR 0 0 (density_ivals (fun _ => / (B - A)) x)) = 1.
Proof.
  intros HAB Hi Hne Hf Hl.
  set (lo := fold_right Rmin (firstR x) x). set (hi := fold_right Rmax (firstR x) x).
  destruct (density_weights_probability (fun _ => / (B - A)) lo hi) with (x := x) (tlo := 0) (thi := 0) as [N S0]; try assumption; try lra.
  - intros z _. apply continuous_const.
  - intros z _. apply Rlt_le, Rinv_0_lt_compat. lra.
  - apply Forall_forall. intros t Ht. unfold lo, hi. clear -Ht. generalize (firstR x) as d. intro d.
    induction x as [|y r IH]; [destruct Ht|]. simpl. destruct Ht as [<-|Ht].
    + split; [apply Rmin_l | apply Rmax_l].
    + destruct (IH Ht) as [L U]. split; [eapply Rle_trans; [apply Rmin_r | exact L] | eapply Rle_trans; [exact U | apply Rmax_r]].
  - split; [exact N|]. rewrite S0, Hf, Hl, uniform_total_mass by exact HAB. lra.
Qed.
