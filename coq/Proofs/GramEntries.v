(* Closed forms of the matrix entries of Model/Gram.v (as coded in calculate_R_value_analytically and
   build_R_matrix) and their identification with the formal integral of the product of the two hats. *)
From Coq Require Import ZArith List QArith Qcanon Bool Lia.
From SG Require Import Base.QcUtil Base.PolyInt Model.Gram Proofs.GramHat.
Import ListNotations.
Open Scope Qc_scope.

Definition Qc6 : Qc := Q2Qc (6 # 1).

Lemma Qc3_eq : Qc3 = 1 + 1 + 1.
Proof. apply Qc_is_canon. reflexivity. Qed.
Lemma Qc6_eq : Qc6 = (1 + 1) * (1 + 1 + 1).
Proof. apply Qc_is_canon. reflexivity. Qed.
Lemma Qc12_eq : Qc12 = (1 + 1) * (1 + 1) * (1 + 1 + 1).
Proof. apply Qc_is_canon. reflexivity. Qed.
Lemma Qchalf_eq : Qchalf = 1 / (1 + 1).
Proof. apply Qc_is_canon. reflexivity. Qed.

Ltac consts := rewrite ?Qc3_eq, ?Qc6_eq, ?Qc12_eq, ?Qchalf_eq, ?qc_of_pos_1, ?qc_of_pos_2, ?qc_of_pos_3.
Ltac nz := repeat split; first [assumption | (let E := fresh "E" in intro E; apply Qc_eq_Qeq in E; discriminate)].

(* ------------------------------------------------------------------ the coded formulas, simplified *)
Lemma integral_calc_diff (a b : Qc) : a < b ->
  integral_calc b (1 / (b - a)) a b - integral_calc a (1 / (b - a)) a b = (b - a) / Qc6.
Proof.
  intro H. pose proof (Qc_pos_nz _ (sub_pos _ _ H)) as Hd.
  unfold integral_calc, cube. consts. field. nz.
Qed.

Lemma integral_1_diff (a p : Qc) : a < p ->
  integral_1 p (1 / (p - a)) p - integral_1 a (1 / (p - a)) p = (p - a) / Qc3.
Proof.
  intro H. pose proof (Qc_pos_nz _ (sub_pos _ _ H)) as Hd.
  unfold integral_1, cube. consts. field. nz.
Qed.

Lemma integral_2_diff (p c : Qc) : p < c ->
  integral_2 c (1 / (c - p)) p - integral_2 p (1 / (c - p)) p = (c - p) / Qc3.
Proof.
  intro H. pose proof (Qc_pos_nz _ (sub_pos _ _ H)) as Hd.
  unfold integral_2, cube. consts. field. nz.
Qed.

(* diagonal factor: (hi - lo)/3, the "2/3 h" rule on a non-uniform grid *)
Theorem R1_same (t : hatdom) : proper t -> R1 t t = (h_hi t - h_lo t) / Qc3.
Proof.
  intros [Hl Hr]. unfold R1. rewrite Qc_eqb_refl. cbn [negb].
  assert (N1 : Qc_eqb (h_p t) (h_lo t) = false) by (apply Qc_eqb_false; apply Qc_lt_neq; exact Hl).
  assert (N2 : Qc_eqb (h_p t) (h_hi t) = false).
  { apply Qc_eqb_false. intro E. apply (Qc_lt_neq _ _ Hr). symmetry. exact E. }
  rewrite N1, N2. cbn [negb].
  rewrite (Qc_abs_nonneg_eq (h_p t - h_lo t)) by (apply sub_nonneg; apply Qclt_le_weak; exact Hl).
  rewrite (Qc_abs_nonneg_eq (h_hi t - h_p t)) by (apply sub_nonneg; apply Qclt_le_weak; exact Hr).
  rewrite integral_1_diff by exact Hl. rewrite integral_2_diff by exact Hr.
  consts. field. nz.
Qed.

(* off-diagonal factor: |p_i - p_j| / 6, the "1/6 h" rule; it only depends on the two nodes *)
Theorem R1_distinct (ti tj : hatdom) : h_p ti <> h_p tj -> R1 ti tj = Qc_abs (h_p ti - h_p tj) / Qc6.
Proof.
  intro Hne. unfold R1.
  assert (N : Qc_eqb (h_p ti) (h_p tj) = false) by (apply Qc_eqb_false; exact Hne).
  rewrite N. cbn [negb].
  destruct (Qc_dec (h_p ti) (h_p tj)) as [[H|H]|H]; [| |contradiction].
  - rewrite (Qc_abs_neg_eq (h_p ti - h_p tj)) by qc_order.
    unfold Qc_min, Qc_max. assert (L : Qc_leb (h_p ti) (h_p tj) = true) by (apply Qc_leb_le; apply Qclt_le_weak; exact H).
    rewrite L. replace (- (h_p ti - h_p tj)) with (h_p tj - h_p ti) by ring.
    apply integral_calc_diff. exact H.
  - rewrite (Qc_abs_nonneg_eq (h_p ti - h_p tj)) by qc_order.
    unfold Qc_min, Qc_max. assert (L : Qc_leb (h_p ti) (h_p tj) = false) by (apply Qc_leb_false; exact H).
    rewrite L. apply integral_calc_diff. exact H.
Qed.

Corollary R1_sym_distinct (ti tj : hatdom) : h_p ti <> h_p tj -> R1 ti tj = R1 tj ti.
Proof.
  intro H. rewrite R1_distinct by exact H. rewrite R1_distinct by (intro E; apply H; symmetry; exact E).
  f_equal. unfold Qc_abs.
  destruct (Qc_leb 0 (h_p ti - h_p tj)) eqn:A; destruct (Qc_leb 0 (h_p tj - h_p ti)) eqn:B;
    try apply Qc_leb_le in A; try apply Qc_leb_le in B; try apply Qc_leb_false in A; try apply Qc_leb_false in B;
    try ring; exfalso; [apply H; qc_order | qc_order].
Qed.

(* ------------------------------------------------------------------ = formal integral of the product of the hats *)
(* same node: left branch squared on [lo,p] plus right branch squared on [p,hi] *)
Theorem gram_same_is_integral (t : hatdom) : proper t ->
  R1 t t = pintegral (pmul (hat_left_poly t) (hat_left_poly t)) (h_lo t) (h_p t)
         + pintegral (pmul (hat_right_poly t) (hat_right_poly t)) (h_p t) (h_hi t).
Proof.
  intros [Hl Hr]. rewrite R1_same by (split; assumption).
  pose proof (Qc_pos_nz _ (sub_pos _ _ Hl)) as Hdl. pose proof (Qc_pos_nz _ (sub_pos _ _ Hr)) as Hdr.
  unfold pintegral, panti, hat_left_poly, hat_right_poly.
  cbn [pmul padd pscale map panti_from peval Pos.succ]. consts. field. nz.
Qed.

(* neighbouring nodes p < q: right branch of the hat at p times left branch of the hat at q on [p,q] *)
Theorem gram_adjacent_is_integral (ti tj : hatdom) :
  h_p ti < h_p tj -> h_hi ti = h_p tj -> h_lo tj = h_p ti ->
  R1 ti tj = pintegral (pmul (hat_right_poly ti) (hat_left_poly tj)) (h_p ti) (h_p tj).
Proof.
  intros H E1 E2. rewrite R1_distinct by (intro E; apply (Qc_lt_neq _ _ H); symmetry; exact E).
  rewrite (Qc_abs_neg_eq (h_p ti - h_p tj)) by qc_order.
  pose proof (Qc_pos_nz _ (sub_pos _ _ H)) as Hd.
  unfold pintegral, panti, hat_left_poly, hat_right_poly. rewrite E1, E2.
  cbn [pmul padd pscale map panti_from peval Pos.succ]. consts. field. nz.
Qed.

(* ------------------------------------------------------------------ uniform grids: the 1/3, 1/12 rule *)
Lemma qc_of_Z_add a b : qc_of_Z (a + b) = qc_of_Z a + qc_of_Z b.
Proof.
  apply Qc_is_canon. unfold qc_of_Z. cbn [this Q2Qc Qcplus]. rewrite !Qred_correct. rewrite inject_Z_plus. reflexivity.
Qed.
Lemma qc_of_Z_mul a b : qc_of_Z (a * b) = qc_of_Z a * qc_of_Z b.
Proof.
  apply Qc_is_canon. unfold qc_of_Z. cbn [this Q2Qc Qcmult]. rewrite !Qred_correct. rewrite inject_Z_mult. reflexivity.
Qed.
Lemma qc_of_Z_1 : qc_of_Z 1 = 1.
Proof. apply Qc_is_canon. reflexivity. Qed.
Lemma qc_of_Z_2 : qc_of_Z 2 = 1 + 1.
Proof. apply Qc_is_canon. reflexivity. Qed.

Lemma pow2z_succ l : (1 <= l)%Z -> pow2z l = (1 + 1) * pow2z (l - 1).
Proof.
  intro H. unfold pow2z.
  assert (A : (0 <=? l)%Z = true) by (apply Z.leb_le; lia).
  assert (B : (0 <=? l - 1)%Z = true) by (apply Z.leb_le; lia).
  rewrite A, B. replace l with (Z.succ (l - 1)) at 1 by lia.
  rewrite Z.pow_succ_r by lia. rewrite qc_of_Z_mul, qc_of_Z_2. reflexivity.
Qed.

(* the coded diagonal factor 1/(2^(l-1) * 3) is the diagonal factor of the non-uniform formula on the uniform hat *)
Theorem diag1_is_R1 (l i : Z) : (1 <= l)%Z -> diag1 l = R1 (uniform_dom l i) (uniform_dom l i).
Proof.
  intro H. rewrite R1_same by apply uniform_dom_proper.
  unfold diag1, uniform_dom; cbn [h_lo h_hi]. rewrite (pow2z_succ l H).
  pose proof (Qc_pos_nz _ (pow2z_pos (l - 1))) as Hnz. consts. field. nz.
Qed.

(* the coded off-diagonal factor 1/(2^(l-1) * 12) is the off-diagonal factor for neighbouring hats *)
Theorem off1_is_R1 (l i : Z) : (1 <= l)%Z -> off1 l = R1 (uniform_dom l i) (uniform_dom l (i + 1)).
Proof.
  intro H.
  pose proof (Qc_pos_nz _ (pow2z_pos (l - 1))) as Hnz. pose proof (pow2z_pos l) as Hs.
  assert (Hlt : h_p (uniform_dom l i) < h_p (uniform_dom l (i + 1))).
  { unfold uniform_dom; cbn [h_p]. apply div_lt_mono; [exact Hs|]. rewrite qc_of_Z_add, qc_of_Z_1. qc_order. }
  rewrite R1_distinct by (intro E; apply (Qc_lt_neq _ _ Hlt); symmetry; exact E).
  rewrite (Qc_abs_neg_eq _) by qc_order.
  unfold off1, uniform_dom; cbn [h_p]. rewrite qc_of_Z_add, qc_of_Z_1. rewrite (pow2z_succ l H).
  consts. field. nz.
Qed.

(* which branch the coded overlap test takes: |i - j| >= 2 <-> no overlap *)
Lemma U1_cases (l i j : Z) :
  U1 l i j = if (i =? j)%Z then Some (diag1 l)
             else if (Z.abs (i - j) <=? 1)%Z then Some (off1 l) else None.
Proof.
  unfold U1. destruct (i =? j)%Z eqn:E; [reflexivity|].
  apply Z.eqb_neq in E.
  pose proof (pow2z_pos (l - 1)) as Hs. set (s := pow2z (l - 1)) in *.
  assert (mono : forall a b : Z, (a <= b)%Z -> qc_of_Z a * s <= qc_of_Z b * s).
  { intros a b Hab. apply Qcmult_le_compat_r; [|apply Qclt_le_weak; exact Hs].
    unfold qc_of_Z, Qcle. cbn [this Q2Qc]. rewrite !Qred_correct. rewrite <- Zle_Qle. exact Hab. }
  assert (smono : forall a b : Z, (a < b)%Z -> qc_of_Z a * s < qc_of_Z b * s).
  { intros a b Hab. apply Qcmult_lt_compat_r; [exact Hs|].
    unfold qc_of_Z, Qclt. cbn [this Q2Qc]. rewrite !Qred_correct. rewrite <- Zlt_Qlt. exact Hab. }
  destruct (Z.abs (i - j) <=? 1)%Z eqn:A.
  - apply Z.leb_le in A.
    match goal with |- (if ?c then _ else _) = _ => destruct c eqn:B end; [|reflexivity].
    exfalso. apply Qc_leb_le in B.
    destruct (Z.lt_ge_cases i j) as [Hij|Hij].
    + assert (j = i + 1)%Z by lia. subst j.
      rewrite (Qc_min_l_of_le _ _ (mono (i + 1) (i + 1 + 1) ltac:(lia)))%Z in B.
      rewrite (Qc_max_r _ _ (mono (i - 1) (i + 1 - 1) ltac:(lia)))%Z in B.
      apply (Qclt_not_le _ _ (smono (i + 1 - 1) (i + 1) ltac:(lia))%Z). exact B.
    + assert (i = j + 1)%Z by lia. subst i.
      rewrite (Qc_min_r_of_le _ _ (mono (j + 1) (j + 1 + 1) ltac:(lia)))%Z in B.
      rewrite (Qc_max_l _ _ (mono (j - 1) (j + 1 - 1) ltac:(lia)))%Z in B.
      apply (Qclt_not_le _ _ (smono (j + 1 - 1) (j + 1) ltac:(lia))%Z). exact B.
  - apply Z.leb_gt in A.
    match goal with |- (if ?c then _ else _) = _ => destruct c eqn:B end; [reflexivity|].
    exfalso. apply Qc_leb_false in B.
    destruct (Z.lt_ge_cases i j) as [Hij|Hij].
    + rewrite (Qc_min_l_of_le _ _ (mono (i + 1) (j + 1) ltac:(lia)))%Z in B.
      rewrite (Qc_max_r _ _ (mono (i - 1) (j - 1) ltac:(lia)))%Z in B.
      apply (Qclt_not_le _ _ B). apply mono. lia.
    + rewrite (Qc_min_r_of_le _ _ (mono (j + 1) (i + 1) ltac:(lia)))%Z in B.
      rewrite (Qc_max_l _ _ (mono (j - 1) (i - 1) ltac:(lia)))%Z in B.
      apply (Qclt_not_le _ _ B). apply mono. lia.
Qed.
