(* C06: the generated RefinementContainer.get_next_object_for_refinement (coq/Gen/RefContainerGen.v, from sparseSpACE/RefinementContainer.py)
   = Model/RefTree.v cont_get_next: the search of the margin selection loop incl. the new searchPosition. *)
From Coq Require Import ZArith List Bool QArith Qcanon Arith Lia.
From SG Require Import Base.QcUtil Base.PyLib Base.PyNum Proofs.PyLibFacts Proofs.PyNumFacts Model.RefTree.
From SG Require Import Gen.RefContainerGen.
Import ListNotations.
Open Scope Z_scope.
Local Arguments Z.add : simpl never.
Local Arguments Z.sub : simpl never.
Local Arguments Z.of_nat : simpl never.

Lemma seq_as_shift (s k : nat) : seq s k = map (fun a => (s + a)%nat) (seq 0 k).
Proof.
  revert s. induction k as [|k IH]; intro s; [reflexivity|]. cbn [seq map]. f_equal; [lia|].
  rewrite (IH (S s)), <- seq_shift, map_map. apply map_ext. intro a. lia.
Qed.

Lemma py_range2_nat (s e : nat) : py_range2 (Z.of_nat s) (Z.of_nat e) = map Z.of_nat (seq s (e - s)).
Proof.
  unfold py_range2. destruct (le_lt_dec s e) as [H|H].
  - replace (Z.of_nat e - Z.of_nat s) with (Z.of_nat (e - s)) by lia. rewrite py_range_seq, map_map.
    rewrite (seq_as_shift s), map_map. apply map_ext. intro a. lia.
  - replace (e - s)%nat with 0%nat by lia. unfold py_range. replace (Z.to_nat (Z.of_nat e - Z.of_nat s)) with 0%nat by lia. reflexivity.
Qed.

(* the search loop = find *)
Definition gn_body (ben : list Qc) (tol : Qc) (i : Z) (sp : Z) : flow Z (bool * (Z * Z)) :=
  bindE (py_getitem ben i) (fun x => bindF (if Qc_leb tol x then (let sp := i + 1 in Ret (true, (i, sp))) else Nxt sp) (fun sp => Nxt sp)).

Lemma gn_loop ben tol : forall l sp, Forall (fun i => (i < length ben)%nat) l ->
  py_for (map Z.of_nat l) (gn_body ben tol) sp
  = match find (fun i => Qc_leb tol (nth i ben 0%Qc)) l with
    | Some i => Ret (true, (Z.of_nat i, Z.of_nat i + 1))
    | None => Nxt sp
    end.
Proof.
  induction l as [|i l IH]; intros sp HF; [reflexivity|]. inversion HF as [|? ? Hi HF']; subst.
  cbn [map py_for find]. unfold gn_body at 1.
  rewrite (py_getitem_at ben _ i 0%Qc eq_refl Hi). cbn [bindE].
  destruct (Qc_leb tol (nth i ben 0%Qc)); cbn [bindF]; [reflexivity | apply IH; exact HF'].
Qed.

Theorem gen_get_next_eq (ben : list Qc) tol (c : cont) :
  length ben = length (c_objs c) -> (c_startNew c <= length (c_objs c))%nat ->
  RefinementContainer_get_next_object_for_refinement (Z.of_nat (c_startNew c)) (Z.of_nat (c_search c)) ben tol
  = Some (match fst (cont_get_next ben tol c) with
          | Some i => (true, (Z.of_nat i, Z.of_nat (c_search (snd (cont_get_next ben tol c)))))
          | None => (false, (-1, Z.of_nat (c_search (snd (cont_get_next ben tol c)))))
          end).
Proof.
  intros HL HS. unfold RefinementContainer_get_next_object_for_refinement, RefinementContainer_size, cont_get_next.
  cbn [run_flow bindO].
  set (e := if Nat.eqb (c_startNew c) 0 then length (c_objs c) else c_startNew c).
  assert (He : (if Z.of_nat (c_startNew c) =? 0 then Some (py_len ben) else Some (Z.of_nat (c_startNew c))) = Some (Z.of_nat e)).
  { unfold e, py_len. destruct (Nat.eqb_spec (c_startNew c) 0) as [E0|E0].
    - rewrite E0. change (Z.of_nat 0 =? 0) with true. rewrite HL. reflexivity.
    - assert (G : (Z.of_nat (c_startNew c) =? 0) = false) by (apply Z.eqb_neq; lia). rewrite G. reflexivity. }
  rewrite He. cbn [bindE]. rewrite py_range2_nat.
  rewrite (py_for_ext _ _ (gn_body ben tol)) by (intros; reflexivity).
  rewrite gn_loop.
  - destruct (find (fun i => Qc_leb tol (nth i ben 0%Qc)) (seq (c_search c) (e - c_search c))) as [i|]; cbn [bindF run_flow fst snd c_search].
    + f_equal. f_equal. f_equal. lia.
    + reflexivity.
  - apply Forall_forall. intros i Hi. apply in_seq in Hi. unfold e in Hi. destruct (Nat.eqb (c_startNew c) 0); lia.
Qed.
