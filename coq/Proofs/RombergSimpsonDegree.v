(* C11 — Simpson-Romberg containers (repaired coefficients: extrapolation over the levels lo..K with lo >= 1): the weights
   of a container of 2^K >= 2 slices applied to ANY f are  sum_j c_j * S_j(f),  S_j = (4 T_j - T_(j-1)) / 3  the composite
   Simpson sums, plus c_0 * h_0/3 * (f(a) + f(b)) (the level-0 term of the code before the repair; c_0 = 0 for lo >= 1).
   Every S_j integrates cubics exactly and the coefficients sum to one: degree 3 for EVERY K, every container inside any
   adaptive grid, and the whole pipeline whenever every container has at least two slices. *)
From Coq Require Import ZArith List QArith Qcanon Bool Arith Lia.
From SG Require Import Base.QcUtil Model.Romberg Proofs.RombergBasics Proofs.RombergCoeff Proofs.RombergTree
  Proofs.RombergSliced Proofs.RombergExact Proofs.RombergGrouped Proofs.RombergFuel Proofs.RombergSimpson
  Proofs.RombergAnnihilate Proofs.RombergEM Proofs.RombergDegree.
Import ListNotations.
Open Scope Qc_scope.

Local Notation hf := (/ (1 + 1)).

(* ---------------------------------------------------------------------------------------------- *)
(* generic: weights by level applied to the nodes of a complete subtree *)

Section Generic.
Variable K : nat.
Variable f : Qc -> Qc.

Lemma subtree_dot_gen (F : nat -> Qc) d : forall lev lo w, (lev + d = S K)%nat ->
  dotQ (map f (nodes lo w d)) (map (fun l => sumQ (map F (seq l (S K - l)))) (full_levels d lev))
  = sumQ (map (fun j => F j * inner_sum f lo w (S j - lev)) (seq lev (S K - lev))).
Proof.
  induction d as [|d IH]; intros lev lo w H.
  - replace (S K - lev)%nat with 0%nat by lia. reflexivity.
  - cbn [nodes full_levels]. rewrite !map_app.
    rewrite dotQ_app by (rewrite !map_length, nodes_length, full_levels_length; reflexivity).
    cbn [map app dotQ]. rewrite (IH (S lev) lo (w * hf)) by lia. rewrite (IH (S lev) (lo + w * hf) (w * hf)) by lia.
    replace (S K - lev)%nat with (S (S K - S lev)) by lia. cbn [seq map sumQ].
    replace (S lev - lev)%nat with 1%nat by lia. cbn [inner_sum].
    rewrite (sumQ_map_ext_in (fun j => F j * inner_sum f lo w (S j - lev))
               (fun j => F j * inner_sum f lo (w * hf) (S j - S lev)
                         + (f (lo + w * hf) * F j + F j * inner_sum f (lo + w * hf) (w * hf) (S j - S lev)))
               (seq (S lev) (S K - S lev))).
    2:{ intros j Hj. apply in_seq in Hj. replace (S j - lev)%nat with (S (S j - S lev)) by lia. cbn [inner_sum]. ring. }
    rewrite !sumQ_map_add, sumQ_map_scale. ring.
Qed.

Lemma level_dot_gen (E : nat -> Qc) d : forall lev lo w,
  dotQ (map f (nodes lo w d)) (map E (full_levels d lev))
  = sumQ (map (fun l => E l * (inner_sum f lo w (S l - lev) - inner_sum f lo w (l - lev))) (seq lev d)).
Proof.
  induction d as [|d IH]; intros lev lo w; [reflexivity|].
  cbn [nodes full_levels]. rewrite !map_app.
  rewrite dotQ_app by (rewrite !map_length, nodes_length, full_levels_length; reflexivity).
  cbn [map app dotQ seq sumQ]. rewrite (IH (S lev) lo (w * hf)), (IH (S lev) (lo + w * hf) (w * hf)).
  replace (S lev - lev)%nat with 1%nat by lia. rewrite Nat.sub_diag. cbn [inner_sum].
  rewrite (sumQ_map_ext_in (fun l => E l * (inner_sum f lo w (S l - lev) - inner_sum f lo w (l - lev)))
             (fun l => E l * (inner_sum f lo (w * hf) (S l - S lev) - inner_sum f lo (w * hf) (l - S lev))
                       + E l * (inner_sum f (lo + w * hf) (w * hf) (S l - S lev) - inner_sum f (lo + w * hf) (w * hf) (l - S lev)))
             (seq (S lev) d)).
  - rewrite sumQ_map_add. ring.
  - intros l Hl. apply in_seq in Hl. replace (S l - lev)%nat with (S (S l - S lev)) by lia.
    replace (l - lev)%nat with (S (l - S lev)) by lia. cbn [inner_sum]. ring.
Qed.

Lemma dotQ_map_add {A} (u : list Qc) (P Q : A -> Qc) l :
  dotQ u (map (fun x => P x + Q x) l) = dotQ u (map P l) + dotQ u (map Q l).
Proof.
  revert u. induction l as [|x l IH]; intro u; destruct u as [|y u]; cbn [map dotQ]; try ring. rewrite IH. ring.
Qed.
End Generic.

(* ---------------------------------------------------------------------------------------------- *)
(* the Simpson weights of the complete grid applied to f *)

Section SimpsonDot.
Variables (lo : nat) (a b : Qc) (K : nat).
Variable f : Qc -> Qc.

Local Notation c := (sc lo a b K).
Local Notation third := (/ (1 + 1 + 1)).

Definition simpson_level (j : nat) : Qc :=
  ((1 + 1 + 1 + 1) * trapD f a (b - a) j - trapD f a (b - a) (j - 1)) * third.

Theorem simpson_full_dot : (1 <= K)%nat ->
  dotQ (map f ([a] ++ nodes a (b - a) K ++ [b]))
       ([s_boundary lo a b K] ++ map (s_inner lo a b K) (full_levels K 1) ++ [s_boundary lo a b K])
  = c 0%nat * (step_width a b 0 * third * (f a + f b)) + sumQ (map (fun j => c j * simpson_level j) (seq 1 K)).
Proof.
  intro HK. cbn [app map dotQ]. rewrite map_app. cbn [map].
  rewrite dotQ_snoc by (rewrite !map_length, nodes_length, full_levels_length; reflexivity).
  set (tt := two_thirds).
  rewrite (map_ext_in (s_inner lo a b K)
             (fun l => sumQ (map (fun j => tt * sfj lo a b K j) (seq l (S K - l))) + tt * sfj lo a b K l)).
  2:{ intros l Hl. apply full_levels_range in Hl. rewrite s_inner_eq. fold tt.
      replace (S K - l)%nat with (S (K - l)) by lia. cbn [seq map sumQ]. rewrite sumQ_map_scale. ring. }
  rewrite dotQ_map_add, (subtree_dot_gen K f (fun j => tt * sfj lo a b K j) K 1 a (b - a)) by lia.
  rewrite (level_dot_gen f (fun l => tt * sfj lo a b K l) K 1 a (b - a)).
  replace (S K - 1)%nat with K by lia. rewrite <- sumQ_map_add.
  assert (SB : s_boundary lo a b K = third * (c 0%nat * step_width a b 0) + third * sumQ (map (sfj lo a b K) (seq 1 K))).
  { unfold s_boundary. change (seq 0 (S K)) with (0%nat :: seq 1 K). cbn [map sumQ]. fold (sfj lo a b K).
    change (fun j => sc lo a b K j * step_width a b j) with (sfj lo a b K). rewrite Qc3_eq. unfold Qcdiv. ring. }
  rewrite SB.
  transitivity (c 0%nat * (step_width a b 0 * third * (f a + f b))
                + (sumQ (map (fun j => third * (f a + f b) * sfj lo a b K j) (seq 1 K))
                   + sumQ (map (fun x => tt * sfj lo a b K x * inner_sum f a (b - a) (S x - 1)
                                       + tt * sfj lo a b K x * (inner_sum f a (b - a) (S x - 1) - inner_sum f a (b - a) (x - 1))) (seq 1 K)))).
  { rewrite sumQ_map_scale. ring. }
  f_equal. rewrite <- sumQ_map_add. apply sumQ_map_ext_in. intros j Hj. apply in_seq in Hj.
  unfold simpson_level. replace (S j - 1)%nat with j by lia.
  assert (Hj' : j = S (j - 1)) by lia.
  rewrite !trapD_inner, !step_width_hf. replace (a + (b - a)) with b by ring.
  assert (SW : step_width a b (j - 1) = (1 + 1) * step_width a b j).
  { rewrite <- !step_width_hf. rewrite Hj' at 2. simpl. field. exact two_neq0. }
  rewrite SW. unfold sfj, tt, two_thirds. field. split; [exact three_neq0 | exact two_neq0].
Qed.

End SimpsonDot.

(* the composite Simpson sums integrate cubics exactly *)
Lemma simpson_level_exact a b j k : (1 <= j)%nat -> (k <= 3)%nat -> simpson_level a b (pw k) j = Ik k a b.
Proof.
  intros Hj Hk. unfold simpson_level.
  destruct (trap_even_expansion_eq k a (b - a)) as [g [Lg Hg]]. replace (a + (b - a)) with b in Hg by ring.
  assert (D : (Nat.div2 k <= 1)%nat).
  { destruct k as [|[|[|[|k]]]]; simpl; lia. }
  rewrite (Hg j), (Hg (j - 1)%nat).
  assert (T : tj (b - a) (j - 1) = (1 + 1 + 1 + 1) * tj (b - a) j).
  { replace j with (S (j - 1)) at 2 by lia. rewrite tj_S. field. exact two_neq0. }
  rewrite T.
  destruct g as [|g1 [|g2 g]]; [| |simpl in Lg; lia]; cbn [pev]; field; exact three_neq0.
Qed.

Lemma sc_zero lo a b K : (1 <= lo)%nat -> sc lo a b K 0 = 0.
Proof. intro H. unfold sc, romberg_coefficient_from. destruct (Nat.ltb_spec 0 lo) as [_|C]; [reflexivity | lia]. Qed.

Theorem simpson_full_grid_exact lo a b K k : a <> b -> (1 <= lo <= K)%nat -> (k <= 3)%nat ->
  dotQ (map (pw k) ([a] ++ nodes a (b - a) K ++ [b]))
       ([s_boundary lo a b K] ++ map (s_inner lo a b K) (full_levels K 1) ++ [s_boundary lo a b K]) = Ik k a b.
Proof.
  intros Hab Hlo Hk. rewrite simpson_full_dot by lia. rewrite sc_zero by lia.
  rewrite (sumQ_map_ext_in _ (fun j => Ik k a b * sc lo a b K j)).
  2:{ intros j Hj. apply in_seq in Hj. rewrite simpson_level_exact by lia. ring. }
  rewrite sumQ_map_scale.
  assert (C := romberg_coeff_from_sum_one lo a b 3 K Hab ltac:(lia) ltac:(lia)).
  change (seq 0 (S K)) with (0%nat :: seq 1 K) in C. cbn [map sumQ] in C.
  change (romberg_coefficient_from lo a b 3 K) with (sc lo a b K) in C. rewrite sc_zero in C by lia.
  assert (C' : sumQ (map (sc lo a b K) (seq 1 K)) = 1) by (rewrite <- C; ring).
  rewrite C'. ring.
Qed.

(* ---------------------------------------------------------------------------------------------- *)
(* one Simpson container of 2^K >= 2 slices *)

Lemma simpson_container_form lo sv K h c cs :
  length c = (2 ^ K)%nat -> (1 <= K)%nat -> chain c -> Forall (fun s => sl_width s = h) c ->
  container_final_from lo sv CV_Simpson c = Some cs ->
  let a := container_left c in let b := container_right c in
  map fst cs = container_grid c /\
  map snd cs = [s_boundary lo a b K] ++ map (s_inner lo a b K) (full_levels K 1) ++ [s_boundary lo a b K].
Proof.
  intros HL HK Hc Hw H a b.
  assert (P : (2 <= 2 ^ K)%nat).
  { destruct K as [|K']; [lia|]. rewrite Nat.pow_succ_r'. assert (1 <= 2 ^ K')%nat by (apply Nat.neq_0_lt_0, Nat.pow_nonzero; lia). lia. }
  assert (Hne : c <> []) by (intro E; rewrite E in HL; simpl in HL; lia).
  destruct (container_grid_arith h c Hne Hc Hw) as [G _].
  set (n := S (length c)).
  assert (Hn : length (container_grid c) = n) by (rewrite G, arith_length; reflexivity).
  set (g := fun i : nat => if Nat.eqb i 0 || Nat.eqb i (n - 1) then s_boundary lo a b K
                           else s_inner lo a b K (nth i (normalized_levels n) 0%nat)).
  assert (NL : normalized_levels n = [0%nat] ++ full_levels K 1 ++ [0%nat]).
  { unfold n. rewrite HL. apply normalized_levels_full. exact HK. }
  assert (E : container_final_from lo sv CV_Simpson c =
              Some (map (fun i => (nthQ (container_grid c) i, g i)) (seq 0 n))).
  { destruct c as [|s1 [|s2 c']]; [congruence | simpl in HL; lia |].
    unfold container_final_from. fold a b. rewrite Hn.
    assert (M : list_max (normalized_levels n) = K).
    { rewrite NL, !list_max_app, full_levels_max by exact HK. simpl. lia. }
    rewrite M. apply opt_list_all. intros i Hi. apply in_seq in Hi. unfold g.
    destruct (Nat.eqb i 0 || Nat.eqb i (n - 1)) eqn:Eb; [reflexivity|].
    apply orb_false_elim in Eb. destruct Eb as [E0 E1]. apply Nat.eqb_neq in E0. apply Nat.eqb_neq in E1.
    assert (Hr : (1 <= nth i (normalized_levels n) 0%nat <= K)%nat).
    { rewrite NL. cbn [app]. destruct i as [|i']; [lia|]. cbn [nth].
      assert (Li : (i' < length (full_levels K 1))%nat) by (rewrite full_levels_length; unfold n in *; lia).
      rewrite app_nth1 by exact Li.
      assert (I := full_levels_range K 1 _ (nth_In _ 0%nat Li)). lia. }
    unfold simpson_inner_weight_from.
    destruct (Nat.leb_spec 1 (nth i (normalized_levels n) 0%nat)) as [_|C]; [|lia].
    destruct (Nat.leb_spec (nth i (normalized_levels n) 0%nat) K) as [_|C]; [|lia].
    reflexivity. }
  assert (Ecs : cs = map (fun i => (nthQ (container_grid c) i, g i)) (seq 0 n)) by congruence.
  subst cs. rewrite !map_map. cbn [fst snd]. split.
  - transitivity (map (fun x : Qc => x) (container_grid c)); [|apply map_id].
    rewrite <- Hn. exact (map_nth_seq (fun x : Qc => x) (container_grid c) 0).
  - assert (Ln : n = S (S (length (full_levels K 1)))) by (rewrite full_levels_length; unfold n; lia).
    rewrite Ln at 1. rewrite seq_S. change (seq 0 (S (length (full_levels K 1)))) with (0%nat :: seq 1 (length (full_levels K 1))).
    rewrite map_app. cbn [map app].
    assert (Mid : map g (seq 1 (length (full_levels K 1))) = map (s_inner lo a b K) (full_levels K 1)).
    { rewrite <- seq_shift, map_map.
      rewrite <- (map_nth_seq (s_inner lo a b K) (full_levels K 1) 0%nat). apply map_ext_in. intros i Hi. apply in_seq in Hi.
      unfold g. destruct (Nat.eqb_spec (S i) 0) as [C|_]; [lia|]. destruct (Nat.eqb_spec (S i) (n - 1)) as [C|_]; [lia|].
      cbn [orb]. rewrite NL. cbn [app nth]. rewrite app_nth1 by lia. reflexivity. }
    assert (Last : g (0 + S (length (full_levels K 1)))%nat = s_boundary lo a b K).
    { unfold g. replace (0 + S (length (full_levels K 1)))%nat with (n - 1)%nat by lia.
      rewrite Nat.eqb_refl, orb_true_r. reflexivity. }
    change (fun x : nat => g x) with g. rewrite Mid, Last. reflexivity.
Qed.

Theorem simpson_container_exact lo sv K h c cs k :
  length c = (2 ^ K)%nat -> (1 <= lo <= K)%nat -> chain c -> Forall (fun s => sl_width s = h) c ->
  Forall (fun s => sl_l s < sl_r s) c ->
  container_final_from lo sv CV_Simpson c = Some cs -> (k <= 3)%nat ->
  wpow k cs = Ik k (container_left c) (container_right c).
Proof.
  intros HL Hlo Hc Hw Hlt H Hk.
  destruct (simpson_container_form lo sv K h c cs HL ltac:(lia) Hc Hw H) as [F1 F2].
  assert (Hne : c <> []) by (intro E; rewrite E in HL; simpl in HL; assert (1 <= 2 ^ K)%nat by (apply Nat.neq_0_lt_0, Nat.pow_nonzero; lia); lia).
  destruct (container_grid_arith h c Hne Hc Hw) as [G R].
  assert (Hab : container_left c <> container_right c).
  { apply Qclt_not_eq. exact (chain_left_lt_right c Hne Hc Hlt). }
  rewrite wpow_dot, F1, F2, G, HL, (arith_as_nodes _ _ K ltac:(lia)).
  rewrite HL in R.
  replace (qn (2 ^ K) * h) with (container_right c - container_left c) by (rewrite R; ring).
  replace (container_left c + (container_right c - container_left c)) with (container_right c) by ring.
  apply simpson_full_grid_exact; assumption.
Qed.

(* ---------------------------------------------------------------------------------------------- *)
(* the pipeline with Simpson containers (repaired coefficients, lo = 1): degree 3 when every container has >= 2 slices *)

Theorem simpson_sliced_exact_degree g sv force grid levels r k :
  extrapolation_grid_from 1 g sv CV_Simpson force grid levels = Some r ->
  Forall (fun n => (2 <= n)%nat) (er_container_sizes r) -> (k <= 3)%nat ->
  wpow k (er_dict r) = Ik k (grid_a r) (grid_b r).
Proof.
  unfold extrapolation_grid_from.
  destruct (Nat.eqb (length grid) (length levels) && (2 <=? length grid)%nat); [|discriminate].
  destruct (if force then _ else _) as [[gr lv]|]; [|discriminate].
  destruct (init_grid_slices gr lv) as [slices|] eqn:Es; [|discriminate].
  destruct (opt_concat _) as [cs|] eqn:Ec; [|discriminate].
  intros H Hsz Hk.
  assert (Er : r = mkExt gr lv (map (@length slice) (adjust_containers g (initial_containers g slices))) (dict_of cs)) by congruence.
  clear H. subst r. unfold grid_a, grid_b. cbn [er_dict er_grid er_container_sizes] in *.
  destruct (initial_containers_spec g slices) as [I1 I2].
  destruct (adjust_containers_spec g _ I2) as [A1 A2]. rewrite I1 in A1.
  destruct (init_grid_slices_chain gr lv slices Es) as [C L].
  set (conts := adjust_containers g (initial_containers g slices)) in *.
  assert (FC : Forall chain conts) by (apply chain_concat; rewrite A1; exact C).
  assert (FL : Forall (Forall (fun s => sl_l s < sl_r s)) conts) by (apply Forall_concat_inv; rewrite A1; exact L).
  assert (St : wpow k cs = sumQ (map (fun s => Gk k (sl_r s) - Gk k (sl_l s)) (concat conts))).
  { clear A1 I1 I2 Es C L. revert cs Ec. induction conts as [|c conts IH]; intros cs Ec.
    - simpl in Ec. assert (cs = []) by congruence. subst. reflexivity.
    - cbn [map opt_concat] in Ec.
      destruct (container_final_from 1 sv CV_Simpson c) as [y|] eqn:Ey; [|discriminate].
      destruct (opt_concat (map (container_final_from 1 sv CV_Simpson) conts)) as [ys|] eqn:Eys; [|discriminate].
      assert (cs = y ++ ys) by congruence. subst cs.
      apply Forall_cons_iff in A2. destruct A2 as [U A2]. apply Forall_cons_iff in FC. destruct FC as [Cc FC].
      apply Forall_cons_iff in FL. destruct FL as [Lc FL].
      cbn [map] in Hsz. apply Forall_cons_iff in Hsz. destruct Hsz as [Hc Hsz].
      cbn [concat]. rewrite wpow_app, map_app, sumQ_app, (IH Hsz A2 FC FL ys eq_refl). f_equal.
      destruct U as [[Hne [h Hw]] P2].
      destruct (pow2_le_power2 1 _ P2 ltac:(simpl; lia)) as [K [EK LK]].
      rewrite (chain_telescope (Gk k) c Hne Cc). unfold Gk. rewrite <- Ik_as_diff.
      apply (simpson_container_exact 1 sv K h c y k EK ltac:(lia) Cc Hw Lc Ey Hk). }
  rewrite A1 in St. rewrite dict_of_wpow, St, (slices_telescope (Gk k) gr lv slices Es).
  unfold Gk. rewrite <- Ik_as_diff. reflexivity.
Qed.
