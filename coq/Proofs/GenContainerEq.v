(* The SOURCE-DERIVED container methods (Gen/RefContainerMachineGen.v: RefinementContainer.update_values / prepare_remove / add /
   refine / apply_remove / reinit_new_objects, written by harness/translate/py2gallina_machine.py --target container at every run)
   are the container functions of Model/RefTree.v (cont_refine, cont_apply_remove, cont_reinit).
   The elements of refinementObjects are objects of their own: their attributes (.value, .evaluations, .start) are projections,
   their methods (.refine(), .update(info), .reinit()) oracles.  The theorems instantiate the element type with the model's
   intervals `ival`, .start with i_start, and assume what the model assumes about the element methods: refine() returns the
   two children and no update information and leaves the element unchanged, reinit() does not change the interval data. *)
From Coq Require Import ZArith List Bool Lia QArith Qcanon Arith.
From SG Require Import Base.QcUtil Base.PyLib Base.PyNum Base.PyMachine Base.PySort Proofs.PyLibFacts Proofs.PyNumFacts
  Model.RefTree Gen.RefContainerMachineGen.
Import ListNotations.
Open Scope Z_scope.

(* ---- sorted(): the semantics library's stable insertion sort is the model's *)
Lemma py_insert_by_start x l : py_insert_by i_start x l = insert_by_start x l.
Proof. induction l as [|y r IH]; [reflexivity|]. cbn [py_insert_by insert_by_start]. rewrite IH. reflexivity. Qed.
Lemma py_sorted_by_start l : py_sorted_by i_start l = sort_by_start l.
Proof.
  unfold py_sorted_by, sort_by_start. induction l as [|x l IH]; [reflexivity|].
  cbn [fold_right]. rewrite IH. apply py_insert_by_start.
Qed.
Lemma py_insert_int_nat x l : py_insert_int (Z.of_nat x) (map Z.of_nat l) = map Z.of_nat (insert_nat x l).
Proof.
  induction l as [|y r IH]; [reflexivity|]. cbn [map py_insert_int insert_nat].
  replace (Z.of_nat x <=? Z.of_nat y) with (Nat.leb x y).
  - destruct (Nat.leb x y); cbn [map]; [reflexivity|]. rewrite IH. reflexivity.
  - destruct (Nat.leb x y) eqn:E; symmetry.
    + apply Nat.leb_le in E. apply Z.leb_le. lia.
    + apply Nat.leb_gt in E. apply Z.leb_gt. lia.
Qed.
Lemma py_sorted_int_nat l : py_sorted_int (map Z.of_nat l) = map Z.of_nat (sort_nat l).
Proof.
  unfold py_sorted_int, sort_nat. induction l as [|x l IH]; [reflexivity|].
  cbn [map fold_right]. rewrite IH. apply py_insert_int_nat.
Qed.

Lemma py_mapM_id {A} (f : A -> option A) l : (forall x, f x = Some x) -> py_mapM f l = Some l.
Proof. intros H. rewrite (py_mapM_total f (fun x => x)); [rewrite map_id; reflexivity|]. intros x _. apply H. Qed.

Lemma py_list_pop_at {A} (l : list A) (p : nat) x : nth_error l p = Some x ->
  py_list_pop l (Z.of_nat p) = Some (x, remove_at p l).
Proof.
  intros H. unfold py_list_pop. assert (p < length l)%nat as Hp by (apply nth_error_Some; congruence).
  rewrite py_index_Z by lia. rewrite Nat2Z.id, H. reflexivity.
Qed.

Section Eq.
  Variable St : Type.
  Variables T_update_info T_lmax_update : Type.
  Variable g_value : ival -> Qc.
  Variable g_evaluations : ival -> Z.
  Variable e_refine : ival -> option ((list ival * T_lmax_update * option T_update_info) * ival).
  Variable e_update : ival -> T_update_info -> option (unit * ival).
  Variable e_reinit : ival -> option (unit * ival).
  (* what the model assumes about the element methods *)
  Variable lm : ival -> T_lmax_update.
  Hypothesis H_refine : forall iv, e_refine iv = Some ((children iv, lm iv, None), iv).
  Hypothesis H_reinit : forall iv, e_reinit iv = Some (tt, iv).

  Notation Self := (Self_t St ival).
  (* the object holding the model container c, the accumulated value v and evaluation count n *)
  Definition conc (st : St) (c : cont) (v : Qc) (n : Z) : Self :=
    mk_Self_t St ival st (Some (c_objs c)) (Some (map Z.of_nat (c_pop c))) (Some (Z.of_nat (c_startNew c))) (Some v) (Some n)
              (Some (Z.of_nat (c_search c))).

  Notation gen_refine := (RefinementContainer_refine St ival T_update_info T_lmax_update e_refine e_update).
  Notation gen_apply_remove := (RefinementContainer_apply_remove St ival g_value g_evaluations i_start).
  Notation gen_reinit := (RefinementContainer_reinit_new_objects St ival e_reinit).

  Ltac norm1 := cbn [a_st f_refinementObjects f_popArray f_startNewObjects f_value f_evaluationstotal f_searchPosition
                     set_f_refinementObjects set_f_popArray set_f_startNewObjects set_f_value set_f_evaluationstotal
                     set_f_searchPosition bindE bindF run_flow conc fst snd negb].

  (* reinit_new_objects: startNewObjects = 0 (cont_reinit), value and evaluationstotal back to 0, every element re-initialised *)
  Theorem gen_reinit_new_objects st c v n fuel :
    gen_reinit fuel (conc st c v n) = Some (tt, conc st (cont_reinit c) (py_Z2Qc 0) 0).
  Proof.
    unfold RefinementContainer_reinit_new_objects. norm1.
    rewrite (py_mapM_id (fun obj => option_map snd (e_reinit obj))); [reflexivity|].
    intros x. rewrite H_reinit. reflexivity.
  Qed.

  (* refine(object_id) for an object id inside the container (outside, Python raises IndexError; the model leaves the container
     unchanged): start of the new objects remembered at the first refinement of a round, id queued for removal, children added *)
  Theorem gen_refine_is_cont_refine st c v n i iv fuel : nth_error (c_objs c) i = Some iv ->
    gen_refine fuel (conc st c v n) (Z.of_nat i) = Some ((lm iv, children iv), conc st (cont_refine c i) v n).
  Proof.
    intros Hi. assert (i < length (c_objs c))%nat as Hl by (apply nth_error_Some; congruence).
    unfold RefinementContainer_refine, RefinementContainer_update_values, RefinementContainer_prepare_remove,
      RefinementContainer_add, cont_refine. rewrite Hi. norm1.
    replace (Z.of_nat (c_startNew c) =? 0) with (Nat.eqb (c_startNew c) 0)
      by (destruct (c_startNew c); reflexivity).
    assert (py_setitem (c_objs c) (Z.of_nat i) iv = Some (c_objs c)) as Hset.
    { unfold py_setitem. rewrite py_index_Z by lia. rewrite Nat2Z.id. f_equal.
      rewrite <- (nth_error_nth _ _ iv Hi). apply list_set_same. }
    destruct (Nat.eqb (c_startNew c) 0); norm1;
      rewrite (py_getitem_at (c_objs c) (Z.of_nat i) i iv eq_refl Hl), (nth_error_nth _ _ iv Hi); norm1;
      rewrite H_refine; norm1; rewrite Hset; norm1;
      unfold conc, py_len; cbn [c_objs c_pop c_startNew c_search]; rewrite map_app; reflexivity.
  Qed.

  (* ---- apply_remove(sort=True).  Python pops the queued positions in descending order and raises IndexError for a position outside
     the (shrinking) list, where the model's remove_at leaves the list unchanged: the positions must be valid one after the other *)
  Fixpoint valid_desc (ps : list nat) (objs : list ival) : Prop :=
    match ps with
    | [] => True
    | p :: r => (p < length objs)%nat /\ valid_desc r (remove_at p objs)
    end.

  Notation mkself st objs pop sn v n srch :=
    (mk_Self_t St ival st (Some objs) (Some pop) (Some (Z.of_nat sn)) (Some v) (Some n) (Some srch)).

  Definition rm_step (acc : list ival * nat) (p : nat) : list ival * nat :=
    (remove_at p (fst acc), if Nat.eqb (snd acc) 0 then 0%nat else Nat.pred (snd acc)).

  Theorem gen_apply_remove_is_model st c v n fuel : valid_desc (rev (sort_nat (c_pop c))) (c_objs c) ->
    exists removed v' n',
      gen_apply_remove fuel (conc st c v n) true = Some (removed, conc st (cont_apply_remove c) v' n').
  Proof.
    intros Hv. unfold RefinementContainer_apply_remove, cont_apply_remove. norm1.
    rewrite py_sorted_int_nat, <- map_rev.
    fold rm_step.
    match goal with |- context [py_for _ ?b _] => set (B := b) end.
    assert (L : forall ps objs sn v n rem, valid_desc ps objs ->
              exists v' n' rem',
                py_for (map Z.of_nat ps) B (mkself st objs (map Z.of_nat (c_pop c)) sn v n (Z.of_nat (c_search c)), rem) =
                Nxt (mkself st (fst (fold_left rm_step ps (objs, sn))) (map Z.of_nat (c_pop c))
                            (snd (fold_left rm_step ps (objs, sn))) v' n' (Z.of_nat (c_search c)), rem')).
    { induction ps as [|p ps IH]; intros objs sn v0 n0 rem Hps.
      - exists v0, n0, rem. reflexivity.
      - destruct Hps as [Hp Hr]. cbn [map py_for fold_left]. unfold B at 1. norm1.
        destruct (nth_error objs p) as [x|] eqn:Ex; [|apply nth_error_None in Ex; lia].
        rewrite (py_getitem_at objs (Z.of_nat p) p x eq_refl Hp). norm1.
        rewrite (py_list_pop_at objs p x Ex). norm1.
        replace (negb (Z.of_nat sn =? 0)) with (negb (Nat.eqb sn 0)) by (destruct sn; reflexivity).
        unfold rm_step at 2 4. cbn [fst snd].
        destruct (Nat.eqb sn 0) eqn:Esn; norm1.
        + apply Nat.eqb_eq in Esn. subst sn. apply (IH (remove_at p objs) 0%nat _ _ _ Hr).
        + replace (Z.of_nat sn - 1) with (Z.of_nat (Nat.pred sn)) by (apply Nat.eqb_neq in Esn; lia).
          apply (IH (remove_at p objs) (Nat.pred sn) _ _ _ Hr). }
    destruct (L (rev (sort_nat (c_pop c))) (c_objs c) (c_startNew c) v n [] Hv) as [v' [n' [rem' E]]].
    exists rem', v', n'. unfold conc at 1. rewrite E. norm1.
    destruct (fold_left rm_step (rev (sort_nat (c_pop c))) (c_objs c, c_startNew c)) as [objs' sn'].
    cbn [fst snd]. rewrite py_sorted_by_start. reflexivity.
  Qed.
End Eq.
