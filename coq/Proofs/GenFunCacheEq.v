(* The SOURCE-DERIVED cache machine (Gen/FunCacheGen.v: Function.reset_dictionary / deactivate_caching / get_f_dict_size and the
   three shape-specialisations of Function.__call__, written by harness/translate/py2gallina_machine.py --target funcache at every
   run) is the hand-written machine of Model/FunCache.v / FunCacheVec.v (variant `fixed` = the code as it is since the two
   repairs).  eval / eval_vectorized / output_length are oracle parameters; the theorems assume that they are pure (state
   unchanged), that eval returns a number or a sequence of numbers (ev), and read the model's normalised evaluation function as
   eval' p = [x] for a scalar x, = l for a sequence l - exactly the `if np.isscalar(f_value): f_value = [f_value]` of the code.
   The generated dictionaries hold the RAW values (scalar or sequence), the model's the normalised ones: dnorm. *)
From Coq Require Import ZArith List Bool Lia QArith Qcanon.
From SG Require Import Base.QcUtil Base.PyLib Base.PyNum Base.PyMachine Base.PyValue Model.FunCache Model.FunCacheVec
  Proofs.FunCacheProofs Gen.FunCacheGen.
Import ListNotations.
Open Scope Z_scope.

Definition norm (v : pyval) : value := match v with VScalar x => [x] | VVec l => l | _ => [] end.
Definition good (v : pyval) : bool := match v with VScalar _ | VVec _ => true | _ => false end.
Definition dnorm (d : vdict) : dict := map (fun kv => (fst kv, norm (snd kv))) d.
Definition wfd (d : vdict) : Prop := forall k v, In (k, v) d -> good v = true.

Lemma fkey_eqb_point_eqb a b : fkey_eqb a b = point_eqb a b.
Proof.
  revert b. induction a as [|x a IH]; intros [|y b]; cbn [fkey_eqb point_eqb]; try reflexivity.
  rewrite IH. f_equal. apply eq_true_iff_eq. rewrite Qc_eqb_eq, Qc_eqb_canon_eq. tauto.
Qed.

Lemma get_lookup d k : wfd d ->
  match py_vdict_get d k with
  | VNone => lookup k (dnorm d) = None
  | v => lookup k (dnorm d) = Some (norm v) /\ good v = true
  end.
Proof.
  induction d as [|[k' v] d IH]; intros W; [reflexivity|].
  cbn [py_vdict_get dnorm map lookup fst snd]. rewrite <- fkey_eqb_point_eqb. destruct (fkey_eqb k k').
  - pose proof (W k' v (or_introl eq_refl)) as G. destruct v; try discriminate; split; reflexivity || exact G.
  - apply IH. intros a b H. apply (W a b). right. exact H.
Qed.

Lemma set_insert d k v : dnorm (py_vdict_set d k v) = insert k (norm v) (dnorm d).
Proof.
  induction d as [|[k' v'] d IH]; [reflexivity|].
  cbn [py_vdict_set dnorm map insert fst snd]. rewrite <- fkey_eqb_point_eqb. destruct (fkey_eqb k k'); cbn [map fst snd].
  - reflexivity.
  - f_equal. exact IH.
Qed.

Lemma set_wfd d k v : wfd d -> good v = true -> wfd (py_vdict_set d k v).
Proof.
  induction d as [|[k' v'] d IH]; intros W G a b H.
  - destruct H as [H|[]]. injection H as <- <-. exact G.
  - cbn [py_vdict_set] in H. destruct (fkey_eqb k k').
    + destruct H as [H|H]; [injection H as <- <-; exact G|]. apply (W a b). right. exact H.
    + destruct H as [H|H]; [apply (W a b); left; exact H|].
      apply (IH (fun a b H => W a b (or_intror H)) G a b H).
Qed.

Lemma update_insert_all : forall ks rows d,
  dnorm (py_vdict_update_zip d ks rows) = insert_all (combine ks rows) (dnorm d).
Proof.
  induction ks as [|k ks IH]; intros [|r rows] d; cbn [py_vdict_update_zip combine insert_all]; try reflexivity.
  rewrite IH, set_insert. reflexivity.
Qed.

Lemma update_wfd : forall ks rows d, wfd d -> wfd (py_vdict_update_zip d ks rows).
Proof.
  induction ks as [|k ks IH]; intros [|r rows] d W; cbn [py_vdict_update_zip]; try exact W.
  apply IH. apply set_wfd; [exact W|reflexivity].
Qed.

Section Eq.
  Variable St : Type.
  Variable m_eval : St -> list Qc -> option (pyval * St).
  Variable m_eval_vectorized : St -> list (list Qc) -> option (list (list Qc) * St).
  Variable m_output_length : St -> option (Z * St).
  (* the oracles are pure *)
  Variable ev : point -> pyval.
  Variable evec : list point -> list value.
  Variable olen : nat.
  Hypothesis H_eval : forall s p, m_eval s p = Some (ev p, s).
  Hypothesis H_evec : forall s ps, m_eval_vectorized s ps = Some (evec ps, s).
  Hypothesis H_olen : forall s, m_output_length s = Some (Z.of_nat olen, s).
  Hypothesis ev_good : forall p, good (ev p) = true.       (* eval returns a number or a sequence of numbers *)

  Definition eval' (p : point) : value := norm (ev p).

  Notation Self := (Self_t St).
  Definition conc (s : St) (fdg ofdg : vdict) (c : bool) : Self := mk_Self_t St s (Some fdg) (Some ofdg) (Some c).
  Definition abs (fdg ofdg : vdict) (c : bool) : state := mkSt (dnorm fdg) (dnorm ofdg) c.

  Notation gen_single := (Function___call___single St m_eval m_output_length).
  Notation gen_batch := (Function___call___batch St m_eval_vectorized m_output_length).
  Notation gen_empty := (Function___call___empty St m_output_length).

  Ltac norm1 := cbn [call_eval call_eval_vectorized call_output_length a_st set_a_st f_f_dict f_old_f_dict f_do_cache set_f_f_dict
                     set_f_old_f_dict set_f_do_cache bindE bindF run_flow py_assert conc fst snd].
  Ltac go := repeat (try unfold call_eval, call_eval_vectorized; norm1; rewrite ?H_eval, ?H_evec).

  (* ---- the three small methods *)
  Theorem gen_reset_dictionary s fdg ofdg c fuel :
    Function_reset_dictionary St fuel (conc s fdg ofdg c) = Some (tt, conc s [] [] c) /\
    step eval' olen fixed (abs fdg ofdg c) OReset = (abs [] [] c, RUnit).
  Proof. split; reflexivity. Qed.

  Theorem gen_deactivate_caching s fdg ofdg c fuel :
    Function_deactivate_caching St fuel (conc s fdg ofdg c) = Some (tt, conc s fdg ofdg false) /\
    step eval' olen fixed (abs fdg ofdg c) ODeact = (abs fdg ofdg false, RUnit).
  Proof. split; reflexivity. Qed.

  Theorem gen_get_f_dict_size s fdg ofdg c fuel :
    Function_get_f_dict_size St fuel (conc s fdg ofdg c) = Some (Z.of_nat (length fdg), conc s fdg ofdg c) /\
    step eval' olen fixed (abs fdg ofdg c) OSize = (abs fdg ofdg c, RSize (length fdg)).
  Proof. split; [reflexivity|]. unfold step, abs, dnorm. cbn [fd]. rewrite map_length. reflexivity. Qed.

  (* ---- __call__ on a single point (a non-empty tuple of scalars) *)
  Lemma normalise_value {V R} v (k : pyval -> flow V R) : good v = true ->
    bindF (if py_isscalar v then bindE (py_list1 v) (fun t => Nxt t) else Nxt v) k = k (VVec (norm v)).
  Proof. destruct v; try discriminate; reflexivity. Qed.

  Lemma len_check l : (py_len l =? Z.of_nat olen) = check_len olen l.
  Proof.
    unfold py_len, check_len. destruct (Nat.eqb (length l) olen) eqn:E.
    - apply Nat.eqb_eq in E. rewrite E. apply Z.eqb_refl.
    - apply Nat.eqb_neq in E. apply Z.eqb_neq. lia.
  Qed.

  Definition single_spec (s : St) (fdg ofdg : vdict) (c : bool) (p : point) (r : option (pyval * Self)) : Prop :=
    match call_single eval' olen fixed (abs fdg ofdg c) p with
    | (st', RSingle v) => exists fdg', r = Some (VVec v, conc s fdg' ofdg c) /\ st' = abs fdg' ofdg c /\ wfd fdg'
    | (_, RErr _) => r = None
    | _ => False
    end.

  (* what the code does once f_value holds a good value v and the dictionary is fdg' *)
  Lemma single_tail (self : Self) v : good v = true ->
    run_flow (V:=unit)
      (bindF (if py_isscalar v then bindE (py_list1 v) (fun t => Nxt t) else Nxt v) (fun f_value =>
         bindE (py_val_len f_value) (fun t12 =>
           bindE (call_output_length St m_output_length self) (fun '(t13, self) =>
             py_assert (t12 =? t13) (bindE (np_array_val f_value) (fun t14 => Ret (t14, self))))))) =
    if check_len olen (norm v) then Some (VVec (norm v), self) else None.
  Proof.
    intros G. rewrite (normalise_value v _ G). cbn [py_val_len bindE]. unfold call_output_length. rewrite H_olen.
    destruct self as [s0 a b c0]. cbn [set_a_st a_st bindE py_assert]. rewrite len_check. cbn [np_array_val].
    destruct (check_len olen (norm v)); reflexivity.
  Qed.

  Theorem gen_call_single s fdg ofdg c p fuel : p <> [] -> wfd fdg -> wfd ofdg ->
    single_spec s fdg ofdg c p (gen_single fuel (conc s fdg ofdg c) p).
  Proof.
    intros Hp W1 W2. destruct p as [|x p]; [contradiction|].
    unfold single_spec, call_single, ret_single, Function___call___single. cbn [abs cache fd ofd fix_single fixed].
    replace (py_len (x :: p) =? 0) with false by (symmetry; apply Z.eqb_neq; unfold py_len; cbn [length]; lia).
    go. change (py_getitem (x :: p) 0) with (Some x). go.
    set (q := x :: p).
    destruct c; go.
    - pose proof (get_lookup fdg q W1) as L1. destruct (py_vdict_get fdg q) eqn:E1.
      + (* not in f_dict *)
        rewrite L1. cbn [py_is_none]. go. cbn [py_is_none]. go.
        pose proof (get_lookup ofdg q W2) as L2. destruct (py_vdict_get ofdg q) eqn:E2.
        * (* nor in old_f_dict: evaluate and store *)
          rewrite L2. cbn [py_is_none negb]. go. cbn [py_is_none]. go.
          rewrite (single_tail _ (ev q) (ev_good q)).
          unfold eval'. destruct (check_len olen (norm (ev q))); [|reflexivity].
          eexists. split; [reflexivity|]. split; [unfold abs; rewrite set_insert; reflexivity|].
          apply set_wfd; [exact W1|apply ev_good].
        * destruct L2 as [L2 G2]. rewrite L2. cbn [py_is_none negb]. go. cbn [py_is_none]. go.
          rewrite (single_tail _ (VScalar x0) G2).
          destruct (check_len olen (norm (VScalar x0))); [|reflexivity].
          eexists. split; [reflexivity|]. split; [unfold abs; rewrite set_insert; reflexivity|apply set_wfd; assumption].
        * destruct L2 as [L2 G2]. rewrite L2. cbn [py_is_none negb]. go. cbn [py_is_none]. go.
          rewrite (single_tail _ (VVec l) G2).
          destruct (check_len olen (norm (VVec l))); [|reflexivity].
          eexists. split; [reflexivity|]. split; [unfold abs; rewrite set_insert; reflexivity|apply set_wfd; assumption].
        * destruct L2 as [_ G2]. discriminate.
      + destruct L1 as [L1 G1]. rewrite L1. cbn [py_is_none]. go. cbn [py_is_none]. go.
        rewrite (single_tail _ (VScalar x0) G1).
        destruct (check_len olen (norm (VScalar x0))); [|reflexivity].
        eexists. split; [reflexivity|]. split; [reflexivity|exact W1].
      + destruct L1 as [L1 G1]. rewrite L1. cbn [py_is_none]. go. cbn [py_is_none]. go.
        rewrite (single_tail _ (VVec l) G1).
        destruct (check_len olen (norm (VVec l))); [|reflexivity].
        eexists. split; [reflexivity|]. split; [reflexivity|exact W1].
      + destruct L1 as [_ G1]. discriminate.
    - (* caching deactivated: evaluate, nothing stored *)
      cbn [py_is_none]. go.
      rewrite (single_tail _ (ev q) (ev_good q)). unfold eval'.
      destruct (check_len olen (norm (ev q))); [|reflexivity].
      eexists. split; [reflexivity|]. split; [reflexivity|exact W1].
  Qed.

  (* ---- __call__ on a batch (a list of tuples) and on an empty argument *)
  Lemma forallb_len vs : forallb (fun r : list Qc => py_len r =? Z.of_nat olen) vs = forallb (check_len olen) vs.
  Proof. induction vs as [|r vs IH]; [reflexivity|]. cbn [forallb]. rewrite len_check, IH. reflexivity. Qed.

  Lemma reshape_fits ps vs : py_reshape2 vs (py_len ps) (Z.of_nat olen) = if fits olen ps vs then Some vs else None.
  Proof.
    unfold py_reshape2, fits.
    replace (py_len vs =? py_len ps) with (Nat.eqb (length vs) (length ps)).
    - rewrite forallb_len. reflexivity.
    - unfold py_len. destruct (Nat.eqb (length vs) (length ps)) eqn:E.
      + apply Nat.eqb_eq in E. rewrite E. symmetry. apply Z.eqb_refl.
      + apply Nat.eqb_neq in E. symmetry. apply Z.eqb_neq. lia.
  Qed.

  Definition batch_spec (checks : bool) (s : St) (fdg ofdg : vdict) (c : bool) (ps : list point) (r : option (pyval * Self)) : Prop :=
    match vcall_batch eval' olen evec checks fixed (abs fdg ofdg c) false ps with
    | (st', VR (RBatch vs)) => exists fdg', r = Some (VMat vs, conc s fdg' ofdg c) /\ st' = abs fdg' ofdg c /\ wfd fdg'
    | (_, VR (RErr _)) => r = None
    | _ => False
    end.

  Lemma gen_batch_value s fdg ofdg c p ps fuel :
    gen_batch fuel (conc s fdg ofdg c) (p :: ps) =
      if fits olen (p :: ps) (evec (p :: ps))
      then Some (VMat (evec (p :: ps)), conc s (py_vdict_update_zip fdg (p :: ps) (evec (p :: ps))) ofdg c)
      else None.
  Proof.
    unfold Function___call___batch.
    match goal with |- context [py_len ?l =? 0] =>
      replace (py_len l =? 0) with false by (symmetry; apply Z.eqb_neq; unfold py_len; cbn [length]; lia) end.
    go. match goal with |- context [py_getitem ?l 0] => change (py_getitem l 0) with (Some p) end. go.
    unfold call_output_length. norm1. rewrite H_olen. norm1.
    rewrite reshape_fits. destruct (fits olen (p :: ps) (evec (p :: ps))); reflexivity.
  Qed.

  Theorem gen_call_batch checks s fdg ofdg c ps fuel : wfd fdg ->
    batch_spec checks s fdg ofdg c ps (gen_batch fuel (conc s fdg ofdg c) ps).
  Proof.
    intros W1. unfold batch_spec, vcall_batch, vec_call. cbn [andb fix_empty fixed].
    destruct ps as [|p ps].
    - exists fdg. split; [|split; [reflexivity|exact W1]].
      unfold Function___call___batch. change (py_len [] =? 0) with true. unfold call_output_length. norm1. rewrite H_olen. reflexivity.
    - rewrite gen_batch_value. unfold point, value in *.
      destruct (fits olen (p :: ps) (evec (p :: ps))) eqn:E; rewrite ?E; [|reflexivity].
      eexists. split; [reflexivity|]. split.
      + unfold abs. cbn [fd ofd cache]. rewrite update_insert_all. reflexivity.
      + apply update_wfd. exact W1.
  Qed.

  (* the specialisation for an empty argument: the result of the batch function at [] *)
  Theorem gen_call_empty s fdg ofdg c fuel :
    gen_empty fuel (conc s fdg ofdg c) tt = Some (VMat [], conc s fdg ofdg c) /\
    gen_batch fuel (conc s fdg ofdg c) [] = gen_empty fuel (conc s fdg ofdg c) tt /\
    vcall_batch eval' olen evec false fixed (abs fdg ofdg c) false [] = (abs fdg ofdg c, VR (RBatch [])).
  Proof.
    unfold Function___call___empty, Function___call___batch, call_output_length. norm1. rewrite H_olen. norm1.
    change (py_len [] =? 0) with true. norm1. rewrite ?H_olen. norm1. repeat split.
  Qed.
End Eq.
