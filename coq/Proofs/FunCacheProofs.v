(* C12 — proofs about the evaluation-cache model (Model/FunCache.v). *)
From Coq Require Import ZArith List QArith Qcanon Bool Arith Lia.
From SG Require Import Base.QcUtil Model.FunCache.
Import ListNotations.

(* ------------------------------------------------------------------ keys, membership *)
Lemma Qc_eqb_canon_eq a b : Qc_eqb_canon a b = true <-> a = b.
Proof.
  unfold Qc_eqb_canon. split; intro H.
  - apply andb_true_iff in H. destruct H as [H1 H2]. apply Z.eqb_eq in H1. apply Pos.eqb_eq in H2.
    apply Qc_is_canon. destruct a as [[n1 d1] c1], b as [[n2 d2] c2]. cbn [this Qnum Qden] in *. subst. reflexivity.
  - subst. rewrite Z.eqb_refl, Pos.eqb_refl. reflexivity.
Qed.

Lemma point_eqb_eq a b : point_eqb a b = true <-> a = b.
Proof.
  revert b. induction a as [|x a IH]; intros [|y b]; simpl; split; intro H; try reflexivity; try discriminate.
  - apply andb_true_iff in H. destruct H as [H1 H2]. apply Qc_eqb_canon_eq in H1. apply IH in H2. subst. reflexivity.
  - injection H as -> ->. apply andb_true_iff. split; [apply Qc_eqb_canon_eq; reflexivity | apply IH; reflexivity].
Qed.

Lemma point_eqb_refl a : point_eqb a a = true.
Proof. apply point_eqb_eq. reflexivity. Qed.

Lemma point_eqb_false a b : point_eqb a b = false <-> a <> b.
Proof.
  split.
  - intros H E. subst. rewrite point_eqb_refl in H. discriminate.
  - intro H. destruct (point_eqb a b) eqn:E; [|reflexivity]. apply point_eqb_eq in E. contradiction.
Qed.

Lemma mem_In p l : mem p l = true <-> In p l.
Proof.
  induction l as [|q l IH]; simpl.
  - split; [discriminate | tauto].
  - rewrite orb_true_iff, IH, point_eqb_eq. split; intros [H|H]; auto.
Qed.

Definition keys (d : dict) : list point := map fst d.

Lemma lookup_mem p d : (exists v, lookup p d = Some v) <-> mem p (keys d) = true.
Proof.
  induction d as [|[q w] d IH]; simpl.
  - split; [intros [v H]; discriminate | discriminate].
  - destruct (point_eqb p q); simpl; [split; eauto | exact IH].
Qed.

Lemma lookup_None_mem p d : lookup p d = None -> mem p (keys d) = false.
Proof.
  intro H. destruct (mem p (keys d)) eqn:E; [|reflexivity].
  apply lookup_mem in E. destruct E as [v E]. congruence.
Qed.

Lemma keys_insert p v d : keys (insert p v d) = add_point p (keys d).
Proof.
  unfold add_point. induction d as [|[q w] d IH]; simpl; [reflexivity|].
  destruct (point_eqb p q) eqn:E; simpl; [reflexivity|].
  unfold keys in *. rewrite IH. destruct (mem p (map fst d)); reflexivity.
Qed.

Lemma length_insert_ge p v d : (length d <= length (insert p v d))%nat.
Proof.
  induction d as [|[q w] d IH]; simpl; [lia|]. destruct (point_eqb p q); simpl; lia.
Qed.

Lemma length_insert_all_ge kvs d : (length d <= length (insert_all kvs d))%nat.
Proof.
  revert d. induction kvs as [|[p v] r IH]; intro d; simpl; [lia|].
  specialize (IH (insert p v d)). pose proof (length_insert_ge p v d). lia.
Qed.

(* ------------------------------------------------------------------ the set of distinct points *)
Lemma add_point_In p s q : In q (add_point p s) <-> q = p \/ In q s.
Proof.
  unfold add_point. destruct (mem p s) eqn:E.
  - apply mem_In in E. split; [auto | intros [->|H]; assumption].
  - rewrite in_app_iff. simpl. split; [intros [H|[H|[]]]; auto | intros [H|H]; auto].
Qed.

Lemma add_point_NoDup p s : NoDup s -> NoDup (add_point p s).
Proof.
  intro H. unfold add_point. destruct (mem p s) eqn:E; [assumption|].
  assert (~ In p s) as Hn by (intro Hi; apply mem_In in Hi; congruence).
  clear E. induction H as [|x l Hx Hl IH]; simpl.
  - constructor; [tauto | constructor].
  - constructor.
    + rewrite in_app_iff. simpl. intros [Hi|[Hi|[]]]; [contradiction | subst; apply Hn; left; reflexivity].
    + apply IH. intro Hi. apply Hn. right. assumption.
Qed.

Lemma add_points_In ps s q : In q (add_points ps s) <-> In q ps \/ In q s.
Proof.
  unfold add_points. revert s. induction ps as [|p ps IH]; intro s; simpl; [tauto|].
  rewrite IH, add_point_In. split; intros [H|H]; auto; destruct H; auto.
Qed.

Lemma add_points_NoDup ps s : NoDup s -> NoDup (add_points ps s).
Proof.
  unfold add_points. revert s. induction ps as [|p ps IH]; intros s H; simpl; [assumption|].
  apply IH. apply add_point_NoDup. assumption.
Qed.

(* `distinct l` is the duplicate-free list of the points of l: its length is the number of distinct points *)
Lemma distinct_NoDup l : NoDup (distinct l).
Proof. apply add_points_NoDup. constructor. Qed.

Lemma distinct_In l q : In q (distinct l) <-> In q l.
Proof. unfold distinct. rewrite add_points_In. simpl. tauto. Qed.

Lemma add_points_app a b s : add_points (a ++ b) s = add_points b (add_points a s).
Proof. unfold add_points. apply fold_left_app. Qed.

Lemma distinct_snoc acc p : add_point p (distinct acc) = distinct (acc ++ [p]).
Proof. unfold distinct. rewrite add_points_app. reflexivity. Qed.

Lemma distinct_app acc ps : add_points ps (distinct acc) = distinct (acc ++ ps).
Proof. unfold distinct. rewrite add_points_app. reflexivity. Qed.

(* ================================================================== the machine *)
Section CacheProofs.
Variable eval : point -> value.
Variable olen : nat.

(* every entry of a dictionary is the value of eval at its key *)
Definition sound (d : dict) : Prop := forall q w, In (q, w) d -> w = eval q.

Lemma lookup_sound p d v : sound d -> lookup p d = Some v -> v = eval p.
Proof.
  intros Hs. induction d as [|[q w] d IH]; simpl; [discriminate|].
  destruct (point_eqb p q) eqn:E.
  - intro H. injection H as <-. apply point_eqb_eq in E. subst. apply Hs. left. reflexivity.
  - apply IH. intros q' w' Hi. apply Hs. right. assumption.
Qed.

Lemma sound_insert p d : sound d -> sound (insert p (eval p) d).
Proof.
  intro Hs. induction d as [|[q w] d IH]; simpl.
  - intros q' w' [H|[]]. injection H as <- <-. reflexivity.
  - destruct (point_eqb p q) eqn:E.
    + apply point_eqb_eq in E. subst. intros q' w' [H|H].
      * injection H as <- <-. reflexivity.
      * apply Hs. right. assumption.
    + intros q' w' [H|H].
      * apply Hs. left. assumption.
      * apply IH; [|assumption]. intros q2 w2 Hi. apply Hs. right. assumption.
Qed.

Lemma sound_insert_all ps d : sound d -> sound (insert_all (combine ps (map eval ps)) d).
Proof.
  revert d. induction ps as [|p ps IH]; intros d Hs; simpl; [assumption|].
  apply IH. apply sound_insert. assumption.
Qed.

Lemma keys_insert_all ps d : keys (insert_all (combine ps (map eval ps)) d) = add_points ps (keys d).
Proof.
  unfold add_points. revert d. induction ps as [|p ps IH]; intro d; simpl; [reflexivity|].
  rewrite IH, keys_insert. reflexivity.
Qed.

(* between two resets the dictionary never shrinks (used by C13: the number of points is monotone) *)
Lemma size_monotone vr st o : o <> OReset -> (length (fd st) <= length (fd (fst (step eval olen vr st o))))%nat.
Proof.
  intro Ho. destruct o as [p|ps|ps| | |]; cbn [step]; try (simpl; lia); try contradiction.
  - unfold call_single. destruct (cache st).
    + destruct (lookup p (fd st)); simpl; [lia|].
      destruct (lookup p (ofd st)); simpl; apply length_insert_ge.
    + destruct (fix_single vr); simpl; lia.
  - unfold call_batch. destruct ps as [|p ps]; [destruct (fix_empty vr); simpl; lia|].
    destruct (forallb (check_len olen) (map eval (p :: ps))); cbn [fst fd]; [apply length_insert_all_ge | lia].
  - unfold call_vec. destruct (forallb _ _); simpl; lia.
Qed.

(* a wrong declared output length makes every call fail (GenzDiscontinious2, FunctionCantileverBeamD) *)
Lemma wrong_outlen_single_raises vr p : length (eval p) <> olen -> snd (call_single eval olen vr init p) = RErr EOutLen.
Proof.
  intro H. unfold call_single, init, ret_single, check_len. simpl.
  destruct (Nat.eqb (length (eval p)) olen) eqn:E; [apply Nat.eqb_eq in E; contradiction | reflexivity].
Qed.

Lemma wrong_outlen_batch_raises vr st p ps : length (eval p) <> olen -> snd (call_batch eval olen vr st (p :: ps)) = RErr EOutLen.
Proof.
  intro H. unfold call_batch, check_len. simpl.
  destruct (Nat.eqb (length (eval p)) olen) eqn:E; [apply Nat.eqb_eq in E; contradiction | reflexivity].
Qed.

(* ------------------------------------------------------------------ refinement to the history specification *)
Hypothesis Hlen : forall p, length (eval p) = olen.      (* output_length() is truthful *)

Lemma check_len_eval p : check_len olen (eval p) = true.
Proof. unfold check_len. apply Nat.eqb_eq. apply Hlen. Qed.

Lemma forallb_check_len ps : forallb (check_len olen) (map eval ps) = true.
Proof. induction ps as [|p ps IH]; simpl; [reflexivity | rewrite check_len_eval, IH; reflexivity]. Qed.

Definition R (st : state) (on : bool) (cnt : list point) : Prop :=
  cache st = on /\ keys (fd st) = cnt /\ sound (fd st) /\ sound (ofd st).

Lemma R_init : R init true [].
Proof. unfold R, init, sound. simpl. repeat split; intros q w []. Qed.

(* abstract state after one operation *)
Definition spec_step (on : bool) (cnt : list point) (o : op) : bool * list point :=
  match o with
  | OSingle p => (on, if on then add_point p cnt else cnt)
  | OBatch ps => (on, add_points ps cnt)
  | OVec _ => (on, cnt)
  | OReset => (on, [])
  | ODeact => (false, cnt)
  | OSize => (on, cnt)
  end.

Definition spec_result (vr : variant) (on : bool) (cnt : list point) (o : op) : result :=
  match o with
  | OSingle p => if on || fix_single vr then RSingle (eval p) else RErr EUnbound
  | OBatch [] => if fix_empty vr then RBatch [] else RErr EIndex
  | OBatch ps => RBatch (map eval ps)
  | OVec ps => RVec (map eval ps)
  | OReset | ODeact => RUnit
  | OSize => RSize (length cnt)
  end.

Lemma spec_run_cons vr on cnt o r :
  spec_run eval vr on cnt (o :: r) =
  spec_result vr on cnt o :: spec_run eval vr (fst (spec_step on cnt o)) (snd (spec_step on cnt o)) r.
Proof. destruct o as [p|ps|ps| | |]; try reflexivity; destruct ps; reflexivity. Qed.

Lemma step_refines vr st on cnt o :
  R st on cnt ->
  snd (step eval olen vr st o) = spec_result vr on cnt o /\
  R (fst (step eval olen vr st o)) (fst (spec_step on cnt o)) (snd (spec_step on cnt o)).
Proof.
  intros (Hc & Hk & Hs & Ho). destruct o as [p|ps|ps| | |]; simpl.
  - (* single *)
    unfold call_single. rewrite Hc. destruct on; simpl.
    + destruct (lookup p (fd st)) as [v|] eqn:L1.
      * assert (v = eval p) as -> by (exact (lookup_sound p (fd st) v Hs L1)).
        simpl. unfold ret_single. rewrite check_len_eval. split; [reflexivity|].
        unfold R. simpl. repeat split; try assumption.
        unfold add_point. rewrite <- Hk.
        assert (mem p (keys (fd st)) = true) as -> by (apply lookup_mem; eauto). reflexivity.
      * destruct (lookup p (ofd st)) as [v|] eqn:L2.
        -- assert (v = eval p) as -> by (exact (lookup_sound p (ofd st) v Ho L2)).
           simpl. unfold ret_single. rewrite check_len_eval. split; [reflexivity|].
           unfold R. simpl. repeat split; try assumption.
           ++ rewrite keys_insert, Hk. reflexivity.
           ++ apply sound_insert. assumption.
        -- simpl. unfold ret_single. rewrite check_len_eval. split; [reflexivity|].
           unfold R. simpl. repeat split; try assumption.
           ++ rewrite keys_insert, Hk. reflexivity.
           ++ apply sound_insert. assumption.
    + destruct (fix_single vr); simpl.
      * unfold ret_single. rewrite check_len_eval. split; [reflexivity|]. unfold R. repeat split; assumption.
      * split; [reflexivity|]. unfold R. repeat split; assumption.
  - (* batch *)
    unfold call_batch. destruct ps as [|p ps].
    + destruct (fix_empty vr); simpl; (split; [reflexivity|]); unfold R; repeat split; assumption.
    + rewrite forallb_check_len. cbn [fst snd]. split; [reflexivity|].
      unfold R. cbn [cache fd ofd]. repeat split; try assumption.
      * rewrite keys_insert_all, Hk. reflexivity.
      * apply sound_insert_all. assumption.
  - (* direct eval_vectorized *)
    unfold call_vec. rewrite forallb_check_len. simpl. split; [reflexivity|]. unfold R. repeat split; assumption.
  - split; [reflexivity|]. unfold R, sound. simpl. repeat split; try assumption; intros q w [].
  - split; [reflexivity|]. unfold R. simpl. repeat split; assumption.
  - split; [|unfold R; repeat split; assumption].
    rewrite <- Hk. unfold keys. rewrite map_length. reflexivity.
Qed.

(* MAIN: the observable behaviour of the machine is the history specification, for both variants *)
Theorem run_refines_spec vr ops : forall st on cnt,
  R st on cnt -> map fst (run eval olen vr st ops) = spec_run eval vr on cnt ops.
Proof.
  induction ops as [|o r IH]; intros st on cnt HR; [reflexivity|].
  rewrite spec_run_cons. cbn [run].
  destruct (step_refines vr st on cnt o HR) as [Hres Hst].
  destruct (step eval olen vr st o) as [st' res]. cbn [fst snd] in *. cbn [map fst].
  rewrite Hres. f_equal. apply IH. assumption.
Qed.

(* the states after each operation refine the abstract state as well *)
Fixpoint spec_final (on : bool) (cnt : list point) (ops : list op) : bool * list point :=
  match ops with [] => (on, cnt) | o :: r => spec_final (fst (spec_step on cnt o)) (snd (spec_step on cnt o)) r end.

Lemma final_refines vr ops : forall st on cnt,
  R st on cnt -> R (final eval olen vr st ops) (fst (spec_final on cnt ops)) (snd (spec_final on cnt ops)).
Proof.
  unfold final. induction ops as [|o r IH]; intros st on cnt HR; [exact HR|].
  simpl. apply IH. apply step_refines. assumption.
Qed.

(* ------------------------------------------------------------------ cache transparency *)
Definition agrees (r : result) (i : option result) : Prop := match i with Some x => r = x | None => True end.

Lemma spec_fixed_ideal ops : forall on cnt, Forall2 agrees (spec_run eval fixed on cnt ops) (ideal_values eval ops).
Proof.
  induction ops as [|o r IH]; intros on cnt; [constructor|].
  destruct o as [p|ps|ps| | |]; simpl; constructor; try apply IH; simpl; try reflexivity; try exact I.
  - rewrite orb_true_r. reflexivity.
  - destruct ps; reflexivity.
Qed.

Theorem cache_transparent ops :
  Forall2 agrees (map fst (run eval olen fixed init ops)) (ideal_values eval ops).
Proof. rewrite (run_refines_spec fixed ops init true [] R_init). apply spec_fixed_ideal. Qed.

(* shapes: a single call yields olen numbers, a batch yields one row of olen numbers per point (also for 0 points) *)
Definition shape_ok (o : op) (r : result) : Prop :=
  match o, r with
  | OSingle _, RSingle v => length v = olen
  | OBatch ps, RBatch vs | OVec ps, RVec vs => length vs = length ps /\ Forall (fun v => length v = olen) vs
  | OReset, RUnit | ODeact, RUnit | OSize, RSize _ => True
  | _, _ => False
  end.

Lemma Forall_len_eval ps : Forall (fun v => length v = olen) (map eval ps).
Proof. induction ps; simpl; constructor; [apply Hlen | assumption]. Qed.

Lemma spec_fixed_shapes ops : forall on cnt, Forall2 shape_ok ops (spec_run eval fixed on cnt ops).
Proof.
  induction ops as [|o r IH]; intros on cnt; [constructor|].
  destruct o as [p|ps|ps| | |]; simpl; constructor; try apply IH; simpl; try exact I.
  - rewrite orb_true_r. apply Hlen.
  - destruct ps; simpl; [split; [reflexivity | constructor]|].
    split; [rewrite map_length; reflexivity | constructor; [apply Hlen | apply Forall_len_eval]].
  - split; [apply map_length | apply Forall_len_eval].
Qed.

Theorem cache_transparent_shapes ops : Forall2 shape_ok ops (map fst (run eval olen fixed init ops)).
Proof. rewrite (run_refines_spec fixed ops init true [] R_init). apply spec_fixed_shapes. Qed.

(* the code as it is: exactly characterised (errors precisely for a single point while caching is off and for an
   empty batch; everything else as specified) *)
Theorem current_code_behaviour ops :
  map fst (run eval olen cur init ops) = spec_run eval cur true [] ops.
Proof. apply run_refines_spec. apply R_init. Qed.

(* ... hence transparent on histories without these two situations: caching never deactivated, no empty batch *)
Definition no_empty_batch (ops : list op) : bool :=
  forallb (fun o => match o with OBatch [] => false | _ => true end) ops.

Lemma spec_cur_ideal ops : forall cnt, no_deact ops = true -> no_empty_batch ops = true ->
  Forall2 agrees (spec_run eval cur true cnt ops) (ideal_values eval ops).
Proof.
  induction ops as [|o r IH]; intros cnt H1 H2; [constructor|].
  simpl in H1, H2. apply andb_true_iff in H1. destruct H1 as [H1 H1']. apply andb_true_iff in H2. destruct H2 as [H2 H2'].
  destruct o as [p|ps|ps| | |]; simpl; try discriminate; constructor; try (apply IH; assumption); simpl; try reflexivity; try exact I.
  destruct ps; [discriminate | reflexivity].
Qed.

Theorem cache_transparent_current_partial ops : no_deact ops = true -> no_empty_batch ops = true ->
  Forall2 agrees (map fst (run eval olen cur init ops)) (ideal_values eval ops).
Proof. intros H1 H2. rewrite current_code_behaviour. apply spec_cur_ideal; assumption. Qed.

(* ... and NOT transparent in general: witnesses *)
Theorem cache_transparent_refuted_single_nocache :
  exists ops, ~ Forall2 agrees (map fst (run eval olen cur init ops)) (ideal_values eval ops).
Proof.
  exists [ODeact; OSingle []]. rewrite current_code_behaviour. simpl. intro H.
  inversion H as [|? ? ? ? _ H2]; subst. inversion H2 as [|? ? ? ? H3 _]; subst. simpl in H3. discriminate.
Qed.

Theorem cache_transparent_refuted_empty_batch :
  exists ops, ~ Forall2 agrees (map fst (run eval olen cur init ops)) (ideal_values eval ops).
Proof.
  exists [OBatch []]. rewrite current_code_behaviour. simpl. intro H.
  inversion H as [|? ? ? ? H3 _]; subst. simpl in H3. discriminate.
Qed.

(* ------------------------------------------------------------------ the counter *)
Lemma spec_final_requested ops : forall acc, no_deact ops = true ->
  spec_final true (distinct acc) ops = (true, distinct (requested acc ops)).
Proof.
  induction ops as [|o r IH]; intros acc H; [reflexivity|].
  simpl in H. apply andb_true_iff in H. destruct H as [H1 H2].
  destruct o as [p|ps|ps| | |]; simpl; try discriminate.
  - rewrite distinct_snoc. apply IH. assumption.
  - rewrite distinct_app. apply IH. assumption.
  - apply IH. assumption.
  - apply (IH []). assumption.
  - apply IH. assumption.
Qed.

(* with caching on (never deactivated): get_f_dict_size() is the number of distinct points requested through
   __call__ (singly or in batches) since the last reset — for the code as it is and for the repaired code *)
Theorem counter_is_distinct_points vr ops : no_deact ops = true ->
  length (fd (final eval olen vr init ops)) = length (distinct (requested [] ops)) /\
  NoDup (distinct (requested [] ops)) /\ (forall q, In q (distinct (requested [] ops)) <-> In q (requested [] ops)).
Proof.
  intro H. split; [|split; [apply distinct_NoDup | intro q; apply distinct_In]].
  destruct (final_refines vr ops init true [] R_init) as (_ & Hk & _).
  change (@nil point) with (distinct []) in Hk at 1.
  rewrite (spec_final_requested ops [] H) in Hk. simpl in Hk.
  rewrite <- Hk. unfold keys. rewrite map_length. reflexivity.
Qed.

(* the value returned by get_f_dict_size() inside any history is the size of the abstract counted set
   (general form, also after deactivation: batches are still counted, single points are not) *)
Theorem counter_general vr ops :
  length (fd (final eval olen vr init ops)) = length (snd (spec_final true [] ops)).
Proof.
  destruct (final_refines vr ops init true [] R_init) as (_ & Hk & _).
  rewrite <- Hk. unfold keys. rewrite map_length. reflexivity.
Qed.

End CacheProofs.
