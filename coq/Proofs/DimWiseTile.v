(* C06, histories WITH rebalancing: the part of the invariant that does not speak about levels is preserved by every
   step for every option setting (rebalancing on or off, any outcome of the float decisions):
   intervals tile [a,b] in ascending order without gaps or overlaps, coarsening = lmax_d - max(levels) >= 0 (hence
   lmax_d >= deepest level), container cursors reset, scheme invariant.
   (The level conditions after rebalancing are decided by the verified checker tree_ok.) *)
From Coq Require Import ZArith List Bool QArith Qcanon Arith Lia Sorted Permutation.
From SG Require Import Base.QcUtil Model.CombiScheme Model.RefTree Model.DimWise
     Proofs.SchemeBasics Proofs.SchemeInv Proofs.RefTreeInv Proofs.RefSelect Proofs.RefRemoveSort Proofs.DimWiseInv
     Proofs.Rebalance.
Import ListNotations.
Open Scope Z_scope.
Local Arguments Z.add : simpl never.
Local Arguments Z.sub : simpl never.
Local Arguments Z.max : simpl never.
Local Arguments Z.ltb : simpl never.

(* coordinates only: start_0 = x, end_i = start_{i+1}, start_i < end_i, end_last = y *)
Fixpoint GeoChain (x : Qc) (t : list ival) (y : Qc) : Prop :=
  match t with
  | [] => x = y
  | iv :: r => i_start iv = x /\ (i_start iv < i_end iv)%Qc /\ GeoChain (i_end iv) r y
  end.

Lemma Chain_GeoChain x u t y w : Chain x u t y w -> GeoChain x t y.
Proof.
  revert x u. induction t as [|iv t IH]; intros x u H; simpl in *; [destruct H; assumption|].
  destruct H as (A & _ & C & D). split; [assumption|]. split; [assumption | eapply IH; eassumption].
Qed.

Lemma GeoChain_bounds x t y : GeoChain x t y -> (x <= y)%Qc /\ Forall (fun iv => (x <= i_start iv)%Qc) t.
Proof.
  revert x. induction t as [|iv t IH]; intros x H; simpl in *.
  - subst. split; [apply Qcle_refl | constructor].
  - destruct H as (A & C & D). destruct (IH _ D) as [E F]. subst x. apply Qclt_le_weak in C. split.
    + eapply Qcle_trans; eassumption.
    + constructor; [apply Qcle_refl|]. eapply Forall_impl; [|exact F]. intros q G. eapply Qcle_trans; eassumption.
Qed.

Lemma GeoChain_sorted x t y : GeoChain x t y -> StronglySorted lt_start t.
Proof.
  revert x. induction t as [|iv t IH]; intros x H; simpl in *; [constructor|].
  destruct H as (A & C & D). constructor; [eapply IH; eassumption|].
  destruct (GeoChain_bounds _ _ _ D) as [_ F]. eapply Forall_impl; [|exact F].
  intros q G. unfold lt_start. eapply Qclt_le_trans; eassumption.
Qed.

Lemma GeoChain_repl sel : forall t x y, length sel = length t -> GeoChain x t y -> GeoChain x (repl sel t) y.
Proof.
  induction sel as [|s sel IH]; intros [|iv t] x y L H; simpl in L; try discriminate; [exact H|].
  simpl in H. destruct H as (A & C & D). unfold repl. cbn [combine flat_map fst snd]. fold (repl sel t).
  destruct s.
  - unfold children, refine_obj. cbn [app]. destruct (mid_between _ _ C) as [Ha Hb].
    simpl. split; [assumption|]. split; [assumption|]. split; [reflexivity|]. split; [assumption|]. apply IH; [lia | assumption].
  - simpl. split; [assumption|]. split; [assumption|]. apply IH; [lia | assumption].
Qed.

Definition span (iv : ival) : Qc * Qc := (i_start iv, i_end iv).

Lemma GeoChain_ext t : forall t' x y, map span t' = map span t -> GeoChain x t y -> GeoChain x t' y.
Proof.
  induction t as [|iv t IH]; intros [|iv' t'] x y E H; simpl in E; try discriminate; [exact H|].
  injection E as E1 E2 E3. simpl in *. destruct H as (A & C & D). rewrite E1, E2.
  split; [assumption|]. split; [assumption|]. eapply IH; eassumption.
Qed.

Lemma geom_span t t' : map geom t' = map geom t -> map span t' = map span t.
Proof.
  revert t'. induction t as [|iv t IH]; intros [|iv' t'] E; simpl in E; try discriminate; [reflexivity|].
  injection E as E1 E2 E3 E4. simpl. unfold span. rewrite E1, E2. f_equal. apply IH. assumption.
Qed.

(* ---------------------------------------------------------------------------------------------- *)
(* remove + append + sort = in-place replacement, from sortedness alone *)
Lemma sort_keep_kids_is_repl_geo x y t sel : GeoChain x t y -> length sel = length t ->
  sort_by_start (keep sel t ++ flat_map children (chosen sel t)) = repl sel t.
Proof.
  intros HG HL. symmetry. apply sorted_perm_eq.
  - eapply GeoChain_sorted. apply GeoChain_repl; eassumption.
  - apply sort_sorted.
  - eapply Permutation_trans; [apply Permutation_sym, keep_kids_perm | apply sort_perm].
Qed.

Lemma apply_remove_is_repl_geo x y t P sn se : GeoChain x t y ->
  c_objs (cont_apply_remove (mkCont (t ++ kids t (filter P (seq 0 (length t)))) (filter P (seq 0 (length t))) sn se))
  = repl (sel_of P (length t)) t
  /\ c_pop (cont_apply_remove (mkCont (t ++ kids t (filter P (seq 0 (length t)))) (filter P (seq 0 (length t))) sn se)) = [].
Proof.
  intro HS. unfold cont_apply_remove. cbn [c_objs c_pop c_startNew c_search].
  rewrite (sort_nat_sorted _ (filter_seq_sorted P (length t) 0)).
  match goal with |- context [fold_left ?f ?ps ?i] => pose proof (apply_remove_fst ps (t ++ kids t (filter P (seq 0 (length t)))) sn) as E;
    destruct (fold_left f ps i) as [objs sn'] end.
  cbn [fst] in E. cbn [c_objs c_pop]. split; [|reflexivity].
  rewrite E, remove_descending, kids_chosen.
  eapply sort_keep_kids_is_repl_geo; [eassumption|]. unfold sel_of. rewrite map_length, seq_length. reflexivity.
Qed.

Theorem meta_refine_step_spec_geo margin bens m :
  m_cur m = 0%nat ->
  (forall c, In c (m_conts m) -> fresh c /\ c_objs c <> [] /\ exists x y, GeoChain x (c_objs c) y) ->
  exists m', meta_refine_step margin bens m = Some m' /\ m_cur m' = 0%nat /\
    length (m_conts m') = length (m_conts m) /\
    forall j c, nth_error (m_conts m) j = Some c ->
      nth_error (m_conts m') j = Some (cont_of_tree (repl (step_sel margin bens j (length (c_objs c))) (c_objs c))).
Proof.
  intros Hcur Hall. unfold meta_refine_step.
  set (m1 := {| m_conts := map cont_clear_new (m_conts m); m_cur := m_cur m |}).
  destruct (refine_loop_spec bens (step_tol margin bens) (refine_fuel m1) m1) as (m2 & Hrun & Hlen & Hfin).
  - intros c Hin. simpl in Hin. apply in_map_iff in Hin. destruct Hin as (c0 & <- & Hin0).
    destruct (Hall _ Hin0) as [_ [Hne _]].
    unfold cJ, cont_clear_new. simpl. split; [|lia]. destruct (c_objs c0); [contradiction | discriminate].
  - simpl. rewrite Hcur. simpl. unfold refine_fuel. simpl. pose proof (msum_clear (m_conts m)). lia.
  - fold (step_tol margin bens). rewrite Hrun. eexists. split; [reflexivity|]. simpl. split; [reflexivity|].
    simpl in Hlen. rewrite map_length in *. split; [assumption|].
    intros j c Hj. simpl in Hfin.
    destruct (Hfin j (cont_clear_new c)) as (c2 & Hc2 & Hspec).
    { rewrite nth_error_map, Hj. reflexivity. }
    rewrite Hcur in Hspec. change (j <? 0)%nat with false in Hspec. cbv iota in Hspec.
    destruct Hspec as [Ho Hp].
    destruct (Hall c (nth_error_In _ _ Hj)) as [(Fp & Fs & Fse) [Hne (x & y & HS)]].
    rewrite nth_error_map, Hc2. simpl. f_equal.
    assert (Hch : chits (step_tol margin bens) (nth j bens []) (cont_clear_new c)
                  = filter (hitP (step_tol margin bens) (nth j bens [])) (seq 0 (length (c_objs c)))).
    { unfold chits, c_end, cont_clear_new. simpl. rewrite Fse.
      destruct (Nat.eqb (length (c_objs c)) 0); rewrite Nat.sub_0_r; reflexivity. }
    rewrite Hch in Ho, Hp. simpl in Ho, Hp. rewrite Fp in Hp. simpl in Hp.
    destruct c2 as [o2 p2 sn2 se2]. simpl in Ho, Hp. subst o2 p2.
    destruct (apply_remove_is_repl_geo x y (c_objs c) (hitP (step_tol margin bens) (nth j bens [])) sn2 se2 HS) as [E1 E2].
    unfold cont_reinit, cont_postprocess, cont_of_tree. simpl. rewrite E1, E2. reflexivity.
Qed.

(* ---------------------------------------------------------------------------------------------- *)
Lemma span_map_coarse (g : ival -> Z) t :
  map span (map (fun iv => mkIval (i_start iv) (i_end iv) (i_l0 iv) (i_l1 iv) (g iv)) t) = map span t.
Proof. rewrite map_map. reflexivity. Qed.

Lemma coarsen_dims_spec_geo lmin dim : forall trees d lmaxs s trees3 lmaxs' s',
  coarsen_dims d trees lmaxs lmin dim s = Some (trees3, lmaxs', s') ->
  (d + length trees <= length lmaxs)%nat ->
  length trees3 = length trees /\ length lmaxs' = length lmaxs /\
  (forall k, (k < d)%nat -> nth k lmaxs' 0 = nth k lmaxs 0) /\
  forall j t, nth_error trees j = Some t ->
    exists t3, nth_error trees3 j = Some t3 /\ Forall (coarse_ok (nth (d + j) lmaxs' 0)) t3 /\ map span t3 = map span t.
Proof.
  induction trees as [|t trees IH]; intros d lmaxs s trees3 lmaxs' s' E HL.
  - simpl in E. injection E as <- <- <-.
    split; [reflexivity|]. split; [reflexivity|]. split; [intros; reflexivity|].
    intros j t Hj. destruct j; discriminate.
  - cbn [coarsen_dims] in E. simpl in HL.
    pose proof (update_coarsening_spec (nth d lmaxs 0) t) as HU.
    destruct (update_coarsening (nth d lmaxs 0) t) as [t1 upd]. destruct HU as (Ht1 & Hupd & Hge).
    destruct (0 <? upd) eqn:Epos.
    + apply Z.ltb_lt in Epos.
      destruct (raise_lmax d upd lmaxs lmin dim s) as [[lm1 s1]|] eqn:ER; [|discriminate].
      assert (lm1 = bump d upd lmaxs).
      { unfold raise_lmax in ER. destruct (raise_loop _ _ _ _ _); [|discriminate]. injection ER as <- _. reflexivity. }
      subst lm1.
      destruct (coarsen_dims (S d) trees (bump d upd lmaxs) lmin dim s1) as [[[r' lm] s'']|] eqn:EC; [|discriminate].
      injection E as <- <- <-.
      destruct (IH _ _ _ _ _ _ EC) as (L1 & L2 & Hk & Hall); [rewrite bump_length; lia|].
      rewrite bump_length in L2.
      assert (Hd : nth d lm 0 = nth d lmaxs 0 + upd).
      { rewrite Hk by lia. apply bump_nth_same. lia. }
      split; [simpl; lia|]. split; [assumption|]. split.
      * intros k Hlt. rewrite Hk by lia. apply bump_nth_other. lia.
      * intros [|j] t0 Hj; simpl in Hj.
        -- injection Hj as <-. eexists. split; [reflexivity|]. rewrite Nat.add_0_r. split.
           ++ unfold update_values. rewrite Forall_map. rewrite Ht1 in Hge |- *. rewrite Forall_map in Hge |- *.
              eapply Forall_impl; [|exact Hge]. intros iv H. simpl in H. unfold coarse_ok, ival_maxlev. simpl.
              unfold ival_maxlev in H. rewrite Hd. split; lia.
           ++ unfold update_values. rewrite span_map_coarse, Ht1, span_map_coarse. reflexivity.
        -- destruct (Hall j t0 Hj) as (t3 & A & B & C). exists t3. split; [assumption|].
           replace (d + S j)%nat with (S d + j)%nat by lia. split; assumption.
    + apply Z.ltb_ge in Epos. assert (upd = 0) by lia. subst upd.
      destruct (coarsen_dims (S d) trees lmaxs lmin dim s) as [[[r' lm] s'']|] eqn:EC; [|discriminate].
      injection E as <- <- <-.
      destruct (IH _ _ _ _ _ _ EC) as (L1 & L2 & Hk & Hall); [lia|].
      split; [simpl; lia|]. split; [assumption|]. split.
      * intros k Hlt. apply Hk. lia.
      * intros [|j] t0 Hj; simpl in Hj.
        -- injection Hj as <-. eexists. split; [reflexivity|]. rewrite Nat.add_0_r. split.
           ++ rewrite Ht1 in Hge |- *. rewrite Forall_map in Hge |- *.
              eapply Forall_impl; [|exact Hge]. intros iv H. simpl in H. unfold coarse_ok, ival_maxlev. simpl.
              unfold ival_maxlev in H. rewrite Hk by lia. split; lia.
           ++ rewrite Ht1, span_map_coarse. reflexivity.
        -- destruct (Hall j t0 Hj) as (t3 & A & B & C). exists t3. split; [assumption|].
           replace (d + S j)%nat with (S d + j)%nat by lia. split; assumption.
Qed.

(* ---------------------------------------------------------------------------------------------- *)
Definition TileInv (a b : Qc) (lmax_d : Z) (t : list ival) : Prop :=
  t <> [] /\ GeoChain a t b /\ Forall (coarse_ok lmax_d) t.

Definition DwTile (a b : list Qc) (st : dw_state) : Prop :=
  length (st_lmax st) = st_dim st /\
  length (m_conts (st_meta st)) = st_dim st /\
  m_cur (st_meta st) = 0%nat /\
  forall d c, nth_error (m_conts (st_meta st)) d = Some c ->
     fresh c /\ TileInv (nth d a 0%Qc) (nth d b 0%Qc) (nth d (st_lmax st) 0) (c_objs c).

Lemma DwInv_DwTile a b st : DwInv a b st -> DwTile a b st.
Proof.
  intros (A & B & C & D & _). split; [assumption|]. split; [assumption|]. split; [assumption|].
  intros d c Hd. destruct (D d c Hd) as [F [HS HC]]. split; [assumption|]. split; [eapply Seg_nonempty; eassumption|].
  split; [eapply Chain_GeoChain; apply Seg_Chain; eassumption | assumption].
Qed.

Lemma opt_map_nth {A B} (f : A -> option B) l : forall r, opt_map f l = Some r ->
  length r = length l /\ forall j x, nth_error l j = Some x -> exists y, nth_error r j = Some y /\ f x = Some y.
Proof.
  induction l as [|x l IH]; intros r H; simpl in H.
  - injection H as <-. split; [reflexivity|]. intros j x Hj. destruct j; discriminate.
  - destruct (f x) as [y|] eqn:E; [|discriminate]. destruct (opt_map f l) as [r'|]; [|discriminate].
    injection H as <-. destruct (IH r' eq_refl) as [L G]. split; [simpl; lia|].
    intros [|j] x0 Hj; simpl in Hj.
    + injection Hj as <-. exists y. split; [reflexivity | assumption].
    + apply G. assumption.
Qed.

Theorem dw_step_preserves_tiling a b o bens st st' :
  DwTile a b st -> dw_step o bens st = Some st' -> DwTile a b st'.
Proof.
  intros (HLm & HLc & Hcur & Hall) E. unfold dw_step in E.
  destruct (meta_refine_step_spec_geo (o_margin o) bens (st_meta st) Hcur) as (m1 & Hm1 & Hcur1 & Hlen1 & Hspec1).
  { intros c Hin. apply In_nth_error in Hin. destruct Hin as [d Hd]. destruct (Hall d c Hd) as [F (Hne & HG & _)].
    split; [assumption|]. split; [assumption | eauto]. }
  rewrite Hm1 in E.
  (* the trees after the optional rebalancing: same spans as the replaced trees *)
  destruct (if o_rebal o then opt_map (fun c => rebalance (o_dec o) (c_objs c)) (m_conts m1) else Some (map c_objs (m_conts m1)))
    as [trees2|] eqn:ER; [|discriminate].
  assert (H2 : length trees2 = length (m_conts m1) /\
               forall j c1, nth_error (m_conts m1) j = Some c1 ->
                 exists t2, nth_error trees2 j = Some t2 /\ map span t2 = map span (c_objs c1)).
  { destruct (o_rebal o).
    - destruct (opt_map_nth _ _ _ ER) as [L G]. split; [assumption|]. intros j c1 Hj.
      destruct (G j c1 Hj) as (t2 & A & B). exists t2. split; [assumption|]. apply geom_span. eapply rebalance_geom. eassumption.
    - injection ER as <-. split; [apply map_length|]. intros j c1 Hj. exists (c_objs c1). split; [|reflexivity].
      rewrite nth_error_map, Hj. reflexivity. }
  destruct H2 as [L2 G2].
  destruct (coarsen_dims 0 trees2 (st_lmax st) (st_lmin st) (st_dim st) (st_scheme st)) as [[[trees3 lmaxs] s]|] eqn:EC; [|discriminate].
  injection E as <-.
  destruct (coarsen_dims_spec_geo _ _ _ _ _ _ _ _ _ EC) as (L3 & L4 & _ & Hall3); [simpl; lia|].
  unfold DwTile. simpl. split; [lia|]. split; [rewrite map_length, combine_length; lia|]. split; [assumption|].
  intros d c Hd. rewrite nth_error_map in Hd.
  destruct (nth_error (combine (m_conts m1) trees3) d) as [[c1 t3]|] eqn:Ecomb; [|discriminate].
  simpl in Hd. injection Hd as <-.
  assert (Hd1 : nth_error (m_conts m1) d = Some c1 /\ nth_error trees3 d = Some t3).
  { clear - Ecomb. revert trees3 d Ecomb. generalize (m_conts m1) as l1.
    induction l1 as [|x l1 IH]; intros [|y l2] [|d] H; simpl in *; try discriminate.
    - injection H as <- <-. split; reflexivity.
    - apply IH. assumption. }
  destruct Hd1 as [Hc1 Ht3].
  assert (Hc0 : exists c0, nth_error (m_conts (st_meta st)) d = Some c0).
  { destruct (nth_error (m_conts (st_meta st)) d) eqn:E0; [eauto|].
    apply nth_error_None in E0. assert (nth_error (m_conts m1) d <> None) by congruence.
    apply nth_error_Some in H. lia. }
  destruct Hc0 as [c0 Hc0]. pose proof (Hspec1 d c0 Hc0) as Hc1'. rewrite Hc1 in Hc1'. injection Hc1' as ->.
  destruct (Hall d c0 Hc0) as [_ (Hne & HG & _)].
  destruct (G2 d _ Hc1) as (t2 & Ht2 & Hs2). simpl in Hs2.
  destruct (Hall3 d t2 Ht2) as (t3' & Ht3' & Hco & Hs3). rewrite Ht3 in Ht3'. injection Ht3' as <-.
  simpl. split; [repeat split|]. split; [|split].
  - intro E0. subst t3. simpl in Hs3. rewrite Hs2 in Hs3.
    destruct (c_objs c0) as [|iv0 t0]; [contradiction|].
    pose proof (step_sel_length (o_margin o) bens d (length (iv0 :: t0))) as HLs.
    destruct (step_sel (o_margin o) bens d (length (iv0 :: t0))) as [|s0 sel]; [simpl in HLs; discriminate|].
    unfold repl in Hs3. simpl in Hs3. destruct s0; discriminate.
  - eapply GeoChain_ext; [exact Hs3|]. eapply GeoChain_ext; [exact Hs2|]. apply GeoChain_repl; [apply step_sel_length | assumption].
  - exact Hco.
Qed.

Theorem dw_run_preserves_tiling a b o : forall steps st st', DwTile a b st -> dw_run o steps st = Some st' -> DwTile a b st'.
Proof.
  induction steps as [|bens steps IH]; intros st st' H E; simpl in E.
  - injection E as <-. assumption.
  - destruct (dw_step o bens st) as [st1|] eqn:E1; [|discriminate].
    eapply IH; [|eassumption]. eapply dw_step_preserves_tiling; eassumption.
Qed.

(* every reachable state, with or without rebalancing, any safety factor / float decision outcome *)
Theorem dw_reachable_tiling n lmin lmax a b o steps st0 st :
  Forall2 (fun x y => (x < y)%Qc) a b ->
  dw_init (S n) lmin lmax a b = Some st0 -> dw_run o steps st0 = Some st -> DwTile a b st.
Proof.
  intros Hab Hinit Hrun. eapply dw_run_preserves_tiling; [|eassumption].
  apply DwInv_DwTile. eapply dw_init_inv; eassumption.
Qed.
