(* The SOURCE-DERIVED model Gen/CombiSchemeGen.v (written by harness/translate/py2gallina.py from
   sparseSpACE/combiScheme.py at every run) agrees with the hand-written model Model/CombiScheme.v.

   One theorem per translated function.  States are related by `conc : scheme -> CombiScheme_t` (the object whose
   attributes hold the model state).  Where the Python raises an exception on inputs the total hand-written model
   still answers (IndexError for level vectors shorter than dim, RecursionError of getGrids for dim < 1), the
   theorems carry exactly that precondition; all preconditions follow from the invariant `Inv` of Proofs/SchemeInv.v,
   so on every reachable state the two models agree unconditionally (gen_reachable).

   Order of iteration over Python sets: the generated model iterates a set in the list order of its representation.
   The theorems below are equalities of representations; the only place where the source builds the same set in a
   different order than the hand-written model is get_index_set (old | active instead of active | old), handled by
   gen_get_index_set_perm.  That the C01 statements do not depend on the order in which a set is enumerated is
   proved at the end (ie_any_enumeration, Inv_perm). *)
From Coq Require Import ZArith List Bool Lia QArith Qcanon Permutation.
From SG Require Import Base.PyLib Model.CombiScheme Proofs.SchemeBasics Proofs.SchemeIE Proofs.SchemeInv
  Proofs.SchemeClosedForm Proofs.PyLibFacts Gen.CombiSchemeGen.
Import ListNotations.
Open Scope Z_scope.
Local Arguments Z.add : simpl never.
Local Arguments Z.mul : simpl never.
Local Arguments Z.sub : simpl never.
Local Arguments Z.of_nat : simpl never.
Local Arguments Z.to_nat : simpl never.
Local Arguments Z.eqb : simpl never.
Local Arguments Z.leb : simpl never.
Local Arguments Z.ltb : simpl never.
Local Arguments Z.geb : simpl never.
Local Arguments Z.max : simpl never.
Local Arguments Z.min : simpl never.

(* unfold the monadic plumbing only *)
Ltac py_step := cbn [bindE bindF bindO run_flow py_assert fst snd]; rewrite ?py_range2_0.
(* ... and turn append-loops into comprehensions, so that the two spellings of the same computation prove alike *)
Ltac py_norm := repeat (py_step; try rewrite py_for_map_append; cbn [app]).

(* ------------------------------------------------------------------ state correspondence *)
Definition conc (s : scheme) : CombiScheme_t :=
  {| f_initialized_adaptive := true;
     f_active_index_set := s_active s;
     f_old_index_set := s_old s;
     f_dim := Z.of_nat (s_dim s);
     f_lmax := Some (s_lmax s);
     f_lmax_adaptive := Some (s_lmax_adaptive s);
     f_lmin := Some (s_lmin s) |}.

(* every level vector of the index sets has as many entries as the scheme has dimensions (part of Inv) *)
Definition WFlen (s : scheme) : Prop :=
  forall k, In k (s_active s) \/ In k (s_old s) -> length k = s_dim s.

Lemma Inv_WFlen s : Inv s -> WFlen s.
Proof. intros I k Hk. exact (proj1 (inv_wf s I k Hk)). Qed.

(* ------------------------------------------------------------------ Utils.get_cross_product *)
Theorem gen_get_cross_product ls : Utils_get_cross_product ls = Some (cross ls).
Proof. unfold Utils_get_cross_product. py_step. rewrite py_product_cross. reflexivity. Qed.

(* ------------------------------------------------------------------ getGrids *)
(* enough fuel: any fuel >= dim_left computes the model's getGrids (the wrapper passes dim_left + 1) *)
Theorem gen_getGrids_rec : forall n fuel v, (S n <= fuel)%nat ->
  CombiScheme_getGrids_rec fuel (Z.of_nat (S n)) v = Some (getGrids (S n) v).
Proof.
  induction n as [|m IH]; intros fuel v Hf; (destruct fuel as [|f]; [lia|]); cbn [CombiScheme_getGrids_rec].
  - change (Z.of_nat 1 =? 1) with true. reflexivity.
  - replace (Z.of_nat (S (S m)) =? 1) with false by (symmetry; apply Z.eqb_neq; lia).
    py_step.
    rewrite (py_for_append (fun index => map (cons (index + 1)) (getGrids (S m) (v - index)))).
    + reflexivity.
    + intros x w Hx. replace (Z.of_nat (S (S m)) - 1) with (Z.of_nat (S m)) by lia.
      rewrite IH by lia. py_norm. reflexivity.
Qed.

Theorem gen_getGrids d v : 1 <= d -> CombiScheme_getGrids d v = Some (getGrids (Z.to_nat d) v).
Proof.
  intros H. unfold CombiScheme_getGrids.
  destruct (Z.to_nat d) as [|n] eqn:E; [lia|].
  replace d with (Z.of_nat (S n)) by lia. apply gen_getGrids_rec. lia.
Qed.

(* more fuel never changes a result *)
Theorem gen_getGrids_fuel_sufficient d v fuel : 1 <= d -> (Z.to_nat d <= fuel)%nat ->
  CombiScheme_getGrids_rec fuel d v = CombiScheme_getGrids d v.
Proof.
  intros H Hf. rewrite gen_getGrids by exact H.
  destruct (Z.to_nat d) as [|n] eqn:E; [lia|].
  replace d with (Z.of_nat (S n)) by lia. apply gen_getGrids_rec. lia.
Qed.

(* dim_left < 1: Python recurses forever (RecursionError) as soon as the loop runs once; with no amount of fuel does
   the generated function return, i.e. None really stands for the exception *)
Theorem gen_getGrids_diverges : forall fuel d v, d <= 0 -> 0 < v -> CombiScheme_getGrids_rec fuel d v = None.
Proof.
  induction fuel as [|f IH]; intros d v Hd Hv; [reflexivity|]. cbn [CombiScheme_getGrids_rec].
  replace (d =? 1) with false by (symmetry; apply Z.eqb_neq; lia). py_step.
  unfold py_range. destruct (Z.to_nat v) as [|k] eqn:E; [lia|].
  cbn [seq map py_for]. rewrite IH by lia. reflexivity.
Qed.

Lemma getGrids_length : forall n v g, In g (getGrids n v) -> length g = n.
Proof.
  induction n as [|m IH]; intros v g H; [destruct H|].
  destruct m as [|m'].
  - cbn in H. destruct H as [H|[]]. subst g. reflexivity.
  - change (getGrids (S (S m')) v) with
      (flat_map (fun index => map (cons (index + 1)) (getGrids (S m') (v - index))) (zrange v)) in H.
    apply in_flat_map in H. destruct H as [i [_ H]]. apply in_map_iff in H. destruct H as [g' [E H]].
    subst g. cbn [length]. f_equal. exact (IH _ _ H).
Qed.

(* ------------------------------------------------------------------ initial index sets *)
Theorem gen_init_active_index_set lmax lmin dim : 1 <= dim ->
  CombiScheme_init_active_index_set lmax lmin dim = Some (init_active_index_set lmax lmin (Z.to_nat dim)).
Proof.
  intros H. unfold CombiScheme_init_active_index_set. rewrite gen_getGrids by exact H. py_norm.
  rewrite py_set_of_list_eq. reflexivity.
Qed.

Theorem gen_init_old_index_set lmax lmin dim : 1 <= dim ->
  CombiScheme_init_old_index_set lmax lmin dim = Some (init_old_index_set lmax lmin (Z.to_nat dim)).
Proof.
  intros H. unfold CombiScheme_init_old_index_set. py_step.
  rewrite (py_for_append (fun q => shift_all (lmin - 1) (getGrids (Z.to_nat dim) (lmax - lmin + 1 - q)))).
  - py_step. rewrite py_set_of_list_eq. unfold init_old_index_set. rewrite py_range2_1.
    rewrite flat_map_concat_map, map_map, <- flat_map_concat_map. reflexivity.
  - intros x w Hx. rewrite gen_getGrids by exact H. py_norm. reflexivity.
Qed.

(* ------------------------------------------------------------------ __init__ + init_adaptive_combi_scheme *)
Theorem gen_init dim lmax lmin : 1 <= dim ->
  exists o0, CombiScheme___init__ dim = Some o0 /\
    CombiScheme_init_adaptive_combi_scheme o0 lmax lmin =
      match init_scheme (Z.to_nat dim) lmax lmin with
      | Some s => Some (tt, conc s)
      | None => None          (* one of the three asserts fails *)
      end.
Proof.
  intros H. eexists. split; [reflexivity|].
  unfold CombiScheme_init_adaptive_combi_scheme, init_scheme.
  change (fun x y => x >=? y) with Z.geb.
  destruct (lmax >=? lmin); [|reflexivity].
  destruct (lmax >=? 0); [|reflexivity].
  destruct (lmin >=? 0); [|reflexivity].
  py_step. cbn [f_dim set_f_lmin set_f_lmax set_f_initialized_adaptive].
  rewrite gen_init_active_index_set by exact H. py_step.
  cbn [f_dim set_f_active_index_set]. rewrite gen_init_old_index_set by exact H. py_step.
  unfold conc. cbn. rewrite Z2Nat.id by lia. reflexivity.
Qed.

(* ------------------------------------------------------------------ membership tests *)
Theorem gen_is_refinable s l :
  CombiScheme_is_refinable (conc s) l = Some (mem l (s_active s), conc s).
Proof. unfold CombiScheme_is_refinable. cbn [conc f_initialized_adaptive f_active_index_set]. py_step. rewrite py_set_mem_mem. reflexivity. Qed.

Theorem gen_is_old_index s l : CombiScheme_is_old_index (conc s) l = Some (mem l (s_old s), conc s).
Proof. unfold CombiScheme_is_old_index. cbn [conc f_old_index_set]. py_step. rewrite py_set_mem_mem. reflexivity. Qed.

Theorem gen_in_index_set s l :
  CombiScheme_in_index_set (conc s) l = Some (mem l (s_active s) || mem l (s_old s), conc s).
Proof.
  unfold CombiScheme_in_index_set. cbn [conc f_old_index_set f_active_index_set]. py_step.
  change py_set_mem with mem. first [reflexivity | rewrite orb_comm; reflexivity].
Qed.

Theorem gen_get_active_indices s : CombiScheme_get_active_indices (conc s) = Some (s_active s, conc s).
Proof. reflexivity. Qed.

(* ------------------------------------------------------------------ __refine_scheme *)
Theorem gen_refine_scheme s d l : (d < s_dim s)%nat -> length l = s_dim s ->
  CombiScheme___refine_scheme (conc s) (Z.of_nat d) l =
    Some (fst (refine_scheme d l s), conc (snd (refine_scheme d l s))).
Proof.
  intros Hd Hl. unfold CombiScheme___refine_scheme, refine_scheme.
  cbn [conc f_initialized_adaptive f_dim f_old_index_set f_lmin f_active_index_set f_lmax_adaptive]. py_step.
  rewrite py_getitem_in by lia. py_step. rewrite py_setitem_in by lia.
  replace (nth d l 0 + 1 - nth d l 0) with 1 by lia. py_step.
  set (l' := bump d 1 l).
  assert (length l' = s_dim s) as Hl' by (unfold l'; rewrite bump_length; exact Hl).
  rewrite py_range_seq, py_for_map.
  rewrite (py_for_search
             (fun dim => negb (mem (bump dim (-1) l') (s_old s)) && negb (nth dim (bump dim (-1) l') 0 <? s_lmin s))
             (false, conc s)).
  - rewrite existsb_negb_forallb.
    destruct (forallb _ (seq 0 (s_dim s))); cbn [negb]; py_step; [|reflexivity].
    rewrite py_getitem_in by lia. py_step. rewrite py_set_add_eq. reflexivity.
  - intros x Hx. apply in_seq in Hx.
    rewrite py_getitem_in by lia. py_step. rewrite py_setitem_in by lia.
    replace (nth x l' 0 - 1 - nth x l' 0) with (-1) by lia. py_step.
    rewrite py_set_mem_mem.
    destruct (mem (bump x (-1) l') (s_old s)); cbn [negb andb]; py_step; [reflexivity|].
    rewrite py_getitem_in by (rewrite bump_length; lia). py_step.
    destruct (nth x (bump x (-1) l') 0 <? s_lmin s); reflexivity.
Qed.

(* ------------------------------------------------------------------ update_adaptive_combi *)
Lemma refine_scheme_dim d l s : s_dim (snd (refine_scheme d l s)) = s_dim s.
Proof. unfold refine_scheme. destruct (forallb _ _); reflexivity. Qed.

Definition ret_dims (r : option (list nat)) : option (list Z) := option_map (map Z.of_nat) r.

(* the precondition: IF the vector is refinable (an active index) it has dim entries; for every other vector the
   request is rejected before anything is indexed.  Python raises IndexError where it is violated. *)
Theorem gen_update_adaptive_combi s l : (mem l (s_active s) = true -> length l = s_dim s) ->
  CombiScheme_update_adaptive_combi (conc s) l =
    Some (ret_dims (fst (update_scheme s l)), conc (snd (update_scheme s l))).
Proof.
  intros Hlen. unfold CombiScheme_update_adaptive_combi, update_scheme.
  rewrite gen_is_refinable. cbn [conc f_initialized_adaptive]. py_step.
  destruct (mem l (s_active s)) eqn:Em; cbn [negb]; py_step; [|reflexivity].
  specialize (Hlen eq_refl).
  cbn [f_active_index_set f_old_index_set f_dim set_f_active_index_set set_f_old_index_set].
  rewrite py_set_remove_eq by exact Em. py_step. rewrite py_set_add_eq.
  set (s1 := mkScheme (s_dim s) (s_lmin s) (s_lmax s) (s_lmax_adaptive s) (set_remove l (s_active s)) (set_add l (s_old s))).
  (* the object after the two set updates (whatever their order) is conc s1 *)
  match goal with |- context [py_for (py_range ?n) ?body ?v0] =>
    change v0 with (conc s1, @nil Z); change n with (Z.of_nat (s_dim s)) end.
  rewrite py_range_seq.
  pose (REL := fun (v : CombiScheme_t * list Z) (w : list nat * scheme) =>
        fst v = conc (snd w) /\ snd v = map Z.of_nat (fst w) /\ s_dim (snd w) = s_dim s).
  pose (F := fun (acc : list nat * scheme) d =>
        let '(ds, st) := acc in let '(b, st') := refine_scheme d l st in (if b then ds ++ [d] else ds, st')).
  match goal with |- context [py_for (map Z.of_nat ?ll) ?body ?v0] =>
    destruct (py_for_sim REL F Z.of_nat ll body v0 ([], s1)) as [v' [E [R1 [R2 R3]]]]
  end.
  - unfold REL. cbn [fst snd]. split; [reflexivity|]. split; reflexivity.
  - intros x [o zs] [ds st] Hx [R1 [R2 R3]]. cbn [fst snd] in R1, R2, R3. subst o zs.
    apply in_seq in Hx.
    rewrite gen_refine_scheme by lia. py_step.
    pose proof (refine_scheme_dim x l st) as Hdim.
    unfold REL, F. destruct (refine_scheme x l st) as [b st']. cbn [fst snd] in *.
    destruct b; py_step; eexists; (split; [reflexivity|]); cbn [fst snd].
    + split; [reflexivity|]. split; [|lia]. rewrite map_app. reflexivity.
    + split; [reflexivity|]. split; [reflexivity|lia].
  - rewrite E. py_step. destruct v' as [o zs]. cbn [fst snd] in R1, R2. subst o zs.
    fold F. destruct (fold_left F (seq 0 (s_dim s)) ([], s1)) as [ds st]. reflexivity.
Qed.

(* ------------------------------------------------------------------ get_index_set *)
Theorem gen_get_index_set s :
  CombiScheme_get_index_set (conc s) = Some (set_union (s_old s) (s_active s), conc s).
Proof. unfold CombiScheme_get_index_set. cbn [conc f_old_index_set f_active_index_set]. py_step. rewrite py_set_union_eq. reflexivity. Qed.

(* the source builds old | active here and active | old in getCombiScheme (= index_set of the hand-written model):
   the same set, enumerated in another order *)
Lemma set_union_perm s t : NoDup s -> NoDup t -> (forall k, In k s -> ~ In k t) ->
  Permutation (set_union s t) (set_union t s).
Proof.
  intros Ns Nt Hd. apply NoDup_Permutation.
  - apply set_union_NoDup. exact Ns.
  - apply set_union_NoDup. exact Nt.
  - intros x. rewrite !set_union_In. tauto.
Qed.

Theorem gen_get_index_set_perm s : Inv s ->
  exists idx, CombiScheme_get_index_set (conc s) = Some (idx, conc s) /\ Permutation idx (index_set s).
Proof.
  intros I. eexists. split; [apply gen_get_index_set|]. unfold index_set.
  apply set_union_perm; [exact (inv_nd_o s I)|exact (inv_nd_a s I)|].
  intros k Ho Ha. exact (inv_disj s I k Ha Ho).
Qed.

(* ------------------------------------------------------------------ get_coefficients_to_index_set *)
(* ComponentGridInfo(levelvector, int coefficient) *)
Definition grid_of (kv : lv * Z) : list Z * Qc := (fst kv, py_Z2Qc (snd kv)).

Theorem gen_get_coefficients_to_index_set s idx : (forall g, In g idx -> length g = s_dim s) ->
  CombiScheme_get_coefficients_to_index_set (conc s) idx =
    Some (map grid_of (coefficients (s_lmin s) idx), conc s).
Proof.
  intros Hlen. unfold CombiScheme_get_coefficients_to_index_set. py_step.
  cbn [conc f_dim f_lmin].
  rewrite (py_for_fold (fun dct g =>
             fold_left (fun dct st => dict_add (lv_add g st) (update_coefficient st) dct)
                       (cross (stencil_of (s_lmin s) g)) dct)).
  - py_step.
    rewrite (py_for_append (fun kv : lv * Z => if negb (snd kv =? 0) then [grid_of kv] else [])).
    + py_step. cbn [app]. rewrite flat_map_filter_map.
      unfold coefficients, accumulate, contributions.
      rewrite fold_left_flat_map.
      do 3 f_equal. apply (f_equal (filter _)). apply fold_left_ext_in. intros a x _. rewrite fold_left_map. reflexivity.
    + intros [k c] w _. cbn [snd]. destruct (negb (c =? 0)); py_step; [reflexivity|]. rewrite app_nil_r. reflexivity.
  - intros g dct Hg. specialize (Hlen g Hg).
    rewrite py_range_seq, py_for_map.
    rewrite (py_for_append (fun d => [if nth d g 0 <=? s_lmin s then [0] else [0; -1]])).
    + py_step. cbn [app]. rewrite <- Hlen, (flat_map_seq_nth (fun gd => if gd <=? s_lmin s then [0] else [0; -1])).
      rewrite gen_get_cross_product. py_step.
      rewrite (py_for_fold (fun dct st => dict_add (lv_add g st) (update_coefficient st) dct)).
      * reflexivity.
      * intros st w _. rewrite py_map2_add_lv_add, !py_sum_sumZ.
        change (- (Z.abs (sumZ st) mod 2) + Z.abs (sumZ st - 1) mod 2) with (update_coefficient st).
        rewrite ?Bool.if_negb. rewrite py_dict_accumulate_flow. reflexivity.
    + intros x w Hx. apply in_seq in Hx. rewrite py_getitem_in by lia. py_step.
      destruct (nth x g 0 <=? s_lmin s); reflexivity.
Qed.

(* ------------------------------------------------------------------ getCombiScheme *)
Lemma print_loop_skip {R} (do_print : bool) (l : list Z) :
  py_for l (fun (_ : Z) (_ : unit) =>
              bindF (if do_print then Nxt tt else Nxt tt) (fun _ => @Nxt unit R tt)) tt = Nxt tt.
Proof. apply py_for_skip. intros x _. destruct do_print; reflexivity. Qed.

(* adaptive branch (initialised object): the lmin / lmax arguments are ignored *)
Theorem gen_getCombiScheme_adaptive s lmin lmax do_print : WFlen s ->
  CombiScheme_getCombiScheme (conc s) lmin lmax do_print = Some (map grid_of (combi_scheme_adaptive s), conc s).
Proof.
  intros W. unfold CombiScheme_getCombiScheme.
  cbn [conc f_initialized_adaptive negb]. py_step.
  cbn [f_active_index_set f_old_index_set]. rewrite py_set_union_eq.
  change (mk_CombiScheme_t _ _ _ _ _ _ _) with (conc s).
  rewrite gen_get_coefficients_to_index_set.
  - py_step. rewrite print_loop_skip. py_step. reflexivity.
  - intros g Hg. apply W. apply set_union_In in Hg. exact Hg.
Qed.

(* closed-form branch (object straight from __init__): binomial coefficients as exact rationals *)
Theorem gen_getCombiScheme_standard n lmin lmax do_print :
  exists o0, CombiScheme___init__ (Z.of_nat (S n)) = Some o0 /\
    CombiScheme_getCombiScheme o0 lmin lmax do_print =
      Some (map grid_of (combi_scheme_standard (S n) lmin lmax), o0).
Proof.
  eexists. split; [reflexivity|].
  unfold CombiScheme_getCombiScheme.
  cbn [f_initialized_adaptive negb f_dim]. py_step.
  unfold py_range at 1. rewrite py_for_map.
  rewrite (py_for_append (fun q : nat => map grid_of
     (map (fun g => (map (fun l => l + (lmin - 1)) g, (if Nat.even q then 1 else -1) * binom (S n - 1) q))
          (getGrids (S n) (lmax - lmin + 1 - Z.of_nat q))))).
  - py_step. cbn [app]. rewrite print_loop_skip. py_step.
    unfold combi_scheme_standard. rewrite map_flat_map'. reflexivity.
  - intros q w Hq. apply in_seq in Hq.
    assert (q <= n)%nat as Hqn by lia.
    replace (Z.of_nat (S n) - 1) with (Z.of_nat n) by lia.
    replace (Z.of_nat n - Z.of_nat q) with (Z.of_nat (n - q)) by lia.
    rewrite !py_factorial_nat. py_step. rewrite py_pow_m1.
    replace ((if Nat.even q then 1 else -1) * fact n)
      with (((if Nat.even q then 1 else -1) * binom n q) * (fact q * fact (n - q)))
      by (rewrite binom_pbin by exact Hqn; rewrite <- (pbin_fact n q Hqn); ring).
    rewrite py_truediv_exact by (pose proof (fact_pos q); pose proof (fact_pos (n - q)); nia).
    py_step. rewrite gen_getGrids by lia. py_step. rewrite Nat2Z.id.
    rewrite (py_mapM_total _ (fun g => grid_of (map (fun l => l + (lmin - 1)) g, (if Nat.even q then 1 else -1) * binom n q))).
    + py_step. rewrite map_map. replace (S n - 1)%nat with n by lia. reflexivity.
    + intros g Hg. apply getGrids_length in Hg. rewrite np_ones_nat. py_step.
      rewrite np_shift by exact Hg. reflexivity.
Qed.

(* ------------------------------------------------------------------ functions without a hand-written counterpart:
   specifications in terms of the model's vocabulary *)
Theorem gen_has_forward_neighbour s l : length l = s_dim s ->
  CombiScheme_has_forward_neighbour (conc s) l =
    Some (existsb (fun d => mem (bump d 1 l) (s_active s) || mem (bump d 1 l) (s_old s)) (seq 0 (s_dim s)), conc s).
Proof.
  intros Hl. unfold CombiScheme_has_forward_neighbour.
  cbn [conc f_initialized_adaptive f_dim f_active_index_set f_old_index_set]. py_step.
  rewrite py_range_seq, py_for_map.
  rewrite (py_for_search (fun d => mem (bump d 1 l) (s_active s) || mem (bump d 1 l) (s_old s)) (true, conc s)).
  - destruct (existsb _ (seq 0 (s_dim s))); reflexivity.
  - intros x Hx. apply in_seq in Hx. rewrite py_getitem_in by lia. py_step. rewrite py_setitem_in by lia.
    replace (nth x l 0 + 1 - nth x l 0) with 1 by lia. py_step. change py_set_mem with mem.
    destruct (mem (bump x 1 l) (s_active s) || mem (bump x 1 l) (s_old s)); reflexivity.
Qed.

(* on every state satisfying the invariant no active index has a forward neighbour: the generated
   has_forward_neighbour answers False for every active index *)
Corollary gen_has_forward_neighbour_active s k : Inv s -> In k (s_active s) ->
  CombiScheme_has_forward_neighbour (conc s) k = Some (false, conc s).
Proof.
  intros I Hk. rewrite gen_has_forward_neighbour by (apply (Inv_WFlen s I); left; exact Hk).
  f_equal. f_equal. apply not_true_is_false. intros E. apply existsb_exists in E. destruct E as [d [Hd E]].
  apply in_seq in Hd. apply orb_true_iff in E. rewrite !mem_In in E.
  exact (inv_no_forward_neighbour s I k d Hk ltac:(lia) E).
Qed.

Definition extendable_level_spec (dim : nat) (l : lv) : bool * Z :=
  let '(c, e) := fold_left (fun (ce : Z * Z) d => if nth d l 0 >? 1 then (fst ce + 1, Z.of_nat d) else ce)
                           (seq 0 dim) (0, 0) in
  (c =? 1, e).

Theorem gen_extendable_level s l : (s_dim s <= length l)%nat ->
  CombiScheme_extendable_level (conc s) l = Some (extendable_level_spec (s_dim s) l, conc s).
Proof.
  intros Hl. unfold CombiScheme_extendable_level, extendable_level_spec.
  cbn [conc f_initialized_adaptive f_dim]. py_step. rewrite py_range_seq, py_for_map.
  rewrite (py_for_fold (fun (ce : Z * Z) d => if nth d l 0 >? 1 then (fst ce + 1, Z.of_nat d) else ce)).
  - py_step. destruct (fold_left _ (seq 0 (s_dim s)) (0, 0)) as [c e]. reflexivity.
  - intros x [c e] Hx. apply in_seq in Hx. rewrite py_getitem_in by lia. py_step.
    destruct (nth x l 0 >? 1); reflexivity.
Qed.

(* ------------------------------------------------------------------ histories on the generated model *)
(* CombiScheme(dim); init_adaptive_combi_scheme(lmax, lmin).  None = an exception (failed assert, ...) *)
Definition gen_fresh (dim lmax lmin : Z) : option CombiScheme_t :=
  match CombiScheme___init__ dim with
  | Some o0 => match CombiScheme_init_adaptive_combi_scheme o0 lmax lmin with
               | Some (_, o1) => Some o1
               | None => None
               end
  | None => None
  end.

(* a sequence of update_adaptive_combi requests; None = some request raised *)
Fixpoint gen_updates (o : CombiScheme_t) (ops : list lv) : option CombiScheme_t :=
  match ops with
  | [] => Some o
  | l :: r => match CombiScheme_update_adaptive_combi o l with
              | Some (_, o') => gen_updates o' r
              | None => None
              end
  end.

Theorem gen_fresh_eq n lmax lmin :
  gen_fresh (Z.of_nat (S n)) lmax lmin = option_map conc (init_scheme (S n) lmax lmin).
Proof.
  unfold gen_fresh. destruct (gen_init (Z.of_nat (S n)) lmax lmin ltac:(lia)) as [o0 [E0 E1]].
  rewrite E0, E1, Nat2Z.id. destruct (init_scheme (S n) lmax lmin); reflexivity.
Qed.

Theorem gen_updates_eq ops : forall s, Inv s -> gen_updates (conc s) ops = Some (conc (fold_left update ops s)).
Proof.
  induction ops as [|l ops IH]; intros s I; [reflexivity|].
  cbn [gen_updates fold_left]. rewrite gen_update_adaptive_combi.
  - apply IH. apply update_inv. exact I.
  - intros Hm. apply mem_In in Hm. apply (Inv_WFlen s I). left. exact Hm.
Qed.

(* every history on the generated model: never raises, tracks the hand-written model, invariant holds *)
Theorem gen_reachable n lmax lmin o1 ops : gen_fresh (Z.of_nat (S n)) lmax lmin = Some o1 ->
  exists s0, init_scheme (S n) lmax lmin = Some s0 /\ o1 = conc s0 /\
    gen_updates o1 ops = Some (conc (fold_left update ops s0)) /\ Inv (fold_left update ops s0).
Proof.
  intros H. rewrite gen_fresh_eq in H. destruct (init_scheme (S n) lmax lmin) as [s0|] eqn:E; [|discriminate].
  injection H as H. subst o1. exists s0. split; [reflexivity|]. split; [reflexivity|].
  pose proof (init_inv n lmax lmin s0 E) as I0. split.
  - apply gen_updates_eq. exact I0.
  - apply reachable_inv_from. exact I0.
Qed.

Theorem gen_reachable_inv n lmax lmin o1 ops : gen_fresh (Z.of_nat (S n)) lmax lmin = Some o1 ->
  exists s, gen_updates o1 ops = Some (conc s) /\ Inv s.
Proof.
  intros H. destruct (gen_reachable n lmax lmin o1 ops H) as [s0 [_ [_ [E I]]]].
  eexists. split; [exact E|exact I].
Qed.

(* initialisation succeeds exactly for 0 <= lmin <= lmax *)
Theorem gen_fresh_defined n lmax lmin : 0 <= lmin <= lmax -> exists o1, gen_fresh (Z.of_nat (S n)) lmax lmin = Some o1.
Proof.
  intros H. rewrite gen_fresh_eq. destruct (std_perm_check_general n lmin lmax H) as [s [E _]]. rewrite E.
  eexists. reflexivity.
Qed.

Lemma mem_index_set s l : mem l (index_set s) = mem l (s_active s) || mem l (s_old s).
Proof.
  apply eq_true_iff_eq. rewrite orb_true_iff, !mem_In. apply index_set_In.
Qed.

(* inclusion-exclusion, support and total for the coefficients the generated getCombiScheme returns in a state
   satisfying the invariant; membership is the generated in_index_set *)
Theorem gen_inclusion_exclusion s lmin' lmax' do_print : Inv s ->
  exists zs, CombiScheme_getCombiScheme (conc s) lmin' lmax' do_print = Some (map grid_of zs, conc s) /\
    (forall l b, length l = s_dim s -> Forall (fun x => s_lmin s <= x) l ->
       CombiScheme_in_index_set (conc s) l = Some (b, conc s) ->
       dominating_sum zs l = if b then 1 else 0) /\
    (forall k c, In (k, c) zs ->
       CombiScheme_in_index_set (conc s) k = Some (true, conc s) /\ c <> 0) /\
    sumZ (map snd zs) = 1.
Proof.
  intros I. exists (combi_scheme_adaptive s). split; [|split; [|split]].
  - apply gen_getCombiScheme_adaptive. apply Inv_WFlen. exact I.
  - intros l b Ll Fl E. rewrite gen_in_index_set in E. injection E as E. subst b.
    rewrite <- mem_index_set. apply scheme_inclusion_exclusion; assumption.
  - intros k c H. destruct (scheme_support s k c I H) as [Hk Hc]. split; [|exact Hc].
    rewrite gen_in_index_set, <- mem_index_set. apply mem_In in Hk. rewrite Hk. reflexivity.
  - apply scheme_total_one. exact I.
Qed.

(* closed form (generated, on the object straight from __init__) = adaptive scheme right after initialisation
   (generated), up to the order of the returned list *)
Theorem gen_std_equals_adaptive_init n lmin lmax o1 p1 p2 a b : gen_fresh (Z.of_nat (S n)) lmax lmin = Some o1 ->
  exists o0 cs_std cs_ad,
    CombiScheme___init__ (Z.of_nat (S n)) = Some o0 /\
    CombiScheme_getCombiScheme o0 lmin lmax p1 = Some (cs_std, o0) /\
    CombiScheme_getCombiScheme o1 a b p2 = Some (cs_ad, o1) /\
    Permutation cs_std cs_ad.
Proof.
  intros H. destruct (gen_reachable n lmax lmin o1 [] H) as [s0 [E0 [-> [_ I]]]]. cbn [fold_left] in I.
  destruct (gen_getCombiScheme_standard n lmin lmax p1) as [o0 [Ei Es]].
  exists o0, (map grid_of (combi_scheme_standard (S n) lmin lmax)), (map grid_of (combi_scheme_adaptive s0)).
  split; [exact Ei|]. split; [exact Es|]. split.
  - apply gen_getCombiScheme_adaptive. apply Inv_WFlen. exact I.
  - apply Permutation_map. apply (std_equals_adaptive_init n lmin lmax s0 E0).
Qed.

(* ------------------------------------------------------------------ independence of the enumeration order of sets *)
Lemma mem_perm l a b : Permutation a b -> mem l a = mem l b.
Proof.
  intros P. apply eq_true_iff_eq. rewrite !mem_In. split; apply Permutation_in; [exact P|apply Permutation_sym; exact P].
Qed.

(* the inclusion-exclusion identity holds for the coefficients computed from ANY enumeration idx' of the index set *)
Theorem ie_any_enumeration s idx' l : Inv s -> Permutation idx' (index_set s) ->
  length l = s_dim s -> Forall (fun x => s_lmin s <= x) l ->
  dominating_sum (coefficients (s_lmin s) idx') l = if mem l (index_set s) then 1 else 0.
Proof.
  intros I P Ll Fl. rewrite <- (mem_perm l idx' (index_set s) P).
  apply coeffs_inclusion_exclusion_gen.
  - apply (Permutation_NoDup (Permutation_sym P)). apply inv_index_NoDup. exact I.
  - intros g Hg. apply (Permutation_in _ P) in Hg. apply index_set_In in Hg.
    destruct (inv_wf s I g Hg) as [L F]. split; [congruence|exact F].
  - exact Fl.
Qed.

Theorem total_one_any_enumeration s idx' : Inv s -> Permutation idx' (index_set s) ->
  sumZ (map snd (coefficients (s_lmin s) idx')) = 1.
Proof.
  intros I P. apply (coeffs_total_one_gen (s_lmin s) idx' (s_dim s)).
  - apply (Permutation_NoDup (Permutation_sym P)). apply inv_index_NoDup. exact I.
  - intros g Hg. apply (Permutation_in _ P) in Hg. apply index_set_In in Hg. exact (inv_wf s I g Hg).
  - apply (Permutation_in _ (Permutation_sym P)). apply index_set_In. exact (inv_min s I).
Qed.

(* the invariant does not depend on the order in which the two sets are stored *)
Theorem Inv_perm s a' o' : Inv s -> Permutation (s_active s) a' -> Permutation (s_old s) o' ->
  Inv (mkScheme (s_dim s) (s_lmin s) (s_lmax s) (s_lmax_adaptive s) a' o').
Proof.
  intros I Pa Po.
  assert (forall k, In k a' <-> In k (s_active s)) as Ha
    by (intros k; split; apply Permutation_in; [apply Permutation_sym; exact Pa|exact Pa]).
  assert (forall k, In k o' <-> In k (s_old s)) as Ho
    by (intros k; split; apply Permutation_in; [apply Permutation_sym; exact Po|exact Po]).
  constructor; cbn [s_dim s_lmin s_active s_old].
  - intros k Hk. rewrite Ha, Ho in Hk. exact (inv_wf s I k Hk).
  - exact (Permutation_NoDup Pa (inv_nd_a s I)).
  - exact (Permutation_NoDup Po (inv_nd_o s I)).
  - intros k Hk. rewrite Ha in Hk. rewrite Ho. exact (inv_disj s I k Hk).
  - intros k d Hk Hd Hn. rewrite Ha, Ho in Hk. rewrite Ho. exact (inv_back s I k d Hk Hd Hn).
  - rewrite Ha, Ho. exact (inv_min s I).
Qed.

(* the state machine itself does not depend on the order: states that agree up to the enumeration order of their
   two sets answer every update request identically and stay in agreement *)
Definition scheme_equiv (s t : scheme) : Prop :=
  s_dim s = s_dim t /\ s_lmin s = s_lmin t /\ s_lmax s = s_lmax t /\ s_lmax_adaptive s = s_lmax_adaptive t /\
  Permutation (s_active s) (s_active t) /\ Permutation (s_old s) (s_old t).

Lemma filter_perm {A} (p : A -> bool) a b : Permutation a b -> Permutation (filter p a) (filter p b).
Proof.
  induction 1 as [|x a b P IH|x y a|a b c P1 IH1 P2 IH2]; cbn [filter].
  - constructor.
  - destruct (p x); [constructor|]; exact IH.
  - destruct (p x), (p y); try apply Permutation_refl. apply perm_swap.
  - exact (Permutation_trans IH1 IH2).
Qed.

Lemma set_add_perm x a b : Permutation a b -> Permutation (set_add x a) (set_add x b).
Proof.
  intros P. unfold set_add. rewrite (mem_perm x a b P). destruct (mem x b); [exact P|].
  apply Permutation_app_tail. exact P.
Qed.

Lemma refine_scheme_perm d l s t : scheme_equiv s t ->
  fst (refine_scheme d l s) = fst (refine_scheme d l t) /\
  scheme_equiv (snd (refine_scheme d l s)) (snd (refine_scheme d l t)).
Proof.
  intros [E1 [E2 [E3 [E4 [Pa Po]]]]]. unfold refine_scheme. rewrite <- E1, <- E2.
  rewrite (forallb_ext_in _ (fun dim => negb (negb (mem (bump dim (-1) (bump d 1 l)) (s_old t)) &&
              negb (nth dim (bump dim (-1) (bump d 1 l)) 0 <? s_lmin s))) (seq 0 (s_dim s))).
  - destruct (forallb _ (seq 0 (s_dim s))); cbn [fst snd]; (split; [reflexivity|]).
    + unfold scheme_equiv. cbn [s_dim s_lmin s_lmax s_lmax_adaptive s_active s_old].
      rewrite E4. repeat (split; [assumption || reflexivity|]). split; [|exact Po]. apply set_add_perm. exact Pa.
    + unfold scheme_equiv. repeat (split; [assumption|]). exact Po.
  - intros x _. rewrite (mem_perm _ _ _ Po). reflexivity.
Qed.

Definition upd_body (l : lv) (acc : list nat * scheme) (d : nat) : list nat * scheme :=
  let '(ds, st) := acc in let '(b, st') := refine_scheme d l st in (if b then ds ++ [d] else ds, st').

Lemma upd_loop_perm l dl : forall ds a b, scheme_equiv a b ->
  fst (fold_left (upd_body l) dl (ds, a)) = fst (fold_left (upd_body l) dl (ds, b)) /\
  scheme_equiv (snd (fold_left (upd_body l) dl (ds, a))) (snd (fold_left (upd_body l) dl (ds, b))).
Proof.
  induction dl as [|d dl IH]; intros ds a b Eab; [split; [reflexivity|exact Eab]|].
  cbn [fold_left].
  assert (exists ds' a' b', upd_body l (ds, a) d = (ds', a') /\ upd_body l (ds, b) d = (ds', b') /\ scheme_equiv a' b')
    as [ds' [a' [b' [Ea [Eb Est]]]]].
  { unfold upd_body. destruct (refine_scheme_perm d l a b Eab) as [Eb Est].
    destruct (refine_scheme d l a) as [b1 a']. destruct (refine_scheme d l b) as [b2 b']. cbn [fst snd] in Eb, Est.
    subst b2. eexists. eexists. eexists. split; [reflexivity|]. split; [reflexivity|exact Est]. }
  rewrite Ea, Eb. apply IH. exact Est.
Qed.

Theorem update_scheme_perm s t l : scheme_equiv s t ->
  fst (update_scheme s l) = fst (update_scheme t l) /\
  scheme_equiv (snd (update_scheme s l)) (snd (update_scheme t l)).
Proof.
  intros E. pose proof E as [E1 [E2 [E3 [E4 [Pa Po]]]]]. unfold update_scheme.
  rewrite (mem_perm l _ _ Pa). destruct (mem l (s_active t)); [|split; [reflexivity|exact E]].
  rewrite <- E1.
  set (s1 := mkScheme (s_dim s) (s_lmin s) (s_lmax s) (s_lmax_adaptive s) (set_remove l (s_active s)) (set_add l (s_old s))).
  set (t1 := mkScheme (s_dim s) (s_lmin t) (s_lmax t) (s_lmax_adaptive t) (set_remove l (s_active t)) (set_add l (s_old t))).
  assert (scheme_equiv s1 t1) as E0.
  { unfold scheme_equiv, s1, t1. cbn [s_dim s_lmin s_lmax s_lmax_adaptive s_active s_old].
    repeat (split; [assumption || reflexivity|]). split; [apply filter_perm; exact Pa|apply set_add_perm; exact Po]. }
  clearbody s1 t1.
  pose proof (upd_loop_perm l (seq 0 (s_dim s)) [] s1 t1 E0) as Hloop. unfold upd_body in Hloop.
  destruct (fold_left _ (seq 0 (s_dim s)) ([], s1)) as [ds1 s2].
  destruct (fold_left _ (seq 0 (s_dim s)) ([], t1)) as [ds2 t2].
  cbn [fst snd] in *. destruct Hloop as [Hd He]. subst ds2. split; [reflexivity|exact He].
Qed.

(* ------------------------------------------------------------------ re-initialisation of ONE object *)
From SG Require Import Model.CombiSchemeObj.

(* init_adaptive_combi_scheme on ANY object state (initialised before or not, whatever its sets and levels were): the
   result depends on the dimension and the two arguments only - nothing of the previous state survives.  If an
   attribute were added to the class that init_adaptive_combi_scheme does not reset, `conc` would have to say what it
   holds and this equality would fail. *)
Theorem gen_reinit_is_fresh o lmax lmin : 1 <= f_dim o ->
  CombiScheme_init_adaptive_combi_scheme o lmax lmin =
    match init_scheme (Z.to_nat (f_dim o)) lmax lmin with
    | Some s => Some (tt, conc s)
    | None => None
    end.
Proof.
  intros H. destruct o as [x1 x2 x3 x4 x5 x6 x7]. cbn [f_dim] in H.
  unfold CombiScheme_init_adaptive_combi_scheme, init_scheme.
  change (fun x y => x >=? y) with Z.geb.
  destruct (lmax >=? lmin); [|reflexivity].
  destruct (lmax >=? 0); [|reflexivity].
  destruct (lmin >=? 0); [|reflexivity].
  py_step. cbn [f_dim set_f_lmin set_f_lmax set_f_initialized_adaptive].
  rewrite gen_init_active_index_set by exact H. py_step.
  cbn [f_dim set_f_active_index_set]. rewrite gen_init_old_index_set by exact H. py_step.
  unfold conc. cbn. rewrite Z2Nat.id by lia. reflexivity.
Qed.

(* two objects of the same dimension are indistinguishable after the same (successful) initialisation *)
Corollary gen_reinit_independent o o' lmax lmin : 1 <= f_dim o -> f_dim o = f_dim o' ->
  CombiScheme_init_adaptive_combi_scheme o lmax lmin = CombiScheme_init_adaptive_combi_scheme o' lmax lmin.
Proof. intros H E. rewrite !gen_reinit_is_fresh by lia. rewrite E. reflexivity. Qed.

(* init_full_grid = the model's init_full_scheme, again from any previous state *)
Lemma full_loop lmax lmin dim (H : 1 <= dim) : forall (l : list Z) o, f_dim o = dim ->
  py_for l (fun i self =>
      bindE (CombiScheme_init_active_index_set lmax (lmin + i) (f_dim self)) (fun t =>
        @Nxt CombiScheme_t (unit * CombiScheme_t) (set_f_old_index_set self (py_set_union (f_old_index_set self) t)))) o =
  Nxt (set_f_old_index_set o
         (fold_left (fun old i => set_union old (init_active_index_set lmax (lmin + i) (Z.to_nat dim))) l (f_old_index_set o))).
Proof.
  induction l as [|i l IH]; intros o Hd.
  - destruct o as [x1 x2 x3 x4 x5 x6 x7]; reflexivity.
  - cbn [py_for fold_left]. rewrite Hd, gen_init_active_index_set by exact H. cbn [bindE].
    rewrite IH by (destruct o as [x1 x2 x3 x4 x5 x6 x7]; exact Hd). rewrite py_set_union_eq. destruct o as [x1 x2 x3 x4 x5 x6 x7]; reflexivity.
Qed.

Theorem gen_init_full_grid o lmax lmin : 1 <= f_dim o ->
  CombiScheme_init_full_grid o lmax lmin =
    match init_full_scheme (Z.to_nat (f_dim o)) lmax lmin with
    | Some s => Some (tt, conc s)
    | None => None
    end.
Proof.
  intros H. destruct o as [x1 x2 x3 x4 x5 x6 x7]. cbn [f_dim] in H.
  unfold CombiScheme_init_full_grid, init_full_scheme.
  change (fun x y => x >=? y) with Z.geb.
  destruct (lmax >=? lmin); [|reflexivity].
  destruct (lmax >=? 0); [|reflexivity].
  destruct (lmin >=? 0); [|reflexivity].
  py_step. cbn [f_dim set_f_lmin set_f_lmax set_f_initialized_adaptive set_f_active_index_set].
  rewrite gen_init_old_index_set by exact H. py_step.
  match goal with |- context [py_for ?l ?body ?v0] =>
    rewrite (full_loop lmax lmin (f_dim v0) H l v0 eq_refl) end.
  py_step. unfold conc. cbn. rewrite Z2Nat.id by lia. reflexivity.
Qed.
