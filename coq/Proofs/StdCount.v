(* C02: StandardCombi.get_total_num_points in BOTH modes, tied to the point sets.
     get_total_num_points(distinct_function_evals=True)  = the number of DISTINCT points of all component grids (size of the function
                                                           cache)                 = sum_l c_l * prod_d N(l_d)   [Proofs/StdUnion.v]
     get_total_num_points(distinct_function_evals=False) = sum_l prod_d N(l_d): every component grid counted in full, points that
                                                           occur in several grids counted again ("with doubles")
   and the two differ exactly by the multiply counted points: naive - distinct = sum_l (1 - c_l) * prod_d N(l_d). *)
From Coq Require Import ZArith List Bool QArith Qcanon Lia Permutation.
From SG Require Import Base.QcUtil Model.CombiScheme Model.StdCombi Proofs.SchemeBasics Proofs.SchemeIE Proofs.SchemeInv
  Proofs.StdGrid Proofs.StdCombiSum Proofs.NodalExact Proofs.StdNodal Proofs.SchemeClosedForm Proofs.StdHier Proofs.StdHierGeneral
  Proofs.StdUnion Proofs.StdTol.
Import ListNotations.
Local Open Scope Z_scope.
Local Arguments Z.add : simpl never.
Local Arguments Z.mul : simpl never.

(* the loop of get_total_num_points without distinct_function_evals: numpoints += get_num_points_component_grid(levelvector) *)
Definition combi_total_points_naive (bd : bool) (cs : list (lv * Z)) : Z :=
  sumZ (map (fun kv => comp_total_points bd (fst kv)) cs).

(* all points of all component grids, doubles included *)
Definition all_points (bd : bool) (a b : list Qc) (cs : list (lv * Z)) : list (list Qc) :=
  flat_map (fun kv => comp_points bd a b (fst kv)) cs.

Theorem total_points_naive bd a b : forall cs,
  (forall l c, In (l, c) cs -> length a = length l /\ length b = length l /\ Forall (fun v => 1 <= v) l) ->
  Z.of_nat (length (all_points bd a b cs)) = combi_total_points_naive bd cs.
Proof.
  induction cs as [|[l c0] cs IH]; intro H; [reflexivity|].
  unfold all_points, combi_total_points_naive in *. cbn [flat_map map fst]. rewrite app_length, Nat2Z.inj_add, sumZ_cons.
  destruct (H l c0 (or_introl eq_refl)) as [La [Lb Fl]].
  rewrite (comp_points_length bd a b l La Lb Fl). rewrite IH; [reflexivity|].
  intros l' c' Hin. apply (H l' c'). right. exact Hin.
Qed.

(* closed-form scheme of StandardCombi: every dimension, 1 <= lmin <= lmax, boundary on/off: both modes *)
Theorem std_total_points_both_modes bd a b n lmin lmax :
  1 <= lmin <= lmax -> box_ok a b -> length a = S n -> length b = S n ->
  let cs := combi_scheme_standard (S n) lmin lmax in
  Z.of_nat (length (union_points bd a b cs)) = combi_total_points bd cs /\
  Z.of_nat (length (all_points bd a b cs)) = combi_total_points_naive bd cs /\
  combi_total_points_naive bd cs - combi_total_points bd cs = sumZ (map (fun kv => (1 - snd kv) * comp_total_points bd (fst kv)) cs).
Proof.
  intros H Hbox La Lb cs. split; [|split].
  - exact (std_total_points bd a b n lmin lmax H Hbox La Lb).
  - apply total_points_naive. intros l c Hin. destruct (std_scheme_levels n lmin lmax l c ltac:(lia) Hin) as [Ll Fl].
    split; [congruence|]. split; [congruence|]. apply Forall_forall. intros v Hv. rewrite Forall_forall in Fl. specialize (Fl v Hv). lia.
  - unfold combi_total_points_naive, combi_total_points. generalize cs. clear. intro cs.
    induction cs as [|kv cs IH]; [reflexivity|]. cbn [map]. rewrite !sumZ_cons. lia.
Qed.

(* the distinct count never exceeds the naive one: union_points is the duplicate-free version of all_points *)
Theorem distinct_le_naive bd a b cs : (length (union_points bd a b cs) <= length (all_points bd a b cs))%nat.
Proof.
  unfold union_points, all_points. generalize (flat_map (fun kv : lv * Z => comp_points bd a b (fst kv)) cs). intro l.
  induction l as [|x l IH]; [simpl; lia|]. simpl. destruct (in_dec lQ_dec x l); simpl; lia.
Qed.

(* every reachable adaptive scheme, lmin >= 1 *)
Theorem adaptive_total_points_naive bd a b s :
  Inv s -> 1 <= s_lmin s -> length a = s_dim s -> length b = s_dim s ->
  Z.of_nat (length (all_points bd a b (combi_scheme_adaptive s))) = combi_total_points_naive bd (combi_scheme_adaptive s).
Proof.
  intros HI Hl La Lb. apply total_points_naive. intros l c Hin. destruct (scheme_levels s l c HI Hin) as [Ll Fl].
  split; [congruence|]. split; [congruence|]. apply Forall_forall. intros v Hv. rewrite Forall_forall in Fl. specialize (Fl v Hv). lia.
Qed.
