(* C11 — grouped slices: a container of 2^K >= 2 equally wide adjacent slices carries the Romberg weights of the
   complete dyadic grid of depth K on [left, right]; they sum to right-left and integrate x exactly, for EVERY K.
   With Proofs/RombergSliced.v this closes total weight and first moment for every grouping (default containers). *)
From Coq Require Import ZArith List QArith Qcanon Bool Arith Lia.
From SG Require Import Base.QcUtil Model.Romberg Proofs.RombergBasics Proofs.RombergCoeff Proofs.RombergTree
  Proofs.RombergSliced Proofs.RombergExact.
Import ListNotations.
Open Scope Qc_scope.

(* ---------------------------------------------------------------------------------------------- *)
(* Part B1: the weights of the complete grid of depth K sum to b - a *)

Lemma pow2_S j : pow2 (S j) = Qc2 * pow2 j.
Proof. reflexivity. Qed.
Lemma pow2_neq0 j : pow2 j <> 0.
Proof. apply pow_neq0. exact Qc2_neq0. Qed.
Lemma step_width_pow2 a b j : step_width a b j * pow2 j = b - a.
Proof. unfold step_width. field. apply pow2_neq0. Qed.

Section FullGrid.
Variables (a b : Qc) (K : nat).
Hypothesis Hab : a <> b.

Definition fj (j : nat) : Qc := romberg_coefficient a b 2 K j * step_width a b j.
Definition innerW (l : nat) : Qc := sumQ (map fj (seq l (S K - l))).

Lemma sumQ_zero {A} (l : list A) : sumQ (map (fun _ => 0) l) = 0.
Proof. induction l as [|x l IH]; simpl; [reflexivity | rewrite IH; ring]. Qed.

(* sum over the complete subtree of depth d rooted at level lev, lev + d = K + 1 *)
Lemma subtree_sum d : forall lev, (lev + d = S K)%nat ->
  sumQ (map innerW (full_levels d lev)) = sumQ (map (fun j => fj j * (pow2 (S j - lev) - 1)) (seq lev (S K - lev))).
Proof.
  induction d as [|d IH]; intros lev H.
  - replace (S K - lev)%nat with 0%nat by lia. reflexivity.
  - cbn [full_levels]. rewrite !map_app, !sumQ_app. cbn [map sumQ]. rewrite (IH (S lev)) by lia.
    replace (S K - lev)%nat with (S (S K - S lev)) by lia. cbn [seq map sumQ].
    replace (S lev - lev)%nat with 1%nat by lia.
    unfold innerW at 1. replace (S K - lev)%nat with (S (S K - S lev)) by lia. cbn [seq map sumQ].
    rewrite (sumQ_map_ext_in (fun j => fj j * (pow2 (S j - lev) - 1))
                             (fun j => Qc2 * (fj j * (pow2 (S j - S lev) - 1)) + fj j) (seq (S lev) (S K - S lev))).
    + rewrite sumQ_map_add, sumQ_map_scale.
      assert (P1 : pow2 1 = 1 + 1) by (apply Qc_is_canon; reflexivity). rewrite P1, Qc2_eq. ring.
    + intros j Hj. apply in_seq in Hj. replace (S j - lev)%nat with (S (S j - S lev)) by lia.
      rewrite pow2_S, Qc2_eq. ring.
Qed.

Definition boundaryW : Qc := sumQ (map (fun j => fj j / Qc2) (seq 0 (S K))).

Theorem full_grid_weight_sum : (1 <= K)%nat ->
  boundaryW + sumQ (map innerW (full_levels K 1)) + boundaryW = b - a.
Proof.
  intro HK. rewrite (subtree_sum K 1) by lia.
  assert (E : boundaryW + boundaryW = sumQ (map fj (seq 0 (S K)))).
  { unfold boundaryW. rewrite <- sumQ_map_add. apply sumQ_map_ext_in. intros j _. qc_consts. field. exact two_neq0. }
  transitivity (sumQ (map fj (seq 0 (S K))) + sumQ (map (fun j => fj j * (pow2 (S j - 1) - 1)) (seq 1 (S K - 1)))).
  { rewrite <- E. ring. }
  change (seq 0 (S K)) with (0%nat :: seq 1 K). replace (S K - 1)%nat with K by lia. cbn [map sumQ].
  assert (X : sumQ (map fj (seq 1 K)) + sumQ (map (fun j => fj j * (pow2 (S j - 1) - 1)) (seq 1 K))
              = (b - a) * sumQ (map (romberg_coefficient a b 2 K) (seq 1 K))).
  { rewrite <- sumQ_map_add, <- sumQ_map_scale. apply sumQ_map_ext_in.
    intros j Hj. apply in_seq in Hj. replace (S j - 1)%nat with j by lia. unfold fj.
    rewrite <- (step_width_pow2 a b j). ring. }
  assert (F0 : fj 0 = (b - a) * romberg_coefficient a b 2 K 0).
  { unfold fj. rewrite <- (step_width_pow2 a b 0). unfold pow2. simpl. ring. }
  assert (C := romberg_coeff_sum_one a b 2 K Hab ltac:(lia)).
  change (seq 0 (S K)) with (0%nat :: seq 1 K) in C. cbn [map sumQ] in C.
  transitivity ((b - a) * (romberg_coefficient a b 2 K 0 + sumQ (map (romberg_coefficient a b 2 K) (seq 1 K)))).
  - rewrite Qcmult_plus_distr_r, <- X, <- F0. ring.
  - rewrite C. ring.
Qed.
End FullGrid.

(* ---------------------------------------------------------------------------------------------- *)
(* Part B2: the normalized levels of a container with 2^K slices are the levels of the complete tree of depth K *)

Lemma full_levels_length d lev : length (full_levels d lev) = (2 ^ d - 1)%nat.
Proof.
  revert lev. induction d as [|d IH]; intro lev; [reflexivity|].
  cbn [full_levels]. rewrite !app_length, !IH. cbn [length]. rewrite Nat.pow_succ_r'.
  assert (1 <= 2 ^ d)%nat by (apply Nat.neq_0_lt_0, Nat.pow_nonzero; lia). lia.
Qed.

Lemma norm_levels_full d : forall fuel start stop level,
  (d <= fuel)%nat -> (1 <= start)%nat -> (stop + 1 = start + (2 ^ d - 1))%nat ->
  norm_levels_rec fuel start stop level = full_levels d level.
Proof.
  induction d as [|d IH]; intros fuel start stop level Hf Hs Hc.
  - simpl in Hc. destruct fuel as [|f]; [reflexivity|]. cbn [norm_levels_rec].
    destruct (Nat.ltb_spec stop start) as [_|C]; [reflexivity | lia].
  - destruct fuel as [|f]; [lia|]. cbn [norm_levels_rec full_levels].
    rewrite Nat.pow_succ_r' in Hc.
    assert (P : (1 <= 2 ^ d)%nat) by (apply Nat.neq_0_lt_0, Nat.pow_nonzero; lia).
    destruct (Nat.ltb_spec stop start) as [C|_]; [lia|].
    destruct (Nat.eqb_spec start stop) as [E|NE].
    + assert (D : d = 0%nat).
      { destruct d as [|d']; [reflexivity|]. rewrite Nat.pow_succ_r' in Hc, P. lia. }
      subst d. reflexivity.
    + assert (M : Nat.div2 (start + stop) = (start + 2 ^ d - 1)%nat).
      { replace (start + stop)%nat with (2 * (start + 2 ^ d - 1))%nat by lia. apply Nat.div2_double. }
      rewrite M. rewrite (IH f start (start + 2 ^ d - 1 - 1)%nat (S level)) by lia.
      rewrite (IH f (S (start + 2 ^ d - 1)) stop (S level)) by lia. reflexivity.
Qed.

Lemma list_max_app a b : list_max (a ++ b) = Nat.max (list_max a) (list_max b).
Proof. induction a as [|x a IH]; simpl; [reflexivity | rewrite IH; lia]. Qed.

Lemma full_levels_max d lev : (1 <= d)%nat -> list_max (full_levels d lev) = (lev + d - 1)%nat.
Proof.
  revert lev. induction d as [|d IH]; intros lev H; [lia|].
  cbn [full_levels]. rewrite !list_max_app. cbn [list_max fold_right].
  destruct d as [|d']; [simpl; lia|]. rewrite IH by lia. lia.
Qed.

Lemma full_levels_range d lev l : In l (full_levels d lev) -> (lev <= l < lev + d)%nat.
Proof.
  revert lev. induction d as [|d IH]; intros lev H; [destruct H|].
  cbn [full_levels] in H. apply in_app_or in H. destruct H as [H|H]; [apply IH in H; lia|].
  apply in_app_or in H. destruct H as [[<-|[]]|H]; [lia | apply IH in H; lia].
Qed.

Lemma full_levels_rev d lev : rev (full_levels d lev) = full_levels d lev.
Proof.
  revert lev. induction d as [|d IH]; intro lev; [reflexivity|].
  cbn [full_levels]. rewrite !rev_app_distr, IH. simpl. rewrite <- app_assoc. reflexivity.
Qed.

Lemma normalized_levels_full K : (1 <= K)%nat ->
  normalized_levels (S (2 ^ K)) = [0%nat] ++ full_levels K 1 ++ [0%nat].
Proof.
  intro H. unfold normalized_levels.
  assert (P : (K < 2 ^ K)%nat) by (apply Nat.pow_gt_lin_r; lia).
  rewrite (norm_levels_full K) by lia. reflexivity.
Qed.

(* ---------------------------------------------------------------------------------------------- *)
(* Part B3: index moment of a palindromic weight list *)

Definition qn (n : nat) : Qc := qc_of_Z (Z.of_nat n).

Lemma qn_S n : qn (S n) = qn n + 1.
Proof.
  unfold qn, qc_of_Z. rewrite Nat2Z.inj_succ. apply Qc_is_canon.
  unfold Qcplus, Q2Qc. cbn [this]. rewrite !Qred_correct. unfold Z.succ. rewrite inject_Z_plus. reflexivity.
Qed.
Lemma qn_0 : qn 0 = 0.
Proof. apply Qc_is_canon. reflexivity. Qed.

(* J ws = sum_i i * ws_i *)
Fixpoint idx_moment_from (i : nat) (ws : list Qc) : Qc :=
  match ws with [] => 0 | w :: r => qn i * w + idx_moment_from (S i) r end.
Definition idx_moment := idx_moment_from 0.

Lemma idx_moment_shift i ws : idx_moment_from (S i) ws = idx_moment_from i ws + sumQ ws.
Proof.
  revert i. induction ws as [|w r IH]; intro i; simpl; [ring|].
  rewrite IH, qn_S. ring.
Qed.

Lemma idx_moment_from_app i u v :
  idx_moment_from i (u ++ v) = idx_moment_from i u + idx_moment_from (i + length u) v.
Proof.
  revert i. induction u as [|w u IH]; intro i; simpl.
  - rewrite Nat.add_0_r. ring.
  - rewrite IH. replace (S i + length u)%nat with (i + S (length u))%nat by lia. ring.
Qed.

Lemma idx_moment_from_base i ws : idx_moment_from i ws = idx_moment ws + qn i * sumQ ws.
Proof.
  induction i as [|i IH].
  - rewrite qn_0. unfold idx_moment. ring.
  - rewrite idx_moment_shift, IH, qn_S. ring.
Qed.

Lemma idx_moment_rev ws : idx_moment (rev ws) = (qn (length ws) - 1) * sumQ ws - idx_moment ws.
Proof.
  induction ws as [|w r IH].
  - simpl. unfold idx_moment. simpl. ring.
  - cbn [rev length]. unfold idx_moment at 1. rewrite idx_moment_from_app. fold (idx_moment (rev r)).
    rewrite IH. cbn [idx_moment_from plus]. rewrite rev_length.
    unfold idx_moment at 2. cbn [idx_moment_from]. rewrite idx_moment_shift. fold (idx_moment r).
    rewrite qn_S, qn_0. simpl sumQ. ring.
Qed.

Lemma idx_moment_palindrome ws : rev ws = ws ->
  (1 + 1) * idx_moment ws = (qn (length ws) - 1) * sumQ ws.
Proof.
  intro H. assert (E := idx_moment_rev ws). rewrite H in E.
  transitivity (idx_moment ws + idx_moment ws); [ring|]. rewrite E at 1. ring.
Qed.

(* ---------------------------------------------------------------------------------------------- *)
(* Part B4: one container with 2^K >= 2 slices *)

Fixpoint chain (c : list slice) : Prop :=
  match c with
  | s1 :: ((s2 :: _) as r) => sl_r s1 = sl_l s2 /\ chain r
  | _ => True
  end.

Fixpoint arith (x h : Qc) (n : nat) : list Qc := match n with O => [] | S n' => x :: arith (x + h) h n' end.

Lemma arith_length x h n : length (arith x h n) = n.
Proof. revert x. induction n as [|n IH]; intro x; simpl; [reflexivity | rewrite IH; reflexivity]. Qed.

Lemma container_right_cons s s2 c : container_right (s :: s2 :: c) = container_right (s2 :: c).
Proof. reflexivity. Qed.

Lemma container_grid_arith h : forall c, c <> [] -> chain c -> Forall (fun s => sl_width s = h) c ->
  container_grid c = arith (container_left c) h (S (length c)) /\ container_right c = container_left c + qn (length c) * h.
Proof.
  induction c as [|s c IH]; intros Hne Hc Hw; [congruence|].
  apply Forall_cons_iff in Hw. destruct Hw as [Hs Hw']. unfold sl_width in Hs.
  destruct c as [|s2 c].
  - unfold container_grid, container_left, container_right. simpl. rewrite qn_S, qn_0. split.
    + f_equal. f_equal. rewrite <- Hs. ring.
    + rewrite <- Hs. ring.
  - destruct Hc as [E Hc]. destruct (IH ltac:(discriminate) Hc Hw') as [G R].
    assert (L2 : container_left (s2 :: c) = sl_l s + h).
    { change (container_left (s2 :: c)) with (sl_l s2). rewrite <- E, <- Hs. ring. }
    rewrite container_right_cons, R, L2.
    change (container_left (s :: s2 :: c)) with (sl_l s).
    split.
    + change (container_grid (s :: s2 :: c)) with (sl_l s :: container_grid (s2 :: c)).
      rewrite G, L2. reflexivity.
    + change (length (s :: s2 :: c)) with (S (length (s2 :: c))). rewrite (qn_S (length (s2 :: c))). ring.
Qed.

Lemma map_nth_seq {A B} (f : A -> B) (l : list A) d : map (fun i => f (nth i l d)) (seq 0 (length l)) = map f l.
Proof.
  induction l as [|x l IH]; [reflexivity|]. cbn [length seq map nth]. f_equal.
  rewrite <- seq_shift, map_map. exact IH.
Qed.

Lemma opt_list_all {A B} (F : A -> option B) (G : A -> B) l :
  (forall x, In x l -> F x = Some (G x)) -> opt_list (map F l) = Some (map G l).
Proof.
  induction l as [|x l IH]; intro H; [reflexivity|]. simpl.
  rewrite (H x (or_introl eq_refl)), (IH (fun y I => H y (or_intror I))). reflexivity.
Qed.

Lemma wsum_map_pair {A} (x g : A -> Qc) l : wsum (map (fun i => (x i, g i)) l) = sumQ (map g l).
Proof. induction l as [|i l IH]; simpl; [reflexivity | rewrite IH; reflexivity]. Qed.
Lemma wmom_map_pair {A} (x g : A -> Qc) l : wmom (map (fun i => (x i, g i)) l) = dotQ (map x l) (map g l).
Proof. induction l as [|i l IH]; simpl; [reflexivity | rewrite IH; reflexivity]. Qed.

Lemma dot_arith h ws : forall x, dotQ (arith x h (length ws)) ws = x * sumQ ws + h * idx_moment ws.
Proof.
  induction ws as [|w ws IH]; intro x; simpl.
  - unfold idx_moment. simpl. ring.
  - rewrite IH. unfold idx_moment. cbn [idx_moment_from]. rewrite idx_moment_shift, qn_0. fold (idx_moment ws). ring.
Qed.

Lemma sumQ_const {A} (h : Qc) (l : list A) : sumQ (map (fun _ => h) l) = qn (length l) * h.
Proof. induction l as [|x l IH]; simpl length; [simpl; rewrite qn_0; ring | rewrite qn_S; simpl; rewrite IH; ring]. Qed.

Lemma chain_left_lt_right : forall c, c <> [] -> chain c -> Forall (fun s => sl_l s < sl_r s) c ->
  container_left c < container_right c.
Proof.
  induction c as [|s c IH]; intros Hne Hc Hl; [congruence|].
  apply Forall_cons_iff in Hl. destruct Hl as [Hs Hl']. destruct c as [|s2 c]; [exact Hs|].
  destruct Hc as [E Hc]. rewrite container_right_cons.
  apply Qclt_trans with (sl_r s); [exact Hs|]. rewrite E. exact (IH ltac:(discriminate) Hc Hl').
Qed.

Theorem multi_container_sums lo sv K h c cs :
  length c = (2 ^ K)%nat -> (1 <= K)%nat -> chain c -> Forall (fun s => sl_width s = h) c ->
  Forall (fun s => sl_l s < sl_r s) c ->
  container_final_from lo sv CV_Default c = Some cs ->
  wsum cs = container_right c - container_left c /\ wmom cs = half_sq (container_left c) (container_right c).
Proof.
  intros HL HK Hc Hw Hlt H.
  assert (P : (2 <= 2 ^ K)%nat).
  { destruct K as [|K']; [lia|]. rewrite Nat.pow_succ_r'. assert (1 <= 2 ^ K')%nat by (apply Nat.neq_0_lt_0, Nat.pow_nonzero; lia). lia. }
  assert (Hne : c <> []) by (intro E; rewrite E in HL; simpl in HL; lia).
  destruct (container_grid_arith h c Hne Hc Hw) as [G R].
  assert (Hab : container_left c <> container_right c).
  { apply Qclt_not_eq. exact (chain_left_lt_right c Hne Hc Hlt). }
  set (a := container_left c) in *. set (b := container_right c) in *.
  set (n := S (length c)).
  assert (Hn : length (container_grid c) = n) by (rewrite G, arith_length; reflexivity).
  set (g := fun i : nat => if Nat.eqb i 0 || Nat.eqb i (n - 1) then boundaryW a b K
                           else innerW a b K (nth i (normalized_levels n) 0%nat)).
  (* unfold the model *)
  assert (E : container_final_from lo sv CV_Default c =
              Some (map (fun i => (nthQ (container_grid c) i, g i)) (seq 0 n))).
  { destruct c as [|s1 [|s2 c']]; [congruence | simpl in HL; lia |].
    unfold container_final_from. fold a b. rewrite Hn.
    assert (NL : normalized_levels n = [0%nat] ++ full_levels K 1 ++ [0%nat]).
    { unfold n. rewrite HL. apply normalized_levels_full. exact HK. }
    assert (M : list_max (normalized_levels n) = K).
    { rewrite NL, !list_max_app, full_levels_max by exact HK. simpl. lia. }
    rewrite M. apply opt_list_all. intros i Hi. apply in_seq in Hi. unfold g.
    destruct (Nat.eqb i 0 || Nat.eqb i (n - 1)) eqn:Eb; [reflexivity|].
    apply orb_false_elim in Eb. destruct Eb as [E0 E1]. apply Nat.eqb_neq in E0. apply Nat.eqb_neq in E1.
    assert (Hr : (1 <= nth i (normalized_levels n) 0 <= K)%nat).
    { rewrite NL. cbn [app]. destruct i as [|i']; [lia|]. cbn [nth].
      assert (Li : (i' < length (full_levels K 1))%nat) by (rewrite full_levels_length; unfold n in *; lia).
      rewrite app_nth1 by exact Li.
      assert (I := full_levels_range K 1 _ (nth_In _ 0%nat Li)). lia. }
    unfold trap_inner_weight.
    destruct (Nat.leb_spec 1 (nth i (normalized_levels n) 0%nat)) as [_|C]; [|lia].
    destruct (Nat.leb_spec (nth i (normalized_levels n) 0%nat) K) as [_|C]; [|lia].
    reflexivity. }
  assert (Ecs : cs = map (fun i => (nthQ (container_grid c) i, g i)) (seq 0 n)) by congruence.
  clear H E. subst cs.
  rewrite wsum_map_pair, wmom_map_pair.
  (* the weight list *)
  assert (W : map g (seq 0 n) = [boundaryW a b K] ++ map (innerW a b K) (full_levels K 1) ++ [boundaryW a b K]).
  { assert (NL : normalized_levels n = [0%nat] ++ full_levels K 1 ++ [0%nat]).
    { unfold n. rewrite HL. apply normalized_levels_full. exact HK. }
    assert (Ln : n = S (S (length (full_levels K 1)))) by (rewrite full_levels_length; unfold n; lia).
    rewrite Ln at 1. rewrite seq_S. change (seq 0 (S (length (full_levels K 1)))) with (0%nat :: seq 1 (length (full_levels K 1))).
    rewrite map_app. cbn [map app].
    assert (Mid : map g (seq 1 (length (full_levels K 1))) = map (innerW a b K) (full_levels K 1)).
    { rewrite <- seq_shift, map_map.
      rewrite <- (map_nth_seq (innerW a b K) (full_levels K 1) 0%nat). apply map_ext_in. intros i Hi. apply in_seq in Hi.
      unfold g. destruct (Nat.eqb_spec (S i) 0) as [C|_]; [lia|]. destruct (Nat.eqb_spec (S i) (n - 1)) as [C|_]; [lia|].
      cbn [orb]. rewrite NL. cbn [app nth]. rewrite app_nth1 by lia. reflexivity. }
    assert (Last : g (0 + S (length (full_levels K 1)))%nat = boundaryW a b K).
    { unfold g. replace (0 + S (length (full_levels K 1)))%nat with (n - 1)%nat by lia.
      rewrite Nat.eqb_refl, orb_true_r. reflexivity. }
    rewrite Mid, Last. reflexivity. }
  assert (S1 : sumQ (map g (seq 0 n)) = b - a).
  { rewrite W, !sumQ_app. simpl sumQ. rewrite <- (full_grid_weight_sum a b K Hab HK). ring. }
  split; [exact S1|].
  assert (Hrev : rev (map g (seq 0 n)) = map g (seq 0 n)).
  { rewrite W, !rev_app_distr, <- map_rev, full_levels_rev. cbn [rev app]. reflexivity. }
  assert (Lw : length (map g (seq 0 n)) = n) by (rewrite map_length, seq_length; reflexivity).
  assert (Gx : map (nthQ (container_grid c)) (seq 0 n) = container_grid c).
  { transitivity (map (fun x : Qc => x) (container_grid c)); [|apply map_id].
    rewrite <- Hn. exact (map_nth_seq (fun x : Qc => x) (container_grid c) 0). }
  rewrite Gx, G. fold n. rewrite <- Lw at 1.
  rewrite dot_arith.
  assert (J := idx_moment_palindrome _ Hrev). rewrite Lw in J.
  assert (Qn : qn n - 1 = qn (length c)). { unfold n. rewrite qn_S. ring. }
  rewrite Qn, S1 in J. rewrite S1. unfold half_sq.
  assert (J2 : idx_moment (map g (seq 0 n)) = Qchalf * (qn (length c) * (b - a))).
  { transitivity (Qchalf * ((1 + 1) * idx_moment (map g (seq 0 n)))); [qc_consts; field; exact two_neq0|].
    rewrite J. reflexivity. }
  rewrite J2, R. qc_consts. field. exact two_neq0.
Qed.

(* ---------------------------------------------------------------------------------------------- *)
(* Part A: structure of the containers *)

Lemma chain_app_inv a b : chain (a ++ b) -> chain a /\ chain b.
Proof.
  induction a as [|s a IH]; intro H; [split; [exact I | exact H]|].
  destruct a as [|s2 a].
  - cbn [app] in H. split; [exact I|]. destruct b as [|s3 b]; [exact I | exact (proj2 H)].
  - change ((s :: s2 :: a) ++ b) with (s :: s2 :: (a ++ b)) in H. destruct H as [E H].
    destruct (IH H) as [A B]. split; [split; assumption | exact B].
Qed.

Lemma chain_sums : forall c, c <> [] -> chain c ->
  sumQ (map sl_width c) = container_right c - container_left c /\
  sumQ (map (fun s => half_sq (sl_l s) (sl_r s)) c) = half_sq (container_left c) (container_right c).
Proof.
  induction c as [|s c IH]; intros Hne Hc; [congruence|].
  destruct c as [|s2 c].
  - unfold container_left, container_right, sl_width, half_sq. simpl. split; ring.
  - destruct Hc as [E Hc]. destruct (IH ltac:(discriminate) Hc) as [A B].
    rewrite container_right_cons. change (container_left (s :: s2 :: c)) with (sl_l s).
    change (container_left (s2 :: c)) with (sl_l s2) in *.
    cbn [map sumQ] in *. rewrite A, B. unfold sl_width, half_sq. rewrite <- E. split; ring.
Qed.

Lemma opt_list_Forall2 {A B} (f : A -> option B) l ys :
  opt_list (map f l) = Some ys -> Forall2 (fun x y => f x = Some y) l ys.
Proof.
  revert ys. induction l as [|x l IH]; intros ys H; simpl in H.
  - assert (ys = []) by congruence. subst. constructor.
  - destruct (f x) as [y|] eqn:E; [|discriminate]. destruct (opt_list (map f l)) as [ys'|]; [|discriminate].
    assert (ys = y :: ys') by congruence. subst. constructor; [exact E | apply IH; reflexivity].
Qed.

Lemma make_slice_lt grid levels a b i s : make_slice grid levels a b i = Some s -> sl_l s < sl_r s.
Proof.
  unfold make_slice. destruct (Qc_eqb _ _); [|discriminate].
  match goal with |- context [slice_ok ?x] => destruct (slice_ok x) eqn:E end; [|discriminate].
  intro H. injection H as <-.
  unfold slice_ok in E. apply andb_prop in E. destruct E as [E _]. apply Qc_ltb_lt in E. exact E.
Qed.

Lemma slices_chain grid levels a b : forall k st ys,
  Forall2 (fun i s => make_slice grid levels a b i = Some s) (seq st k) ys -> chain ys /\ Forall (fun s => sl_l s < sl_r s) ys.
Proof.
  induction k as [|k IH]; intros st ys H; simpl in H.
  - inversion H. split; [exact I | constructor].
  - inversion H as [|i s l' ys' Hs Hr]; subst. destruct (IH (S st) ys' Hr) as [C L].
    split; [|constructor; [exact (make_slice_lt _ _ _ _ _ _ Hs) | exact L]].
    destruct ys' as [|s2 ys'']; [exact I|]. split; [|exact C].
    destruct k as [|k']; simpl in Hr; inversion Hr as [|? ? ? ? Hs2 _]; subst.
    rewrite (proj2 (make_slice_ends _ _ _ _ _ _ Hs)), (proj1 (make_slice_ends _ _ _ _ _ _ Hs2)). reflexivity.
Qed.

Lemma init_grid_slices_chain grid levels slices :
  init_grid_slices grid levels = Some slices -> chain slices /\ Forall (fun s => sl_l s < sl_r s) slices.
Proof. unfold init_grid_slices. intro H. apply opt_list_Forall2 in H. exact (slices_chain _ _ _ _ _ _ _ H). Qed.

(* powers of two *)
Definition is_power2 (n : nat) : Prop := exists K, n = (2 ^ K)%nat.

Lemma is_pow2_fuel_sound fuel : forall n, is_pow2_fuel fuel n = true -> is_power2 n.
Proof.
  induction fuel as [|f IH]; intros n H; [discriminate|]. cbn [is_pow2_fuel] in H.
  destruct (Nat.eqb_spec n 1%nat) as [E1|_]; [exists 0%nat; exact E1|].
  destruct (Nat.even n) eqn:Ev; [|discriminate]. destruct (Nat.eqb n 0); [discriminate|]. cbn [andb negb] in H.
  destruct (IH _ H) as [K HK]. exists (S K). rewrite Nat.pow_succ_r', <- HK.
  assert (D := Nat.div2_odd n). rewrite <- Nat.negb_even, Ev in D. simpl in D. lia.
Qed.
Lemma is_pow2_sound n : is_pow2 n = true -> is_power2 n.
Proof. apply is_pow2_fuel_sound. Qed.

Lemma pow2_below_fuel_spec fuel : forall n p, is_power2 p -> (1 <= p <= n)%nat ->
  is_power2 (pow2_below_fuel fuel n p) /\ (1 <= pow2_below_fuel fuel n p <= n)%nat.
Proof.
  induction fuel as [|f IH]; intros n p Hp Hr; [split; assumption|]. cbn [pow2_below_fuel].
  destruct (Nat.leb_spec (2 * p) n) as [L|_]; [|split; assumption].
  apply IH; [|lia]. destruct Hp as [K ->]. exists (S K). rewrite Nat.pow_succ_r'. reflexivity.
Qed.
Lemma pow2_below_spec n : (1 <= n)%nat -> is_power2 (pow2_below n) /\ (1 <= pow2_below n <= n)%nat.
Proof. intro H. apply pow2_below_fuel_spec; [exists 0%nat; reflexivity | lia]. Qed.

(* what we know about every container *)
Definition uniform (c : list slice) : Prop := c <> [] /\ exists h, Forall (fun s => sl_width s = h) c.
Definition uniform2 (c : list slice) : Prop := uniform c /\ is_power2 (length c).

Lemma group_aux_spec unit : forall rest cur curw,
  cur <> [] -> Forall (fun s => sl_width s = curw) cur ->
  concat (group_aux unit cur curw rest) = rev cur ++ rest /\ Forall uniform (group_aux unit cur curw rest).
Proof.
  induction rest as [|s r IH]; intros cur curw Hne Hw; cbn [group_aux].
  - split; [simpl; rewrite !app_nil_r; reflexivity|]. constructor; [|constructor].
    split; [intro E; apply Hne; rewrite <- (rev_involutive cur), E; reflexivity|].
    exists curw. apply Forall_rev. exact Hw.
  - destruct (unit || negb (Qc_eqb (sl_width s) curw)) eqn:E.
    + destruct (IH [s] (sl_width s) ltac:(discriminate) ltac:(constructor; [reflexivity | constructor])) as [A B].
      split; [cbn [concat]; rewrite A; reflexivity|]. constructor; [|exact B].
      split; [intro E2; apply Hne; rewrite <- (rev_involutive cur), E2; reflexivity|].
      exists curw. apply Forall_rev. exact Hw.
    + apply orb_false_elim in E. destruct E as [_ E]. apply negb_false_iff in E. apply Qc_eqb_eq in E.
      destruct (IH (s :: cur) curw ltac:(discriminate) ltac:(constructor; assumption)) as [A B].
      split; [rewrite A; cbn [rev]; rewrite <- app_assoc; reflexivity | exact B].
Qed.

Lemma initial_containers_spec g slices :
  concat (initial_containers g slices) = slices /\ Forall uniform (initial_containers g slices).
Proof.
  destruct slices as [|s r]; [split; [reflexivity | constructor]|]. unfold initial_containers.
  apply (group_aux_spec _ r [s] (sl_width s)); [discriminate | constructor; [reflexivity | constructor]].
Qed.

Lemma Forall_firstn' {A} (P : A -> Prop) k l : Forall P l -> Forall P (firstn k l).
Proof.
  revert k. induction l as [|x l IH]; intros k H; [rewrite firstn_nil; constructor|].
  destruct k; [constructor|]. apply Forall_cons_iff in H. destruct H as [H1 H2]. simpl. constructor; [exact H1 | exact (IH k H2)].
Qed.
Lemma Forall_skipn' {A} (P : A -> Prop) k l : Forall P l -> Forall P (skipn k l).
Proof.
  revert k. induction l as [|x l IH]; intros k H; [rewrite skipn_nil; constructor|].
  destruct k; [exact H|]. apply Forall_cons_iff in H. destruct H as [H1 H2]. simpl. exact (IH k H2).
Qed.

Lemma uniform_firstn k c : uniform c -> (1 <= k)%nat -> uniform (firstn k c).
Proof.
  intros [Hne [h Hw]] Hk. split.
  - destruct c as [|s c]; [congruence|]. destruct k; [lia | discriminate].
  - exists h. apply Forall_firstn'. exact Hw.
Qed.

Lemma split_pow2_spec fuel : forall c, (length c <= fuel)%nat -> (exists h, Forall (fun s => sl_width s = h) c) ->
  concat (split_pow2 fuel c) = c /\ Forall uniform2 (split_pow2 fuel c).
Proof.
  induction fuel as [|f IH]; intros c Hl Hu.
  - destruct c; [split; [reflexivity | constructor] | simpl in Hl; lia].
  - destruct c as [|s c']; [split; [reflexivity | constructor]|].
    set (c := s :: c') in *. cbn [split_pow2].
    change (match c with [] => [] | _ :: _ => firstn (pow2_below (length c)) c :: split_pow2 f (skipn (pow2_below (length c)) c) end)
      with (firstn (pow2_below (length c)) c :: split_pow2 f (skipn (pow2_below (length c)) c)).
    destruct (pow2_below_spec (length c) ltac:(unfold c; simpl; lia)) as [P R].
    destruct Hu as [h Hw].
    destruct (IH (skipn (pow2_below (length c)) c)) as [A B].
    + rewrite skipn_length. lia.
    + exists h. apply Forall_skipn'. exact Hw.
    + split; [cbn [concat]; rewrite A; apply firstn_skipn|].
      constructor; [|exact B]. split.
      * apply uniform_firstn; [split; [discriminate | exists h; exact Hw] | lia].
      * rewrite firstn_length. replace (Nat.min (pow2_below (length c)) (length c)) with (pow2_below (length c)) by lia. exact P.
Qed.

Lemma adjust_containers_spec g cs : Forall uniform cs ->
  concat (adjust_containers g cs) = concat cs /\ Forall uniform2 (adjust_containers g cs).
Proof.
  induction cs as [|c cs IH]; intro H; [split; [reflexivity | constructor]|].
  apply Forall_cons_iff in H. destruct H as [Hc H]. destruct (IH H) as [A B].
  unfold adjust_containers in *. cbn [flat_map]. rewrite concat_app, A. cbn [concat].
  destruct (is_pow2 (length c)) eqn:E.
  - split; [simpl; rewrite app_nil_r; reflexivity|]. apply Forall_app. split; [|exact B].
    constructor; [|constructor]. split; [exact Hc | apply is_pow2_sound; exact E].
  - assert (U : concat (map (fun s => [s]) c) = c /\ Forall uniform2 (map (fun s : slice => [s]) c)).
    { clear. induction c as [|s c IHc]; [split; [reflexivity | constructor]|]. destruct IHc as [X Y].
      split; [simpl; rewrite X; reflexivity|]. constructor; [|exact Y].
      split; [split; [discriminate | exists (sl_width s); constructor; [reflexivity | constructor]] | exists 0%nat; reflexivity]. }
    destruct g.
    + destruct U as [X Y]. split; [rewrite X; reflexivity | apply Forall_app; split; assumption].
    + destruct U as [X Y]. split; [rewrite X; reflexivity | apply Forall_app; split; assumption].
    + destruct (split_pow2_spec (length c) c (le_n _) (proj2 Hc)) as [X Y].
      split; [rewrite X; reflexivity | apply Forall_app; split; assumption].
Qed.

Lemma chain_concat cs : chain (concat cs) -> Forall chain cs.
Proof.
  induction cs as [|c cs IH]; intro H; [constructor|]. cbn [concat] in H.
  apply chain_app_inv in H. destruct H as [A B]. constructor; [exact A | exact (IH B)].
Qed.

Lemma Forall_concat_inv {A} (P : A -> Prop) (cs : list (list A)) : Forall P (concat cs) -> Forall (Forall P) cs.
Proof.
  induction cs as [|c cs IH]; intro H; [constructor|]. cbn [concat] in H.
  apply Forall_app in H. destruct H as [A1 B]. constructor; [exact A1 | exact (IH B)].
Qed.

(* ---------------------------------------------------------------------------------------------- *)
(* every container contributes its own width / first moment *)

Lemma container_sums lo sv c cs :
  uniform2 c -> chain c -> Forall (fun s => sl_l s < sl_r s) c ->
  container_final_from lo sv CV_Default c = Some cs ->
  wsum cs = sumQ (map sl_width c) /\ wmom cs = sumQ (map (fun s => half_sq (sl_l s) (sl_r s)) c).
Proof.
  intros [[Hne [h Hw]] [K HK]] Hc Hlt H.
  destruct (chain_sums c Hne Hc) as [S1 S2]. rewrite S1, S2.
  destruct K as [|K'].
  - (* one slice *)
    destruct c as [|s [|s2 c']]; [congruence | | simpl in HK; lia].
    change (container_final_from lo sv CV_Default [s]) with (slice_final sv s) in H.
    destruct (slice_final_sums sv s cs H) as [A B]. rewrite A, B.
    unfold container_left, container_right, sl_width. simpl. split; reflexivity.
  - exact (multi_container_sums lo sv (S K') h c cs HK ltac:(lia) Hc Hw Hlt H).
Qed.

(* MAIN: every grouping, both slice versions, default containers, with or without forced balancing *)
Theorem sliced_weights_consistent lo g sv force grid levels r :
  extrapolation_grid_from lo g sv CV_Default force grid levels = Some r ->
  sumQ (er_weights r) = grid_b r - grid_a r /\ wmom (er_dict r) = half_sq (grid_a r) (grid_b r).
Proof.
  unfold extrapolation_grid_from.
  destruct (Nat.eqb (length grid) (length levels) && (2 <=? length grid)%nat); [|discriminate].
  destruct (if force then _ else _) as [[gr lv]|]; [|discriminate].
  destruct (init_grid_slices gr lv) as [slices|] eqn:Es; [|discriminate].
  destruct (opt_concat _) as [cs|] eqn:Ec; [|discriminate].
  intro H. assert (Er : r = mkExt gr lv (map (@length slice) (adjust_containers g (initial_containers g slices))) (dict_of cs)) by congruence.
  clear H. subst r. unfold er_weights, grid_a, grid_b. cbn [er_dict er_grid].
  destruct (initial_containers_spec g slices) as [I1 I2].
  destruct (adjust_containers_spec g _ I2) as [A1 A2]. rewrite I1 in A1.
  destruct (init_grid_slices_chain gr lv slices Es) as [C L].
  set (conts := adjust_containers g (initial_containers g slices)) in *.
  assert (FC : Forall chain conts) by (apply chain_concat; rewrite A1; exact C).
  assert (FL : Forall (Forall (fun s => sl_l s < sl_r s)) conts) by (apply Forall_concat_inv; rewrite A1; exact L).
  assert (S : wsum cs = sumQ (map sl_width (concat conts)) /\
              wmom cs = sumQ (map (fun s => half_sq (sl_l s) (sl_r s)) (concat conts))).
  { clear A1 I1 I2 Es C L. revert cs Ec. induction conts as [|c conts IH]; intros cs Ec.
    - simpl in Ec. assert (cs = []) by congruence. subst. split; reflexivity.
    - cbn [map opt_concat] in Ec.
      destruct (container_final_from lo sv CV_Default c) as [y|] eqn:Ey; [|discriminate].
      destruct (opt_concat (map (container_final_from lo sv CV_Default) conts)) as [ys|] eqn:Eys; [|discriminate].
      assert (cs = y ++ ys) by congruence. subst cs.
      apply Forall_cons_iff in A2. destruct A2 as [U A2]. apply Forall_cons_iff in FC. destruct FC as [Cc FC].
      apply Forall_cons_iff in FL. destruct FL as [Lc FL].
      destruct (container_sums lo sv c y U Cc Lc Ey) as [P1 P2].
      destruct (IH A2 FC FL ys eq_refl) as [Q1 Q2].
      cbn [concat]. rewrite wsum_app, wmom_app, !map_app, !sumQ_app, P1, P2, Q1, Q2. split; reflexivity. }
  destruct S as [S1 S2]. rewrite A1 in S1, S2.
  destruct (slices_tile gr lv slices Es) as [T1 T2].
  rewrite <- wsum_sumQ, dict_of_wsum, dict_of_wmom, S1, S2, T1, T2. split; reflexivity.
Qed.
