(* C10 — towards "tree recursion = level loop for ALL trees": the pure list facts about the knot lists of the level loop
   (GlobalLagrangeGrid.compute_1D_quad_weights: knots = sorted(parents[parent] + [x_basis])). *)
From Coq Require Import ZArith List QArith Qcanon Bool Arith Lia.
From SG Require Import Base.QcUtil Model.Basis Model.BasisTree Proofs.BasisLagrange Proofs.BasisInterp Proofs.BasisTreeP.
Import ListNotations.
Open Scope Qc_scope.

Lemma insert_sorted_front a S : (forall y, In y S -> a < y) -> insert_sorted a S = a :: S.
Proof.
  destruct S as [|z S]; intro H; [reflexivity|]. cbn [insert_sorted].
  assert (L : Qc_leb a z = true) by (apply Qc_leb_le; apply Qclt_le_weak; apply H; left; reflexivity).
  rewrite L. reflexivity.
Qed.

(* inserting the elements of a strictly increasing prefix in front of what follows leaves the list as it is *)
Lemma fold_insert_sorted_prefix : forall A S, strictly_increasing (A ++ S) = true -> fold_right insert_sorted S A = A ++ S.
Proof.
  induction A as [|a A IH]; intros S H; [reflexivity|].
  cbn [fold_right app]. rewrite IH by exact (si_tail _ _ H).
  apply insert_sorted_front. intros y Hy. exact (strictly_increasing_lt_tail a (A ++ S) H y Hy).
Qed.

Lemma sortQ_sorted K : strictly_increasing K = true -> sortQ K = K.
Proof. intro H. unfold sortQ. rewrite <- (app_nil_r K) at 2. apply fold_insert_sorted_prefix. rewrite app_nil_r. exact H. Qed.

(* an element smaller than everything that is inserted stays in front *)
Lemma fold_insert_sorted_above x : forall B T, (forall y, In y B -> x < y) ->
  fold_right insert_sorted (x :: T) B = x :: fold_right insert_sorted T B.
Proof.
  induction B as [|b B IH]; intros T H; [reflexivity|].
  cbn [fold_right]. rewrite IH by (intros y Hy; apply H; right; exact Hy).
  cbn [insert_sorted].
  assert (L : Qc_leb b x = false).
  { destruct (Qc_leb b x) eqn:E; [|reflexivity]. apply Qc_leb_le in E. exfalso.
    exact (Qclt_not_le _ _ (H b (or_introl eq_refl)) E). }
  rewrite L. reflexivity.
Qed.

(* THE LIST LEMMA of the level loop: sorting the parent's knot list kl ++ kr with the new point x appended puts x between them *)
Theorem sortQ_parent_knots_plus_point kl x kr :
  strictly_increasing (kl ++ x :: kr) = true -> sortQ (kl ++ kr ++ [x]) = kl ++ x :: kr.
Proof.
  intro H. unfold sortQ. rewrite fold_right_app.
  assert (Hx : strictly_increasing (x :: kr) = true).
  { clear - H. induction kl as [|a kl IH]; [exact H|]. apply IH. exact (si_tail _ _ H). }
  assert (Inner : fold_right insert_sorted [] (kr ++ [x]) = x :: kr).
  { rewrite fold_right_app. cbn [fold_right insert_sorted].
    rewrite (fold_insert_sorted_above x kr []) by (intros y Hy; exact (strictly_increasing_lt_tail x kr Hx y Hy)).
    f_equal. fold (sortQ kr). apply sortQ_sorted. exact (si_tail _ _ Hx). }
  rewrite Inner. apply fold_insert_sorted_prefix. exact H.
Qed.

(* the level-1 knot lists of the level loop *)
Corollary sortQ_level1_boundary a m b : a < m -> m < b -> sortQ ([a; b] ++ [m]) = [a; m; b].
Proof.
  intros H1 H2. apply (sortQ_parent_knots_plus_point [a] m [b]).
  cbn [app strictly_increasing]. apply andb_true_iff. split; [apply Qc_ltb_lt; exact H1|].
  apply andb_true_iff. split; [apply Qc_ltb_lt; exact H2 | reflexivity].
Qed.

(* ------------------------------------------------------------------ get_parent *)
(* the scans of get_parent skip every point that is deeper than the level they look for *)
Lemma scan_parent_skip target : forall A R, (forall e, In e A -> (target < snd e)%nat) ->
  scan_parent (A ++ R) target = scan_parent R target.
Proof.
  induction A as [|[y ly] A IH]; intros R H; [reflexivity|].
  cbn [app scan_parent]. pose proof (H (y, ly) (or_introl eq_refl)) as L. cbn [snd] in L.
  destruct (Nat.eqb_spec ly target); [lia|]. destruct (Nat.ltb_spec ly target); [lia|].
  apply IH. intros e He. apply H. right. exact He.
Qed.

Lemma combine_fst_snd {A B} (l : list (A * B)) : combine (map fst l) (map snd l) = l.
Proof. induction l as [|[a b] l IH]; [reflexivity|]. cbn [map combine fst snd]. rewrite IH. reflexivity. Qed.

(* THE get_parent LEMMA on lists of the shape a refinement tree produces around a point x of level lx >= 1:
     ... (u, lu), [points deeper than lx - 1], (x, lx), [points deeper than lx - 1], (v, lv) ...   with max(lu, lv) = lx - 1:
   the backward scan skips exactly the deeper points of the own interval and stops at u; it answers u when u has level lx - 1,
   otherwise the forward scan skips the deeper points on the right and answers v - get_parent returns the DEEPER interval end *)
Theorem get_parent_deeper_end (pre L R post : list (Qc * nat)) u lu x lx v lv :
  let pl := pre ++ (u, lu) :: L ++ (x, lx) :: R ++ (v, lv) :: post in
  ~ In x (map fst (pre ++ (u, lu) :: L)) ->
  (forall e, In e L -> (lx - 1 < snd e)%nat) -> (forall e, In e R -> (lx - 1 < snd e)%nat) ->
  Nat.max lu lv = (lx - 1)%nat ->
  get_parent x (map fst pl) (map snd pl) = Some (if (lu =? lx - 1)%nat then u else v).
Proof.
  cbv zeta. intros Hx HL HR Hm.
  set (A := pre ++ (u, lu) :: L).
  assert (Epl : pre ++ (u, lu) :: L ++ (x, lx) :: R ++ (v, lv) :: post = A ++ (x, lx) :: R ++ (v, lv) :: post).
  { unfold A. rewrite <- app_assoc. reflexivity. }
  rewrite Epl. unfold get_parent. rewrite combine_fst_snd.
  rewrite map_app. cbn [map fst]. rewrite (index_of_app_fresh x (map fst A) _ Hx). rewrite map_length.
  assert (En : nth (length A) (map snd (A ++ (x, lx) :: R ++ (v, lv) :: post)) O = lx).
  { rewrite map_app. rewrite app_nth2 by (rewrite map_length; lia). rewrite map_length, Nat.sub_diag. reflexivity. }
  rewrite En. rewrite firstn_app_len.
  replace (skipn (S (length A)) (A ++ (x, lx) :: R ++ (v, lv) :: post)) with (R ++ (v, lv) :: post).
  2:{ change (A ++ (x, lx) :: R ++ (v, lv) :: post) with (A ++ [(x, lx)] ++ R ++ (v, lv) :: post).
      rewrite app_assoc. replace (S (length A)) with (length (A ++ [(x, lx)])) by (rewrite app_length; simpl; lia).
      rewrite skipn_app_len. reflexivity. }
  unfold A. rewrite rev_app_distr. cbn [rev]. rewrite <- !app_assoc. cbn [app].
  rewrite scan_parent_skip by (intros e He; apply in_rev in He; exact (HL e He)).
  cbn [scan_parent].
  destruct (Nat.eqb_spec lu (lx - 1)) as [E|E]; [reflexivity|].
  destruct (Nat.ltb_spec lu (lx - 1)) as [Lt|Ge]; [|lia].
  rewrite scan_parent_skip by exact HR. cbn [scan_parent].
  destruct (Nat.eqb_spec lv (lx - 1)); [reflexivity | lia].
Qed.
