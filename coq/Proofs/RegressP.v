(* Theorems about Model/Regress.v: smoothing matrix (coded vs gradient Gram matrix), symmetry, 1D positive
   semi-definiteness on every stripe, Opticom normalisation, soundness of the residual checker. *)
From Coq Require Import ZArith List QArith Qcanon Bool Lia Lqa.
From SG Require Import Base.QcUtil Base.PolyInt Model.Gram Model.Regress
  Proofs.GramHat Proofs.GramEntries Proofs.GramPD Proofs.GramNorm.
Import ListNotations.
Open Scope Qc_scope.

(* ------------------------------------------------------------------ the coded smoothing matrix is refuted *)
Definition qq (n : Z) (d : positive) : Qc := Q2Qc (n # d).

(* levelvec [1;2], diagonal entry of the first grid point: coded 8/3, gradient Gram matrix 10/3 *)
Theorem C_matrix_refuted : exists lv iv jv, C_val true lv iv jv <> C_val false lv iv jv.
Proof.
  exists [1; 2]%Z, [1; 1]%Z, [1; 1]%Z. intro H. apply Qc_eq_Qeq in H. vm_compute in H. discriminate.
Qed.

Lemma C_matrix_refuted_values :
  C_val true [1; 2]%Z [1; 1]%Z [1; 1]%Z = qq 8 3 /\ C_val false [1; 2]%Z [1; 1]%Z [1; 1]%Z = qq 10 3.
Proof. split; apply Qc_is_canon; vm_compute; reflexivity. Qed.

(* dimension-wise: stripe [0, 1/4, 1/2, 3/4, 1], hats at 1/4 and 3/4 (supports only touch): coded -2, true 0 *)
Theorem C_matrix_dw_refuted : exists ti tj, C_val_dw_coded ti tj <> C_val_dw_spec ti tj.
Proof.
  exists [mkH (qq 0 1) (qq 1 4) (qq 1 2)], [mkH (qq 1 2) (qq 3 4) (qq 1 1)].
  intro H. apply Qc_eq_Qeq in H. vm_compute in H. discriminate.
Qed.

(* ------------------------------------------------------------------ ... but correct for isotropic level vectors *)
Lemma C_prod_iso l k : forall lv m iv jv, Forall (eq l) lv ->
  C_prod true l k m lv iv jv = C_prod false l k m lv iv jv.
Proof.
  induction lv as [|l' lv IH]; intros m iv jv Hl; [reflexivity|].
  destruct iv as [|i iv]; [reflexivity|]. destruct jv as [|j jv]; [reflexivity|].
  inversion Hl as [|? ? E Hl']; subst. cbn [C_prod].
  rewrite (IH (S m) iv jv Hl'). reflexivity.
Qed.

Theorem C_coded_correct_if_isotropic l lv iv jv : Forall (eq l) lv -> C_val true lv iv jv = C_val false lv iv jv.
Proof.
  intro Hl. unfold C_val. f_equal. apply map_ext_in. intros k Hk. apply in_seq in Hk.
  assert (E : nth k lv 0%Z = l).
  { rewrite Forall_forall in Hl. symmetry. apply Hl. apply nth_In. lia. }
  rewrite E. rewrite C_prod_iso by exact Hl. reflexivity.
Qed.

(* ------------------------------------------------------------------ symmetry of the entry functions *)
Lemma grad_term_sym l i j : grad_term l i j = grad_term l j i.
Proof. unfold grad_term. rewrite (Z.eqb_sym j i). replace (Z.abs (i - j)) with (Z.abs (j - i)) by lia. reflexivity. Qed.
Lemma mass_term_sym l i j : mass_term l i j = mass_term l j i.
Proof. unfold mass_term. rewrite (Z.eqb_sym j i). replace (Z.abs (i - j)) with (Z.abs (j - i)) by lia. reflexivity. Qed.

Lemma C_prod_sym coded lk k : forall lv m iv jv, C_prod coded lk k m lv iv jv = C_prod coded lk k m lv jv iv.
Proof.
  induction lv as [|l lv IH]; intros m iv jv; [reflexivity|].
  destruct iv as [|i iv]; destruct jv as [|j jv]; try reflexivity.
  cbn [C_prod]. rewrite (grad_term_sym l i j), (mass_term_sym _ i j), (IH (S m) iv jv). reflexivity.
Qed.

Theorem C_symmetric coded lv iv jv : C_val coded lv iv jv = C_val coded lv jv iv.
Proof. unfold C_val. f_equal. apply map_ext. intro k. rewrite C_prod_sym. reflexivity. Qed.

Theorem C_matrix_symmetric coded lv :
  symmetricM (length (index_list lv)) (C_matrix_uniform coded lv).
Proof. apply sym_matrix_symmetric. Qed.

Theorem C_matrix_dw_symmetric stripes :
  symmetricM (length (grid_hats stripes)) (C_matrix_dw_spec stripes) /\
  symmetricM (length (grid_hats stripes)) (C_matrix_dw_coded stripes).
Proof. split; apply sym_matrix_symmetric. Qed.

(* ------------------------------------------------------------------ gradient Gram entries = formal integrals *)
(* the slopes are the derivatives of the two polynomial branches of the hat *)
Lemma slope_is_derivative t :
  pderiv (hat_left_poly t) = hat_left_slope t /\ pderiv (hat_right_poly t) = hat_right_slope t.
Proof.
  unfold hat_left_poly, hat_right_poly, hat_left_slope, hat_right_slope, pderiv. cbn [pderiv_from].
  rewrite qc_of_pos_1. split; f_equal; ring.
Qed.

Theorem grad_same_is_integral t : proper t ->
  grad1_spec t t = pintegral (pmul (hat_left_slope t) (hat_left_slope t)) (h_lo t) (h_p t)
                 + pintegral (pmul (hat_right_slope t) (hat_right_slope t)) (h_p t) (h_hi t).
Proof.
  intros [Hl Hr]. unfold grad1_spec. rewrite Qc_eqb_refl.
  pose proof (Qc_pos_nz _ (sub_pos _ _ Hl)) as Hdl. pose proof (Qc_pos_nz _ (sub_pos _ _ Hr)) as Hdr.
  unfold pintegral, panti, hat_left_slope, hat_right_slope.
  cbn [pmul padd pscale map panti_from peval Pos.succ]. rewrite ?qc_of_pos_1, ?qc_of_pos_2. field.
  repeat split; first [assumption | (let E := fresh "E" in intro E; apply Qc_eq_Qeq in E; discriminate)].
Qed.

Theorem grad_adjacent_is_integral ti tj : h_p ti < h_p tj -> h_hi ti = h_p tj -> h_lo tj = h_p ti ->
  grad1_spec ti tj = pintegral (pmul (hat_right_slope ti) (hat_left_slope tj)) (h_p ti) (h_p tj).
Proof.
  intros H E1 E2. unfold grad1_spec, adjacent1.
  assert (N : Qc_eqb (h_p ti) (h_p tj) = false).
  { apply Qc_eqb_false. intro E. apply (Qc_lt_neq _ _ H). symmetry. exact E. }
  rewrite N. rewrite <- E1, Qc_eqb_refl. cbn [orb].
  rewrite E1. rewrite (Qc_abs_neg_eq (h_p ti - h_p tj)) by qc_order.
  pose proof (Qc_pos_nz _ (sub_pos _ _ H)) as Hd.
  unfold pintegral, panti, hat_left_slope, hat_right_slope. rewrite E2.
  cbn [pmul padd pscale map panti_from peval Pos.succ]. rewrite ?qc_of_pos_1, ?qc_of_pos_2.
  rewrite <- E1 in *. field.
  repeat split; first [assumption | (let E := fresh "E" in intro E; apply Qc_eq_Qeq in E; discriminate)
                       | (intro E; apply Hd; rewrite <- E; ring)].
Qed.

(* uniform grids: the coded factors 2^(l+1) and -2^l are these integrals on the uniform hats *)
Theorem grad_term_uniform l i : (0 <= l)%Z ->
  grad_term l i i = Some (grad1_spec (uniform_dom l i) (uniform_dom l i)) /\
  grad_term l i (i + 1) = Some (grad1_spec (uniform_dom l i) (uniform_dom l (i + 1))).
Proof.
  intro Hl. pose proof (pow2z_pos l) as Hs. pose proof (Qc_pos_nz _ Hs) as Hnz.
  assert (P1 : pow2z (l + 1) = (1 + 1) * pow2z l).
  { replace l with (l + 1 - 1)%Z at 2 by lia. apply pow2z_succ. lia. }
  split.
  - unfold grad_term. rewrite Z.eqb_refl. f_equal. unfold grad1_spec. rewrite Qc_eqb_refl.
    unfold uniform_dom; cbn [h_lo h_p h_hi]. rewrite P1. field.
    split; [exact Hnz | apply plus1_minus_nz].
  - unfold grad_term.
    assert (A : (i =? i + 1)%Z = false) by (apply Z.eqb_neq; lia). rewrite A.
    assert (B : (1 <? Z.abs (i + 1 - i))%Z = false) by (apply Z.ltb_ge; lia). rewrite B. f_equal.
    unfold grad1_spec, adjacent1, uniform_dom; cbn [h_lo h_p h_hi].
    assert (Hlt : qc_of_Z i / pow2z l < qc_of_Z (i + 1) / pow2z l).
    { apply div_lt_mono; [exact Hs|]. rewrite qc_of_Z_add, qc_of_Z_1. qc_order. }
    assert (N : Qc_eqb (qc_of_Z i / pow2z l) (qc_of_Z (i + 1) / pow2z l) = false).
    { apply Qc_eqb_false. intro E. apply (Qc_lt_neq _ _ Hlt). symmetry. exact E. }
    rewrite N.
    assert (Adj : Qc_eqb (qc_of_Z (i + 1) / pow2z l) ((qc_of_Z i + 1) / pow2z l) = true).
    { apply Qc_eqb_eq. rewrite qc_of_Z_add, qc_of_Z_1. reflexivity. }
    rewrite Adj. cbn [orb]. rewrite Qc_abs_neg_eq by qc_order.
    rewrite qc_of_Z_add, qc_of_Z_1. field. split; [exact Hnz|].
    assert (X : forall c one : Qc, one <> 0 -> - (c - (c + one)) <> 0).
    { intros c one Hone E. apply Hone. rewrite <- E. ring. }
    apply X. intro E. apply Qc_eq_Qeq in E. discriminate.
Qed.

(* ------------------------------------------------------------------ 1D: positive semi-definite on EVERY stripe *)
(* sum over the cells of (v_{k+1} - v_k)^2 / h_k ; vs holds one value per stripe coordinate *)
Fixpoint gradform (xs vs : list Qc) : Qc :=
  match xs, vs with
  | x0 :: xs', v0 :: vs' =>
      match xs', vs' with
      | x1 :: _, v1 :: _ => (v1 - v0) * (v1 - v0) / (x1 - x0) + gradform xs' vs'
      | _, _ => 0
      end
  | _, _ => 0
  end.

Lemma gradform_cons2 x0 x1 xs w0 w1 w :
  gradform (x0 :: x1 :: xs) (w0 :: w1 :: w) = (w1 - w0) * (w1 - w0) / (x1 - x0) + gradform (x1 :: xs) (w1 :: w).
Proof. reflexivity. Qed.

Lemma C_dw_spec_1d t u : C_val_dw_spec [t] [u] = grad1_spec t u.
Proof. unfold C_val_dw_spec. cbn [dw_terms map2 prodQ]. ring. Qed.

Lemma grad_first_row x0 x1 x2 rest v : strictly_inc (x0 :: x1 :: x2 :: rest) ->
  dotQ (map (C_val_dw_spec [mkH x0 x1 x2]) (pts1 (x1 :: x2 :: rest))) v
  = match rest, v with x3 :: _, v0 :: _ => - (1 / (x2 - x1)) * v0 | _, _ => 0 end.
Proof.
  intros [H01 [H12 Hs]]. unfold pts1. destruct rest as [|x3 rest]; [reflexivity|].
  cbn [windows map]. destruct v as [|v0 v]; [reflexivity|]. cbn [dotQ].
  rewrite map_map.
  rewrite (dotQ_zero_row (fun u => C_val_dw_spec [mkH x0 x1 x2] [u])).
  - rewrite C_dw_spec_1d. unfold grad1_spec, adjacent1; cbn [h_lo h_p h_hi].
    assert (N : Qc_eqb x1 x2 = false).
    { apply Qc_eqb_false. intro E. apply (Qc_lt_neq _ _ H12). symmetry. exact E. }
    rewrite N, Qc_eqb_refl. cbn [orb]. rewrite Qc_abs_neg_eq by qc_order.
    replace (- (x1 - x2)) with (x2 - x1) by ring. ring.
  - intros u Hu. rewrite C_dw_spec_1d. pose proof (windows_p_gt x2 (x3 :: rest) Hs u Hu) as Hgt.
    unfold grad1_spec, adjacent1; cbn [h_lo h_p h_hi].
    assert (N1 : Qc_eqb x1 (h_p u) = false) by (apply Qc_eqb_false; intro E; rewrite <- E in Hgt; qc_order).
    assert (N2 : Qc_eqb (h_p u) x2 = false) by (apply Qc_eqb_false; intro E; rewrite E in Hgt; qc_order).
    assert (N3 : Qc_eqb (h_p u) x0 = false) by (apply Qc_eqb_false; intro E; rewrite E in Hgt; qc_order).
    rewrite N1, N2, N3. reflexivity.
Qed.

Lemma grad_diag_entry x0 x1 x2 :
  C_val_dw_spec [mkH x0 x1 x2] [mkH x0 x1 x2] = 1 / (x1 - x0) + 1 / (x2 - x1).
Proof. rewrite C_dw_spec_1d. unfold grad1_spec; cbn [h_lo h_p h_hi]. rewrite Qc_eqb_refl. reflexivity. Qed.

Theorem grad_quad_is_cell_sum xs : strictly_inc xs -> forall v, length v = length (windows xs) ->
  quad (sym_matrix C_val_dw_spec 0 (pts1 xs)) v = gradform xs (0 :: v ++ [0]).
Proof.
  induction xs as [|x0 xs IH]; intros Hs v Hl.
  - destruct v; [|discriminate]. cbn. ring.
  - destruct xs as [|x1 [|x2 rest]].
    + destruct v; [|discriminate]. cbn. ring.
    + destruct v; [|discriminate]. cbn. unfold Qcdiv. ring.
    + destruct v as [|a v]; [discriminate|].
      change (windows (x0 :: x1 :: x2 :: rest)) with (mkH x0 x1 x2 :: windows (x1 :: x2 :: rest)) in Hl.
      cbn [length] in Hl. injection Hl as Hl.
      unfold pts1.
      change (windows (x0 :: x1 :: x2 :: rest)) with (mkH x0 x1 x2 :: windows (x1 :: x2 :: rest)). cbn [map].
      rewrite quad_step by (rewrite map_length; exact Hl).
      fold (pts1 (x1 :: x2 :: rest)).
      assert (Hs' : strictly_inc (x1 :: x2 :: rest)) by apply Hs.
      rewrite (IH Hs' v Hl).
      rewrite grad_first_row by exact Hs.
      destruct Hs as [H01 [H12 Hs2]].
      rewrite grad_diag_entry.
      pose proof (Qc_pos_nz _ (sub_pos _ _ H01)) as D01. pose proof (Qc_pos_nz _ (sub_pos _ _ H12)) as D12.
      destruct rest as [|x3 rest].
      * destruct v; [|discriminate]. cbn [app gradform dotQ]. field. split; assumption.
      * destruct v as [|v0 v]; [discriminate|].
        change ((a :: v0 :: v) ++ [0]) with (a :: v0 :: (v ++ [0])).
        change ((v0 :: v) ++ [0]) with (v0 :: (v ++ [0])).
        rewrite !gradform_cons2. field. split; assumption.
Qed.

Lemma gradform_nonneg xs : strictly_inc xs -> forall w, 0 <= gradform xs w.
Proof.
  induction xs as [|x0 xs IH]; intros Hs w; [apply Qcle_refl|].
  destruct w as [|w0 w]; [apply Qcle_refl|].
  destruct xs as [|x1 xs]; [apply Qcle_refl|]. destruct w as [|w1 w]; [apply Qcle_refl|].
  rewrite gradform_cons2. destruct Hs as [H01 Hs].
  assert (A : 0 <= (w1 - w0) * (w1 - w0) / (x1 - x0)).
  { apply div_nonneg; [apply sub_pos; exact H01 | apply sq_nonneg]. }
  pose proof (IH Hs (w1 :: w)) as B.
  set (c := gradform (x1 :: xs) (w1 :: w)) in *. set (d := (w1 - w0) * (w1 - w0) / (x1 - x0)) in *.
  clearbody c d. clear - A B. qc_order.
Qed.

(* the gradient Gram matrix in one dimension is positive semi-definite on every strictly increasing stripe *)
Theorem C_positive_semidefinite_1d_pts xs v : strictly_inc xs -> length v = length (windows xs) ->
  0 <= quad (sym_matrix C_val_dw_spec 0 (pts1 xs)) v.
Proof. intros Hs Hl. rewrite grad_quad_is_cell_sum by assumption. apply gradform_nonneg. exact Hs. Qed.

Lemma grid_hats_1d xs : hd 0 xs = 0 -> last xs 0 = 1 -> grid_hats [xs] = pts1 xs.
Proof.
  intros H0 H1. unfold grid_hats, pts1. cbn [map cross]. rewrite (stripe_hats_windows xs H0 H1).
  induction (windows xs) as [|t ts IH]; [reflexivity|]. cbn [flat_map map app]. rewrite IH. reflexivity.
Qed.

Theorem C_positive_semidefinite_1d xs v :
  strictly_inc xs -> hd 0 xs = 0 -> last xs 0 = 1 -> length v = length (windows xs) ->
  0 <= quad (C_matrix_dw_spec [xs]) v.
Proof.
  intros Hs H0 H1 Hl. unfold C_matrix_dw_spec. rewrite grid_hats_1d by assumption.
  apply C_positive_semidefinite_1d_pts; assumption.
Qed.

(* ------------------------------------------------------------------ Opticom: the shared last step *)
Lemma sumQ_map_div (cs : list Qc) (s : Qc) : sumQ (map (fun c => c / s) cs) = sumQ cs / s.
Proof. induction cs as [|c cs IH]; [unfold Qcdiv; simpl; ring|]. cbn [map sumQ]. rewrite IH. unfold Qcdiv. ring. Qed.

(* all three variants end with coefs / sum(coefs): the returned coefficients sum to one unless the raw sum is zero *)
Theorem normalised_coefficients_sum_to_one cs : sumQ cs <> 0 -> sumQ (normalise_coefficients cs) = 1.
Proof. intro H. unfold normalise_coefficients. rewrite sumQ_map_div. field. exact H. Qed.

(* ------------------------------------------------------------------ soundness of the residual checker *)
Lemma forallb2_Forall2 {A B} (f : A -> B -> bool) a b : forallb2 f a b = true -> Forall2 (fun x y => f x y = true) a b.
Proof.
  revert b; induction a as [|x a IH]; intros [|y b] H; simpl in H; try discriminate; [constructor|].
  apply andb_true_iff in H. destruct H as [H1 H2]. constructor; [exact H1 | apply IH; exact H2].
Qed.

Theorem residual_ok_sound L r alpha tol : residual_ok L r alpha tol = true ->
  Forall2 (fun row ri => Qc_abs (dotQ row alpha - ri) <= tol * residual_scale L r alpha) L r.
Proof.
  unfold residual_ok. intro H. apply andb_true_iff in H. destruct H as [_ H].
  set (b := tol * residual_scale L r alpha) in *. clearbody b.
  apply forallb2_Forall2 in H. induction H as [|row ri L' r' Hh Ht IH]; constructor.
  - apply Qc_leb_le. exact Hh.
  - exact IH.
Qed.
