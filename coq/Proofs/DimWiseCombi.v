(* C03: the component grids of the dimension-wise strategy are tensor products of nested 1D stripes, hence (abstract
   combination lemma, Proofs/CombiAbstract.v, with IE / support / downward closure from C01) every point of the combined
   grid has component-grid coefficients summing to 1. *)
From Coq Require Import ZArith List Bool QArith Qcanon Arith Lia Sorted.
From SG Require Import Base.QcUtil Model.CombiScheme Model.RefTree Model.DimWise
     Proofs.SchemeBasics Proofs.SchemeIE Proofs.SchemeInv Proofs.CombiAbstract
     Proofs.RefTreeInv Proofs.DimWiseStripes.
Import ListNotations.
Open Scope Z_scope.

Definition dw_sub (o : dw_opts) (st : dw_state) (d : nat) : nat -> Z -> option Z :=
  fun i l => get_subtraction_value o (st_dim st) (st_lmin st) (nth d (st_lmax st) 0) (max_coarsenings st)
                                   (nth d (st_trees st) []) i d l.

Lemma stripe_dim_is_stripe o st d l : stripe_dim o st d l = stripe (dw_sub o st d) l (nth d (st_trees st) []).
Proof. reflexivity. Qed.

Definition dw_stripe_pts (o : dw_opts) (st : dw_state) (d : nat) (l : Z) : list Qc :=
  match stripe_dim o st d l with Some s => map fst s | None => [] end.

(* the 1D point set of dimension d at level l as used by get_points_component_grid *)
Definition dw_P (o : dw_opts) (st : dw_state) (d : nat) (l : Z) : list Qc :=
  if o_boundary o then dw_stripe_pts o st d l else strip_ends (dw_stripe_pts o st d l).

(* every tree is non-empty and tiles [a_d, b_d] with end levels 0 (part of WF; from DwInv or from the checker tree_ok) *)
Definition TilesOK (a b : list Qc) (st : dw_state) : Prop :=
  forall d t, nth_error (st_trees st) d = Some t -> t <> [] /\ Chain (nth d a 0%Qc) 0 t (nth d b 0%Qc) 0.

Lemma Qclt_irrefl' (x : Qc) : ~ (x < x)%Qc.
Proof. intro H. apply Qclt_not_le in H. apply H. apply Qcle_refl. Qed.

Lemma strip_ends_mid {A} (x y : A) r : strip_ends (x :: r ++ [y]) = r.
Proof. unfold strip_ends. simpl. apply removelast_last. Qed.

Lemma sorted_mid_strict a b r x : StronglySorted Qclt (a :: r ++ [b]) -> In x r -> (a < x)%Qc /\ (x < b)%Qc.
Proof.
  intros H Hx. inversion H as [|? ? Hs Ha]; subst. split.
  - rewrite Forall_forall in Ha. apply Ha. apply in_or_app. left. assumption.
  - clear Ha H. induction r as [|y r IH]; [contradiction|]. simpl in Hs. inversion Hs as [|? ? Hs' Hy]; subst.
    destruct Hx as [->|Hx]; [|apply IH; assumption].
    rewrite Forall_forall in Hy. apply Hy. apply in_or_app. right. left. reflexivity.
Qed.

Theorem dw_P_nested a b o st : TilesOK a b st -> forall d l l', l <= l' -> incl (dw_P o st d l) (dw_P o st d l').
Proof.
  intros HT d l l' Hle. unfold dw_P, dw_stripe_pts.
  destruct (stripe_dim o st d l) as [s1|] eqn:E1.
  2: { destruct (o_boundary o); intros x Hx; simpl in Hx; contradiction. }
  rewrite stripe_dim_is_stripe in E1.
  destruct (stripe_mono (dw_sub o st d) (get_subtraction_value_mono _ _ _ _ _ _ _) _ (Z.to_nat (l' - l)) l s1 E1)
    as (s2 & E2 & Hincl).
  replace (l + Z.of_nat (Z.to_nat (l' - l))) with l' in E2 by lia.
  rewrite stripe_dim_is_stripe, E2.
  assert (Hi : incl (map fst s1) (map fst s2)).
  { intros x Hx. apply in_map_iff in Hx. destruct Hx as (p & <- & Hp). apply in_map. apply Hincl. assumption. }
  destruct (o_boundary o); [assumption|].
  destruct (nth_error (st_trees st) d) as [t|] eqn:Et.
  - assert (Hn : nth d (st_trees st) [] = t) by (apply nth_error_nth; assumption).
    rewrite Hn in E1, E2. destruct (HT d t Et) as [Hne HC].
    destruct (stripe_sorted_with_endpoints _ _ _ _ _ _ Hne HC E1) as [S1 (r1 & ->)].
    destruct (stripe_sorted_with_endpoints _ _ _ _ _ _ Hne HC E2) as [S2 (r2 & ->)].
    simpl in *. rewrite !map_app in *. simpl in *. rewrite !strip_ends_mid.
    intros x Hx. destruct (sorted_mid_strict _ _ _ _ S1 Hx) as [Hax Hxb].
    assert (Hin : In x (nth d a 0%Qc :: map fst r2 ++ [nth d b 0%Qc])).
    { apply Hi. right. apply in_or_app. left. assumption. }
    destruct Hin as [<-|Hin]; [exfalso; eapply Qclt_irrefl'; eassumption|].
    apply in_app_or in Hin. destruct Hin as [Hin|[<-|[]]]; [assumption|].
    exfalso. eapply Qclt_irrefl'; eassumption.
  - apply nth_error_None in Et. rewrite nth_overflow in E1 by assumption. discriminate.
Qed.

(* ---------------------------------------------------------------------------------------------- *)
(* get_point_coord_for_each_dim / get_points_component_grid in terms of the stripes *)
Lemma opt_map_Forall2 {A B} (f : A -> option B) l : forall r, opt_map f l = Some r -> Forall2 (fun x y => f x = Some y) l r.
Proof.
  induction l as [|x l IH]; intros r H; simpl in H.
  - injection H as <-. constructor.
  - destruct (f x) as [y|] eqn:E; [|discriminate]. destruct (opt_map f l) as [r'|]; [|discriminate].
    injection H as <-. constructor; [assumption | apply IH; reflexivity].
Qed.

(* the stripe of dimension d depends only on d and on component d of the level vector *)
Theorem stripes_depend_only_on_dim_and_level o st lv ss :
  get_point_coord_for_each_dim o st lv = Some ss -> length lv = st_dim st ->
  forall d s, nth_error ss d = Some s -> stripe_dim o st d (nth d lv 0) = Some s.
Proof.
  unfold get_point_coord_for_each_dim. intros H HL. apply opt_map_Forall2 in H.
  rewrite <- HL in H. clear HL.
  assert (G : forall d0 lv0 ss0, Forall2 (fun (x : nat * Z) y => stripe_dim o st (fst x) (snd x) = Some y)
                                         (combine (seq d0 (length lv0)) lv0) ss0 ->
              forall d s, nth_error ss0 d = Some s -> stripe_dim o st (d0 + d) (nth d lv0 0) = Some s).
  { clear. intros d0 lv0. revert d0. induction lv0 as [|l lv0 IH]; intros d0 ss0 H d s Hd; simpl in H.
    - inversion H; subst. destruct d; discriminate.
    - inversion H as [|? ? ? ? H1 H2]; subst. destruct d as [|d]; simpl in Hd.
      + injection Hd as <-. rewrite Nat.add_0_r. exact H1.
      + replace (d0 + S d)%nat with (S d0 + d)%nat by lia. cbn [nth]. exact (IH (S d0) _ H2 d s Hd). }
  intros d s Hd. apply (G 0%nat lv ss H d s Hd).
Qed.

Corollary stripes_agree o st lv lv' ss ss' d s :
  get_point_coord_for_each_dim o st lv = Some ss -> get_point_coord_for_each_dim o st lv' = Some ss' ->
  length lv = st_dim st -> length lv' = st_dim st -> nth d lv 0 = nth d lv' 0 ->
  nth_error ss d = Some s -> forall s', nth_error ss' d = Some s' -> s' = s.
Proof.
  intros H H' L L' E Hs s' Hs'.
  pose proof (stripes_depend_only_on_dim_and_level _ _ _ _ H L d s Hs) as A.
  pose proof (stripes_depend_only_on_dim_and_level _ _ _ _ H' L' d s' Hs') as B.
  rewrite E in A. congruence.
Qed.

Lemma crossQ_In : forall gs x, In x (crossQ gs) <-> Forall2 (fun xi g => In xi g) x gs.
Proof.
  induction gs as [|g gs IH]; intro x; simpl.
  - split; [intros [<-|[]]; constructor | intro H; inversion H; left; reflexivity].
  - rewrite in_flat_map. split.
    + intros [x0 [H0 H]]. apply in_map_iff in H. destruct H as [x' [<- H']]. constructor; [assumption|]. apply IH. assumption.
    + intro H. inversion H as [|x0 ? x' ? H0 H']; subst. exists x0. split; [assumption|].
      apply in_map_iff. exists x'. split; [reflexivity|]. apply IH. assumption.
Qed.

Definition dw_in_comp (o : dw_opts) (st : dw_state) (x : list Qc) (l : lv) : bool :=
  in_grid Qc Qc_eqb (dw_P o st) 0 x l.

(* the points returned by get_points_component_grid are exactly the tensor product of the per-dimension point sets *)
Theorem component_points_are_tensor o st lv pts : get_points_component_grid o st lv = Some pts ->
  length lv = st_dim st -> forall x, In x pts <-> dw_in_comp o st x lv = true.
Proof.
  unfold get_points_component_grid, get_point_coord_for_each_dim, dw_in_comp. intros H HL.
  destruct (opt_map _ _) as [ss|] eqn:E; [|discriminate]. injection H as <-.
  apply opt_map_Forall2 in E. rewrite <- HL in E. clear HL.
  assert (G : forall lv0 d0 ss0, Forall2 (fun (x : nat * Z) y => stripe_dim o st (fst x) (snd x) = Some y)
                                         (combine (seq d0 (length lv0)) lv0) ss0 ->
              forall x, In x (crossQ (map (fun s => let c := map fst s in if o_boundary o then c else strip_ends c) ss0))
                        <-> in_grid Qc Qc_eqb (dw_P o st) d0 x lv0 = true).
  { clear. induction lv0 as [|l lv0 IH]; intros d0 ss0 H x; simpl in H.
    - inversion H; subst. simpl. destruct x; simpl; split; intro G; try discriminate; auto.
      destruct G as [G|[]]; discriminate.
    - inversion H as [|? s ? ss1 H1 H2]; subst. simpl in H1. cbn [map]. rewrite crossQ_In.
      destruct x as [|x0 x].
      + simpl. split; [intro G; inversion G | discriminate].
      + cbn [in_grid]. assert (EP : dw_P o st d0 l = (let c := map fst s in if o_boundary o then c else strip_ends c)).
        { unfold dw_P, dw_stripe_pts. rewrite H1. reflexivity. }
        split.
        * intro G. inversion G as [|? ? ? ? G0 G']; subst. apply andb_true_iff. split.
          -- apply (memX_In Qc Qc_eqb Qc_eqb_eq). rewrite EP. exact G0.
          -- apply (proj1 (IH (S d0) ss1 H2 x)). apply crossQ_In. exact G'.
        * intro G. apply andb_true_iff in G. destruct G as [G0 G']. constructor.
          -- apply (memX_In Qc Qc_eqb Qc_eqb_eq) in G0. rewrite EP in G0. exact G0.
          -- apply crossQ_In. apply (proj2 (IH (S d0) ss1 H2 x)). exact G'. }
  apply G. assumption.
Qed.

(* sum of the coefficients of all component grids of the current scheme that contain x *)
Definition dw_coeff_sum (o : dw_opts) (st : dw_state) (x : list Qc) : Z :=
  coeff_sum_at Qc Qc_eqb (dw_P o st) (combi_scheme_adaptive (st_scheme st)) x.

Theorem dw_point_coeff_sum_one a b o st x l0 c0 :
  Inv (st_scheme st) -> TilesOK a b st ->
  In (l0, c0) (combi_scheme_adaptive (st_scheme st)) -> dw_in_comp o st x l0 = true ->
  dw_coeff_sum o st x = 1.
Proof.
  intros HI HT Hin Hx. unfold dw_coeff_sum, dw_in_comp in *. set (s := st_scheme st) in *.
  apply (point_coeff_sum_one Qc Qc_eqb Qc_eqb_eq (dw_P o st) (s_lmin s)
           (fun d l l' _ H => dw_P_nested a b o st HT d l l' H)
           (index_set s) (combi_scheme_adaptive s) (s_dim s)) with (l0 := l0) (c0 := c0); try assumption.
  - intros g Hg. apply index_set_In in Hg. apply (inv_wf s HI g Hg).
  - intros l Ll Fl. apply scheme_inclusion_exclusion; assumption.
  - intros k c Hk. apply (scheme_support s k c HI Hk).
  - intros k j Hk Lj Fj. apply (scheme_downward_closed s HI k j); assumption.
Qed.
