(* C04, dimension-wise strategy: the state-level theorems (Proofs/DimWiseExactProofs.v, DimWiseExactInterp.v, DimWiseLinear.v)
   instantiated for EVERY reachable state of EVERY refinement history (any options, rebalancing included): the C06 invariant
   DwInv (hence TilesOK) and the C01 scheme invariant hold in every reachable state (Proofs/DimWiseTotal.v). *)
From Coq Require Import ZArith List Bool QArith Qcanon Lia Sorted Arith.
From SG Require Import Base.QcUtil Model.CombiScheme Model.RefTree.
From SG Require Import Model.StdCombi Model.Trap.
From SG Require Import Model.DimWise Model.DimWiseInterp Model.DimWiseExact Model.DimWiseFast Model.DimWiseLinMod
     Proofs.SchemeInv Proofs.DimWiseInv Proofs.DimWiseTotal Proofs.DimWiseFuel Proofs.DimWiseCombi Proofs.C03Main Proofs.DimWiseNodal
     Proofs.DimWiseExactProofs Proofs.DimWiseExactInterp Proofs.DimWiseLinear.
Import ListNotations.
Local Open Scope Qc_scope.

Lemma dw_step_dims o bens st st' : dw_step o bens st = Some st' -> st_dim st' = st_dim st /\ st_lmin st' = st_lmin st.
Proof.
  unfold dw_step. intro E.
  destruct (meta_refine_step _ _ _) as [m1|]; [|discriminate].
  destruct (if o_rebal o then _ else _) as [trees2|]; [|discriminate].
  destruct (coarsen_dims 0 trees2 _ _ _ _) as [[[trees3 lmaxs] s]|]; [|discriminate].
  injection E as <-. split; reflexivity.
Qed.

Lemma dw_run_dims o : forall steps st st', dw_run o steps st = Some st' -> st_dim st' = st_dim st /\ st_lmin st' = st_lmin st.
Proof.
  induction steps as [|bens steps IH]; intros st st' E; simpl in E.
  - injection E as <-. split; reflexivity.
  - destruct (dw_step o bens st) as [st1|] eqn:E1; [|discriminate].
    destruct (dw_step_dims _ _ _ _ E1) as [A B]. destruct (IH _ _ E) as [C D]. split; congruence.
Qed.

Record reach_facts (n : nat) (lmin : Z) (a b : list Qc) (st : dw_state) : Prop := {
  rf_inv : Inv (st_scheme st);
  rf_tiles : TilesOK a b st;
  rf_dim : s_dim (st_scheme st) = S n;
  rf_stdim : st_dim st = S n;
  rf_lmin : s_lmin (st_scheme st) = lmin;
  rf_la : length a = S n;
  rf_lb : length b = S n;
  rf_trees : length (st_trees st) = S n
}.

Theorem dw_reachable_facts n lmin lmax a b o steps st0 st :
  Forall2 (fun p q => p < q) a b ->
  dw_init (S n) lmin lmax a b = Some st0 -> dw_run o steps st0 = Some st -> reach_facts n lmin a b st.
Proof.
  intros Hab Hinit Hrun.
  destruct (dw_run_total a b o steps st0 (dw_init_invT _ _ _ _ _ _ Hab Hinit)) as (st' & E & HT).
  rewrite Hrun in E. injection E as <-.
  destruct HT as (HD & Ed & Em & _ & _).
  destruct (dw_run_dims o steps st0 st Hrun) as [D1 D2].
  assert (I0 : st_dim st0 = S n /\ st_lmin st0 = lmin /\ length a = S n /\ length b = S n).
  { unfold dw_init in Hinit. destruct (1 <? lmax)%Z; [|discriminate].
    destruct (Nat.eqb (length a) (S n)) eqn:Ea; [|discriminate]. apply Nat.eqb_eq in Ea.
    destruct (Nat.eqb (length b) (S n)) eqn:Eb; [|discriminate]. apply Nat.eqb_eq in Eb.
    simpl in Hinit. destruct (init_scheme (S n) lmax lmin) as [s|]; [|discriminate]. injection Hinit as <-. simpl. auto. }
  destruct I0 as (I1 & I2 & I3 & I4).
  pose proof HD as (_ & HLc & _ & _ & HI).
  constructor; try assumption.
  - apply DwInv_TilesOK. exact HD.
  - congruence.
  - congruence.
  - congruence.
  - unfold st_trees. rewrite map_length. congruence.
Qed.

Lemma reach_stripes_defined n lmin a b o st :
  reach_facts n lmin a b st ->
  (o_version o = 2 \/ o_version o = 3 \/ o_version o = 6 \/ o_version o = 7)%Z ->
  stripes_defined o st (s_lmin (st_scheme st)) (s_dim (st_scheme st)).
Proof.
  intros F Hv d Hd. rewrite (rf_dim _ _ _ _ _ F) in Hd.
  destruct (nth_error (st_trees st) d) as [tr|] eqn:Etr.
  2: { apply nth_error_None in Etr. rewrite (rf_trees _ _ _ _ _ F) in Etr. lia. }
  exists tr. split; [reflexivity|].
  destruct (rf_tiles _ _ _ _ _ F d tr Etr) as [Hne _].
  destruct (stripe_dim_defined o st d (s_lmin (st_scheme st)) tr Etr Hne) as [s Es].
  { destruct Hv as [E|[E|[E|E]]]; auto. }
  destruct (dw_stripes_sorted_with_endpoints a b o st d _ tr s (rf_tiles _ _ _ _ _ F) Etr Es) as [_ (r & Er)].
  unfold dw_stripe_pts. rewrite Es, Er. discriminate.
Qed.

(* every history, every option setting (rebalancing on or off): products of linear functions, trapezoidal rule with boundary points *)
Theorem dw_reachable_linear_exact n lmin lmax a b o steps st0 st cf :
  Forall2 (fun p q => p < q) a b ->
  dw_init (S n) lmin lmax a b = Some st0 -> dw_run o steps st0 = Some st ->
  (o_version o = 2 \/ o_version o = 3 \/ o_version o = 6 \/ o_version o = 7)%Z ->
  o_boundary o = true -> length cf = S n ->
  dw_combi_integral o false st a b (lin_fns cf) = Some (lin_exact a b cf).
Proof.
  intros Hab Hinit Hrun Hv Hbd Lc.
  pose proof (dw_reachable_facts _ _ _ _ _ _ _ _ _ Hab Hinit Hrun) as F.
  apply dw_linear_exact.
  - exact (rf_inv _ _ _ _ _ F).
  - exact (rf_tiles _ _ _ _ _ F).
  - rewrite (rf_dim _ _ _ _ _ F). exact (rf_la _ _ _ _ _ F).
  - rewrite (rf_dim _ _ _ _ _ F). exact (rf_lb _ _ _ _ _ F).
  - rewrite (rf_dim _ _ _ _ _ F). exact Lc.
  - eapply reach_stripes_defined; eassumption.
  - left. split; [exact Hbd | reflexivity].
Qed.

(* modified basis, every history: exact in every reachable state accepted by the checker lin_mod_okb *)
Theorem dw_reachable_linear_exact_modified n lmin lmax a b o steps st0 st cf :
  Forall2 (fun p q => p < q) a b ->
  dw_init (S n) lmin lmax a b = Some st0 -> dw_run o steps st0 = Some st ->
  (o_version o = 2 \/ o_version o = 3 \/ o_version o = 6 \/ o_version o = 7)%Z ->
  o_boundary o = false -> lin_mod_okb o st a b = true -> length cf = S n ->
  dw_combi_integral o true st a b (lin_fns cf) = Some (lin_exact a b cf).
Proof.
  intros Hab Hinit Hrun Hv Hbd Hck Lc.
  pose proof (dw_reachable_facts _ _ _ _ _ _ _ _ _ Hab Hinit Hrun) as F.
  apply dw_linear_exact_modified_checked; try assumption.
  - exact (rf_inv _ _ _ _ _ F).
  - exact (rf_tiles _ _ _ _ _ F).
  - rewrite (rf_dim _ _ _ _ _ F). exact (rf_la _ _ _ _ _ F).
  - rewrite (rf_dim _ _ _ _ _ F). exact (rf_lb _ _ _ _ _ F).
  - rewrite (rf_dim _ _ _ _ _ F). exact Lc.
  - eapply reach_stripes_defined; eassumption.
Qed.

(* every history, every option setting: a hat whose tau lies in the index set is integrated and interpolated exactly *)
Theorem dw_reachable_exact_if n lmin lmax a b o steps st0 st j i tau :
  Forall2 (fun p q => p < q) a b ->
  dw_init (S n) lmin lmax a b = Some st0 -> dw_run o steps st0 = Some st ->
  length j = S n -> hat_ok o st a b lmin 0 j i tau -> In tau (index_set (st_scheme st)) ->
  dw_combi_integral o false st a b (hat_list a b j i) = Some (hat_exact a b j i) /\
  forall x, length x = S n -> in_box a b 0 x -> dw_combi_interp o st a b (fun_hat a b j i) x = fun_hat a b j i x.
Proof.
  intros Hab Hinit Hrun Lj Hok Htau.
  pose proof (dw_reachable_facts _ _ _ _ _ _ _ _ _ Hab Hinit Hrun) as F.
  pose proof (rf_dim _ _ _ _ _ F) as Ed. rewrite <- (rf_lmin _ _ _ _ _ F) in Hok.
  split.
  - apply dw_exact_if_integral with (tau := tau); try assumption; try (rewrite Ed).
    + exact (rf_inv _ _ _ _ _ F).
    + exact (rf_tiles _ _ _ _ _ F).
    + exact (rf_la _ _ _ _ _ F).
    + exact (rf_lb _ _ _ _ _ F).
    + exact Lj.
  - intros x Lx Hx. apply dw_exact_if_interp with (tau := tau); try assumption; try (rewrite Ed).
    + exact (rf_inv _ _ _ _ _ F).
    + exact (rf_tiles _ _ _ _ _ F).
    + exact (rf_la _ _ _ _ _ F).
    + exact (rf_lb _ _ _ _ _ F).
    + exact Lj.
    + exact Lx.
Qed.
