(* C19 (deepened) — proofs about the learning side of the Classification model (Model/ClassifyLearn.v):
   the ordered learning/testing split is a partition of the scaled labelled samples; with ANY iteration order of the label
   set that passes the checker, the class assigned to a sample is the label of the class whose own training samples give the
   largest density; a label table in another order breaks this; bookkeeping invariant over all histories including
   continue_dimension_wise_refinement. *)
From Coq Require Import ZArith List QArith Qcanon Bool Lia Arith Permutation.
From SG Require Import Base.QcUtil Model.DataSet Model.Classify Model.ClassifyLearn
  Proofs.DataSetVec Proofs.DataSetScale Proofs.DataSetRevert Proofs.DataSetMove Proofs.ClassifyProofs.
Import ListNotations.
Open Scope Qc_scope.

(* ------------------------------------------------------------------ the order checker *)
Lemma memZ_In x l : memZ x l = true <-> In x l.
Proof.
  induction l as [|y l IH]; simpl; [split; [discriminate | contradiction]|].
  rewrite orb_true_iff, IH, Z.eqb_eq. split; intros [H|H]; auto.
Qed.

Lemma nodupZ_NoDup l : nodupZ l = true -> NoDup l.
Proof.
  induction l as [|x l IH]; simpl; intro H; [constructor|].
  apply andb_true_iff in H. destruct H as [H1 H2]. constructor; [|apply IH; exact H2].
  intro Hin. apply memZ_In in Hin. rewrite Hin in H1. discriminate.
Qed.

Lemma label_order_ok_spec lo r : label_order_ok lo r = true ->
  NoDup lo /\ (forall l, In l lo -> In l (map snd r)) /\ (forall s, In s r -> In (snd s) lo).
Proof.
  unfold label_order_ok. rewrite !andb_true_iff, !forallb_forall. intros [[H1 H2] H3].
  split; [apply nodupZ_NoDup; exact H1|]. split.
  - intros l Hl. apply memZ_In. apply H2. exact Hl.
  - intros s Hs. apply memZ_In. apply H3. exact Hs.
Qed.

(* the pieces of split_labels in ANY admissible order partition the rows *)
Lemma label_piece_rows d j : rows (label_piece d j) = with_label j (rows d).
Proof. unfold label_piece. cbn [with_attrs rows]. apply relabel_filter. Qed.

Lemma split_labels_ord_cover lo d : label_order_ok lo (rows d) = true ->
  Permutation (flat_map rows (split_labels_ord lo d)) (rows d).
Proof.
  intro H. destruct (label_order_ok_spec _ _ H) as [Hnd [_ Hcov]].
  unfold split_labels_ord. rewrite flat_map_map.
  rewrite (flat_map_ext _ (fun j => with_label j (rows d))) by (intro j; apply label_piece_rows).
  eapply Permutation_trans; [apply group_by_label_perm; exact Hnd|].
  rewrite filter_true_id; [apply Permutation_refl|]. intros s Hs. apply existsb_exists. exists (snd s).
  split; [apply Hcov; exact Hs | apply Z.eqb_refl].
Qed.

(* ------------------------------------------------------------------ list_concatenate *)
Lemma concatenate_self_rows v a b : concatenate v a b = CSelf -> rows b = [].
Proof.
  unfold concatenate. destruct (Nat.eqb (dim a) (dim b)).
  - destruct (xorb (flat1 a) (flat1 b)); [discriminate|]. destruct (update_internal_raises a); [discriminate|].
    destruct (self_scaling_ok v a); discriminate.
  - destruct (is_empty b) eqn:E; [intros _; apply is_empty_rows; exact E|]. destruct (is_empty a); discriminate.
Qed.

Lemma concatenate_other_rows v a b : concatenate v a b = COther -> rows a = [].
Proof.
  unfold concatenate. destruct (Nat.eqb (dim a) (dim b)).
  - destruct (xorb (flat1 a) (flat1 b)); [discriminate|]. destruct (update_internal_raises a); [discriminate|].
    destruct (self_scaling_ok v a); discriminate.
  - destruct (is_empty b); [discriminate|]. destruct (is_empty a) eqn:E; [intros _; apply is_empty_rows; exact E | discriminate].
Qed.

Lemma list_concat_from_rows v l : forall acc r, list_concat_from v acc l = Some r -> rows r = rows acc ++ flat_map rows l.
Proof.
  induction l as [|b l IH]; intros acc r H; cbn [list_concat_from flat_map] in *.
  - inversion H; subst. rewrite app_nil_r. reflexivity.
  - destruct (concatenate v acc b) as [d| | |] eqn:E; [| | |discriminate].
    + rewrite (IH _ _ H). destruct (concatenate_cover v acc b d E) as [Hr _]. rewrite Hr, app_assoc. reflexivity.
    + rewrite (IH _ _ H). rewrite (concatenate_self_rows v acc b E). reflexivity.
    + rewrite (IH _ _ H). rewrite (concatenate_other_rows v acc b E). reflexivity.
Qed.

Lemma list_concatenate_rows v l r : list_concatenate v l = Some r -> rows r = flat_map rows l.
Proof.
  destruct l as [|a l]; cbn [list_concatenate flat_map]; intro H.
  - inversion H; subst. reflexivity.
  - apply (list_concat_from_rows v l a r). exact H.
Qed.

Lemma flat_map_app_perm {A B} (f g : A -> list B) l :
  Permutation (flat_map f l ++ flat_map g l) (flat_map (fun x => f x ++ g x) l).
Proof.
  induction l as [|x l IH]; cbn [flat_map]; [constructor|].
  rewrite <- !app_assoc. apply Permutation_app_head.
  eapply Permutation_trans; [apply Permutation_app_swap_app | apply Permutation_app_head; exact IH].
Qed.

(* ------------------------------------------------------------------ the learning/testing split is a partition *)
Theorem init_split_partitions v sd perm idx lo even p learn test :
  init_split v sd perm idx lo even p = Some (learn, test) -> Permutation (rows learn ++ rows test) (rows sd).
Proof.
  unfold init_split. intro H.
  destruct (match perm with Some pm => shuffle_with pm sd | None => (sd, false) end) as [d1 e1] eqn:E1.
  destruct e1; [discriminate|].
  assert (P1 : Permutation (rows d1) (rows sd)).
  { destruct perm as [pm|]; [apply (shuffle_permutation pm sd d1 E1) | inversion E1; apply Permutation_refl]. }
  destruct (negb (same_index_set idx (boundary_idx d1))); [discriminate|].
  destruct (move_boundaries_to_front idx d1) as [d2 e2] eqn:E2. destruct e2; [discriminate|].
  destruct (mbf_permutation idx d1 d2 E2) as [P2 _].
  destruct (update_internal_raises d2); [discriminate|].
  apply Permutation_trans with (rows d2); [|apply Permutation_trans with (rows d1); assumption].
  destruct even.
  - destruct (negb (label_order_ok lo (rows d2))) eqn:Eo; [discriminate|]. apply negb_false_iff in Eo.
    destruct (list_concatenate v (map (fun x => fst (split_pieces p x)) (split_labels_ord lo d2))) as [l|] eqn:EL; [|discriminate].
    destruct (list_concatenate v (map (fun x => snd (split_pieces p x)) (split_labels_ord lo d2))) as [t|] eqn:ET; [|discriminate].
    inversion H; subst; clear H.
    rewrite (list_concatenate_rows _ _ _ EL), (list_concatenate_rows _ _ _ ET). rewrite !flat_map_map.
    eapply Permutation_trans; [apply flat_map_app_perm|].
    rewrite (flat_map_ext _ rows); [apply split_labels_ord_cover; exact Eo|].
    intro x. destruct (split_pieces p x) as [a b] eqn:Ex. cbn [fst snd].
    destruct (split_pieces_cover p x a b Ex) as [Hr _]. exact Hr.
  - destruct (split_pieces p d2) as [a b] eqn:Ex. inversion H; subst; clear H.
    destruct (split_pieces_cover p d2 learn test Ex) as [Hr _]. rewrite Hr. apply Permutation_refl.
Qed.

(* the uneven split keeps the order: the learning data are a prefix of the moved data *)
Theorem init_split_uneven_prefix v sd idx lo p learn test :
  init_split v sd None idx lo false p = Some (learn, test) ->
  exists d2, move_boundaries_to_front idx sd = (d2, false) /\ rows learn ++ rows test = rows d2 /\
             length (rows learn) = Nat.min (split_index p (length (rows d2))) (length (rows d2)).
Proof.
  unfold init_split. intro H.
  destruct (negb (same_index_set idx (boundary_idx sd))); [discriminate|].
  destruct (move_boundaries_to_front idx sd) as [d2 e2] eqn:E2. destruct e2; [discriminate|].
  destruct (update_internal_raises d2); [discriminate|].
  exists d2. split; [reflexivity|]. inversion H; subst; clear H. cbn [with_attrs rows].
  split; [apply firstn_skipn | apply firstn_length].
Qed.

(* ------------------------------------------------------------------ the assigned class is the TRAINED arg-max class *)
Lemma densities_row de lo learn x :
  map (fun c : row -> Qc => c x) (classificators de lo learn) = map (fun j => de (label_piece learn j) x) lo.
Proof. unfold classificators, split_labels_ord. rewrite !map_map. reflexivity. Qed.

Theorem class_is_trained_argmax cv (de : ds -> row -> Qc) lo learn pts i :
  cv_labels cv = true -> lo <> [] -> (i < length pts)%nat ->
  let x := nth i pts [] in
  let c := nth i (classify_learned cv de lo lo learn pts) 0%Z in
  exists a, (a < length lo)%nat /\ c = nth a lo 0%Z /\ In c lo /\
    (forall l, In l lo -> de (label_piece learn l) x <= de (label_piece learn c) x) /\
    (forall b, (b < a)%nat -> de (label_piece learn (nth b lo 0%Z)) x < de (label_piece learn c) x).
Proof.
  intros Hcv Hne Hi x c.
  set (dl := map (fun j => de (label_piece learn j) x) lo).
  assert (Hdl : length dl = length lo) by (unfold dl; apply map_length).
  assert (Hdne : dl <> []) by (destruct lo; [contradiction | discriminate]).
  destruct (argmax_is_max dl Hdne) as [Ha [Hmax Hfirst]]. rewrite Hdl in Ha.
  assert (Hc : c = nth (argmax dl) lo 0%Z).
  { unfold c, classify_learned.
    rewrite (classificate_spec cv lo _ i) by (unfold densities_at; rewrite map_length; exact Hi).
    unfold densities_at. rewrite (nth_map_lt _ pts i [] []) by exact Hi. fold x. rewrite densities_row. fold dl.
    rewrite class_is_label_when_repaired by exact Hcv. apply nth_indep. exact Ha. }
  assert (Hnth : forall j, (j < length lo)%nat -> nth j dl 0 = de (label_piece learn (nth j lo 0%Z)) x).
  { intros j Hj. unfold dl. rewrite (nth_map_lt _ lo j 0%Z 0) by exact Hj. reflexivity. }
  exists (argmax dl). split; [exact Ha|]. split; [exact Hc|]. split; [rewrite Hc; apply nth_In; exact Ha|]. split.
  - intros l Hl. destruct (In_nth lo l 0%Z Hl) as [j [Hj Ej]]. rewrite <- Ej, Hc. rewrite <- !Hnth by assumption.
    apply Hmax. rewrite Hdl. exact Hj.
  - intros b Hb. rewrite Hc. rewrite <- !Hnth by lia. apply Hfirst. exact Hb.
Qed.

(* what a classificator is trained on: exactly the learning samples that carry its label (labels untouched) *)
Theorem classificator_training_data learn l : rows (label_piece learn l) = filter (fun s => Z.eqb (snd s) l) (rows learn).
Proof. apply label_piece_rows. Qed.

(* with an admissible order every class of the learning data has exactly one classificator, and every classificator a class *)
Theorem classificators_cover_classes lo learn : label_order_ok lo (rows learn) = true ->
  length (classificators (fun d _ => 0) lo learn) = length lo /\ NoDup lo /\
  (forall l, In l lo <-> In l (map snd (rows learn))) /\
  (forall l, In l lo -> rows (label_piece learn l) <> []).
Proof.
  intro H. destruct (label_order_ok_spec _ _ H) as [Hnd [H1 H2]].
  split; [unfold classificators, split_labels_ord; rewrite !map_length; reflexivity|]. split; [exact Hnd|]. split.
  - intro l. split; [apply H1|]. intro Hl. apply in_map_iff in Hl. destruct Hl as [s [Es Hs]]. subst l. apply H2. exact Hs.
  - intros l Hl. rewrite label_piece_rows. specialize (H1 l Hl). apply in_map_iff in H1. destruct H1 as [s [Es Hs]].
    intro E. assert (In s (with_label l (rows learn))) as Hin.
    { unfold with_label. apply filter_In. split; [exact Hs | apply Z.eqb_eq; exact Es]. }
    rewrite E in Hin. contradiction.
Qed.

(* ------------------------------------------------------------------ bookkeeping over histories with continued refinement *)
Inductive xop := XOp (o : cop) | XCont (dens : list (list Qc)).
Definition xstep (v : variant) (cv : cvariant) (st : cstate) (o : xop) : cstate :=
  match o with
  | XOp o => cstep_state v cv st o
  | XCont dens => match continue_refinement cv st dens with Some st' => st' | None => st end
  end.
Definition book_ok (st : cstate) : Prop := c_performed st = true /\ length (c_test_labels st) = length (c_calc st).

Lemma classificate_length cv labels dens : length (classificate cv labels dens) = length dens.
Proof. unfold classificate. apply map_length. Qed.

Theorem continue_reclassifies cv st dens st' : continue_refinement cv st dens = Some st' -> c_test_labels st <> [] ->
  c_calc st' = classificate cv (c_class_labels st) dens /\ length (c_calc st') = length (c_test_labels st') /\
  c_test_labels st' = c_test_labels st /\ learning_params st' = learning_params st.
Proof.
  unfold continue_refinement. intros H Hne. destruct (c_test_labels st) as [|t tl] eqn:Et; [contradiction|].
  destruct (Nat.eqb (length dens) (length (t :: tl))) eqn:El; [|discriminate]. apply Nat.eqb_eq in El.
  inversion H; subst; clear H. cbn [c_calc c_test_labels learning_params c_min c_max c_fac c_class_labels c_performed].
  split; [reflexivity|]. split; [rewrite classificate_length; exact El|]. split; reflexivity.
Qed.

Lemma continue_state cv st dens st' : continue_refinement cv st dens = Some st' ->
  learning_params st' = learning_params st /\ c_test_labels st' = c_test_labels st /\
  (length (c_test_labels st) = length (c_calc st) -> length (c_test_labels st') = length (c_calc st')).
Proof.
  intro H. destruct (c_test_labels st) as [|t tl] eqn:Et.
  - unfold continue_refinement in H. rewrite Et in H. inversion H; subst. rewrite Et. auto.
  - assert (Hne : c_test_labels st <> []) by (rewrite Et; discriminate).
    destruct (continue_reclassifies cv st dens st' H Hne) as [_ [L [T P]]].
    split; [exact P|]. split; [rewrite T, Et; reflexivity|]. intros _. symmetry. exact L.
Qed.

Lemma test_book v cv st d dens : cv_store cv = true -> book_ok st -> book_ok (fst (test_data v cv st d dens)).
Proof.
  intros Hcv [Hp Hl]. unfold test_data. destruct (negb (c_performed st)); [split; assumption|].
  destruct (is_empty d); [split; assumption|].
  destruct (internal_scaling v st d) as [d1 e]. destruct e; [split; assumption|]. destruct (is_empty d1); [split; assumption|].
  destruct (split_without_labels d1) as [om used]. destruct (is_empty used); [split; assumption|].
  destruct (negb (Nat.eqb (length dens) (length (rows used)))) eqn:El; [split; assumption|].
  apply negb_false_iff, Nat.eqb_eq in El. rewrite Hcv. cbn [fst]. split; cbn [c_performed c_test_labels c_calc]; [exact Hp|].
  rewrite !app_length, classificate_length, map_length. rewrite Hl, El. reflexivity.
Qed.

Lemma xstep_book v cv st o : cv_store cv = true -> book_ok st ->
  book_ok (xstep v cv st o) /\ learning_params (xstep v cv st o) = learning_params st /\
  exists suf, c_test_labels (xstep v cv st o) = c_test_labels st ++ suf.
Proof.
  intros Hcv Hb. destruct o as [[d dens|d dens|]|dens]; cbn [xstep cstep_state].
  - rewrite call_state_unchanged. split; [exact Hb|]. split; [reflexivity | exists []; rewrite app_nil_r; reflexivity].
  - split; [apply test_book; assumption|]. destruct (test_state v cv st d dens) as [A [_ B]]. split; assumption.
  - split; [exact Hb|]. split; [reflexivity | exists []; rewrite app_nil_r; reflexivity].
  - destruct (continue_refinement cv st dens) as [st'|] eqn:E.
    + destruct (continue_state cv st dens st' E) as [P [T L]]. destruct Hb as [Hp Hl]. split; [split|].
      * unfold learning_params in P. inversion P. congruence.
      * apply L. exact Hl.
      * split; [exact P | exists []; rewrite app_nil_r; exact T].
    + split; [exact Hb|]. split; [reflexivity | exists []; rewrite app_nil_r; reflexivity].
Qed.

Lemma evaluate_book st : book_ok st ->
  (c_test_labels st = [] -> evaluate st = None) /\
  (c_test_labels st <> [] -> evaluate st = Some (summary (c_test_labels st) (c_calc st))).
Proof.
  intros [Hp Hl]. unfold evaluate. rewrite Hp. cbn [negb]. destruct (c_test_labels st) as [|t tl] eqn:Et.
  - split; [reflexivity | intro H; contradiction].
  - split; [discriminate|]. intros _. apply Nat.eqb_eq in Hl. rewrite Hl. reflexivity.
Qed.

(* for ANY history of __call__ / test_data / evaluate / continue_dimension_wise_refinement (repaired test_data): the number of
   calculated classes always equals the number of testing samples, the learning-time parameters stay, testing labels only grow,
   and evaluate() returns the summary over all testing data (it raises exactly when there are no testing data) *)
Theorem bookkeeping_invariant v cv ops : forall st, cv_store cv = true -> book_ok st ->
  let st' := fold_left (xstep v cv) ops st in
  book_ok st' /\ learning_params st' = learning_params st /\
  (exists suf, c_test_labels st' = c_test_labels st ++ suf) /\
  (c_test_labels st' = [] -> evaluate st' = None) /\
  (c_test_labels st' <> [] -> evaluate st' = Some (summary (c_test_labels st') (c_calc st'))).
Proof.
  induction ops as [|o ops IH]; intros st Hcv Hb; cbn [fold_left].
  - split; [exact Hb|]. split; [reflexivity|]. split; [exists []; rewrite app_nil_r; reflexivity | apply evaluate_book; exact Hb].
  - destruct (xstep_book v cv st o Hcv Hb) as [B1 [P1 [s1 T1]]].
    destruct (IH (xstep v cv st o) Hcv B1) as [B [P [[s2 T] E]]].
    split; [exact B|]. split; [congruence|]. split; [exists (s1 ++ s2); rewrite T, T1, app_assoc; reflexivity | exact E].
Qed.

(* ------------------------------------------------------------------ concrete objects for the non-vacuity examples *)
(* six scaled labelled samples of the classes 8 and 1 (first occurrence: 8), CPython iterates the set {8, 1} as 8, 1 *)
Definition exl_sd : ds :=
  match initialize as_found (fresh [([0; 0], 8%Z); ([1; Qc2], 8%Z); ([Qc2; 1], 8%Z);
                                    ([Qc2 + Qc2; Qc2 + Qc2], 1%Z); ([Qc2 + 1; Qc2 + Qc2], 1%Z); ([Qc2 + Qc2; Qc2 + 1], 1%Z)]) None with
  | Some ir => i_scaled ir
  | None => fresh []
  end.
(* a toy estimator: the number of training samples within 1/4 (max-norm) of the position *)
Definition near (x y : row) : bool := forallb (fun b => b) (map2 (fun a b => Qc_leb (a - b) (Q2Qc (1 # 4)) && Qc_leb (b - a) (Q2Qc (1 # 4))) x y).
Definition ex_de (d : ds) (x : row) : Qc := Q2Qc (inject_Z (Z.of_nat (length (filter (fun s => near (fst s) x) (rows d))))).
