(* C04, dimension-wise strategy WITHOUT rebalancing, versions 6/7/8: bounded exhaustive verification of the history invariant
   "every hat of the initial sparse-grid space is still integrated exactly" over all histories of at most n steps in which
   every step splits exactly one interval (any dimension, any position), by evaluation of the verified checker in every
   reachable state (vm_compute in Props/C04.v).  The general (all histories) statement is NOT proved. *)
From Coq Require Import ZArith List Bool QArith Qcanon Lia Arith.
From SG Require Import Base.QcUtil Model.CombiScheme Model.RefTree.
From SG Require Import Model.DimWise Model.DimWiseInterp Model.DimWiseExact Model.DimWiseFast.
Import ListNotations.

Lemma mem_pos_In di l : mem_pos di l = true -> In di l.
Proof.
  unfold mem_pos. rewrite existsb_exists. intros [u [Hu E]]. apply andb_true_iff in E. destruct E as [E1 E2].
  apply Nat.eqb_eq in E1. apply Nat.eqb_eq in E2. destruct di as [d i]. destruct u as [d' i']. simpl in *. subst. exact Hu.
Qed.

Theorem explore_sound o a b lmin lmax : forall n st, explore o a b lmin lmax n st = true ->
  forall path st', (length path <= n)%nat -> run_path o path st = Some st' ->
  dw_keeps_initial_space o st' a b lmin lmax = true.
Proof.
  induction n as [|n IH]; intros st H path st' Hlen Hrun.
  - destruct path; [|simpl in Hlen; lia]. simpl in Hrun. injection Hrun as <-.
    simpl in H. apply andb_true_iff in H. destruct H as [H _]. exact H.
  - cbn [explore] in H. apply andb_true_iff in H. destruct H as [H0 Hall].
    destruct path as [|di path]; [simpl in Hrun; injection Hrun as <-; exact H0|].
    cbn [run_path] in Hrun. destruct (mem_pos di (positions st)) eqn:Em; [|discriminate].
    apply mem_pos_In in Em. rewrite forallb_forall in Hall. specialize (Hall di Em).
    destruct (dw_step o (single_bens st di) st) as [st1|]; [|discriminate].
    apply (IH st1 Hall path st'); [simpl in Hlen; lia | exact Hrun].
Qed.

(* ---------------------------------------------------------------------------------------------------------- *)
(* the instances: d = 2, unit square, margin 0.9, no rebalancing *)
Definition bq (n : Z) (d : positive) : Qc := Q2Qc (n # d).
Definition b_opts (version : Z) (bd : bool) : dw_opts :=
  mkOpts version false bd (Q2Qc (9 # 10)) (rebalance_dec_exact (Q2Qc (1 # 10))) (v3_dec_exact 2).
Definition unit_a := [bq 0 1; bq 0 1].
Definition unit_b := [bq 1 1; bq 1 1].
Definition explore_from (o : dw_opts) (lmin lmax : Z) (n : nat) : option bool :=
  match dw_init 2 lmin lmax unit_a unit_b with Some st0 => Some (explore o unit_a unit_b lmin lmax n st0) | None => None end.

Definition configs : list (Z * bool) := [(6, true); (6, false); (7, true); (7, false); (8, true); (8, false)]%Z.

Lemma explore_from_sound v bd lmin lmax n : explore_from (b_opts v bd) lmin lmax n = Some true ->
  forall st0 path st, dw_init 2 lmin lmax unit_a unit_b = Some st0 -> (length path <= n)%nat ->
    run_path (b_opts v bd) path st0 = Some st ->
    forall j i, In (j, i) (initial_hats (st_dim st) lmin lmax bd) ->
      dw_combi_integral (b_opts v bd) false st unit_a unit_b (hat_list unit_a unit_b j i) = Some (hat_exact unit_a unit_b j i).
Proof.
  unfold explore_from. intros H st0 path st E0 Hlen Hrun j i Hin. rewrite E0 in H. injection H as H.
  pose proof (explore_sound _ _ _ _ _ n st0 H path st Hlen Hrun) as K.
  unfold dw_keeps_initial_space in K. rewrite forallb_forall in K. specialize (K (j, i) Hin).
  unfold dw_keeps_hat in K. cbn [fst snd] in K.
  destruct (dw_combi_integral (b_opts v bd) false st unit_a unit_b (hat_list unit_a unit_b j i)) as [x|]; [|discriminate].
  apply Qc_eqb_eq in K. rewrite K. reflexivity.
Qed.
