(* C11 — acceptance lemmas: the remaining "whenever the model returns a result" conditions.
   (1) BalancedExtrapolationGrid on the complete grid of EVERY depth: the tree is balanced (set_grid's assert passes), the
       final dictionary has pairwise distinct keys that are all grid points (the former per-case checker keys_in_grid is a
       theorem here), hence the returned weight list is exact to degree 2m-1 unconditionally.
   (2) a container of 2^K >= 2 equal adjacent slices always produces weights, default and Simpson version; the complete grid
       with Simpson containers is accepted and exact to degree 3 for every m. *)
From Coq Require Import ZArith List QArith Qcanon Bool Arith Lia FinFun.
From SG Require Import Base.QcUtil Model.Romberg Proofs.RombergBasics Proofs.RombergCoeff Proofs.RombergTree
  Proofs.RombergSliced Proofs.RombergBalanced Proofs.RombergExact Proofs.RombergGrouped Proofs.RombergFuel Proofs.RombergSimpson
  Proofs.RombergAnnihilate Proofs.RombergEM Proofs.RombergDegree Proofs.RombergComplete Proofs.RombergForced
  Proofs.RombergUnit Proofs.RombergUnitAccept Proofs.RombergBalancedDegree Proofs.RombergSimpsonDegree Proofs.RombergNormLevels.
Import ListNotations.
Open Scope Qc_scope.

Local Notation hf := (/ (1 + 1)).

(* ---------------------------------------------------------------------------------------------- *)
(* dictionaries keep their keys strictly increasing *)

Fixpoint ssorted (l : list Qc) : Prop :=
  match l with [] => True | x :: r => (forall y, In y r -> x < y) /\ ssorted r end.

Lemma ssorted_NoDup l : ssorted l -> NoDup l.
Proof.
  induction l as [|x l IH]; intro H; [constructor|]. destruct H as [H1 H2].
  constructor; [|exact (IH H2)]. intro I. apply H1 in I. exact (Qclt_not_eq _ _ I eq_refl).
Qed.

Lemma neq_nlt_gt (k k' : Qc) : Qc_eqb k k' = false -> Qc_ltb k k' = false -> k' < k.
Proof.
  intros E L. assert (NE : k <> k') by (intro X; apply Qc_eqb_eq in X; congruence).
  assert (NL : ~ k < k') by (intro X; apply Qc_ltb_lt in X; congruence).
  apply Qcnot_lt_le in NL. destruct (Qcle_lt_or_eq _ _ NL) as [A|A]; [exact A | congruence].
Qed.

Lemma dict_add_keys k v d x : In x (map fst (dict_add k v d)) -> x = k \/ In x (map fst d).
Proof.
  induction d as [|[k' v'] d IH]; simpl.
  - intros [H|[]]. left. symmetry. exact H.
  - destruct (Qc_eqb k k') eqn:E.
    + simpl. intros [H|H]; [right; left; exact H | right; right; exact H].
    + destruct (Qc_ltb k k'); simpl.
      * intros [H|[H|H]]; [left; symmetry; exact H | right; left; exact H | right; right; exact H].
      * intros [H|H]; [right; left; exact H|]. destruct (IH H) as [A|A]; [left; exact A | right; right; exact A].
Qed.

Lemma dict_add_sorted k v d : ssorted (map fst d) -> ssorted (map fst (dict_add k v d)).
Proof.
  induction d as [|[k' v'] d IH]; simpl; intro H; [split; [intros y [] | exact I]|].
  destruct H as [H1 H2]. destruct (Qc_eqb k k') eqn:E; [simpl; split; assumption|].
  destruct (Qc_ltb k k') eqn:L; simpl.
  - apply Qc_ltb_lt in L. split; [|split; assumption].
    intros y [<-|Hy]; [exact L | exact (Qclt_trans _ _ _ L (H1 y Hy))].
  - split; [|exact (IH H2)]. intros y Hy. apply dict_add_keys in Hy.
    destruct Hy as [->|Hy]; [exact (neq_nlt_gt _ _ E L) | exact (H1 y Hy)].
Qed.

Lemma dict_set_sorted k v d : ssorted (map fst d) -> ssorted (map fst (dict_set k v d)).
Proof.
  induction d as [|[k' v'] d IH]; simpl; intro H; [split; [intros y [] | exact I]|].
  destruct H as [H1 H2]. destruct (Qc_eqb k k') eqn:E; [simpl; split; assumption|].
  destruct (Qc_ltb k k') eqn:L; simpl.
  - apply Qc_ltb_lt in L. split; [|split; assumption].
    intros y [<-|Hy]; [exact L | exact (Qclt_trans _ _ _ L (H1 y Hy))].
  - split; [|exact (IH H2)]. intros y Hy. apply dict_set_keys in Hy.
    destruct Hy as [->|Hy]; [exact (neq_nlt_gt _ _ E L) | exact (H1 y Hy)].
Qed.

Lemma dict_of_props cs : ssorted (map fst (dict_of cs)) /\ forall x, In x (map fst (dict_of cs)) -> In x (map fst cs).
Proof.
  unfold dict_of.
  assert (G : forall d, ssorted (map fst d) ->
            ssorted (map fst (fold_left (fun d kv => dict_add (fst kv) (snd kv) d) cs d)) /\
            forall x, In x (map fst (fold_left (fun d kv => dict_add (fst kv) (snd kv) d) cs d)) -> In x (map fst cs) \/ In x (map fst d)).
  { induction cs as [|[k v] cs IH]; intros d Hd; cbn [fold_left]; [split; [exact Hd | intros x Hx; right; exact Hx]|].
    destruct (IH (dict_add k v d) (dict_add_sorted k v d Hd)) as [A B]. split; [exact A|].
    intros x Hx. destruct (B x Hx) as [X|X]; [left; right; exact X|].
    apply dict_add_keys in X. destruct X as [->|X]; [left; left; reflexivity | right; exact X]. }
  destruct (G [] I) as [A B]. split; [exact A|]. intros x Hx. destruct (B x Hx) as [X|[]]. exact X.
Qed.

Lemma dict_assign_props cs : ssorted (map fst (dict_assign cs)) /\ forall x, In x (map fst (dict_assign cs)) -> In x (map fst cs).
Proof.
  unfold dict_assign.
  assert (G : forall d, ssorted (map fst d) ->
            ssorted (map fst (fold_left (fun d kv => dict_set (fst kv) (snd kv) d) cs d)) /\
            forall x, In x (map fst (fold_left (fun d kv => dict_set (fst kv) (snd kv) d) cs d)) -> In x (map fst cs) \/ In x (map fst d)).
  { induction cs as [|[k v] cs IH]; intros d Hd; cbn [fold_left]; [split; [exact Hd | intros x Hx; right; exact Hx]|].
    destruct (IH (dict_set k v d) (dict_set_sorted k v d Hd)) as [A B]. split; [exact A|].
    intros x Hx. destruct (B x Hx) as [X|X]; [left; right; exact X|].
    apply dict_set_keys in X. destruct X as [->|X]; [left; left; reflexivity | right; exact X]. }
  destruct (G [] I) as [A B]. split; [exact A|]. intros x Hx. destruct (B x Hx) as [X|[]]. exact X.
Qed.

Lemma scale_dict_keys c d : map fst (scale_dict c d) = map fst d.
Proof. unfold scale_dict. rewrite map_map. reflexivity. Qed.

(* boolean checker from the propositions *)
Lemma NoDup_nodupQ l : NoDup l -> nodupQ l = true.
Proof.
  induction 1 as [|x l Hx _ IH]; [reflexivity|]. cbn [nodupQ]. rewrite IH, andb_true_r.
  destruct (memQ x l) eqn:E; [apply memQ_In in E; contradiction | reflexivity].
Qed.

Lemma keys_in_grid_intro d grid : NoDup grid -> NoDup (map fst d) -> (forall k, In k (map fst d) -> In k grid) ->
  keys_in_grid d grid = true.
Proof.
  intros Hg Hd Hk. unfold keys_in_grid. rewrite (NoDup_nodupQ _ Hg), (NoDup_nodupQ _ Hd), !andb_true_r.
  apply forallb_forall. intros k I. apply memQ_In. exact (Hk k I).
Qed.

(* ---------------------------------------------------------------------------------------------- *)
(* the complete cell tree: balanced, its level rules sit on the dyadic nodes *)

Lemma cbtree_balanced d : forall lo w t, cbtree d lo w t -> b_balanced t = true.
Proof.
  induction d as [|d IH]; intros lo w t H; inversion H as [|d' lo' w' l r Hl Hr]; subst; [reflexivity|].
  destruct d as [|d'].
  - inversion Hl; inversion Hr; subst. reflexivity.
  - assert (Bl := IH _ _ _ Hl). assert (Br := IH _ _ _ Hr).
    inversion Hl; inversion Hr; subst. cbn [b_balanced] in *. rewrite Bl, Br. reflexivity.
Qed.

Lemma cb_rule_keys d : forall lev maxl lo w t x, cbtree d lo w t -> In x (map fst (b_rule lev maxl t)) -> In x (nodes lo w d).
Proof.
  induction d as [|d IH]; intros lev maxl lo w t x H I; inversion H as [|d' lo' w' l r Hl Hr]; subst; [destruct I|].
  cbn [b_rule] in I. cbn [nodes]. destruct (maxl <? lev)%nat; [destruct I|].
  destruct (Nat.eqb lev maxl || b_is_leaf (BNode lo (lo + w) l r)).
  - cbn [map fst] in I. destruct I as [<-|[]]. apply in_or_app. right. left.
    unfold midpoint. rewrite Qc2_eq. field. exact two_neq0.
  - rewrite map_app in I. apply in_app_or in I. apply in_or_app.
    destruct I as [I|I]; [left; exact (IH _ _ _ _ _ _ Hl I) | right; right; exact (IH _ _ _ _ _ _ Hr I)].
Qed.

Lemma complete_grid_NoDup a b m : a < b -> NoDup (complete_grid a b m).
Proof.
  intro Hab. unfold complete_grid.
  rewrite (map_ext _ (fun k => a + qn k * step_width a b m)) by (intro k; unfold step_width, qn; field; apply pow2_neq0).
  apply Injective_map_NoDup; [|apply seq_NoDup].
  intros i j E. assert (Hh := step_width_pos a b m Hab).
  destruct (Nat.lt_trichotomy i j) as [L|[X|L]]; [|exact X|].
  - exfalso. exact (pt_strict a _ i j Hh L E).
  - exfalso. exact (pt_strict a _ j i Hh L (eq_sym E)).
Qed.

(* MAIN (1): the balanced extrapolation grid on the complete grid, EVERY depth, unconditionally *)
Theorem balanced_complete_unconditional a b m : a < b -> (1 <= m)%nat ->
  exists d ws, balanced_dict (complete_grid a b m) (complete_levels m) = Some d /\
               balanced_weights (complete_grid a b m) (complete_levels m) = Some ws /\
               keys_in_grid d (complete_grid a b m) = true /\
               forall p, (p <= 2 * m - 1)%nat ->
                 wpow p d = Ik p a b /\ dotQ (map (pw p) (complete_grid a b m)) ws = Ik p a b.
Proof.
  intros Hab Hm.
  assert (Pm : (1 <= 2 ^ m)%nat) by (apply Nat.neq_0_lt_0, Nat.pow_nonzero; lia).
  assert (LG := complete_grid_length a b m). assert (LV := complete_levels_length m).
  remember (inner (zip_levels (complete_grid a b m) (complete_levels m))) as pts eqn:Epts.
  assert (MS : map snd pts = full_levels m 1).
  { rewrite Epts. rewrite map_inner, zip_levels_snd by (rewrite LG, LV; reflexivity). apply inner_complete_levels. }
  assert (MF : map fst pts = nodes a (b - a) m).
  { rewrite Epts. rewrite map_inner.
    assert (Z : forall (g : list Qc) (ls : list nat), length g = length ls -> map fst (zip_levels g ls) = g).
    { induction g as [|y g IHg]; intros [|l ls] Hl; simpl in *; try lia; [reflexivity|]. f_equal. apply IHg. lia. }
    rewrite Z by (rewrite LG, LV; reflexivity). rewrite complete_grid_nodes by exact Hm.
    unfold inner. cbn [app tl]. apply removelast_last. }
  assert (NEp : pts <> []).
  { intro E. rewrite E in MS. assert (L0 := full_levels_length m 1). rewrite <- MS in L0. simpl in L0.
    assert (2 <= 2 ^ m)%nat; [|lia]. destruct m as [|m']; [lia|]. rewrite Nat.pow_succ_r'. assert (X := pow2_pos m'). lia. }
  set (t := build_btree (length pts) a pts b).
  assert (CT : cbtree m a (b - a) t).
  { assert (X : cbtree m a (b - a) (build_btree (length pts) a pts (a + (b - a)))) by (apply (build_btree_complete m 1); [exact MS | exact MF | lia]).
    replace (a + (b - a)) with b in X by ring. exact X. }
  assert (ML : list_max (complete_levels m) = m).
  { unfold complete_levels. rewrite !list_max_app, full_levels_max by exact Hm. simpl. lia. }
  assert (LZ : last (complete_levels m) 1%nat = 0%nat).
  { unfold complete_levels. change ([0%nat] ++ full_levels m 1 ++ [0%nat]) with ((0%nat :: full_levels m 1) ++ [0%nat]). apply last_last. }
  set (d := tableau m 1 (map (fun i => dict_assign (b_rule 1 i t)) (seq 1 m))).
  assert (BD : balanced_dict (complete_grid a b m) (complete_levels m) = Some d).
  { unfold balanced_dict. unfold complete_levels at 1. cbn [app]. rewrite LZ. cbn [Nat.eqb].
    rewrite complete_grid_first, complete_grid_last, <- Epts.
    assert (BB := cbtree_balanced m a (b - a) t CT). unfold t in BB. unfold d, t.
    destruct pts as [|x0 r0]; [congruence|]. rewrite BB, ML. reflexivity. }
  (* keys of the final dictionary *)
  assert (GN : complete_grid a b m = [a] ++ nodes a (b - a) m ++ [b]) by (apply complete_grid_nodes; exact Hm).
  assert (PK : ssorted (map fst d) /\ forall k, In k (map fst d) -> In k (complete_grid a b m)).
  { unfold d. apply (tableau_inv (fun e => ssorted (map fst e) /\ forall k, In k (map fst e) -> In k (complete_grid a b m))).
    - intros L T k [L1 L2] [T1 T2]. unfold extrapolate_one_step.
      destruct (dict_of_props (scale_dict (1 - - (1) / (Qc4 ^ k - 1)) L ++ scale_dict (- (1) / (Qc4 ^ k - 1)) T)) as [A B].
      split; [exact A|]. intros x Hx. apply B in Hx. rewrite map_app, !scale_dict_keys in Hx.
      apply in_app_or in Hx. destruct Hx as [Hx|Hx]; [exact (L2 x Hx) | exact (T2 x Hx)].
    - destruct m; [lia | discriminate].
    - apply Forall_forall. intros e He. apply in_map_iff in He. destruct He as [i [<- Hi]].
      destruct (dict_assign_props (b_rule 1 i t)) as [A B]. split; [exact A|].
      intros k Hk. apply B in Hk. apply (cb_rule_keys m 1 i a (b - a) t k CT) in Hk.
      rewrite GN. apply in_or_app. right. apply in_or_app. left. exact Hk. }
  destruct PK as [PS PI].
  assert (KG : keys_in_grid d (complete_grid a b m) = true).
  { apply keys_in_grid_intro; [apply complete_grid_NoDup; exact Hab | apply ssorted_NoDup; exact PS | exact PI]. }
  exists d, (map (fun g => dict_get g d) (complete_grid a b m)).
  split; [exact BD|]. split; [unfold balanced_weights; rewrite BD; reflexivity|]. split; [exact KG|].
  intros p Hp. split.
  - exact (balanced_complete_exact a b m d p Hab Hm BD Hp).
  - apply (balanced_complete_weights_exact a b m d _ p Hab Hm BD); [unfold balanced_weights; rewrite BD; reflexivity | exact KG | exact Hp].
Qed.

(* ---------------------------------------------------------------------------------------------- *)
(* (2) containers of 2^K >= 2 equal adjacent slices always produce weights *)

Lemma simpson_container_defined lo sv K h c :
  length c = (2 ^ K)%nat -> (1 <= K)%nat -> chain c -> Forall (fun s => sl_width s = h) c ->
  exists cs, container_final_from lo sv CV_Simpson c = Some cs.
Proof.
  intros HL HK Hc Hw.
  assert (P : (2 <= 2 ^ K)%nat).
  { destruct K as [|K']; [lia|]. rewrite Nat.pow_succ_r'. assert (X := pow2_pos K'). lia. }
  assert (Hne : c <> []) by (intro E; rewrite E in HL; simpl in HL; lia).
  destruct (container_grid_arith h c Hne Hc Hw) as [G _].
  set (n := S (length c)).
  assert (Hn : length (container_grid c) = n) by (rewrite G, arith_length; reflexivity).
  assert (NL : normalized_levels n = [0%nat] ++ full_levels K 1 ++ [0%nat]).
  { unfold n. rewrite HL. apply normalized_levels_full. exact HK. }
  destruct c as [|s1 [|s2 c']]; [congruence | simpl in HL; lia |].
  unfold container_final_from. rewrite Hn.
  assert (M : list_max (normalized_levels n) = K).
  { rewrite NL, !list_max_app, full_levels_max by exact HK. simpl. lia. }
  rewrite M.
  set (a := container_left (s1 :: s2 :: c')). set (b := container_right (s1 :: s2 :: c')).
  eexists. apply (opt_list_all _ (fun i => (nthQ (container_grid (s1 :: s2 :: c')) i,
      if Nat.eqb i 0 || Nat.eqb i (n - 1) then simpson_boundary_weight_from lo a b K
      else s_inner lo a b K (nth i (normalized_levels n) 0%nat)))).
  intros i Hi. apply in_seq in Hi.
  destruct (Nat.eqb i 0 || Nat.eqb i (n - 1)) eqn:Eb; [reflexivity|].
  apply orb_false_elim in Eb. destruct Eb as [E0 E1]. apply Nat.eqb_neq in E0. apply Nat.eqb_neq in E1.
  assert (Hr : (1 <= nth i (normalized_levels n) 0 <= K)%nat).
  { rewrite NL. cbn [app]. destruct i as [|i']; [lia|]. cbn [nth].
    assert (Li : (i' < length (full_levels K 1))%nat) by (rewrite full_levels_length; unfold n in *; lia).
    rewrite app_nth1 by exact Li.
    assert (X := full_levels_range K 1 _ (nth_In _ 0%nat Li)). lia. }
  unfold simpson_inner_weight_from.
  destruct (Nat.leb_spec 1 (nth i (normalized_levels n) 0%nat)) as [_|C]; [|lia].
  destruct (Nat.leb_spec (nth i (normalized_levels n) 0%nat) K) as [_|C]; [|lia].
  reflexivity.
Qed.

(* the complete grid with Simpson containers (repaired coefficients), GROUPED / GROUPED_OPTIMIZED, every depth:
   accepted, one container, exact to degree 3 - with or without forced balancing *)
Theorem complete_grid_simpson_exact g sv force a b m : a < b -> (1 <= m)%nat -> g <> G_Unit ->
  exists r, extrapolation_grid_from 1 g sv CV_Simpson force (complete_grid a b m) (complete_levels m) = Some r /\
            er_grid r = complete_grid a b m /\ er_container_sizes r = [(2 ^ m)%nat] /\
            forall k, (k <= 3)%nat -> wpow k (er_dict r) = Ik k a b.
Proof.
  intros Hab Hm Hg.
  assert (IS := complete_init_grid_slices a b m Hab Hm).
  set (slices := map (cslice a b m) (seq 0 (2 ^ m))) in *.
  assert (LS : length slices = (2 ^ m)%nat) by (unfold slices; rewrite map_length, seq_length; reflexivity).
  assert (P := pow2_pos m).
  assert (Hne : slices <> []) by (intro E; rewrite E in LS; simpl in LS; lia).
  assert (Hw : Forall (fun s => sl_width s = step_width a b m) slices).
  { unfold slices. apply Forall_forall. intros s Hs. apply in_map_iff in Hs. destruct Hs as [i [<- Hi]].
    apply in_seq in Hi. apply cslice_width. lia. }
  destruct (init_grid_slices_chain _ _ _ IS) as [Hc Hlt].
  assert (SC := grouped_single_container g slices _ Hg Hne Hw ltac:(rewrite LS; apply is_pow2_pow)).
  destruct (simpson_container_defined 1 sv m _ slices LS Hm Hc Hw) as [cs Hcs].
  assert (R : extrapolation_grid_from 1 g sv CV_Simpson false (complete_grid a b m) (complete_levels m)
              = Some (mkExt (complete_grid a b m) (complete_levels m) [length slices] (dict_of cs))).
  { unfold extrapolation_grid_from. rewrite complete_grid_length, complete_levels_length, Nat.eqb_refl.
    destruct (Nat.leb_spec 2 (S (2 ^ m))) as [_|C]; [|lia]. cbn [andb].
    rewrite IS, SC. cbn [map opt_concat]. rewrite Hcs, app_nil_r. reflexivity. }
  assert (R' : extrapolation_grid_from 1 g sv CV_Simpson force (complete_grid a b m) (complete_levels m)
               = Some (mkExt (complete_grid a b m) (complete_levels m) [length slices] (dict_of cs))).
  { destruct force; [rewrite complete_forced_same by exact Hm|]; exact R. }
  eexists. split; [exact R'|]. cbn [er_grid er_container_sizes er_dict]. split; [reflexivity|]. split; [rewrite LS; reflexivity|].
  intros k Hk.
  assert (X := simpson_sliced_exact_degree g sv false _ _ _ k R).
  cbn [er_container_sizes er_dict] in X. rewrite X.
  - unfold grid_a, grid_b. cbn [er_grid]. rewrite complete_grid_first, complete_grid_last. reflexivity.
  - constructor; [rewrite LS; destruct m as [|m']; [lia|]; rewrite Nat.pow_succ_r'; assert (Y := pow2_pos m'); lia | constructor].
  - exact Hk.
Qed.
