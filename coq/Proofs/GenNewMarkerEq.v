(* C14: the SOURCE-DERIVED new-object marker of RefinementContainer (Gen/NewMarkerGen.v, generated from
   sparseSpACE/RefinementContainer.py: clear_new_objects, get_new_objects, new_objects_size, add) does what the hand-written
   bookkeeping model (Model/Accum.v: st_new; evaluate_new true clears it, refine_step sets it to the added objects) assumes - the
   mechanism behind the idempotence of evaluate_operation that the resume theorems of C14 rest on. *)
From Coq Require Import ZArith List Bool Lia.
From SG Require Import Base.PyLib Base.PyNum Gen.NewMarkerGen Model.Accum.
Import ListNotations.
Open Scope Z_scope.

Lemma firstn_all_len {A} (l : list A) : firstn (length l) l = l.
Proof. induction l; cbn; [reflexivity|f_equal; assumption]. Qed.

Lemma skipn_all_app {A} (l m : list A) : skipn (length l) (l ++ m) = m.
Proof. induction l; cbn; [reflexivity|assumption]. Qed.

Section GenNewMarker.
  Variable A : Type.
  Notation RC := (RefCont_t A).
  Notation clear := (RefinementContainer_clear_new_objects A).
  Notation get_new := (RefinementContainer_get_new_objects A).
  Notation new_size := (RefinementContainer_new_objects_size A).
  Notation add := (RefinementContainer_add A).

  (* the marker inside its range: the new objects are the objects from position startNewObjects on *)
  Lemma get_new_is_skipn (c : RC) :
    0 <= f_startNewObjects A c <= py_len (f_refinementObjects A c) ->
    get_new c = skipn (Z.to_nat (f_startNewObjects A c)) (f_refinementObjects A c).
  Proof.
    intros [H0 H1]. unfold RefinementContainer_get_new_objects, py_slice, py_slice_bound.
    destruct (f_startNewObjects A c <? 0) eqn:E; [apply Z.ltb_lt in E; lia|].
    rewrite Z.min_l by exact H1.
    set (l := f_refinementObjects A c) in *. set (s := f_startNewObjects A c) in *.
    assert (Hl : length (skipn (Z.to_nat s) l) = Z.to_nat (py_len l - s)).
    { rewrite skipn_length. unfold py_len in *. lia. }
    rewrite <- Hl. apply firstn_all_len.
  Qed.

  (* after clear_new_objects nothing is new: what makes a second evaluate_operation add nothing *)
  Theorem clear_leaves_nothing_new (c : RC) : get_new (clear c) = [].
  Proof.
    rewrite get_new_is_skipn; cbn [RefinementContainer_clear_new_objects f_startNewObjects f_refinementObjects].
    - unfold py_len. rewrite Nat2Z.id. apply skipn_all.
    - unfold py_len. lia.
  Qed.

  Theorem clear_idempotent (c : RC) : clear (clear c) = clear c.
  Proof. reflexivity. Qed.

  Theorem clear_keeps_objects (c : RC) : f_refinementObjects A (clear c) = f_refinementObjects A c.
  Proof. reflexivity. Qed.

  (* refine(): clear_new_objects, then the children are added behind the marker - exactly they are new *)
  Theorem add_after_clear_marks_the_added (c : RC) (added : list A) : get_new (add (clear c) added) = added.
  Proof.
    rewrite get_new_is_skipn; cbn [RefinementContainer_add RefinementContainer_clear_new_objects f_startNewObjects f_refinementObjects].
    - unfold py_len. rewrite Nat2Z.id. apply skipn_all_app.
    - unfold py_len. rewrite app_length. lia.
  Qed.

  (* several add calls in one refinement round accumulate *)
  Theorem add_add (c : RC) (x y : list A) :
    0 <= f_startNewObjects A c <= py_len (f_refinementObjects A c) ->
    get_new (add (add c x) y) = get_new c ++ x ++ y.
  Proof.
    intro H. rewrite !get_new_is_skipn; cbn [RefinementContainer_add f_startNewObjects f_refinementObjects]; [|exact H|].
    - rewrite <- app_assoc. rewrite skipn_app.
      replace (Z.to_nat (f_startNewObjects A c) - length (f_refinementObjects A c))%nat with O by (unfold py_len in H; lia).
      reflexivity.
    - unfold py_len in *. rewrite !app_length. lia.
  Qed.

  Theorem new_objects_size_is_number_of_new_objects (c : RC) :
    0 <= f_startNewObjects A c <= py_len (f_refinementObjects A c) -> py_len (get_new c) = new_size c.
  Proof.
    intro H. rewrite get_new_is_skipn by exact H. unfold RefinementContainer_new_objects_size, py_len in *.
    rewrite skipn_length. lia.
  Qed.
End GenNewMarker.

(* the hand-written bookkeeping model of C05 / C14 keeps the marker as the list st_new of area ids: its two updates are the
   generated ones on a container of ids *)
Theorem gen_marker_is_model_marker (V : Type) (vzero : V) (vadd : V -> V -> V) (vopp : V -> V)
        (c : RefCont_t Z) parts removed added (s : astate V) :
  st_new (evaluate_new V vzero vadd vopp true parts s) = RefinementContainer_get_new_objects Z (RefinementContainer_clear_new_objects Z c) /\
  st_new (refine_step V vzero vadd vopp removed added s) =
    RefinementContainer_get_new_objects Z (RefinementContainer_add Z (RefinementContainer_clear_new_objects Z c) added).
Proof.
  split.
  - rewrite clear_leaves_nothing_new. reflexivity.
  - rewrite add_after_clear_marks_the_added.
    assert (H : forall ids (t : astate V), st_new (apply_event V vzero vadd vopp t (ARemove ids)) = st_new t).
    { intros ids. cbn [apply_event]. induction ids as [|i r IH]; intro t; cbn [fold_left]; [reflexivity|]. rewrite IH. reflexivity. }
    unfold refine_step. rewrite H. reflexivity.
Qed.
