(* C12 — link of the formal one-variable polynomial integral to the Riemann integral over the reals (Coquelicot).
   For Polynomial1d the value of the analytic integral (proved equal to the formal integral in FunPolyProofs) IS the
   Riemann integral of the real polynomial function. Uses the standard library's real numbers, hence its axioms
   (listed by Print Assumptions in Props/C12.v); everything else in C12 stays axiom-free. *)
From Coq Require Import Reals QArith Qcanon Qreals List Lia Lra.
From Coquelicot Require Import Coquelicot.
From SG Require Import Base.QcUtil Model.FunPoly Proofs.FunPolyProofs.
Import ListNotations.
Open Scope R_scope.

Definition QcR (q : Qc) : R := Q2R (this q).

Lemma QcR_plus a b : QcR (a + b)%Qc = QcR a + QcR b.
Proof. unfold QcR. cbn [Qcplus Q2Qc this]. rewrite (Qeq_eqR _ _ (Qred_correct _)). apply Q2R_plus. Qed.
Lemma QcR_mult a b : QcR (a * b)%Qc = QcR a * QcR b.
Proof. unfold QcR. cbn [Qcmult Q2Qc this]. rewrite (Qeq_eqR _ _ (Qred_correct _)). apply Q2R_mult. Qed.
Lemma QcR_opp a : QcR (- a)%Qc = - QcR a.
Proof. unfold QcR. cbn [Qcopp Q2Qc this]. rewrite (Qeq_eqR _ _ (Qred_correct _)). apply Q2R_opp. Qed.
Lemma QcR_minus a b : QcR (a - b)%Qc = QcR a - QcR b.
Proof. unfold Qcminus. rewrite QcR_plus, QcR_opp. reflexivity. Qed.
Lemma QcR_0 : QcR 0%Qc = 0.
Proof. unfold QcR. cbn. unfold Q2R. simpl. lra. Qed.
Lemma QcR_1 : QcR 1%Qc = 1.
Proof. unfold QcR. cbn. unfold Q2R. simpl. lra. Qed.
Lemma QcR_inv a : a <> 0%Qc -> QcR (/ a)%Qc = / QcR a.
Proof.
  intro H. unfold QcR. cbn [Qcinv Q2Qc this]. rewrite (Qeq_eqR _ _ (Qred_correct _)). apply Q2R_inv.
  intro E. apply H. apply Qc_is_canon. exact E.
Qed.
Lemma QcR_div a b : b <> 0%Qc -> QcR (a / b)%Qc = QcR a / QcR b.
Proof. intro H. unfold Qcdiv. rewrite QcR_mult, QcR_inv by assumption. reflexivity. Qed.
Lemma QcR_pow a n : QcR (a ^ n)%Qc = QcR a ^ n.
Proof. induction n as [|n IH]; [apply QcR_1|]. cbn [Qcpower pow]. rewrite QcR_mult, IH. reflexivity. Qed.
Lemma QcR_qn n : QcR (qn n) = INR n.
Proof.
  unfold QcR, qn, qc_of_Z. cbn [Q2Qc this]. rewrite (Qeq_eqR _ _ (Qred_correct _)).
  unfold Q2R, inject_Z. cbn [Qnum Qden]. rewrite INR_IZR_INZ. lra.
Qed.

Lemma INR_S_neq0 n : INR (S n) <> 0.
Proof. apply not_0_INR. discriminate. Qed.

(* Riemann integral of a monomial *)
Lemma RInt_monomial n a b : is_RInt (fun x => x ^ n) a b (b ^ S n / INR (S n) - a ^ S n / INR (S n)).
Proof.
  apply (is_RInt_derive (fun x => x ^ S n / INR (S n)) (fun x => x ^ n)).
  - intros x _. auto_derive; [trivial|].
    change (match n with 0%nat => 1 | S _ => INR n + 1 end) with (INR (S n)). field. apply INR_S_neq0.
  - intros x _. apply (ex_derive_continuous (fun x0 : R => x0 ^ n)). auto_derive. trivial.
Qed.

(* the real polynomial function sum_j c_j x^(i+j) *)
Fixpoint pevR (cs : list Qc) (i : nat) (x : R) : R :=
  match cs with [] => 0 | c :: r => QcR c * x ^ i + pevR r (S i) x end.

Lemma poly1d_eval_real cs : forall x i acc, QcR (poly1d_eval cs x i acc) = QcR acc + pevR cs i (QcR x).
Proof.
  induction cs as [|c cs IH]; intros x i acc; cbn [poly1d_eval pevR]; [lra|].
  rewrite IH, QcR_plus, QcR_mult, QcR_pow. lra.
Qed.

Lemma formal_sum_real cs a b : forall i,
  QcR (sumQ (map (fun m : mono => (fst m * mono_int (snd m) [a] [b])%Qc)
                 (map (fun ic : nat * Qc => (snd ic, [fst ic])) (combine (seq i (length cs)) cs)))) =
  fold_right (fun ic acc => QcR (snd ic) * (QcR b ^ S (fst ic) / INR (S (fst ic)) - QcR a ^ S (fst ic) / INR (S (fst ic))) + acc)
             0 (combine (seq i (length cs)) cs).
Proof.
  induction cs as [|c cs IH]; intro i; cbn [length seq combine map sumQ fold_right fst snd]; [apply QcR_0|].
  rewrite QcR_plus, IH, QcR_mult. f_equal. f_equal.
  rewrite mono_int_1d, QcR_minus, !QcR_div, !QcR_pow, QcR_qn by apply qn_S_neq0. reflexivity.
Qed.

Lemma RInt_pevR cs a b : forall i,
  is_RInt (pevR cs i) a b
    (fold_right (fun ic acc => QcR (snd ic) * (b ^ S (fst ic) / INR (S (fst ic)) - a ^ S (fst ic) / INR (S (fst ic))) + acc)
                0 (combine (seq i (length cs)) cs)).
Proof.
  induction cs as [|c cs IH]; intro i; cbn [pevR length seq combine fold_right fst snd].
  - pose proof (is_RInt_const a b (0 : R)) as H.
    match type of H with is_RInt _ _ _ ?v => assert (E : v = 0) by (unfold scal; simpl; unfold mult; simpl; ring) end.
    rewrite E in H. exact H.
  - apply (is_RInt_plus (fun x => QcR c * x ^ i) (pevR cs (S i))).
    + apply (is_RInt_scal (fun x => x ^ i) a b (QcR c)). apply RInt_monomial.
    + apply IH.
Qed.

(* Coquelicot's Riemann integral on R -> R (is_RInt at the normed module R), named so that Props need not import Coquelicot *)
Definition is_riemann_integral (f : R -> R) (a b v : R) : Prop := is_RInt f a b v.

(* Polynomial1d: the value returned by getAnalyticSolutionIntegral (as coded), read as a real number, is the Riemann
   integral over [a, b] of the real function x |-> eval((x,)) *)
Theorem poly1d_integral_is_riemann cs a b :
  exists v, atom_int false (FPoly1d cs) [a] [b] = IVal v /\
            is_riemann_integral (pevR cs 0) (QcR a) (QcR b) (QcR v) /\
            (forall x : Qc, exists y, atom_eval (FPoly1d cs) [x] = IVal y /\ QcR y = pevR cs 0 (QcR x)).
Proof.
  exists (mp_int (atom_denote 1 (FPoly1d cs)) [a] [b]). split; [|split].
  - apply (atom_int_cur_correct 1 (FPoly1d cs) [a] [b]); reflexivity.
  - unfold is_riemann_integral. refine (eq_ind_r (fun v => is_RInt (pevR cs 0) (QcR a) (QcR b) v) (RInt_pevR cs (QcR a) (QcR b) 0%nat) _).
    exact (formal_sum_real cs a b 0%nat).
  - intro x. eexists. split; [reflexivity|]. rewrite poly1d_eval_real, QcR_0. lra.
Qed.
