(* C08 (phase 3): Clenshaw-Curtis with its EXACT algebraic nodes, levels 1..4 (3, 5, 9, 17 points).
   - the rule written over abstract ring operations (Model/AlgTower.v) is, at Qc, the model of the code (cc_factor);
   - in the tower field F_l = Q(cos(pi/2^l)) the generator r_l satisfies the node equation T_{N/2}(r) = 0 and ALL moments
     up to degree N + 1 of the reference rule (nodes -T_j(r), the code's weight factors) equal the integrals of the monomials
     over [-1, 1] - exact equality of field elements: the irrational parts vanish; degree N + 2 is not integrated exactly. *)
From Coq Require Import ZArith List QArith Qcanon Bool Arith Lia.
From SG Require Import Base.QcUtil Model.Tensor Model.LocalGrids Model.LocalRules Model.AlgTower Proofs.TensorRule
  Proofs.LocalGridsBase.
Import ListNotations.
Open Scope Qc_scope.

(* ---- at Qc the generic rule is the model of the code ---- *)
Lemma osum_qc l : osum qc_ops l = sumQ l.
Proof. induction l as [|x l IH]; [reflexivity|]. cbn [osum sumQ]. rewrite IH. reflexivity. Qed.

Theorem occ_factor_is_cc_factor npwb tab i :
  occ_factor qc_ops npwb tab i = cc_factor npwb (fun m => cheb_at qc_ops tab (2 * m)) i.
Proof.
  unfold occ_factor, cc_factor. destruct (2 <? npwb)%nat; [|reflexivity].
  destruct ((i =? 0)%nat || (i =? npwb - 1)%nat); [reflexivity|].
  cbn [omul oadd oQ o1 qc_ops]. rewrite osum_qc.
  assert (E : map (occ_term qc_ops npwb tab i) (seq 1 ((npwb - 1) / 2))
              = map (cc_term npwb (fun m => cheb_at qc_ops tab (2 * m)) i) (seq 1 ((npwb - 1) / 2))).
  { apply map_ext. intro j. unfold occ_term, cc_term. cbn [omul oQ qc_ops]. reflexivity. }
  rewrite E. reflexivity.
Qed.

Lemma opow_qc x k : opow qc_ops x k = x ^ k.
Proof. induction k as [|k IH]; [reflexivity|]. cbn [opow Qcpower]. rewrite IH. reflexivity. Qed.

Theorem occ_moment_is_rule_moment npwb tab k :
  occ_moment qc_ops npwb tab k
  = apply1 (mono k) (map Qcopp (map (cheb_at qc_ops tab) (seq 0 npwb)))
      (map (cc_factor npwb (fun m => cheb_at qc_ops tab (2 * m))) (seq 0 npwb)).
Proof.
  unfold occ_moment, apply1. rewrite osum_qc. generalize (seq 0 npwb). intro l.
  induction l as [|j l IH]; [reflexivity|]. cbn [map sumQ dotQ]. rewrite IH.
  rewrite occ_factor_is_cc_factor. cbn [omul oopp qc_ops]. rewrite opow_qc. unfold mono. ring.
Qed.

(* ---- equality test of the tower is equality ---- *)
Definition eqb_sound {A} (R : ops A) : Prop := forall x y, oeqb R x y = true -> x = y.

Lemma qc_eqb_sound : eqb_sound qc_ops.
Proof. intros x y H. apply Qc_eqb_eq. exact H. Qed.

Lemma ext_eqb_sound {A} (R : ops A) d : eqb_sound R -> eqb_sound (ext_ops R d).
Proof.
  intros HR [x1 x2] [y1 y2] H. cbn [oeqb ext_ops fst snd] in H. apply andb_true_iff in H. destruct H as [H1 H2].
  f_equal; apply HR; assumption.
Qed.

Lemma exact_upto_spec {A} (R : ops A) npwb r kmax : eqb_sound R -> occ_exact_upto R npwb r kmax = true ->
  forall k, (k <= kmax)%nat ->
    occ_moment R npwb (cheb_list R r (2 * ((npwb - 1) * ((npwb - 1) / 2)) + npwb)) k = oQ R (mint k (-(1)) 1).
Proof.
  intros HR H k Hk. unfold occ_exact_upto in H. rewrite forallb_forall in H. apply HR. apply H. apply in_seq. lia.
Qed.

(* ---- levels 1..4: node equation and exactness up to degree N + 1, with the exact nodes ---- *)
Theorem cc_tower_level1 : node_equation F1 3 r1 = true /\ forall k, (k <= 3)%nat ->
  occ_moment F1 3 (cheb_list F1 r1 (2 * (2 * 1) + 3)) k = oQ F1 (mint k (-(1)) 1).
Proof. split; [vm_compute; reflexivity|]. apply (exact_upto_spec F1 3 r1 3 qc_eqb_sound). vm_compute. reflexivity. Qed.

Theorem cc_tower_level2 : node_equation F2 5 r2 = true /\ forall k, (k <= 5)%nat ->
  occ_moment F2 5 (cheb_list F2 r2 (2 * (4 * 2) + 5)) k = oQ F2 (mint k (-(1)) 1).
Proof.
  split; [vm_compute; reflexivity|]. apply (exact_upto_spec F2 5 r2 5 (ext_eqb_sound _ _ qc_eqb_sound)). vm_compute. reflexivity.
Qed.

Theorem cc_tower_level3 : node_equation F3 9 r3 = true /\ forall k, (k <= 9)%nat ->
  occ_moment F3 9 (cheb_list F3 r3 (2 * (8 * 4) + 9)) k = oQ F3 (mint k (-(1)) 1).
Proof.
  split; [vm_compute; reflexivity|].
  apply (exact_upto_spec F3 9 r3 9 (ext_eqb_sound _ _ (ext_eqb_sound _ _ qc_eqb_sound))). vm_compute. reflexivity.
Qed.

Theorem cc_tower_level4 : node_equation F4 17 r4 = true /\ forall k, (k <= 17)%nat ->
  occ_moment F4 17 (cheb_list F4 r4 (2 * (16 * 8) + 17)) k = oQ F4 (mint k (-(1)) 1).
Proof.
  split; [vm_compute; reflexivity|].
  apply (exact_upto_spec F4 17 r4 17 (ext_eqb_sound _ _ (ext_eqb_sound _ _ (ext_eqb_sound _ _ qc_eqb_sound)))). vm_compute. reflexivity.
Qed.

(* degree N + 2 is NOT integrated exactly (the degree of exactness N + 1 of the code's rule is sharp) *)
Theorem cc_tower_degree_sharp :
  occ_exact_upto F1 3 r1 4 = false /\ occ_exact_upto F2 5 r2 6 = false /\ occ_exact_upto F3 9 r3 10 = false /\
  occ_exact_upto F4 17 r4 18 = false.
Proof. repeat split; vm_compute; reflexivity. Qed.

(* the generators are what the half-angle formula says: r_{l+1}^2 = (1 + r_l)/2, starting from r_1 = cos(pi/2) = 0 *)
Theorem tower_generators :
  omul F2 r2 r2 = oQ F2 Qchalf /\
  omul F3 r3 r3 = (half_angle F2 r2, o0 F2) /\
  omul F4 r4 r4 = (half_angle F3 r3, o0 F3).
Proof. repeat split; vm_compute; reflexivity. Qed.
