(* C11 — the model ACCEPTS the complete dyadic grid with the UNIT grouping and sliced-Romberg slices for EVERY depth: every
   support pair of every slice contains the slice and is non-degenerate, so no assert of
   get_weight_for_left_and_right_support_point fails.  With Proofs/RombergUnit.v: unconditional degree 2m+1. *)
From Coq Require Import ZArith List QArith Qcanon Bool Arith Lia.
From SG Require Import Base.QcUtil Model.Romberg Proofs.RombergBasics Proofs.RombergCoeff Proofs.RombergTree
  Proofs.RombergSliced Proofs.RombergExact Proofs.RombergGrouped Proofs.RombergFuel Proofs.RombergAnnihilate Proofs.RombergEM
  Proofs.RombergDegree Proofs.RombergComplete Proofs.RombergForced Proofs.RombergUnit.
Import ListNotations.
Open Scope Qc_scope.

Lemma path_contains d : forall start fs p, (start <= fs < start + 2 ^ d)%nat -> In p (path d start fs) -> (fst p <= fs < snd p)%nat.
Proof.
  induction d as [|d IH]; intros start fs p H I; [destruct I|].
  cbn [path] in I. rewrite Nat.pow_succ_r' in *.
  destruct (Nat.leb_spec (start + 2 ^ d) fs) as [Le|Gt]; destruct I as [<-|I]; cbn [fst snd]; try lia; apply IH in I; lia.
Qed.

Lemma opt_concat_defined {A B} (f : A -> option (list B)) l :
  (forall x, In x l -> exists y, f x = Some y) -> exists cs, opt_concat (map f l) = Some cs.
Proof.
  induction l as [|x l IH]; intro H; [exists []; reflexivity|].
  destruct (H x (or_introl eq_refl)) as [y Hy]. destruct (IH (fun z I => H z (or_intror I))) as [ys Hys].
  exists (y ++ ys). cbn [map opt_concat]. rewrite Hy, Hys. reflexivity.
Qed.

Lemma pt_mono a h i j : 0 < h -> (i <= j)%nat -> a + qn i * h <= a + qn j * h.
Proof.
  intros Hh Hij. replace j with (i + (j - i))%nat by lia. rewrite qn_add.
  apply Qcle_minus_iff. replace (a + (qn i + qn (j - i)) * h + - (a + qn i * h)) with (qn (j - i) * h) by ring.
  destruct (Qc_eq_dec (qn (j - i)) 0) as [E|NE]; [rewrite E; rewrite Qcmult_0_l; apply Qcle_refl|].
  apply Qclt_le_weak. apply mul_pos; [|exact Hh].
  destruct (Qcle_lt_or_eq _ _ (qn_nonneg (j - i))) as [L|E]; [exact L | congruence].
Qed.

Lemma pt_strict a h i j : 0 < h -> (i < j)%nat -> a + qn i * h <> a + qn j * h.
Proof.
  intros Hh Hij E. replace j with (i + S (j - i - 1))%nat in E by lia. rewrite qn_add in E.
  assert (Z : qn (S (j - i - 1)) * h = 0).
  { transitivity (a + (qn i + qn (S (j - i - 1))) * h - (a + qn i * h)); [ring | rewrite <- E; ring]. }
  apply Qcmult_integral in Z. destruct Z as [Z|Z]; [exact (qn_S_neq0 _ Z) | rewrite Z in Hh; discriminate Hh].
Qed.

Lemma complete_slice_accepted a b m i : a < b -> (1 <= m)%nat -> (i < 2 ^ m)%nat ->
  exists cs, romberg_slice_final (cslice a b m i) = Some cs.
Proof.
  intros Hab Hm Hi. unfold romberg_slice_final.
  assert (SS : sl_supp (cslice a b m i)
               = map (fun se => (nthQ (complete_grid a b m) (fst se), nthQ (complete_grid a b m) (snd se)))
                     ((0%nat, (2 ^ m)%nat) :: path m 0 i)).
  { unfold cslice. cbn [sl_supp]. unfold support_sequence. rewrite complete_support_idx by exact Hi. reflexivity. }
  rewrite SS. cbn [map].
  assert (ML : sl_max_level (cslice a b m i) = m).
  { unfold sl_max_level, cslice. cbn [sl_ll sl_rl]. apply complete_levels_adjacent; assumption. }
  rewrite ML.
  set (F := fun se : nat * nat => (nthQ (complete_grid a b m) (fst se), nthQ (complete_grid a b m) (snd se))).
  set (idx := (0%nat, (2 ^ m)%nat) :: path m 0 i).
  change (F (0%nat, (2 ^ m)%nat) :: map F (path m 0 i)) with (map F idx).
  assert (Lidx : length idx = S m) by (unfold idx; cbn [length]; rewrite path_length; reflexivity).
  apply opt_concat_defined. intros j Hj. apply in_seq in Hj.
  change ((nthQ (complete_grid a b m) (fst (0%nat, (2 ^ m)%nat)), nthQ (complete_grid a b m) (snd (0%nat, (2 ^ m)%nat))) :: map F (path m 0 i))
    with (map F idx).
  rewrite (nth_indep _ (0, 0) (F (0%nat, 0%nat))) by (rewrite map_length; lia). rewrite map_nth.
  set (p := nth j idx (0%nat, 0%nat)).
  assert (Hp : In p idx) by (apply nth_In; lia).
  assert (Bp : (fst p <= i /\ i < snd p /\ snd p <= 2 ^ m)%nat).
  { unfold idx in Hp. destruct Hp as [<-|Hp]; [cbn; lia|].
    assert (X := path_contains m 0 i p ltac:(lia) Hp). assert (Y := path_bounds m 0 i p Hp). lia. }
  unfold F. cbn [fst snd].
  assert (Hh := step_width_pos a b m Hab).
  assert (RP : exists wl wr, romberg_slice_pair (cslice a b m i) (nthQ (complete_grid a b m) (fst p)) (nthQ (complete_grid a b m) (snd p)) = Some (wl, wr)).
  { unfold romberg_slice_pair, cslice. cbn [sl_l sl_r]. rewrite !complete_grid_nth by lia.
    assert (C1 : Qc_leb (a + qn (fst p) * step_width a b m) (a + qn i * step_width a b m) = true)
      by (apply Qc_leb_le; apply pt_mono; [exact Hh | lia]).
    assert (C2 : Qc_leb (a + qn (S i) * step_width a b m) (a + qn (snd p) * step_width a b m) = true)
      by (apply Qc_leb_le; apply pt_mono; [exact Hh | lia]).
    assert (C3 : Qc_eqb (a + qn (fst p) * step_width a b m) (a + qn (snd p) * step_width a b m) = false).
    { destruct (Qc_eqb _ _) eqn:E; [|reflexivity]. apply Qc_eqb_eq in E. exfalso. revert E. apply pt_strict; [exact Hh | lia]. }
    rewrite C1, C2, C3. cbn [andb negb]. eexists. eexists. reflexivity. }
  destruct RP as [wl [wr RP]]. rewrite RP. eexists. reflexivity.
Qed.

(* MAIN: UNIT grouping, sliced Romberg, complete grid of EVERY depth: accepted and exact to degree 2m+1 *)
Theorem unit_complete_accepted_exact lo cv force a b m : a < b -> (1 <= m)%nat ->
  exists r, extrapolation_grid_from lo G_Unit SV_Romberg cv force (complete_grid a b m) (complete_levels m) = Some r /\
            er_grid r = complete_grid a b m /\
            forall k, (k <= 2 * m + 1)%nat -> wpow k (er_dict r) = Ik k a b.
Proof.
  intros Hab Hm.
  assert (E : exists r, extrapolation_grid_from lo G_Unit SV_Romberg cv force (complete_grid a b m) (complete_levels m) = Some r).
  { destruct force; [rewrite complete_forced_same by exact Hm|];
    (unfold extrapolation_grid_from; rewrite complete_grid_length, complete_levels_length, Nat.eqb_refl;
     assert (P : (1 <= 2 ^ m)%nat) by (apply Nat.neq_0_lt_0, Nat.pow_nonzero; lia);
     destruct (Nat.leb_spec 2 (S (2 ^ m))) as [_|C]; [|lia]; cbn [andb];
     rewrite (complete_init_grid_slices a b m Hab Hm), unit_containers, !map_map;
     destruct (opt_concat_defined (fun i => container_final_from lo SV_Romberg cv [cslice a b m i]) (seq 0 (2 ^ m))) as [cs Hcs];
     [intros i Hi; apply in_seq in Hi; apply (complete_slice_accepted a b m i Hab Hm); lia | rewrite Hcs; eexists; reflexivity]). }
  destruct E as [r Hr]. exists r. split; [exact Hr|].
  split; [exact (proj1 (unit_complete_exact lo cv force a b m r 0 Hab Hm Hr ltac:(lia)))|].
  intros k Hk. exact (proj2 (unit_complete_exact lo cv force a b m r k Hab Hm Hr Hk)).
Qed.
