(* C04 / extend-split: the REPORTED result.  C05 proves (Proofs/AccumESProofs.v, imported) that the accumulator of the driver
   (init; evaluate the new areas; refine = remove the parent's value, add the children) is, at every stop of every history, the sum
   over the current areas of their values under the current scheme (es_recompute).  Here: with the per-component operation
   F = tensor trapezoidal rule applied to a multilinear monomial, that sum is the model integral es_integral of C04, hence - by per-area
   exactness (C04_es_area_integral_exact), the C07 tiling in its moment form (Proofs/ESMoments.v) and C07's local-combination
   theorems - the reported result is the exact moment of the domain. *)
From Coq Require Import ZArith List Bool QArith Qcanon Lia.
From SG Require Import Base.QcUtil Model.CombiScheme Model.Tensor Model.LocalGrids Model.ExtendSplit Model.ESInterp Model.ESExact
     Model.Accum Model.AccumES Proofs.ESGeom Proofs.ESInv Proofs.ESDict Proofs.ESExact Proofs.ESMoments Proofs.ESReach Proofs.AccumESProofs.
Import ListNotations.
Open Scope Z_scope.

(* grid.integrate of the monomial x^ex on one component grid (coarsened, lmin-relative level vector l) of the box bx *)
Definition Fmono (a b : list Qc) (ex : list nat) (bx : box) (l : lv) : Qc :=
  grid_integrate_monomial FTrap true (dims_of a b (fst bx) (snd bx) l) ex.

Lemma es_area_value_is_area_integral a b ex cp x :
  es_area_value (Fmono a b ex) cp x = area_integral a b (abox x, local_combi cp (a_coarse x)) ex.
Proof. reflexivity. Qed.

Section Reach.
Variables (dim : nat) (version nrbe lmin lmax base : Z) (auto single : bool) (a b : list Qc) (bens0 : list (box * Z)).
Hypotheses (Hbox : wfbox a b) (Hdim : length a = dim) (Hlev : lmin <= lmax).
Let reach (hist : list event) : state :=
  run_events (start_state dim version nrbe lmin lmax base auto single a b bens0) hist.

(* the recomputation over the current areas IS the model integral of C04 *)
Theorem es_recompute_is_es_integral hist ex :
  es_recompute (Fmono a b ex) (reach hist) = es_integral a b (state_areas (reach hist)) ex.
Proof.
  unfold es_recompute, es_integral, state_areas, es_live.
  destruct (run_good dim a b lmin hist _ (start_good dim version nrbe lmin lmax base auto single a b bens0 Hbox Hdim Hlev)) as [_ [HA _]].
  fold (reach hist) in HA.
  assert (Ef : filter (fun x => negb (a_dead x)) (st_objs (reach hist)) = st_objs (reach hist)).
  { unfold all_alive in HA. induction (st_objs (reach hist)) as [|x l IH]; [reflexivity|]. inversion HA as [|? ? Hx HA']; subst.
    simpl. rewrite Hx. simpl. f_equal. apply IH. exact HA'. }
  rewrite Ef, map_map. f_equal. apply map_ext_in. intros x Hx. rewrite es_area_value_is_area_integral. cbn [fst snd].
  pose proof (area_grids_history dim version nrbe lmin lmax base auto single a b bens0 Hbox Hdim Hlev hist x Hx) as E.
  pose proof (reach_cp dim version nrbe lmin lmax base auto single a b bens0 Hbox Hdim Hlev hist) as Ecp.
  unfold reach in *. rewrite E, Ecp. reflexivity.
Qed.

(* exactness of the recomputation, every reachable state with valid local combinations *)
Theorem es_recompute_multilinear_exact hist ex :
  (forall x, In x (st_objs (reach hist)) ->
     valid_local_combi dim (area_grids (st_cp (reach hist)) x) = true /\ area_grids (st_cp (reach hist)) x <> []) ->
  length ex = dim -> Forall (fun k => (k <= 1)%nat) ex ->
  es_recompute (Fmono a b ex) (reach hist) = bmom a b ex.
Proof.
  intros Hv Lx Fx. rewrite es_recompute_is_es_integral.
  exact (es_reachable_multilinear_exact dim version nrbe lmin lmax base auto single a b bens0 Hbox Hdim Hlev hist ex Hv Lx Fx).
Qed.

(* the REPORTED result: the accumulator machine of the driver coupled to the model state reports the exact moment *)
Theorem es_reported_multilinear_exact hist ex (area_of : Z -> area) (s : astate Qc) :
  Coupled Qc 0%Qc Qcplus (fun id => es_area_value (Fmono a b ex) (st_cp (reach hist)) (area_of id)) s -> st_new s = [] ->
  es_live (reach hist) = map area_of (map fst (st_areas s)) ->
  (forall x, In x (st_objs (reach hist)) ->
     valid_local_combi dim (area_grids (st_cp (reach hist)) x) = true /\ area_grids (st_cp (reach hist)) x <> []) ->
  length ex = dim -> Forall (fun k => (k <= 1)%nat) ex ->
  st_total s = bmom a b ex /\ st_cont s = bmom a b ex.
Proof.
  intros Hc Hn Hl Hv Lx Fx.
  destruct (es_accumulator_is_recomputation (Fmono a b ex) (reach hist) area_of s Hc Hn Hl) as [T C].
  rewrite T, C, (es_recompute_multilinear_exact hist ex Hv Lx Fx). split; reflexivity.
Qed.
End Reach.

(* coarsening version 0 (default), d >= 2: no hypothesis on the local combinations *)
Theorem es_reported_multilinear_exact_v0 n nrbe lmin lmax base auto single a b bens0 hist ex (area_of : Z -> area) (s : astate Qc) :
  wfbox a b -> length a = S (S n) -> lmin <= lmax ->
  let st := run_events (start_state (S (S n)) 0 nrbe lmin lmax base auto single a b bens0) hist in
  Coupled Qc 0%Qc Qcplus (fun id => es_area_value (Fmono a b ex) (st_cp st) (area_of id)) s -> st_new s = [] ->
  es_live st = map area_of (map fst (st_areas s)) ->
  length ex = S (S n) -> Forall (fun k => (k <= 1)%nat) ex ->
  st_total s = bmom a b ex /\ st_cont s = bmom a b ex.
Proof.
  intros Hbox Hdim Hlev st Hc Hn Hl Lx Fx.
  destruct (es_accumulator_is_recomputation (Fmono a b ex) st area_of s Hc Hn Hl) as [T C].
  rewrite T, C. unfold st. rewrite (es_recompute_is_es_integral (S (S n)) 0 nrbe lmin lmax base auto single a b bens0 Hbox Hdim Hlev hist ex).
  rewrite (es_reachable_multilinear_exact_v0 n nrbe lmin lmax base auto single a b bens0 hist ex Hbox Hdim Hlev Lx Fx). split; reflexivity.
Qed.
