(* C03: the combined interpolant of the dimension-wise strategy reproduces an ARBITRARY function at every point of the
   combined grid. Instantiation of Proofs/NodalExact.v (lead) with the piecewise-linear interpolation on the stripes. *)
From Coq Require Import ZArith List Bool QArith Qcanon Arith Lia Sorted.
From SG Require Import Base.QcUtil Model.CombiScheme Model.RefTree.
From SG Require Import Model.StdCombi.
From SG Require Import Model.DimWise Model.DimWiseInterp
     Proofs.SchemeBasics Proofs.SchemeIE Proofs.SchemeInv Proofs.CombiAbstract Proofs.NodalExact Proofs.StdNodal
     Proofs.RefTreeInv Proofs.DimWiseStripes Proofs.DimWiseCombi Proofs.C03Main.
Import ListNotations.
Open Scope Z_scope.

Lemma dw_stripe_coords_pts o st d l : dw_stripe_coords o st d l = dw_stripe_pts o st d l.
Proof. reflexivity. Qed.

(* the evaluation functionals: E_d(l) g = (piecewise-linear interpolant of g on the stripe of (d,l)) (x_d) *)
Definition dw_Efam (o : dw_opts) (st : dw_state) (d0 : nat) (x : list Qc) : list (Z -> list (Qc * Qc)) :=
  map (fun dx => fun l => interp1_fnl (dw_stripe_pts o st (fst dx) l) (snd dx)) (combine (seq d0 (length x)) x).

Lemma zipF_zipE_dw o st : forall lv x d0, length x = length lv ->
  zipF (map (fun dl => dw_stripe_coords o st (fst dl) (snd dl)) (combine (seq d0 (length lv)) lv)) x
  = zipE Qc (dw_Efam o st d0 x) lv.
Proof.
  induction lv as [|l lv IH]; intros x d0 Lx.
  - destruct x; [reflexivity | discriminate].
  - destruct x as [|x0 x]; [discriminate|]. simpl in Lx. injection Lx as Lx.
    unfold dw_Efam. cbn [length seq combine map zipF zipE fst snd]. apply f_equal2; [reflexivity|]. apply (IH x (S d0) Lx).
Qed.

Lemma dw_comp_interp_appT o st a b lv f x : length x = length lv ->
  dw_comp_interp o st a b lv f x = appT Qc (zipE Qc (dw_Efam o st 0 x) lv) (masked (o_boundary o) a b f).
Proof. intro Lx. unfold dw_comp_interp, dw_grids. rewrite interpN_appT, zipF_zipE_dw by assumption. reflexivity. Qed.

Lemma strip_ends_incl {A} (l : list A) : incl (DimWise.strip_ends l) l.
Proof.
  unfold DimWise.strip_ends. intros x Hx. destruct l as [|y l]; [contradiction|]. simpl in Hx. right.
  clear y. induction l as [|z l IH]; [contradiction|]. simpl in Hx. destruct l as [|w l]; [contradiction|].
  destruct Hx as [->|Hx]; [left; reflexivity | right; apply IH; assumption].
Qed.

Lemma dw_P_sub_pts o st d l : incl (dw_P o st d l) (dw_stripe_pts o st d l).
Proof. unfold dw_P. destruct (o_boundary o); [apply incl_refl | apply strip_ends_incl]. Qed.

Lemma dw_stripe_pts_nested o st d l l' : l <= l' -> incl (dw_stripe_pts o st d l) (dw_stripe_pts o st d l').
Proof.
  intros Hle x Hx. unfold dw_stripe_pts in *. destruct (stripe_dim o st d l) as [s1|] eqn:E1; [|contradiction].
  destruct (dw_stripes_monotone o st d l l' s1 E1 Hle) as (s2 & E2 & Hincl). rewrite E2.
  apply in_map_iff in Hx. destruct Hx as (p & <- & Hp). apply in_map. apply Hincl. assumption.
Qed.

Lemma dw_stripe_pts_sorted a b o st d l : TilesOK a b st -> StronglySorted Qclt (dw_stripe_pts o st d l).
Proof.
  intro HT. unfold dw_stripe_pts. destruct (stripe_dim o st d l) as [s|] eqn:E; [|constructor].
  destruct (nth_error (st_trees st) d) as [t|] eqn:Et.
  - destruct (dw_stripes_sorted_with_endpoints a b o st d l t s HT Et E) as [S0 _]. exact S0.
  - apply nth_error_None in Et. rewrite stripe_dim_is_stripe in E. rewrite nth_overflow in E by assumption. discriminate.
Qed.

(* krons for a point of the tensor grid of level vector k *)
Lemma krons_of_dw_in_grid a b o st lmin : TilesOK a b st -> forall x k d0,
  in_grid Qc Qc_eqb (dw_P o st) d0 x k = true -> Forall (fun v => lmin <= v) k ->
  krons Qc lmin (dw_Efam o st d0 x) k x.
Proof.
  intros HT x. induction x as [|x0 x IH]; intros k d0 Hin HF.
  - destruct k; [|discriminate]. constructor.
  - destruct k as [|k0 k]; [discriminate|]. simpl in Hin. apply andb_true_iff in Hin. destruct Hin as [Hm Hin].
    inversion HF as [|? ? Hk0 HF']; subst.
    unfold dw_Efam. cbn [length seq combine map]. constructor.
    + intros l g Hl. simpl. apply interp1_at_node.
      * eapply dw_stripe_pts_sorted. eassumption.
      * apply (memX_In Qc Qc_eqb Qc_eqb_eq) in Hm. apply (dw_stripe_pts_nested o st d0 k0 l Hl).
        apply dw_P_sub_pts. assumption.
    + exact Hk0.
    + apply (IH k (S d0)); assumption.
Qed.

(* points of boundary-free component grids do not lie on the domain boundary *)
Lemma dw_not_on_boundary a b o st : TilesOK a b st -> o_boundary o = false -> forall x k d0,
  in_grid Qc Qc_eqb (dw_P o st) d0 x k = true ->
  on_boundary (skipn d0 a) (skipn d0 b) x = false.
Proof.
  intros HT Hbd x. induction x as [|x0 x IH]; intros k d0 Hin.
  - destruct (skipn d0 a); [reflexivity|]. destruct (skipn d0 b); reflexivity.
  - destruct k as [|k0 k]; [discriminate|]. simpl in Hin. apply andb_true_iff in Hin. destruct Hin as [Hm Hin].
    destruct (skipn d0 a) as [|a0 a'] eqn:Ea; [reflexivity|]. destruct (skipn d0 b) as [|b0 b'] eqn:Eb; [reflexivity|].
    cbn [on_boundary].
    assert (Ea' : skipn (S d0) a = a' /\ nth d0 a 0%Qc = a0).
    { clear - Ea. revert a Ea. induction d0 as [|d0 IHd]; intros [|y a] Ea; simpl in *; try discriminate.
      - injection Ea as -> ->. split; reflexivity.
      - apply IHd. assumption. }
    assert (Eb' : skipn (S d0) b = b' /\ nth d0 b 0%Qc = b0).
    { clear - Eb. revert b Eb. induction d0 as [|d0 IHd]; intros [|y b] Eb; simpl in *; try discriminate.
      - injection Eb as -> ->. split; reflexivity.
      - apply IHd. assumption. }
    destruct Ea' as [Ea1 Ea2]. destruct Eb' as [Eb1 Eb2].
    specialize (IH k (S d0) Hin). rewrite Ea1, Eb1 in IH. rewrite IH.
    apply (memX_In Qc Qc_eqb Qc_eqb_eq) in Hm. unfold dw_P, dw_stripe_pts in Hm. rewrite Hbd in Hm.
    destruct (stripe_dim o st d0 k0) as [s|] eqn:E; [|contradiction].
    destruct (nth_error (st_trees st) d0) as [t|] eqn:Et.
    + destruct (dw_stripes_sorted_with_endpoints a b o st d0 k0 t s HT Et E) as [S0 (r & ->)].
      simpl in Hm, S0. rewrite map_app in Hm, S0. simpl in Hm, S0. rewrite strip_ends_mid in Hm.
      destruct (sorted_mid_strict _ _ _ _ S0 Hm) as [H1 H2]. rewrite Ea2 in H1. rewrite Eb2 in H2.
      destruct (Qc_eqb x0 a0) eqn:E1; [apply Qc_eqb_eq in E1; subst; exfalso; eapply Qclt_irrefl'; eassumption|].
      destruct (Qc_eqb x0 b0) eqn:E2; [apply Qc_eqb_eq in E2; subst; exfalso; eapply Qclt_irrefl'; eassumption|].
      reflexivity.
    + apply nth_error_None in Et. rewrite stripe_dim_is_stripe in E. rewrite nth_overflow in E by assumption. discriminate.
Qed.

Theorem dw_nodal_exact a b o st f x l0 c0 :
  Inv (st_scheme st) -> TilesOK a b st ->
  In (l0, c0) (combi_scheme_adaptive (st_scheme st)) -> dw_in_comp o st x l0 = true ->
  dw_combi_interp o st a b f x = f x.
Proof.
  intros HI HT Hin Hx. set (s := st_scheme st) in *.
  set (cs := combi_scheme_adaptive s). set (lmin := s_lmin s).
  destruct (scheme_support s l0 c0 HI Hin) as [Hl0 _]. apply index_set_In in Hl0.
  destruct (inv_wf s HI l0 Hl0) as [Ll0 Fl0].
  assert (nested : forall d l l', lmin <= l -> l <= l' -> incl (dw_P o st d l) (dw_P o st d l')).
  { intros d l l' _ H. eapply dw_P_nested; eassumption. }
  unfold dw_in_comp in Hx.
  set (k := level_of Qc Qc_eqb (dw_P o st) lmin 0 x l0).
  destruct (level_of_props Qc Qc_eqb (dw_P o st) lmin x 0%nat l0 Hx Fl0) as [Lk F2]. fold k in Lk, F2.
  pose proof (level_of_in_grid Qc Qc_eqb Qc_eqb_eq (dw_P o st) lmin x 0%nat l0 Hx Fl0) as Hxk. fold k in Hxk.
  assert (Hk : In k (index_set s)).
  { apply (scheme_downward_closed s HI l0 k); [apply index_set_In; exact Hl0 | exact Lk | exact F2]. }
  assert (Fk : Forall (fun v => lmin <= v) k) by (apply (Forall2_lmin_left lmin k l0 F2)).
  assert (Lx : length x = s_dim s).
  { clear - Hx Ll0. revert Hx. generalize 0%nat. revert Ll0. generalize (s_dim s). revert l0.
    induction x as [|x0 x IH]; intros [|l l0] n Ll0 d0 Hx; simpl in *; try discriminate; [assumption|].
    apply andb_true_iff in Hx. destruct Hx as [_ Hx]. destruct n as [|n]; [discriminate|]. f_equal.
    apply (IH l0 n ltac:(congruence) (S d0) Hx). }
  set (M := Z.to_nat (max_level cs - lmin)).
  assert (Hwf : forall l c, In (l, c) cs -> length l = s_dim s /\ Forall (fun v => lmin <= v <= lmin + Z.of_nat M) l).
  { intros l c Hl. destruct (scheme_support s l c HI Hl) as [Hli _]. apply index_set_In in Hli.
    destruct (inv_wf s HI l Hli) as [Ll Fl]. split; [exact Ll|].
    apply Forall_forall. intros v Hv. rewrite Forall_forall in Fl. specialize (Fl v Hv).
    pose proof (max_level_bound cs l c v Hl Hv). unfold M. lia. }
  assert (E : dw_combi_interp o st a b f x = combined Qc cs (dw_Efam o st 0 x) (masked (o_boundary o) a b f)).
  { unfold dw_combi_interp, combined. fold s. fold cs. apply sumQ_map_ext. intros [l c] Hl. simpl.
    destruct (Hwf l c Hl) as [Ll _]. rewrite dw_comp_interp_appT by congruence. reflexivity. }
  rewrite E.
  assert (LE : length (dw_Efam o st 0 x) = s_dim s).
  { unfold dw_Efam. rewrite map_length, combine_length, seq_length. lia. }
  assert (H1 : forall l c, In (l, c) cs -> length l = length (dw_Efam o st 0 x) /\ Forall (fun v => lmin <= v <= lmin + Z.of_nat M) l).
  { intros l c Hl. rewrite LE. exact (Hwf l c Hl). }
  assert (H2 : forall l, length l = length (dw_Efam o st 0 x) -> Forall (fun v => lmin <= v) l ->
                    dominating_sum cs l = if mem l (index_set s) then 1 else 0).
  { intros l Ll Fl. rewrite LE in Ll. apply scheme_inclusion_exclusion; assumption. }
  assert (H3 : forall k' j, In k' (index_set s) -> length j = length k' -> Forall2 (fun p q => lmin <= p <= q) j k' -> In j (index_set s)).
  { intros k' j Hk' Lj Fj. apply (scheme_downward_closed s HI k' j); assumption. }
  assert (H4 : krons Qc lmin (dw_Efam o st 0 x) k x) by (eapply krons_of_dw_in_grid; eassumption).
  assert (H5 : Forall (fun v => lmin <= v <= lmin + Z.of_nat M) k).
  { apply Forall_forall. intros v Hv. rewrite Forall_forall in Fk. specialize (Fk v Hv). split; [exact Fk|].
    assert (exists w, In w l0 /\ v <= w) as [w [Hw Hvw]].
    { clear -F2 Hv. induction F2 as [|p q ks ls Hpq _ IH]; [destruct Hv|].
      destruct Hv as [->|Hv]; [exists q; split; [left; reflexivity | lia]|].
      destruct (IH Hv) as [w [Hw Hvw]]. exists w. split; [right; exact Hw | exact Hvw]. }
    pose proof (max_level_bound cs l0 c0 w Hin Hw). unfold M. lia. }
  rewrite (nodal_exact Qc lmin (index_set s) cs (dw_Efam o st 0 x) M H1 H2 H3 k x (masked (o_boundary o) a b f) H4 Hk H5).
  unfold masked. destruct (o_boundary o) eqn:Ebd; [reflexivity|].
  pose proof (dw_not_on_boundary a b o st HT Ebd x k 0%nat Hxk) as Hnb. simpl in Hnb. rewrite Hnb. reflexivity.
Qed.

(* every reachable state without rebalancing; every reachable state (rebalancing included) accepted by the checker *)
Theorem dw_reachable_nodal_exact n lmin lmax a b o steps st0 st f x l0 c0 :
  Forall2 (fun p q => (p < q)%Qc) a b -> o_rebal o = false ->
  dw_init (S n) lmin lmax a b = Some st0 -> dw_run o steps st0 = Some st ->
  In (l0, c0) (combi_scheme_adaptive (st_scheme st)) -> dw_in_comp o st x l0 = true ->
  dw_combi_interp o st a b f x = f x.
Proof.
  intros Hab Hreb Hinit Hrun Hin Hx.
  pose proof (DimWiseInv.dw_reachable_inv _ _ _ _ _ _ _ _ _ Hab Hreb Hinit Hrun) as HD.
  eapply dw_nodal_exact; [| apply DwInv_TilesOK; exact HD | exact Hin | exact Hx].
  destruct HD as (_ & _ & _ & _ & HI). exact HI.
Qed.

Theorem dw_checked_nodal_exact n lmin lmax a b o steps st0 st f x l0 c0 :
  dw_init (S n) lmin lmax a b = Some st0 -> dw_run o steps st0 = Some st ->
  (forall d t, nth_error (st_trees st) d = Some t -> tree_ok (nth d a 0%Qc) (nth d b 0%Qc) (nth d (st_lmax st) 0) t = true) ->
  In (l0, c0) (combi_scheme_adaptive (st_scheme st)) -> dw_in_comp o st x l0 = true ->
  dw_combi_interp o st a b f x = f x.
Proof.
  intros Hinit Hrun Hok Hin Hx.
  eapply dw_nodal_exact; [| apply tree_ok_TilesOK; exact Hok | exact Hin | exact Hx].
  eapply dw_reachable_scheme_inv; eassumption.
Qed.
