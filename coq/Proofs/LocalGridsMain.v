(* C08 — the statements about the modelled grids per level / per dimension / tensorised, and the verified checkers. *)
From Coq Require Import ZArith List QArith Qabs Qcanon Bool Arith Lia Lqa.
From SG Require Import Base.QcUtil Model.Tensor Model.LocalGrids Proofs.TensorRule Proofs.LocalGridsBase
  Proofs.LocalGridsTrap Proofs.LocalGridsSimpson.
Import ListNotations.
Open Scope Qc_scope.

Local Arguments Nat.sub : simpl never.
Local Arguments Nat.add : simpl never.
Local Arguments Nat.mul : simpl never.

(* ---------- one dimension ---------- *)
Definition d_tl (x : dim1) : bool := touch_l (d_a x) (d_s x).
Definition d_tr (x : dim1) : bool := touch_r (d_b x) (d_e x).
(* the sub-box lies inside the global interval and is not degenerate *)
Definition dim_ok (x : dim1) : Prop := d_a x <= d_s x /\ d_s x < d_e x /\ d_e x <= d_b x.
(* all points of the level are present: boundary on, or the sub-box does not touch the global boundary *)
Definition all_present (bnd : bool) (x : dim1) : Prop := bnd = true \/ (d_tl x = false /\ d_tr x = false).

Definition eq_degree (f : eqfam) (x : dim1) : nat :=
  match f with FTrap | FTrapMod => 1%nat | _ => if (d_level x =? 0)%nat then 1%nat else 3%nat end.

Lemma npwb_SS l : npwb_of_level l = S (S (2 ^ l - 1)).
Proof. unfold npwb_of_level. pose proof (pow2_pos l). lia. Qed.

Lemma eq_borders_spec bnd x :
  eq_borders bnd x = if bnd then (0%nat, npwb_of_level (d_level x))
                     else (b2n (d_tl x), (npwb_of_level (d_level x) - b2n (d_tr x))%nat).
Proof. unfold eq_borders, eq_np. apply borders_spec. apply npwb_ge2. Qed.

Lemma all_present_shape bnd x : all_present bnd x ->
  eq_np bnd x = npwb_of_level (d_level x) /\ eq_borders bnd x = (0%nat, npwb_of_level (d_level x)).
Proof.
  intro H. rewrite eq_borders_spec. unfold eq_np, num_points_eq. fold (d_tl x) (d_tr x).
  destruct H as [->|[-> ->]].
  - split; [lia | reflexivity].
  - cbn [b2n]. destruct bnd; (split; [lia | f_equal; lia]).
Qed.

(* count: as many coordinates and weights as announced *)
Theorem eq_count f bnd x : f <> FSimpsonAsIs ->
  length (eq_points bnd x) = eq_np bnd x /\ length (eq_weights f bnd x) = eq_np bnd x.
Proof.
  intro Hf. split.
  - unfold eq_points. destruct (eq_borders bnd x) as [lo up] eqn:E. unfold eq_borders in E.
    rewrite npwb_SS in *.
    pose proof (trap_points_length bnd (d_tl x) (d_tr x) (2 ^ d_level x - 1) (d_s x) (d_e x)) as P.
    cbv zeta in P. unfold d_tl, d_tr in P. unfold eq_np in *. rewrite npwb_SS in *. rewrite E in P. exact P.
  - unfold eq_weights. rewrite eq_borders_spec.
    set (npwb := npwb_of_level (d_level x)). set (np := eq_np bnd x).
    assert (Hnp : np = (npwb - (if bnd then 0 else b2n (d_tl x) + b2n (d_tr x)))%nat) by reflexivity.
    pose proof (npwb_ge2 (d_level x)) as H2. fold npwb in H2.
    destruct bnd; destruct f; try contradiction; try apply trap_weights_length;
      unfold simpson_weights; destruct (npwb <? 3)%nat; rewrite map_length; unfold slice_idx; rewrite seq_length; try lia.
Qed.

(* inside: every coordinate lies in the sub-box *)
Theorem eq_inside bnd x : d_s x <= d_e x -> Forall (fun p => d_s x <= p /\ p <= d_e x) (eq_points bnd x).
Proof.
  intro H. unfold eq_points. destruct (eq_borders bnd x) as [lo up]. rewrite npwb_SS.
  apply trap_points_inside. assumption.
Qed.

(* ---------- exactness per dimension ---------- *)
Lemma exact1_weaken c w s e d d' : (d' <= d)%nat -> exact1 c w s e d -> exact1 c w s e d'.
Proof. intros H E k Hk. apply E. lia. Qed.

(* trapezoidal rule (plain or modified basis) with all points present: degree 1 *)
Theorem trap_exact_all_present (modb : bool) bnd x : all_present bnd x ->
  exact1 (eq_points bnd x) (eq_weights (if modb then FTrapMod else FTrap) bnd x) (d_s x) (d_e x) 1.
Proof.
  intro H. destruct (all_present_shape bnd x H) as [Hnp Hb].
  unfold eq_points, eq_weights. rewrite Hb, Hnp. rewrite npwb_SS.
  set (m := (2 ^ d_level x - 1)%nat).
  rewrite trap_full_points.
  assert (E : forall mb, trap_weights mb bnd (S (S m)) (S (S m)) 0 (S (S m)) (d_s x) (d_e x)
              = map (full_w m (spacing (d_s x) (d_e x) (S (S m)))) (seq 0 (S (S m)))).
  { intro mb. apply trap_full_weights. right. reflexivity. }
  destruct modb; rewrite E; apply trap_full_exact1.
Qed.

(* modified basis, boundary off, any sub-box (touching or not) with at least one point: degree 1 *)
Theorem trapmod_exact x : (1 <= eq_np false x)%nat ->
  exact1 (eq_points false x) (eq_weights FTrapMod false x) (d_s x) (d_e x) 1.
Proof.
  intro Hnp. destruct (d_tl x || d_tr x) eqn:Ht.
  - apply lin_exact_exact1. unfold eq_points, eq_weights. rewrite eq_borders_spec.
    unfold eq_np, num_points_eq in *. fold (d_tl x) (d_tr x) in *. rewrite npwb_SS in *.
    set (m := (2 ^ d_level x - 1)%nat) in *.
    pose proof (trapmod_lin_exact (d_tl x) (d_tr x) m (d_s x) (d_e x) Ht) as P. cbv zeta in P.
    replace (S (S m) - b2n (d_tr x))%nat with (if d_tr x then (S (S m) - 1)%nat else S (S m))
      by (destruct (d_tr x); cbn [b2n]; lia).
    apply P; [assumption|].
    intros (E & Hl & Hr). pose proof (pow2_neq3 (d_level x)). pose proof (pow2_pos (d_level x)).
    rewrite Hl, Hr in E. cbn [b2n] in E. unfold m in E. lia.
  - apply orb_false_iff in Ht. apply (trap_exact_all_present true false x). right. assumption.
Qed.

(* Simpson (repaired slice) with all points present: degree 3 from level 1 on, degree 1 at level 0 *)
Theorem simpson_exact_all_present bnd x : all_present bnd x ->
  exact1 (eq_points bnd x) (eq_weights FSimpson bnd x) (d_s x) (d_e x) (eq_degree FSimpson x).
Proof.
  intro H. destruct (all_present_shape bnd x H) as [Hnp Hb].
  unfold eq_degree. destruct (Nat.eqb_spec (d_level x) 0) as [E0|E0].
  - (* level 0: two points, the code falls back to the trapezoidal weights *)
    pose proof (trap_exact_all_present false bnd x H) as P. cbv iota in P.
    unfold eq_weights in *. rewrite Hb in *. rewrite Hnp in *. rewrite E0 in *.
    unfold simpson_weights. change (npwb_of_level 0 <? 3)%nat with true. cbv iota. exact P.
  - destruct (pow2_even (d_level x)) as (m' & Hm' & E); [lia|].
    destruct m' as [|M]; [lia|].
    unfold eq_points, eq_weights. rewrite Hb, Hnp. unfold npwb_of_level. rewrite E.
    replace (2 * S M + 1)%nat with (S (2 * S M)) by lia.
    replace (S (2 * S M)) with (S (S (2 * M + 1))) at 1 2 3 by lia. rewrite trap_full_points.
    replace (S (S (2 * M + 1))) with (S (2 * S M)) by lia.
    unfold simpson_weights. replace (S (2 * S M) <? 3)%nat with false by (symmetry; apply Nat.ltb_ge; lia).
    assert (Es : slice_idx 0 (S (2 * S M)) (S (2 * S M)) = seq 0 (S (2 * S M))).
    { unfold slice_idx. rewrite Nat.min_id, Nat.sub_0_r. reflexivity. }
    rewrite Es. assert (Ew : (if bnd then map (simpson_w (S (2 * S M)) (spacing (d_s x) (d_e x) (S (2 * S M)))) (seq 0 (S (2 * S M)))
                              else map (simpson_w (S (2 * S M)) (spacing (d_s x) (d_e x) (S (2 * S M)))) (seq 0 (S (2 * S M))))
                             = map (simpson_w (S (2 * S M)) (spacing (d_s x) (d_e x) (S (2 * S M)))) (seq 0 (S (2 * S M))))
      by (destruct bnd; reflexivity).
    rewrite Ew. apply simpson_full_exact3.
Qed.

(* ---------- boundary off = boundary on without the points on the global boundary ---------- *)
Theorem trap_boundary_off x : dim_ok x -> ~ (d_level x = 0%nat /\ xorb (d_tl x) (d_tr x) = true) ->
  combine (eq_points false x) (eq_weights FTrap false x)
  = filter (keep_interior (d_a x) (d_b x)) (combine (eq_points true x) (eq_weights FTrap true x)).
Proof.
  intros (Ha & Hs & He) Hex. unfold eq_points, eq_weights.
  rewrite (eq_borders_spec true x). unfold eq_borders, eq_np.
  change (num_points_eq true (touch_l (d_a x) (d_s x)) (touch_r (d_b x) (d_e x)) (npwb_of_level (d_level x)))
    with (npwb_of_level (d_level x) - 0)%nat. rewrite Nat.sub_0_r. rewrite npwb_SS.
  set (m := (2 ^ d_level x - 1)%nat).
  pose proof (trap_off_restriction (d_a x) (d_b x) (d_s x) (d_e x) m Ha Hs He) as P. cbv zeta in P.
  destruct (borders false _ _ _ _) as [lo up] eqn:Eb. cbn [fst snd] in P. apply P.
  intros (Em & Hx). apply Hex. split; [|exact Hx].
  unfold m in Em. destruct (d_level x) as [|l]; [reflexivity|]. exfalso.
  pose proof (pow2_pos l). cbn [Nat.pow] in Em. lia.
Qed.

Theorem simpson_boundary_off x : dim_ok x -> (1 <= d_level x)%nat ->
  combine (eq_points false x) (eq_weights FSimpson false x)
  = filter (keep_interior (d_a x) (d_b x)) (combine (eq_points true x) (eq_weights FSimpson true x)).
Proof.
  intros (Ha & Hs & He) Hl. unfold eq_points, eq_weights.
  rewrite (eq_borders_spec true x). unfold eq_borders, eq_np.
  change (num_points_eq true (touch_l (d_a x) (d_s x)) (touch_r (d_b x) (d_e x)) (npwb_of_level (d_level x)))
    with (npwb_of_level (d_level x) - 0)%nat. rewrite Nat.sub_0_r. rewrite npwb_SS.
  set (m := (2 ^ d_level x - 1)%nat).
  assert (Hm : (1 <= m)%nat).
  { unfold m. destruct (d_level x) as [|l]; [lia|]. pose proof (pow2_pos l). cbn [Nat.pow]. lia. }
  pose proof (simpson_off_restriction (d_a x) (d_b x) (d_s x) (d_e x) m Ha Hs He Hm) as P. cbv zeta in P.
  destruct (borders false _ _ _ _) as [lo up] eqn:Eb. cbn [fst snd] in P. exact P.
Qed.

(* ---------- the tensor grid ---------- *)
Theorem grid_count f bnd xs : f <> FSimpsonAsIs ->
  length (grid_points bnd xs) = prodN (grid_num_points bnd xs) /\
  length (grid_weights f bnd xs) = prodN (grid_num_points bnd xs).
Proof.
  intro Hf. unfold grid_points, grid_weights, tensor_weights, grid_coords, grid_weights1, grid_num_points.
  rewrite map_length, !cross_length, !map_map. split; f_equal; apply map_ext; intro x; apply (eq_count f bnd x Hf).
Qed.

Theorem grid_inside bnd xs : Forall (fun x => d_s x <= d_e x) xs ->
  forall p, In p (grid_points bnd xs) -> Forall2 (fun c x => d_s x <= c /\ c <= d_e x) p xs.
Proof.
  intros Hxs p Hp. unfold grid_points, grid_coords in Hp. apply cross_in in Hp.
  revert p Hp. induction Hxs as [|x xs Hx Hxs IH]; intros p Hp; inversion Hp; subst; constructor.
  - pose proof (eq_inside bnd x Hx) as F. rewrite Forall_forall in F. apply F. assumption.
  - apply IH. assumption.
Qed.

(* where the weight-sum / degree clause is claimed (scope decision G of the design) *)
Definition dim_exact_ok (f : eqfam) (bnd : bool) (x : dim1) : Prop :=
  match f with
  | FTrap | FSimpson => all_present bnd x
  | FTrapMod => bnd = false /\ (1 <= eq_np false x)%nat
  | FSimpsonAsIs => False
  end.

Lemma dim_exact f bnd x : dim_exact_ok f bnd x ->
  length (eq_points bnd x) = length (eq_weights f bnd x) /\
  exact1 (eq_points bnd x) (eq_weights f bnd x) (d_s x) (d_e x) (eq_degree f x).
Proof.
  intro H. split.
  - assert (Hf : f <> FSimpsonAsIs) by (intro E; subst; exact H).
    destruct (eq_count f bnd x Hf) as [-> ->]. reflexivity.
  - destruct f; cbn [dim_exact_ok] in H.
    + apply (trap_exact_all_present false bnd x H).
    + destruct H as [-> H]. apply trapmod_exact. assumption.
    + apply simpson_exact_all_present. assumption.
    + contradiction.
Qed.

Definition rule_of (f : eqfam) (bnd : bool) (x : dim1) : rule1 :=
  {| r_c := eq_points bnd x; r_w := eq_weights f bnd x; r_s := d_s x; r_e := d_e x; r_deg := eq_degree f x |}.

Lemma box_moment_rule f bnd xs exps : box_moment_r (map (rule_of f bnd) xs) exps = box_moment xs exps.
Proof.
  unfold box_moment_r, box_moment. f_equal. revert exps. induction xs as [|x xs IH]; intros [|k exps]; cbn [map combine]; try reflexivity.
  rewrite IH. reflexivity.
Qed.

(* the tensor rule integrates every monomial below the per-dimension degrees exactly *)
Theorem grid_exact f bnd xs exps :
  Forall (dim_exact_ok f bnd) xs -> Forall2 (fun x k => (k <= eq_degree f x)%nat) xs exps ->
  grid_integrate_monomial f bnd xs exps = box_moment xs exps.
Proof.
  intros Hok Hk. unfold grid_integrate_monomial, grid_coords, grid_weights1.
  rewrite <- (box_moment_rule f bnd xs exps).
  replace (map (eq_points bnd) xs) with (map r_c (map (rule_of f bnd) xs)) by (rewrite map_map; reflexivity).
  replace (map (eq_weights f bnd) xs) with (map r_w (map (rule_of f bnd) xs)) by (rewrite map_map; reflexivity).
  apply tensor_exact.
  - apply Forall_map. eapply Forall_impl; [|exact Hok]. intros x Hx. apply (dim_exact f bnd x Hx).
  - clear Hok. induction Hk; cbn [map]; constructor; assumption.
Qed.

Lemma prodf_mono0 (p : list Qc) : prodf (map mono (map (fun _ => 0%nat) p)) p = 1.
Proof. induction p as [|x p IH]; cbn [map prodf]; [reflexivity | rewrite IH; unfold mono; cbn [Qcpower]; ring]. Qed.

Lemma prodf_mono0' {A} (xs : list A) (p : list Qc) : length p = length xs ->
  prodf (map mono (map (fun _ => 0%nat) xs)) p = 1.
Proof.
  revert p. induction xs as [|x xs IH]; intros [|c p] H; cbn [map prodf length] in *; try reflexivity; try discriminate.
  rewrite IH by lia. unfold mono. cbn [Qcpower]. ring.
Qed.

(* the weights sum to the box volume *)
Theorem grid_weights_sum f bnd xs : Forall (dim_exact_ok f bnd) xs ->
  sumQ (grid_weights f bnd xs) = box_volume xs.
Proof.
  intro Hok.
  pose proof (grid_exact f bnd xs (map (fun _ => 0%nat) xs) Hok) as P.
  assert (Hk : Forall2 (fun x k => (k <= eq_degree f x)%nat) xs (map (fun _ => 0%nat) xs)).
  { clear. induction xs; cbn [map]; constructor; [lia | assumption]. }
  specialize (P Hk). unfold grid_integrate_monomial, integrate_rule in P.
  assert (Hl : length (cross (grid_coords bnd xs)) = length (tensor_weights (grid_weights1 f bnd xs))).
  { unfold tensor_weights. rewrite map_length. apply cross_length_eq. unfold grid_coords, grid_weights1.
    clear P Hk. induction Hok as [|x xs Hx Hok IH]; cbn [map]; constructor; [apply (dim_exact f bnd x Hx) | assumption]. }
  unfold grid_weights. rewrite <- (dotQ_ones (cross (grid_coords bnd xs))) by exact Hl.
  rewrite (map_ext_in (fun _ => 1) (prodf (map mono (map (fun _ => 0%nat) xs)))).
  - rewrite P. unfold box_moment, box_volume. f_equal. clear. induction xs as [|x xs IH]; cbn [map combine]; [reflexivity|].
    rewrite IH. f_equal. cbn [fst snd]. unfold mint. cbn [Qcpower]. rewrite qn_1. field. discriminate.
  - intros p Hp. symmetry. apply prodf_mono0'. apply cross_point_length in Hp. unfold grid_coords in Hp.
    rewrite map_length in Hp. exact Hp.
Qed.

(* ---------- weight sums in one dimension ---------- *)
Lemma dotQ_ones1 {A} (l : list A) (w : list Qc) : length l = length w -> dotQ (map (fun _ => 1) l) w = sumQ w.
Proof.
  revert w. induction l as [|x l IH]; intros [|y w] H; cbn [map dotQ sumQ length] in *; try discriminate; [reflexivity|].
  rewrite IH by lia. ring.
Qed.

Lemma exact1_sum c w s e d : length c = length w -> exact1 c w s e d -> sumQ w = e - s.
Proof.
  intros Hl H. specialize (H 0%nat (Nat.le_0_l d)). unfold apply1 in H.
  rewrite (map_ext (mono 0) (fun _ => 1)) in H by reflexivity. rewrite dotQ_ones1 in H by assumption.
  rewrite H. unfold mint. cbn [Qcpower]. rewrite qn_1. field. discriminate.
Qed.

Theorem eq_weights_sum f bnd x : dim_exact_ok f bnd x -> sumQ (eq_weights f bnd x) = d_e x - d_s x.
Proof. intro H. destruct (dim_exact f bnd x H) as [Hl He]. eapply exact1_sum; eassumption. Qed.

(* ---------- what the faithful model refutes ---------- *)
Definition mkdim (a b s e : Q) (l : nat) : dim1 :=
  {| d_a := Q2Qc a; d_b := Q2Qc b; d_s := Q2Qc s; d_e := Q2Qc e; d_level := l |}.

(* SimpsonGrid with boundary=False as it is ([1:-1] slice): on a sub-box touching one side the number of weights
   differs from the number of points *)
Theorem simpson_asis_misaligned :
  exists x, dim_ok x /\ length (eq_weights FSimpsonAsIs false x) <> length (eq_points false x).
Proof.
  exists (mkdim 0 1 0 (1#2) 2). split.
  - repeat split; vm_compute; congruence.
  - vm_compute. congruence.
Qed.

(* level 0, sub-box touching exactly one side: boundary=False returns the midpoint, which is not a point of the
   boundary=True grid *)
Theorem trap_boundary_off_level0_fails :
  exists x, dim_ok x /\ d_level x = 0%nat /\
    combine (eq_points false x) (eq_weights FTrap false x)
    <> filter (keep_interior (d_a x) (d_b x)) (combine (eq_points true x) (eq_weights FTrap true x)).
Proof.
  exists (mkdim 0 1 0 (1#2) 0). split; [|split].
  - repeat split; vm_compute; congruence.
  - reflexivity.
  - vm_compute. intro H. inversion H.
Qed.

(* LejaGrid1D.level_to_num_points_1d ignores the sub-box: with boundary=False the announced number of points differs
   from the number of coordinates the border logic keeps on a sub-box touching one side *)
Theorem leja_boundary_off_count_mismatch :
  exists a b s e l, a <= s /\ s < e /\ e <= b /\
    let '(np, _, _, _, len) := cnt_info CLeja false a b s e l in np <> len.
Proof.
  exists (Q2Qc 0), (Q2Qc 1), (Q2Qc (1#2)), (Q2Qc 1), 2%nat.
  split; [|split; [|split]]; vm_compute; congruence.
Qed.

(* ClenshawCurtisGrid1D.level_to_num_points_1d compares with the constants 0 and 1: on the domain [-1,2] the sub-box
   [0,1], which touches no global boundary, loses two points when boundary=False *)
Theorem cc_asis_count_ignores_domain :
  exists a b s e, a < s /\ e < b /\
    cnt_np CCC false a b s e 2 <> cnt_np CEq false a b s e 2.
Proof.
  exists (Q2Qc (-1)), (Q2Qc 2), (Q2Qc 0), (Q2Qc 1).
  split; [|split]; vm_compute; congruence.
Qed.

(* ---------- the slice taken by the border logic has the announced length (equidistant families: trapezoidal,
   Simpson, Lagrange, B-spline; Gauss; Leja with boundary points) ---------- *)
Theorem cnt_slice_length f bnd a b s e l :
  (f = CEq \/ f = CGauss \/ (f = CLeja /\ bnd = true)) ->
  let '(np, _, _, _, len) := cnt_info f bnd a b s e l in len = np.
Proof.
  intro Hf. unfold cnt_info.
  destruct (borders bnd (cnt_np f bnd a b s e l) (cnt_npwb f l) (touch_l a s) (touch_r b e)) as [lo up] eqn:E.
  unfold slice_idx. rewrite seq_length.
  destruct Hf as [->|[->|[-> ->]]]; cbn [cnt_np cnt_npwb] in *.
  - rewrite borders_spec in E by apply npwb_ge2. unfold num_points_eq.
    destruct bnd; inversion E; subst; [lia|].
    destruct (touch_l a s), (touch_r b e); cbn [b2n]; lia.
  - unfold borders in E. rewrite Nat.ltb_irrefl, andb_false_r in E. inversion E; subst. lia.
  - unfold borders in E. cbn [negb andb] in E. inversion E; subst. unfold num_points_leja. lia.
Qed.
