(* C09 — the global trapezoidal rule, unmodified basis: weights . values = integral of the piecewise-linear interpolant,
   sum, first moment, non-negativity, boundary stripping, tensor product, independence of levels/history. *)
From Coq Require Import ZArith List QArith Qcanon Bool Arith Lia Lqa.
From SG Require Import Base.QcUtil Model.Trap Proofs.TrapBasics.
Import ListNotations.
Open Scope Qc_scope.

(* ---------------------------------------------------------------- formal integrals of lines *)
Lemma line_int_trap x0 v0 x1 v1 : line_int x0 v0 x1 v1 x0 x1 = Qchalf * (x1 - x0) * (v0 + v1).
Proof.
  unfold line_int, lin_int, icept, slope.
  destruct (Qc_eq_dec x1 x0) as [->|Hne].
  - ring.
  - pose proof (sub_neq0 x1 x0 Hne) as Hd.
    qfield.
Qed.

(* the line through two points of  t |-> alpha t + beta  is that function *)
Lemma line_int_linear alpha beta x0 x1 lo hi :
  x1 <> x0 -> line_int x0 (alpha * x0 + beta) x1 (alpha * x1 + beta) lo hi = lin_int alpha beta lo hi.
Proof.
  intro Hne. unfold line_int, lin_int, icept, slope.
  pose proof (sub_neq0 x1 x0 Hne) as Hd.
  qfield.
Qed.

Lemma line_eval_interpolates x0 v0 x1 v1 :
  x1 <> x0 -> line_eval x0 v0 x1 v1 x0 = v0 /\ line_eval x0 v0 x1 v1 x1 = v1.
Proof.
  intro Hne. unfold line_eval, icept, slope.
  pose proof (sub_neq0 x1 x0 Hne) as Hd.
  split; qfield.
Qed.

Lemma lin_int_additive alpha beta lo mid hi :
  lin_int alpha beta lo mid + lin_int alpha beta mid hi = lin_int alpha beta lo hi.
Proof. unfold lin_int. ring. Qed.

(* ---------------------------------------------------------------- the trapezoid identity on index functions *)
Definition half_step (X : nat -> Qc) (j : nat) : Qc := Qchalf * (X (S j) - X j).

Lemma trap_index (X V : nat -> Qc) lo m :
  half_step X lo * V lo
  + sum_range (fun i => (half_step X (i - 1) + half_step X i) * V i) (S lo) m
  + half_step X (lo + m) * V (S (lo + m))
  = sum_range (fun j => half_step X j * (V j + V (S j))) lo (S m).
Proof.
  induction m as [|m IH].
  - rewrite Nat.add_0_r. unfold sum_range. simpl. ring.
  - rewrite sum_range_S. rewrite (sum_range_S _ lo (S m)). rewrite <- IH.
    replace (S lo + m)%nat with (S (lo + m)) by lia.
    replace (lo + S m)%nat with (S (lo + m)) by lia.
    replace (S (lo + m) - 1)%nat with (lo + m)%nat by lia. ring.
Qed.

Lemma pl_int_half_step X V lo m :
  pl_int X V lo m = sum_range (fun j => half_step X j * (V j + V (S j))) lo m.
Proof.
  unfold pl_int. apply sum_range_ext. intros j _. rewrite line_int_trap. unfold half_step. ring.
Qed.

Lemma pl_int_ext X V V' lo m :
  (forall j, (lo <= j <= lo + m)%nat -> (0 < m)%nat -> V j = V' j) -> pl_int X V lo m = pl_int X V' lo m.
Proof.
  intro H. unfold pl_int. apply sum_range_ext. intros j Hj. rewrite !H by lia. reflexivity.
Qed.

(* the integral of the interpolant of a linear function telescopes *)
Lemma pl_int_linear X alpha beta lo m :
  pl_int X (fun j => alpha * X j + beta) lo m = lin_int alpha beta (X lo) (X (lo + m)%nat).
Proof.
  rewrite pl_int_half_step.
  set (F := fun k => beta * X k + alpha * (X k * X k) * Qchalf).
  rewrite (sum_range_ext _ (fun j => F (S j) - F j)).
  - rewrite (sum_range_telescope F). unfold F, lin_int. clear F. ring.
  - intros j _. unfold F, half_step. clear F. qfield.
Qed.

(* ---------------------------------------------------------------- the unmodified weights *)
Lemma w_general_false_0 X n : (2 <= n)%nat -> w_general false X n 0 = half_step X 0.
Proof.
  intro H. unfold w_general, wl, wr. cbn [andb Nat.eqb].
  destruct (Nat.ltb_spec 0 (n - 1)); [|lia]. cbn [negb]. unfold half_step. simpl. ring.
Qed.

Lemma w_general_false_mid X n i :
  (1 <= i)%nat -> (i < n - 1)%nat -> w_general false X n i = half_step X (i - 1) + half_step X i.
Proof.
  intros H1 H2. unfold w_general, wl, wr. cbn [andb].
  destruct (Nat.eqb_spec i 0); [lia|].
  destruct (Nat.ltb_spec i (n - 1)); [|lia]. cbn [negb]. unfold half_step.
  replace (S (i - 1)) with i by lia. replace (i + 1)%nat with (S i) by lia. reflexivity.
Qed.

Lemma w_general_false_last X n : (2 <= n)%nat -> w_general false X n (n - 1) = half_step X (n - 2).
Proof.
  intro H. unfold w_general, wl, wr. cbn [andb].
  destruct (Nat.eqb_spec (n - 1) 0); [lia|].
  destruct (Nat.ltb_spec (n - 1) (n - 1)); [lia|]. cbn [negb]. unfold half_step.
  replace (S (n - 2)) with (n - 1)%nat by lia. replace (n - 1 - 1)%nat with (n - 2)%nat by lia. ring.
Qed.

Lemma w_general_false_single X : w_general false X 1 0 = 0.
Proof. unfold w_general, wl, wr. simpl. ring. Qed.

(* the rule as a sum over indices *)
Lemma trap_index_sum X V n :
  sum_range (fun i => w_general false X n i * V i) 0 n = pl_int X V 0 (n - 1).
Proof.
  rewrite pl_int_half_step.
  destruct n as [|[|m]].
  - reflexivity.
  - unfold sum_range. simpl. rewrite w_general_false_single. ring.
  - replace (S (S m) - 1)%nat with (S m) by lia.
    rewrite <- trap_index. cbn [Nat.add].
    rewrite sum_range_S_l. rewrite (sum_range_S _ 1 m).
    rewrite w_general_false_0 by lia.
    replace (1 + m)%nat with (S (S m) - 1)%nat by lia.
    rewrite w_general_false_last by lia.
    replace (S (S m) - 2)%nat with m by lia. replace (S (S m) - 1)%nat with (S m) by lia.
    rewrite (sum_range_ext (fun i => w_general false X (S (S m)) i * V i)
                           (fun i => (half_step X (i - 1) + half_step X i) * V i) 1 m).
    + ring.
    + intros i Hi. rewrite w_general_false_mid by lia. reflexivity.
Qed.

Lemma weights_raw_false x a b : weights_raw false x a b = weights_general false x.
Proof. reflexivity. Qed.

Lemma weights_general_length mb x : length (weights_general mb x) = length x.
Proof. unfold weights_general. rewrite map_length, seq_length. reflexivity. Qed.

(* T1: weights . values = formal integral of the piecewise-linear interpolant, for EVERY grid and every value vector *)
Theorem trap_is_pl_integral x v a b :
  length v = length x ->
  dotQ (weights_raw false x a b) v = pl_int (nq x) (nq v) 0 (length x - 1).
Proof.
  intro Hl. rewrite weights_raw_false. unfold weights_general.
  rewrite dotQ_map_seq0 by exact Hl. apply trap_index_sum.
Qed.

Lemma dotQ_ones (w : list Qc) : dotQ w (map (fun _ => 1) w) = sumQ w.
Proof. induction w as [|y w IH]; simpl; [reflexivity | rewrite IH; ring]. Qed.

Lemma nq_map_fun (f : Qc -> Qc) (x : list Qc) i : (i < length x)%nat -> nq (map f x) i = f (nq x i).
Proof.
  intro H. unfold nq. rewrite nth_indep with (d' := f 0) by (rewrite map_length; exact H). apply map_nth.
Qed.

(* T2: exactness for every linear function (needs nothing but the grid itself) *)
Theorem trap_linear_exact x a b alpha beta :
  dotQ (weights_raw false x a b) (map (fun t => alpha * t + beta) x)
  = lin_int alpha beta (nq x 0) (nq x (length x - 1)).
Proof.
  rewrite trap_is_pl_integral by apply map_length.
  rewrite (pl_int_ext (nq x) _ (fun j => alpha * nq x j + beta)).
  - rewrite pl_int_linear. reflexivity.
  - intros j Hj Hm. apply nq_map_fun. lia.
Qed.

Theorem trap_sum x a b : sumQ (weights_raw false x a b) = nq x (length x - 1) - nq x 0.
Proof.
  pose proof (trap_linear_exact x a b 0 1) as H.
  assert (E : dotQ (weights_raw false x a b) (map (fun t => 0 * t + 1) x) = sumQ (weights_raw false x a b)).
  { rewrite weights_raw_false.
    assert (G : forall (w y : list Qc), length w = length y -> dotQ w (map (fun t => 0 * t + 1) y) = sumQ w).
    { induction w as [|c w IH]; intros [|d y] Hy; try discriminate; simpl; [reflexivity|].
      rewrite IH by (simpl in Hy; lia). ring. }
    apply G. apply weights_general_length. }
  rewrite <- E, H. unfold lin_int. ring.
Qed.

Theorem trap_first_moment x a b :
  dotQ (weights_raw false x a b) x
  = (nq x (length x - 1) * nq x (length x - 1) - nq x 0 * nq x 0) * Qchalf.
Proof.
  assert (E : forall y : list Qc, map (fun t => 1 * t + 0) y = y).
  { induction y as [|c y IH]; simpl; [reflexivity|]. f_equal; [ring | exact IH]. }
  pose proof (trap_linear_exact x a b 1 0) as H.
  rewrite E in H. rewrite H. unfold lin_int. ring.
Qed.

(* T3: non-negativity on every sorted grid *)
Lemma half_step_nonneg x j : sorted_le x = true -> (S j < length x)%nat -> 0 <= half_step (nq x) j.
Proof.
  intros Hs Hj. pose proof (sorted_le_step x j Hs Hj) as H. unfold half_step. qc_order.
Qed.

Theorem trap_nonneg x a b w :
  sorted_le x = true -> In w (weights_raw false x a b) -> 0 <= w.
Proof.
  intros Hs Hin. rewrite weights_raw_false in Hin. unfold weights_general in Hin.
  apply in_map_iff in Hin. destruct Hin as [i [Hi Hr]]. apply in_seq in Hr. subst w.
  set (n := length x) in *.
  destruct (Nat.eq_dec n 1) as [E1|N1].
  - rewrite E1 in *. replace i with 0%nat by lia. rewrite w_general_false_single. apply Qcle_refl.
  - destruct (Nat.eq_dec i 0) as [->|Hi0].
    + rewrite w_general_false_0 by lia. apply half_step_nonneg; [exact Hs | fold n; lia].
    + destruct (Nat.eq_dec i (n - 1)) as [->|Hil].
      * rewrite w_general_false_last by lia. apply half_step_nonneg; [exact Hs | fold n; lia].
      * rewrite w_general_false_mid by lia.
        pose proof (half_step_nonneg x (i - 1) Hs ltac:(fold n; lia)) as H1.
        pose proof (half_step_nonneg x i Hs ltac:(fold n; lia)) as H2.
        qc_order.
Qed.

(* T4: boundary off = zero boundary values *)
Theorem trap_boundary_off_is_pl_integral x v a b :
  length v = length x -> (2 <= length x)%nat -> nq v 0 = 0 -> nq v (length x - 1) = 0 ->
  dotQ (strip (weights_raw false x a b)) (strip v) = pl_int (nq x) (nq v) 0 (length x - 1).
Proof.
  intros Hl H2 H0 Hn. rewrite <- (trap_is_pl_integral x v a b Hl).
  rewrite (dotQ_strip (weights_raw false x a b) v).
  - rewrite H0. rewrite Hl, Hn. ring.
  - rewrite weights_raw_false, weights_general_length. symmetry. exact Hl.
  - rewrite weights_raw_false, weights_general_length. exact H2.
Qed.

(* ---------------------------------------------------------------- set_grid *)
Theorem set_grid_shape bd mb a b x lv g :
  set_grid_1d bd mb a b x lv = Some g ->
  exists w, compute_weights x a b mb = Some w /\ length w = length x /\
    g_coords g = (if bd then x else strip x) /\ g_weights g = (if bd then w else strip w) /\
    g_levels g = (if bd then lv else strip lv) /\
    length (g_weights g) = length (g_coords g) /\ g_num_points g = length (g_coords g).
Proof.
  unfold set_grid_1d. destruct (mb && bd); [discriminate|].
  destruct (negb (length lv =? length x)%nat); [discriminate|].
  destruct (negb (sorted_le x)); [discriminate|].
  destruct (compute_weights x a b mb) as [w|] eqn:Ew; [|discriminate].
  assert (Hw : length w = length x).
  { unfold compute_weights in Ew. destruct (mb && (length x <? 3)%nat); [discriminate|].
    assert (Hr : length (weights_raw mb x a b) = length x).
    { unfold weights_raw.
      destruct (mb && (length x =? 3)%nat) eqn:E3.
      - apply andb_true_iff in E3. destruct E3 as [_ E3]. apply Nat.eqb_eq in E3. rewrite E3. reflexivity.
      - destruct (mb && (length x =? 4)%nat) eqn:E4.
        + apply andb_true_iff in E4. destruct E4 as [_ E4]. apply Nat.eqb_eq in E4. rewrite E4. reflexivity.
        + apply weights_general_length. }
    destruct mb; [destruct (mod_assert_ok _ a b); [|discriminate]|]; inversion Ew; subst; exact Hr. }
  intro H. exists w. split; [reflexivity|]. split; [exact Hw|].
  destruct bd; inversion H; subst; cbn [g_coords g_weights g_levels g_num_points];
    repeat split; try reflexivity; try assumption.
  rewrite !strip_length. rewrite Hw. reflexivity.
Qed.

(* the refinement levels never influence coordinates or weights *)
Theorem set_grid_levels_irrelevant bd mb a b x lv lv' :
  length lv = length lv' ->
  match set_grid_1d bd mb a b x lv, set_grid_1d bd mb a b x lv' with
  | Some g, Some g' => g_coords g = g_coords g' /\ g_weights g = g_weights g' /\ g_num_points g = g_num_points g'
  | None, None => True
  | _, _ => False
  end.
Proof.
  intro Hl. unfold set_grid_1d. rewrite Hl.
  destruct (mb && bd); [exact I|].
  destruct (negb (length lv' =? length x)%nat); [exact I|].
  destruct (negb (sorted_le x)); [exact I|].
  destruct (compute_weights x a b mb); [|exact I].
  destruct bd; cbn; repeat split; reflexivity.
Qed.

(* a strictly increasing list is determined by its set of elements: the weights depend only on the point SET *)
Lemma strictly_increasing_head_min (x0 : Qc) t q : strictly_increasing (x0 :: t) -> In q t -> x0 < q.
Proof.
  revert x0. induction t as [|y t IH]; intros x0 Hs Hin; [destruct Hin|].
  simpl in Hs. destruct Hs as [H1 H2]. destruct Hin as [->|Hin]; [exact H1|].
  apply Qclt_trans with y; [exact H1|]. apply IH; assumption.
Qed.

Lemma strictly_increasing_same_set (x y : list Qc) :
  strictly_increasing x -> strictly_increasing y -> (forall q, In q x <-> In q y) -> x = y.
Proof.
  revert y. induction x as [|x0 xt IH]; intros y Hx Hy Hset.
  - destruct y as [|y0 yt]; [reflexivity|]. exfalso. apply (proj2 (Hset y0)). left. reflexivity.
  - destruct y as [|y0 yt]; [exfalso; apply (proj1 (Hset x0)); left; reflexivity|].
    assert (E : x0 = y0).
    { destruct (proj1 (Hset x0) (or_introl eq_refl)) as [E|Hin]; [symmetry; exact E|].
      destruct (proj2 (Hset y0) (or_introl eq_refl)) as [E|Hin']; [exact E|].
      pose proof (strictly_increasing_head_min y0 yt x0 Hy Hin) as L1.
      pose proof (strictly_increasing_head_min x0 xt y0 Hx Hin') as L2.
      exfalso. apply (Qclt_not_le _ _ L1). apply Qclt_le_weak. exact L2. }
    subst y0. f_equal. apply IH.
    + eapply strictly_increasing_tl; eauto.
    + eapply strictly_increasing_tl; eauto.
    + intro q. split; intro Hq.
      * destruct (proj1 (Hset q) (or_intror Hq)) as [E|Hin]; [|exact Hin].
        exfalso. subst q. pose proof (strictly_increasing_head_min x0 xt x0 Hx Hq) as L.
        apply (Qclt_not_le _ _ L). apply Qcle_refl.
      * destruct (proj2 (Hset q) (or_intror Hq)) as [E|Hin]; [|exact Hin].
        exfalso. subst q. pose proof (strictly_increasing_head_min x0 yt x0 Hy Hq) as L.
        apply (Qclt_not_le _ _ L). apply Qcle_refl.
Qed.

Theorem trap_depends_only_on_point_set x y a b mb :
  strictly_increasing x -> strictly_increasing y -> (forall q, In q x <-> In q y) ->
  compute_weights x a b mb = compute_weights y a b mb.
Proof. intros Hx Hy Hs. rewrite (strictly_increasing_same_set x y Hx Hy Hs). reflexivity. Qed.

(* ---------------------------------------------------------------- tensor product *)
Lemma dotQ_scale_r (w v : list Qc) c : dotQ w (map (fun t => t * c) v) = dotQ w v * c.
Proof.
  revert v. induction w as [|a w IH]; intros [|b v]; simpl; try ring. rewrite IH. ring.
Qed.

Lemma dotQ_scale_l (w v : list Qc) c : dotQ w (map (fun t => c * t) v) = c * dotQ w v.
Proof.
  revert v. induction w as [|a w IH]; intros [|b v]; simpl; try ring. rewrite IH. ring.
Qed.

Lemma tensor_quad_gen_ext gr : forall F G, (forall pt, F pt = G pt) -> tensor_quad_gen gr F = tensor_quad_gen gr G.
Proof.
  induction gr as [|[p w] gr IH]; intros F G H; cbn [tensor_quad_gen]; [apply H|].
  f_equal. apply map_ext. intro t. apply IH. intro rest. apply H.
Qed.

Lemma tensor_quad_gen_scale gr : forall c G, tensor_quad_gen gr (fun pt => c * G pt) = c * tensor_quad_gen gr G.
Proof.
  induction gr as [|[p w] gr IH]; intros c G; cbn [tensor_quad_gen]; [reflexivity|].
  rewrite <- dotQ_scale_l. rewrite map_map. f_equal. apply map_ext. intro t. apply IH.
Qed.

Theorem tensor_quad_product grids fs :
  length grids = length fs ->
  tensor_quad_gen grids (fun pt => fold_right Qcmult 1 (map (fun fp => fst fp (snd fp)) (combine fs pt)))
  = tensor_quad grids fs.
Proof.
  revert fs. induction grids as [|[p w] gr IH]; intros [|f fr] Hl; try discriminate; [reflexivity|].
  cbn [tensor_quad_gen tensor_quad]. unfold quad1.
  rewrite <- (IH fr) by (simpl in Hl; lia).
  rewrite <- dotQ_scale_r. rewrite map_map. f_equal. apply map_ext. intro t.
  cbn [combine map fold_right fst snd]. rewrite tensor_quad_gen_scale. reflexivity.
Qed.

(* the tensor trapezoidal rule (boundary points present) integrates products of linear functions exactly *)
Theorem tensor_trap_exact (dims : list (list Qc * (Qc * Qc))) :
  tensor_quad (map (fun d => (fst d, weights_raw false (fst d) 0 0)) dims)
              (map (fun d => fun t => fst (snd d) * t + snd (snd d)) dims)
  = fold_right Qcmult 1 (map (fun d => lin_int (fst (snd d)) (snd (snd d)) (nq (fst d) 0) (nq (fst d) (length (fst d) - 1))) dims).
Proof.
  induction dims as [|[x [al be]] r IH]; [reflexivity|].
  cbn [map tensor_quad fold_right fst snd]. rewrite IH. f_equal.
  unfold quad1. apply trap_linear_exact.
Qed.
