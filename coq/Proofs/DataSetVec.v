(* C18 — vector/column lemmas for the DataSet model: map2, column minimum/maximum, affine images. *)
From Coq Require Import ZArith List QArith Qcanon Bool Lia Lqa Arith.
From SG Require Import Base.QcUtil Model.DataSet.
Import ListNotations.
Open Scope Qc_scope.

(* ------------------------------------------------------------------ Qc order helpers *)
Lemma Qcinv_pos (x : Qc) : 0 < x -> 0 < / x.
Proof.
  unfold Qclt. intro H. change (0 < this x)%Q in H. unfold Qcinv. cbn [this Q2Qc].
  rewrite (Qred_correct (/ this x)). change (0 < / this x)%Q. apply Qinv_lt_0_compat. exact H.
Qed.

Lemma Qcmult_pos (a b : Qc) : 0 < a -> 0 < b -> 0 < a * b.
Proof.
  unfold Qclt. intros Ha Hb. change (0 < this a)%Q in Ha. change (0 < this b)%Q in Hb.
  unfold Qcmult. cbn [this Q2Qc]. rewrite (Qred_correct (this a * this b)). change (0 < this a * this b)%Q.
  apply (Qmult_lt_0_compat _ _ Ha Hb).
Qed.

Lemma sub_nonneg (a b : Qc) : a <= b -> 0 <= b - a.
Proof. intro H. qc_order. Qed.

Lemma sub_pos (a b : Qc) : a < b -> 0 < b - a.
Proof. intro H. qc_order. Qed.

Lemma Qc_min_cases a b : (Qc_min a b = a /\ a <= b) \/ (Qc_min a b = b /\ b <= a).
Proof.
  unfold Qc_min. destruct (Qc_leb a b) eqn:E.
  - left. split; [reflexivity | apply Qc_leb_le; exact E].
  - right. split; [reflexivity|]. assert (~ a <= b) by (intro L; apply Qc_leb_le in L; congruence).
    apply Qcnot_le_lt in H. apply Qclt_le_weak. exact H.
Qed.

Lemma Qc_max_cases a b : (Qc_max a b = b /\ a <= b) \/ (Qc_max a b = a /\ b <= a).
Proof.
  unfold Qc_max. destruct (Qc_leb a b) eqn:E.
  - left. split; [reflexivity | apply Qc_leb_le; exact E].
  - right. split; [reflexivity|]. assert (~ a <= b) by (intro L; apply Qc_leb_le in L; congruence).
    apply Qcnot_le_lt in H. apply Qclt_le_weak. exact H.
Qed.

Lemma Qc_min_shift a b k : Qc_min (a + k) (b + k) = Qc_min a b + k.
Proof.
  destruct (Qc_min_cases a b) as [[E L]|[E L]], (Qc_min_cases (a + k) (b + k)) as [[E' L']|[E' L']]; rewrite E, E'; try reflexivity.
  - assert (a = b) by (apply Qcle_antisym; [exact L | qc_order]). subst. reflexivity.
  - assert (a = b) by (apply Qcle_antisym; [qc_order | exact L]). subst. reflexivity.
Qed.

Lemma Qc_min_affine a b s m : 0 <= s -> Qc_min (a * s + m) (b * s + m) = Qc_min a b * s + m.
Proof.
  intro Hs.
  destruct (Qc_min_cases a b) as [[E L]|[E L]], (Qc_min_cases (a * s + m) (b * s + m)) as [[E' L']|[E' L']]; rewrite E, E'; try reflexivity.
  - apply Qcle_antisym; [exact L'|]. assert (a * s <= b * s) by (apply Qcmult_le_compat_r; assumption). qc_order.
  - apply Qcle_antisym; [exact L'|]. assert (b * s <= a * s) by (apply Qcmult_le_compat_r; assumption). qc_order.
Qed.

Lemma Qc_max_affine a b s m : 0 <= s -> Qc_max (a * s + m) (b * s + m) = Qc_max a b * s + m.
Proof.
  intro Hs.
  destruct (Qc_max_cases a b) as [[E L]|[E L]], (Qc_max_cases (a * s + m) (b * s + m)) as [[E' L']|[E' L']]; rewrite E, E'; try reflexivity.
  - apply Qcle_antisym; [|exact L']. assert (a * s <= b * s) by (apply Qcmult_le_compat_r; assumption). qc_order.
  - apply Qcle_antisym; [|exact L']. assert (b * s <= a * s) by (apply Qcmult_le_compat_r; assumption). qc_order.
Qed.

(* ------------------------------------------------------------------ map2 *)
Lemma map2_length {A B C} (f : A -> B -> C) a b : length (map2 f a b) = Nat.min (length a) (length b).
Proof. revert b. induction a as [|x a IH]; intros [|y b]; simpl; auto. Qed.

Lemma map2_length_eq {A B C} (f : A -> B -> C) a b n : length a = n -> length b = n -> length (map2 f a b) = n.
Proof. intros. rewrite map2_length. lia. Qed.

Lemma nth_map2 {A B C} (f : A -> B -> C) a b j da db dc :
  (j < length a)%nat -> (j < length b)%nat -> nth j (map2 f a b) dc = f (nth j a da) (nth j b db).
Proof.
  revert b j. induction a as [|x a IH]; intros [|y b] [|j]; simpl; intros Ha Hb; try lia; auto.
  apply IH; lia.
Qed.

Lemma nth_repeat_lt {A} (q d : A) n j : (j < n)%nat -> nth j (repeat q n) d = q.
Proof. revert j. induction n; intros [|j] H; simpl; try lia; auto. apply IHn. lia. Qed.

(* pointwise equality of rows of known length *)
Lemma row_ext (a b : row) n : length a = n -> length b = n ->
  (forall j, (j < n)%nat -> nth j a 0 = nth j b 0) -> a = b.
Proof. intros Ha Hb H. apply (nth_ext a b 0 0); [congruence | intros j Hj; apply H; lia]. Qed.

(* ------------------------------------------------------------------ column minimum / maximum *)
Fixpoint lmin (x : Qc) (l : list Qc) : Qc := match l with [] => x | y :: l' => Qc_min x (lmin y l') end.
Fixpoint lmax (x : Qc) (l : list Qc) : Qc := match l with [] => x | y :: l' => Qc_max x (lmax y l') end.

Definition rows_len (n : nat) (rs : list row) : Prop := Forall (fun r => length r = n) rs.

Lemma colmin_length n r rs : length r = n -> rows_len n rs -> length (colmin r rs) = n.
Proof.
  revert r. induction rs as [|r' rs IH]; intros r Hr Hrs; simpl; [exact Hr|].
  inversion Hrs; subst. unfold vmin. apply map2_length_eq; [reflexivity | apply IH; assumption].
Qed.

Lemma colmax_length n r rs : length r = n -> rows_len n rs -> length (colmax r rs) = n.
Proof.
  revert r. induction rs as [|r' rs IH]; intros r Hr Hrs; simpl; [exact Hr|].
  inversion Hrs; subst. unfold vmax. apply map2_length_eq; [reflexivity | apply IH; assumption].
Qed.

Definition col (j : nat) (rs : list row) : list Qc := map (fun r => nth j r 0) rs.

Lemma nth_colmin n r rs j : length r = n -> rows_len n rs -> (j < n)%nat ->
  nth j (colmin r rs) 0 = lmin (nth j r 0) (col j rs).
Proof.
  revert r. induction rs as [|r' rs IH]; intros r Hr Hrs Hj; simpl; [reflexivity|].
  inversion Hrs; subst. unfold vmin. rewrite (nth_map2 Qc_min r (colmin r' rs) j 0 0 0).
  - rewrite IH; auto.
  - lia.
  - rewrite (colmin_length (length r) r' rs); auto.
Qed.

Lemma nth_colmax n r rs j : length r = n -> rows_len n rs -> (j < n)%nat ->
  nth j (colmax r rs) 0 = lmax (nth j r 0) (col j rs).
Proof.
  revert r. induction rs as [|r' rs IH]; intros r Hr Hrs Hj; simpl; [reflexivity|].
  inversion Hrs; subst. unfold vmax. rewrite (nth_map2 Qc_max r (colmax r' rs) j 0 0 0).
  - rewrite IH; auto.
  - lia.
  - rewrite (colmax_length (length r) r' rs); auto.
Qed.

Lemma lmin_affine x l s m : 0 <= s -> lmin (x * s + m) (map (fun y => y * s + m) l) = lmin x l * s + m.
Proof.
  intro Hs. revert x. induction l as [|y l IH]; intro x; simpl; [reflexivity|].
  rewrite IH. apply Qc_min_affine. exact Hs.
Qed.

Lemma lmax_affine x l s m : 0 <= s -> lmax (x * s + m) (map (fun y => y * s + m) l) = lmax x l * s + m.
Proof.
  intro Hs. revert x. induction l as [|y l IH]; intro x; simpl; [reflexivity|].
  rewrite IH. apply Qc_max_affine. exact Hs.
Qed.

Lemma lmin_shift x l k : lmin (x + k) (map (fun y => y + k) l) = lmin x l + k.
Proof.
  revert x. induction l as [|y l IH]; intro x; simpl; [reflexivity|].
  rewrite IH. apply Qc_min_shift.
Qed.

Lemma lmin_le_lmax x l : lmin x l <= lmax x l.
Proof.
  revert x. induction l as [|y l IH]; intro x; simpl; [apply Qcle_refl|].
  destruct (Qc_min_cases x (lmin y l)) as [[E L]|[E L]], (Qc_max_cases x (lmax y l)) as [[E' L']|[E' L']]; rewrite E, E'.
  - exact L'.
  - apply Qcle_refl.
  - apply IH.
  - exact L.
Qed.

(* column j of a list of rows after a row-wise map *)
Lemma col_map j (f : row -> row) (g : Qc -> Qc) rs :
  (forall r, In r rs -> nth j (f r) 0 = g (nth j r 0)) -> col j (map f rs) = map g (col j rs).
Proof.
  intro H. unfold col. rewrite !map_map. apply map_ext_in. intros r Hr. apply H. exact Hr.
Qed.
