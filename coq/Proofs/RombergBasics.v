(* C11 — basic lemmas: weighted sums of contribution lists / dictionaries, slice algebra. *)
From Coq Require Import ZArith List QArith Qcanon Bool Arith Lia.
From SG Require Import Base.QcUtil Model.Romberg.
Import ListNotations.
Open Scope Qc_scope.

(* total weight and first moment of a list of (point, weight) *)
Fixpoint wsum (l : list (Qc * Qc)) : Qc := match l with [] => 0 | kv :: r => snd kv + wsum r end.
Fixpoint wmom (l : list (Qc * Qc)) : Qc := match l with [] => 0 | kv :: r => fst kv * snd kv + wmom r end.

Lemma wsum_app a b : wsum (a ++ b) = wsum a + wsum b.
Proof. induction a as [|x a IH]; simpl; [ring | rewrite IH; ring]. Qed.
Lemma wmom_app a b : wmom (a ++ b) = wmom a + wmom b.
Proof. induction a as [|x a IH]; simpl; [ring | rewrite IH; ring]. Qed.

Lemma wsum_sumQ l : wsum l = sumQ (map snd l).
Proof. induction l as [|x l IH]; simpl; [reflexivity | rewrite IH; reflexivity]. Qed.

Lemma dict_add_wsum k v d : wsum (dict_add k v d) = v + wsum d.
Proof.
  induction d as [|[k' v'] d IH]; simpl; [ring|].
  destruct (Qc_eqb k k'); simpl; [ring|].
  destruct (Qc_ltb k k'); simpl; [ring | rewrite IH; ring].
Qed.

Lemma dict_add_wmom k v d : wmom (dict_add k v d) = k * v + wmom d.
Proof.
  induction d as [|[k' v'] d IH]; simpl; [ring|].
  destruct (Qc_eqb k k') eqn:E; simpl.
  - apply Qc_eqb_eq in E. subst. ring.
  - destruct (Qc_ltb k k'); simpl; [ring | rewrite IH; ring].
Qed.

Lemma dict_fold_wsum cs : forall d,
  wsum (fold_left (fun d kv => dict_add (fst kv) (snd kv) d) cs d) = wsum cs + wsum d.
Proof.
  induction cs as [|[k v] cs IH]; intro d; simpl; [ring|].
  rewrite IH, dict_add_wsum. ring.
Qed.
Lemma dict_fold_wmom cs : forall d,
  wmom (fold_left (fun d kv => dict_add (fst kv) (snd kv) d) cs d) = wmom cs + wmom d.
Proof.
  induction cs as [|[k v] cs IH]; intro d; simpl; [ring|].
  rewrite IH, dict_add_wmom. ring.
Qed.

(* collecting contributions into the dictionary keeps total weight and first moment *)
Lemma dict_of_wsum cs : wsum (dict_of cs) = wsum cs.
Proof. unfold dict_of. rewrite dict_fold_wsum. simpl. ring. Qed.
Lemma dict_of_wmom cs : wmom (dict_of cs) = wmom cs.
Proof. unfold dict_of. rewrite dict_fold_wmom. simpl. ring. Qed.

(* ---------------------------------------------------------------------------------------------- *)
(* slice algebra: for EVERY support pair L <> R the two weights sum to the slice width and reproduce int x *)

Lemma sub_neq0 (L R : Qc) : L <> R -> L - R <> 0.
Proof. intros H E. apply H. transitivity (L - R + R); [ring | rewrite E; ring]. Qed.

Lemma Qchalf_2 : Qchalf * Qc2 = 1.
Proof. apply Qc_is_canon. reflexivity. Qed.
Lemma Qc2_neq0 : Qc2 <> 0.
Proof. intro H. discriminate H. Qed.
Lemma Qc2_eq : Qc2 = 1 + 1.
Proof. apply Qc_is_canon. reflexivity. Qed.
Lemma Qchalf_eq : Qchalf = 1 / (1 + 1).
Proof. apply Qc_is_canon. reflexivity. Qed.
Lemma two_neq0 : (1 + 1 : Qc) <> 0.
Proof. intro H. discriminate H. Qed.
(* normalise the numeric constants so that ring/field see them *)
Ltac qc_consts := rewrite ?Qchalf_eq, ?Qc2_eq in *.

Lemma romberg_slice_pair_sum s L R wl wr :
  romberg_slice_pair s L R = Some (wl, wr) -> wl + wr = sl_width s.
Proof.
  unfold romberg_slice_pair. destruct (Qc_leb L (sl_l s) && Qc_leb (sl_r s) R && negb (Qc_eqb L R)) eqn:E; [|discriminate].
  intro H. injection H as <- <-. ring.
Qed.

Lemma romberg_slice_pair_moment s L R wl wr :
  romberg_slice_pair s L R = Some (wl, wr) ->
  L * wl + R * wr = Qchalf * (sl_r s * sl_r s - sl_l s * sl_l s).
Proof.
  unfold romberg_slice_pair. destruct (Qc_leb L (sl_l s) && Qc_leb (sl_r s) R && negb (Qc_eqb L R)) eqn:E; [|discriminate].
  apply andb_prop in E. destruct E as [_ E]. apply negb_true_iff in E.
  assert (LR : L <> R). { intro H. apply Qc_eqb_eq in H. congruence. }
  intro H. injection H as <- <-. unfold sl_width. qc_consts. field. split; [exact two_neq0 | apply sub_neq0; exact LR].
Qed.

(* the trapezoidal slice *)
Lemma trapezoid_slice_sum s cs : trapezoid_slice_final s = Some cs -> wsum cs = sl_width s.
Proof.
  unfold trapezoid_slice_final. intro H. injection H as <-. simpl. qc_consts. field. exact two_neq0.
Qed.
Lemma trapezoid_slice_moment s cs :
  trapezoid_slice_final s = Some cs -> wmom cs = Qchalf * (sl_r s * sl_r s - sl_l s * sl_l s).
Proof.
  unfold trapezoid_slice_final. intro H. injection H as <-. simpl. unfold sl_width.
  qc_consts. field. exact two_neq0.
Qed.
