(* C03: the generated get_subtraction_value (versions 2, 6, 7, 8; the branches of versions 3, 4, 5 are outside the model and raise)
   equals Model/DimWise.v get_subtraction_value, incl. the three `while True` loops (= v68_loop / v7_loop, fuel for fuel) and the
   entry written to max_level_dict. *)
From Coq Require Import ZArith List Bool QArith Qcanon Arith Lia.
From SG Require Import Base.QcUtil Base.PyLib Base.PyNum Base.PyC06 Proofs.PyLibFacts Proofs.PyNumFacts
     Model.RefTree Model.DimWise Model.DimWiseCache Gen.DimWiseGen Proofs.GenDimWiseEq.
Import ListNotations.
Open Scope Z_scope.
Local Arguments Z.add : simpl never.
Local Arguments Z.sub : simpl never.
Local Arguments Z.mul : simpl never.
Local Arguments Z.max : simpl never.
Local Arguments Z.min : simpl never.
Local Arguments Z.of_nat : simpl never.
Local Arguments Z.to_nat : simpl never.
Local Arguments Z.leb : simpl never.
Local Arguments Z.ltb : simpl never.
Local Arguments Z.gtb : simpl never.
Local Arguments Z.geb : simpl never.
Local Arguments Z.eqb : simpl never.

(* ---------------------------------------------------------------------------------------------- *)
(* sum([1 for v in range(n) if mcs[v] >= t]) *)
Definition cnt_body {R} (mcs : list Z) (t : Z) (v : Z) (c : Z) : flow Z R :=
  bindE (py_getitem mcs v) (fun x => bindF (if (x >=? t) then Nxt (c + 1) else Nxt c) (fun c => Nxt c)).

Lemma count_ge_app a b t : count_ge (a ++ b) t = count_ge a t + count_ge b t.
Proof. unfold count_ge. rewrite filter_app, app_length. lia. Qed.

Lemma firstn_S_nth (mcs : list Z) : forall n, (n < length mcs)%nat -> firstn (S n) mcs = firstn n mcs ++ [nth n mcs 0].
Proof.
  induction mcs as [|a l IHl]; intros n Hn; [simpl in Hn; lia|].
  destruct n as [|n]; [reflexivity|]. cbn [firstn nth app]. f_equal. apply IHl. simpl in Hn. lia.
Qed.

Lemma count_ge_single x t : count_ge [x] t = if t <=? x then 1 else 0.
Proof. unfold count_ge. cbn [filter]. destruct (t <=? x); reflexivity. Qed.

Lemma count_loop {R} mcs t : forall n c0, (n <= length mcs)%nat ->
  py_for (py_range (Z.of_nat n)) (@cnt_body R mcs t) c0 = Nxt (c0 + count_ge (firstn n mcs) t).
Proof.
  induction n as [|n IH]; intros c0 Hn.
  - cbn. unfold count_ge. simpl. f_equal. lia.
  - rewrite py_range_seq, seq_S, map_app, py_for_app. rewrite <- py_range_seq.
    assert (Hn' : (n <= length mcs)%nat) by lia. rewrite (IH c0 Hn').
    cbn [map py_for plus]. unfold cnt_body at 1.
    rewrite (py_getitem_in mcs n) by lia. cbn [bindE].
    rewrite (firstn_S_nth mcs n) by lia. rewrite count_ge_app, count_ge_single.
    rewrite Z.geb_leb. destruct (t <=? nth n mcs 0); cbn [bindF]; f_equal; lia.
Qed.

(* ---------------------------------------------------------------------------------------------- *)
(* the while True loops, fuel for fuel *)
Lemma while_v68 {R} cap mcs d sv (cond : Z * Z * bool -> option bool) (body : Z * Z * bool -> flow (Z * Z * bool) R) :
  (forall m ps go, cond (m, ps, go) = Some (go && true)) ->
  (forall m ps, body (m, ps, true) =
     let ps' := if 0 <? m then ps + capped cap (count_ge mcs (sv - (m - 1))) else ps in
     let pst := capped cap (count_ge (firstn (S d) mcs) (sv - m)) in
     Nxt ((if ps' + pst <=? sv then m + 1 else m), ps', negb (sv <=? ps' + pst))) ->
  forall f m ps,
  match v68_loop f cap mcs d sv m ps with
  | Some m' => exists ps', py_while (S f) cond body (m, ps, true) = Nxt (m', ps', false)
  | None => py_while (S f) cond body (m, ps, true) = Fail
  end.
Proof.
  intros Hc Hb. induction f as [|f IH]; intros m ps.
  - cbn [v68_loop py_while]. rewrite Hc, Hb. cbv zeta. cbn [andb]. reflexivity.
  - cbn [v68_loop]. cbv zeta.
    set (ps' := if 0 <? m then ps + capped cap (count_ge mcs (sv - (m - 1))) else ps).
    set (pst := capped cap (count_ge (firstn (S d) mcs) (sv - m))).
    set (m' := if ps' + pst <=? sv then m + 1 else m).
    change (py_while (S (S f)) cond body (m, ps, true))
      with (match cond (m, ps, true) with
            | None => Fail | Some false => Nxt (m, ps, true)
            | Some true => match body (m, ps, true) with Nxt v' => py_while (S f) cond body v' | Ret r => Ret r | Fail => Fail end end).
    rewrite Hc, Hb. cbv zeta. fold ps' pst m'. cbn [andb].
    destruct (sv <=? ps' + pst) eqn:E; cbn [negb].
    + exists ps'. cbn [py_while]. rewrite Hc. reflexivity.
    + apply IH.
Qed.

Lemma while_v7 {R} mcs sv (cond : Z * Z * bool -> option bool) (body : Z * Z * bool -> flow (Z * Z * bool) R) :
  (forall m ps go, cond (m, ps, go) = Some (go && true)) ->
  (forall m ps, body (m, ps, true) =
     let ps' := ps + count_ge mcs (sv - m) in
     Nxt ((if ps' <=? sv then m + 1 else m), ps', negb (sv <=? ps'))) ->
  forall f m ps,
  match v7_loop f mcs sv m ps with
  | Some m' => exists ps', py_while (S f) cond body (m, ps, true) = Nxt (m', ps', false)
  | None => py_while (S f) cond body (m, ps, true) = Fail
  end.
Proof.
  intros Hc Hb. induction f as [|f IH]; intros m ps.
  - cbn [v7_loop py_while]. rewrite Hc, Hb. cbv zeta. cbn [andb]. reflexivity.
  - cbn [v7_loop]. cbv zeta.
    set (ps' := ps + count_ge mcs (sv - m)). set (m' := if ps' <=? sv then m + 1 else m).
    change (py_while (S (S f)) cond body (m, ps, true))
      with (match cond (m, ps, true) with
            | None => Fail | Some false => Nxt (m, ps, true)
            | Some true => match body (m, ps, true) with Nxt v' => py_while (S f) cond body v' | Ret r => Ret r | Fail => Fail end end).
    rewrite Hc, Hb. cbv zeta. fold ps' m'. cbn [andb].
    destruct (sv <=? ps') eqn:E; cbn [negb].
    + exists ps'. cbn [py_while]. rewrite Hc. reflexivity.
    + apply IH.
Qed.

(* ---------------------------------------------------------------------------------------------- *)
Lemma cnt_for_dim {R} mcs t (dim : nat) c0 : length mcs = dim ->
  py_for (py_range (Z.of_nat dim))
    (fun (v : Z) (c : Z) => bindE (py_getitem mcs v) (fun x => bindF (if (x >=? t) then (let c := c + 1 in Nxt c) else Nxt c) (fun c => @Nxt Z R c))) c0
  = Nxt (c0 + count_ge mcs t).
Proof.
  intro L. change (py_for (py_range (Z.of_nat dim)) (@cnt_body R mcs t) c0 = Nxt (c0 + count_ge mcs t)).
  rewrite count_loop by lia. rewrite <- L, firstn_all. reflexivity.
Qed.

Lemma cnt_for_d {R} mcs t (d : nat) c0 : (d < length mcs)%nat ->
  py_for (py_range (Z.of_nat d + 1))
    (fun (v : Z) (c : Z) => bindE (py_getitem mcs v) (fun x => bindF (if (x >=? t) then (let c := c + 1 in Nxt c) else Nxt c) (fun c => @Nxt Z R c))) c0
  = Nxt (c0 + count_ge (firstn (S d) mcs) t).
Proof.
  intro L. replace (Z.of_nat d + 1) with (Z.of_nat (S d)) by lia.
  change (py_for (py_range (Z.of_nat (S d))) (@cnt_body R mcs t) c0 = Nxt (c0 + count_ge (firstn (S d) mcs) t)).
  apply count_loop. lia.
Qed.

Definition gsv_result (objs : list ival) (d i : nat) (r : option Z) : option (Z * list (list Z)) :=
  match r with Some v => Some (v, [[Z.of_nat d; Z.of_nat i; get_max_level objs i]]) | None => None end.

Section GSV.
  Variables (o : dw_opts) (lmaxs lmins : list Z) (dict : list (list Z)) (objs : list ival) (i d dim : nat) (mcs levelvec : list Z).
  Hypothesis Hi : (i < length objs)%nat.
  Hypothesis Hd1 : (d < length levelvec)%nat.
  Hypothesis Hd2 : (d < length lmaxs)%nat.
  Hypothesis Hd3 : (d < length lmins)%nat.
  Hypothesis Hdim : length mcs = dim.
  Hypothesis Hd : (d < dim)%nat.
  Hypothesis Hcache : forall v, py_c06_dict_get dict (Z.of_nat d) (Z.of_nat i) = Some v -> v = get_max_level objs i.

  Lemma gml_here :
    SpatiallyAdaptiveSingleDimensions2_get_max_level dict (views objs) (lv_of (nth i objs dflt)) (Z.of_nat i) (Z.of_nat d)
    = Some (get_max_level objs i).
  Proof.
    destruct (py_c06_dict_get dict (Z.of_nat d) (Z.of_nat i)) as [v|] eqn:E.
    - rewrite (gen_get_max_level_hit _ _ _ _ _ v E). f_equal. apply Hcache. reflexivity.
    - apply gen_get_max_level_miss; [exact Hi|]. unfold py_c06_dict_has. rewrite E. reflexivity.
  Qed.

  Theorem gen_gsv_v6 : o_version o = 6 ->
    SpatiallyAdaptiveSingleDimensions2_get_subtraction_value lmaxs lmins dict (o_version o) (Z.of_nat dim)
      (lv_of (nth i objs dflt)) (views objs) (Z.of_nat i) mcs (Z.of_nat d) levelvec
    = gsv_result objs d i (get_subtraction_value o dim (nth d lmins 0) (nth d lmaxs 0) mcs objs i d (nth d levelvec 0)).
  Proof.
    intro Hv. unfold SpatiallyAdaptiveSingleDimensions2_get_subtraction_value, get_subtraction_value. rewrite Hv.
    change (6 =? 5) with false. change (6 =? 4) with false. change (6 =? 2) with false. change (6 =? 3) with false.
    change (6 =? 6) with true. cbn [orb bindF bindE]. change ((2 <=? 6) && (6 <=? 8)) with true. cbv iota.
    rewrite gml_here. cbn [bindE]. rewrite (py_getitem_in lmaxs d Hd2). cbn [bindE app].
    set (ml := get_max_level objs i). set (sv := nth d lmaxs 0 - ml).
    match goal with |- context [py_while ?fu ?c ?b (0, 0, true)] => set (cond := c); set (body := b) end.
    assert (Hc : forall m ps go, cond (m, ps, go) = Some (go && true)) by (intros; reflexivity).
    assert (Hb : forall m ps, body (m, ps, true) =
               let ps' := if 0 <? m then ps + capped None (count_ge mcs (sv - (m - 1))) else ps in
               let pst := capped None (count_ge (firstn (S d) mcs) (sv - m)) in
               Nxt ((if ps' + pst <=? sv then m + 1 else m), ps', negb (sv <=? ps' + pst))).
    { intros m ps. unfold body. cbv zeta. cbn [capped]. rewrite Z.gtb_ltb.
      destruct (0 <? m).
      - rewrite (cnt_for_dim mcs _ dim 0 Hdim). cbn [bindF]. rewrite (cnt_for_d mcs _ d 0) by lia. cbn [bindF].
        rewrite !Z.add_0_l, Z.geb_leb.
        destruct (ps + count_ge mcs (sv - (m - 1)) + count_ge (firstn (S d) mcs) (sv - m) <=? sv); cbn [bindF];
          destruct (sv <=? ps + count_ge mcs (sv - (m - 1)) + count_ge (firstn (S d) mcs) (sv - m)); reflexivity.
      - cbn [bindF]. rewrite (cnt_for_d mcs _ d 0) by lia. cbn [bindF]. rewrite !Z.add_0_l, Z.geb_leb.
        destruct (ps + count_ge (firstn (S d) mcs) (sv - m) <=? sv); cbn [bindF];
          destruct (sv <=? ps + count_ge (firstn (S d) mcs) (sv - m)); reflexivity. }
    pose proof (while_v68 None mcs d sv cond body Hc Hb (sub_fuel sv) 0 0) as HW.
    unfold sub_fuel in HW |- *.
    destruct (v68_loop (Z.to_nat (2 * Z.max sv 0 + 4)) None mcs d sv 0 0) as [m'|].
    - destruct HW as (ps' & ->). cbn [bindF]. rewrite (gen_modify_eq lmaxs lmins m' d ml levelvec Hd1 Hd2 Hd3). reflexivity.
    - rewrite HW. reflexivity.
  Qed.

  Theorem gen_gsv_v8 : o_version o = 8 ->
    SpatiallyAdaptiveSingleDimensions2_get_subtraction_value lmaxs lmins dict (o_version o) (Z.of_nat dim)
      (lv_of (nth i objs dflt)) (views objs) (Z.of_nat i) mcs (Z.of_nat d) levelvec
    = gsv_result objs d i (get_subtraction_value o dim (nth d lmins 0) (nth d lmaxs 0) mcs objs i d (nth d levelvec 0)).
  Proof.
    intro Hv. unfold SpatiallyAdaptiveSingleDimensions2_get_subtraction_value, get_subtraction_value. rewrite Hv.
    change (8 =? 5) with false. change (8 =? 4) with false. change (8 =? 2) with false. change (8 =? 3) with false.
    change (8 =? 6) with false. change (8 =? 7) with false. change (8 =? 8) with true.
    cbn [orb bindF bindE]. change ((2 <=? 8) && (8 <=? 8)) with true. cbv iota.
    rewrite gml_here. cbn [bindE]. rewrite (py_getitem_in lmaxs d Hd2). cbn [bindE app bindF].
    set (ml := get_max_level objs i). set (sv := nth d lmaxs 0 - ml).
    match goal with |- context [py_while ?fu ?c ?b (0, 0, true)] => set (cond := c); set (body := b) end.
    assert (Hc : forall m ps go, cond (m, ps, go) = Some (go && true)) by (intros; reflexivity).
    assert (Hb : forall m ps, body (m, ps, true) =
               let ps' := if 0 <? m then ps + capped (Some (ml - 1)) (count_ge mcs (sv - (m - 1))) else ps in
               let pst := capped (Some (ml - 1)) (count_ge (firstn (S d) mcs) (sv - m)) in
               Nxt ((if ps' + pst <=? sv then m + 1 else m), ps', negb (sv <=? ps' + pst))).
    { intros m ps. unfold body. cbv zeta. cbn [capped]. rewrite Z.gtb_ltb.
      destruct (0 <? m).
      - rewrite (cnt_for_dim mcs _ dim 0 Hdim). cbn [bindF]. rewrite (cnt_for_d mcs _ d 0) by lia. cbn [bindF].
        rewrite !Z.add_0_l, Z.geb_leb.
        destruct (ps + Z.min (ml - 1) (count_ge mcs (sv - (m - 1))) + Z.min (ml - 1) (count_ge (firstn (S d) mcs) (sv - m)) <=? sv); cbn [bindF];
          destruct (sv <=? ps + Z.min (ml - 1) (count_ge mcs (sv - (m - 1))) + Z.min (ml - 1) (count_ge (firstn (S d) mcs) (sv - m))); reflexivity.
      - cbn [bindF]. rewrite (cnt_for_d mcs _ d 0) by lia. cbn [bindF]. rewrite !Z.add_0_l, Z.geb_leb.
        destruct (ps + Z.min (ml - 1) (count_ge (firstn (S d) mcs) (sv - m)) <=? sv); cbn [bindF];
          destruct (sv <=? ps + Z.min (ml - 1) (count_ge (firstn (S d) mcs) (sv - m))); reflexivity. }
    pose proof (while_v68 (Some (ml - 1)) mcs d sv cond body Hc Hb (sub_fuel sv) 0 0) as HW.
    unfold sub_fuel in HW |- *.
    destruct (v68_loop (Z.to_nat (2 * Z.max sv 0 + 4)) (Some (ml - 1)) mcs d sv 0 0) as [m'|].
    - destruct HW as (ps' & ->). cbn [bindF]. rewrite (gen_modify_eq lmaxs lmins m' d ml levelvec Hd1 Hd2 Hd3). reflexivity.
    - rewrite HW. reflexivity.
  Qed.

  Theorem gen_gsv_v7 : o_version o = 7 ->
    SpatiallyAdaptiveSingleDimensions2_get_subtraction_value lmaxs lmins dict (o_version o) (Z.of_nat dim)
      (lv_of (nth i objs dflt)) (views objs) (Z.of_nat i) mcs (Z.of_nat d) levelvec
    = gsv_result objs d i (get_subtraction_value o dim (nth d lmins 0) (nth d lmaxs 0) mcs objs i d (nth d levelvec 0)).
  Proof.
    intro Hv. unfold SpatiallyAdaptiveSingleDimensions2_get_subtraction_value, get_subtraction_value. rewrite Hv.
    change (7 =? 5) with false. change (7 =? 4) with false. change (7 =? 2) with false. change (7 =? 3) with false.
    change (7 =? 6) with false. change (7 =? 7) with true.
    cbn [orb bindF bindE]. change ((2 <=? 7) && (7 <=? 8)) with true. cbv iota.
    rewrite gml_here. cbn [bindE]. rewrite (py_getitem_in lmaxs d Hd2). cbn [bindE app bindF].
    set (ml := get_max_level objs i). set (sv := nth d lmaxs 0 - ml).
    match goal with |- context [py_while ?fu ?c ?b (0, 0, true)] => set (cond := c); set (body := b) end.
    assert (Hc : forall m ps go, cond (m, ps, go) = Some (go && true)) by (intros; reflexivity).
    assert (Hb : forall m ps, body (m, ps, true) =
               let ps' := ps + count_ge mcs (sv - m) in
               Nxt ((if ps' <=? sv then m + 1 else m), ps', negb (sv <=? ps'))).
    { intros m ps. unfold body. cbv zeta.
      rewrite (cnt_for_dim mcs _ dim 0 Hdim). cbn [bindF]. rewrite !Z.add_0_l, Z.geb_leb.
      destruct (ps + count_ge mcs (sv - m) <=? sv); cbn [bindF]; destruct (sv <=? ps + count_ge mcs (sv - m)); reflexivity. }
    pose proof (while_v7 mcs sv cond body Hc Hb (sub_fuel sv) 0 0) as HW.
    unfold sub_fuel in HW |- *.
    destruct (v7_loop (Z.to_nat (2 * Z.max sv 0 + 4)) mcs sv 0 0) as [m'|].
    - destruct HW as (ps' & ->). cbn [bindF]. rewrite (gen_modify_eq lmaxs lmins m' d ml levelvec Hd1 Hd2 Hd3). reflexivity.
    - rewrite HW. reflexivity.
  Qed.

  Theorem gen_gsv_v2 : o_version o = 2 ->
    SpatiallyAdaptiveSingleDimensions2_get_subtraction_value lmaxs lmins dict (o_version o) (Z.of_nat dim)
      (lv_of (nth i objs dflt)) (views objs) (Z.of_nat i) mcs (Z.of_nat d) levelvec
    = gsv_result objs d i (get_subtraction_value o dim (nth d lmins 0) (nth d lmaxs 0) mcs objs i d (nth d levelvec 0)).
  Proof.
    intro Hv. unfold SpatiallyAdaptiveSingleDimensions2_get_subtraction_value, get_subtraction_value. rewrite Hv.
    change (2 =? 5) with false. change (2 =? 4) with false. change (2 =? 2) with true. change (2 =? 3) with false.
    change (2 =? 6) with false. change (2 =? 7) with false. change (2 =? 8) with false.
    cbn [orb andb bindF bindE]. change ((2 <=? 2) && (2 <=? 8)) with true. cbv iota.
    rewrite gml_here. cbn [bindE]. rewrite (py_getitem_in lmaxs d Hd2). cbn [bindE app bindF run_flow gsv_result]. reflexivity.
  Qed.

  (* all translated versions *)
  Theorem gen_gsv_eq : (o_version o = 2 \/ o_version o = 6 \/ o_version o = 7 \/ o_version o = 8) ->
    SpatiallyAdaptiveSingleDimensions2_get_subtraction_value lmaxs lmins dict (o_version o) (Z.of_nat dim)
      (lv_of (nth i objs dflt)) (views objs) (Z.of_nat i) mcs (Z.of_nat d) levelvec
    = gsv_result objs d i (get_subtraction_value o dim (nth d lmins 0) (nth d lmaxs 0) mcs objs i d (nth d levelvec 0)).
  Proof. intros [H|[H|[H|H]]]; [apply gen_gsv_v2 | apply gen_gsv_v6 | apply gen_gsv_v7 | apply gen_gsv_v8]; exact H. Qed.
End GSV.

(* the branches declared outside the model raise: versions 4 and 5 always, version 3 on subtrees deeper than level 2 *)
Theorem gen_gsv_outside lmaxs lmins dict v dimz ro objs i mcs d levelvec : v = 4 \/ v = 5 ->
  SpatiallyAdaptiveSingleDimensions2_get_subtraction_value lmaxs lmins dict v dimz ro objs i mcs d levelvec = None.
Proof.
  intros [->| ->]; unfold SpatiallyAdaptiveSingleDimensions2_get_subtraction_value.
  - change (4 =? 5) with false. change (4 =? 4) with true. reflexivity.
  - change (5 =? 5) with true. reflexivity.
Qed.
