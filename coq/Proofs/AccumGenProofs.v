(* C05: the source-derived accumulation code (coq/Gen/AccumGen.v, generated from Integration.evaluate_area / area_preprocessing /
   process_removed_objects / get_result / reset_result / initialize and the call sites of evaluate_area) IS the transition relation of
   the hand model Model/Accum.v. *)
From Coq Require Import ZArith List Bool Lia.
From SG Require Import Model.Accum Proofs.AccumProofs Gen.AccumGen.
Import ListNotations.
Open Scope Z_scope.

Section AccumGenProofs.
  Variable V : Type.
  Variable C : Type.
  Variable vzero : V.
  Variable vadd : V -> V -> V.
  Variable vopp : V -> V.
  Variable scale : C -> V -> V.
  Hypothesis vadd_assoc : forall a b c, vadd a (vadd b c) = vadd (vadd a b) c.
  Hypothesis vadd_comm : forall a b, vadd a b = vadd b a.
  Hypothesis vadd_0_l : forall a, vadd vzero a = a.
  Hypothesis vadd_opp_r : forall a, vadd a (vopp a) = vzero.

  Notation apply_event := (apply_event V vzero vadd vopp).
  Notation gen_evaluate_area := (gen_evaluate_area V C vadd scale).

  (* the driver's evaluation (container passed, apply_to_combi_result) = AEval id x true true with x = scale c p *)
  Theorem gen_evaluate_area_is_AEval s id p c :
    let s' := apply_event s (AEval id (scale c p) true true) in
    gen_evaluate_area (area_get V id (st_areas s)) (Some (st_cont s)) (st_total s) true p c
    = (area_get V id (st_areas s'), Some (st_cont s'), st_total s').
  Proof.
    cbn [Accum.apply_event st_areas st_cont st_total]. unfold AccumGen.gen_evaluate_area, Accum.area_val.
    rewrite (area_get_set_same V). destruct (area_get V id (st_areas s)) as [v|]; [reflexivity|]. rewrite vadd_0_l. reflexivity.
  Qed.

  (* a call without container and without apply_to_combi_result on an area of the table = ASide; on a temporary area it leaves the
     machine state alone *)
  Theorem gen_evaluate_area_is_ASide s id p c v :
    area_get V id (st_areas s) = Some v ->
    let s' := apply_event s (ASide id (scale c p)) in
    gen_evaluate_area (Some v) None (st_total s) false p c = (area_get V id (st_areas s'), None, st_total s') /\ st_cont s' = st_cont s.
  Proof.
    intro G. cbn [Accum.apply_event]. rewrite G. cbn [st_areas st_total st_cont]. rewrite (area_get_set_same V). split; reflexivity.
  Qed.

  Theorem gen_evaluate_area_temporary av tot p c :
    snd (gen_evaluate_area av None tot false p c) = tot /\ snd (fst (gen_evaluate_area av None tot false p c)) = None.
  Proof. split; reflexivity. Qed.

  (* the call sites: the driver passes the container and applies; every twin-error call passes neither; so the twin-error calls
     leave result and container untouched (the statement seeded/C05r2 falsifies) *)
  Theorem gen_call_sites : gen_main_call = (true, true) /\ Forall (fun ca => ca = (false, false)) gen_twin_calls /\ gen_twin_calls <> [].
  Proof. split; [reflexivity|]. split; [repeat constructor|discriminate]. Qed.

  Theorem gen_twin_calls_are_side_evaluations ca av cont tot p c : In ca gen_twin_calls ->
    snd (gen_evaluate_area av (if fst ca then Some cont else None) tot (snd ca) p c) = tot /\
    snd (fst (gen_evaluate_area av (if fst ca then Some cont else None) tot (snd ca) p c)) = None.
  Proof.
    intro H. destruct gen_call_sites as [_ [F _]]. rewrite Forall_forall in F. rewrite (F ca H). split; reflexivity.
  Qed.

  (* area_preprocessing = APre: the area value restarts from zero WHATEVER it was (the statement seeded/C05r5 falsifies) *)
  Theorem gen_area_preprocessing_is_APre s id :
    gen_area_preprocessing V vzero (area_get V id (st_areas s)) = area_get V id (st_areas (apply_event s (APre id))).
  Proof. cbn [Accum.apply_event st_areas]. rewrite (area_get_set_same V). reflexivity. Qed.

  (* process_removed_objects = the running total of ARemove *)
  Theorem gen_process_removed_is_ARemove ids : NoDup ids -> forall s,
    st_total (apply_event s (ARemove ids)) =
    gen_process_removed_objects V vadd vopp (map (fun id => area_val V vzero id (st_areas s)) ids) (st_total s).
  Proof.
    induction 1 as [|id l Hnot Hnd IH]; intro s; [reflexivity|].
    cbn [Accum.apply_event fold_left map]. unfold AccumGen.gen_process_removed_objects. cbn [fold_left].
    change (fold_left (remove_one V vzero vadd vopp) l (remove_one V vzero vadd vopp s id)) with (apply_event (remove_one V vzero vadd vopp s id) (ARemove l)).
    rewrite IH. unfold AccumGen.gen_process_removed_objects. f_equal.
    apply map_ext_in. intros i Hi. unfold Accum.area_val.
    rewrite (remove_one_get V vzero vadd vopp s id i); [reflexivity|]. intro E. subst. contradiction.
  Qed.

  (* reset_result / initialize / get_result *)
  Theorem gen_reset_is_AResetTotal s : gen_reset_result V vzero (st_total s) = st_total (apply_event s AResetTotal) /\
                                      gen_initialize V vzero (st_total s) = st_total (apply_event s AInit).
  Proof. split; reflexivity. Qed.
  Theorem gen_get_result_pure tot : gen_get_result V tot = (tot, tot).
  Proof. reflexivity. Qed.
End AccumGenProofs.

(* evaluate_area_for_error_estimates = AEstimate: the estimate evaluations (split / extend benefits, parent estimates) touch neither
   the area value nor the container value nor the result (the generated identity is the verdict of the translator's fail-closed effect
   analysis; an alias of area.value - seeded/C05 - or a write to a cell makes the translator reject the source) *)
Theorem gen_estimate_is_AEstimate (V : Type) (vzero : V) (vadd : V -> V -> V) (vopp : V -> V) (s : astate V) (id : Z) :
  let s' := apply_event V vzero vadd vopp s (AEstimate id) in
  gen_evaluate_area_for_error_estimates V (area_get V id (st_areas s)) (Some (st_cont s)) (st_total s)
  = (area_get V id (st_areas s'), Some (st_cont s'), st_total s').
Proof. reflexivity. Qed.
