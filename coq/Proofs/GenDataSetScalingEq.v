(* C18 (phase 4) - the source-derived scaling bookkeeping (Gen/DataSetScalingGen.v, generated from DEMachineLearning.py by
   harness/translate/py2gallina_c18.py) instantiated with the primitives of Model/DataSet.v IS the hand-written bookkeeping of
   Model/DataSetOff.v (repaired variant).  What the equality ties to the source: branch structure, which attribute is written when
   with what, accumulation of factor and offset, evaluation order and the state left behind by an exception.  What stays modelled by
   hand (the instantiation below): the numpy / scikit-learn primitives themselves. *)
From Coq Require Import ZArith List QArith Qcanon Bool.
From SG Require Import Base.QcUtil Model.DataSet Model.DataSetOff Gen.DataSetScalingGen.
Import ListNotations.
Open Scope Qc_scope.

(* ---- instantiation of the Section parameters *)
Definition gdata := (list sample * bool * nat)%type.           (* rows, 1-d flag of the sample array, row width (_dim) *)
Definition gscaler := (row * row * row * row)%type.             (* scale_, min_, data_min_, data_max_ *)
Definition to_arg (f : fac) : arg := match f with FScalar q => AScalar q | FArr l => AArr l | FNone => AScalar 0 end.
Definition opt_to_fac (o : option row) : fac := match o with Some r => FArr r | None => FNone end.
Definition fac_to_opt (f : fac) : option row := match f with FArr r => Some r | _ => None end.

Definition i_float (z : Z) : fac := FScalar (Q2Qc (inject_Z z)).
Definition i_mul (f g : fac) : option fac := match f, g with FNone, _ | _, FNone => None | _, _ => Some (fac_mul f (to_arg g)) end.
Definition i_add (f g : fac) : option fac := match f, g with FNone, _ | _, FNone => None | _, _ => Some (fac_add f (to_arg g)) end.
Definition i_neg (f : fac) : option fac := match f with FNone => None | _ => Some (fac_of_arg (fac_neg f)) end.
(* 1.0 / x; a zero entry is treated as raising, as in Model/DataSet.v (excluded from the generated inputs) *)
Definition i_recip (f : fac) : option fac :=
  match f with FNone => None | _ => if fac_has_zero f then None else Some (fac_of_arg (fac_inv f)) end.
Definition i_misfit (f : fac) (n : nat) : bool := negb (arg_fits n (to_arg f)).
Definition i_fit (r : rng) (d : gdata) : option gscaler :=
  match r with
  | RScalar lo hi =>
    if negb (Qc_ltb lo hi) then None
    else match data_min (map fst (fst (fst d))), data_max (map fst (fst (fst d))) with
         | Some mn, Some mx => Some (mm_scale lo hi mn mx, mm_min lo mn (mm_scale lo hi mn mx), mn, mx)
         | _, _ => None
         end
  | _ => None
  end.
Definition i_scale (s : gscaler) : fac := FArr (fst (fst (fst s))).
Definition i_min (s : gscaler) : fac := FArr (snd (fst (fst s))).
Definition i_dmin (s : gscaler) : fac := FArr (snd (fst s)).
Definition i_dmax (s : gscaler) : fac := FArr (snd s).
Definition i_transform (s : gscaler) (d : gdata) : gdata :=
  (map_rows (transform (fst (fst (fst s))) (snd (fst (fst s)))) (fst (fst d)), snd (fst d), snd d).
(* np.array(list(map(lambda x: x op p, samples))): an empty result is 1-dimensional; a per-dimension array of the wrong length does not broadcast *)
Definition i_map (op : row -> row -> row) (d : gdata) (p : fac) : option gdata :=
  match fst (fst d) with
  | [] => Some ([], true, snd d)
  | _ => if arg_fits (snd d) (to_arg p) then Some (map_rows (fun r => op r (expand (snd d) (to_arg p))) (fst (fst d)), snd (fst d), snd d) else None
  end.
Definition i_range (d : gdata) : option rng := match fst (fst d) with [] => None | _ => Some (range_of (fst (fst d))) end.
Definition i_dmin_data (d : gdata) : fac := opt_to_fac (data_min (map fst (fst (fst d)))).
Definition i_dmax_data (d : gdata) : fac := opt_to_fac (data_max (map fst (fst (fst d)))).

Definition gstate := state fac gdata rng.
Definition g_scale_factor := scale_factor fac gdata rng i_float i_mul i_misfit (i_map vmul) i_range i_dmin_data i_dmax_data.
Definition g_shift_value := shift_value fac gdata rng i_float i_add i_misfit (i_map vadd) i_range i_dmin_data i_dmax_data.
Definition g_scale_range := scale_range fac gdata rng gscaler i_mul i_add i_fit i_scale i_min i_dmin i_dmax i_transform.
Definition g_revert_scaling := revert_scaling fac gdata rng i_float FNone RNone i_mul i_add i_neg i_recip i_misfit (i_map vmul) (i_map vadd) i_range i_dmin_data i_dmax_data.

(* ---- the attributes of a data set of Model/DataSetOff.v as a state of the generated machine, and back *)
Definition to_state (d : dso) : gstate :=
  mkState fac gdata rng (rows (base d), flat (base d), ddim (base d)) (ddim (base d)) (scaled (base d)) (srange (base d)) (sfactor (base d)) (soff d)
          (opt_to_fac (omin (base d))) (opt_to_fac (omax (base d))).
Definition of_state (sh : bool) (s : gstate) : dso :=
  mkDSO (mkDS (fst (fst (f_data _ _ _ s))) (f_dim _ _ _ s) (snd (fst (f_data _ _ _ s))) sh (f_scaled _ _ _ s) (f_scaling_range _ _ _ s)
              (f_scaling_factor _ _ _ s) (fac_to_opt (f_original_min _ _ _ s)) (fac_to_opt (f_original_max _ _ _ s)))
        (f_scaling_offset _ _ _ s).
Definition of_result (sh : bool) (r : gstate * bool) : dso * bool := (of_state sh (fst r), snd r).

Lemma to_arg_of_arg a : to_arg (fac_of_arg a) = a.
Proof. destruct a; reflexivity. Qed.
Lemma fac_to_opt_to_fac o : fac_to_opt (opt_to_fac o) = o.
Proof. destruct o; reflexivity. Qed.

(* reachable states: a scaled data set has an accumulated factor (None * x would raise where the hand-written model keeps None) *)
Definition has_factor (d : dso) : Prop := scaled (base d) = true -> sfactor (base d) <> FNone.

Ltac split_ifs :=
  repeat match goal with
         | |- context [if ?c then _ else _] => let E := fresh "E" in destruct c eqn:E; cbn in *
         | |- context [match ?x with [] => _ | _ :: _ => _ end] => let E := fresh "E" in destruct x eqn:E; cbn in *
         end.

Theorem gen_scale_factor_eq d a ov : has_factor d ->
  of_result (shuffled (base d)) (g_scale_factor (to_state d) (fac_of_arg a) ov) = scale_factor_o true a ov d.
Proof.
  intro H. destruct d as [[rws dm fl sh sc rg fc mn mx] off]. unfold has_factor in H. cbn in H.
  unfold g_scale_factor, scale_factor, scale_factor_o, DataSet.scale_factor, of_result, to_state, is_first, i_misfit, i_map, i_range, i_mul,
    i_dmin_data, i_dmax_data, is_empty, dim, set_rows_rebuilt.
  cbn [base soff rows ddim flat shuffled scaled srange sfactor omin omax fst snd f_data f_dim f_scaled f_scaling_range f_scaling_factor
       f_scaling_offset f_original_min f_original_max set_data set_scaled set_scaling_range set_scaling_factor set_scaling_offset
       set_original_min set_original_max].
  rewrite to_arg_of_arg.
  destruct sc, ov; cbn [negb orb]; destruct rws as [|s0 rws]; cbn [fst snd];
    try (destruct (arg_fits dm a); cbn [negb]); try reflexivity;
    unfold of_state; cbn; rewrite ?fac_to_opt_to_fac; try reflexivity.
  all: try (destruct fc as [|fq|fl']; [exfalso; apply H; reflexivity| |]; destruct off as [|oq|ol]; destruct a as [aq|al]; cbn; rewrite ?fac_to_opt_to_fac; reflexivity).
Qed.

Theorem gen_shift_value_eq d a ov :
  of_result (shuffled (base d)) (g_shift_value (to_state d) (fac_of_arg a) ov) = shift_value_o true a ov d.
Proof.
  destruct d as [[rws dm fl sh sc rg fc mn mx] off].
  unfold g_shift_value, shift_value, shift_value_o, DataSet.shift_value, of_result, to_state, is_first, i_misfit, i_map, i_range, i_add,
    i_dmin_data, i_dmax_data, is_empty, dim, set_rows_rebuilt.
  cbn [base soff rows ddim flat shuffled scaled srange sfactor omin omax fst snd f_data f_dim f_scaled f_scaling_range f_scaling_factor
       f_scaling_offset f_original_min f_original_max set_data set_scaled set_scaling_range set_scaling_factor set_scaling_offset
       set_original_min set_original_max].
  rewrite to_arg_of_arg.
  destruct sc, ov; cbn [negb orb]; destruct rws as [|s0 rws]; cbn [fst snd];
    try (destruct (arg_fits dm a); cbn [negb]); try reflexivity;
    unfold of_state; cbn; rewrite ?fac_to_opt_to_fac; try reflexivity.
  all: try (destruct off as [|oq|ol]; destruct a as [aq|al]; cbn; rewrite ?fac_to_opt_to_fac; reflexivity).
Qed.

Theorem gen_scale_range_eq d lo hi ov : has_factor d ->
  of_result (shuffled (base d)) (g_scale_range (to_state d) (RScalar lo hi) ov) = scale_range_o true lo hi ov d.
Proof.
  intro H. destruct d as [[rws dm fl sh sc rg fc mn mx] off]. unfold has_factor in H. cbn in H.
  unfold g_scale_range, scale_range, scale_range_o, DataSet.scale_range, of_result, to_state, is_first, i_fit, i_mul, i_add, i_scale, i_min,
    i_dmin, i_dmax, i_transform, values.
  cbn [base soff rows ddim flat shuffled scaled srange sfactor omin omax fst snd f_data f_dim f_scaled f_scaling_range f_scaling_factor
       f_scaling_offset f_original_min f_original_max set_data set_scaled set_scaling_range set_scaling_factor set_scaling_offset
       set_original_min set_original_max].
  destruct (Qc_ltb lo hi); cbn [negb].
  2:{ destruct sc, ov; cbn [negb orb]; unfold of_state; cbn; rewrite ?fac_to_opt_to_fac; reflexivity. }
  destruct rws as [|s0 rws].
  { destruct sc, ov; cbn; unfold of_state; cbn; rewrite ?fac_to_opt_to_fac; reflexivity. }
  cbn [map data_min data_max].
  destruct sc, ov; cbn [negb orb fst snd]; unfold of_state; cbn [fst snd f_data f_dim f_scaled f_scaling_range f_scaling_factor
       f_scaling_offset f_original_min f_original_max set_data set_scaled set_scaling_range set_scaling_factor set_scaling_offset
       set_original_min set_original_max fac_to_opt lift base soff]; try reflexivity.
  all: try (destruct fc as [|fq|fl']; [exfalso; apply H; reflexivity| |]; destruct off as [|oq|ol]; cbn; rewrite ?fac_to_opt_to_fac; reflexivity).
Qed.

(* the same two equalities at the level of the generated state (needed for the calls inside revert_scaling) *)
Lemma gen_shift_value_state d a ov :
  g_shift_value (to_state d) (fac_of_arg a) ov = (to_state (fst (shift_value_o true a ov d)), snd (shift_value_o true a ov d)).
Proof.
  destruct d as [[rws dm fl sh sc rg fc mn mx] off].
  unfold g_shift_value, shift_value, shift_value_o, DataSet.shift_value, to_state, is_first, i_misfit, i_map, i_range, i_add,
    i_dmin_data, i_dmax_data, is_empty, dim, set_rows_rebuilt.
  cbn [base soff rows ddim flat shuffled scaled srange sfactor omin omax fst snd f_data f_dim f_scaled f_scaling_range f_scaling_factor
       f_scaling_offset f_original_min f_original_max set_data set_scaled set_scaling_range set_scaling_factor set_scaling_offset
       set_original_min set_original_max].
  rewrite to_arg_of_arg.
  destruct sc, ov; cbn [negb orb]; destruct rws as [|s0 rws]; cbn [fst snd];
    try (destruct (arg_fits dm a); cbn [negb]); try reflexivity.
  all: try (destruct off as [|oq|ol]; destruct a as [aq|al]; cbn; reflexivity).
Qed.

Lemma gen_scale_factor_state d a ov : has_factor d ->
  g_scale_factor (to_state d) (fac_of_arg a) ov = (to_state (fst (scale_factor_o true a ov d)), snd (scale_factor_o true a ov d)).
Proof.
  intro H. destruct d as [[rws dm fl sh sc rg fc mn mx] off]. unfold has_factor in H. cbn in H.
  unfold g_scale_factor, scale_factor, scale_factor_o, DataSet.scale_factor, to_state, is_first, i_misfit, i_map, i_range, i_mul,
    i_dmin_data, i_dmax_data, is_empty, dim, set_rows_rebuilt.
  cbn [base soff rows ddim flat shuffled scaled srange sfactor omin omax fst snd f_data f_dim f_scaled f_scaling_range f_scaling_factor
       f_scaling_offset f_original_min f_original_max set_data set_scaled set_scaling_range set_scaling_factor set_scaling_offset
       set_original_min set_original_max].
  rewrite to_arg_of_arg.
  destruct sc, ov; cbn [negb orb]; destruct rws as [|s0 rws]; cbn [fst snd];
    try (destruct (arg_fits dm a); cbn [negb]); try reflexivity.
  all: try (destruct fc as [|fq|fl']; [exfalso; apply H; reflexivity| |]; destruct off as [|oq|ol]; destruct a as [aq|al]; cbn; reflexivity).
Qed.

Lemma shift_keeps_factor a d : sfactor (base d) <> FNone -> has_factor (fst (shift_value_o true a false d)).
Proof.
  intro H. destruct d as [[rws dm fl sh sc rg fc mn mx] off]. cbn in H.
  unfold has_factor, shift_value_o, DataSet.shift_value, is_first, is_empty, dim, set_rows_rebuilt. cbn [base soff rows ddim scaled sfactor].
  destruct sc; cbn [negb orb]; destruct rws as [|s0 rws]; cbn; try (destruct (arg_fits dm a); cbn); try (intros _; exact H); try discriminate;
    try (destruct off; cbn; intros _; exact H).
Qed.

Lemma of_to_state d : of_state (shuffled (base d)) (to_state d) = d.
Proof. destruct d as [[rws dm fl sh sc rg fc mn mx] off]. unfold of_state, to_state. cbn. rewrite !fac_to_opt_to_fac. reflexivity. Qed.

Theorem gen_revert_scaling_eq d : has_factor d ->
  g_revert_scaling (to_state d) = (to_state (fst (revert_o true d)), snd (revert_o true d)).
Proof.
  intro H. unfold g_revert_scaling, revert_scaling, revert_o. cbn [negb].
  fold g_shift_value. fold g_scale_factor.
  assert (Ef : f_scaling_factor _ _ _ (to_state d) = sfactor (base d)) by reflexivity.
  assert (Eo : f_scaling_offset _ _ _ (to_state d) = soff d) by reflexivity.
  rewrite Ef, Eo. unfold i_recip, i_neg.
  destruct (sfactor (base d)) as [|fq|fl] eqn:F; [reflexivity| |].
  all: assert (Hf : sfactor (base d) <> FNone) by (rewrite F; discriminate).
  all: destruct (fac_has_zero _) eqn:Z; [reflexivity|].
  all: destruct (soff d) as [|oq|ol] eqn:O; [reflexivity| |].
  all: rewrite gen_shift_value_state;
    match goal with |- context [shift_value_o true ?a false ?dd] => pose proof (shift_keeps_factor a dd Hf) as H1 end;
    destruct (shift_value_o true _ false d) as [d1 e1]; cbn [fst snd] in *; destruct e1; [reflexivity|];
    rewrite (gen_scale_factor_state d1 _ false H1);
    destruct (scale_factor_o true _ false d1) as [d2 e2]; cbn [fst snd]; destruct e2; [reflexivity|];
    destruct d2 as [[rws dm fl2 sh sc rg fc mn mx] off]; reflexivity.
Qed.
