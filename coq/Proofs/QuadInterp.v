(* C08: interpolatory quadrature on ARBITRARY distinct nodes (the argument behind Clenshaw-Curtis and Leja rules).
   For every n and every list of n distinct nodes: the weights obtained by integrating the Lagrange basis polynomials
   are exact for every polynomial of degree <= n-1, and they are the only weights with that property. *)
From Coq Require Import ZArith List QArith Qcanon Bool Arith Lia.
From SG Require Import Base.QcUtil Base.PolyInt Base.PolyQ Model.Tensor Model.LocalGrids Model.LocalRules
  Proofs.TensorRule Proofs.LocalGridsBase Proofs.LocalGridsChecker Proofs.QuadPoly.
Import ListNotations.
Open Scope Qc_scope.

(* ---- the Lagrange basis ---- *)
Lemma plin_length k w p : length (plin k w p) = S (length p).
Proof. unfold plin. rewrite pscale_length, padd_length. cbn [length]. rewrite pscale_length. lia. Qed.

Lemma lag_num_length others xi : length (lag_num others xi) = S (length others).
Proof. induction others as [|xj r IH]; [reflexivity|]. cbn [lag_num length]. rewrite plin_length, IH. reflexivity. Qed.

(* vanishes at every other node (no distinctness needed) *)
Lemma lag_num_other others xi m : In m others -> PolyInt.peval (lag_num others xi) m = 0.
Proof.
  induction others as [|xj r IH]; intro H; [destruct H|].
  cbn [lag_num]. rewrite peval_plin. destruct H as [-> | H]; [ring | rewrite IH by assumption; ring].
Qed.

(* is 1 at its own node *)
Lemma lag_num_self others xi : (forall xj, In xj others -> xi <> xj) -> PolyInt.peval (lag_num others xi) xi = 1.
Proof.
  induction others as [|xj r IH]; intro H; [simpl; ring|].
  cbn [lag_num]. rewrite peval_plin, IH by (intros y Hy; apply H; right; assumption).
  assert (Hne : xi - xj <> 0).
  { intro Hc. apply (H xj); [left; reflexivity|]. rewrite <- (Qcplus_0_r xj), <- Hc. ring. }
  field. assumption.
Qed.

Lemma lag_bases_length pre xs : length (lag_bases pre xs) = length xs.
Proof. revert pre. induction xs as [|x r IH]; intro pre; [reflexivity|]. cbn [lag_bases length]. rewrite IH. reflexivity. Qed.

Lemma lag_bases_lengths pre xs : Forall (fun l => length l = (length pre + length xs)%nat) (lag_bases pre xs).
Proof.
  revert pre. induction xs as [|x r IH]; intro pre; [constructor|].
  cbn [lag_bases]. constructor.
  - rewrite lag_num_length, app_length, rev_length. cbn [length]. lia.
  - eapply Forall_impl; [|apply IH]. intros l Hl. cbn [length] in *. lia.
Qed.

(* ---- linear combinations of polynomials ---- *)
Lemma peval_pcomb vs ls x : PolyInt.peval (pcomb vs ls) x = dotQ vs (map (fun l => PolyInt.peval l x) ls).
Proof.
  revert ls. induction vs as [|v vs IH]; intros [|l ls]; simpl; try reflexivity.
  rewrite peval_padd, peval_pscale, IH. reflexivity.
Qed.

Lemma pint_pcomb vs ls s e : pint (pcomb vs ls) s e = dotQ vs (map (fun l => pint l s e) ls).
Proof.
  revert ls. induction vs as [|v vs IH]; intros [|l ls]; simpl; try reflexivity.
  rewrite pint_padd, pint_pscale, IH. reflexivity.
Qed.

Lemma pcomb_length n vs ls : Forall (fun l => (length l <= n)%nat) ls -> (length (pcomb vs ls) <= n)%nat.
Proof.
  revert ls. induction vs as [|v vs IH]; intros [|l ls] H; simpl; try lia.
  inversion H; subst. rewrite padd_length, pscale_length. specialize (IH ls H3). lia.
Qed.

(* ---- the interpolation property ---- *)
Lemma interp_vanish xs : forall pre vs m, In m pre ->
  dotQ vs (map (fun l => PolyInt.peval l m) (lag_bases pre xs)) = 0.
Proof.
  induction xs as [|x r IH]; intros pre vs m Hm; [destruct vs; reflexivity|].
  destruct vs as [|v vs]; [reflexivity|].
  cbn [lag_bases map dotQ]. rewrite lag_num_other by (apply in_or_app; left; apply -> in_rev; assumption).
  rewrite IH by (right; assumption). ring.
Qed.

Lemma interp_at_node (f : Qc -> Qc) xs : forall pre m, NoDup (rev pre ++ xs) -> In m xs ->
  dotQ (map f xs) (map (fun l => PolyInt.peval l m) (lag_bases pre xs)) = f m.
Proof.
  induction xs as [|x r IH]; intros pre m Hnd Hm; [destruct Hm|].
  cbn [lag_bases map dotQ].
  assert (Hnd' : NoDup (rev (x :: pre) ++ r)) by (cbn [rev]; rewrite <- app_assoc; exact Hnd).
  destruct Hm as [<- | Hm].
  - rewrite lag_num_self.
    + rewrite interp_vanish by (left; reflexivity). ring.
    + intros xj Hj Heq. subst xj. apply NoDup_remove_2 in Hnd. contradiction.
  - rewrite lag_num_other by (apply in_or_app; right; assumption).
    rewrite (IH (x :: pre) m Hnd' Hm). ring.
Qed.

Definition interp_poly (f : Qc -> Qc) (xs : list Qc) : poly := pcomb (map f xs) (lag_bases [] xs).

Lemma interp_poly_at (f : Qc -> Qc) xs m : NoDup xs -> In m xs -> Tensor.peval (interp_poly f xs) m = f m.
Proof.
  intros Hnd Hm. unfold interp_poly. rewrite <- peval_bridge, peval_pcomb. apply interp_at_node; assumption.
Qed.

Lemma interp_poly_length f xs : (length (interp_poly f xs) <= length xs)%nat.
Proof.
  unfold interp_poly. apply pcomb_length. eapply Forall_impl; [|apply lag_bases_lengths].
  intros l Hl. cbn [length] in Hl. lia.
Qed.

Lemma pint_interp_poly f xs s e : pint (interp_poly f xs) s e = apply1 f xs (interp_weights xs s e).
Proof. unfold interp_poly, interp_weights, apply1. apply pint_pcomb. Qed.

Lemma interp_weights_length xs s e : length (interp_weights xs s e) = length xs.
Proof. unfold interp_weights. rewrite map_length. apply lag_bases_length. Qed.

(* ---- EXACTNESS: every n, every list of n distinct nodes, every interval ---- *)
Theorem interp_exact_poly xs s e p : NoDup xs -> (length p <= length xs)%nat ->
  apply1 (Tensor.peval p) xs (interp_weights xs s e) = pint p s e.
Proof.
  intros Hnd Hl. rewrite <- pint_interp_poly.
  apply (pint_agree (length xs) _ p xs); [apply interp_poly_length | assumption | assumption | reflexivity |].
  intros m Hm. apply interp_poly_at; assumption.
Qed.

Theorem interp_exact xs s e : NoDup xs -> forall k, (S k <= length xs)%nat ->
  apply1 (mono k) xs (interp_weights xs s e) = mint k s e.
Proof.
  intros Hnd k Hk. rewrite <- pint_mono_poly.
  rewrite <- (interp_exact_poly xs s e (mono_poly k) Hnd) by (rewrite mono_poly_length; assumption).
  apply apply1_ext. intro x. rewrite peval_mono_poly. reflexivity.
Qed.

Corollary interp_exact1 x xs s e : NoDup (x :: xs) ->
  exact1 (x :: xs) (interp_weights (x :: xs) s e) s e (length xs).
Proof. intros Hnd k Hk. apply interp_exact; [assumption | cbn [length]; lia]. Qed.

(* ---- UNIQUENESS ---- *)
Lemma dotQ_zero_vals (f : Qc -> Qc) r w : (forall m, In m r -> f m = 0) -> dotQ (map f r) w = 0.
Proof.
  revert w. induction r as [|y r IH]; intros [|b w] H; simpl; try reflexivity.
  rewrite (H y) by (left; reflexivity). rewrite IH by (intros m Hm; apply H; right; assumption). ring.
Qed.

Lemma dotQ_agree_vals (f g : Qc -> Qc) r w : (forall m, In m r -> f m = g m) -> dotQ (map f r) w = dotQ (map g r) w.
Proof. intro H. f_equal. apply map_ext_in. assumption. Qed.

Lemma weights_determined xs : forall w w', NoDup xs -> length w = length xs -> length w' = length xs ->
  (forall f : Qc -> Qc, dotQ (map f xs) w = dotQ (map f xs) w') -> w = w'.
Proof.
  induction xs as [|x r IH]; intros w w' Hnd Hl Hl' H.
  - destruct w; [|discriminate]. destruct w'; [reflexivity | discriminate].
  - destruct w as [|a w]; [discriminate|]. destruct w' as [|b w']; [discriminate|].
    inversion Hnd as [|? ? Hnot Hnd']; subst.
    assert (Hab : a = b).
    { specialize (H (fun m => if Qc_eq_dec m x then 1 else 0)). cbn [map dotQ] in H.
      destruct (Qc_eq_dec x x) as [_|N]; [|contradiction N; reflexivity].
      rewrite !dotQ_zero_vals in H.
      - rewrite <- (Qcmult_1_l a), <- (Qcplus_0_r (1 * a)), H. ring.
      - intros m Hm. destruct (Qc_eq_dec m x); [subst; contradiction | reflexivity].
      - intros m Hm. destruct (Qc_eq_dec m x); [subst; contradiction | reflexivity]. }
    subst b. f_equal. apply IH; [assumption | simpl in Hl; lia | simpl in Hl'; lia |].
    intro g. specialize (H (fun m => if Qc_eq_dec m x then 0 else g m)). cbn [map dotQ] in H.
    destruct (Qc_eq_dec x x) as [_|N]; [|contradiction N; reflexivity].
    assert (E : forall v, dotQ (map (fun m => if Qc_eq_dec m x then 0 else g m) r) v = dotQ (map g r) v).
    { intro v. apply dotQ_agree_vals. intros m Hm. destruct (Qc_eq_dec m x); [subst; contradiction | reflexivity]. }
    rewrite !E in H. rewrite <- (Qcplus_0_l (dotQ (map g r) w)), <- (Qcplus_0_l (dotQ (map g r) w')).
    replace 0 with (0 * a) by ring. exact H.
Qed.

Theorem interp_unique xs w s e : NoDup xs -> length w = length xs ->
  (forall k, (S k <= length xs)%nat -> apply1 (mono k) xs w = mint k s e) -> w = interp_weights xs s e.
Proof.
  intros Hnd Hl Hex.
  apply (weights_determined xs); [assumption | assumption | apply interp_weights_length |].
  intro f. change (apply1 f xs w = apply1 f xs (interp_weights xs s e)).
  rewrite <- pint_interp_poly.
  destruct xs as [|x0 xs']; [destruct w; [reflexivity | discriminate]|].
  assert (Hex1 : exact1 (x0 :: xs') w s e (length xs')) by (intros k Hk; apply Hex; cbn [length]; lia).
  rewrite <- (apply1_poly (x0 :: xs') w s e (length xs') (interp_poly f (x0 :: xs')) Hex1)
    by (apply (Nat.le_trans _ _ _ (interp_poly_length f (x0 :: xs'))); cbn [length]; lia).
  unfold apply1. f_equal. apply map_ext_in. intros m Hm. symmetry. apply interp_poly_at; assumption.
Qed.

(* exact to degree n-1  <->  the interpolatory weights *)
Corollary exact_iff_interp x xs w s e : NoDup (x :: xs) -> length w = S (length xs) ->
  (exact1 (x :: xs) w s e (length xs) <-> w = interp_weights (x :: xs) s e).
Proof.
  intros Hnd Hl. split.
  - intro Hex. apply interp_unique; [assumption | assumption |]. intros k Hk. apply Hex. cbn [length] in Hk. lia.
  - intros ->. apply interp_exact1. assumption.
Qed.

(* ---- the checker interp_ok ---- *)
Lemma all_close_sound tol a b : all_close tol a b = true -> Forall2 (fun x y => Qc_abs (x - y) <= tol) a b.
Proof.
  revert b. induction a as [|x a IH]; intros [|y b] H; simpl in H; try discriminate; [constructor|].
  apply andb_true_iff in H. destruct H as [H1 H2]. constructor; [apply Qc_leb_le; assumption | apply IH; assumption].
Qed.

Theorem interp_ok_sound xs ws s e rtol : interp_ok xs ws s e rtol = true ->
  Forall2 (fun w iw => Qc_abs (w - iw) <= rtol * sum_abs (interp_weights xs s e)) ws (interp_weights xs s e).
Proof. apply all_close_sound. Qed.

Lemma Qc_abs_le0 x : Qc_abs x <= 0 -> x = 0.
Proof.
  intro H. unfold Qc_abs in H. destruct (Qc_leb 0 x) eqn:E.
  - apply Qc_leb_le in E. apply Qcle_antisym; assumption.
  - assert (E' : ~ 0 <= x) by (intro C; apply Qc_leb_le in C; congruence).
    exfalso. apply E'. apply Qcnot_lt_le. intro L.
    assert (0 < - x) by (apply Qclt_minus_iff in L; rewrite Qcplus_0_l in L; exact L).
    apply Qclt_not_le in H0. contradiction.
Qed.

Lemma close0_eq t a b : t = 0 -> Forall2 (fun x y => Qc_abs (x - y) <= t) a b -> a = b.
Proof.
  intros ->. induction 1 as [|x y l l' Hab _ IH]; [reflexivity|]. f_equal; [|assumption].
  apply Qc_abs_le0 in Hab. rewrite <- (Qcplus_0_l y), <- Hab. ring.
Qed.

(* with tolerance 0 the accepted weights ARE the interpolatory ones, hence exact to degree n-1 *)
Theorem interp_ok_exact x xs ws s e : NoDup (x :: xs) -> interp_ok (x :: xs) ws s e 0 = true ->
  exact1 (x :: xs) ws s e (length xs).
Proof.
  intros Hnd H. apply interp_ok_sound in H.
  assert (E : ws = interp_weights (x :: xs) s e).
  { eapply close0_eq; [|exact H]. ring. }
  rewrite E. apply interp_exact1. assumption.
Qed.
