(* C17: the size-dependent code paths of the right-hand side on UNIFORM grids (calculate_B of StandardCombi runs):
   N >= 200 (get_hats_in_support: floor / ceil of x / meshsize, unclamped hat product) = N < 200 (all hats, clamped). *)
From Coq Require Import ZArith List QArith Qcanon Bool Lia Lqa Qround.
From SG Require Import Base.QcUtil Model.Gram Proofs.GramHat Proofs.GramEntries Proofs.GramPD Proofs.GramNorm Proofs.DECacheP
  Proofs.DEPaths.
Import ListNotations.
Open Scope Qc_scope.

(* ------------------------------------------------------------------ floor and ceiling on Qc *)
Lemma qc_of_Z_le a b : (a <= b)%Z -> qc_of_Z a <= qc_of_Z b.
Proof. intro H. unfold qc_of_Z, Qcle. cbn [this Q2Qc]. rewrite !Qred_correct. unfold Qle, inject_Z. cbn [Qnum Qden]. lia. Qed.

Lemma qfloor_le (y : Qc) : qc_of_Z (qfloor y) <= y.
Proof. unfold qc_of_Z, qfloor, Qcle. cbn [this Q2Qc]. rewrite Qred_correct. apply Qfloor_le. Qed.
Lemma lt_qfloor (y : Qc) : y < qc_of_Z (qfloor y + 1).
Proof. unfold qc_of_Z, qfloor, Qclt. cbn [this Q2Qc]. rewrite Qred_correct. apply Qlt_floor. Qed.
Lemma le_qceil (y : Qc) : y <= qc_of_Z (qceil y).
Proof. unfold qc_of_Z, qceil, Qcle. cbn [this Q2Qc]. rewrite Qred_correct. apply Qle_ceiling. Qed.
Lemma qceil_lt (y : Qc) : qc_of_Z (qceil y - 1) < y.
Proof. unfold qc_of_Z, qceil, Qclt. cbn [this Q2Qc]. rewrite Qred_correct. apply Qceiling_lt. Qed.

Lemma qceil_le_floor_succ (y : Qc) : (qceil y <= qfloor y + 1)%Z.
Proof.
  unfold qceil, qfloor. rewrite <- (Qceiling_Z (Qfloor (this y) + 1)). apply Qceiling_resp_le.
  apply Qlt_le_weak. apply Qlt_floor.
Qed.
Lemma qfloor_le_ceil (y : Qc) : (qfloor y <= qceil y)%Z.
Proof.
  unfold qceil, qfloor. rewrite <- (Qfloor_Z (Qceiling (this y))). apply Qfloor_resp_le. apply Qle_ceiling.
Qed.

Lemma qc_of_Z_plus1 z : qc_of_Z (z + 1) = qc_of_Z z + 1.
Proof. rewrite qc_of_Z_add, qc_of_Z_1. reflexivity. Qed.
Lemma qc_of_Z_minus1 z : qc_of_Z (z - 1) = qc_of_Z z - 1.
Proof.
  replace (z - 1)%Z with (z + (-1))%Z by lia. rewrite qc_of_Z_add.
  assert (E : qc_of_Z (-1) = - (1)) by (apply Qc_is_canon; reflexivity). rewrite E. ring.
Qed.

(* ------------------------------------------------------------------ one dimension *)
(* the hat index is the floor or the ceiling of y = x * 2^l: inside the support, no clamping needed *)
Lemma hat_u_in_support l i x : (i = qfloor (x * pow2z l) \/ i = qceil (x * pow2z l)) -> hat_u l i x = hat_u_insupp l i x.
Proof.
  intro H. unfold hat_u. apply Qc_max_l. unfold hat_u_insupp.
  replace (pow2z l * x) with (x * pow2z l) by ring. set (y := x * pow2z l) in *.
  pose proof (qfloor_le y) as F1. pose proof (lt_qfloor y) as F2. pose proof (le_qceil y) as C1. pose proof (qceil_lt y) as C2.
  rewrite qc_of_Z_plus1 in F2. rewrite qc_of_Z_minus1 in C2.
  destruct H as [H|H]; subst i.
  - rewrite Qc_abs_nonneg_eq by qc_order. qc_order.
  - destruct (Qcle_or_lt 0 (y - qc_of_Z (qceil y))) as [A|A].
    + rewrite Qc_abs_nonneg_eq by exact A. qc_order.
    + rewrite Qc_abs_neg_eq by exact A. qc_order.
Qed.

(* any other index: the clamped hat vanishes *)
Lemma hat_u_off_support l i x : i <> qfloor (x * pow2z l) -> i <> qceil (x * pow2z l) -> hat_u l i x = 0.
Proof.
  intros N1 N2. unfold hat_u. apply Qc_max_r. unfold hat_u_insupp.
  replace (pow2z l * x) with (x * pow2z l) by ring. set (y := x * pow2z l) in *.
  pose proof (qfloor_le y) as F1. pose proof (le_qceil y) as C1.
  pose proof (qceil_le_floor_succ y) as R1. pose proof (qfloor_le_ceil y) as R2.
  destruct (Z_lt_le_dec i (qfloor y)) as [A|A].
  - assert (B : qc_of_Z i + 1 <= qc_of_Z (qfloor y)) by (rewrite <- qc_of_Z_plus1; apply qc_of_Z_le; lia).
    rewrite Qc_abs_nonneg_eq by qc_order. qc_order.
  - assert (A' : (qceil y < i)%Z) by lia.
    assert (B : qc_of_Z (qceil y) + 1 <= qc_of_Z i) by (rewrite <- qc_of_Z_plus1; apply qc_of_Z_le; lia).
    rewrite Qc_abs_neg_eq by qc_order. qc_order.
Qed.

Lemma pow2z_nonneg_is_pow l : (0 <= l)%Z -> pow2z l = qc_of_Z (2 ^ l).
Proof. intro H. unfold pow2z. apply Z.leb_le in H. rewrite H. reflexivity. Qed.

(* outside the unit interval every hat of the level vanishes *)
Lemma hat_u_outside l i x : (1 <= i)%Z -> (i <= num_points l)%Z -> (x < 0 \/ 1 < x) -> hat_u l i x = 0.
Proof.
  intros H1 H2 Hx. unfold num_points in H2.
  assert (Hl : (0 <= l)%Z).
  { destruct (Z_lt_le_dec l 0) as [A|A]; [|exact A]. exfalso. rewrite (Z.pow_neg_r 2 l A) in H2. lia. }
  apply hat_u_off_support.
  - intro E. pose proof (qfloor_le (x * pow2z l)) as F1. rewrite <- E in F1.
    pose proof (lt_qfloor (x * pow2z l)) as F2. rewrite <- E, qc_of_Z_plus1 in F2.
    pose proof (pow2z_pos l) as P. rewrite (pow2z_nonneg_is_pow l Hl) in *.
    assert (I1 : 1 <= qc_of_Z i) by (rewrite <- qc_of_Z_1; apply qc_of_Z_le; lia).
    assert (I2 : qc_of_Z i + 1 <= qc_of_Z (2 ^ l)) by (rewrite <- qc_of_Z_plus1; apply qc_of_Z_le; lia).
    set (s := qc_of_Z (2 ^ l)) in *. set (c := qc_of_Z i) in *.
    destruct Hx as [Hx|Hx].
    + assert (x * s < 0) by (clear - Hx P; qc_order; nra). qc_order.
    + assert (s < x * s) by (clear - Hx P; qc_order; nra). qc_order.
  - intro E. pose proof (le_qceil (x * pow2z l)) as C1. rewrite <- E in C1.
    pose proof (qceil_lt (x * pow2z l)) as C2. rewrite <- E, qc_of_Z_minus1 in C2.
    pose proof (pow2z_pos l) as P. rewrite (pow2z_nonneg_is_pow l Hl) in *.
    assert (I1 : 1 <= qc_of_Z i) by (rewrite <- qc_of_Z_1; apply qc_of_Z_le; lia).
    assert (I2 : qc_of_Z i + 1 <= qc_of_Z (2 ^ l)) by (rewrite <- qc_of_Z_plus1; apply qc_of_Z_le; lia).
    set (s := qc_of_Z (2 ^ l)) in *. set (c := qc_of_Z i) in *.
    destruct Hx as [Hx|Hx].
    + assert (x * s < 0) by (clear - Hx P; qc_order; nra). qc_order.
    + assert (s < x * s) by (clear - Hx P; qc_order; nra). qc_order.
Qed.

(* membership in the list get_hats_in_support keeps, for an index of the grid *)
Lemma in_support_1d_spec l i x : (1 <= i)%Z -> (i <= num_points l)%Z ->
  existsb (Z.eqb i) (hats_in_support_1d l x) = true <-> (i = qfloor (x * pow2z l) \/ i = qceil (x * pow2z l)).
Proof.
  intros H1 H2. unfold hats_in_support_1d. set (y := x * pow2z l). split.
  - intro H. apply existsb_exists in H. destruct H as [s [Hs E]]. apply Z.eqb_eq in E. subst s.
    apply filter_In in Hs. destruct Hs as [Hs _]. destruct Hs as [Hs|[Hs|[]]]; [left | right]; symmetry; exact Hs.
  - intro H. apply existsb_exists. exists i. split; [|apply Z.eqb_refl].
    apply filter_In. split.
    + destruct H as [H|H]; [left | right; left]; symmetry; exact H.
    + apply andb_true_iff. split; [apply Z.ltb_lt; lia | apply Z.leb_le; exact H2].
Qed.

(* ------------------------------------------------------------------ d dimensions *)
Lemma zrange_from_in a n i : In i (zrange_from a n) -> (a <= i)%Z /\ (i < a + Z.of_nat n)%Z.
Proof.
  revert a; induction n as [|n IH]; intros a H; [destruct H|]. cbn [zrange_from] in H. destruct H as [H|H].
  - subst. lia.
  - destruct (IH _ H). lia.
Qed.

Lemma index_list_bounds : forall lv iv, In iv (index_list lv) ->
  Forall2 (fun i l => (1 <= i)%Z /\ (i <= num_points l)%Z) iv lv.
Proof.
  unfold index_list. intros lv iv H. apply in_cross_Forall2 in H.
  revert iv H. induction lv as [|l lv IH]; intros iv H; cbn [map] in H; inversion H as [|i ? iv' ? Hi Hr]; subst; constructor.
  - apply zrange_from_in in Hi. destruct Hi as [A B]. split; [exact A | lia].
  - apply IH. exact Hr.
Qed.

Lemma term_uniform_large_eq_small : forall lv iv x,
  Forall2 (fun i l => (1 <= i)%Z /\ (i <= num_points l)%Z) iv lv -> length x = length lv ->
  (if is_hat_in_support lv iv x then hat_u_nd hat_u_insupp lv iv x else 0) = hat_u_nd hat_u lv iv x.
Proof.
  intros lv iv x Hb Hl. unfold is_hat_in_support, hat_u_nd.
  (* generalised over the cube test of the dimensions already passed *)
  assert (G : forall lv iv x (c : bool),
             Forall2 (fun i l => (1 <= i)%Z /\ (i <= num_points l)%Z) iv lv -> length x = length lv ->
             (if c && in_unit_cube x &&
                  forallb2 (fun li xd => existsb (Z.eqb (snd li)) (hats_in_support_1d (fst li) xd)) (combine lv iv) x
              then prodQ (map2 (fun li xd => hat_u_insupp (fst li) (snd li) xd) (combine lv iv) x)
              else 0)
             = if c then prodQ (map2 (fun li xd => hat_u (fst li) (snd li) xd) (combine lv iv) x) else 0).
  { clear. intros lv iv x c Hb. revert x c. induction Hb as [|i l iv lv [B1 B2] Hb IH]; intros x c Hl.
    - destruct x; [|discriminate]. cbn. destruct c; reflexivity.
    - destruct x as [|xd x]; [discriminate|]. cbn [combine map2 prodQ forallb2 fst snd].
      unfold in_unit_cube. cbn [forallb]. fold (in_unit_cube x).
      destruct c; [|reflexivity]. cbn [andb].
      destruct (Qc_leb 0 xd && Qc_leb xd 1) eqn:Ec.
      + cbn [andb]. destruct (existsb (Z.eqb i) (hats_in_support_1d l xd)) eqn:Ee.
        * apply (in_support_1d_spec l i xd B1 B2) in Ee. rewrite (hat_u_in_support l i xd Ee).
          cbn [andb]. specialize (IH x true ltac:(cbn in Hl; lia)). cbn [andb] in IH.
          destruct (in_unit_cube x && forallb2 (fun li xd0 => existsb (Z.eqb (snd li)) (hats_in_support_1d (fst li) xd0)) (combine lv iv) x) eqn:Er.
          -- rewrite <- IH. reflexivity.
          -- rewrite <- IH. ring.
        * cbn [andb]. rewrite andb_false_r.
          assert (Z : hat_u l i xd = 0).
          { apply hat_u_off_support; intro E; assert (T : existsb (Z.eqb i) (hats_in_support_1d l xd) = true)
              by (apply (in_support_1d_spec l i xd B1 B2); tauto); rewrite T in Ee; discriminate. }
          rewrite Z. ring.
      + cbn [andb].
        assert (Z : hat_u l i xd = 0).
        { apply (hat_u_outside l i xd B1 B2). apply andb_false_iff in Ec. destruct Ec as [Ec|Ec].
          - left. apply Qc_leb_false. exact Ec.
          - right. apply Qc_leb_false. exact Ec. }
        rewrite Z. ring. }
  specialize (G lv iv x true Hb Hl). cbn [andb] in G. exact G.
Qed.

(* MAIN: both right-hand-side code paths of calculate_B agree on every level vector and every data set *)
Theorem rhs_uniform_large_eq_rhs_uniform lv data signs :
  Forall (fun x => length x = length lv) data -> rhs_uniform_large lv data signs = rhs_uniform lv data signs.
Proof.
  intro Hd. unfold rhs_uniform_large, rhs_uniform. apply map_ext_in. intros iv Hiv. f_equal. f_equal.
  apply map_ext_in. intros x Hx. apply term_uniform_large_eq_small.
  - apply index_list_bounds. exact Hiv.
  - rewrite Forall_forall in Hd. apply Hd. exact Hx.
Qed.
