(* C14, unconditional: the driver whose evaluate step is built from the SOURCE-DERIVED marker functions (Gen/NewMarkerGen.v) -
       evaluate_operation:   for every object of get_new_objects(): add its contribution to the accumulated state;  clear_new_objects()
   state = (container with its marker, accumulated state); refine() and the observation are ARBITRARY functions of the state.
   Re-evaluation after the clear is the identity (nothing new -> nothing added, nothing else changes), so the idempotence hypothesis of the
   resume theorems is discharged and they hold without hypothesis for this model: any split point, any number of stop / continue legs,
   any number of restored copies.  Without the clear (the code before repair 0b63da8) the statement is false: witness below. *)
From Coq Require Import ZArith List Bool QArith Qcanon Lia.
From SG Require Import Base.QcUtil Base.PyLib Base.PyNum Gen.NewMarkerGen Proofs.GenNewMarkerEq
     Model.Driver Proofs.DriverProofs Proofs.DriverSpec Proofs.DriverLegs Proofs.DriverCheckpoint.
Import ListNotations.
Open Scope Z_scope.

Section GenMarkerDriver.
  Variable A : Type.                         (* refinement objects *)
  Variable V : Type.                         (* accumulated state: result, container value, area values, evaluation counts, ... *)
  Variable acc_add : V -> A -> V.            (* evaluating one new object *)
  Notation St := (RefCont_t A * V)%type.
  Variable refine : St -> St.                (* refine(): arbitrary (clear, split, add children, remove parents, ...) *)
  Variable observe : St -> obs.

  Definition g_evaluate (s : St) : St :=
    (RefinementContainer_clear_new_objects A (fst s), fold_left acc_add (RefinementContainer_get_new_objects A (fst s)) (snd s)).
  (* the code before the repair: the marker is left where it is *)
  Definition g_evaluate_noclear (s : St) : St :=
    (fst s, fold_left acc_add (RefinementContainer_get_new_objects A (fst s)) (snd s)).

  (* re-evaluation after the clear: nothing is new, nothing is added, nothing else changes *)
  Theorem reevaluation_is_identity s : g_evaluate (g_evaluate s) = g_evaluate s.
  Proof.
    unfold g_evaluate. cbn [fst snd]. rewrite clear_leaves_nothing_new. cbn [fold_left]. rewrite clear_idempotent. reflexivity.
  Qed.

  Theorem reevaluation_adds_nothing s :
    snd (g_evaluate (g_evaluate s)) = snd (g_evaluate s) /\
    f_refinementObjects A (fst (g_evaluate (g_evaluate s))) = f_refinementObjects A (fst s) /\
    RefinementContainer_get_new_objects A (fst (g_evaluate s)) = [].
  Proof.
    rewrite reevaluation_is_identity. split; [reflexivity|]. split; [reflexivity|]. apply clear_leaves_nothing_new.
  Qed.

  Notation grun := (run St g_evaluate refine observe).
  Notation grun_legs := (run_legs St g_evaluate refine observe).

  (* resume = uninterrupted, no hypothesis: two legs *)
  Theorem gen_resume_equals_uninterrupted l1 l2 n m s s1 s2 :
    limits_grow l1 l2 -> grun l1 n s = Some s1 -> grun l2 m s1 = Some s2 ->
    exists k, (k <= n + m)%nat /\ grun l2 k s = Some s2.
  Proof. apply (resume_equals_uninterrupted St g_evaluate refine observe reevaluation_is_identity). Qed.

  Theorem gen_uninterrupted_equals_resume l1 l2 n m k s s1 s2 s2' :
    limits_grow l1 l2 -> grun l1 n s = Some s1 -> grun l2 m s1 = Some s2 -> grun l2 k s = Some s2' -> s2' = s2.
  Proof. apply (uninterrupted_equals_resume St g_evaluate refine observe reevaluation_is_identity). Qed.

  (* any number of stop / continue legs (induction over the legs), limits growing to the final ones *)
  Theorem gen_resume_chain_equals_uninterrupted lims lf nf s s1 s2 :
    all_grow_to lims lf -> run_chain St g_evaluate refine observe lims s = Some s1 -> grun lf nf s1 = Some s2 -> lims <> [] ->
    exists k, grun lf k s = Some s2.
  Proof. apply (resume_chain_equals_uninterrupted St g_evaluate refine observe reevaluation_is_identity). Qed.

  (* with the history arrays: legs with arbitrary limits follow the uninterrupted trajectory; growing legs end where the single run ends *)
  Theorem gen_legs_follow_trajectory legs s d s' d' N :
    legs <> [] -> grun_legs legs s d = Some (s', d') -> (legs_fuel legs <= N)%nat ->
    exists p, legs_on_stream (map fst legs) (traj St g_evaluate refine observe N s) d = Some (p, d') /\
              s' = state_at St g_evaluate refine p s.
  Proof. apply (legs_follow_trajectory St g_evaluate refine observe reevaluation_is_identity). Qed.

  Theorem gen_legs_grow_end_where_single_run_ends legs lf s d s' d' :
    legs <> [] -> last (map fst legs) lf = lf -> all_growb (map fst legs) lf = true ->
    grun_legs legs s d = Some (s', d') -> grun lf (legs_fuel legs) s = Some s'.
  Proof. apply (legs_grow_end_where_single_run_ends St g_evaluate refine observe reevaluation_is_identity). Qed.

  (* ... and every restored copy of a checkpoint, continued in any interleaving *)
  Theorem gen_checkpoint_copies_end_where_single_runs_end prefix s d c pre post store lf s_i d_i :
    grun_legs prefix s d = Some c ->
    let i := length (ck_exec St g_evaluate refine observe c pre store) in
    let mine := legs_of i post in
    nth_error (ck_exec St g_evaluate refine observe c (pre ++ OpRestore :: post) store) i = Some (Some (s_i, d_i)) ->
    mine <> [] -> last (map fst (prefix ++ mine)) lf = lf -> all_growb (map fst (prefix ++ mine)) lf = true ->
    grun lf (legs_fuel (prefix ++ mine)) s = Some s_i.
  Proof. apply (checkpoint_copies_end_where_single_runs_end St g_evaluate refine observe reevaluation_is_identity). Qed.
End GenMarkerDriver.

(* WITHOUT the clear the resume statement is false: objects = their contributions, accumulated state = their sum = the point count;
   refine() clears the marker itself (as the code does) and adds one child of contribution 1 *)
Definition w_refine (s : RefCont_t Z * Z) : RefCont_t Z * Z :=
  (RefinementContainer_add Z (RefinementContainer_clear_new_objects Z (fst s)) [1], snd s).
Definition w_observe (s : RefCont_t Z * Z) : obs := mkObs 0%Qc 0%Qc (snd s).

Theorem noclear_resume_refuted :
  let ev := g_evaluate_noclear Z Z Z.add in
  let l1 := mkLimits (Q2Qc (-1 # 1)) 1 (Some 3) in
  let l2 := mkLimits (Q2Qc (-1 # 1)) 1 (Some 7) in
  let s0 := (mk_RefCont Z [5] 0, 0) in
  limits_grow l1 l2 /\
  exists s1 s2 s2', run _ ev w_refine w_observe l1 9 s0 = Some s1 /\ run _ ev w_refine w_observe l2 9 s1 = Some s2 /\
                    run _ ev w_refine w_observe l2 9 s0 = Some s2' /\ snd s2 = 10 /\ snd s2' = 8.
Proof.
  cbv zeta. split.
  - unfold limits_grow. cbn [l_tol l_min l_max]. split; [apply Qcle_refl|]. split; lia.
  - eexists. eexists. eexists. split; [vm_compute; reflexivity|]. split; [vm_compute; reflexivity|]. split; [vm_compute; reflexivity|].
    split; reflexivity.
Qed.

(* the same machine WITH the clear: stop-and-continue ends where the single run ends (non-vacuity of the unconditional theorem) *)
Example gen_resume_nonvacuous :
  let ev := g_evaluate Z Z Z.add in
  let l1 := mkLimits (Q2Qc (-1 # 1)) 1 (Some 3) in
  let l2 := mkLimits (Q2Qc (-1 # 1)) 1 (Some 7) in
  let s0 := (mk_RefCont Z [5] 0, 0) in
  exists s1 s2, run _ ev w_refine w_observe l1 9 s0 = Some s1 /\ snd s1 = 5 /\ run _ ev w_refine w_observe l2 9 s1 = Some s2 /\
                run _ ev w_refine w_observe l2 9 s0 = Some s2 /\ snd s2 = 8.
Proof.
  cbv zeta. eexists. eexists. split; [vm_compute; reflexivity|]. split; [reflexivity|]. split; [vm_compute; reflexivity|].
  split; [vm_compute; reflexivity|reflexivity].
Qed.
