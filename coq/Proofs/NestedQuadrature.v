(* C02: the QUADRATURE statement for ANY family of 1D rules (the counterpart of Proofs/NestedFamily.v, which covers interpolation):
   per dimension d and level l a quadrature rule Q d l given as a finite weighted point list (any nodes - Clenshaw-Curtis, Leja,
   Simpson, non-uniform trapezoid ... - any weights).  A tensor function g = prod_d g_d is called HIERARCHICAL OF LEVEL tau for the
   family when every 1D factor satisfies the level-threshold property
        Q d l g_d = q_d  for every level l >= tau_d        and        Q d l g_d = 0  for lmin <= l < tau_d
   (what the hierarchical basis functions of a nested family do: they are integrated with the same value by every rule that contains
   their support nodes and vanish on all nodes of the coarser rules).  Then the combined quadrature of g over every reachable
   adaptive scheme is  [tau in index set] * prod_d q_d.  For the uniform trapezoidal family the hierarchical hats satisfy the
   property (Proofs/StdHierTrap.v: hat1_trap_fine / hat1_trap_coarse), which recovers the trapezoidal statement. *)
From Coq Require Import ZArith List Bool QArith Qcanon Lia.
From SG Require Import Base.QcUtil Model.CombiScheme Model.StdCombi Proofs.SchemeBasics Proofs.SchemeIE Proofs.SchemeInv
  Proofs.NodalExact Proofs.StdNodal Proofs.StdHierTensor Proofs.StdHier.
Import ListNotations.
Local Open Scope Qc_scope.

(* tensor application of 1D functionals to a product function = product of the 1D applications *)
Lemma appT_tprod : forall (Ls : list (fnl Qc)) (gs : list (Qc -> Qc)), length gs = length Ls ->
  appT Qc Ls (tprod gs) = fold_right Qcmult 1 (map (fun p => app1 Qc (fst p) (snd p)) (combine Ls gs)).
Proof.
  induction Ls as [|L Ls IH]; intros gs Hl.
  - destruct gs; [|discriminate]. reflexivity.
  - destruct gs as [|g gs]; [discriminate|]. injection Hl as Hl. cbn [appT combine map fold_right fst snd].
    rewrite (app1_ext Qc L _ (fun p => appT Qc Ls (tprod gs) * g p)).
    + rewrite app1_scale. rewrite (IH gs Hl). ring.
    + intro p. rewrite (appT_ext Qc Ls _ (fun q => g p * tprod gs q)) by (intro q; reflexivity).
      rewrite appT_scale. ring.
Qed.

Section FamilyQuadrature.
  Variable Q : list (Z -> fnl Qc).          (* per dimension: level -> quadrature rule (weighted point list) *)
  Variable lmin : Z.

  (* component quadrature of level vector l, and the combined quadrature *)
  Definition fam_comp_quad (l : lv) (f : list Qc -> Qc) : Qc := appT Qc (zipE Qc Q l) f.
  Definition fam_combi_quad (cs : list (lv * Z)) (f : list Qc -> Qc) : Qc :=
    sumQ (map (fun kv => qc_of_Z (snd kv) * fam_comp_quad (fst kv) f) cs).

  (* the level-threshold property of the 1D factors *)
  Inductive hier_factors : list (Z -> fnl Qc) -> list (Qc -> Qc) -> lv -> list Qc -> Prop :=
  | hf_nil : hier_factors [] [] [] []
  | hf_cons E Es g gs t ts q qs :
      (forall l, (t <= l)%Z -> app1 Qc (E l) g = q) -> (forall l, (lmin <= l < t)%Z -> app1 Qc (E l) g = 0) ->
      hier_factors Es gs ts qs -> hier_factors (E :: Es) (g :: gs) (t :: ts) (q :: qs).

  Lemma hier_factors_length Es gs ts qs : hier_factors Es gs ts qs -> length ts = length Es.
  Proof. induction 1 as [|E Es g gs t ts q qs _ _ _ IH]; [reflexivity|]. simpl. rewrite IH. reflexivity. Qed.

  Lemma comp_quad_hier : forall Es gs ts qs, hier_factors Es gs ts qs ->
    forall l, length l = length Es -> Forall (fun v => (lmin <= v)%Z) l ->
    appT Qc (zipE Qc Es l) (tprod gs) = if lv_geb l ts then fold_right Qcmult 1 qs else 0.
  Proof.
    induction 1 as [|E Es g gs t ts q qs Hge Hlt HF IH]; intros l Ll Fl.
    - destruct l; [|discriminate]. reflexivity.
    - destruct l as [|l0 l]; [discriminate|]. injection Ll as Ll. inversion Fl as [|? ? Hl0 Fl']; subst.
      cbn [zipE appT lv_geb fold_right].
      rewrite (app1_ext Qc (E l0) _ (fun p => appT Qc (zipE Qc Es l) (tprod gs) * g p)).
      + rewrite app1_scale. rewrite (IH l Ll Fl').
        destruct (Z.leb_spec t l0) as [H1|H1]; cbn [andb].
        * rewrite (Hge l0 H1). destruct (lv_geb l ts); ring.
        * rewrite (Hlt l0 (conj Hl0 H1)). ring.
      + intro p. rewrite (appT_ext Qc (zipE Qc Es l) _ (fun q0 => g p * tprod gs q0)) by (intro q0; reflexivity).
        rewrite appT_scale. ring.
  Qed.

  (* the combined quadrature of a hierarchical tensor function of the family, every reachable adaptive scheme *)
  Theorem fam_hier_quadrature s gs tau qs :
    Inv s -> s_lmin s = lmin -> length Q = s_dim s -> hier_factors Q gs tau qs -> Forall (fun v => (lmin <= v)%Z) tau ->
    fam_combi_quad (combi_scheme_adaptive s) (tprod gs)
    = if mem tau (index_set s) then fold_right Qcmult 1 qs else 0.
  Proof.
    intros HI Em LQ HF Ft. unfold fam_combi_quad, fam_comp_quad.
    rewrite (combined_indicator (combi_scheme_adaptive s) tau (fun l => appT Qc (zipE Qc Q l) (tprod gs)) (fold_right Qcmult 1 qs)).
    - assert (length tau = s_dim s) as Lt.
      { rewrite <- LQ. exact (hier_factors_length Q gs tau qs HF). }
      rewrite <- Em in Ft. rewrite (scheme_inclusion_exclusion s tau HI Lt Ft).
      destruct (mem tau (index_set s)); [change (qc_of_Z 1) with (Q2Qc 1)|change (qc_of_Z 0) with (Q2Qc 0)]; ring.
    - intros l c Hin. destruct (scheme_levels s l c HI Hin) as [Ll Fl]. rewrite Em in Fl.
      apply (comp_quad_hier Q gs tau qs HF l); [congruence|exact Fl].
  Qed.
End FamilyQuadrature.
