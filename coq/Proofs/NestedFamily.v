(* C02: nodal exactness, coefficient sum and union = sparse grid of the combination technique for ANY nested family of strictly
   increasing 1D grids (per dimension d and level l a list G d l of rationals), with piecewise-multilinear interpolation of the
   nodal values on the tensor grids (what Integration.interpolate_points_component_grid / scipy interpn do for every Grid whose
   coordinate arrays are its nodes: trapezoidal, Simpson, Clenshaw-Curtis, Leja ... grids with boundary points).
   The uniform dyadic grids of Model/StdCombi.v are one instance (Proofs/StdNodal.v proves it separately, incl. the zero boundary);
   this file instantiates Proofs/CombiAbstract.v and Proofs/NodalExact.v once more for an arbitrary family. *)
From Coq Require Import ZArith List Bool QArith Qcanon Lia Sorted.
From SG Require Import Base.QcUtil Model.CombiScheme Model.StdCombi Proofs.SchemeBasics Proofs.SchemeIE Proofs.SchemeInv
  Proofs.CombiAbstract Proofs.StdGrid Proofs.StdCombiSum Proofs.NodalExact Proofs.StdNodal.
Import ListNotations.
Local Open Scope Qc_scope.

Section Family.
  Variable G : nat -> Z -> list Qc.          (* dimension, level -> the sorted 1D grid *)
  Variable lmin : Z.
  Hypothesis G_sorted : forall d l, (lmin <= l)%Z -> StronglySorted Qclt (G d l).
  Hypothesis G_nested : forall d l l', (lmin <= l)%Z -> (l <= l')%Z -> incl (G d l) (G d l').

  (* tensor grid of level vector l, dimensions d0, d0+1, ... *)
  Fixpoint fam_grids (d0 : nat) (l : lv) : list (list Qc) :=
    match l with
    | [] => []
    | ld :: l' => G d0 ld :: fam_grids (S d0) l'
    end.

  Definition fam_points (l : lv) : list (list Qc) := crossQ (fam_grids 0 l).
  (* component interpolant: multilinear interpolation of the nodal values *)
  Definition fam_comp_interp (l : lv) (f : list Qc -> Qc) (x : list Qc) : Qc := interpN (fam_grids 0 l) f x.
  Definition fam_combi_interp (cs : list (lv * Z)) (f : list Qc -> Qc) (x : list Qc) : Qc :=
    sumQ (map (fun kv => qc_of_Z (snd kv) * fam_comp_interp (fst kv) f x) cs).
  Definition fam_in_comp (x : list Qc) (l : lv) : bool := in_grid Qc Qc_eqb G 0 x l.

  Lemma fam_points_in_grid : forall l x d0,
    In x (crossQ (fam_grids d0 l)) <-> in_grid Qc Qc_eqb G d0 x l = true.
  Proof.
    induction l as [|ld l IH]; intros x d0.
    - simpl. destruct x; simpl; split; intro H; try discriminate; auto. destruct H as [H|[]]; discriminate.
    - cbn [fam_grids]. rewrite crossQ_In. destruct x as [|x0 x].
      + simpl. split; [intro H; inversion H|discriminate].
      + cbn [in_grid]. split.
        * intro H. inversion H as [|? ? ? ? H0 H']; subst. apply andb_true_iff. split.
          -- apply (memX_In Qc Qc_eqb Qc_eqb_eq). exact H0.
          -- apply IH. apply crossQ_In. exact H'.
        * intro H. apply andb_true_iff in H. destruct H as [H0 H']. constructor.
          -- apply (memX_In Qc Qc_eqb Qc_eqb_eq) in H0. exact H0.
          -- apply crossQ_In. apply IH. exact H'.
  Qed.

  Theorem fam_points_in_comp l x : In x (fam_points l) <-> fam_in_comp x l = true.
  Proof. apply fam_points_in_grid. Qed.

  (* the evaluation functionals *)
  Fixpoint fam_E (d0 : nat) (x : list Qc) : list (Z -> list (Qc * Qc)) :=
    match x with
    | [] => []
    | x0 :: x' => (fun l => interp1_fnl (G d0 l) x0) :: fam_E (S d0) x'
    end.

  Lemma fam_zipF_zipE : forall l x d0, length x = length l -> zipF (fam_grids d0 l) x = zipE Qc (fam_E d0 x) l.
  Proof.
    induction l as [|ld l IH]; intros x d0 L.
    - destruct x; [reflexivity|discriminate].
    - destruct x as [|x0 x]; [discriminate|]. injection L as L. cbn [fam_grids zipF fam_E zipE]. rewrite (IH x (S d0) L). reflexivity.
  Qed.

  Lemma fam_comp_interp_appT l f x : length x = length l -> fam_comp_interp l f x = appT Qc (zipE Qc (fam_E 0 x) l) f.
  Proof. intro L. unfold fam_comp_interp. rewrite interpN_appT, fam_zipF_zipE by exact L. reflexivity. Qed.

  Lemma fam_krons : forall x k d0, in_grid Qc Qc_eqb G d0 x k = true -> Forall (fun v => (lmin <= v)%Z) k ->
    krons Qc lmin (fam_E d0 x) k x.
  Proof.
    induction x as [|x0 x IH]; intros k d0 Hin HF.
    - destruct k; [|discriminate]. constructor.
    - destruct k as [|k0 k]; [discriminate|]. cbn [in_grid] in Hin. apply andb_true_iff in Hin. destruct Hin as [Hm Hin].
      inversion HF as [|? ? Hk0 HF']; subst. cbn [fam_E]. constructor.
      + intros l g Hl. apply interp1_at_node; [apply G_sorted; lia|].
        apply (memX_In Qc Qc_eqb Qc_eqb_eq) in Hm. apply (G_nested d0 k0 l Hk0 Hl). exact Hm.
      + exact Hk0.
      + apply IH; assumption.
  Qed.

  Lemma fam_E_length : forall x d0, length (fam_E d0 x) = length x.
  Proof. induction x as [|x0 x IH]; intro d0; [reflexivity|]. simpl. rewrite IH. reflexivity. Qed.

  (* NODAL EXACTNESS for every reachable state of the adaptive scheme on the family *)
  Theorem fam_nodal_exact s (f : list Qc -> Qc) x l0 c0 :
    Inv s -> s_lmin s = lmin -> length x = s_dim s ->
    In (l0, c0) (combi_scheme_adaptive s) -> fam_in_comp x l0 = true ->
    fam_combi_interp (combi_scheme_adaptive s) f x = f x.
  Proof.
    intros HI Em Lx Hin Hx. set (cs := combi_scheme_adaptive s).
    destruct (scheme_support s l0 c0 HI Hin) as [Hl0 _]. apply index_set_In in Hl0.
    destruct (inv_wf s HI l0 Hl0) as [Ll0 Fl0]. rewrite Em in Fl0.
    assert (forall d l l', (lmin <= l)%Z -> (l <= l')%Z -> incl (G d l) (G d l')) as Hn by exact G_nested.
    set (k := level_of Qc Qc_eqb G lmin 0 x l0).
    destruct (level_of_props Qc Qc_eqb G lmin x 0%nat l0 Hx Fl0) as [Lk F2]. fold k in Lk, F2.
    pose proof (level_of_in_grid Qc Qc_eqb Qc_eqb_eq G lmin x 0%nat l0 Hx Fl0) as Hxk. fold k in Hxk.
    assert (In k (index_set s)) as Hk.
    { apply (scheme_downward_closed s HI l0 k); [apply index_set_In; exact Hl0|exact Lk|rewrite Em; exact F2]. }
    assert (Forall (fun v => (lmin <= v)%Z) k) as Fk by (apply (Forall2_lmin_left lmin k l0 F2)).
    set (M := Z.to_nat (max_level cs - lmin)).
    assert (forall l c, In (l, c) cs -> length l = s_dim s /\ Forall (fun v => (lmin <= v <= lmin + Z.of_nat M)%Z) l) as Hwf.
    { intros l c Hl. destruct (scheme_support s l c HI Hl) as [Hli _]. apply index_set_In in Hli.
      destruct (inv_wf s HI l Hli) as [Ll Fl]. rewrite Em in Fl. split; [exact Ll|].
      apply Forall_forall. intros v Hv. rewrite Forall_forall in Fl. specialize (Fl v Hv).
      pose proof (max_level_bound cs l c v Hl Hv). unfold M. lia. }
    assert (fam_combi_interp cs f x = combined Qc cs (fam_E 0 x) f) as ->.
    { unfold fam_combi_interp, combined. apply sumQ_map_ext. intros [l c] Hl. simpl.
      destruct (Hwf l c Hl) as [Ll _]. rewrite fam_comp_interp_appT by congruence. reflexivity. }
    assert (length (fam_E 0 x) = s_dim s) as LE by (rewrite fam_E_length; exact Lx).
    assert (forall l c, In (l, c) cs -> length l = length (fam_E 0 x) /\ Forall (fun v => (lmin <= v <= lmin + Z.of_nat M)%Z) l) as H1.
    { intros l c Hl. rewrite LE. exact (Hwf l c Hl). }
    assert (forall l, length l = length (fam_E 0 x) -> Forall (fun v => (lmin <= v)%Z) l ->
                      dominating_sum cs l = if mem l (index_set s) then 1%Z else 0%Z) as H2.
    { intros l Ll Fl. rewrite LE in Ll. rewrite <- Em in Fl. apply scheme_inclusion_exclusion; assumption. }
    assert (forall k' j, In k' (index_set s) -> length j = length k' -> Forall2 (fun p q => (lmin <= p <= q)%Z) j k' -> In j (index_set s)) as H3.
    { intros k' j Hk' Lj Fj. rewrite <- Em in Fj. apply (scheme_downward_closed s HI k' j); assumption. }
    assert (krons Qc lmin (fam_E 0 x) k x) as H4 by (apply fam_krons; assumption).
    assert (Forall (fun v => (lmin <= v <= lmin + Z.of_nat M)%Z) k) as H5.
    { apply Forall_forall. intros v Hv. rewrite Forall_forall in Fk. specialize (Fk v Hv). split; [exact Fk|].
      assert (exists w, In w l0 /\ (v <= w)%Z) as [w [Hw Hvw]].
      { clear -F2 Hv. induction F2 as [|p q ks ls Hpq _ IH]; [destruct Hv|].
        destruct Hv as [->|Hv]; [exists q; split; [left; reflexivity|lia]|].
        destruct (IH Hv) as [w [Hw Hvw]]. exists w. split; [right; exact Hw|exact Hvw]. }
      pose proof (max_level_bound cs l0 c0 w Hin Hw). unfold M. lia. }
    exact (nodal_exact Qc lmin (index_set s) cs (fam_E 0 x) M H1 H2 H3 k x f H4 Hk H5).
  Qed.

  (* every point of the union has coefficient sum 1, and the union is the sparse grid of the index set *)
  Definition fam_coeff_sum (cs : list (lv * Z)) (x : list Qc) : Z :=
    sumZ (map (fun kv => if fam_in_comp x (fst kv) then snd kv else 0%Z) cs).

  Theorem fam_point_coeff_sum_one s x l0 c0 :
    Inv s -> s_lmin s = lmin -> In (l0, c0) (combi_scheme_adaptive s) -> fam_in_comp x l0 = true ->
    fam_coeff_sum (combi_scheme_adaptive s) x = 1%Z.
  Proof.
    intros HI Em Hin Hx. unfold fam_coeff_sum, fam_in_comp.
    apply (point_coeff_sum_one Qc Qc_eqb Qc_eqb_eq G lmin G_nested (index_set s) (combi_scheme_adaptive s) (s_dim s))
      with (l0 := l0) (c0 := c0); try assumption.
    - intros g Hg. apply index_set_In in Hg. rewrite <- Em. apply (inv_wf s HI g Hg).
    - intros l Ll Fl. rewrite <- Em in Fl. apply scheme_inclusion_exclusion; assumption.
    - intros k c Hk. apply (scheme_support s k c HI Hk).
    - intros k j Hk Lj Fj. rewrite <- Em in Fj. apply (scheme_downward_closed s HI k j); assumption.
  Qed.

  Theorem fam_union_equals_sparse_grid s x : Inv s -> s_lmin s = lmin ->
    ((exists l c, In (l, c) (combi_scheme_adaptive s) /\ fam_in_comp x l = true) <->
     (exists k, In k (index_set s) /\ fam_in_comp x k = true)).
  Proof.
    intros HI Em. split.
    - intros [l [c [Hin Hx]]]. exists l. split; [|exact Hx]. apply (scheme_support s l c HI Hin).
    - intros [k [Hk Hx]]. unfold fam_in_comp in *.
      destruct (union_contains_sparse_grid Qc Qc_eqb Qc_eqb_eq G lmin G_nested (index_set s) (combi_scheme_adaptive s) (s_dim s))
        with (x := x) (k := k) as [l [c [H1 [_ H2]]]]; try assumption.
      + intros g Hg. apply index_set_In in Hg. rewrite <- Em. apply (inv_wf s HI g Hg).
      + intros l Ll Fl. rewrite <- Em in Fl. apply scheme_inclusion_exclusion; assumption.
      + exists l, c. split; assumption.
  Qed.
End Family.
