(* C10 — hierarchise-then-interpolate is the identity at every grid point, for every dimension (unidirectional
   principle, induction over the dimensions), every vector-valued input; soundness of the checkers. *)
From Coq Require Import ZArith List QArith Qcanon Bool Arith Lia Permutation.
From SG Require Import Base.QcUtil Model.Basis Proofs.BasisLagrange Proofs.BasisHier.
Import ListNotations.
Open Scope Qc_scope.

(* ------------------------------------------------------------------ list plumbing *)
Lemma firstn_app_len {A} (c t : list A) : firstn (length c) (c ++ t) = c.
Proof. induction c as [|x c IH]; simpl; [destruct t; reflexivity | rewrite IH; reflexivity]. Qed.

Lemma skipn_app_len {A} (c t : list A) : skipn (length c) (c ++ t) = t.
Proof. induction c as [|x c IH]; simpl; [reflexivity | exact IH]. Qed.

Lemma nthQ_firstn k len v : (k < len)%nat -> nthQ (firstn len v) k = nthQ v k.
Proof.
  revert k v; induction len as [|len IH]; intros k v H; [lia|].
  destruct v as [|x v]; [reflexivity|]. destruct k as [|k]; [reflexivity|].
  unfold nthQ in *. cbn [firstn nth]. apply IH. lia.
Qed.

Lemma nthQ_skipn k len v : nthQ (skipn len v) k = nthQ v (len + k).
Proof.
  revert v; induction len as [|len IH]; intro v; [reflexivity|].
  destruct v as [|x v]; [unfold nthQ; destruct k; reflexivity|]. cbn [skipn]. rewrite IH. reflexivity.
Qed.

Lemma chunks_length n len v : length (chunks n len v) = n.
Proof. revert v; induction n as [|n IH]; intro v; simpl; [reflexivity | rewrite IH; reflexivity]. Qed.

Lemma chunks_each n len v : length v = (n * len)%nat -> forall c, In c (chunks n len v) -> length c = len.
Proof.
  revert v; induction n as [|n IH]; intros v H c Hc; simpl in Hc; [contradiction|].
  destruct Hc as [Hc|Hc].
  - subst c. rewrite firstn_length. simpl in H. lia.
  - apply (IH (skipn len v)); [|exact Hc]. rewrite skipn_length. simpl in H. lia.
Qed.

Lemma chunks_nth n len v i k :
  (i < n)%nat -> (k < len)%nat -> nthQ (nth i (chunks n len v) []) k = nthQ v (i * len + k).
Proof.
  revert v i; induction n as [|n IH]; intros v i Hi Hk; [lia|].
  destruct i as [|i]; cbn [chunks nth].
  - apply nthQ_firstn. exact Hk.
  - rewrite IH by lia. rewrite nthQ_skipn. f_equal. simpl. lia.
Qed.

Lemma chunks_concat n len (r : list (list Qc)) :
  length r = n -> (forall c, In c r -> length c = len) -> chunks n len (concat r) = r.
Proof.
  revert n; induction r as [|c r IH]; intros n Hn Hc; simpl in Hn; subst n; [reflexivity|].
  cbn [chunks concat]. rewrite <- (Hc c (or_introl eq_refl)).
  rewrite firstn_app_len, skipn_app_len. f_equal.
  rewrite (Hc c (or_introl eq_refl)). apply IH; [reflexivity|]. intros c' Hc'. apply Hc. right. exact Hc'.
Qed.

Lemma length_concat_const len (r : list (list Qc)) :
  (forall c, In c r -> length c = len) -> length (concat r) = (length r * len)%nat.
Proof.
  induction r as [|c r IH]; intro H; [reflexivity|].
  cbn [concat length]. rewrite app_length, IH, (H c (or_introl eq_refl)); [reflexivity|].
  intros c' Hc'. apply H. right. exact Hc'.
Qed.

Lemma opt_list_some {A} (l : list (option A)) r (d : A) :
  opt_list l = Some r -> length r = length l /\ forall j, (j < length l)%nat -> nth j l None = Some (nth j r d).
Proof.
  revert r; induction l as [|[a|] l IH]; intros r H; simpl in H; try discriminate.
  - inversion H; subst. split; [reflexivity | intros j Hj; simpl in Hj; lia].
  - destruct (opt_list l) as [r'|] eqn:E; [|discriminate]. inversion H; subst.
    destruct (IH r' eq_refl) as [L N]. split; [simpl; rewrite L; reflexivity|].
    intros j Hj. destruct j as [|j]; [reflexivity|]. simpl. apply N. simpl in Hj. lia.
Qed.

Lemma sum_combine_seq {A B} (F : A * B -> Qc) (a : list A) (b : list B) (da : A) (db : B) n :
  length a = n -> length b = n ->
  sumQ (map F (combine a b)) = sumQ (map (fun j => F (nth j a da, nth j b db)) (seq 0 n)).
Proof.
  revert b n; induction a as [|x a IH]; intros b n Ha Hb; simpl in Ha; subst n.
  - reflexivity.
  - destruct b as [|y b]; [discriminate|]. simpl in Hb. injection Hb as Hb.
    cbn [combine map sumQ seq length]. f_equal.
    rewrite (IH b (length a) eq_refl Hb). rewrite <- seq_shift, map_map. reflexivity.
Qed.

Lemma combine_nth_lt {A B} (a : list A) (b : list B) k da db :
  (k < length a)%nat -> (k < length b)%nat -> nth k (combine a b) (da, db) = (nth k a da, nth k b db).
Proof.
  revert b k; induction a as [|x a IH]; intros b k Ha Hb; simpl in Ha; [lia|].
  destruct b as [|y b]; simpl in Hb; [lia|]. destruct k as [|k]; [reflexivity|]. simpl. apply IH; lia.
Qed.

Lemma nth_map_lt {A B} (f : A -> B) (l : list A) (d : A) (d' : B) i :
  (i < length l)%nat -> nth i (map f l) d' = f (nth i l d).
Proof. intro H. rewrite (nth_indep _ d' (f d)) by (rewrite map_length; exact H). apply map_nth. Qed.

Lemma nthQ_map_lt {A} (f : A -> Qc) (l : list A) (d : A) j : (j < length l)%nat -> nthQ (map f l) j = f (nth j l d).
Proof.
  intro H. unfold nthQ. rewrite (nth_indep _ 0 (f d)) by (rewrite map_length; exact H). apply map_nth.
Qed.

(* ------------------------------------------------------------------ collocation matrix entries *)
Definition dflt : Qc * basis := (0, BLag [] 0).
Definition pt (sys : list (Qc * basis)) (i : nat) : Qc := fst (nth i sys dflt).
Definition bs (sys : list (Qc * basis)) (j : nat) : basis := snd (nth j sys dflt).

Lemma colloc_length sys : length (colloc sys) = length sys.
Proof. unfold colloc. apply map_length. Qed.

Lemma colloc_row sys i : (i < length sys)%nat -> nth i (colloc sys) [] = map (fun bj => beval (snd bj) (pt sys i)) sys.
Proof.
  intro H. unfold colloc, pt.
  rewrite (nth_indep _ [] ((fun xi : Qc * basis => map (fun bj : Qc * basis => beval (snd bj) (fst xi)) sys) dflt)) by (rewrite map_length; exact H).
  exact (map_nth (fun xi : Qc * basis => map (fun bj : Qc * basis => beval (snd bj) (fst xi)) sys) sys dflt i).
Qed.

Lemma colloc_entry sys i j :
  (i < length sys)%nat -> (j < length sys)%nat -> mget (colloc sys) i j = beval (bs sys j) (pt sys i).
Proof.
  intros Hi Hj. unfold mget. rewrite colloc_row by exact Hi.
  rewrite (nthQ_map_lt _ sys dflt j Hj). reflexivity.
Qed.

(* ------------------------------------------------------------------ what a usable 1-D solver guarantees *)
Definition comp (k : nat) (cs : list (list Qc)) : list Qc := map (fun c => nthQ c k) cs.

Definition sys_sound (s : sys1) : Prop :=
  forall cs cs', length cs = s_n s -> solve1V s cs = Some cs' ->
    length cs' = s_n s
    /\ (forall len, (forall c, In c cs -> length c = len) -> forall c, In c cs' -> length c = len)
    /\ forall i k, (i < s_n s)%nat -> rowsum (colloc (s_basis s)) (comp k cs') (s_n s) i = nthQ (nth i cs []) k.

(* well-formedness: a forward-substitution order must be a triangular order of the collocation matrix *)
Definition sys_wf (s : sys1) : Prop :=
  match s_ord s with
  | Some o => Permutation o (seq 0 (s_n s)) /\ tri (colloc (s_basis s)) o
  | None => True
  end.

Lemma rowsum_ext M s s' n i : (forall j, (j < n)%nat -> nthQ s j = nthQ s' j) -> rowsum M s n i = rowsum M s' n i.
Proof.
  intro H. unfold rowsum. apply sumQ_map_ext_in. intros j Hj. apply in_seq in Hj. rewrite H by lia. reflexivity.
Qed.

(* lengths of the forward-substitution results *)
Lemma length_vsum_le len (l : list (list Qc)) :
  (forall c, In c l -> length c = len) -> (length (vsum [] lvadd l) <= len)%nat.
Proof.
  induction l as [|x l IH]; intro H; cbn [vsum]; [simpl; lia|].
  rewrite length_lvadd, (H x (or_introl eq_refl)).
  assert (length (vsum [] lvadd l) <= len)%nat by (apply IH; intros c Hc; apply H; right; exact Hc). lia.
Qed.

Lemma fsub_fold_lengths M (cs : list (list Qc)) len ord acc :
  (forall o, In o ord -> length (nth o cs []) = len) ->
  (forall e, In e acc -> length (snd e) = len) ->
  forall e, In e (fold_left (fsub_step [] lvadd lvscale M cs) ord acc) -> length (snd e) = len.
Proof.
  revert acc; induction ord as [|o r IH]; intros acc Hcs Hacc e He; simpl in He; [exact (Hacc e He)|].
  apply (IH (fsub_step [] lvadd lvscale M cs acc o)); [intros o' Ho'; apply Hcs; right; exact Ho' | | exact He].
  intros e' [E|E]; [|exact (Hacc e' E)]. subst e'. unfold fsub_step. cbn [snd].
  rewrite length_lvscale, length_lvadd, length_lvscale, (Hcs o (or_introl eq_refl)).
  assert (length (vsum [] lvadd (map (fun ms : nat * list Qc => lvscale (mget M o (fst ms)) (snd ms)) acc)) <= len)%nat.
  { apply length_vsum_le. intros c Hc. apply in_map_iff in Hc. destruct Hc as [ms [E Hms]]. subst c.
    rewrite length_lvscale. apply Hacc. exact Hms. }
  lia.
Qed.

Lemma lookup_In_key (i : nat) (acc : list (nat * list Qc)) :
  In i (map fst acc) -> In (i, lookup [] i acc) acc.
Proof.
  induction acc as [|[j s] r IH]; intro H; [contradiction|].
  cbn [lookup]. destruct (Nat.eqb_spec i j) as [E|E].
  - subst. left. reflexivity.
  - right. apply IH. destruct H as [H|H]; [simpl in H; congruence | exact H].
Qed.

Lemma keys_foldV M (cs : list (list Qc)) l acc :
  map fst (fold_left (fsub_step [] lvadd lvscale M cs) l acc) = rev l ++ map fst acc.
Proof.
  revert acc; induction l as [|o r IH]; intro acc; simpl; [reflexivity|].
  rewrite IH. unfold fsub_step. cbn [map fst]. rewrite <- app_assoc. reflexivity.
Qed.

Lemma sys_wf_sound s : sys_wf s -> sys_sound s.
Proof.
  intros Hwf cs cs' Hlen Hsolve. unfold solve1V in Hsolve.
  set (n := s_n s) in *. set (M := colloc (s_basis s)) in *.
  assert (Hn : length (s_basis s) = n) by reflexivity.
  (* the single-point special case *)
  assert (Single : forall x bf, s_basis s = [(x, bf)] -> Qc_eqb (beval bf x) 1 = true -> cs' = cs ->
            length cs' = n /\ (forall len, (forall c, In c cs -> length c = len) -> forall c, In c cs' -> length c = len)
            /\ forall i k, (i < n)%nat -> rowsum M (comp k cs') n i = nthQ (nth i cs []) k).
  { intros x bf E Hone Ecs. subst cs'. split; [exact Hlen|]. split; [intros len H c Hc; exact (H c Hc)|].
    intros i k Hi. unfold n, s_n in *. rewrite E in *. simpl in Hi. assert (i = 0)%nat by lia. subst i.
    unfold rowsum. cbn [length seq map sumQ]. unfold M. rewrite colloc_entry by (rewrite E; simpl; lia).
    unfold bs, pt. rewrite E. cbn [nth fst snd]. apply Qc_eqb_eq in Hone. rewrite Hone.
    unfold comp. rewrite (nthQ_map_lt (fun c => nthQ c k) cs [] 0%nat) by (rewrite Hlen; simpl; lia). ring. }
  (* the two proper solvers *)
  assert (Proper : match s_ord s with Some o => Some (fsubV M cs o) | None => solve_checked M cs end = Some cs' ->
            length cs' = n /\ (forall len, (forall c, In c cs -> length c = len) -> forall c, In c cs' -> length c = len)
            /\ forall i k, (i < n)%nat -> rowsum M (comp k cs') n i = nthQ (nth i cs []) k).
  { clear Hsolve Single. intro Hsolve. unfold sys_wf in Hwf. destruct (s_ord s) as [o|].
    - (* forward substitution *)
      destruct Hwf as [Hp Ht]. injection Hsolve as E. subst cs'.
      assert (L : length (fsubV M cs o) = n) by (unfold fsubV, fsub; rewrite map_length, seq_length; exact Hlen).
      split; [exact L|]. split.
      + intros len Hc c Hin. unfold fsubV, fsub in Hin. apply in_map_iff in Hin. destruct Hin as [i [E Hi]].
        apply in_seq in Hi. subst c.
        set (acc := fold_left (fsub_step [] lvadd lvscale M cs) o []).
        assert (Hk : In i (map fst acc)).
        { unfold acc. rewrite keys_foldV. cbn [map]. rewrite app_nil_r. apply in_rev. rewrite rev_involutive.
          apply (Permutation_in _ (Permutation_sym Hp)). apply in_seq. fold n. lia. }
        apply lookup_In_key in Hk.
        apply (fsub_fold_lengths M cs len o [] ) with (e := (i, lookup [] i acc)); [| intros e [] | exact Hk].
        intros o' Ho'. apply Hc. apply nth_In. apply (Permutation_in _ Hp) in Ho'. apply in_seq in Ho'. fold n in Ho'. lia.
      + intros i k Hi.
        rewrite (rowsum_ext M _ (fsubQ M (comp k cs) o) n i).
        * rewrite (fsub_solves M (comp k cs) o n Hp); [| unfold comp; rewrite map_length; exact Hlen | exact Ht | exact Hi].
          unfold comp. apply (nthQ_map_lt (fun c => nthQ c k) cs [] i). lia.
        * intros j Hj. unfold comp at 1. rewrite (nthQ_map_lt (fun c => nthQ c k) (fsubV M cs o) [] j) by lia. apply fsubV_component.
    - (* checked Gauss *)
      unfold solve_checked in Hsolve. destruct (gauss_solve M cs) as [X|]; [|discriminate].
      destruct ((length X =? length cs)%nat && (length M =? length cs)%nat
                && forallb (fun x => (length x =? length (hd [] cs))%nat) X
                && forallb (fun ab => veq (fst ab) (snd ab)) (combine (mapplyV M X) cs)) eqn:C; [|discriminate].
      injection Hsolve as E. subst X.
      apply andb_true_iff in C. destruct C as [C C4]. apply andb_true_iff in C. destruct C as [C C3].
      apply andb_true_iff in C. destruct C as [C1 C2]. apply Nat.eqb_eq in C1. apply Nat.eqb_eq in C2.
      split; [lia|]. split.
      + intros len Hc c Hin. rewrite forallb_forall in C3. specialize (C3 c Hin). apply Nat.eqb_eq in C3.
        rewrite C3. destruct cs as [|c0 cs0]; [simpl in C1; destruct cs'; [contradiction | discriminate]|].
        apply Hc. left. reflexivity.
      + intros i k Hi.
        rewrite forallb_forall in C4.
        assert (Hrow : nth i (mapplyV M cs') [] = nth i cs []).
        { assert (Lm : length (mapplyV M cs') = n) by (unfold mapplyV, mapply; rewrite map_length; unfold M; rewrite colloc_length; exact Hn).
          specialize (C4 (nth i (mapplyV M cs') [], nth i cs [])).
          assert (Hin : In (nth i (mapplyV M cs') [], nth i cs []) (combine (mapplyV M cs') cs)).
          { rewrite <- combine_nth by lia. apply nth_In. rewrite combine_length. lia. }
          specialize (C4 Hin). cbn [fst snd] in C4. unfold veq in C4. apply andb_true_iff in C4. destruct C4 as [V1 V2].
          apply Nat.eqb_eq in V1. rewrite forallb_forall in V2.
          apply (nth_ext _ _ 0 0 V1). intros t Ht.
          specialize (V2 (nth t (nth i (mapplyV M cs') []) 0, nth t (nth i cs []) 0)).
          assert (Hin2 : In (nth t (nth i (mapplyV M cs') []) 0, nth t (nth i cs []) 0) (combine (nth i (mapplyV M cs') []) (nth i cs []))).
          { rewrite <- combine_nth by exact V1. apply nth_In. rewrite combine_length. lia. }
          apply Qc_eqb_eq. exact (V2 Hin2). }
        rewrite <- Hrow. unfold mapplyV, mapply.
        rewrite (nth_map_lt (fun row : list Qc => vsum [] lvadd (map (fun cs0 : Qc * list Qc => lvscale (fst cs0) (snd cs0)) (combine row cs'))) M [] [] i)
          by (unfold M; rewrite colloc_length; lia).
        rewrite (pi_vsum (list Qc) [] lvadd (fun c => nthQ c k) (nthQ_nil k) (fun a b => nthQ_lvadd a b k)).
        rewrite map_map.
        rewrite (sum_combine_seq _ (nth i M []) cs' 0 [] n).
        * unfold rowsum. apply sumQ_map_ext_in. intros j Hj. apply in_seq in Hj. cbn [fst snd].
          rewrite nthQ_lvscale. unfold comp.
          rewrite (nthQ_map_lt (fun c => nthQ c k) cs' [] j) by lia. reflexivity.
        * unfold M. rewrite colloc_row by lia. rewrite map_length. exact Hn.
        * lia. }
  destruct (s_basis s) as [|[x bf] [|e2 r]] eqn:Eb.
  - apply Proper. exact Hsolve.
  - destruct (Qc_eqb (beval bf x) 1) eqn:E1; [|discriminate]. injection Hsolve as E. apply (Single x bf eq_refl E1). symmetry. exact E.
  - apply Proper. exact Hsolve.
Qed.

(* ------------------------------------------------------------------ d dimensions *)
Fixpoint flat (idxs : list nat) (ss : list sys1) : nat :=
  match idxs, ss with
  | i :: is', s :: rest => (i * prodN (map s_n rest) + flat is' rest)%nat
  | _, _ => O
  end.

Fixpoint coords (idxs : list nat) (ss : list sys1) : list Qc :=
  match idxs, ss with
  | i :: is', s :: rest => pt (s_basis s) i :: coords is' rest
  | _, _ => []
  end.

Lemma flat_lt idxs ss : Forall2 (fun i s => (i < s_n s)%nat) idxs ss -> (flat idxs ss < prodN (map s_n ss))%nat.
Proof.
  induction 1 as [|i s is' rest Hi _ IH]; simpl; [lia|]. nia.
Qed.

(* MAIN THEOREM: for every number of dimensions, every admissible system per dimension, every input vector:
   whenever the hierarchisation returns surpluses, interpolating them at any grid point gives back the value there *)
Theorem hier_nd_interp ss :
  Forall sys_sound ss ->
  forall v sur, length v = prodN (map s_n ss) -> hier_nd ss v = Some sur ->
    length sur = length v /\
    forall idxs, Forall2 (fun i s => (i < s_n s)%nat) idxs ss ->
      interp_nd ss (coords idxs ss) sur = nthQ v (flat idxs ss).
Proof.
  induction ss as [|s rest IH]; intros Hs v sur Hlen Hh.
  - simpl in Hh. injection Hh as E. subst sur. split; [reflexivity|].
    intros idxs H. inversion H; subst. reflexivity.
  - inversion Hs as [|? ? Hs1 Hsr]; subst. specialize (IH Hsr).
    cbn [hier_nd] in Hh. set (len := prodN (map s_n rest)) in *. set (n := s_n s) in *.
    cbn [map prodN] in Hlen. fold n len in Hlen.
    destruct (solve1V s (chunks n len v)) as [cs'|] eqn:Es; [|discriminate].
    destruct (opt_list (map (hier_nd rest) cs')) as [r|] eqn:Eo; [|discriminate].
    injection Hh as E. subst sur.
    destruct (Hs1 (chunks n len v) cs' (chunks_length n len v) Es) as [L1 [L2 Sol]]. fold n in L1, Sol.
    assert (Hcl : forall c, In c cs' -> length c = len) by (apply L2; apply chunks_each; exact Hlen).
    destruct (opt_list_some _ r [] Eo) as [Lr Nr]. rewrite map_length in Lr, Nr.
    assert (Hr : forall j, (j < n)%nat -> hier_nd rest (nth j cs' []) = Some (nth j r [])).
    { intros j Hj. rewrite <- Nr by lia.
      rewrite (nth_indep _ None (hier_nd rest [])) by (rewrite map_length; lia). rewrite map_nth. reflexivity. }
    assert (Hrl : forall c, In c r -> length c = len).
    { intros c Hc. destruct (In_nth r c [] Hc) as [j [Hj Ej]]. subst c.
      destruct (IH (nth j cs' []) (nth j r [])) as [Lj _]; [apply Hcl; apply nth_In; lia | apply Hr; lia|].
      rewrite Lj. apply Hcl. apply nth_In. lia. }
    split; [rewrite (length_concat_const len r Hrl); lia|].
    intros idxs Hidx. inversion Hidx as [|i s0 is' rest0 Hi Hrest]; subst.
    cbn [coords flat interp_nd]. fold len n. cbn [tl].
    rewrite (chunks_concat n len r) by (assumption || lia).
    rewrite (sum_combine_seq _ (s_basis s) r dflt [] n) by (reflexivity || lia).
    assert (Hk : (flat is' rest < len)%nat) by (apply flat_lt; exact Hrest).
    rewrite <- (chunks_nth n len v i (flat is' rest) Hi Hk).
    rewrite <- (Sol i (flat is' rest) Hi).
    unfold rowsum. apply sumQ_map_ext_in. intros j Hj. apply in_seq in Hj. cbn [fst snd].
    unfold nthQ at 1. cbn [nth].
    rewrite colloc_entry by (unfold n, s_n in *; lia). fold (bs (s_basis s) j). f_equal.
    destruct (IH (nth j cs' []) (nth j r [])) as [_ Ij]; [apply Hcl; apply nth_In; lia | apply Hr; lia|].
    rewrite (Ij is' Hrest). unfold comp. rewrite (nthQ_map_lt (fun c => nthQ c (flat is' rest)) cs' [] j) by lia. reflexivity.
Qed.

(* totality for forward-substitution systems: hierarchisation never fails *)
Lemma hier_nd_total ss :
  Forall (fun s => s_ord s <> None /\ (length (s_basis s) <> 1)%nat) ss -> forall v, hier_nd ss v <> None.
Proof.
  induction ss as [|s rest IH]; intros H v; [discriminate|].
  inversion H as [|? ? [Ho Hn] Hr]; subst. cbn [hier_nd].
  assert (E : exists cs', solve1V s (chunks (s_n s) (prodN (map s_n rest)) v) = Some cs').
  { unfold solve1V. destruct (s_basis s) as [|[x bf] [|e2 r]]; [| simpl in Hn; congruence |];
      (destruct (s_ord s) as [o|]; [eexists; reflexivity | congruence]). }
  destruct E as [cs' E]. rewrite E.
  assert (O : forall l : list (list Qc), opt_list (map (hier_nd rest) l) <> None).
  { induction l as [|c l IHl]; [discriminate|]. cbn [map opt_list].
    destruct (hier_nd rest c) eqn:Ec; [|exfalso; exact (IH Hr c Ec)].
    destruct (opt_list (map (hier_nd rest) l)); [discriminate | congruence]. }
  destruct (opt_list (map (hier_nd rest) cs')) eqn:Eo; [discriminate | exfalso; exact (O cs' Eo)].
Qed.

(* ------------------------------------------------------------------ structural checker for hierarchical Lagrange systems *)
Lemma is_perm_seq_sound ord n : is_perm_seq ord n = true -> Permutation ord (seq 0 n).
Proof.
  unfold is_perm_seq. intro H. apply andb_true_iff in H. destruct H as [H1 H2]. apply Nat.eqb_eq in H1.
  apply Permutation_sym. apply NoDup_Permutation_bis.
  - apply seq_NoDup.
  - rewrite seq_length. lia.
  - intros i Hi. rewrite forallb_forall in H2. specialize (H2 i Hi). apply existsb_exists in H2.
    destruct H2 as [j [Hj E]]. apply Nat.eqb_eq in E. subst. exact Hj.
Qed.

Lemma hier_ok_ord_sound sys earlier ord :
  hier_ok_ord sys earlier ord = true ->
  forall pre o post, ord = pre ++ o :: post ->
    exists x knots idx, nth_error sys o = Some (x, BRLag knots idx)
      /\ (idx < length knots)%nat /\ nthQ knots idx = x /\ strictly_increasing knots = true
      /\ (forall y, In y earlier -> rl_eval knots idx y = 0)
      /\ (forall o', In o' pre -> rl_eval knots idx (pt sys o') = 0).
Proof.
  revert earlier; induction ord as [|a ord IH]; intros earlier H pre o post E; [destruct pre; discriminate|].
  cbn [hier_ok_ord] in H. destruct (nth_error sys a) as [[x bf]|] eqn:Ea; [|discriminate].
  apply andb_true_iff in H. destruct H as [H H3]. apply andb_true_iff in H. destruct H as [H1 H2].
  destruct bf as [| knots idx | | | |]; try discriminate.
  destruct pre as [|b pre].
  - injection E as E1 E2. subst a post. exists x, knots, idx. split; [exact Ea|].
    unfold rl_ok in H1. apply andb_true_iff in H1. destruct H1 as [H1 Hs]. apply andb_true_iff in H1. destruct H1 as [Hi Hx].
    apply Nat.ltb_lt in Hi. apply Qc_eqb_eq in Hx.
    split; [exact Hi|]. split; [exact Hx|]. split; [exact Hs|]. split.
    + intros y Hy. apply restricted_vanishes_on_coarser. rewrite forallb_forall in H2. exact (H2 y Hy).
    + intros o' [].
  - injection E as E1 E2. subst b.
    destruct (IH (x :: earlier) H3 pre o post E2) as [x' [knots' [idx' [Hn [Hi [Hx [Hs [He Hp]]]]]]]].
    exists x', knots', idx'. split; [exact Hn|]. split; [exact Hi|]. split; [exact Hx|]. split; [exact Hs|]. split.
    + intros y Hy. apply He. right. exact Hy.
    + intros o' [Ho'|Ho'].
      * subst o'. assert (Ep : pt sys a = x).
        { unfold pt. rewrite (nth_error_nth sys a dflt Ea). reflexivity. }
        rewrite Ep. apply He. left. reflexivity.
      * apply Hp. exact Ho'.
Qed.

(* the checker is sound: an accepted system is a triangular system along the given order, with unit diagonal *)
Theorem hier_okb_sound sys ord :
  hier_okb sys ord = true ->
  Permutation ord (seq 0 (length sys)) /\ tri (colloc sys) ord
  /\ forall i, (i < length sys)%nat -> mget (colloc sys) i i = 1.
Proof.
  unfold hier_okb. intro H. apply andb_true_iff in H. destruct H as [Hp Ho].
  apply is_perm_seq_sound in Hp. split; [exact Hp|].
  assert (Hlt : forall j, In j ord -> (j < length sys)%nat).
  { intros j Hj. apply (Permutation_in _ Hp) in Hj. apply in_seq in Hj. lia. }
  assert (Diag : forall pre o post, ord = pre ++ o :: post -> mget (colloc sys) o o = 1).
  { intros pre o post E.
    destruct (hier_ok_ord_sound sys [] ord Ho pre o post E) as [x [knots [idx [Hn [Hi [Hx [Hs _]]]]]]].
    assert (Hol : (o < length sys)%nat) by (apply Hlt; rewrite E; apply in_or_app; right; left; reflexivity).
    rewrite colloc_entry by exact Hol. unfold bs, pt. rewrite (nth_error_nth sys o dflt Hn). cbn [fst snd beval].
    rewrite <- Hx. apply restricted_one_at_own_knot; assumption. }
  split.
  - intros pre o post E. split.
    + rewrite (Diag pre o post E). discriminate.
    + intros o' Ho'. destruct (in_split o' post Ho') as [p1 [p2 Ep]].
      assert (E' : ord = (pre ++ o :: p1) ++ o' :: p2) by (rewrite E, Ep, <- app_assoc; reflexivity).
      destruct (hier_ok_ord_sound sys [] ord Ho _ o' p2 E') as [x [knots [idx [Hn [Hi [Hx [Hs [_ Hpre]]]]]]]].
      assert (Hol : (o < length sys)%nat) by (apply Hlt; rewrite E; apply in_or_app; right; left; reflexivity).
      assert (Hol' : (o' < length sys)%nat) by (apply Hlt; rewrite E'; apply in_or_app; right; left; reflexivity).
      rewrite colloc_entry by assumption. unfold bs. rewrite (nth_error_nth sys o' dflt Hn). cbn [snd beval].
      apply Hpre. apply in_or_app. right. left. reflexivity.
  - intros i Hi. assert (Hin : In i ord) by (apply (Permutation_in _ (Permutation_sym Hp)); apply in_seq; lia).
    destruct (in_split i ord Hin) as [pre [post E]]. exact (Diag pre i post E).
Qed.

Corollary hier_okb_wf sy ord : hier_okb sy ord = true -> sys_wf {| s_basis := sy; s_ord := Some ord |}.
Proof.
  intro H. destruct (hier_okb_sound sy ord H) as [Hp [Ht _]]. unfold sys_wf. cbn [s_ord s_basis s_n]. split; assumption.
Qed.

(* ------------------------------------------------------------------ residual checkers *)
Lemma Qc_abs_le_iff x tol : Qc_leb (Qc_abs x) tol = true -> - tol <= x /\ x <= tol.
Proof.
  unfold Qc_abs. intro H. apply Qc_leb_le in H.
  destruct (Qc_leb 0 x) eqn:E.
  - apply Qc_leb_le in E. split; [|exact H]. apply Qcle_trans with 0; [|exact E].
    assert (0 <= tol) by (apply Qcle_trans with x; assumption).
    apply Qcopp_le_compat in H0. exact H0.
  - assert (Hx : x < 0).
    { apply Qcnot_le_lt. intro L. apply Qc_leb_le in L. congruence. }
    split.
    + apply Qcopp_le_compat in H. rewrite Qcopp_involutive in H. exact H.
    + apply Qcle_trans with 0; [apply Qclt_le_weak; exact Hx|].
      apply Qcle_trans with (- x); [|exact H].
      apply Qclt_le_weak in Hx. apply Qcopp_le_compat in Hx. exact Hx.
Qed.

(* the run-time checker evaluated on the implementation's surpluses is sound: accepted surpluses interpolate every
   grid value within tol *)
Theorem interp_residual_ok_sound ss sur vals tol :
  interp_residual_ok ss sur vals tol = true ->
  forall k, (k < length (grid_points ss))%nat -> (k < length vals)%nat ->
    - tol <= interp_nd ss (nth k (grid_points ss) []) sur - nthQ vals k
    /\ interp_nd ss (nth k (grid_points ss) []) sur - nthQ vals k <= tol.
Proof.
  unfold interp_residual_ok. intros H k Hk1 Hk2. rewrite forallb_forall in H.
  apply Qc_abs_le_iff. apply (H (nth k (grid_points ss) [], nthQ vals k)).
  unfold nthQ. rewrite <- (combine_nth_lt _ _ k [] 0 Hk1 Hk2). apply nth_In. rewrite combine_length. lia.
Qed.
