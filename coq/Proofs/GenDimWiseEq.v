(* C06 / C03: the source-derived model (coq/Gen/DimWiseGen.v, generated from spatiallyAdaptiveSingleDimension2.py by
   harness/translate/py2gallina_c06.py at every run) equals the hand-written model:
     modify_according_to_levelvec = Model/DimWise.v modify_according_to_levelvec
     update_coarsening_values     = Model/RefTree.v update_coarsening (new coarsening levels and the returned overshoot)
     get_max_level                = Model/DimWise.v get_max_level on a cache miss, the cached value on a hit
                                    (= Model/DimWiseCache.v get_max_level_cached), incl. sufficiency of the declared while fuel.
   A refinement object is viewed as its levels [l0; l1] (the object-view reading of the front end). *)
From Coq Require Import ZArith List Bool QArith Qcanon Arith Lia.
From SG Require Import Base.QcUtil Base.PyLib Base.PyNum Base.PyC06 Proofs.PyLibFacts Proofs.PyNumFacts
     Model.RefTree Model.DimWise Model.DimWiseCache Gen.DimWiseGen.
Import ListNotations.
Open Scope Z_scope.
Local Arguments Z.add : simpl never.
Local Arguments Z.sub : simpl never.
Local Arguments Z.mul : simpl never.
Local Arguments Z.max : simpl never.
Local Arguments Z.min : simpl never.
Local Arguments Z.of_nat : simpl never.
Local Arguments Z.leb : simpl never.
Local Arguments Z.ltb : simpl never.
Local Arguments Z.gtb : simpl never.
Local Arguments Z.geb : simpl never.

Definition lv_of (iv : ival) : list Z := [i_l0 iv; i_l1 iv].
Definition views (objs : list ival) : list (list Z) := map lv_of objs.
Definition dflt : ival := mkIval 0 0 0 0 0.

(* ---------------------------------------------------------------------------------------------- *)
Theorem gen_modify_eq lmaxs lmins sv (d : nat) ml levelvec :
  (d < length levelvec)%nat -> (d < length lmaxs)%nat -> (d < length lmins)%nat ->
  SpatiallyAdaptiveSingleDimensions2_modify_according_to_levelvec lmaxs lmins sv (Z.of_nat d) ml levelvec
  = Some (modify_according_to_levelvec sv (nth d levelvec 0) ml (nth d lmaxs 0) (nth d lmins 0)).
Proof.
  intros H1 H2 H3. unfold SpatiallyAdaptiveSingleDimensions2_modify_according_to_levelvec, modify_according_to_levelvec.
  rewrite !(py_getitem_in levelvec d H1), (py_getitem_in lmaxs d H2), (py_getitem_in lmins d H3).
  cbn [bindE bindO bindF run_flow].
  rewrite Z.geb_leb.
  destruct (ml <=? nth d levelvec 0 - sv) eqn:E1; cbn [bindE bindO bindF run_flow andb].
  - destruct (nth d levelvec 0 <? nth d lmaxs 0); cbn [bindE bindO bindF run_flow]; reflexivity.
  - reflexivity.
Qed.

(* ---------------------------------------------------------------------------------------------- *)
Lemma py_list_max_lv iv : py_list_max (lv_of iv) = Some (ival_maxlev iv).
Proof. unfold py_list_max, lv_of, ival_maxlev. simpl. reflexivity. Qed.

Definition ucv_body (lmax_d : Z) (x : list Z) (st : list Z * Z) : flow (list Z * Z) (Z * list Z) :=
  let '(out, u) := st in
  match py_list_max x with
  | Some m => let c := lmax_d - m in Nxt (out ++ [c], if c <? u then c else u)
  | None => Fail
  end.

Lemma ucv_loop lmax_d objs : forall out u,
  py_for (views objs) (ucv_body lmax_d) (out, u)
  = Nxt (out ++ map (fun iv => lmax_d - ival_maxlev iv) objs,
         fold_left (fun u c => if c <? u then c else u) (map (fun iv => lmax_d - ival_maxlev iv) objs) u).
Proof.
  induction objs as [|iv objs IH]; intros out u; [simpl; rewrite app_nil_r; reflexivity|].
  cbn [views map py_for]. unfold ucv_body at 1. rewrite py_list_max_lv. fold (views objs). rewrite IH, <- app_assoc. reflexivity.
Qed.

Theorem gen_update_coarsening_eq lmaxs objs (d : nat) :
  (d < length lmaxs)%nat ->
  SpatiallyAdaptiveSingleDimensions2_update_coarsening_values lmaxs (views objs) (Z.of_nat d)
  = Some (snd (update_coarsening (nth d lmaxs 0) objs), map i_coarse (fst (update_coarsening (nth d lmaxs 0) objs))).
Proof.
  intro H. unfold SpatiallyAdaptiveSingleDimensions2_update_coarsening_values.
  rewrite (py_for_ext _ _ (ucv_body (nth d lmaxs 0))).
  - rewrite ucv_loop. cbn [bindF run_flow app]. unfold update_coarsening. cbn [fst snd].
    rewrite map_map. cbn [i_coarse]. f_equal. f_equal.
    rewrite fold_left_map. cbn [i_coarse]. rewrite fold_left_map.
    assert (E : forall l u, fold_left (fun (a : Z) (x : ival) => if nth d lmaxs 0 - ival_maxlev x <? a then nth d lmaxs 0 - ival_maxlev x else a) l u * -1
                          = - fold_left (fun (a : Z) (x : ival) => if nth d lmaxs 0 - ival_maxlev x <? a then nth d lmaxs 0 - ival_maxlev x else a) l u) by (intros; lia).
    apply E.
  - intros x [out u]. unfold ucv_body. rewrite (py_getitem_in lmaxs d H). cbn [bindE].
    destruct (py_list_max x) as [m|]; cbn [bindE bindF]; [|reflexivity].
    destruct (nth d lmaxs 0 - m <? u); reflexivity.
Qed.

(* ---------------------------------------------------------------------------------------------- *)
(* get_max_level: the two while loops are the two scans of the model *)
Lemma while_scan {R} own (P : Z -> Prop) (cond : Z * Z * bool -> option bool) (body : Z * Z * bool -> flow (Z * Z * bool) R)
      (rem : Z -> list Z) :
  (forall k, P k -> P (k + 1)) ->
  (forall m k, cond (m, k, false) = Some false) ->
  (forall m k, P k -> rem k = [] -> cond (m, k, true) = Some false) ->
  (forall m k x r, P k -> rem k = x :: r ->
     cond (m, k, true) = Some true /\ rem (k + 1) = r /\
     body (m, k, true) = Nxt (Z.max m x, (if x <=? own then k else k + 1), negb (x <=? own))) ->
  forall n m k fuel, P k -> length (rem k) = n -> (n < fuel)%nat ->
  exists k' go, py_while fuel cond body (m, k, true) = Nxt (scan_max own (rem k) m, k', go).
Proof.
  intros HP Hf He Hs. induction n as [|n IH]; intros m k fuel Pk Hn Hfu.
  - destruct fuel as [|f]; [lia|]. destruct (rem k) as [|x r] eqn:E; [|discriminate].
    cbn [py_while]. rewrite (He m k Pk E). exists k, true. reflexivity.
  - destruct fuel as [|f]; [lia|]. destruct (rem k) as [|x r] eqn:E; [discriminate|].
    destruct (Hs m k x r Pk E) as (Hc & Hr & Hb). cbn [py_while]. rewrite Hc, Hb. cbn [scan_max].
    destruct (x <=? own) eqn:Ex; cbn [negb].
    + destruct f as [|f']; [simpl in Hn; lia|]. cbn [py_while]. rewrite Hf. exists k, false. reflexivity.
    + destruct (IH (Z.max m x) (k + 1) f) as (k' & go & E2); [apply HP; exact Pk | rewrite Hr; simpl in Hn; lia | lia|].
      rewrite Hr in E2. exists k', go. exact E2.
Qed.

Lemma rev_seq_S s n : rev (seq s (S n)) = (s + n)%nat :: rev (seq s n).
Proof. rewrite seq_S, rev_app_distr. reflexivity. Qed.

Lemma positions (l : list ival) : forall s n, (s + n <= length l)%nat ->
  firstn n (skipn s l) = map (fun p => nth p l dflt) (seq s n).
Proof.
  induction l as [|a l IH]; intros s n H.
  - simpl in H. assert (n = 0)%nat by lia. subst. destruct s; reflexivity.
  - destruct s as [|s].
    + destruct n as [|n]; [reflexivity|]. cbn [skipn firstn seq map nth]. f_equal.
      specialize (IH 0%nat n ltac:(simpl in H; lia)). cbn [skipn] in IH. rewrite IH.
      rewrite <- seq_shift, map_map. reflexivity.
    + cbn [skipn]. rewrite (IH s n) by (simpl in H; lia). rewrite <- seq_shift, map_map. reflexivity.
Qed.

Lemma left_positions objs i : (i < length objs)%nat ->
  skipn 1 (firstn (S i) objs) = map (fun p => nth p objs dflt) (seq 1 i).
Proof.
  intro H. change (S i) with (1 + i)%nat. rewrite <- firstn_skipn_comm. apply positions. lia.
Qed.

Lemma right_positions objs i : (i < length objs)%nat ->
  skipn (S i) objs = map (fun p => nth p objs dflt) (seq (S i) (length objs - S i)).
Proof.
  intro H. rewrite <- (positions objs (S i) (length objs - S i)) by lia.
  rewrite firstn_all2; [reflexivity|]. rewrite skipn_length. lia.
Qed.

Lemma views_getitem objs (p : nat) (z : Z) : z = Z.of_nat p -> (p < length objs)%nat ->
  py_getitem (views objs) z = Some (lv_of (nth p objs dflt)).
Proof.
  intros -> H. rewrite (py_getitem_at (views objs) _ p (lv_of dflt)) by (reflexivity || (unfold views; rewrite map_length; exact H)).
  unfold views. rewrite map_nth. reflexivity.
Qed.

Lemma lv_get0 iv : py_getitem (lv_of iv) 0 = Some (i_l0 iv).
Proof. reflexivity. Qed.
Lemma lv_get1 iv : py_getitem (lv_of iv) 1 = Some (i_l1 iv).
Proof. reflexivity. Qed.

Definition enc_cache (c : mlcache) : list (list Z) :=
  map (fun e => [Z.of_nat (fst (fst e)); Z.of_nat (snd (fst e)); snd e]) c.

Lemma dict_get_enc c (d i : nat) : py_c06_dict_get (enc_cache c) (Z.of_nat d) (Z.of_nat i) = cache_get c d i.
Proof.
  induction c as [|[[d' i'] v] c IH]; [reflexivity|]. cbn [enc_cache map fst snd py_c06_dict_get cache_get].
  replace (Z.of_nat d =? Z.of_nat d') with (Nat.eqb d d').
  2:{ destruct (Nat.eqb_spec d d') as [->|N]; [rewrite Z.eqb_refl; reflexivity|]. symmetry. apply Z.eqb_neq. lia. }
  replace (Z.of_nat i =? Z.of_nat i') with (Nat.eqb i i').
  2:{ destruct (Nat.eqb_spec i i') as [->|N]; [rewrite Z.eqb_refl; reflexivity|]. symmetry. apply Z.eqb_neq. lia. }
  destruct (Nat.eqb d d' && Nat.eqb i i'); [reflexivity | exact IH].
Qed.

Theorem gen_get_max_level_miss dict objs (i : nat) (d : Z) :
  (i < length objs)%nat -> py_c06_dict_has dict d (Z.of_nat i) = false ->
  SpatiallyAdaptiveSingleDimensions2_get_max_level dict (views objs) (lv_of (nth i objs dflt)) (Z.of_nat i) d
  = Some (get_max_level objs i).
Proof.
  intros Hi Hmiss. unfold SpatiallyAdaptiveSingleDimensions2_get_max_level. rewrite Hmiss. cbn [negb].
  rewrite lv_get1. cbn [bindE].
  set (own := i_l1 (nth i objs dflt)).
  assert (Hlen : length (views objs) = length objs) by (unfold views; apply map_length).
  match goal with |- context [py_while ?fu ?c ?b (own, 0, true)] => set (cond1 := c); set (body1 := b); set (fuel := fu) end.
  destruct (while_scan (R := Z) own (fun k => 0 <= k) cond1 body1
              (fun k => map (fun p => i_l0 (nth p objs dflt)) (rev (seq 1 (Z.to_nat (Z.of_nat i - k))))))
    with (n := i) (m := own) (k := 0) (fuel := fuel) as (k1 & go1 & E1).
  - intros k Hk. lia.
  - intros m k. reflexivity.
  - intros m k Pk E. unfold cond1. cbn [andb]. apply map_eq_nil in E.
    assert (Z.to_nat (Z.of_nat i - k) = 0)%nat by (destruct (Z.to_nat (Z.of_nat i - k)); [reflexivity | rewrite rev_seq_S in E; discriminate]).
    assert (G : (Z.of_nat i - k >? 0) = false) by (rewrite Z.gtb_ltb; apply Z.ltb_ge; lia). rewrite G. reflexivity.
  - intros m k x r Pk E.
    destruct (Z.to_nat (Z.of_nat i - k)) as [|n] eqn:En; [discriminate|].
    rewrite rev_seq_S in E. cbn [map] in E. injection E as Ex Er.
    assert (Hp : (1 + n < length objs)%nat) by lia.
    split; [|split].
    + unfold cond1. cbn [andb]. assert (G : (Z.of_nat i - k >? 0) = true) by (rewrite Z.gtb_ltb; apply Z.ltb_lt; lia). rewrite G. reflexivity.
    + replace (Z.to_nat (Z.of_nat i - (k + 1))) with n by lia. exact Er.
    + unfold body1. rewrite (views_getitem objs (S n)) by (lia || exact Hp). cbn [bindE].
      rewrite lv_get0. cbn [bindE]. rewrite Ex.
      destruct (x <=? own); cbn [bindF negb]; reflexivity.
  - lia.
  - rewrite Z.sub_0_r, Nat2Z.id, map_length, rev_length, seq_length. reflexivity.
  - unfold fuel. rewrite Hlen. lia.
  - rewrite E1. cbn [bindF]. rewrite Z.sub_0_r, Nat2Z.id.
    set (m1 := scan_max own (map (fun p => i_l0 (nth p objs dflt)) (rev (seq 1 i))) own).
    match goal with |- context [py_while fuel ?c ?b (m1, 1, true)] => set (cond2 := c); set (body2 := b) end.
    destruct (while_scan (R := Z) own (fun k => 1 <= k) cond2 body2
                (fun k => map (fun p => i_l1 (nth p objs dflt))
                              (seq (Z.to_nat (Z.of_nat i + k)) (length objs - Z.to_nat (Z.of_nat i + k)))))
      with (n := (length objs - S i)%nat) (m := m1) (k := 1) (fuel := fuel) as (k2 & go2 & E2).
    + intros k Hk. lia.
    + intros m k. reflexivity.
    + intros m k Pk E. unfold cond2. cbn [andb]. apply map_eq_nil in E.
      assert (length objs - Z.to_nat (Z.of_nat i + k) = 0)%nat by (destruct (length objs - Z.to_nat (Z.of_nat i + k))%nat; [reflexivity | discriminate]).
      unfold py_len. rewrite Hlen.
      destruct (Z.of_nat i + k <? Z.of_nat (length objs)) eqn:G; [|reflexivity]. apply Z.ltb_lt in G. lia.
    + intros m k x r Pk E.
      destruct (length objs - Z.to_nat (Z.of_nat i + k))%nat as [|n] eqn:En; [discriminate|].
      cbn [seq map] in E. injection E as Ex Er.
      assert (Hp : (Z.to_nat (Z.of_nat i + k) < length objs)%nat) by lia.
      split; [|split].
      * unfold cond2. cbn [andb]. unfold py_len. rewrite Hlen.
        assert (G : (Z.of_nat i + k <? Z.of_nat (length objs)) = true) by (apply Z.ltb_lt; lia). rewrite G. reflexivity.
      * replace (Z.to_nat (Z.of_nat i + (k + 1))) with (S (Z.to_nat (Z.of_nat i + k))) by lia.
        replace (length objs - S (Z.to_nat (Z.of_nat i + k)))%nat with n by lia. exact Er.
      * unfold body2. rewrite (views_getitem objs (Z.to_nat (Z.of_nat i + k))) by (lia || exact Hp). cbn [bindE].
        rewrite lv_get1. cbn [bindE]. rewrite Ex.
        destruct (x <=? own); cbn [bindF negb]; reflexivity.
    + lia.
    + replace (Z.to_nat (Z.of_nat i + 1)) with (S i) by lia. rewrite map_length, seq_length. reflexivity.
    + unfold fuel. rewrite Hlen. lia.
    + rewrite E2. cbn [bindF run_flow]. f_equal.
      replace (Z.to_nat (Z.of_nat i + 1)) with (S i) by lia.
      unfold get_max_level. fold own. rewrite (right_positions objs i Hi), (left_positions objs i Hi).
      rewrite <- map_rev, !map_map. reflexivity.
Qed.

Theorem gen_get_max_level_hit dict objs refine_obj i d v :
  py_c06_dict_get dict d i = Some v ->
  SpatiallyAdaptiveSingleDimensions2_get_max_level dict objs refine_obj i d = Some v.
Proof.
  intro H. unfold SpatiallyAdaptiveSingleDimensions2_get_max_level, py_c06_dict_has. rewrite H. cbn [negb bindE run_flow]. reflexivity.
Qed.

(* with the cache of Model/DimWiseCache.v: the generated get_max_level is get_max_level_cached *)
Theorem gen_get_max_level_cached c objs (d i : nat) : (i < length objs)%nat ->
  SpatiallyAdaptiveSingleDimensions2_get_max_level (enc_cache c) (views objs) (lv_of (nth i objs dflt)) (Z.of_nat i) (Z.of_nat d)
  = Some (fst (get_max_level_cached c objs d i)).
Proof.
  intro Hi. unfold get_max_level_cached. destruct (cache_get c d i) as [v|] eqn:E; cbn [fst].
  - apply gen_get_max_level_hit. rewrite dict_get_enc. exact E.
  - apply gen_get_max_level_miss; [exact Hi|]. unfold py_c06_dict_has. rewrite dict_get_enc, E. reflexivity.
Qed.
