(* C09 — soundness of the verified checker moments_ok: a rule that passes integrates every polynomial of degree
   < length tols up to the coefficient-weighted tolerances. *)
From Coq Require Import ZArith List QArith Qcanon Bool Arith Lia Lqa.
From SG Require Import Base.QcUtil Model.Trap Proofs.TrapBasics.
Import ListNotations.
Open Scope Qc_scope.

Ltac qc_nra :=
  repeat match goal with
  | H : @eq Qc _ _ |- _ => apply Qc_eq_Qeq in H
  | H : (_ <= _)%Qc |- _ => unfold Qcle in H
  | H : (_ < _)%Qc |- _ => unfold Qclt in H
  end;
  try match goal with |- @eq Qc _ _ => apply Qc_eq_Qeq end;
  unfold Qcle, Qclt in *; qc_unfold_ops; nra.

Lemma Qc_abs_cases a : (0 <= a /\ Qc_abs a = a) \/ (a < 0 /\ Qc_abs a = - a).
Proof.
  unfold Qc_abs. destruct (Qc_leb 0 a) eqn:E.
  - left. split; [apply Qc_leb_le; exact E | reflexivity].
  - right. split; [|reflexivity]. apply Qcnot_le_lt. intro L. apply Qc_leb_le in L. congruence.
Qed.

Lemma Qc_abs_nonneg a : 0 <= Qc_abs a.
Proof. destruct (Qc_abs_cases a) as [[H ->]|[H ->]]; qc_order. Qed.

Lemma Qc_abs_triangle a b : Qc_abs (a + b) <= Qc_abs a + Qc_abs b.
Proof.
  destruct (Qc_abs_cases a) as [[Ha ->]|[Ha ->]]; destruct (Qc_abs_cases b) as [[Hb ->]|[Hb ->]];
    destruct (Qc_abs_cases (a + b)) as [[Hc ->]|[Hc ->]]; qc_order.
Qed.

Lemma Qc_abs_mul_le c r t : Qc_abs r <= t -> Qc_abs (c * r) <= Qc_abs c * t.
Proof.
  intro H.
  destruct (Qc_abs_cases c) as [[Hc ->]|[Hc ->]]; destruct (Qc_abs_cases r) as [[Hr Er]|[Hr Er]]; rewrite Er in H;
    destruct (Qc_abs_cases (c * r)) as [[Hm ->]|[Hm ->]]; qc_nra.
Qed.

Lemma Qc_abs_le_intro a t : - t <= a -> a <= t -> Qc_abs a <= t.
Proof. intros H1 H2. destruct (Qc_abs_cases a) as [[H ->]|[H ->]]; qc_order. Qed.

(* linearity of the rule *)
Lemma dotQ_map_add (w p : list Qc) (f g : Qc -> Qc) :
  dotQ w (map (fun t => f t + g t) p) = dotQ w (map f p) + dotQ w (map g p).
Proof.
  revert p. induction w as [|a w IH]; intros [|b p]; simpl; try ring. rewrite IH. ring.
Qed.

Lemma dotQ_map_scale (w p : list Qc) (f : Qc -> Qc) c :
  dotQ w (map (fun t => c * f t) p) = c * dotQ w (map f p).
Proof.
  revert p. induction w as [|a w IH]; intros [|b p]; simpl; try ring. rewrite IH. ring.
Qed.

Section Checker.
Variables (pts wts : list Qc) (a b : Qc).

Fixpoint lin_res (c : list Qc) (j : nat) : Qc :=
  match c with [] => 0 | c0 :: r => c0 * moment_residual pts wts a b j + lin_res r (S j) end.

Lemma quad_poly_from c : forall j,
  quad1 wts pts (poly_eval_from c j) - poly_int_from c j a b = lin_res c j.
Proof.
  induction c as [|c0 r IH]; intro j.
  - cbn [poly_eval_from poly_int_from lin_res]. unfold quad1.
    assert (E : dotQ wts (map (fun _ : Qc => 0) pts) = 0).
    { clear. revert pts. induction wts as [|x w IHw]; intros [|y p]; simpl; try reflexivity. rewrite IHw. ring. }
    rewrite E. ring.
  - cbn [poly_eval_from poly_int_from lin_res]. rewrite <- IH. unfold quad1.
    rewrite (dotQ_map_add wts pts (fun t => c0 * qpow t j) (poly_eval_from r (S j))).
    rewrite (dotQ_map_scale wts pts (fun t => qpow t j) c0).
    unfold moment_residual, moment_rule. ring.
Qed.

Lemma lin_res_bound c : forall j tols,
  moments_ok_from pts wts a b j tols = true -> (length c <= length tols)%nat ->
  Qc_abs (lin_res c j) <= weighted_tol c tols.
Proof.
  induction c as [|c0 r IH]; intros j tols Hok Hlen.
  - cbn [lin_res weighted_tol]. unfold Qc_abs. cbn. apply Qcle_refl.
  - destruct tols as [|t tr]; [simpl in Hlen; lia|].
    cbn [moments_ok_from] in Hok. apply andb_true_iff in Hok. destruct Hok as [H0 Hr].
    apply Qc_leb_le in H0.
    cbn [lin_res weighted_tol].
    eapply Qcle_trans; [apply Qc_abs_triangle|].
    apply Qcplus_le_compat.
    + apply Qc_abs_mul_le. exact H0.
    + apply IH; [exact Hr | simpl in Hlen; lia].
Qed.

(* soundness: every polynomial with at most `length tols` coefficients is integrated up to the weighted tolerance *)
Theorem moments_ok_sound tols c :
  moments_ok pts wts a b tols = true -> (length c <= length tols)%nat ->
  length pts = length wts /\
  Qc_abs (quad1 wts pts (poly_eval c) - poly_int c a b) <= weighted_tol c tols.
Proof.
  intros Hok Hlen. unfold moments_ok in Hok. apply andb_true_iff in Hok. destruct Hok as [Hl Hm].
  split; [apply Nat.eqb_eq; exact Hl|].
  unfold poly_eval, poly_int. rewrite quad_poly_from. apply lin_res_bound; assumption.
Qed.

(* with zero tolerances the rule is exact *)
Lemma weighted_tol_zero c tols : Forall (fun t => t = 0) tols -> weighted_tol c tols = 0.
Proof.
  revert tols. induction c as [|c0 r IH]; intros tols H; [reflexivity|].
  destruct tols as [|t tr]; [reflexivity|]. inversion H; subst. cbn [weighted_tol]. rewrite IH by assumption. ring.
Qed.

Theorem moments_ok_exact tols c :
  moments_ok pts wts a b tols = true -> Forall (fun t => t = 0) tols -> (length c <= length tols)%nat ->
  quad1 wts pts (poly_eval c) = poly_int c a b.
Proof.
  intros Hok Hz Hlen. destruct (moments_ok_sound tols c Hok Hlen) as [_ H].
  rewrite (weighted_tol_zero c tols Hz) in H.
  pose proof (Qc_abs_nonneg (quad1 wts pts (poly_eval c) - poly_int c a b)) as H0.
  destruct (Qc_abs_cases (quad1 wts pts (poly_eval c) - poly_int c a b)) as [[H1 E]|[H1 E]]; rewrite E in *; qc_order.
Qed.

End Checker.

Lemma all_nonneg_sound w : all_nonneg w = true -> forall q, In q w -> 0 <= q.
Proof.
  intros H q Hin. unfold all_nonneg in H. rewrite forallb_forall in H. apply Qc_leb_le. apply H. exact Hin.
Qed.
