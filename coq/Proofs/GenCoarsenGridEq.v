(* C07: the decision arithmetic of coarsen_grid GENERATED from the source (coq/Gen/CoarsenGridGen.v, harness/translate/py2gallina_c07.py)
   equals what the hand-written models coq/Model/ExtendSplit.v (versions 0,1,2 with the lmin-aware arithmetic base = lmin) and
   coq/Model/ESV3.v (version 3) compute at the corresponding places. *)
From Coq Require Import ZArith List Bool QArith Qcanon Lia.
From SG Require Import Base.QcUtil Model.CombiScheme Model.ExtendSplit Model.ESV3 Gen.CoarsenGridGen.
Import ListNotations.
Open Scope Z_scope.
Local Arguments Z.add : simpl never.
Local Arguments Z.sub : simpl never.
Local Arguments Z.mul : simpl never.
Local Arguments Z.leb : simpl never.
Local Arguments Z.ltb : simpl never.
Local Arguments Z.geb : simpl never.
Local Arguments Z.gtb : simpl never.
Local Arguments Z.eqb : simpl never.

(* versions 1, 2: one round of the while loop, with the generated no_forward_problem / do_coarsen *)
Definition gen_do_coarsen (version dimz lmin lmax csave : Z) (td : bool) (c m occ : Z) : bool :=
  if version =? 1 then gen_do_coarsen_v1 c occ td (gen_nfp_v1 dimz lmax lmin csave m)
  else gen_do_coarsen_v2 c occ (gen_nfp_v2 dimz lmax lmin csave m).

Lemma gen_v12_loop_step f version dimz lmin lmax csave td c t :
  v12_loop (S f) version dimz lmin lmin lmax csave td c t =
  if c >? 0 then
    if maxl t =? lmin then t
    else if gen_do_coarsen version dimz lmin lmax csave td c (maxl t) (count_eq (maxl t) t)
         then v12_loop f version dimz lmin lmin lmax csave td (c - count_eq (maxl t) t) (dec_all (maxl t) t) else t
  else t.
Proof.
  cbn [v12_loop]. unfold gen_do_coarsen, gen_do_coarsen_v1, gen_do_coarsen_v2, gen_nfp_v1, gen_nfp_v2, b2z.
  destruct (c >? 0); [|reflexivity]. destruct (maxl t =? lmin); [reflexivity|]. destruct (version =? 1); reflexivity.
Qed.

(* versions 1, 2: the result of coarsen_grid with the generated num_sub_diagonal / is_top_diag *)
Lemma gen_coarsen_grid_v12 d version lmin lmax c D l : version <> 0 ->
  fst (coarsen_grid (mkCP d version lmin lmax lmin) c D l) =
  (sub_lmin lmin (v12_loop (Z.to_nat c) version (Z.of_nat d) lmin lmin lmax c
                           (gen_is_top_diag (gen_num_sub_diagonal (Z.of_nat d) lmax lmin (sumZ l))) c l), true).
Proof.
  intro Hv. unfold coarsen_grid, gen_is_top_diag, gen_num_sub_diagonal. cbn [cp_version cp_lmin cp_lmax cp_base cp_dim].
  destruct (Z.eqb_spec version 0) as [E | _]; [contradiction | reflexivity].
Qed.

Lemma gen_assert_eq d version lmin lmax l :
  coarsen_assert_ok (mkCP d version lmin lmax lmin) l =
  (version =? 0) || gen_assert (Z.of_nat d) (gen_num_sub_diagonal (Z.of_nat d) lmax lmin (sumZ l)).
Proof. reflexivity. Qed.

(* version 0: the test that sends a component grid to the "area is null" branch (dimension >= 2) *)
Lemma gen_v0_test c l : (2 <= length l)%nat ->
  gen_v0_null_test c (Z.of_nat (length l)) (maxl l) (maxl (remove_first (maxl l) l)) = (top_gap l <? c).
Proof.
  intro H. unfold gen_v0_null_test, top_gap. destruct (Z.gtb_spec (Z.of_nat (length l)) 1); [reflexivity | lia].
Qed.

Lemma gen_coarsen_grid_v0_branch d lmin lmax base c D l : (2 <= length l)%nat ->
  fst (coarsen_grid (mkCP d 0 lmin lmax base) c D l) =
  if gen_v0_null_test c (Z.of_nat (length l)) (maxl l) (maxl (remove_first (maxl l) l))
  then (sub_lmin lmin (v0_loop (Z.to_nat c) lmin l), false)
  else fst (coarsen_grid (mkCP d 0 lmin lmax base) c D l).
Proof.
  intro H. rewrite (gen_v0_test c l H). unfold coarsen_grid. cbn [cp_version cp_lmin]. change (0 =? 0) with true. cbv iota.
  destruct (top_gap l <? c); reflexivity.
Qed.

(* version 3: the round of the loop and the assert *)
Lemma gen_v3_dec_nth lmin : forall i t,
  dec_nth i lmin t = match nth_error t i with
                     | Some x => firstn i t ++ (if gen_v3_can_lower x lmin then x - 1 else x) :: skipn (S i) t
                     | None => t
                     end.
Proof.
  induction i as [|i IH]; intros [|x t]; cbn [dec_nth nth_error firstn skipn app]; try reflexivity.
  - unfold gen_v3_can_lower. rewrite Z.gtb_ltb. reflexivity.
  - rewrite IH. destruct (nth_error t i); reflexivity.
Qed.

Lemma gen_v3_next cur dim : (0 < dim)%nat ->
  Z.of_nat (Nat.modulo (cur + 1) dim) = gen_v3_next_direction (Z.of_nat dim) (Z.of_nat cur).
Proof.
  intro H. unfold gen_v3_next_direction. rewrite Nat2Z.inj_mod. f_equal. lia.
Qed.

Lemma gen_v3_assert_eq d v lmin lmax base l :
  coarsen_assert3_ok (mkCP d v lmin lmax base) l = gen_v3_assert (Z.of_nat d) (gen_v3_num_sub_diagonal (Z.of_nat d) lmax (sumZ l)).
Proof. reflexivity. Qed.

(* all versions: the coarsened level vector is returned relative to lmin (noInitialSplitting = False: the only usable value) *)
Lemma gen_level_coarse lmin t : sub_lmin lmin t = map (fun x => gen_level_coarse_entry x lmin false) t.
Proof. unfold sub_lmin, gen_level_coarse_entry, b2z. apply map_ext. intro x. lia. Qed.
