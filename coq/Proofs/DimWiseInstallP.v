(* C06/C03: refinement_postprocessing as a function (dw_post) and runs that start from an installed state (dw_install,
   Model/DimWiseInstall.v): the step function is the container part followed by dw_post, and installing ANY trees that
   satisfy the structural invariant Seg yields a state satisfying the full state invariant DwInv - so every theorem about
   DwInv states (C06 well-formedness, C03 nestedness / coefficient sum / nodal exactness) applies to the states the harness
   constructs directly, and to everything reached from them. *)
From Coq Require Import ZArith List Bool QArith Qcanon Arith Lia Sorted Permutation.
From SG Require Import Base.QcUtil Model.CombiScheme Model.RefTree Model.DimWise Model.DimWiseInstall
     Proofs.SchemeBasics Proofs.SchemeInv Proofs.RefTreeInv Proofs.RefSelect Proofs.RefRemoveSort Proofs.DimWiseInv
     Proofs.DimWiseTile Proofs.RebalanceSeg Proofs.DimWiseInvRebal.
Import ListNotations.
Open Scope Z_scope.

Theorem dw_step_is_post o bens st :
  dw_step o bens st = match meta_refine_step (o_margin o) bens (st_meta st) with
                      | Some m1 => dw_post o st m1
                      | None => None
                      end.
Proof. reflexivity. Qed.

Theorem dw_post_inv a b o st m1 st' :
  length (st_lmax st) = st_dim st -> length (m_conts m1) = st_dim st -> m_cur m1 = 0%nat -> Inv (st_scheme st) ->
  (forall d c, nth_error (m_conts m1) d = Some c -> fresh c /\ Seg (nth d a 0%Qc) (nth d b 0%Qc) 0 0 (c_objs c)) ->
  dw_post o st m1 = Some st' -> DwInv a b st'.
Proof.
  intros HLm HLc Hcur HI Hall E. unfold dw_post in E.
  destruct (if o_rebal o then opt_map (fun c => rebalance (o_dec o) (c_objs c)) (m_conts m1) else Some (map c_objs (m_conts m1)))
    as [trees2|] eqn:ER; [|discriminate].
  assert (H2 : length trees2 = length (m_conts m1) /\
               forall j c1, nth_error (m_conts m1) j = Some c1 ->
                 exists t2, nth_error trees2 j = Some t2 /\ forall x y, Seg x y 0 0 (c_objs c1) -> Seg x y 0 0 t2).
  { destruct (o_rebal o).
    - destruct (opt_map_nth _ _ _ ER) as [L G]. split; [assumption|]. intros j c1 Hj.
      destruct (G j c1 Hj) as (t2 & A & B). exists t2. split; [assumption|].
      intros x y HS. eapply rebalance_Seg; eassumption.
    - injection ER as <-. split; [apply map_length|]. intros j c1 Hj. exists (c_objs c1). split; [|auto].
      rewrite nth_error_map, Hj. reflexivity. }
  destruct H2 as [L2 G2].
  destruct (coarsen_dims 0 trees2 (st_lmax st) (st_lmin st) (st_dim st) (st_scheme st))
    as [[[trees3 lmaxs] s]|] eqn:EC; [|discriminate].
  injection E as <-.
  destruct (coarsen_dims_spec _ _ _ _ _ _ _ _ _ EC) as (L1 & L3 & HI2 & _ & Hall3); [simpl; lia | assumption|].
  unfold DwInv. simpl. split; [lia|]. split; [rewrite map_length, combine_length; lia|].
  split; [assumption|]. split; [|assumption].
  intros d c Hd. rewrite nth_error_map in Hd.
  destruct (nth_error (combine (m_conts m1) trees3) d) as [[c1 t3]|] eqn:Ecomb; [|discriminate].
  simpl in Hd. injection Hd as <-.
  assert (Hd1 : nth_error (m_conts m1) d = Some c1 /\ nth_error trees3 d = Some t3).
  { clear - Ecomb. revert trees3 d Ecomb. generalize (m_conts m1) as l1.
    induction l1 as [|x l1 IH]; intros [|y l2] [|d] H; simpl in *; try discriminate.
    - injection H as <- <-. split; reflexivity.
    - apply IH. assumption. }
  destruct Hd1 as [Hc1 Ht3].
  destruct (Hall d c1 Hc1) as [Hf HS].
  destruct (G2 d _ Hc1) as (t2 & Ht2 & HS2).
  destruct (Hall3 d t2 Ht2) as (t3' & Ht3' & Hco & Hseg).
  rewrite Ht3 in Ht3'. injection Ht3' as <-.
  simpl. split; [exact Hf|]. split; [apply Hseg, HS2, HS | exact Hco].
Qed.

Lemma sort_Seg_id x y u w t : Seg x y u w t -> sort_by_start t = t.
Proof.
  intro H. symmetry. apply sorted_perm_eq; [eapply Seg_sorted; eassumption | apply sort_sorted | apply sort_perm].
Qed.

(* installing valid trees into a state with a valid scheme gives a state satisfying the full invariant *)
Theorem dw_install_inv a b o rb trees st st' :
  length (st_lmax st) = st_dim st -> Inv (st_scheme st) ->
  (forall d t, nth_error trees d = Some t -> Seg (nth d a 0%Qc) (nth d b 0%Qc) 0 0 t) ->
  dw_install o rb trees st = Some st' -> DwInv a b st'.
Proof.
  intros HLm HI Hall E. unfold dw_install in E.
  destruct (Nat.eqb (length trees) (st_dim st)) eqn:EL; [|discriminate]. apply Nat.eqb_eq in EL.
  eapply dw_post_inv; [exact HLm | | | exact HI | | exact E].
  - simpl. rewrite map_length. exact EL.
  - reflexivity.
  - intros d c Hd. simpl in Hd. rewrite nth_error_map in Hd.
    destruct (nth_error trees d) as [t|] eqn:Et; [|discriminate]. injection Hd as <-.
    split; [repeat split|]. simpl. rewrite (sort_Seg_id _ _ _ _ _ (Hall d t Et)). apply Hall. assumption.
Qed.

(* hence every state reached from an installed valid state by any history with any options *)
Theorem dw_installed_reachable_inv n lmin lmax a b o rb trees steps st0 st1 st :
  Forall2 (fun x y => (x < y)%Qc) a b ->
  dw_init (S n) lmin lmax a b = Some st0 ->
  (forall d t, nth_error trees d = Some t -> Seg (nth d a 0%Qc) (nth d b 0%Qc) 0 0 t) ->
  dw_install o rb trees st0 = Some st1 -> dw_run o steps st1 = Some st -> DwInv a b st.
Proof.
  intros Hab Hinit Htrees Hinst Hrun.
  pose proof (dw_init_inv _ _ _ _ _ _ Hab Hinit) as (HLm & _ & _ & _ & HI).
  eapply dw_run_preserves_inv_any; [|eassumption].
  eapply dw_install_inv; eassumption.
Qed.
