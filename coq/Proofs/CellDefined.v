(* C04 / cell strategy: the evaluation never raises KeyError - every relevant parent of every container cell is in cell_dict, in
   every state reachable by refinements from a state satisfying the width/level invariant (all cells have width (b_d-a_d)/2^level_d)
   and the parent-closure invariant (the direct parents of every cell are in cell_dict). *)
From Coq Require Import ZArith List Bool QArith Qcanon Lia.
From SG Require Import Base.QcUtil Model.CombiScheme Model.Tensor Model.ExtendSplit Model.ESExact Model.CellScheme
     Proofs.ESGeom Proofs.StdGrid Proofs.TrapBasics Proofs.CellExactA Proofs.CellExactB.
Import ListNotations.
Open Scope Z_scope.

(* ---------------------------------------------------------------- powers of two in Qc *)
Lemma qc_pow2_neq0 l : 0 <= l -> qc_pow2 l <> 0%Qc.
Proof. intro H. unfold qc_pow2. apply qc_of_Z_nonzero. pose proof (pow2_pos l H). lia. Qed.

Lemma qc_of_Z_inj x y : qc_of_Z x = qc_of_Z y -> x = y.
Proof.
  intro H. unfold qc_of_Z in H. apply Q2Qc_eq_iff in H. unfold Qeq, inject_Z in H. simpl in H. lia.
Qed.

Lemma qc_pow2_inj x y : 0 <= x -> 0 <= y -> qc_pow2 x = qc_pow2 y -> x = y.
Proof. intros Hx Hy H. unfold qc_pow2 in H. apply qc_of_Z_inj in H. apply (Z.pow_inj_r 2); lia. Qed.

Lemma qc_pow2_succ l : 0 <= l -> qc_pow2 (l + 1) = (qc_pow2 l * Qc2)%Qc.
Proof. intro H. unfold qc_pow2. rewrite Z.pow_add_r by lia. rewrite qc_of_Z_mul. reflexivity. Qed.

(* ---------------------------------------------------------------- set_nth / nth *)
Lemma nth_set_nth_same : forall (l : list Qc) d v, (d < length l)%nat -> nth d (set_nth d v l) 0%Qc = v.
Proof. induction l as [|x l IH]; intros [|d] v H; simpl in *; try lia; [reflexivity|]. apply IH. lia. Qed.
Lemma nth_set_nth_other : forall (l : list Qc) d d' v, d <> d' -> nth d' (set_nth d v l) 0%Qc = nth d' l 0%Qc.
Proof. induction l as [|x l IH]; intros [|d] [|d'] v H; simpl; try reflexivity; try lia. apply IH. lia. Qed.

(* ---------------------------------------------------------------- the width / level invariant of a cell *)
Section WL.
Variables (a b : list Qc) (dim : nat).
Hypothesis Hab : forall d, (d < dim)%nat -> (nth d a 0 < nth d b 0)%Qc.

Definition width (k : box) (d : nat) : Qc := (nth d (snd k) 0 - nth d (fst k) 0)%Qc.
Definition cWL (k : box) (lv : list Z) : Prop :=
  length lv = dim /\ length (fst k) = dim /\ length (snd k) = dim /\
  forall d, (d < dim)%nat -> 0 <= nth d lv 0 /\ (width k d * qc_pow2 (nth d lv 0%Z) = nth d b 0 - nth d a 0)%Qc.

Lemma domain_width_neq0 d : (d < dim)%nat -> (nth d b 0 - nth d a 0 <> 0)%Qc.
Proof. intro H. apply lt_sub_neq0. apply Hab. exact H. Qed.

Lemma mul_cancel_l (w p q D : Qc) : w <> 0%Qc -> (w * p = D)%Qc -> (w * q = D)%Qc -> p = q.
Proof. intros Hw E1 E2. assert (A : p = (D / w)%Qc) by (rewrite <- E1; field; exact Hw). rewrite A, <- E2. field. exact Hw. Qed.

Lemma width_neq0 k lv d : cWL k lv -> (d < dim)%nat -> width k d <> 0%Qc.
Proof.
  intros [_ [_ [_ H]]] Hd Z0. destruct (H d Hd) as [_ E]. rewrite Z0 in E. apply (domain_width_neq0 d Hd). rewrite <- E. ring.
Qed.

(* level d of a cell is determined by its width in dimension d *)
Lemma level_from_width k lv k' lv' d : cWL k lv -> cWL k' lv' -> (d < dim)%nat -> width k d = width k' d -> nth d lv 0 = nth d lv' 0.
Proof.
  intros H1 H2 Hd Ew. pose proof (width_neq0 k lv d H1 Hd) as Wn.
  destruct H1 as [_ [_ [_ H1]]]. destruct H2 as [_ [_ [_ H2]]]. destruct (H1 d Hd) as [P1 E1]. destruct (H2 d Hd) as [P2 E2].
  apply qc_pow2_inj; try assumption. rewrite <- Ew in E2. exact (mul_cancel_l _ _ _ _ Wn E1 E2).
Qed.

(* the box computed by parent_cell_arbitrary_dim: width doubled in dimension d, unchanged elsewhere *)
Lemma parent_key_width lmin d lv k p : cWL k lv -> (d < dim)%nat -> 0 <= lmin -> parent_key a b lmin d lv k = Some p ->
  length (fst p) = dim /\ length (snd p) = dim /\
  (width p d * qc_pow2 (nth d lv 0%Z - 1) = nth d b 0 - nth d a 0)%Qc /\ lmin < nth d lv 0 /\
  forall d', d' <> d -> width p d' = width k d'.
Proof.
  intros [Ll [Ls [Le H]]] Hd Hl E. unfold parent_key in E. destruct (Z.leb_spec (nth d lv 0) lmin) as [C|C]; [discriminate|].
  assert (Pn : qc_pow2 (nth d lv 0%Z - 1) <> 0%Qc) by (apply qc_pow2_neq0; lia).
  destruct (is_odd_int _); injection E as <-; cbn [fst snd]; unfold width; cbn [fst snd];
    (split; [rewrite ?set_nth_length; assumption | split; [rewrite ?set_nth_length; assumption | split; [|split; [exact C|]]]]).
  - rewrite nth_set_nth_same by lia. field. exact Pn.
  - intros d' Hd'. rewrite nth_set_nth_other by lia. reflexivity.
  - rewrite nth_set_nth_same by lia. field. exact Pn.
  - intros d' Hd'. rewrite nth_set_nth_other by lia. reflexivity.
Qed.

(* the cell found under a parent key carries the level vector with level d decreased by one *)
Lemma parent_levels lmin d lv k p lvp : cWL k lv -> (d < dim)%nat -> 0 <= lmin -> parent_key a b lmin d lv k = Some p ->
  cWL p lvp -> lvp = bump_lv d (-1) lv.
Proof.
  intros Hk Hd Hl E Hp. destruct (parent_key_width lmin d lv k p Hk Hd Hl E) as [_ [_ [Ew [Hgt Ho]]]].
  pose proof Hk as [Ll _]. pose proof Hp as [Llp [_ [_ Hpw]]].
  apply (nth_ext lvp (bump_lv d (-1) lv) 0 0); [rewrite bump_lv_length; congruence|]. intros d' Hd'. rewrite Llp in Hd'.
  destruct (Nat.eq_dec d' d) as [->|Hne].
  - rewrite nth_bump_same by lia. destruct (Hpw d Hd) as [P1 E1].
    apply qc_pow2_inj; [exact P1 | lia|]. apply (mul_cancel_l (width p d) _ _ (nth d b 0 - nth d a 0)%Qc); [apply (width_neq0 p lvp d Hp Hd) | exact E1 | exact Ew].
  - rewrite nth_bump_other by lia. symmetry. apply (level_from_width k lv p lvp d' Hk Hp Hd'). symmetry. apply Ho. exact Hne.
Qed.
End WL.

(* ---------------------------------------------------------------- the state invariant *)
Record DInv (st : cstate) : Prop := mkDInv {
  d_ab : forall d, (d < cs_dim st)%nat -> (nth d (cs_a st) 0 < nth d (cs_b st) 0)%Qc;
  d_lmin : 0 <= cs_lmin st;
  d_wl : forall c, In c (cs_dict st) -> cWL (cs_a st) (cs_b st) (cs_dim st) (ckey c) (c_lv c);
  d_par : forall c d p, In c (cs_dict st) -> (d < cs_dim st)%nat ->
            parent_key (cs_a st) (cs_b st) (cs_lmin st) d (c_lv c) (ckey c) = Some p -> exists pc, find_cell p (cs_dict st) = Some pc
}.

(* children of a cell satisfying the width/level invariant satisfy it with level d increased by one *)
Lemma child_cWL a b dim k lv d ch : (forall d, (d < dim)%nat -> (nth d a 0 < nth d b 0)%Qc) ->
  cWL a b dim k lv -> (d < dim)%nat -> In ch (children_keys d k) -> cWL a b dim ch (bump_lv d 1 lv).
Proof.
  intros Hab [Ll [Ls [Le H]]] Hd Hin. unfold children_keys in Hin. cbv zeta in Hin.
  assert (G : forall ch', (length (fst ch') = dim /\ length (snd ch') = dim /\
                           (width ch' d * Qc2 = width k d)%Qc /\ forall d', d' <> d -> width ch' d' = width k d') ->
                          cWL a b dim ch' (bump_lv d 1 lv)).
  { intros ch' [L1 [L2 [Wd Wo]]]. split; [rewrite bump_lv_length; exact Ll | split; [exact L1 | split; [exact L2|]]].
    intros d' Hd'. destruct (H d' Hd') as [P E]. destruct (Nat.eq_dec d' d) as [->|Hne].
    - rewrite nth_bump_same by lia. split; [lia|]. rewrite qc_pow2_succ by exact P. rewrite <- E, <- Wd. ring.
    - rewrite nth_bump_other by lia. split; [exact P|]. rewrite (Wo d' Hne). exact E. }
  destruct Hin as [<-|[<-|[]]]; apply G; unfold width; cbn [fst snd].
  - split; [rewrite set_nth_length; exact Ls | split; [exact Le | split]].
    + rewrite nth_set_nth_same by lia. rewrite Proofs.LocalGridsBase.Qc2_eq, Proofs.LocalGridsBase.Qchalf_eq. field. discriminate.
    + intros d' Hd'. rewrite nth_set_nth_other by lia. reflexivity.
  - split; [exact Ls | split; [rewrite set_nth_length; exact Le | split]].
    + rewrite nth_set_nth_same by lia. rewrite Proofs.LocalGridsBase.Qc2_eq, Proofs.LocalGridsBase.Qchalf_eq. field. discriminate.
    + intros d' Hd'. rewrite nth_set_nth_other by lia. reflexivity.
Qed.

(* ---------------------------------------------------------------- one refinement preserves DInv *)
Section Refine2.
Variables (a b : list Qc) (lmin : Z) (dim : nat) (dict0 : list cell).
Hypothesis Hab : forall d, (d < dim)%nat -> (nth d a 0 < nth d b 0)%Qc.

Definition LI2 (acc : list cell * list box) : Prop :=
  (forall c, In c (fst acc) -> cWL a b dim (ckey c) (c_lv c)) /\
  (forall c d p, In c (fst acc) -> (d < dim)%nat -> parent_key a b lmin d (c_lv c) (ckey c) = Some p ->
                 exists pc, find_cell p (fst acc) = Some pc) /\
  (forall k c, find_cell k dict0 = Some c -> find_cell k (fst acc) = Some c).

Lemma try_create_LI2 lvc acc cand : cWL a b dim cand lvc -> LI2 acc -> LI2 (try_create a b lmin dim lvc acc cand).
Proof.
  intros Hw [H1 [H2 H3]]. destruct acc as [dict news]. unfold try_create. cbn [fst snd] in *.
  destruct (find_cell cand dict) eqn:Ef; [split; [exact H1 | split; [exact H2 | exact H3]]|].
  destruct (forallb _ _) eqn:Efa; [|split; [exact H1 | split; [exact H2 | exact H3]]].
  rewrite forallb_forall in Efa.
  split; [|split]; cbn [fst snd].
  - intros c Hc. apply in_app_or in Hc. destruct Hc as [Hc|[<-|[]]]; [apply H1; exact Hc|].
    unfold ckey. cbn [c_s c_e c_lv]. destruct cand; exact Hw.
  - intros c d p Hc Hd Hp. apply in_app_or in Hc. destruct Hc as [Hc|[<-|[]]].
    + destruct (H2 c d p Hc Hd Hp) as [pc Hpc]. exists pc. rewrite find_cell_app, Hpc. reflexivity.
    + unfold ckey in Hp. cbn [c_s c_e c_lv] in Hp. assert (Ec : (fst cand, snd cand) = cand) by (destruct cand; reflexivity). rewrite Ec in Hp.
      assert (Hin : In p (get_parents a b lmin dim lvc cand)).
      { unfold get_parents. apply in_flat_map. exists d. split; [apply in_seq; lia|]. rewrite Hp. left. reflexivity. }
      specialize (Efa p Hin). destruct (find_cell p dict) as [pc|] eqn:Epc; [|discriminate].
      exists pc. rewrite find_cell_app, Epc. reflexivity.
  - intros k c Hk. rewrite find_cell_app, (H3 k c Hk). reflexivity.
Qed.

Lemma fold_try_create_LI2 lvc cands : (forall ch, In ch cands -> cWL a b dim ch lvc) ->
  forall acc, LI2 acc -> LI2 (fold_left (try_create a b lmin dim lvc) cands acc).
Proof.
  induction cands as [|ch cands IH]; intros Hc acc HL; [exact HL|]. simpl. apply IH.
  - intros ch' H. apply Hc. right. exact H.
  - apply try_create_LI2; [apply Hc; left; reflexivity | exact HL].
Qed.
End Refine2.

Lemma refine_cell_dinv st k : DInv st -> DInv (refine_cell st k).
Proof.
  intros [Hab Hl Hwl Hpar]. unfold refine_cell.
  destruct (find_cell k (cs_dict st)) as [c|] eqn:Hc; [|constructor; assumption].
  destruct (c_active c); [|constructor; assumption].
  destruct (find_cell_some _ _ _ Hc) as [Hin Ekey]. pose proof (Hwl c Hin) as Wc. rewrite Ekey in Wc.
  set (dict0 := set_inactive k (cs_dict st)).
  assert (In0 : forall c', In c' dict0 -> exists c0, In c0 (cs_dict st) /\ ckey c' = ckey c0 /\ c_lv c' = c_lv c0).
  { intros c' Hc'. unfold dict0, set_inactive in Hc'. apply in_map_iff in Hc'. destruct Hc' as [c0 [E H0]]. exists c0. split; [exact H0|].
    subst c'. destruct (box_eqb (ckey c0) k); split; reflexivity. }
  assert (L0 : LI2 (cs_a st) (cs_b st) (cs_lmin st) (cs_dim st) dict0 (dict0, [])).
  { split; [|split]; cbn [fst snd].
    - intros c' Hc'. destruct (In0 c' Hc') as [c0 [H0 [E1 E2]]]. rewrite E1, E2. apply Hwl. exact H0.
    - intros c' d p Hc' Hd Hp. destruct (In0 c' Hc') as [c0 [H0 [E1 E2]]]. rewrite E1, E2 in Hp.
      destruct (Hpar c0 d p H0 Hd Hp) as [pc Hpc]. exists (deactivate k pc). unfold dict0. rewrite find_cell_set_inactive, Hpc. reflexivity.
    - intros k' c' H. exact H. }
  assert (LD : forall n d0 acc, (d0 + n = cs_dim st)%nat -> LI2 (cs_a st) (cs_b st) (cs_lmin st) (cs_dim st) dict0 acc ->
               LI2 (cs_a st) (cs_b st) (cs_lmin st) (cs_dim st) dict0
                  (fold_left (fun acc d => fold_left (try_create (cs_a st) (cs_b st) (cs_lmin st) (cs_dim st) (bump_lv d 1 (c_lv c)))
                                                     (children_keys d k) acc) (seq d0 n) acc)).
  { induction n as [|n IH]; intros d0 acc E HL; [exact HL|]. cbn [seq fold_left]. apply IH; [lia|].
    apply fold_try_create_LI2; [|exact HL]. intros ch Hch. apply (child_cWL _ _ _ k (c_lv c) d0 ch Hab Wc); [lia | exact Hch]. }
  specialize (LD (cs_dim st) 0%nat (dict0, []) eq_refl L0).
  destruct (fold_left _ (seq 0 (cs_dim st)) (dict0, [])) as [dict1 news]. destruct LD as [D1 [D2 _]]. cbn [fst snd] in *.
  constructor; cbn [cs_dim cs_lmin cs_a cs_b cs_dict cs_objs]; assumption.
Qed.

Lemma refine_round_dinv positions : forall st, DInv st -> DInv (CellScheme.refine_round st positions).
Proof.
  unfold CellScheme.refine_round. induction positions as [|i ps IH]; intros st H; [exact H|]. simpl. apply IH.
  destruct (nth_error (cs_objs st) i) as [k|]; [apply refine_cell_dinv; exact H | exact H].
Qed.

Lemma cell_run_dinv rounds : forall st, DInv st -> DInv (cell_run st rounds).
Proof. unfold cell_run. induction rounds as [|r rs IH]; intros st H; [exact H|]. simpl. apply IH. apply refine_round_dinv. exact H. Qed.

(* ---------------------------------------------------------------- every relevant parent is in cell_dict *)
Definition entry_found (st : cstate) (e : box * list Z * Z) : Prop :=
  exists pc, find_cell (fst (fst e)) (cs_dict st) = Some pc /\ c_lv pc = snd (fst e).

Lemma parents_step_found st d acc : DInv st -> (d < cs_dim st)%nat ->
  Forall (entry_found st) acc -> Forall (entry_found st) (parents_step (cs_a st) (cs_b st) (cs_lmin st) acc d).
Proof.
  intros HD Hd HA. unfold parents_step. apply Forall_app. split; [exact HA|].
  apply Forall_forall. intros e' He'. apply in_flat_map in He'. destruct He' as [e [He Hin]].
  rewrite Forall_forall in HA. destruct (HA e He) as [pc [Hpc Elv]].
  destruct (parent_key (cs_a st) (cs_b st) (cs_lmin st) d (snd (fst e)) (fst (fst e))) as [p|] eqn:Ep; [|destruct Hin].
  destruct Hin as [<-|[]]. destruct (find_cell_some _ _ _ Hpc) as [Ipc Kpc].
  assert (Ep' : parent_key (cs_a st) (cs_b st) (cs_lmin st) d (c_lv pc) (ckey pc) = Some p) by (rewrite Elv, Kpc; exact Ep).
  destruct (d_par st HD pc d p Ipc Hd Ep') as [ppc Hppc]. exists ppc. split; [exact Hppc|]. cbn [fst snd].
  destruct (find_cell_some _ _ _ Hppc) as [Ippc Kppc].
  pose proof (d_wl st HD pc Ipc) as Wpc. pose proof (d_wl st HD ppc Ippc) as Wppc. rewrite Kppc in Wppc.
  rewrite <- Elv. apply (parent_levels (cs_a st) (cs_b st) (cs_dim st) (d_ab st HD) (cs_lmin st) d (c_lv pc) (ckey pc) p (c_lv ppc) Wpc Hd (d_lmin st HD) Ep' Wppc).
Qed.

Lemma relevant_parents_found st k c : DInv st -> find_cell k (cs_dict st) = Some c ->
  Forall (entry_found st) (relevant_parents (cs_a st) (cs_b st) (cs_lmin st) (cs_dim st) k (c_lv c)).
Proof.
  intros HD Hc. unfold relevant_parents.
  assert (G : forall n d0 acc, (d0 + n = cs_dim st)%nat -> Forall (entry_found st) acc ->
              Forall (entry_found st) (fold_left (parents_step (cs_a st) (cs_b st) (cs_lmin st)) (seq d0 n) acc)).
  { induction n as [|n IH]; intros d0 acc E HA; [exact HA|]. cbn [seq fold_left]. apply IH; [lia|]. apply parents_step_found; [exact HD | lia | exact HA]. }
  apply (G (cs_dim st) 0%nat); [reflexivity|]. constructor; [|constructor]. exists c. split; [exact Hc | reflexivity].
Qed.

Lemma sum_optQ_all_some {A} (g : A -> option Qc) l : (forall x, In x l -> exists v, g x = Some v) -> exists v, sum_optQ (map g l) = Some v.
Proof.
  induction l as [|x l IH]; intro H; [exists 0%Qc; reflexivity|]. simpl.
  destruct (H x (or_introl eq_refl)) as [v Hv]. rewrite Hv. destruct (IH (fun y Hy => H y (or_intror Hy))) as [w Hw]. rewrite Hw. eexists. reflexivity.
Qed.

(* no KeyError: the evaluation of every function returns a value *)
Theorem cell_integral_defined st f : DInv st -> (forall k, In k (cs_objs st) -> exists c, find_cell k (cs_dict st) = Some c) ->
  exists v, cell_integral st f = Some v.
Proof.
  intros HD Hobj. unfold cell_integral. apply sum_optQ_all_some. intros k Hk. destruct (Hobj k Hk) as [c Hc].
  unfold cell_contribution. rewrite Hc. apply sum_optQ_all_some. intros e He.
  pose proof (relevant_parents_found st k c HD Hc) as F. rewrite Forall_forall in F. destruct (F e He) as [pc [Hpc _]]. rewrite Hpc. eexists. reflexivity.
Qed.

(* ---------------------------------------------------------------- verified checker for DInv of a state (used for the initial state) *)
Definition dinv_okb (st : cstate) : bool :=
  wfboxb (cs_a st) (cs_b st) && Nat.eqb (length (cs_a st)) (cs_dim st) && (0 <=? cs_lmin st) &&
  forallb (fun c => Nat.eqb (length (c_lv c)) (cs_dim st) && Nat.eqb (length (c_s c)) (cs_dim st) && Nat.eqb (length (c_e c)) (cs_dim st) &&
                    forallb (fun d => (0 <=? nth d (c_lv c) 0) &&
                                      Qc_eqb (width (ckey c) d * qc_pow2 (nth d (c_lv c) 0%Z))%Qc (nth d (cs_b st) 0 - nth d (cs_a st) 0)%Qc &&
                                      match parent_key (cs_a st) (cs_b st) (cs_lmin st) d (c_lv c) (ckey c) with
                                      | Some p => match find_cell p (cs_dict st) with Some _ => true | None => false end
                                      | None => true end)
                            (seq 0 (cs_dim st)))
          (cs_dict st).

Lemma dinv_okb_sound st : dinv_okb st = true -> DInv st.
Proof.
  unfold dinv_okb. intro H. apply andb_true_iff in H. destruct H as [H Hd]. apply andb_true_iff in H. destruct H as [H Hl].
  apply andb_true_iff in H. destruct H as [Hw Hla]. apply wfboxb_sound in Hw. apply Nat.eqb_eq in Hla. apply Z.leb_le in Hl.
  rewrite forallb_forall in Hd.
  assert (Q : forall c, In c (cs_dict st) -> cWL (cs_a st) (cs_b st) (cs_dim st) (ckey c) (c_lv c) /\
              forall d p, (d < cs_dim st)%nat -> parent_key (cs_a st) (cs_b st) (cs_lmin st) d (c_lv c) (ckey c) = Some p ->
                          exists pc, find_cell p (cs_dict st) = Some pc).
  { intros c Hc. specialize (Hd c Hc). apply andb_true_iff in Hd. destruct Hd as [Hd H4]. apply andb_true_iff in Hd. destruct Hd as [Hd H3].
    apply andb_true_iff in Hd. destruct Hd as [H1 H2]. apply Nat.eqb_eq in H1. apply Nat.eqb_eq in H2. apply Nat.eqb_eq in H3.
    rewrite forallb_forall in H4. split.
    - split; [exact H1 | split; [exact H2 | split; [exact H3|]]]. intros d Hdd. specialize (H4 d ltac:(apply in_seq; lia)).
      apply andb_true_iff in H4. destruct H4 as [H4 _]. apply andb_true_iff in H4. destruct H4 as [A B]. split; [apply Z.leb_le; exact A | apply Qc_eqb_eq; exact B].
    - intros d p Hdd Hp. specialize (H4 d ltac:(apply in_seq; lia)). apply andb_true_iff in H4. destruct H4 as [_ C]. rewrite Hp in C.
      destruct (find_cell p (cs_dict st)) as [pc|]; [exists pc; reflexivity | discriminate]. }
  constructor.
  - intros d Hdd. apply wfbox_nth; [exact Hw | lia].
  - exact Hl.
  - intros c Hc. apply (Q c Hc).
  - intros c d p Hc Hdd Hp. apply (proj2 (Q c Hc) d p Hdd Hp).
Qed.

(* ---------------------------------------------------------------- total exactness: value AND definedness *)
Theorem cell_multilinear_exact_total dim lmin a b rounds ex :
  cell_init_okb dim lmin a b = true -> dinv_okb (cell_init dim lmin a b) = true ->
  length ex = dim -> Forall (fun n => (n <= 1)%nat) ex ->
  cell_integral (cell_run (cell_init dim lmin a b) rounds) (monomial ex) = Some (bmom a b ex).
Proof.
  intros Hok Hok2 Lx Fx. destruct (cell_init_fields dim lmin a b) as [E1 _].
  assert (HI : CInv ex (cell_run (cell_init dim lmin a b) rounds)).
  { apply cell_run_inv. apply cstate_okb_sound; [exact Hok | rewrite E1; exact Lx | exact Fx]. }
  assert (HD : DInv (cell_run (cell_init dim lmin a b) rounds)) by (apply cell_run_dinv; apply dinv_okb_sound; exact Hok2).
  destruct (cell_integral_defined _ (monomial ex) HD) as [v Hv].
  { intros k Hk. destruct (ci_objs ex _ HI k Hk) as [c [Hc _]]. exists c. exact Hc. }
  rewrite Hv. f_equal. exact (cell_multilinear_exact dim lmin a b rounds ex v Hok Lx Fx Hv).
Qed.
