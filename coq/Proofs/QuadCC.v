(* C08: Clenshaw-Curtis closed-form weights (ClenshawCurtisGrid1D.get_1d_weight) for the levels whose ingredients are
   rational: level 0 (2 points), level 1 (3 points: nodes and weights rational), level 2 (5 points: weights
   rational, the two inner nodes are +-cos(pi/4)).  Each on EVERY sub-box by the affine-transport theorem. *)
From Coq Require Import ZArith List QArith Qcanon Bool Arith Lia.
From SG Require Import Base.QcUtil Model.Tensor Model.LocalGrids Model.LocalRules Proofs.TensorRule
  Proofs.LocalGridsBase Proofs.QuadPoly Proofs.QuadAffine.
Import ListNotations.
Open Scope Qc_scope.

Definition q (a b : Z) : Qc := Q2Qc (a # Z.to_pos b).

(* ---- the weight factors the code computes ---- *)
Lemma cc_factors_level0 C : map (cc_factor 2 C) (seq 0 2) = [1; 1].
Proof. reflexivity. Qed.

Lemma cc_factors_level1 C : C 1%nat = -(1) -> map (cc_factor 3 C) (seq 0 3) = [q 1 3; q 4 3; q 1 3].
Proof.
  intro H1. cbn [seq map]. unfold cc_factor. cbn [Nat.ltb Nat.leb Nat.eqb orb Nat.sub Nat.div Nat.divmod fst seq map sumQ].
  unfold cc_term. cbn [Nat.mul Nat.add Nat.eqb Nat.sub Nat.div Nat.divmod fst]. rewrite H1.
  repeat f_equal; apply Qc_is_canon; vm_compute; reflexivity.
Qed.

Lemma cc_factors_level2 C : C 1%nat = 0 -> C 2%nat = -(1) -> C 3%nat = 0 -> C 4%nat = 1 -> C 6%nat = -(1) ->
  map (cc_factor 5 C) (seq 0 5) = [q 1 15; q 8 15; q 4 5; q 8 15; q 1 15].
Proof.
  intros H1 H2 H3 H4 H6. cbn [seq map]. unfold cc_factor.
  cbn [Nat.ltb Nat.leb Nat.eqb orb Nat.sub Nat.div Nat.divmod fst seq map sumQ].
  unfold cc_term. cbn [Nat.mul Nat.add Nat.eqb Nat.sub Nat.div Nat.divmod fst]. rewrite H1, H2, H3, H4, H6.
  repeat f_equal; apply Qc_is_canon; vm_compute; reflexivity.
Qed.

(* ---- reference rules on [-1,1] ---- *)
Lemma exact1_by_cases c w s e k : (forall j, (j <= k)%nat -> apply1 (mono j) c w = mint j s e) -> exact1 c w s e k.
Proof. intros H j Hj. apply H. assumption. Qed.

Lemma cc_ref_level0 : exact1 (map Qcopp [1; -(1)]) [1; 1] (-(1)) 1 1.
Proof.
  intros j Hj. destruct j as [|[|j]]; [| |lia]; apply Qc_is_canon; vm_compute; reflexivity.
Qed.

Lemma cc_ref_level1 : exact1 (map Qcopp [1; 0; -(1)]) [q 1 3; q 4 3; q 1 3] (-(1)) 1 3.
Proof.
  intros j Hj. destruct j as [|[|[|[|j]]]]; [| | | |lia]; apply Qc_is_canon; vm_compute; reflexivity.
Qed.

(* level 0: the 2-point rule is exact for degree 1 = n-1 on every sub-box *)
Theorem cc_level0_exact K C s e : K 0%nat = 1 -> K 1%nat = -(1) ->
  exact1 (cc_rule_pts 2 0 2 K s e) (cc_rule_wts 2 0 2 C s e) s e 1.
Proof.
  intros K0 K1. unfold cc_rule_pts, cc_rule_wts. rewrite cc_factors_level0. cbn [seq map]. rewrite K0, K1.
  apply cc_map_exact. exact cc_ref_level0.
Qed.

(* level 1: the 3-point rule is exact for degree 3 (>= n-1 = 2) on every sub-box *)
Theorem cc_level1_exact K C s e : K 0%nat = 1 -> K 1%nat = 0 -> K 2%nat = -(1) -> C 1%nat = -(1) ->
  exact1 (cc_rule_pts 3 0 3 K s e) (cc_rule_wts 3 0 3 C s e) s e 3.
Proof.
  intros K0 K1 K2 C1. unfold cc_rule_pts, cc_rule_wts. rewrite (cc_factors_level1 C C1). cbn [seq map].
  rewrite K0, K1, K2. apply cc_map_exact. exact cc_ref_level1.
Qed.

(* level 2: weights 1/15, 8/15, 4/5, 8/15, 1/15; the inner nodes are -+r with r = cos(pi/4), i.e. 2 r^2 = 1.
   On the reference interval the moment residual of degree k <= 5 is a multiple of the node equation 2 r^2 - 1
   (identities in r, so they hold in every field containing sqrt(1/2)). *)
Definition cc5_nodes (r : Qc) : list Qc := map Qcopp [1; r; 0; - r; -(1)].
Definition cc5_weights : list Qc := [q 1 15; q 8 15; q 4 5; q 8 15; q 1 15].
Definition cc5_cofactor (k : nat) (r : Qc) : Qc :=
  match k with
  | 2%nat => q 8 15
  | 4%nat => q 4 15 * (Qc2 * r * r + 1)
  | _ => 0
  end.

Theorem cc_level2_defect r k : (k <= 5)%nat ->
  apply1 (mono k) (cc5_nodes r) cc5_weights - mint k (-(1)) 1 = (Qc2 * r * r - 1) * cc5_cofactor k r.
Proof.
  intro Hk. unfold cc5_nodes, cc5_weights, apply1, mono, mint, cc5_cofactor. cbn [map dotQ].
  assert (E15 : q 1 15 = / (qn 15)) by (apply Qc_is_canon; vm_compute; reflexivity).
  assert (E815 : q 8 15 = qn 8 * / (qn 15)) by (apply Qc_is_canon; vm_compute; reflexivity).
  assert (E45 : q 4 5 = qn 12 * / (qn 15)) by (apply Qc_is_canon; vm_compute; reflexivity).
  assert (E415 : q 4 15 = qn 4 * / (qn 15)) by (apply Qc_is_canon; vm_compute; reflexivity).
  assert (N15 : qn 15 <> 0) by apply qn_S_neq0.
  assert (Q15 : qn 15 = 1+1+1+1+1+1+1+1+1+1+1+1+1+1+1) by (apply Qc_is_canon; vm_compute; reflexivity).
  assert (Q12 : qn 12 = 1+1+1+1+1+1+1+1+1+1+1+1) by (apply Qc_is_canon; vm_compute; reflexivity).
  assert (Q8 : qn 8 = 1+1+1+1+1+1+1+1) by (apply Qc_is_canon; vm_compute; reflexivity).
  assert (Q6 : qn 6 = 1+1+1+1+1+1) by (apply Qc_is_canon; vm_compute; reflexivity).
  assert (Q5 : qn 5 = 1+1+1+1+1) by (apply Qc_is_canon; vm_compute; reflexivity).
  assert (Q2 : qn 2 = 1+1) by (apply Qc_is_canon; vm_compute; reflexivity).
  rewrite E15, E815, E45, E415, Qc2_eq.
  destruct k as [|[|[|[|[|[|k]]]]]]; [| | | | | |lia]; cbn [Qcpower];
    rewrite ?qn_1, ?Q2, ?qn_3, ?qn_4, ?Q5, ?Q6, ?Q8, ?Q12, ?Q15 in *; field;
    repeat split; try discriminate; try assumption.
Qed.

(* ---- Gauss-Legendre for the two smallest rules the grid can produce (level 0: 2 points, level 1: 3 points) ----
   numpy's table is (-r, r) with weights (1, 1), r = 1/sqrt 3, and (-r, 0, r) with weights (5/9, 8/9, 5/9), r = sqrt(3/5).
   On the reference interval the moment residual of every degree k <= 2n-1 is a multiple of the node equation. *)
Definition gl2_cofactor (k : nat) (r : Qc) : Qc := match k with 2%nat => q 2 3 | _ => 0 end.
Theorem gl2_defect r k : (k <= 3)%nat ->
  apply1 (mono k) [- r; r] [1; 1] - mint k (-(1)) 1 = (qn 3 * r * r - 1) * gl2_cofactor k r.
Proof.
  intro Hk. unfold apply1, mono, mint, gl2_cofactor. cbn [map dotQ].
  assert (E23 : q 2 3 = qn 2 * / qn 3) by (apply Qc_is_canon; vm_compute; reflexivity).
  assert (Q2 : qn 2 = 1+1) by (apply Qc_is_canon; vm_compute; reflexivity).
  rewrite E23.
  destruct k as [|[|[|[|k]]]]; [| | | |lia]; cbn [Qcpower]; rewrite ?qn_1, ?Q2, ?qn_3, ?qn_4 in *; field;
    repeat split; try discriminate.
Qed.

Definition gl3_weights : list Qc := [q 5 9; q 8 9; q 5 9].
Definition gl3_cofactor (k : nat) (r : Qc) : Qc :=
  match k with 2%nat => q 2 9 | 4%nat => q 2 45 * (qn 5 * r * r + qn 3) | _ => 0 end.
Theorem gl3_defect r k : (k <= 5)%nat ->
  apply1 (mono k) [- r; 0; r] gl3_weights - mint k (-(1)) 1 = (qn 5 * r * r - qn 3) * gl3_cofactor k r.
Proof.
  intro Hk. unfold apply1, mono, mint, gl3_cofactor, gl3_weights. cbn [map dotQ].
  assert (E59 : q 5 9 = qn 5 * / qn 9) by (apply Qc_is_canon; vm_compute; reflexivity).
  assert (E89 : q 8 9 = qn 8 * / qn 9) by (apply Qc_is_canon; vm_compute; reflexivity).
  assert (E29 : q 2 9 = qn 2 * / qn 9) by (apply Qc_is_canon; vm_compute; reflexivity).
  assert (E245 : q 2 45 = qn 2 * / (qn 9 * qn 5)) by (apply Qc_is_canon; vm_compute; reflexivity).
  assert (Q9 : qn 9 = 1+1+1+1+1+1+1+1+1) by (apply Qc_is_canon; vm_compute; reflexivity).
  assert (Q8 : qn 8 = 1+1+1+1+1+1+1+1) by (apply Qc_is_canon; vm_compute; reflexivity).
  assert (Q6 : qn 6 = 1+1+1+1+1+1) by (apply Qc_is_canon; vm_compute; reflexivity).
  assert (Q5 : qn 5 = 1+1+1+1+1) by (apply Qc_is_canon; vm_compute; reflexivity).
  assert (Q2 : qn 2 = 1+1) by (apply Qc_is_canon; vm_compute; reflexivity).
  rewrite E59, E89, E29, E245.
  destruct k as [|[|[|[|[|[|k]]]]]]; [| | | | | |lia]; cbn [Qcpower];
    rewrite ?qn_1, ?Q2, ?qn_3, ?qn_4, ?Q5, ?Q6, ?Q8, ?Q9 in *; field; repeat split; try discriminate.
Qed.
