(* Facts about the uniform dyadic 1D grids of Model/StdCombi.v: point counts, membership, nestedness. *)
From Coq Require Import ZArith List Bool QArith Qcanon Lia.
From SG Require Import Base.QcUtil Model.CombiScheme Model.StdCombi Proofs.SchemeBasics.
Import ListNotations.

Local Open Scope Z_scope.

Lemma qc_of_Z_mul x y : qc_of_Z (x * y) = (qc_of_Z x * qc_of_Z y)%Qc.
Proof.
  unfold qc_of_Z. apply Qc_is_canon. unfold Qcmult, Q2Qc; cbn [this].
  rewrite !Qred_correct. rewrite inject_Z_mult. reflexivity.
Qed.

Lemma qc_of_Z_nonzero x : x <> 0 -> qc_of_Z x <> Q2Qc 0.
Proof.
  intros H E. unfold qc_of_Z in E. apply (f_equal this) in E. cbn [this Q2Qc] in E.
  assert (Qred (inject_Z x) == Qred 0)%Q as E' by (rewrite E; reflexivity).
  rewrite !Qred_correct in E'. unfold Qeq, inject_Z in E'. simpl in E'. lia.
Qed.

Lemma pow2_pos l : 0 <= l -> 0 < 2 ^ l.
Proof. intro H. apply Z.pow_pos_nonneg; lia. Qed.

Lemma pow2_split l l' : 0 <= l -> l <= l' -> 2 ^ l' = 2 ^ l * 2 ^ (l' - l).
Proof. intros H1 H2. rewrite <- Z.pow_add_r by lia. f_equal. lia. Qed.

(* membership in the full grid *)
Definition gpoint (a b : Qc) (l : Z) (i : Z) : Qc := (a + qc_of_Z i * ((b - a) / qc_of_Z (2 ^ l)))%Qc.

Lemma grid1_full_In a b l x : In x (grid1_full a b l) <-> exists i, 0 <= i <= 2 ^ l /\ x = gpoint a b l i.
Proof.
  unfold grid1_full. rewrite in_map_iff. split.
  - intros [i [E Hi]]. apply zrange_In in Hi. exists i. split; [lia|]. symmetry. exact E.
  - intros [i [Hi E]]. exists i. split; [symmetry; exact E|]. apply zrange_In. lia.
Qed.

Lemma gpoint_refine a b l l' i : 0 <= l -> l <= l' -> gpoint a b l i = gpoint a b l' (i * 2 ^ (l' - l)).
Proof.
  intros H1 H2. unfold gpoint. rewrite (pow2_split l l' H1 H2). rewrite !qc_of_Z_mul. f_equal.
  assert (qc_of_Z (2 ^ l) <> Q2Qc 0) as N1 by (apply qc_of_Z_nonzero; pose proof (pow2_pos l H1); lia).
  assert (qc_of_Z (2 ^ (l' - l)) <> Q2Qc 0) as N2 by (apply qc_of_Z_nonzero; pose proof (pow2_pos (l' - l)); lia).
  field. split; assumption.
Qed.

Lemma grid1_full_nested a b l l' : 0 <= l -> l <= l' -> incl (grid1_full a b l) (grid1_full a b l').
Proof.
  intros H1 H2 x Hx. apply grid1_full_In in Hx. destruct Hx as [i [Hi ->]]. apply grid1_full_In.
  exists (i * 2 ^ (l' - l)). split; [|apply gpoint_refine; assumption].
  rewrite (pow2_split l l' H1 H2). pose proof (pow2_pos (l' - l)). split; nia.
Qed.

(* list surgery for strip_ends *)
Lemma removelast_map {A B} (f : A -> B) l : removelast (map f l) = map f (removelast l).
Proof. induction l as [|x [|y l] IH]; simpl; try reflexivity. f_equal. exact IH. Qed.

Lemma tl_map {A B} (f : A -> B) l : tl (map f l) = map f (tl l).
Proof. destruct l; reflexivity. Qed.

Lemma removelast_seq s n : removelast (seq s (S n)) = seq s n.
Proof.
  revert s. induction n as [|n IH]; intro s; [reflexivity|].
  change (seq s (S (S n))) with (s :: seq (S s) (S n)).
  change (removelast (s :: seq (S s) (S n))) with (s :: removelast (seq (S s) (S n))).
  rewrite IH. reflexivity.
Qed.

Lemma strip_ends_zrange_map {B} (f : Z -> B) n : 1 <= n ->
  strip_ends (map f (zrange (n + 1))) = map (fun i => f (i + 1)) (zrange (n - 1)).
Proof.
  intro H. unfold strip_ends, zrange. rewrite tl_map, removelast_map, tl_map, removelast_map.
  replace (Z.to_nat (n + 1)) with (S (S (Z.to_nat (n - 1)))) by lia.
  change (tl (seq 0 (S (S (Z.to_nat (n - 1)))))) with (seq 1 (S (Z.to_nat (n - 1)))).
  rewrite removelast_seq. rewrite !map_map. rewrite <- seq_shift. rewrite map_map.
  apply map_ext. intro i. f_equal. lia.
Qed.

Lemma grid1_In bd a b l x : 0 <= l ->
  (In x (grid1 bd a b l) <-> exists i, (if bd then 0 else 1) <= i <= 2 ^ l - (if bd then 0 else 1) /\ x = gpoint a b l i).
Proof.
  intro Hl. unfold grid1. destruct bd.
  - rewrite grid1_full_In. split; intros [i [Hi E]]; exists i; split; try assumption; lia.
  - unfold grid1_full. rewrite strip_ends_zrange_map by (pose proof (pow2_pos l Hl); lia).
    rewrite in_map_iff. split.
    + intros [i [E Hi]]. apply zrange_In in Hi. exists (i + 1). split; [lia|]. symmetry. exact E.
    + intros [i [Hi E]]. exists (i - 1). split; [|apply zrange_In; lia].
      replace (i - 1 + 1) with i by lia. symmetry. exact E.
Qed.

Theorem grid1_nested bd a b l l' : 0 <= l -> l <= l' -> incl (grid1 bd a b l) (grid1 bd a b l').
Proof.
  intros H1 H2 x Hx. apply grid1_In in Hx; [|assumption]. destruct Hx as [i [Hi ->]].
  apply grid1_In; [lia|]. exists (i * 2 ^ (l' - l)). split; [|apply gpoint_refine; assumption].
  rewrite (pow2_split l l' H1 H2). pose proof (pow2_pos (l' - l)). pose proof (pow2_pos l H1).
  destruct bd; split; nia.
Qed.

Theorem grid1_length bd a b l : 1 <= l -> Z.of_nat (length (grid1 bd a b l)) = num_points_1d bd l.
Proof.
  intro Hl. pose proof (pow2_pos l). unfold grid1, num_points_1d. destruct bd.
  - unfold grid1_full, zrange. rewrite !map_length, seq_length. lia.
  - unfold grid1_full. rewrite strip_ends_zrange_map by lia. unfold zrange. rewrite !map_length, seq_length. lia.
Qed.

Theorem weights1_length bd a b l : 1 <= l -> Z.of_nat (length (weights1 bd a b l)) = num_points_1d bd l.
Proof.
  intro Hl. pose proof (pow2_pos l). unfold weights1, num_points_1d.
  set (n := Z.to_nat (2 ^ l + 1)).
  assert (n = S (S (Z.to_nat (2 ^ l - 1)))) as En by (unfold n; lia).
  destruct bd.
  - rewrite map_length, seq_length. unfold n. lia.
  - unfold strip_ends. rewrite tl_map, removelast_map, map_length. rewrite En.
    change (tl (seq 0 (S (S (Z.to_nat (2 ^ l - 1)))))) with (seq 1 (S (Z.to_nat (2 ^ l - 1)))).
    rewrite removelast_seq, seq_length. lia.
Qed.
