#!/usr/bin/env python3
"""Assembles known_findings.json from findings/Cxx.json fragments (development-time tool; never run by checks)."""
import json, os, glob
R = os.path.dirname(os.path.abspath(__file__))
out = []
for f in sorted(glob.glob(os.path.join(R, 'findings', 'C*.json'))):
    out += json.load(open(f))
json.dump(out, open(os.path.join(R, 'known_findings.json'), 'w'), indent=1)
print(len(out), 'findings')
