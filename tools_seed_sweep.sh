#!/bin/bash
# tools_seed_sweep.sh [Cxx ...] : re-verify every stored seeded change of the given properties (default: all) against the
# CURRENT /repo HEAD and the CURRENT checks, sequentially; one summary line per seed in seeded/SWEEP.log.
cd /verif
PROPS=${@:-$(seq -f 'C%02g' 1 20)}
for p in $PROPS; do
  for d in seeded/$p seeded/${p}r*; do
    [ -f $d/patch.diff ] || continue
    n=$(basename $d)
    r=$(VERIF_NPROC=${VERIF_NPROC:-6} ./tools_seed.sh $p $n 2>&1 | grep '^{"repo_head"' | tail -1)
    echo "$(date +%H:%M) $n $r" >> seeded/SWEEP.log
  done
done
