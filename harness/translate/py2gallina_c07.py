#!/usr/bin/env python3
"""Source-derived model for property C07: the DECISION ARITHMETIC of SpatiallyAdaptiveExtendScheme.coarsen_grid
(sparseSpACE/spatiallyAdaptiveExtendSplit.py) -> coq/Gen/CoarsenGridGen.v.

Own small fail-closed front end (Python `ast` -> Gallina over Z / bool).  coarsen_grid as a whole (list mutation, while/break, the
per-area dictionary) stays hand-modelled (coq/Model/ExtendSplit.v, coq/Model/ESV3.v) and tied by the correspondence of every run; this
front end cuts the integer / boolean EXPRESSIONS that decide what the loops do out of the AST of the method and translates them as they
stand:
  version 0   the test of `if temp2[0] - temp2[1] < coarsening:`                                   -> gen_v0_null_test
  version 3   num_sub_diagonal, the assert, the test `temp[currentDirection] > self.lmin[currentDirection]`, the update of
              currentDirection                                       -> gen_v3_num_sub_diagonal, gen_v3_assert, gen_v3_can_lower, gen_v3_next_direction
  versions 1,2  num_sub_diagonal, the assert, is_top_diag, no_forward_problem and do_coarsen of both versions
                                     -> gen_num_sub_diagonal, gen_assert, gen_is_top_diag, gen_nfp_v1, gen_do_coarsen_v1, gen_nfp_v2, gen_do_coarsen_v2
  all         the element expression of level_coarse                                               -> gen_level_coarse_entry
Leaves (attribute reads, subscripts, locals) become parameters of the generated definitions, in a fixed order and only those that occur
- a different leaf (e.g. `coarsening` instead of `coarsening_save`) changes the signature and breaks coq/Proofs/GenCoarsenGridEq.v.
The frame is checked structurally (branch tests `self.version == 0` / `== 3` / `== 1`, loop tests `coarsening > 0`, maxLevel = max(temp),
the statements that consume the translated values); anything unexpected rejects: exit 1 and a generated file that does not compile.
Python ints are Z, `%` is Z.modulo (floor, as in Python), a bool used as a number is b2z.
Usage: py2gallina_c07.py [--repo DIR] [--out FILE] [--stdout]      (VERIF_REPO is respected)"""
import ast
import os
import sys

ROOT = os.path.dirname(os.path.dirname(os.path.dirname(os.path.abspath(__file__))))
SRC = 'sparseSpACE/spatiallyAdaptiveExtendSplit.py'
CLASS, METHOD = 'SpatiallyAdaptiveExtendScheme', 'coarsen_grid'


class Reject(Exception):
    def __init__(self, node, msg):
        Exception.__init__(self, '%s:%s: %s' % (SRC, getattr(node, 'lineno', '?'), msg))


def txt(n):
    return ast.unparse(n)


# leaf text -> (Gallina parameter, type)      (order = parameter order of the generated definitions)
LEAVES = [('self.version', 'version', 'Z'), ('self.dim', 'dim', 'Z'), ('self.lmax[0]', 'lmax', 'Z'), ('self.lmin[0]', 'lmin', 'Z'),
          ('np.sum(levelvector)', 'sum_levelvector', 'Z'), ('num_sub_diagonal', 'num_sub_diagonal', 'Z'),
          ('coarsening_save', 'coarsening_save', 'Z'), ('coarsening', 'coarsening', 'Z'), ('maxLevel', 'maxLevel', 'Z'),
          ('occurences_of_max', 'occurences_of_max', 'Z'), ('is_top_diag', 'is_top_diag', 'bool'),
          ('no_forward_problem', 'no_forward_problem', 'bool'), ('len(temp2)', 'len_temp', 'Z'), ('temp2[0]', 't0', 'Z'), ('temp2[1]', 't1', 'Z'),
          ('temp[currentDirection]', 'temp_cur', 'Z'), ('self.lmin[currentDirection]', 'lmin_cur', 'Z'),
          ('currentDirection', 'currentDirection', 'Z'), ('temp[d]', 'temp_d', 'Z'), ('self.lmin[d]', 'lmin_d', 'Z'),
          ('self.noInitialSplitting', 'noInitialSplitting', 'bool')]
LEAF = {t: (g, ty) for t, g, ty in LEAVES}
ARITH = {ast.Add: '+', ast.Sub: '-', ast.Mult: '*'}
CMP = {ast.Lt: '<?', ast.Gt: '>?', ast.GtE: '>=?', ast.LtE: '<=?', ast.Eq: '=?'}


class Expr(object):
    """translates one expression; records the leaves it uses"""
    def __init__(self):
        self.used = []

    def leaf(self, n):
        g, ty = LEAF[txt(n)]
        if g not in self.used:
            self.used.append(g)
        return g, ty

    def z(self, n):
        s, ty = self.tr(n)
        return s if ty == 'Z' else '(b2z %s)' % s

    def b(self, n):
        s, ty = self.tr(n)
        if ty != 'bool':
            raise Reject(n, 'an integer is used as a truth value: ' + txt(n))
        return s

    def tr(self, n):
        if txt(n) in LEAF and isinstance(n, (ast.Name, ast.Attribute, ast.Subscript, ast.Call)):
            return self.leaf(n)
        if isinstance(n, ast.Constant) and type(n.value) is int:
            return (str(n.value) if n.value >= 0 else '(%d)' % n.value), 'Z'
        if isinstance(n, ast.BinOp) and type(n.op) in ARITH:
            return '(%s %s %s)' % (self.z(n.left), ARITH[type(n.op)], self.z(n.right)), 'Z'
        if isinstance(n, ast.BinOp) and isinstance(n.op, ast.Mod):
            return '(Z.modulo %s %s)' % (self.z(n.left), self.z(n.right)), 'Z'
        if isinstance(n, ast.Compare) and len(n.ops) == 1 and type(n.ops[0]) in CMP:
            return '(%s %s %s)' % (self.z(n.left), CMP[type(n.ops[0])], self.z(n.comparators[0])), 'bool'
        if isinstance(n, ast.BoolOp) and isinstance(n.op, ast.And):
            return '(' + ' && '.join(self.b(v) for v in n.values) + ')', 'bool'
        if isinstance(n, ast.Call) and txt(n.func) == 'int' and len(n.args) == 1 and not n.keywords:
            return self.z(n.args[0]), 'Z'
        raise Reject(n, 'expression outside the translated subset: ' + txt(n))


DEFS = []


def define(name, node, want, at=None):
    e = Expr()
    s, ty = e.tr(node)
    if ty != want:
        raise Reject(node, '%s: expected a %s expression, got %s: %s' % (name, want, ty, txt(node)))
    order = [g for _, g, _ in LEAVES if g in e.used]
    types = {g: t for _, g, t in LEAVES}
    params = ' '.join('(%s : %s)' % (g, types[g]) for g in order)
    at = at or node
    DEFS.append('(* %s:%d-%d  %s *)\n(* | %s *)\nDefinition %s %s : %s := %s.\n'
                % (SRC, at.lineno, getattr(at, 'end_lineno', at.lineno), name, txt(node).replace('(*', '( *').replace('*)', '* )'),
                   name, params, want, s))


def need(cond, node, msg):
    if not cond:
        raise Reject(node, msg)


def only(stmts, kind, pred, node, what):
    found = [s for s in stmts if isinstance(s, kind) and pred(s)]
    need(len(found) == 1, node, 'expected exactly one %s, found %d' % (what, len(found)))
    return found[0]


def assign_to(stmts, name, node):
    a = only(stmts, ast.Assign, lambda s: len(s.targets) == 1 and txt(s.targets[0]) == name, node, 'assignment to ' + name)
    return a


def translate(tree):
    cls = only(tree.body, ast.ClassDef, lambda c: c.name == CLASS, tree, 'class ' + CLASS)
    fn = only(cls.body, ast.FunctionDef, lambda f: f.name == METHOD, cls, 'method ' + METHOD)
    need([a.arg for a in fn.args.args] == ['self', 'levelvector', 'area'], fn, 'signature of coarsen_grid changed')
    # the locals the expressions read are bound as the model assumes
    need(txt(assign_to(fn.body, 'coarsening', fn).value) == 'area.coarseningValue', fn, 'coarsening is not area.coarseningValue')
    need(txt(assign_to(fn.body, 'temp', fn).value) == 'list(levelvector)', fn, 'temp is not list(levelvector)')
    need(txt(assign_to(fn.body, 'coarsening_save', fn).value) == 'coarsening', fn, 'coarsening_save is not the initial coarsening')
    top = only(fn.body, ast.If, lambda s: txt(s.test) == 'self.version == 0', fn, '`if self.version == 0`')
    need(len(top.orelse) == 1 and isinstance(top.orelse[0], ast.If) and txt(top.orelse[0].test) == 'self.version == 3', top,
         'the branch after version 0 is not `elif self.version == 3`')
    v3, v12 = top.orelse[0].body, top.orelse[0].orelse
    need(v12, top, 'no else branch for versions 1 and 2')
    # ---- version 0
    need(txt(assign_to(top.body, 'temp2', top).value) in ('list(reversed(sorted(list(temp))))', 'sorted(temp, reverse=True)'), top,
         'temp2 is not the descending sort of temp')
    t0 = only(top.body, ast.If, lambda s: True, top, 'if statement in the version-0 branch')
    define('gen_v0_null_test', t0.test, 'bool')
    # ---- version 3
    define('gen_v3_num_sub_diagonal', assign_to(v3, 'num_sub_diagonal', top).value, 'Z')
    define('gen_v3_assert', only(v3, ast.Assert, lambda s: True, top, 'assert in the version-3 branch').test, 'bool')
    need(txt(assign_to(v3, 'currentDirection', top).value) == '0', top, 'currentDirection does not start at 0')
    w3 = only(v3, ast.While, lambda s: txt(s.test) == 'coarsening > 0', top, '`while coarsening > 0` in the version-3 branch')
    i3 = only(w3.body, ast.If, lambda s: True, w3, 'if statement in the version-3 loop')
    need([txt(s) for s in i3.body] == ['temp[currentDirection] -= 1'] and not i3.orelse, i3, 'the version-3 loop does not lower temp[currentDirection] by 1')
    define('gen_v3_can_lower', i3.test, 'bool')
    need(sum(1 for s in w3.body if txt(s) == 'coarsening -= 1') == 1, w3, 'the version-3 loop does not consume exactly 1 per round')
    define('gen_v3_next_direction', assign_to(w3.body, 'currentDirection', w3).value, 'Z')
    # ---- versions 1, 2
    define('gen_num_sub_diagonal', assign_to(v12, 'num_sub_diagonal', top).value, 'Z')
    define('gen_assert', only(v12, ast.Assert, lambda s: True, top, 'assert in the branch of versions 1,2').test, 'bool')
    w = only(v12, ast.While, lambda s: txt(s.test) == 'coarsening > 0', top, '`while coarsening > 0` in the branch of versions 1,2')
    need(txt(assign_to(w.body, 'maxLevel', w).value) == 'max(temp)', w, 'maxLevel is not max(temp)')
    occ_ok = any(txt(s) in ('occurences_of_max = temp.count(maxLevel)',) for s in w.body) or (
        any(txt(s) == 'occurences_of_max = 0' for s in w.body) and
        any(isinstance(s, ast.For) and txt(s.iter) == 'temp' and [txt(x) for x in s.body] ==
            ['if %s == maxLevel:\n    occurences_of_max += 1' % txt(s.target)] for s in w.body))
    need(occ_ok, w, 'occurences_of_max is not the number of entries of temp equal to maxLevel')
    define('gen_is_top_diag', assign_to(w.body, 'is_top_diag', w).value, 'bool')
    vi = only(w.body, ast.If, lambda s: txt(s.test) == 'self.version == 1', w, '`if self.version == 1` in the loop')
    need(len(vi.body) == 2 and len(vi.orelse) == 2, vi, 'the version switch does not consist of two assignments per version')
    define('gen_nfp_v1', assign_to(vi.body, 'no_forward_problem', vi).value, 'bool')
    define('gen_do_coarsen_v1', assign_to(vi.body, 'do_coarsen', vi).value, 'bool')
    define('gen_nfp_v2', assign_to(vi.orelse, 'no_forward_problem', vi).value, 'bool')
    define('gen_do_coarsen_v2', assign_to(vi.orelse, 'do_coarsen', vi).value, 'bool')
    dc = only(w.body, ast.If, lambda s: txt(s.test) == 'do_coarsen', w, '`if do_coarsen`')
    need([txt(s) for s in dc.orelse] == ['break'], dc, 'the loop does not stop when do_coarsen is false')
    need(len(dc.body) == 1 and isinstance(dc.body[0], ast.For) and txt(dc.body[0].iter) == 'range(self.dim)' and
         [txt(s) for s in dc.body[0].body] == ['if temp[d] == maxLevel:\n    temp[d] -= 1\n    coarsening -= 1'], dc,
         'a round does not lower every entry equal to maxLevel by 1 at the price of 1 each')
    # ---- level_coarse
    lc = assign_to(fn.body, 'level_coarse', fn).value
    need(isinstance(lc, ast.ListComp) and len(lc.generators) == 1 and txt(lc.generators[0].target) == 'd' and
         txt(lc.generators[0].iter) == 'range(len(temp))' and not lc.generators[0].ifs, lc, 'level_coarse is not a list over range(len(temp))')
    define('gen_level_coarse_entry', lc.elt, 'Z', at=lc)
    need(txt(fn.body[-1]) == 'return (level_coarse, not area_is_null)', fn, 'coarsen_grid does not return (level_coarse, not area_is_null)')


HEADER = '''(* GENERATED by harness/translate/py2gallina_c07.py from %s (class %s, method %s) - do not edit.
   The decision arithmetic of coarsen_grid, expression by expression; the loops around it are coq/Model/ExtendSplit.v / ESV3.v. *)
From Coq Require Import ZArith Bool.
Open Scope Z_scope.
Definition b2z (b : bool) : Z := if b then 1 else 0.

'''


def main(argv):
    repo = os.environ.get('VERIF_REPO', '/repo')
    out = os.path.join(ROOT, 'coq', 'Gen', 'CoarsenGridGen.v')
    stdout = False
    i = 0
    while i < len(argv):
        if argv[i] == '--repo' and i + 1 < len(argv):
            repo = argv[i + 1]; i += 2
        elif argv[i] == '--out' and i + 1 < len(argv):
            out = argv[i + 1]; i += 2
        elif argv[i] == '--stdout':
            stdout = True; i += 1
        else:
            sys.stderr.write(__doc__)
            return 2
    try:
        del DEFS[:]
        translate(ast.parse(open(os.path.join(repo, SRC)).read()))
        text = HEADER % (SRC, CLASS, METHOD) + '\n'.join(DEFS)
        rc = 0
    except (Reject, OSError, SyntaxError, KeyError) as e:
        sys.stderr.write('py2gallina_c07: REJECTED: %s\n' % e)
        text = '(* GENERATED STUB: the translator rejected the source: %s *)\nDefinition rejected : False := I.\n' % str(e).replace('*)', '* )')
        rc = 1
    if stdout:
        sys.stdout.write(text)
        return rc
    old = None
    try:
        old = open(out).read()
    except OSError:
        pass
    if old != text:
        with open(out, 'w') as f:
            f.write(text)
    return rc


if __name__ == '__main__':
    sys.exit(main(sys.argv[1:]))
