#!/venv/bin/python
"""py2gallina_machine.py -- FAIL-CLOSED translator for OBJECT MACHINES: methods of a class whose other (abstract / too big)
methods are PARAMETERS of the generated functions.  Own front end (the shared py2gallina.py is not touched; the semantics are
those of coq/Base/PyLib.v, PyNum.v (floats read as exact rationals Qc) and PyMachine.v (`while True` / `break`)).

Usage:  py2gallina_machine.py --target driver [--repo DIR] [--out FILE] [--stdout]
        DIR defaults to $VERIF_REPO or /repo, FILE to <verif>/coq/Gen/<out of the target>.
Exit 0: FILE holds the translation (rewritten only when changed).  Exit 1: rejected; stderr names file:line and the construct and
FILE becomes a stub that does not compile.

SCHEME.  The generated file is one Coq Section.
  abstract state   `Variable St : Type` - everything of the object that the translated methods reach only through
                   oracles.  An ORACLE METHOD `self.m(args)` declared in the target becomes `Variable m_m : St -> args ->
                   option (result * St)` (None = it raises); keyword arguments and omitted arguments are resolved with the
                   signature READ FROM THE SOURCE where the target says the method is defined (names, order, defaults).  A
                   declared PATH ORACLE `self.a.m()` is `m_a_m`; a declared abstract attribute `self.a` / `self.a.b` is a
                   total projection `g_a : St -> T` / `g_a_b`.  Opaque value types are Section variables `T_<name>`.
  concrete state   record <Class>_t = { a_st : St; f_<attr> : option T }, one field per attribute declared in the target;
                   None = not set yet (reading it raises AttributeError); `self.x = e` sets Some e.  Attributes not declared
                   are rejected.
  method           m (fuel : nat) (self : <Class>_t) (params) : option (result * <Class>_t); fuel bounds the total number of
                   loop iterations of `while True` loops (PyMachine.py_loop; out of fuel = None); m_kw takes `option T` for
                   every parameter with a default value (None = argument not passed) and resolves it with the default
                   of the source, evaluated by the Python interpreter (float defaults as the exact rational of the binary64
                   value, e.g. 10 ** -2).
  statements       as in py2gallina.py (let / bind / if / return / assert / append); `while True:` = py_loop over the
                   variables assigned in its body that exist before it, `break` = LBrk; `x, y = e` unpacks a pair; conditional
                   expressions; `e is None` / `is not None` (on a non-optional value: constant); `X is not None and ..` and
                   `.. if X is not None else ..` narrow X.
  dropped by name  calls of self.log_util.log_info / print(..) (the oracle calls inside their arguments are still executed, in
                   order); self.log_util.time_func(msg, f) is f() (LogUtility.time_func calls f and returns its result);
                   statements listed in `dropped_statements` of the target (by their exact source text); nested `def`s listed in
                   `dropped_defs` (a remaining use of the name is an unknown variable and rejects).
  outside model    an `if` whose test is listed in `unsupported_if` of the target (by exact source text) is NOT translated: it
                   becomes `if [guard] then Fail else [else-branch]` with the guard given in the target - entering such a
                   branch makes the generated function return None, nothing is assumed about it.
Everything else is rejected with file:line.
"""
import ast
import os
import sys

HERE = os.path.dirname(os.path.abspath(__file__))
VERIF = os.path.dirname(os.path.dirname(HERE))

INT, BOOL, FLOAT, NONE, UNIT = ('int',), ('bool',), ('float',), ('none',), ('unit',)


def OPT(t):
    return ('opt', t)


def LIST(t):
    return ('list', t)


def OPQ(n):
    return ('opq', n)


def PAIR(*ts):
    return ('pair',) + ts


DYN, VDICT, EMPTYSEQ = ('dyn',), ('vdict',), ('emptyseq',)
TUPF = ('tuple', FLOAT)            # a tuple of floats (a point)
MAT = ('list', ('list', FLOAT))    # a 2-d float array, row by row


TARGETS = {
    'driver': dict(
        file='sparseSpACE/spatiallyAdaptiveBase.py', cls='SpatiallyAdaptivBase', out='DriverGen.v', prop='C13',
        methods=['continue_adaptive_refinement', 'performSpatiallyAdaptiv'],
        attrs={
            'error_array': LIST(FLOAT), 'surplus_error_array': LIST(FLOAT), 'num_point_array': LIST(INT),
            'interpolation_error_arrayL2': LIST(FLOAT), 'interpolation_error_arrayMax': LIST(FLOAT),
            'single_step': BOOL, 'last_point_count': INT, 'print_output': BOOL, 'do_plot': BOOL, 'test_scheme': BOOL,
            'reevaluate_at_end': BOOL, 'recalculate_frequently': BOOL, 'calculated_solution': OPT(OPQ('result')),
            'solutions_storage': OPT(OPQ('dict')), 'evaluation_points': OPT(OPQ('points')),
            'errorEstimator': OPT(OPQ('ErrorCalculator')), 'reference_solution': OPQ('reference'),
        },
        abstract_attrs={'operation': OPT(OPQ('operation')), 'refinement': OPQ('RefinementContainer'), 'scheme': LIST(OPQ('grid')),
                        'lmax': LIST(INT), 'refinements': INT, 'refinement.evaluationstotal': INT},
        oracles={
            # name -> (file, class) where the signature is read, declared parameter types, result type
            'evaluate_operation': dict(sig=('sparseSpACE/spatiallyAdaptiveBase.py', 'SpatiallyAdaptivBase'), params={}, ret=PAIR(FLOAT, FLOAT)),
            'initialize_grid': dict(sig=('sparseSpACE/spatiallyAdaptiveBase.py', 'SpatiallyAdaptivBase'), params={}, ret=UNIT),
            'refine': dict(sig=('sparseSpACE/spatiallyAdaptiveBase.py', 'SpatiallyAdaptivBase'), params={}, ret=UNIT),
            'get_total_num_points': dict(sig=('sparseSpACE/StandardCombi.py', 'StandardCombi'),
                                         params={'doNaive': BOOL, 'distinct_function_evals': BOOL}, ret=INT),
            'evaluate_final_combi': dict(sig=('sparseSpACE/spatiallyAdaptiveBase.py', 'SpatiallyAdaptivBase'), params={},
                                         ret=PAIR(OPQ('result'), INT)),
            'check_combi_scheme': dict(sig=('sparseSpACE/StandardCombi.py', 'StandardCombi'), params={}, ret=UNIT),
            'init_adaptive_combi': dict(sig=('sparseSpACE/spatiallyAdaptiveBase.py', 'SpatiallyAdaptivBase'),
                                        params={'lmin': INT, 'lmax': INT, 'refinement_container': OPT(OPQ('RefinementContainer')),
                                                'tol': FLOAT}, ret=UNIT),
        },
        path_oracles={'operation.get_result': dict(ret=OPQ('result')),
                      'operation.get_reference_solution': dict(ret=OPQ('reference'))},
        param_types={'errorOperator': OPT(OPQ('ErrorCalculator')), 'refinement_container': OPT(OPQ('RefinementContainer')),
                     'solutions_storage': OPT(OPQ('dict')), 'evaluation_points': OPT(OPQ('points')), 'max_time': OPT(FLOAT),
                     'max_evaluations': OPT(INT)},
        dropped_statements=['start_time = time.perf_counter()'],
        dropped_defs=['find_unique_filename'],
        unsupported_if={
            'self.evaluation_points is not None': 'self.evaluation_points is not None',
            'self.do_plot': 'self.do_plot',
            'self.solutions_storage is not None': 'self.solutions_storage is not None',
            'max_time is not None and time.time() - start_time > max_time': 'max_time is not None',
        },
    ),
}

TARGETS['funcache'] = dict(
    file='sparseSpACE/Function.py', cls='Function', out='FunCacheGen.v', prop='C12',
    # __call__ is translated three times, SPECIALISED ON THE SHAPE OF ITS ARGUMENT (a typing precondition): the tests
    # np.isscalar(coordinates[0]) / isinstance(coordinates[0], tuple) / len(coordinates) == 0 are decided by the declared type of
    # `coordinates` and only the branch taken is translated (see `specialisation` in the scheme)
    methods=[
        'reset_dictionary', 'deactivate_caching', 'get_f_dict_size',
        dict(name='__call__', suffix='single', param_types={'coordinates': TUPF}, dyn_locals=['f_value'], ret=DYN),
        dict(name='__call__', suffix='batch', param_types={'coordinates': ('list', TUPF)}, dyn_locals=['f_value'], ret=DYN),
        dict(name='__call__', suffix='empty', param_types={'coordinates': EMPTYSEQ}, dyn_locals=['f_value'], ret=DYN),
    ],
    attrs={'f_dict': VDICT, 'old_f_dict': VDICT, 'do_cache': BOOL},
    abstract_attrs={},
    oracles={
        'eval': dict(sig=('sparseSpACE/Function.py', 'Function'), params={'coordinates': TUPF}, ret=DYN),
        'eval_vectorized': dict(sig=('sparseSpACE/Function.py', 'Function'), params={'coordinates': MAT}, ret=MAT),
        'output_length': dict(sig=('sparseSpACE/Function.py', 'Function'), params={}, ret=INT),
    },
    path_oracles={}, param_types={}, dropped_statements=[], dropped_defs=[], unsupported_if={},
)

OBJ = OPQ('obj')
TARGETS['container'] = dict(
    file='sparseSpACE/RefinementContainer.py', cls='RefinementContainer', out='RefContainerMachineGen.v', prop='C06',
    methods=['update_values', 'prepare_remove', 'add', 'refine', 'apply_remove', 'reinit_new_objects'],
    attrs={'refinementObjects': LIST(OBJ), 'popArray': LIST(INT), 'startNewObjects': INT, 'value': FLOAT, 'evaluationstotal': INT,
           'searchPosition': INT},
    abstract_attrs={}, oracles={}, path_oracles={},
    # the elements of refinementObjects are objects of their own (RefinementObject): their attributes are projections, their
    # methods oracles  e_m : T_obj -> args -> option (result * T_obj)  (the element after the call is written back into the list)
    elem_attrs={'value': FLOAT, 'evaluations': INT, 'start': FLOAT},
    elem_oracles={'refine': dict(params=[], ret=PAIR(LIST(OBJ), OPQ('lmax_update'), OPT(OPQ('update_info')))),
                  'update': dict(params=[OPQ('update_info')], ret=UNIT),
                  'reinit': dict(params=[], ret=UNIT)},
    local_types={'removed_objects': LIST(OBJ)},
    param_types={'object_id': INT, 'objectID': INT, 'update_info': OPQ('update_info'), 'new_refinement_objects': LIST(OBJ), 'sort': BOOL},
    dropped_statements=[], dropped_defs=[], unsupported_if={},
)


class Reject(Exception):
    def __init__(self, node, what):
        Exception.__init__(self, what)
        self.line = getattr(node, 'lineno', 0)
        self.what = what


def gt(t):
    k = t[0]
    if k == 'int':
        return 'Z'
    if k == 'bool':
        return 'bool'
    if k == 'float':
        return 'Qc'
    if k in ('unit', 'none'):
        return 'unit'
    if k == 'opt':
        return '(option %s)' % gt(t[1])
    if k in ('list', 'tuple'):
        return '(list %s)' % gt(t[1])
    if k == 'dyn':
        return 'pyval'
    if k == 'vdict':
        return 'vdict'
    if k == 'emptyseq':
        return 'unit'
    if k == 'opq':
        return 'T_' + t[1]
    if k == 'pair':
        return '(%s)' % ' * '.join(gt(x) for x in t[1:])
    if k == 'self':
        return 'Self_t'
    raise Reject(None, 'type %s' % (t,))


def opaque_names(t, acc):
    if t[0] == 'opq':
        if t[1] not in acc:
            acc.append(t[1])
    for x in t[1:]:
        if isinstance(x, tuple):
            opaque_names(x, acc)


def qc_of_float(x):
    n, d = float(x).as_integer_ratio()
    return '(Q2Qc (%s # %d))' % ('(%d)' % n if n < 0 else '%d' % n, d)


def const_value(node):
    """value of a default-argument expression as the Python interpreter computes it (no names allowed)"""
    for n in ast.walk(node):
        if isinstance(n, (ast.Name, ast.Call, ast.Attribute, ast.Subscript)):
            if not (isinstance(n, ast.Name) and False):
                raise Reject(node, 'default value that is not a constant expression: %s' % ast.unparse(node))
    return eval(compile(ast.Expression(body=node), '<default>', 'eval'), {'__builtins__': {}}, {})


class Machine:
    def __init__(self, repo, cfg):
        self.repo, self.cfg = repo, cfg
        self.curfile = cfg['file']
        self.sigs = {}
        self.ntemp = 0

    def find_class(self, relfile, cname):
        self.curfile = relfile
        mod = ast.parse(open(os.path.join(self.repo, relfile)).read())
        found = [st for st in mod.body if isinstance(st, ast.ClassDef) and st.name == cname]
        if len(found) != 1:
            raise Reject(mod, 'class %s not found exactly once in %s' % (cname, relfile))
        return found[0]

    def find_method(self, cls, name):
        found = [st for st in cls.body if isinstance(st, ast.FunctionDef) and st.name == name]
        if len(found) != 1:
            raise Reject(cls, 'method %s.%s not found exactly once' % (cls.name, name))
        return found[0]

    def signature(self, fn, declared):
        """[(name, type, default-term or None)] of the parameters after self"""
        a = fn.args
        if a.vararg or a.kwarg or a.kwonlyargs or a.posonlyargs:
            raise Reject(fn, 'star / keyword-only parameters of %s' % fn.name)
        args = a.args[1:]
        if not a.args or a.args[0].arg != 'self':
            raise Reject(fn, '%s is not a method' % fn.name)
        defaults = [None] * (len(args) - len(a.defaults)) + list(a.defaults)
        res = []
        for ar, df in zip(args, defaults):
            if ar.arg in declared:
                t = declared[ar.arg]
            elif isinstance(ar.annotation, ast.Name) and ar.annotation.id in ('int', 'float', 'bool'):
                t = {'int': INT, 'float': FLOAT, 'bool': BOOL}[ar.annotation.id]
            else:
                raise Reject(ar, 'parameter %s of %s: no usable annotation and no declared type' % (ar.arg, fn.name))
            dterm = None
            if df is not None:
                v = const_value(df)
                if v is None:
                    if t[0] != 'opt':
                        raise Reject(df, 'default None for the non-optional parameter %s : %s of %s (declare it Optional in the '
                                         'target only if None is a legal VALUE of it)' % (ar.arg, t[0], fn.name))
                    dterm = 'None'
                else:
                    base = t[1] if t[0] == 'opt' else t
                    if base == BOOL and type(v) is bool:
                        dterm = 'true' if v else 'false'
                    elif base == INT and type(v) is int:
                        dterm = '(%d)%%Z' % v
                    elif base == FLOAT and type(v) in (int, float):
                        dterm = qc_of_float(v)
                    else:
                        raise Reject(df, 'default value %r of parameter %s : %s' % (v, ar.arg, t))
                    if t[0] == 'opt':
                        dterm = '(Some %s)' % dterm
            res.append((ar.arg, t, dterm))
        return res

    def temp(self):
        self.ntemp += 1
        return '_t%d' % self.ntemp

    # ---------------------------------------------------------------------------------------------- driver
    def translate(self):
        cfg = self.cfg
        cls = self.find_class(cfg['file'], cfg['cls'])
        self.cls = cls
        for name, o in cfg['oracles'].items():
            c = self.find_class(*o['sig'])
            o['signature'] = self.signature(self.find_method(c, name), o['params'])
            o['line'] = '%s:%d' % (o['sig'][0], self.find_method(c, name).lineno)
        self.curfile = cfg['file']
        self.methods = {}
        out = []
        for spec in cfg['methods']:
            if isinstance(spec, str):
                spec = dict(name=spec)
            m = spec['name']
            key = m + ('_' + spec['suffix'] if spec.get('suffix') else '')
            fn = self.find_method(cls, m)
            sig = self.signature(fn, dict(cfg['param_types'], **spec.get('param_types', {})))
            self.methods[key] = dict(sig=sig, node=fn, ret=None, spec=spec)
            out.append(MethodTranslator(self, key).run())
        return out


class MethodTranslator:
    def __init__(self, mach, name):
        self.m, self.name = mach, name
        self.cfg = mach.cfg
        self.info = mach.methods[name]
        self.spec = self.info.get('spec', {})
        self.dyn_locals = self.spec.get('dyn_locals', [])
        self.rets = []

    def rej(self, node, what):
        raise Reject(node, what)

    def need(self, c, node, what):
        if not c:
            raise Reject(node, what)

    # -------------------------------------------------------------------------------------------- function
    def run(self):
        fn = self.info['node']
        env = {'self': ('self',)}
        for n, t, d in self.info['sig']:
            env[n] = t
        body = list(fn.body)
        if body and isinstance(body[0], ast.Expr) and isinstance(body[0].value, ast.Constant) and isinstance(body[0].value.value, str):
            body = body[1:]
        if self.falls(body):
            body.append(ast.Return(value=None, lineno=fn.end_lineno, end_lineno=fn.end_lineno, col_offset=0))
        lines, _, _ = self.block(body, env, [], 2, False)
        rt = None
        for t in self.rets:
            if rt is not None and rt != t:
                self.rej(fn, 'return statements of different types')
            rt = t
        self.info['ret'] = rt
        cname = self.cfg['cls']
        params = ''.join(' (%s : %s)' % (n, gt(t)) for n, t, d in self.info['sig'])
        head = '(* %s:%d-%d  %s.%s *)\n' % (self.cfg['file'], fn.lineno, fn.end_lineno, cname, self.name)
        if self.spec.get('suffix'):
            head += '(* SPECIALISATION of %s.%s for arguments of the shape: %s *)\n' % (cname, self.spec['name'], ', '.join('%s : %s' % (k, v) for k, v in self.spec.get('param_types', {}).items()))
        text = head + 'Definition %s_%s (fuel : nat) (self : Self_t)%s : option (%s * Self_t) :=\n  run_flow (V:=unit) (\n' % (
            cname, self.name, params, gt(rt)) + '\n'.join(lines) + ').\n'
        # keyword-call wrapper: None = argument not passed
        kwp, args = [], []
        for n, t, d in self.info['sig']:
            if d is None:
                kwp.append(' (%s : %s)' % (n, gt(t))); args.append(n)
            else:
                kwp.append(' (%s : option %s)' % (n, gt(t)))
                args.append('(match %s with Some v => v | None => %s_%s__default_%s end)' % (n, cname, self.name, n))
        for n, t, d in self.info['sig']:
            if d is not None:
                text += 'Definition %s_%s__default_%s : %s := %s.\n' % (cname, self.name, n, gt(t), d)
        text += '(* the call with keyword arguments: None = the argument is not passed, the default of the source is used *)\n'
        text += 'Definition %s_%s_kw (fuel : nat) (self : Self_t)%s : option (%s * Self_t) :=\n  %s_%s fuel self %s.\n' % (
            cname, self.name, ''.join(kwp), gt(rt), cname, self.name, ' '.join(args))
        return text

    # -------------------------------------------------------------------------------------------- helpers
    def tup(self, names):
        return 'tt' if not names else names[0] if len(names) == 1 else '(' + ', '.join(names) + ')'

    def pat(self, names):
        return '_' if not names else names[0] if len(names) == 1 else "'(" + ', '.join(names) + ')'

    def lam(self, names):
        return '(_ : unit)' if not names else names[0] if len(names) == 1 else "'(" + ', '.join(names) + ')'

    def binds(self, bs, ind, loop):
        arrow = '<--' if loop else '<-'
        return [' ' * ind + '%s %s (%s) ;;' % (p, arrow, e) for p, e in bs]

    def assigned(self, stmts):
        """names (re)bound by the TRANSLATED part of a statement list; 'self' for any change of the object"""
        res = []

        def add(n):
            if n not in res:
                res.append(n)

        def in_expr(node):
            for n in ast.walk(node):
                if isinstance(n, ast.Call) and isinstance(n.func, ast.Attribute):
                    root = n.func
                    while isinstance(root, ast.Attribute):
                        root = root.value
                    if isinstance(root, ast.Subscript):
                        root = root.value
                        while isinstance(root, ast.Attribute):
                            root = root.value
                    if isinstance(root, ast.Name) and root.id == 'self':
                        add('self')
                    elif isinstance(root, ast.Name) and n.func.attr in ('append', 'extend'):
                        add(root.id)

        def walk(sts):
            for st in sts:
                if ast.unparse(st) in self.cfg['dropped_statements'] or isinstance(st, ast.FunctionDef):
                    continue
                if isinstance(st, ast.If):
                    if ast.unparse(st.test) in self.cfg['unsupported_if']:
                        walk(st.orelse)
                    else:
                        in_expr(st.test); walk(st.body); walk(st.orelse)
                    continue
                if isinstance(st, (ast.While, ast.For)):
                    if isinstance(st, ast.For):
                        in_expr(st.iter)
                    walk(st.body)
                    continue
                if isinstance(st, (ast.Assign, ast.AugAssign)):
                    for t in (st.targets if isinstance(st, ast.Assign) else [st.target]):
                        for e in (t.elts if isinstance(t, ast.Tuple) else [t]):
                            if isinstance(e, ast.Name):
                                add(e.id)
                            elif isinstance(e, ast.Attribute) and isinstance(e.value, ast.Name) and e.value.id == 'self':
                                add('self')
                            elif isinstance(e, ast.Subscript) and ast.unparse(e.value).startswith('self.'):
                                add('self')
                            else:
                                self.rej(e, 'assignment target %s' % ast.unparse(e))
                in_expr(st)
        walk(stmts)
        return res

    def oracle_calls_in(self, node):
        """calls of oracle methods inside a dropped expression, in evaluation (source) order"""
        found = []
        for n in ast.walk(node):
            if isinstance(n, ast.Call) and isinstance(n.func, ast.Attribute) and isinstance(n.func.value, ast.Name) \
                    and n.func.value.id == 'self':
                found.append(n)
        return sorted(found, key=lambda n: (n.lineno, n.col_offset))

    # -------------------------------------------------------------------------------------------- statements
    def block(self, stmts, env, out, ind, loop):
        """-> (lines, falls-through?).  loop: inside a `while True` body (lflow), out = the loop's variables"""
        sp = ' ' * ind
        NXT, RET, ASSERT = ('LNxt', 'LRet', 'l_assert') if loop else ('Nxt', 'Ret', 'py_assert')
        bindblk = '<~~' if loop else '<~'
        if not stmts:
            return [sp + '%s %s' % (NXT, self.tup(out))], True, env
        st, rest = stmts[0], stmts[1:]
        env = dict(env)
        L = []
        src = ast.unparse(st)

        def cont():
            lines, ft, e2 = self.block(rest, env, out, ind, loop)
            return L + lines, ft, e2

        if isinstance(st, ast.Pass):
            return cont()
        if src in self.cfg['dropped_statements']:
            L.append(sp + '(* dropped by name: %s *)' % src.replace('*)', '* )'))
            return cont()
        if isinstance(st, ast.FunctionDef):
            self.need(st.name in self.cfg['dropped_defs'], st, 'nested def %s' % st.name)
            L.append(sp + '(* dropped by name: nested def %s (lines %d-%d) *)' % (st.name, st.lineno, st.end_lineno))
            return cont()
        if isinstance(st, ast.Import):
            self.rej(st, 'import statement')
        if isinstance(st, ast.Break):
            self.need(loop, st, 'break outside a translated loop')
            self.need(not rest, st, 'statement after break')
            return [sp + 'LBrk %s' % self.tup(out)], False, env
        if isinstance(st, ast.Return):
            self.need(not rest, st, 'statement after return')
            if st.value is None:
                term, t = 'tt', UNIT
            else:
                elts = st.value.elts if isinstance(st.value, ast.Tuple) else [st.value]
                parts = [self.expr(e, env) for e in elts]
                L += self.binds(sum((p[0] for p in parts), []), ind, loop)
                term = '(' + ', '.join(p[1] for p in parts) + ')' if len(parts) > 1 else parts[0][1]
                t = PAIR(*[p[2] for p in parts]) if len(parts) > 1 else parts[0][2]
            if self.spec.get('ret') and t != self.spec['ret']:
                term, t = self.coerce(term, t, self.spec['ret'], st), self.spec['ret']
            self.rets.append(t)
            return L + [sp + '%s (%s, self)' % (RET, term)], False, env
        if isinstance(st, ast.Assert):
            self.need(st.msg is None or (isinstance(st.msg, ast.Constant) and isinstance(st.msg.value, str)), st, 'assert with a computed message')
            b, term, t = self.expr(st.test, env)
            self.need(t == BOOL, st, 'assert on a non-boolean value')
            L += self.binds(b, ind, loop)
            lines, ft, e2 = self.block(rest, env, out, ind, loop)
            return L + [sp + '%s %s (' % (ASSERT, term)] + lines + [sp + ')'], ft, e2
        if isinstance(st, ast.Expr):
            return self.expr_stmt(st, env, L, cont, ind, loop)
        if isinstance(st, ast.Assign):
            self.need(len(st.targets) == 1, st, 'multiple assignment targets')
            self.assign(st.targets[0], st.value, st, env, L, ind, loop)
            return cont()
        if isinstance(st, ast.If):
            test = ast.unparse(st.test)
            if test in self.cfg['unsupported_if']:
                guard = ast.parse(self.cfg['unsupported_if'][test], mode='eval').body
                ast.increment_lineno(guard, st.lineno - 1)
                b, term, t = self.expr(guard, env)
                L += self.binds(b, ind, loop)
                L.append(sp + '(* OUTSIDE THE MODEL: the branch `if %s:` (lines %d-%d) is not translated; entering it = no result *)'
                         % (test.replace('*)', '* )'), st.lineno, st.body[-1].end_lineno))
                vs = out if loop else [n for n in env if n in self.assigned(st.orelse)]
                lb, fb, _ = self.block(st.orelse, env, vs, ind + 4, loop)
                L += [sp + '%s %s (if %s then %s else (' % (self.pat(vs), bindblk, term, 'LFail' if loop else 'Fail')] + lb + [sp + '  )) ;;']
                return cont()
            nt = self.is_none_test(st.test)
            if nt and isinstance(nt[0], ast.Name) and env.get(nt[0].id, ('?',))[0] == 'opt' and not loop:
                # `if X is (not) None:` on an optional variable: the other branch sees X as a value
                x = nt[0].id
                vs = [n for n in env if n in self.assigned(st.body + st.orelse)]
                some_b, none_b = (st.body, st.orelse) if nt[1] else (st.orelse, st.body)
                v = self.m.temp()
                nenv = dict(env); nenv[x] = env[x][1]
                la, fa, _ = self.block(some_b, nenv, vs, ind + 4, loop)
                lb, fb, _ = self.block(none_b, env, vs, ind + 4, loop)
                L += [sp + '%s %s (match %s with Some %s => (let %s := %s in' % (self.pat(vs), bindblk, x, v, x, v)] + la + \
                     [sp + '  ) | None => ('] + lb + [sp + '  ) end) ;;']
                return cont()
            b, term, t = self.expr(st.test, env)
            self.need(t == BOOL, st, 'if on a non-boolean value (truthiness of %s is not translated)' % (t,))
            L += self.binds(b, ind, loop)
            if term in ('true', 'false'):
                # SPECIALISATION: the test is decided by the declared argument shape; only the branch taken is translated
                live, dead = (st.body, st.orelse) if term == 'true' else (st.orelse, st.body)
                L.append(sp + '(* specialisation: `%s` is %s for this argument shape; %s *)' % (
                    ast.unparse(st.test).replace('*)', '* )'), term.capitalize(),
                    'lines %d-%d not translated' % (dead[0].lineno, dead[-1].end_lineno) if dead else 'no other branch'))
                if not self.falls(live) and rest:
                    L.append(sp + '(* not reached for this argument shape: lines %d-%d *)' % (rest[0].lineno, rest[-1].end_lineno))
                lines, ft, e2 = self.block(live + rest if self.falls(live) else live, env, out, ind, loop)
                return L + lines, ft, e2
            vs = out if loop else [n for n in env if n in self.assigned(st.body + st.orelse)]
            # variables first assigned in BOTH branches exist afterwards
            new = [] if loop else [n for n in self.assigned(st.body) if n in self.assigned(st.orelse) and n not in env and n != 'self']
            la, fa, ea = self.block(st.body, env, vs + new, ind + 4, loop)
            lb, fb, eb = self.block(st.orelse, env, vs + new, ind + 4, loop)
            for n in new:
                self.need(n in ea and n in eb and ea[n] == eb[n], st, 'variable %s gets different types in the two branches' % n)
                env[n] = ea[n]
            vs = vs + new
            L += [sp + '%s %s (if %s then (' % (self.pat(vs), bindblk, term)] + la + [sp + '  ) else ('] + lb + [sp + '  )) ;;']
            if not fa and not fb:
                self.need(not rest, st, 'statement after an if whose branches both leave')
                return L + [sp + '%s %s' % (NXT, self.tup(out))], False, env
            return cont()
        if isinstance(st, ast.AugAssign):
            # x op= e  ==  x = x op e  (the target is read first)
            load = ast.parse(ast.unparse(st.target), mode='eval').body
            ast.increment_lineno(load, st.lineno - 1)
            new = ast.Assign(targets=[st.target], value=ast.BinOp(left=load, op=st.op, right=st.value), lineno=st.lineno)
            ast.copy_location(new, st); ast.copy_location(new.value, st)
            self.assign(st.target, new.value, new, env, L, ind, loop)
            return cont()
        if isinstance(st, ast.For):
            self.need(not loop and not st.orelse and isinstance(st.target, ast.Name), st, 'for loop inside while / with else / tuple target')
            bi, ti, tyi = self.expr(st.iter, env)
            self.need(tyi[0] == 'list' and tyi[1] is not None, st, 'iteration over %s' % (tyi,))
            L += self.binds(bi, ind, loop)
            x = st.target.id
            self.need(x not in env, st, 'loop variable %s shadows an existing variable' % x)
            # `for r in self.ATTR: r.m(args)` : every element is replaced by the element after the call
            b0 = st.body[0] if len(st.body) == 1 else None
            if isinstance(b0, ast.Expr) and isinstance(b0.value, ast.Call) and isinstance(b0.value.func, ast.Attribute) and \
                    isinstance(b0.value.func.value, ast.Name) and b0.value.func.value.id == x and tyi[1] == OBJ and \
                    ast.unparse(st.iter).startswith('self.') and ast.unparse(st.iter)[5:] in self.cfg['attrs']:
                m = b0.value.func.attr
                self.need(m in self.cfg.get('elem_oracles', {}) and not b0.value.keywords, st, 'element method %s' % m)
                o = self.cfg['elem_oracles'][m]
                self.need(len(b0.value.args) == len(o['params']), st, 'arguments of element method %s' % m)
                parts = [self.expr(a, env) for a in b0.value.args]
                L += self.binds(sum((p_[0] for p_ in parts), []), ind, loop)
                args = ''.join(' ' + self.coerce(p_[1], p_[2], t, st) for p_, t in zip(parts, o['params']))
                tmp = self.m.temp()
                L.append(sp + '%s <- (py_mapM (fun %s => option_map snd (e_%s %s%s)) %s) ;;' % (tmp, x, m, x, args, ti))
                L.append(sp + self.set_attr(ast.unparse(st.iter)[5:], tmp))
                return cont()
            benv = dict(env); benv[x] = tyi[1]
            vs = [n for n in env if n in self.assigned(st.body)]
            lb, _, _ = self.block(st.body, benv, vs, ind + 4, False)
            L += [sp + '%s <~ (py_for %s (fun %s %s =>' % (self.pat(vs), ti, x, self.lam(vs))] + lb + [sp + '  ) %s) ;;' % self.tup(vs)]
            return cont()
        if isinstance(st, ast.While):
            self.need(not loop, st, 'nested while')
            self.need(isinstance(st.test, ast.Constant) and st.test.value is True and not st.orelse, st,
                      'while loop other than `while True:`')
            vs = [n for n in env if n in self.assigned(st.body)]
            lb, _, _ = self.block(st.body, env, vs, ind + 4, True)
            L += [sp + '%s <~ (py_loop fuel (fun %s =>' % (self.pat(vs), self.lam(vs))] + lb + [sp + '  ) %s) ;;' % self.tup(vs)]
            return cont()
        self.rej(st, 'statement %s' % type(st).__name__)

    def falls(self, stmts):
        """can the statement list fall through (syntactically)?"""
        if not stmts:
            return True
        last = stmts[-1]
        if isinstance(last, (ast.Return, ast.Break, ast.Raise)):
            return False
        if isinstance(last, ast.If):
            return self.falls(last.body) or self.falls(last.orelse)
        return True

    def set_attr(self, a, term):
        return 'let self := set_f_%s self (Some %s) in' % (a, term)

    def coerce(self, term, t, want, node):
        if t == want:
            return term
        if want[0] == 'opt' and t == NONE:
            return 'None'
        if want[0] == 'opt' and t == want[1]:
            return '(Some %s)' % term
        if want == FLOAT and t == INT:
            return '(py_Z2Qc %s)' % term
        if want[0] in ('list', 'tuple') and t == ('list', None):
            return term
        if want[0] in ('list', 'tuple') and t[0] in ('list', 'tuple') and gt(t) == gt(want):
            return term
        if want == DYN:
            if t == NONE:
                return 'VNone'
            if t == FLOAT:
                return '(VScalar %s)' % term
            if t[0] in ('list', 'tuple') and t[1] == FLOAT:
                return '(VVec %s)' % term
            if t == MAT or (t[0] == 'list' and t[1] == TUPF):
                return '(VMat %s)' % term
        self.rej(node, 'a value of type %s where %s is expected' % (t, want))

    def assign(self, target, value, st, env, L, ind, loop):
        sp = ' ' * ind
        if isinstance(target, ast.Tuple):
            b, term, t = self.expr(value, env)
            self.need(t[0] == 'pair' and len(t) - 1 == len(target.elts) and all(isinstance(e, ast.Name) for e in target.elts),
                      st, 'unpacking of %s' % (t,))
            L += self.binds(b, ind, loop)
            names = [e.id for e in target.elts]
            L.append(sp + "let '(%s) := %s in" % (', '.join(names), term))
            for n, tt in zip(names, t[1:]):
                self.need(n != 'self' and n not in ('fuel',), st, 'assignment to %s' % n)
                env[n] = tt
            return
        b, term, t = self.expr(value, env)
        L += self.binds(b, ind, loop)
        if isinstance(target, ast.Name) and target.id in self.dyn_locals:
            env[target.id] = DYN
            L.append(sp + 'let %s := %s in' % (target.id, self.coerce(term, t, DYN, st)))
            return
        if isinstance(target, ast.Subscript) and isinstance(target.value, ast.Attribute) and \
                isinstance(target.value.value, ast.Name) and target.value.value.id == 'self' and \
                self.cfg['attrs'].get(target.value.attr) == VDICT:
            a = target.value.attr
            bk, tk, tyk = self.expr(target.slice, env)
            bd, td, tyd = self.expr(target.value, env)
            self.need(tyk[0] in ('tuple',) and tyk[1] == FLOAT, st, 'dict key of type %s (only tuples of floats)' % (tyk,))
            L += self.binds(bd + bk, ind, loop)
            L.append(sp + self.set_attr(a, '(py_vdict_set %s %s %s)' % (td, tk, self.coerce(term, t, DYN, st))))
            return
        if isinstance(target, ast.Name):
            self.need(target.id not in ('self', 'fuel'), st, 'assignment to %s' % target.id)
            if target.id in env and env[target.id] != t:
                term = self.coerce(term, t, env[target.id], st)
                t = env[target.id]
            self.need(t != NONE, st, 'variable %s bound to None only' % target.id)
            if t == ('list', None):
                self.need(target.id in self.cfg.get('local_types', {}), st, 'empty list bound to %s: element type not declared' % target.id)
                t = self.cfg['local_types'][target.id]
            env[target.id] = t
            L.append(sp + 'let %s := %s in' % (target.id, term))
            return
        if isinstance(target, ast.Attribute) and isinstance(target.value, ast.Name) and target.value.id == 'self':
            a = target.attr
            self.need(a in self.cfg['attrs'], st, 'assignment to the undeclared attribute self.%s' % a)
            L.append(sp + self.set_attr(a, self.coerce(term, t, self.cfg['attrs'][a], st)))
            return
        self.rej(st, 'assignment target %s' % ast.unparse(target))

    def expr_stmt(self, st, env, L, cont, ind, loop):
        sp = ' ' * ind
        c = st.value
        if isinstance(c, ast.Constant) and isinstance(c.value, str):
            return cont()
        self.need(isinstance(c, ast.Call), st, 'expression statement')
        f = ast.unparse(c.func)
        if f in ('print', 'self.log_util.log_info', 'self.log_util.log_debug', 'self.log_util.log_warning'):
            L.append(sp + '(* dropped by name: %s *)' % ast.unparse(st).replace('(*', '( *').replace('*)', '* )'))
            for oc in self.oracle_calls_in(c):
                b, term, t = self.expr(oc, env)
                L += self.binds(b, ind, loop)
            return cont()
        if isinstance(c.func, ast.Attribute) and c.func.attr in ('append', 'extend') and isinstance(c.func.value, ast.Attribute) and \
                isinstance(c.func.value.value, ast.Name) and c.func.value.value.id == 'self':
            a = c.func.value.attr
            self.need(a in self.cfg['attrs'] and self.cfg['attrs'][a][0] == 'list' and len(c.args) == 1 and not c.keywords, st,
                      '%s on self.%s' % (c.func.attr, a))
            bv, tv, tyv = self.expr(c.args[0], env)
            ba, ta, tya = self.expr(c.func.value, env)
            L += self.binds(ba + bv, ind, loop)      # the receiver is evaluated first
            if c.func.attr == 'append':
                L.append(sp + self.set_attr(a, '(%s ++ [%s])' % (ta, self.coerce(tv, tyv, tya[1], st))))
            else:
                L.append(sp + self.set_attr(a, '(%s ++ %s)' % (ta, self.coerce(tv, tyv, tya, st))))
            return cont()
        if isinstance(c.func, ast.Attribute) and c.func.attr == 'append' and isinstance(c.func.value, ast.Name) and \
                c.func.value.id in env and env[c.func.value.id][0] == 'list' and len(c.args) == 1 and not c.keywords:
            x = c.func.value.id
            bv, tv, tyv = self.expr(c.args[0], env)
            L += self.binds(bv, ind, loop)
            if env[x][1] is None:
                env[x] = ('list', tyv)
            L.append(sp + 'let %s := (%s ++ [%s]) in' % (x, x, self.coerce(tv, tyv, env[x][1], st)))
            return cont()
        if isinstance(c.func, ast.Attribute) and c.func.attr == 'update' and isinstance(c.func.value, ast.Attribute) and \
                isinstance(c.func.value.value, ast.Name) and c.func.value.value.id == 'self' and \
                self.cfg['attrs'].get(c.func.value.attr) == VDICT:
            a = c.func.value.attr
            z = c.args[0] if len(c.args) == 1 and not c.keywords else None
            self.need(isinstance(z, ast.Call) and isinstance(z.func, ast.Name) and z.func.id == 'zip' and len(z.args) == 2
                      and not z.keywords, st, 'dict.update with anything but zip(keys, rows)')
            bd, td, tyd = self.expr(c.func.value, env)
            bk, tk, tyk = self.expr(z.args[0], env)
            br, tr_, tyr = self.expr(z.args[1], env)
            self.need(tyk == ('list', TUPF) and tyr == MAT, st, 'update(zip(%s, %s))' % (tyk, tyr))
            L += self.binds(bd + bk + br, ind, loop)
            L.append(sp + self.set_attr(a, '(py_vdict_update_zip %s %s %s)' % (td, tk, tr_)))
            return cont()
        b, term, t = self.expr(c, env)
        self.need(b, st, 'call statement without effect: %s' % ast.unparse(c))
        L += self.binds(b, ind, loop)
        return cont()

    # -------------------------------------------------------------------------------------------- expressions
    def is_none_test(self, e):
        """(operand, negated?) for `x is None` / `x is not None`"""
        if isinstance(e, ast.Compare) and len(e.ops) == 1 and isinstance(e.ops[0], (ast.Is, ast.IsNot)) and \
                isinstance(e.comparators[0], ast.Constant) and e.comparators[0].value is None:
            return e.left, isinstance(e.ops[0], ast.IsNot)
        return None

    def narrowed(self, env, operand, term, t):
        env = dict(env)
        nar = dict(env.get('__narrow', {}))
        nar[ast.dump(operand)] = (term, t)
        env['__narrow'] = nar
        return env

    def chain(self, bs, final):
        return ' '.join('%s <?- (%s) ;;' % (p, e) for p, e in bs) + ' ' + final

    def lazy(self, bs, term, t, node):
        """an operand evaluated conditionally: its raising parts stay inside; -> (option-typed term or None, pure term)"""
        for p, e in bs:
            if 'self' in p:
                self.rej(node, 'call that changes the object inside a conditionally evaluated operand')
        return '(' + self.chain(bs, 'Some %s' % term) + ')' if bs else None

    def expr(self, e, env):
        key = ast.dump(e)
        if key in env.get('__narrow', {}):
            term, t = env['__narrow'][key]
            return [], term, t
        if isinstance(e, ast.Constant):
            if e.value is None:
                return [], 'None', NONE
            if type(e.value) is bool:
                return [], 'true' if e.value else 'false', BOOL
            if type(e.value) is int:
                return [], '(%d)%%Z' % e.value, INT
            if type(e.value) is float:
                return [], qc_of_float(e.value), FLOAT
            self.rej(e, 'constant %r' % (e.value,))
        if isinstance(e, ast.Name):
            self.need(e.id in env and not e.id.startswith('__'), e, 'variable %s is not defined here (or is a global)' % e.id)
            return [], e.id, env[e.id]
        if isinstance(e, ast.List):
            if len(e.elts) == 1:
                b, term, t = self.expr(e.elts[0], env)
                if t == DYN:
                    tmp = self.m.temp()
                    return b + [(tmp, 'py_list1 %s' % term)], tmp, DYN
            self.need(not e.elts, e, 'non-empty list literal')
            return [], '[]', ('list', None)
        if isinstance(e, ast.Dict):
            self.need(not e.keys, e, 'non-empty dict literal')
            return [], '[]', VDICT
        if isinstance(e, ast.Subscript):
            self.need(not isinstance(e.slice, ast.Slice), e, 'slice')
            bv, tv, tyv = self.expr(e.value, env)
            bi, ti, tyi = self.expr(e.slice, env)
            self.need(tyv[0] in ('list', 'tuple') and tyv[1] is not None and tyi == INT, e, 'subscript on %s with %s' % (tyv, tyi))
            tmp = self.m.temp()
            return bv + bi + [(tmp, 'py_getitem %s %s' % (tv, ti))], tmp, tyv[1]
        if isinstance(e, ast.Attribute) and not ast.unparse(e).startswith('self.') and e.attr in self.cfg.get('elem_attrs', {}):
            b, term, t = self.expr(e.value, env)
            self.need(t == OBJ, e, 'attribute .%s of a value of type %s' % (e.attr, t))
            return b, '(g_%s %s)' % (e.attr, term), self.cfg['elem_attrs'][e.attr]
        if isinstance(e, ast.Attribute) and ast.unparse(e).startswith('self.') and isinstance(e.value, ast.Subscript) and \
                e.attr in self.cfg.get('elem_attrs', {}):
            b, term, t = self.expr(e.value, env)
            self.need(t == OBJ, e, 'attribute .%s of a value of type %s' % (e.attr, t))
            return b, '(g_%s %s)' % (e.attr, term), self.cfg['elem_attrs'][e.attr]
        if isinstance(e, ast.Attribute):
            path = ast.unparse(e)
            self.need(path.startswith('self.'), e, 'attribute %s' % path)
            p = path[5:]
            if p in self.cfg['attrs']:
                tmp = self.m.temp()
                return [(tmp, 'f_%s self' % p)], tmp, self.cfg['attrs'][p]
            if p in self.cfg['abstract_attrs']:
                return [], '(g_%s (a_st self))' % p.replace('.', '_'), self.cfg['abstract_attrs'][p]
            self.rej(e, 'attribute %s is neither a declared attribute nor a declared abstract attribute' % path)
        if isinstance(e, ast.Attribute) and e.attr in self.cfg.get('elem_attrs', {}):
            b, term, t = self.expr(e.value, env)
            if t == OBJ:
                return b, '(g_%s %s)' % (e.attr, term), self.cfg['elem_attrs'][e.attr]
        if isinstance(e, ast.UnaryOp) and isinstance(e.op, ast.Not):
            b, term, t = self.expr(e.operand, env)
            self.need(t == BOOL, e, '`not` on a non-boolean value')
            if term in ('true', 'false'):
                return b, 'false' if term == 'true' else 'true', BOOL
            return b, '(negb %s)' % term, BOOL
        if isinstance(e, ast.Compare):
            nt = self.is_none_test(e)
            if nt:
                b, term, t = self.expr(nt[0], env)
                if t == NONE:
                    return b, 'false' if nt[1] else 'true', BOOL
                if t == DYN:
                    return b, ('(negb (py_is_none %s))' if nt[1] else '(py_is_none %s)') % term, BOOL
                if t[0] != 'opt':
                    return b, 'true' if nt[1] else 'false', BOOL      # a value that cannot be None
                return b, '(match %s with Some _ => %s | None => %s end)' % (term, 'true' if nt[1] else 'false',
                                                                          'false' if nt[1] else 'true'), BOOL
            self.need(len(e.ops) == 1, e, 'chained comparison')
            bl, tl, tyl = self.expr(e.left, env)
            br, tr_, tyr = self.expr(e.comparators[0], env)
            op = type(e.ops[0])
            if tyl == INT and tyr == INT:
                sym = {ast.Lt: '<?', ast.LtE: '<=?', ast.Gt: '>?', ast.GtE: '>=?', ast.Eq: '=?'}
                if op is ast.NotEq:
                    return bl + br, '(negb (%s =? %s)%%Z)' % (tl, tr_), BOOL
                self.need(op in sym, e, 'comparison operator %s' % op.__name__)
                if op is ast.Eq and tl == tr_ and tl.startswith('(') and tl.endswith(')%Z') and tl[1:-3].lstrip('-').isdigit():
                    return bl + br, 'true', BOOL      # the same literal on both sides (after specialisation)
                return bl + br, '(%s %s %s)%%Z' % (tl, sym[op], tr_), BOOL
            if {tyl, tyr} <= {INT, FLOAT}:
                tl, tr_ = self.coerce(tl, tyl, FLOAT, e), self.coerce(tr_, tyr, FLOAT, e)
                fm = {ast.LtE: 'Qc_leb %s %s', ast.Lt: 'Qc_ltb %s %s', ast.GtE: 'Qc_leb %s %s', ast.Gt: 'Qc_ltb %s %s'}
                self.need(op in fm, e, 'float comparison operator %s' % op.__name__)
                a, b2 = (tl, tr_) if op in (ast.LtE, ast.Lt) else (tr_, tl)
                return bl + br, '(' + fm[op] % (a, b2) + ')', BOOL
            self.rej(e, 'comparison of %s and %s' % (tyl, tyr))
        if isinstance(e, ast.BoolOp):
            isand = isinstance(e.op, ast.And)
            first, others = e.values[0], e.values[1:]
            rest = others[0] if len(others) == 1 else ast.BoolOp(op=e.op, values=others)
            ast.copy_location(rest, others[0])
            nt = self.is_none_test(first)
            if nt and ((isand and nt[1]) or (not isand and not nt[1])):
                # X is not None and REST  /  X is None or REST : REST is evaluated with X known to be a value
                b, term, t = self.expr(nt[0], env)
                if t[0] == 'opt':
                    v = self.m.temp()
                    br, tr_, tyr = self.expr(rest, self.narrowed(env, nt[0], v, t[1]))
                    self.need(tyr == BOOL, e, 'and/or on non-boolean values')
                    other = 'false' if isand else 'true'
                    lz = self.lazy(br, tr_, tyr, e)
                    if lz is None:
                        return b, '(match %s with Some %s => %s | None => %s end)' % (term, v, tr_, other), BOOL
                    tmp = self.m.temp()
                    return b + [(tmp, 'match %s with Some %s => %s | None => Some %s end' % (term, v, lz, other))], tmp, BOOL
            bl, tl, tyl = self.expr(first, env)
            br, tr_, tyr = self.expr(rest, env)
            self.need(tyl == BOOL and tyr == BOOL, e, 'and/or on non-boolean values (truthiness is not translated)')
            lz = self.lazy(br, tr_, tyr, e)
            if lz is None:
                return bl, '(%s %s %s)' % (tl, '&&' if isand else '||', tr_), BOOL
            tmp = self.m.temp()
            ite = 'if %s then %s else Some false' % (tl, lz) if isand else 'if %s then Some true else %s' % (tl, lz)
            return bl + [(tmp, ite)], tmp, BOOL
        if isinstance(e, ast.IfExp):
            nt = self.is_none_test(e.test)
            bt, tt_, tyt = self.expr(e.test, env)
            self.need(tyt == BOOL, e, 'conditional expression on a non-boolean test')
            envA = envB = env
            narrow = None
            if nt:
                b0, t0, ty0 = self.expr(nt[0], env)
                if ty0[0] == 'opt':
                    narrow = (b0, t0, ty0, self.m.temp())
                    if nt[1]:
                        envA = self.narrowed(env, nt[0], narrow[3], ty0[1])
                    else:
                        envB = self.narrowed(env, nt[0], narrow[3], ty0[1])
            ba, ta, tya = self.expr(e.body, envA)
            bb, tb, tyb = self.expr(e.orelse, envB)
            if tya != tyb:
                want = tya if tya[0] == 'opt' else tyb if tyb[0] == 'opt' else OPT(tya) if tyb == NONE else OPT(tyb) if tya == NONE else None
                self.need(want is not None, e, 'conditional expression with branches of types %s and %s' % (tya, tyb))
                ta, tb = self.coerce(ta, tya, want, e), self.coerce(tb, tyb, want, e)
                tya = want
            la, lb = self.lazy(ba, ta, tya, e), self.lazy(bb, tb, tya, e)
            if la is None and lb is None:
                if narrow:
                    some, none = (ta, tb) if nt[1] else (tb, ta)
                    return narrow[0], '(match %s with Some %s => %s | None => %s end)' % (narrow[1], narrow[3], some, none), tya
                return bt, '(if %s then %s else %s)' % (tt_, ta, tb), tya
            la, lb = la or '(Some %s)' % ta, lb or '(Some %s)' % tb
            tmp = self.m.temp()
            if narrow:
                some, none = (la, lb) if nt[1] else (lb, la)
                return narrow[0] + [(tmp, 'match %s with Some %s => %s | None => %s end' % (narrow[1], narrow[3], some, none))], tmp, tya
            return bt + [(tmp, 'if %s then %s else %s' % (tt_, la, lb))], tmp, tya
        if isinstance(e, ast.BinOp):
            bl, tl, tyl = self.expr(e.left, env)
            br, tr_, tyr = self.expr(e.right, env)
            sym = {ast.Add: '+', ast.Sub: '-', ast.Mult: '*'}
            self.need(type(e.op) in sym, e, 'operator %s' % type(e.op).__name__)
            if tyl == INT and tyr == INT:
                return bl + br, '(%s %s %s)%%Z' % (tl, sym[type(e.op)], tr_), INT
            if {tyl, tyr} <= {INT, FLOAT}:
                return bl + br, '(%s %s %s)%%Qc' % (self.coerce(tl, tyl, FLOAT, e), sym[type(e.op)], self.coerce(tr_, tyr, FLOAT, e)), FLOAT
            self.rej(e, 'operator %s on %s and %s' % (type(e.op).__name__, tyl, tyr))
        if isinstance(e, ast.Call):
            return self.call(e, env)
        self.rej(e, 'expression %s' % type(e).__name__)

    def bind_args(self, sig, c, env, what, skip=0):
        """positional + keyword arguments against a signature [(name, type, default)] -> (binds, terms)"""
        self.need(not any(isinstance(a, ast.Starred) for a in c.args) and all(k.arg for k in c.keywords), c, 'star arguments')
        pos = c.args[skip:]
        self.need(len(pos) <= len(sig), c, 'too many arguments for %s' % what)
        given = {}
        for (n, t, d), a in zip(sig, pos):
            given[n] = a
        for k in c.keywords:
            self.need(k.arg in [p[0] for p in sig] and k.arg not in given, c, 'keyword argument %s of %s' % (k.arg, what))
            given[k.arg] = k.value
        order = list(pos) + [k.value for k in c.keywords]
        tr, binds = {}, []
        for a in order:
            b, term, t = self.expr(a, env)
            binds += b
            tr[id(a)] = (term, t)
        terms = []
        for n, t, d in sig:
            if n in given:
                term, ta = tr[id(given[n])]
                terms.append(self.coerce(term, ta, t, c))
            else:
                self.need(d is not None, c, 'missing argument %s of %s' % (n, what))
                terms.append(d)
        return binds, terms

    def call(self, c, env):
        f = ast.unparse(c.func)
        if f == 'self.log_util.time_func':
            # LogUtility.time_func(msg, fn, *args) = fn(*args)
            self.need(len(c.args) >= 2 and not c.keywords and isinstance(c.args[0], ast.Constant) and isinstance(c.args[0].value, str),
                      c, 'time_func(msg, f, ..) with anything but a literal message')
            inner = ast.Call(func=c.args[1], args=c.args[2:], keywords=[])
            ast.copy_location(inner, c)
            return self.call(inner, env)
        if f == 'reversed' and len(c.args) == 1 and not c.keywords:
            b, term, t = self.expr(c.args[0], env)
            self.need(t[0] == 'list', c, 'reversed of %s' % (t,))
            return b, '(rev %s)' % term, t
        if f == 'sorted' and len(c.args) == 1:
            b, term, t = self.expr(c.args[0], env)
            if not c.keywords:
                self.need(t == LIST(INT), c, 'sorted of %s without key (only lists of ints)' % (t,))
                return b, '(py_sorted_int %s)' % term, t
            k = c.keywords[0]
            self.need(len(c.keywords) == 1 and k.arg == 'key' and isinstance(k.value, ast.Call) and ast.unparse(k.value.func) == 'attrgetter'
                      and len(k.value.args) == 1 and isinstance(k.value.args[0], ast.Constant) and t == LIST(OBJ)
                      and self.cfg.get('elem_attrs', {}).get(k.value.args[0].value) == FLOAT, c,
                      'sorted with anything but key=attrgetter(<float attribute of the elements>)')
            return b, '(py_sorted_by g_%s %s)' % (k.value.args[0].value, term), t
        if isinstance(c.func, ast.Attribute) and c.func.attr == 'pop' and ast.unparse(c.func.value).startswith('self.') and \
                ast.unparse(c.func.value)[5:] in self.cfg['attrs'] and len(c.args) == 1 and not c.keywords:
            a = ast.unparse(c.func.value)[5:]
            bl, tl, tyl = self.expr(c.func.value, env)
            bi, ti, tyi = self.expr(c.args[0], env)
            self.need(tyl[0] == 'list' and tyi == INT, c, 'pop on %s with %s' % (tyl, tyi))
            x, rest_ = self.m.temp(), self.m.temp()
            return bl + bi + [("'(%s, %s)" % (x, rest_), 'py_list_pop %s %s' % (tl, ti)),
                              ('self', 'Some (set_f_%s self (Some %s))' % (a, rest_))], x, tyl[1]
        if isinstance(c.func, ast.Attribute) and isinstance(c.func.value, ast.Subscript) and \
                ast.unparse(c.func.value.value).startswith('self.') and c.func.attr in self.cfg.get('elem_oracles', {}):
            # self.ATTR[i].m(args): the element after the call is written back at position i
            a = ast.unparse(c.func.value.value)[5:]
            o = self.cfg['elem_oracles'][c.func.attr]
            self.need(a in self.cfg['attrs'] and self.cfg['attrs'][a] == LIST(OBJ) and not c.keywords and len(c.args) == len(o['params']), c,
                      'element method call %s' % f)
            bl, tl, tyl = self.expr(c.func.value.value, env)
            bi, ti, tyi = self.expr(c.func.value.slice, env)
            self.need(tyi == INT, c, 'index of type %s' % (tyi,))
            parts = [self.expr(x_, env) for x_ in c.args]
            args = ''.join(' ' + self.coerce(p_[1], p_[2], t, c) for p_, t in zip(parts, o['params']))
            el, res, el2, l2 = self.m.temp(), self.m.temp(), self.m.temp(), self.m.temp()
            b = bl + bi + sum((p_[0] for p_ in parts), []) + [
                (el, 'py_getitem %s %s' % (tl, ti)), ("'(%s, %s)" % (res, el2), 'e_%s %s%s' % (c.func.attr, el, args)),
                (l2, 'py_setitem %s %s %s' % (tl, ti, el2)), ('self', 'Some (set_f_%s self (Some %s))' % (a, l2))]
            return b, ('tt' if o['ret'] == UNIT else res), o['ret']
        if f == 'len' and len(c.args) == 1 and not c.keywords:
            b, term, t = self.expr(c.args[0], env)
            if t == EMPTYSEQ:
                return b, '(0)%Z', INT
            if t == DYN:
                tmp = self.m.temp()
                return b + [(tmp, 'py_val_len %s' % term)], tmp, INT
            self.need(t[0] in ('list', 'tuple') or t == VDICT, c, 'len of %s' % (t,))
            return b, '(py_len %s)' % term, INT
        if f == 'np.isscalar' and len(c.args) == 1 and not c.keywords:
            b, term, t = self.expr(c.args[0], env)
            if t in (FLOAT, INT):
                return b, 'true', BOOL
            if t[0] in ('list', 'tuple'):
                return b, 'false', BOOL
            self.need(t == DYN, c, 'np.isscalar of %s' % (t,))
            return b, '(py_isscalar %s)' % term, BOOL
        if f == 'isinstance' and len(c.args) == 2 and not c.keywords and isinstance(c.args[1], ast.Name) and c.args[1].id == 'tuple':
            b, term, t = self.expr(c.args[0], env)
            self.need(t[0] in ('list', 'tuple'), c, 'isinstance(.., tuple) of a value of type %s' % (t,))
            return b, 'true' if t[0] == 'tuple' else 'false', BOOL
        if f == 'tuple' and len(c.args) == 1 and not c.keywords:
            b, term, t = self.expr(c.args[0], env)
            self.need(t[0] in ('list', 'tuple') and t[1] is not None, c, 'tuple() of %s' % (t,))
            return b, term, ('tuple', t[1])
        if f == 'np.empty' and len(c.args) == 1 and not c.keywords and isinstance(c.args[0], ast.Tuple) and len(c.args[0].elts) == 2 \
                and isinstance(c.args[0].elts[0], ast.Constant) and c.args[0].elts[0].value == 0:
            b, term, t = self.expr(c.args[0].elts[1], env)
            self.need(t == INT, c, 'np.empty((0, %s))' % (t,))
            return b, '[]', MAT          # no rows
        if f in ('np.array', 'np.asarray') and len(c.args) == 1 and not c.keywords:
            b, term, t = self.expr(c.args[0], env)
            if t == DYN:
                tmp = self.m.temp()
                return b + [(tmp, 'np_array_val %s' % term)], tmp, DYN
            if t == MAT or t == ('list', TUPF):
                return b, term, MAT
            self.need(t[0] in ('list', 'tuple') and t[1] == FLOAT, c, '%s of %s' % (f, t))
            return b, term, ('list', FLOAT)
        if isinstance(c.func, ast.Attribute) and c.func.attr in ('get', 'reshape', 'copy') and not f.startswith('self.' + c.func.attr):
            b, term, t = self.expr(c.func.value, env)
            if c.func.attr == 'get' and t == VDICT:
                self.need(len(c.args) == 2 and not c.keywords and isinstance(c.args[1], ast.Constant) and c.args[1].value is None, c,
                          'dict.get with anything but (key, None)')
                bk, tk, tyk = self.expr(c.args[0], env)
                self.need(tyk == TUPF, c, 'dict key of type %s (only tuples of floats)' % (tyk,))
                return b + bk, '(py_vdict_get %s %s)' % (term, tk), DYN
            if c.func.attr == 'copy' and t == MAT and not c.args and not c.keywords:
                return b, term, MAT
            if c.func.attr == 'reshape' and t == MAT and len(c.args) == 1 and not c.keywords and isinstance(c.args[0], ast.Tuple) \
                    and len(c.args[0].elts) == 2:
                p1, p2 = [self.expr(x, env) for x in c.args[0].elts]
                self.need(p1[2] == INT and p2[2] == INT, c, 'reshape to a non-integer shape')
                tmp = self.m.temp()
                return b + p1[0] + p2[0] + [(tmp, 'py_reshape2 %s %s %s' % (term, p1[1], p2[1]))], tmp, MAT
            self.rej(c, 'method %s on a value of type %s' % (c.func.attr, t))
        if f == 'list' and len(c.args) == 1 and not c.keywords:
            b, term, t = self.expr(c.args[0], env)
            self.need(t[0] == 'list', c, 'list() of %s' % (t,))
            return b, term, t
        if f.startswith('self.'):
            p = f[5:]
            if p in self.cfg['oracles']:
                o = self.cfg['oracles'][p]
                b, terms = self.bind_args(o['signature'], c, env, f)
                tmp = self.m.temp()
                b.append(("'(%s, self)" % tmp, 'call_%s self %s' % (p, ' '.join(terms))))
                return b, ('tt' if o['ret'] == UNIT else tmp), o['ret']
            if p in self.cfg['path_oracles']:
                o = self.cfg['path_oracles'][p]
                self.need(not c.args and not c.keywords, c, 'arguments of %s' % f)
                tmp = self.m.temp()
                return [("'(%s, self)" % tmp, 'call_%s self' % p.replace('.', '_'))], tmp, o['ret']
            if p in self.m.methods and self.m.methods[p]['ret'] is not None:
                g = self.m.methods[p]
                b, terms = self.bind_args(g['sig'], c, env, f)
                tmp = self.m.temp()
                b.append(("'(%s, self)" % tmp, '%s_%s fuel self %s' % (self.cfg['cls'], p, ' '.join(terms))))
                return b, tmp, g['ret']
            self.rej(c, 'call of %s: neither a declared oracle nor a translated method' % f)
        self.rej(c, 'call of %s' % f)


def render(mach, fns):
    cfg = mach.cfg
    opq = []
    for t in list(cfg['attrs'].values()) + list(cfg['abstract_attrs'].values()) + [o['ret'] for o in cfg['oracles'].values()] + \
            [o['ret'] for o in cfg['path_oracles'].values()] + list(cfg['param_types'].values()) + \
            [t for o in cfg['oracles'].values() for t in o['params'].values()] + \
            [o['ret'] for o in cfg.get('elem_oracles', {}).values()] + [t for o in cfg.get('elem_oracles', {}).values() for t in o['params']]:
        opaque_names(t, opq)
    cname = cfg['cls']
    out = ['(* GENERATED by harness/translate/py2gallina_machine.py --target %s -- DO NOT EDIT.  Regenerated from the Python source at'
           '\n   every ./setup.sh %s and ./check %s run.  Scheme: header of the translator; semantics: Base/PyLib.v, PyNum.v, PyMachine.v.'
           '\n   source: %s, class %s *)' % ([k for k, v in TARGETS.items() if v is cfg][0], cfg['prop'], cfg['prop'], cfg['file'], cname),
           'From Coq Require Import ZArith List Bool QArith Qcanon.',
           'From SG Require Import Base.QcUtil Base.PyLib Base.PyNum Base.PyMachine%s.' % (' Base.PyValue' if cfg['prop'] == 'C12' else ' Base.PySort' if cfg['prop'] == 'C06' else ''),
           'Import ListNotations.', 'Open Scope Z_scope.', 'Open Scope py_scope.', '',
           'Section %s.' % cname,
           '(* the abstract part of the object and the opaque value types *)',
           'Variable St : Type.']
    if opq:
        out.append('Variables %s : Type.' % ' '.join('T_' + n for n in opq))
    out.append('(* abstract attributes: total projections *)')
    for a, t in cfg['abstract_attrs'].items():
        out.append('Variable g_%s : St -> %s.' % (a.replace('.', '_'), gt(t)))
    for t in list(cfg.get('elem_attrs', {}).values()) + [o['ret'] for o in cfg.get('elem_oracles', {}).values()] + \
            [t for o in cfg.get('elem_oracles', {}).values() for t in o['params']]:
        pass
    for a, t in cfg.get('elem_attrs', {}).items():
        out.append('Variable g_%s : T_obj -> %s.   (* attribute .%s of an element *)' % (a, gt(t), a))
    for n, o in cfg.get('elem_oracles', {}).items():
        out.append('Variable e_%s : T_obj%s -> option (%s * T_obj).   (* method .%s(..) of an element: result and the element after the call *)'
                   % (n, ''.join(' -> ' + gt(t) for t in o['params']), gt(o['ret']), n))
    out.append('(* oracle methods (signatures read from the source): None = the call raises *)')
    for n, o in cfg['oracles'].items():
        ps = ''.join(' -> %s' % gt(t) for _, t, _ in o['signature'])
        doc = ', '.join('%s%s' % (pn, '' if d is None else ' = %s' % d) for pn, t, d in o['signature'])
        out.append('Variable m_%s : St%s -> option (%s * St).   (* %s  self.%s(%s) *)' % (n, ps, gt(o['ret']), o['line'], n, doc))
    for n, o in cfg['path_oracles'].items():
        out.append('Variable m_%s : St -> option (%s * St).   (* self.%s() *)' % (n.replace('.', '_'), gt(o['ret']), n))
    out.append('')
    out.append('(* the concrete attributes; None = not set yet (reading raises AttributeError) *)')
    fields = list(cfg['attrs'])
    out.append('Record Self_t : Type := mk_Self_t {\n  a_st : St;\n' + ';\n'.join('  f_%s : option %s' % (a, gt(cfg['attrs'][a])) for a in fields) + '\n}.')
    # (updates by pattern matching: the object is mentioned once, terms stay small when it is not yet a constructor)
    pat = 'mk_Self_t x_st ' + ' '.join('x_%s' % b for b in fields)
    out.append('Definition set_a_st (o : Self_t) v : Self_t := match o with %s => mk_Self_t v %s end.' % (pat, ' '.join('x_%s' % b for b in fields)))
    for a in fields:
        out.append('Definition set_f_%s (o : Self_t) v : Self_t := match o with %s => mk_Self_t x_st %s end.' % (
            a, pat, ' '.join('v' if b == a else 'x_%s' % b for b in fields)))
    out.append('(* an oracle call on the object: the abstract part is replaced by the one the oracle returns *)')
    for n, o in cfg['oracles'].items():
        ps = ''.join(' (x%d : %s)' % (i, gt(t)) for i, (_, t, _) in enumerate(o['signature']))
        xs = ''.join(' x%d' % i for i in range(len(o['signature'])))
        out.append('Definition call_%s (self : Self_t)%s : option (%s * Self_t) :=\n  match m_%s (a_st self)%s with Some (r, st) => Some (r, set_a_st self st) | None => None end.'
                   % (n, ps, gt(o['ret']), n, xs))
    for n, o in cfg['path_oracles'].items():
        nn = n.replace('.', '_')
        out.append('Definition call_%s (self : Self_t) : option (%s * Self_t) :=\n  match m_%s (a_st self) with Some (r, st) => Some (r, set_a_st self st) | None => None end.'
                   % (nn, gt(o['ret']), nn))
    out.append('')
    out += fns
    out.append('End %s.' % cname)
    return '\n'.join(out) + '\n'


def main(argv):
    repo = os.environ.get('VERIF_REPO', '/repo')
    target, outp, to_stdout = None, None, False
    i = 0
    while i < len(argv):
        if argv[i] == '--repo':
            repo = argv[i + 1]; i += 2
        elif argv[i] == '--out':
            outp = argv[i + 1]; i += 2
        elif argv[i] == '--target':
            target = argv[i + 1]; i += 2
        elif argv[i] == '--stdout':
            to_stdout = True; i += 1
        else:
            sys.stderr.write(__doc__); return 2
    if target not in TARGETS:
        sys.stderr.write(__doc__); return 2
    cfg = TARGETS[target]
    outp = outp or os.path.join(VERIF, 'coq', 'Gen', cfg['out'])
    mach = Machine(repo, cfg)
    rc = 0
    try:
        text = render(mach, mach.translate())
    except (Reject, OSError, SyntaxError) as r:
        if isinstance(r, Reject):
            msg = 'py2gallina_machine: REJECT %s:%d: %s' % (mach.curfile, r.line, r.what)
        else:
            msg = 'py2gallina_machine: REJECT cannot read/parse the source: %s' % (r,)
        sys.stderr.write(msg + '\n')
        text = ('(* GENERATED by harness/translate/py2gallina_machine.py -- the translator REJECTED the source:\n   %s\n'
                '   The definition below is ill-typed on purpose: nothing that depends on the generated model may build. *)\n'
                'Definition translator_rejected_the_source : False := I.\n') % msg.replace('*)', '* )').replace('(*', '( *')
        rc = 1
    if to_stdout:
        sys.stdout.write(text)
        return rc
    if rc != 0:
        # nothing may be compiled against the compiled form of an earlier, accepted source
        for ext in ('.vo', '.vos', '.vok', '.glob'):
            try:
                os.remove(outp[:-2] + ext)
            except OSError:
                pass
    old = open(outp).read() if os.path.exists(outp) else None
    if old != text:
        os.makedirs(os.path.dirname(outp), exist_ok=True)
        tmp = outp + '.tmp%d' % os.getpid()
        open(tmp, 'w').write(text)
        os.replace(tmp, outp)
    return rc


if __name__ == '__main__':
    sys.exit(main(sys.argv[1:]))
