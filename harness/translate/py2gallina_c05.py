#!/venv/bin/python
"""py2gallina_c05.py -- FAIL-CLOSED source-derived model of the ACCUMULATION CODE of property C05 -> coq/Gen/AccumGen.v.

Translated (sparseSpACE/GridOperation.py, class Integration): evaluate_area, area_preprocessing, process_removed_objects, get_result,
reset_result, initialize; evaluate_area_for_error_estimates (effect analysis, see effect_free); plus the CALL SITES of evaluate_area in SpatiallyAdaptivBase.evaluate_operation_area (the driver's main
evaluation) and SpatiallyAdaptiveExtendScheme.calculate_new_twin_errors (the side evaluations): which container argument and which
apply_to_combi_result they pass (default read from the signature).  Theorems: coq/Props/C05gen.v (generated functions = the transitions
AEval / ASide / APre / ARemove / AResetTotal / AInit of Model/Accum.v).

Reading.  The methods touch three CELLS: area.value (None or a value), refinement_container.value (the container may be None) and
self.integral.  Values live in an abstract commutative group V (numpy arrays of the output length); `x * componentgrid_info.coefficient`
is `scale c x` for an abstract action of the coefficients C on V; np.zeros(self.f.output_length()) is vzero; np.array(X, copy=True) is X
(the copy is the aliasing matter of the check's result-aliased oracle, not of the values).  ORACLES (their results are parameters):
self.grid.integrate(..) = p, np.prod(self.grid.levelToNumPoints(..)) = the returned evaluation count (not part of the cells),
self.f.reset_dictionary() (Function cache, C12: no effect on the cells).  area.set_value(E) is `area.value = E` - accepted only if
RefinementObject.set_value in sparseSpACE/RefinementObject.py IS `self.value = value`.
The translation is a symbolic execution of straight-line code with `if`: every statement must be one of
    NAME = <oracle call>            T = E | T += E | T -= E   with T in {area.value, refinement_container.value, self.integral}
    area.set_value(E)               self.f.reset_dictionary()            return NAME | return E
    if area.value is None: .. else: ..      if refinement_container is not None: ..      if apply_to_combi_result: ..
    for removed_object in removed_objects: self.integral -= removed_object.value      (a fold)
with E built from names, `E * componentgrid_info.coefficient`, np.zeros(self.f.output_length()), np.array(self.integral, copy=True),
the cells (a cell that may be None can only be read where the code has tested it).  Everything else is REJECTED with file:line and
the output becomes a stub that does not compile.
Usage: py2gallina_c05.py [--repo DIR] [--out FILE] [--stdout]"""
import ast
import warnings
warnings.filterwarnings("ignore", category=SyntaxWarning)
import os
import sys

HERE = os.path.dirname(os.path.abspath(__file__))
VERIF = os.path.dirname(os.path.dirname(HERE))


class Reject(Exception):
    pass


def rej(path, node, why):
    raise Reject('%s:%s: %s' % (path, getattr(node, 'lineno', '?'), why))


def find_method(tree, cls, name, path):
    for n in tree.body:
        if isinstance(n, ast.ClassDef) and n.name == cls:
            for m in n.body:
                if isinstance(m, ast.FunctionDef) and m.name == name:
                    return m
    raise Reject('%s: method %s.%s not found' % (path, cls, name))


def src(node):
    return ast.unparse(node)


CELLS = {'area.value': 'av', 'refinement_container.value': 'cv', 'self.integral': 'tot'}


class Sym:
    """symbolic state: cell -> (kind, expr); kind 'opt' = Gallina term of type option V, 'val' = term of type V (cell known to hold a value)"""

    def __init__(self, path, optional):
        self.path = path
        self.cells = {}
        for k, v in CELLS.items():
            self.cells[k] = ('opt', v) if k in optional else ('val', v)
        self.locals = {}
        self.ret = None
        self.fresh = 0

    def copy(self):
        s = Sym.__new__(Sym)
        s.path, s.cells, s.locals, s.ret, s.fresh = self.path, dict(self.cells), dict(self.locals), self.ret, self.fresh
        return s

    def as_opt(self, cell):
        kind, e = self.cells[cell]
        return e if kind == 'opt' else '(Some %s)' % e


def cell_of(node):
    s = src(node)
    return s if s in CELLS else None


def tr_expr(node, st, loopvar=None):
    p = st.path
    c = cell_of(node)
    if c:
        kind, e = st.cells[c]
        if kind != 'val':
            rej(p, node, 'cell %s is read where it may be None' % c)
        return e
    if isinstance(node, ast.Name):
        if node.id in st.locals:
            return st.locals[node.id]
        rej(p, node, 'unknown name %s' % node.id)
    if loopvar and src(node) == loopvar + '.value':
        return 'v_removed'
    if isinstance(node, ast.BinOp) and isinstance(node.op, ast.Mult) and src(node.right) == 'componentgrid_info.coefficient':
        return '(scale c %s)' % tr_expr(node.left, st, loopvar)
    if src(node) == 'np.zeros(self.f.output_length())':
        return 'vzero'
    if isinstance(node, ast.Call) and src(node.func) == 'np.array' and len(node.args) == 1 and [(k.arg, src(k.value)) for k in node.keywords] == [('copy', 'True')]:
        return tr_expr(node.args[0], st, loopvar)
    rej(p, node, 'expression outside the subset: %s' % src(node))


def assign(st, cell, e):
    st.cells[cell] = ('val', e)


def merge(st, test_kind, scrut, binder, s1, s2, node):
    """s1 = state after the first branch, s2 after the second; builds the conditional terms"""
    out = st
    for cell in CELLS:
        if s1.cells[cell] == s2.cells[cell]:
            out.cells[cell] = s1.cells[cell]
            continue
        k1, k2 = s1.cells[cell][0], s2.cells[cell][0]
        if k1 == 'val' and k2 == 'val':
            a, b, kind = s1.cells[cell][1], s2.cells[cell][1], 'val'
        else:
            a, b, kind = s1.as_opt(cell), s2.as_opt(cell), 'opt'
        if test_kind == 'bool':
            out.cells[cell] = (kind, '(if %s then %s else %s)' % (scrut, a, b))
        elif test_kind == 'is_none':          # first branch: None
            out.cells[cell] = (kind, '(match %s with None => %s | Some %s => %s end)' % (scrut, a, binder, b))
        else:                                 # 'is_not_none': first branch: Some
            out.cells[cell] = (kind, '(match %s with Some %s => %s | None => %s end)' % (scrut, binder, a, b))
    if s1.locals != s2.locals:
        rej(st.path, node, 'a local name is assigned in one branch only')
    if s1.ret is not None or s2.ret is not None:
        rej(st.path, node, 'return inside a conditional')
    out.locals = s1.locals


ORACLES = {
    'self.grid.integrate(self.f, levelvector, area.start, area.end)': 'p',
    'np.prod(self.grid.levelToNumPoints(levelvector))': 'evaluations_oracle',
}


def exec_block(stmts, st, set_value_ok):
    p = st.path
    for s in stmts:
        if st.ret is not None:
            rej(p, s, 'statement after return')
        if isinstance(s, ast.Expr) and isinstance(s.value, ast.Constant) and isinstance(s.value.value, str):
            continue                                                     # docstring
        if isinstance(s, ast.Assign) and len(s.targets) == 1:
            t = s.targets[0]
            c = cell_of(t)
            if c:
                assign(st, c, tr_expr(s.value, st))
            elif isinstance(t, ast.Name) and src(s.value) in ORACLES:
                st.locals[t.id] = ORACLES[src(s.value)]
            else:
                rej(p, s, 'assignment outside the subset: %s' % src(s))
        elif isinstance(s, ast.AugAssign) and isinstance(s.op, (ast.Add, ast.Sub)):
            c = cell_of(s.target)
            if not c:
                rej(p, s, 'augmented assignment to %s' % src(s.target))
            kind, cur = st.cells[c]
            if kind != 'val':
                rej(p, s, 'cell %s is updated where it may be None' % c)
            e = tr_expr(s.value, st)
            assign(st, c, '(vadd %s %s)' % (cur, e) if isinstance(s.op, ast.Add) else '(vadd %s (vopp %s))' % (cur, e))
        elif isinstance(s, ast.Expr) and isinstance(s.value, ast.Call) and src(s.value.func) == 'area.set_value' and len(s.value.args) == 1 and not s.value.keywords:
            if not set_value_ok:
                rej(p, s, 'RefinementObject.set_value is not `self.value = value`')
            assign(st, 'area.value', tr_expr(s.value.args[0], st))
        elif isinstance(s, ast.Expr) and src(s.value) == 'self.f.reset_dictionary()':
            continue                                                     # oracle without effect on the cells (Function cache, C12)
        elif isinstance(s, ast.Return):
            st.ret = src(s.value) if s.value is not None else 'None'
        elif isinstance(s, ast.If):
            t = src(s.test)
            if t == 'area.value is None' or t == 'refinement_container is not None':
                cell = 'area.value' if t.startswith('area') else 'refinement_container.value'
                kind, scrut = st.cells[cell]
                if kind != 'opt':
                    rej(p, s, 'test %s on a cell that is known to hold a value' % t)
                st.fresh += 1
                binder = 'w%d' % st.fresh
                s_none, s_some = st.copy(), st.copy()
                s_some.cells[cell] = ('val', binder)
                if t == 'area.value is None':
                    exec_block(s.body, s_none, set_value_ok); exec_block(s.orelse, s_some, set_value_ok)
                    # in the None branch the cell must have been assigned (or is still None)
                    if s_none.cells[cell] == ('opt', scrut):
                        s_none.cells[cell] = ('opt', 'None')
                    st.fresh = max(s_none.fresh, s_some.fresh)
                    merge(st, 'is_none', scrut, binder, s_none, s_some, s)
                else:
                    exec_block(s.body, s_some, set_value_ok); exec_block(s.orelse, s_none, set_value_ok)
                    if s_none.cells[cell] == ('opt', scrut):
                        s_none.cells[cell] = ('opt', 'None')
                    st.fresh = max(s_none.fresh, s_some.fresh)
                    merge(st, 'is_not_none', scrut, binder, s_some, s_none, s)
            elif t == 'apply_to_combi_result':
                s1, s2 = st.copy(), st.copy()
                exec_block(s.body, s1, set_value_ok); exec_block(s.orelse, s2, set_value_ok)
                merge(st, 'bool', 'apply', None, s1, s2, s)
            else:
                rej(p, s, 'if-test outside the subset: %s' % t)
        else:
            rej(p, s, 'statement outside the subset: %s' % src(s).splitlines()[0])
    return st


def translate_method(tree, path, name, optional, set_value_ok=True):
    m = find_method(tree, 'Integration', name, path)
    st = Sym(path, optional)
    exec_block(m.body, st, set_value_ok)
    return m, st


def translate_removed(tree, path):
    m = find_method(tree, 'Integration', 'process_removed_objects', path)
    body = [s for s in m.body if not (isinstance(s, ast.Expr) and isinstance(s.value, ast.Constant))]
    if len(body) != 1 or not isinstance(body[0], ast.For) or src(body[0].iter) != 'removed_objects' or not isinstance(body[0].target, ast.Name) or body[0].orelse:
        rej(path, m, 'process_removed_objects is not a single loop over removed_objects')
    loop = body[0]
    var = loop.target.id
    st = Sym(path, set())
    st.cells['self.integral'] = ('val', 'acc')
    for s in loop.body:
        if isinstance(s, ast.AugAssign) and isinstance(s.op, (ast.Add, ast.Sub)) and cell_of(s.target) == 'self.integral':
            e = tr_expr(s.value, st, loopvar=var)
            cur = st.cells['self.integral'][1]
            st.cells['self.integral'] = ('val', '(vadd %s %s)' % (cur, e) if isinstance(s.op, ast.Add) else '(vadd %s (vopp %s))' % (cur, e))
        else:
            rej(path, s, 'loop body outside the subset: %s' % src(s))
    return m, st.cells['self.integral'][1]


def call_sites(repo):
    """(container passed?, apply_to_combi_result) of the evaluate_area calls of the driver and of the twin-error code"""
    gp = os.path.join(repo, 'sparseSpACE/GridOperation.py')
    sig = find_method(ast.parse(open(gp).read()), 'Integration', 'evaluate_area', gp)
    names = [a.arg for a in sig.args.args]
    if names != ['self', 'area', 'levelvector', 'componentgrid_info', 'refinement_container', 'additional_info', 'apply_to_combi_result'] \
            or len(sig.args.defaults) != 1 or not isinstance(sig.args.defaults[0], ast.Constant) or not isinstance(sig.args.defaults[0].value, bool):
        rej(gp, sig, 'signature of evaluate_area changed: %s' % names)
    default = sig.args.defaults[0].value

    def sites(path, cls, meth):
        m = find_method(ast.parse(open(path).read()), cls, meth, path)
        out = []
        for n in ast.walk(m):
            if isinstance(n, ast.Call) and src(n.func) == 'self.operation.evaluate_area':
                if len(n.args) < 5 or len(n.args) > 6 or any(k.arg != 'apply_to_combi_result' for k in n.keywords):
                    rej(path, n, 'call shape of evaluate_area')
                cont = src(n.args[3])
                if cont not in ('None', 'self.refinement'):
                    rej(path, n, 'container argument %s' % cont)
                ap = n.args[5] if len(n.args) == 6 else (n.keywords[0].value if n.keywords else None)
                if ap is not None and not (isinstance(ap, ast.Constant) and isinstance(ap.value, bool)):
                    rej(path, n, 'apply_to_combi_result is not a literal')
                out.append((n.lineno, cont != 'None', default if ap is None else ap.value))
        return out
    bp = os.path.join(repo, 'sparseSpACE/spatiallyAdaptiveBase.py')
    ep = os.path.join(repo, 'sparseSpACE/spatiallyAdaptiveExtendSplit.py')
    return default, sites(bp, 'SpatiallyAdaptivBase', 'evaluate_operation_area'), sites(ep, 'SpatiallyAdaptiveExtendScheme', 'calculate_new_twin_errors')


# ---------------------------------------------------------------- effect analysis of evaluate_area_for_error_estimates
ALLOWED_CALL_PREFIXES = ('np.', 'self.grid.', 'self.f.', 'LA.')
ALLOWED_CALLS = {'self.f', 'zip', 'enumerate', 'list', 'range', 'len', 'isinstance', 'abs', 'float', 'int', 'tuple', 'min', 'max', 'sum',
                 'additional_info.filter_area.point_in_area', 'Interpolation.interpolate_points', 'get_cross_product_list', 'get_cross_product',
                 'g.ravel'}
CELL_ATTRS = ('value', 'integral')


def is_bare_cell(node):
    return isinstance(node, ast.Attribute) and node.attr in CELL_ATTRS


def check_store(path, node, target):
    """store targets of an estimate evaluation: local names, or fields of a parent_info record - never a cell"""
    if isinstance(target, ast.Name):
        return
    if isinstance(target, (ast.Tuple, ast.List)):
        for e in target.elts:
            check_store(path, node, e)
        return
    if isinstance(target, ast.Subscript) and isinstance(target.value, ast.Name):
        return                                                        # element of a local array
    if isinstance(target, ast.Attribute) and target.attr not in CELL_ATTRS and '.parent_info.' in (src(target) + '.'):
        return
    rej(path, node, 'estimate evaluation writes %s' % src(target))


def effect_free(tree, path, cls_order, name, seen):
    """fail-closed: the method (and every self.method it calls) stores only into locals and parent_info fields, never binds a name or a
    field to a bare cell (no aliasing of area.value / self.integral), and calls only oracles on other objects / pure helpers"""
    if name in seen:
        return
    seen.add(name)
    m = None
    for cls in cls_order:
        try:
            m = find_method(tree, cls, name, path)
            break
        except Reject:
            continue
    if m is None:
        raise Reject('%s: method %s not found in %s' % (path, name, cls_order))
    for n in ast.walk(m):
        if isinstance(n, (ast.Assign, ast.AnnAssign)):
            targets = n.targets if isinstance(n, ast.Assign) else [n.target]
            for t in targets:
                check_store(path, n, t)
            if n.value is not None and is_bare_cell(n.value):
                rej(path, n, 'a name or field is bound to the cell %s itself (aliasing): %s' % (src(n.value), src(n)))
        elif isinstance(n, ast.AugAssign):
            check_store(path, n, n.target)
        elif isinstance(n, (ast.Delete, ast.Global, ast.Nonlocal)):
            rej(path, n, 'statement %s' % src(n))
        elif isinstance(n, ast.For):
            check_store(path, n, n.target)
        elif isinstance(n, ast.Call):
            f = src(n.func)
            if f.startswith('self.') and f.count('.') == 1 and f != 'self.f':
                effect_free(tree, path, cls_order, f[5:], seen)
            elif f in ALLOWED_CALLS or f.startswith(ALLOWED_CALL_PREFIXES) or (isinstance(n.func, ast.Attribute) and n.func.attr in ('astype', 'ravel', 'reshape', 'append', 'T')):
                if f.endswith('.append') and not isinstance(n.func.value, ast.Name):
                    rej(path, n, 'append to %s' % src(n.func.value))
            else:
                rej(path, n, 'call of %s in an estimate evaluation' % f)
            for a in n.args:
                if is_bare_cell(a) and not f.startswith('np.array'):
                    pass                                              # reading a cell as an argument is fine (values are not mutated by the oracles)


def cb(b):
    return 'true' if b else 'false'


def generate(repo):
    gp = os.path.join(repo, 'sparseSpACE/GridOperation.py')
    rp = os.path.join(repo, 'sparseSpACE/RefinementObject.py')
    tree = ast.parse(open(gp).read())
    sv = find_method(ast.parse(open(rp).read()), 'RefinementObject', 'set_value', rp)
    set_value_ok = [a.arg for a in sv.args.args] == ['self', 'value'] and [src(s) for s in sv.body] == ['self.value = value']
    out = []
    w = out.append
    w('(* GENERATED by harness/translate/py2gallina_c05.py from sparseSpACE/GridOperation.py (class Integration), RefinementObject.py,')
    w('   spatiallyAdaptiveBase.py, spatiallyAdaptiveExtendSplit.py - do not edit.  Cells: av = area.value (None or a value),')
    w('   cv = refinement_container.value (None = no container passed), tot = self.integral. *)')
    w('From Coq Require Import List Bool.')
    w('Import ListNotations.')
    w('Section AccumGen.')
    w('  Variable V : Type.  Variable C : Type.')
    w('  Variable vzero : V.  Variable vadd : V -> V -> V.  Variable vopp : V -> V.  Variable scale : C -> V -> V.')
    m, st = translate_method(tree, gp, 'evaluate_area', {'area.value', 'refinement_container.value'}, set_value_ok)
    if st.ret != 'evaluations' or st.locals.get('evaluations') != 'evaluations_oracle':
        rej(gp, m, 'evaluate_area does not return the evaluation count of the grid')
    w('  (* %s *)' % ' | '.join(l.strip() for l in src(m).splitlines()[:14]))
    w('  Definition gen_evaluate_area (av cv : option V) (tot : V) (apply : bool) (p : V) (c : C) : option V * option V * V :=')
    w('    (%s, %s, %s).' % (st.as_opt('area.value'), st.as_opt('refinement_container.value'), st.cells['self.integral'][1]))
    m, st = translate_method(tree, gp, 'area_preprocessing', {'area.value'}, set_value_ok)
    if st.ret is not None:
        rej(gp, m, 'area_preprocessing returns a value')
    w('  (* %s *)' % ' | '.join(l.strip() for l in src(m).splitlines()))
    w('  Definition gen_area_preprocessing (av : option V) : option V := %s.' % st.as_opt('area.value'))
    if st.cells['self.integral'] != ('val', 'tot') or st.cells['refinement_container.value'] != ('val', 'cv'):
        rej(gp, m, 'area_preprocessing touches the result or the container')
    m, e = translate_removed(tree, gp)
    w('  (* %s *)' % ' | '.join(l.strip() for l in src(m).splitlines()))
    w('  Definition gen_process_removed_objects (removed_values : list V) (tot : V) : V :=')
    w('    fold_left (fun acc v_removed => %s) removed_values tot.' % e)
    for name, gname in (('get_result', 'gen_get_result'), ('reset_result', 'gen_reset_result'), ('initialize', 'gen_initialize')):
        m, st = translate_method(tree, gp, name, set())
        w('  (* %s *)' % ' | '.join(l.strip() for l in src(m).splitlines()))
        if name == 'get_result':
            if st.ret is None or st.cells['self.integral'] != ('val', 'tot'):
                rej(gp, m, 'get_result')
            r = Sym(gp, set())
            val = tr_expr(ast.parse(st.ret, mode='eval').body, r)
            w('  Definition %s (tot : V) : V * V := (%s, %s).   (* (returned value, self.integral afterwards) *)' % (gname, val, st.cells['self.integral'][1]))
        else:
            if st.ret is not None:
                rej(gp, m, name + ' returns a value')
            w('  Definition %s (tot : V) : V := %s.' % (gname, st.cells['self.integral'][1]))
    seen = set()
    effect_free(tree, gp, ['Integration', 'AreaOperation', 'GridOperation'], 'evaluate_area_for_error_estimates', seen)
    w('  (* evaluate_area_for_error_estimates and the methods of self it calls (%s): EFFECT ANALYSIS - every store goes to a local name or to a' % ', '.join(sorted(seen)))
    w('     field of a parent_info record, nothing is bound to a cell itself (no alias of area.value / self.integral), every call is an oracle on')
    w('     another object or a pure helper: the cells are untouched *)')
    w('  Definition gen_evaluate_area_for_error_estimates (av cv : option V) (tot : V) : option V * option V * V := (av, cv, tot).')
    default, main, twins = call_sites(repo)
    if len(main) != 1:
        rej(os.path.join(repo, 'sparseSpACE/spatiallyAdaptiveBase.py'), None, 'evaluate_operation_area: %d calls of evaluate_area' % len(main))
    w('  (* call sites: (a container is passed, apply_to_combi_result); default of the signature: %s *)' % default)
    w('  Definition gen_default_apply : bool := %s.' % cb(default))
    w('  Definition gen_main_call : bool * bool := (%s, %s).   (* spatiallyAdaptiveBase.py:%d *)' % (cb(main[0][1]), cb(main[0][2]), main[0][0]))
    w('  Definition gen_twin_calls : list (bool * bool) := [%s].   (* spatiallyAdaptiveExtendSplit.py:%s *)'
      % ('; '.join('(%s, %s)' % (cb(c), cb(a)) for _, c, a in twins), ','.join(str(l) for l, _, _ in twins)))
    w('End AccumGen.')
    return '\n'.join(out) + '\n'


def main():
    args = sys.argv[1:]
    repo = os.environ.get('VERIF_REPO', '/repo')
    out = os.path.join(VERIF, 'coq', 'Gen', 'AccumGen.v')
    stdout = False
    while args:
        a = args.pop(0)
        if a == '--repo':
            repo = args.pop(0)
        elif a == '--out':
            out = args.pop(0)
        elif a == '--stdout':
            stdout = True
    try:
        text = generate(repo)
        rc = 0
    except Reject as e:
        sys.stderr.write('py2gallina_c05: REJECTED %s\n' % e)
        text = '(* GENERATED stub: the translator rejected the source: %s *)\nThis file does not compile.\n' % str(e).replace('*)', '* )')
        rc = 1
    if stdout:
        sys.stdout.write(text)
        return rc
    old = open(out).read() if os.path.exists(out) else None
    if old != text:
        os.makedirs(os.path.dirname(out), exist_ok=True)
        open(out, 'w').write(text)
    return rc


if __name__ == '__main__':
    sys.exit(main())
